(** parse_dump_abs, part 3 of 3: the document-level printer/parser theorem.

      for every document [d] whose fields are well-formed ([para_wf], DocInv.v), whose line
      structure is valid ([lines_ok]: only the very end may lack its newline) and whose item
      structure is one the parser produces ([doc_canon], Abs.v):

         parse_accepting (lines_of (dump d)) = Ok t   and   abs_of_tree t = Ok (norm_doc d)

    where [parse_accepting] is the parser model of C01 (Token.v + Parse.v), [dump] the printer of
    the document model of C05 (Doc.v), [abs_of_tree] the abstraction of Abs.v.  The proof goes
    through a "tokenised document" [td] (ParseDumpAbsStages.v): the tokenizer turns the lines of
    the dump into [R0 td] (this file, on top of ParseDumpAbsTok.v), the six stages turn [R0 td]
    into [R5 td], and [abs_of_tree] reads [doc_of td = norm_doc d] off it.

    Parametric in the two field-name classes of the tokenizer, which must agree pointwise with
    the classes Doc.v uses; whitespace is [py_isspace] as in Doc.v. *)
From Coq Require Import Lia ZifyBool.
From Verif Require Import Lib.Base Lib.PyStr Gen.PyChars Repro.Token Repro.Parse Repro.LosslessSpec
  Repro.TokenProofs Repro.ParseProofs.
From Verif Require Import Repro.Doc Repro.DocInv Repro.DocDup Repro.DocProofs Repro.Abs
  Repro.ParseDumpAbsStages Repro.ParseDumpAbsTok.

(** * Lines *)

Lemma ends_lf_nl s : ends_lf s = ends_nl s.
Proof. reflexivity. Qed.

Lemma lf_free_nolf s : lf_free s = nolf s.
Proof. unfold lf_free, nolf. apply mem_char_forallb. Qed.

Lemma form1_lines_acc s : forall cur,
  lf_free (rev cur) = true -> form1 (lines_acc s cur) = true.
Proof.
  induction s as [|x s IH]; intros cur Hcur.
  - cbn [lines_acc]. destruct cur as [|c cur]; [reflexivity|]. cbn [Doc.is_nil form1].
    unfold line1_ok. remember (rev (c :: cur)) as r eqn:E. destruct r as [|y r].
    + cbn [rev] in E. destruct (rev cur); discriminate.
    + rewrite lf_free_nolf in *. now apply nolf_removelast.
  - cbn [lines_acc]. destruct (N.eqb_spec x LF) as [->|Hne].
    + assert (H1 : line1_ok (rev cur ++ [LF]) = true) by now rewrite line1_ok_snoc.
      assert (H2 : terminated (rev cur ++ [LF]) = true) by apply (ends_lf_app_lf (rev cur)).
      specialize (IH [] eq_refl).
      destruct (lines_acc s []) as [|l ls] eqn:E; cbn [form1]; [exact H1|].
      now rewrite H1, H2.
    + apply IH. cbn [rev]. rewrite lf_free_app, Hcur. cbn [andb].
      rewrite lf_free_cons. apply N.eqb_neq in Hne. now rewrite Hne.
Qed.

Lemma form1_lf_lines s : form1 (lf_lines s) = true.
Proof. rewrite lf_lines_acc. now apply form1_lines_acc. Qed.

Lemma lf_lines_nonempty s : s <> [] -> lf_lines s <> [].
Proof. intros H. rewrite lf_lines_acc. now apply lines_acc_nonempty. Qed.

Lemma lf_lines_single s : s <> [] -> lf_free s = true -> lf_lines s = [s].
Proof.
  intros Hn H. rewrite lf_lines_acc. rewrite <- (app_nil_r s) at 1.
  rewrite lf_free_nolf in H. rewrite lines_acc_nolf by exact H. rewrite app_nil_r.
  cbn [lines_acc]. destruct (rev s) eqn:E.
  - apply (f_equal (@rev N)) in E. rewrite rev_involutive in E. now subst s.
  - cbn [Doc.is_nil]. rewrite <- E. now rewrite rev_involutive.
Qed.

Lemma lf_lines_closed_all s : closed s = true -> forallb ends_nl (lf_lines s) = true.
Proof.
  intros H. rewrite lf_lines_acc. apply lines_acc_closed. unfold closed in H.
  destruct s; [reflexivity|exact H].
Qed.

(** the lines of a document *)
Definition item_lines (it : item) : list str :=
  match it with
  | Para p => concat (map flines (para_fields p))
  | Other _ t => lf_lines t
  end.
Definition doc_lines (d : doc) : list str := concat (map item_lines d).

Lemma para_wf_rest_colon fs : forallb field_wf fs = true -> forallb rest_colon fs = true.
Proof.
  intros H. rewrite forallb_forall in *. intros f Hf. apply field_wf_rest_colon. now apply H.
Qed.

Lemma lf_lines_dump d :
  forallb para_wf (paras d) = true -> DocInv.lines_ok d = true ->
  lf_lines (Doc.dump d) = doc_lines d.
Proof.
  induction d as [|it d IH]; intros Hwf Hl; [reflexivity|].
  cbn [DocInv.lines_ok] in Hl. apply andb_true_iff in Hl. destruct Hl as [Hl Hl3].
  apply andb_true_iff in Hl. destruct Hl as [Hl1 Hl2].
  assert (Hwf' : forallb para_wf (paras d) = true).
  { destruct it; cbn [paras flat_map app forallb] in Hwf; [|exact Hwf].
    apply andb_true_iff in Hwf. apply Hwf. }
  assert (Hit : lf_lines (item_text it) = item_lines it).
  { destruct it as [p|k t]; [|reflexivity]. cbn [item_text item_lines]. rewrite para_text_ftext.
    cbn [paras flat_map app forallb] in Hwf. apply andb_true_iff in Hwf. destruct Hwf as [Hp _].
    apply lf_lines_ftext; [exact Hp|exact Hl2]. }
  rewrite dump_cons. unfold doc_lines. cbn [map concat]. fold (doc_lines d).
  destruct d as [|nx d'].
  - cbn [Doc.dump map concat doc_lines]. rewrite !app_nil_r. exact Hit.
  - cbn [Doc.is_nil orb] in Hl1. rewrite lf_lines_app_closed.
    + rewrite Hit. f_equal. now apply IH.
    + destruct it as [p|k t]; [|exact Hl1]. cbn [item_text item_closed] in *.
      rewrite para_text_ftext. apply fields_closed_text; [|exact Hl1].
      cbn [paras flat_map app forallb] in Hwf. apply andb_true_iff in Hwf. destruct Hwf as [Hp _].
      now apply para_wf_rest_colon.
Qed.

(** * Token streams as node lists *)
Definition tl_ok (r : result (list token)) (ns : list node) : Prop :=
  exists ts, r = Ok ts /\ map node_of_token ts = ns.

Lemma tl_ok_bind r pre ns :
  tl_ok r ns -> tl_ok (do ts <- r; Ok (pre ++ ts)) (map node_of_token pre ++ ns).
Proof.
  intros [ts [-> <-]]. exists (pre ++ ts). split; [reflexivity|apply map_app].
Qed.

Lemma tl_ok_rew r r' ns : r = r' -> tl_ok r' ns -> tl_ok r ns.
Proof. now intros ->. Qed.

Lemma tl_ok_nil_inv ns : tl_ok (Ok []) ns -> ns = [].
Proof. intros [ts [[= <-] <-]]. reflexivity. Qed.

Lemma dump_list_tokens ts : dump_list (map node_of_token ts) = concat (map ttext ts).
Proof. unfold dump_list, text_of_tokens. now rewrite flatten_tokens. Qed.

Lemma plain_tok_is_plain t : plain_tok t = true -> is_plain (node_of_token t) = true.
Proof.
  destruct t as [k s]. unfold plain_tok, node_of_token. cbn [tk ttext]. intros H.
  apply andb_true_iff in H. destruct H as [H Hn]. apply andb_true_iff in H. destruct H as [Hk Hs].
  destruct k; try discriminate; cbn [is_plain]; [|reflexivity].
  destruct (str_eqb s [LF]) eqn:E; [|reflexivity]. apply str_eqb_eq in E. subst s. discriminate.
Qed.

Lemma plain_toks_are_plain l :
  forallb plain_tok l = true -> forallb is_plain (map node_of_token l) = true.
Proof.
  induction l as [|t l IH]; [reflexivity|]. cbn [forallb map]. intros H.
  apply andb_true_iff in H. destruct H as [Ht H]. now rewrite plain_tok_is_plain, IH.
Qed.

Lemma nl_nodes_tokens nl : map node_of_token (nl_toks nl) = nl_nodes nl.
Proof. now destruct nl. Qed.

Definition tline_of (plain : list token) (nl : bool) : tline :=
  mkTL (map node_of_token plain) nl.

Lemma line0_tokens plain nl : line0 (tline_of plain nl) = map node_of_token (plain ++ nl_toks nl).
Proof. unfold line0, tline_of. cbn [tl_plain tl_nl]. now rewrite map_app, nl_nodes_tokens. Qed.

(** * The tokenizer on the lines of a well-formed document *)
Section Glue.
Variables nf nr : N -> bool.
Hypothesis Hnf : forall c, nf c = Doc.name_first c.
Hypothesis Hnr : forall c, nr c = Doc.name_char c.

Notation loop := (Token.tokenize_loop py_isspace nf nr false).
Notation tis_ws_line := (Token.is_ws_line py_isspace).

Lemma sp_lf : py_isspace LF = true. Proof. reflexivity. Qed.
Lemma sp_sp : py_isspace SP = true. Proof. reflexivity. Qed.
Lemma sp_tab : py_isspace TAB = true. Proof. reflexivity. Qed.
Lemma sp_hash : py_isspace Token.HASH = false. Proof. reflexivity. Qed.

Lemma is_ws_line_same l : tis_ws_line l = Doc.is_ws_line l.
Proof. reflexivity. Qed.

Lemma not_ws_first c l : py_isspace c = false -> tis_ws_line (c :: l) = false.
Proof. intros H. unfold Token.is_ws_line. cbn [forallb]. now rewrite H, andb_false_r. Qed.

Lemma tl_ok_lines cur (ls ls' : list str) ns :
  ls = ls' -> tl_ok (loop cur ls') ns -> tl_ok (loop cur ls) ns.
Proof. now intros ->. Qed.

(** ** comment lines *)
Lemma tok_comments cls : forall rest cur ns,
  forallb starts_hash cls = true -> form1 (cls ++ rest) = true ->
  tl_ok (loop cur rest) ns -> tl_ok (loop cur (cls ++ rest)) (cmt_toks cls ++ ns).
Proof.
  induction cls as [|l cls IH]; intros rest cur ns Hh Hf Hr; [exact Hr|].
  cbn [forallb] in Hh. apply andb_true_iff in Hh. destruct Hh as [Hl Hh].
  destruct l as [|c b]; [discriminate|]. cbn [starts_hash] in Hl. apply N.eqb_eq in Hl. subst c.
  change Doc.HASH with Token.HASH in *.
  cbn [app] in *. apply (tl_ok_rew _ _ _ (loop_comment py_isspace nf nr sp_hash b _ cur Hf)).
  apply (tl_ok_bind _ [mkTok KComment (Token.HASH :: b)]). apply IH; try assumption.
  apply form1_cons in Hf. apply Hf.
Qed.

(** ** the field line *)
Lemma name_char_nr n0 : forallb name_char n0 = true -> forallb nr n0 = true.
Proof. intros H. rewrite forallb_forall in *. intros x Hx. rewrite Hnr. now apply H. Qed.

Lemma match_field_line_wf n r1 :
  name_ok n = true -> colon_first r1 = true ->
  exists m, Token.match_field_line py_isspace nf nr (n ++ r1) = Some m /\ fm_name m = n.
Proof.
  intros Hn Hr. unfold name_ok in Hn. destruct n as [|c n0]; [discriminate|].
  apply andb_true_iff in Hn. destruct Hn as [Hc Hall].
  cbn [forallb] in Hall. apply andb_true_iff in Hall. destruct Hall as [_ Hall].
  destruct r1 as [|d r2]; [discriminate|]. cbn [colon_first] in Hr. apply N.eqb_eq in Hr. subst d.
  unfold Token.match_field_line. cbn [app]. rewrite Hnf, Hc.
  rewrite span_forall_app; [|now apply name_char_nr|now rewrite Hnr].
  change (Doc.COLON =? Token.COLON)%N with true. cbn iota.
  destruct (span py_isspace r2) as [sb r3]. destruct r3 as [|v0 r4].
  - eexists. split; reflexivity.
  - destruct (span (fun x => negb (x =? LF)%N) r4) as [run after].
    destruct (rspan py_isspace run) as [body trail].
    destruct (span py_isspace (trail ++ after)) as [sa rest].
    eexists. split; reflexivity.
Qed.

Lemma tok_field_line n r1 rest :
  name_ok n = true -> colon_first r1 = true -> form1 ((n ++ r1) :: rest) = true ->
  exists fl,
    tline_wf fl = true
    /\ (forall cur ns, tl_ok (loop (Some n) rest) ns ->
                   tl_ok (loop cur ((n ++ r1) :: rest)) (name_node n :: sep_node :: line0 fl ++ ns))
    /\ Doc.COLON :: dump_list (line0 fl) = r1
    /\ tl_nl fl = ends_lf (n ++ r1).
Proof.
  intros Hn Hr Hf.
  destruct (match_field_line_wf n r1 Hn Hr) as [m [Hm Hmn]].
  pose proof Hn as Hn'. unfold name_ok in Hn'. destruct n as [|c n0]; [discriminate|].
  apply andb_true_iff in Hn'. destruct Hn' as [Hc _].
  pose proof (name_first_bounds c Hc) as Hb.
  cbn [app] in *.
  destruct (loop_field py_isspace nf nr sp_lf sp_sp sp_tab sp_hash c (n0 ++ r1) rest m) as [plain [nl [L1 [L2 [L3 L4]]]]].
  - apply not_ws_first. now apply visible_not_space.
  - destruct (N.eqb_spec c Token.HASH) as [->|_]; [discriminate Hc|reflexivity].
  - destruct (N.eqb_spec c SP) as [->|_]; [discriminate Hc|].
    destruct (N.eqb_spec c TAB) as [->|_]; [discriminate Hc|reflexivity].
  - exact Hm.
  - exact Hf.
  - rewrite Hmn in *. exists (tline_of plain nl). split; [|split; [|split]].
    + unfold tline_wf, tline_of. cbn [tl_plain]. now apply plain_toks_are_plain.
    + intros cur ns Hr'. apply (tl_ok_rew _ _ _ (L1 cur)). rewrite line0_tokens.
      destruct Hr' as [ts [Hts <-]]. rewrite Hts. cbn [bind]. eexists. split; [reflexivity|].
      cbn [map]. rewrite !map_app, <- !app_assoc. reflexivity.
    + rewrite line0_tokens, dump_list_tokens.
      change (c :: n0 ++ r1) with ((c :: n0) ++ r1) in L3. now apply app_inv_head in L3.
    + cbn [tline_of tl_nl]. now rewrite L4.
Qed.

(** ** a continuation line *)
Lemma cont_class_inv l :
  cont_class l = true ->
  exists c0 body, l = c0 :: body /\ (c0 = SP \/ c0 = TAB) /\ tis_ws_line l = false.
Proof.
  unfold cont_class, classify. rewrite <- is_ws_line_same.
  destruct (tis_ws_line l) eqn:Ews; [discriminate|].
  destruct l as [|c l0]; [discriminate|].
  destruct (c =? Doc.HASH)%N; [discriminate|].
  destruct ((c =? SP)%N || (c =? TAB)%N) eqn:E.
  - intros _. exists c, l0. repeat split. apply orb_true_iff in E.
    destruct E as [E|E]; apply N.eqb_eq in E; auto.
  - destruct (Doc.match_field_line (c :: l0)) as [[? ?]|]; discriminate.
Qed.

Lemma tok_cont_line l rest fn :
  cont_class l = true -> form1 (l :: rest) = true ->
  exists c0 fl,
    tline_wf fl = true
    /\ (forall ns, tl_ok (loop (Some fn) rest) ns ->
                   tl_ok (loop (Some fn) (l :: rest)) (cont_node c0 :: line0 fl ++ ns))
    /\ c0 ++ dump_list (line0 fl) = l
    /\ tl_nl fl = ends_lf l.
Proof.
  intros Hc Hf. destruct (cont_class_inv l Hc) as [c0 [body [-> [Hc0 Hws]]]].
  destruct (loop_cont py_isspace nf nr sp_lf sp_sp sp_tab c0 body rest fn Hc0 Hws Hf)
    as [v [nl [L1 [L2 [L3 [L4 L5]]]]]].
  exists [c0], (tline_of [mkTok KValue v] nl). split; [|split; [|split]].
  - unfold tline_wf, tline_of. cbn [tl_plain map forallb node_of_token tk ttext is_plain]. reflexivity.
  - intros ns Hr. apply (tl_ok_rew _ _ _ L1). rewrite line0_tokens.
    destruct Hr as [ts [Hts <-]]. rewrite Hts. cbn [bind]. eexists. split; [reflexivity|].
    cbn [map app]. rewrite !map_app. reflexivity.
  - rewrite line0_tokens, dump_list_tokens. cbn [app map concat ttext].
    rewrite nl_toks_text. cbn [app]. rewrite <- L4. reflexivity.
  - cbn [tline_of tl_nl]. now rewrite L5.
Qed.

(** ** the body of a field: groups "comment lines, continuation line" *)
Definition glines (g : list str * str) : list str := fst g ++ [snd g].
Definition group_ok (g : list str * str) : Prop :=
  forallb starts_hash (fst g) = true /\ cont_class (snd g) = true.

Lemma body_class_cases l :
  body_class l = true -> cont_class l = true \/ (starts_hash l = true /\ cont_class l = false).
Proof.
  unfold body_class, cont_class, classify. destruct (Doc.is_ws_line l); [discriminate|].
  destruct l as [|c l0]; [discriminate|]. cbn [starts_hash].
  destruct (c =? Doc.HASH)%N; [now right|].
  destruct ((c =? SP)%N || (c =? TAB)%N); [now left|].
  destruct (Doc.match_field_line (c :: l0)) as [[? ?]|]; discriminate.
Qed.

Definition last_cont (bl : list str) (dflt : bool) : bool :=
  match last_opt bl with Some l => cont_class l | None => dflt end.

Lemma last_cont_cons l bl d : bl <> [] -> last_cont (l :: bl) d = last_cont bl false.
Proof.
  destruct bl as [|l2 bl]; [congruence|]. intros _. unfold last_cont.
  change (last_opt (l :: l2 :: bl)) with (last_opt (l2 :: bl)).
  destruct (last_opt (l2 :: bl)) eqn:E; [reflexivity|]. apply last_opt_none in E. discriminate.
Qed.

Lemma last_cont_dflt bl d d' : bl <> [] -> last_cont bl d = last_cont bl d'.
Proof.
  intros H. unfold last_cont. destruct (last_opt bl) eqn:E; [reflexivity|].
  apply last_opt_none in E. congruence.
Qed.

Lemma body_groups_pend bl : forall pend,
  forallb body_class bl = true -> forallb starts_hash pend = true ->
  last_cont bl (Doc.is_nil pend) = true ->
  exists gs, pend ++ bl = concat (map glines gs) /\ Forall group_ok gs.
Proof.
  induction bl as [|l bl IH]; intros pend Hb Hp Hlast.
  - cbn in Hlast. apply is_nil_true in Hlast. subst pend. exists []. now split.
  - cbn [forallb] in Hb. apply andb_true_iff in Hb. destruct Hb as [Hl Hb].
    destruct (body_class_cases l Hl) as [Hc|[Hh Hc]].
    + destruct (IH [] Hb eq_refl) as [gs [E HF]].
      { destruct bl as [|l2 bl']; [reflexivity|].
        rewrite last_cont_cons in Hlast by discriminate.
        now rewrite (last_cont_dflt _ _ false) by discriminate. }
      exists ((pend, l) :: gs). split.
      * cbn [map concat]. unfold glines at 1. cbn [fst snd]. cbn [app] in E.
        rewrite <- E, <- app_assoc. reflexivity.
      * constructor; [now split|exact HF].
    + destruct bl as [|l2 bl'].
      * cbn in Hlast. congruence.
      * destruct (IH (pend ++ [l]) Hb) as [gs [E HF]].
        -- rewrite forallb_app, Hp. cbn. now rewrite Hh.
        -- rewrite last_cont_cons in Hlast by discriminate.
           now rewrite (last_cont_dflt _ _ false) by discriminate.
        -- exists gs. split; [|exact HF]. rewrite <- E. now rewrite <- app_assoc.
Qed.

Lemma body_groups bl :
  body_ok bl = true -> exists gs, bl = concat (map glines gs) /\ Forall group_ok gs.
Proof.
  unfold body_ok. intros H. destruct bl as [|l bl'].
  - exists []. now split.
  - cbn [Doc.is_nil orb] in H. apply andb_true_iff in H. destruct H as [H1 H2].
    apply (body_groups_pend (l :: bl') [] H1 eq_refl).
    unfold last_cont. destruct (last_opt (l :: bl')); [exact H2|discriminate].
Qed.

Lemma glines_nonempty gs : concat (map glines gs) = [] -> gs = [].
Proof.
  destruct gs as [|g gs]; [reflexivity|]. cbn [map concat]. unfold glines at 1.
  destruct (fst g); discriminate.
Qed.

Lemma tok_groups gs : forall rest fn,
  Forall group_ok gs -> form1 (concat (map glines gs) ++ rest) = true ->
  exists tgs,
    forallb tgroup_wf tgs = true
    /\ (forall ns, tl_ok (loop (Some fn) rest) ns ->
                   tl_ok (loop (Some fn) (concat (map glines gs) ++ rest))
                         (flat_map group0 tgs ++ ns))
    /\ dump_list (flat_map group0 tgs) = concat (concat (map glines gs))
    /\ (forall E, (rest = [] -> E = true) -> groups_cl tgs E = true)
    /\ (gs = [] -> tgs = []).
Proof.
  induction gs as [|[cmts cl] gs IH]; intros rest fn HF Hf.
  - exists []. repeat split; auto.
  - inversion HF as [|g gs' [Hg1 Hg2] HF']. subst. cbn [fst snd] in Hg1, Hg2.
    cbn [map concat] in *. change (glines (cmts, cl)) with (cmts ++ [cl]) in *.
    rewrite <- !app_assoc in Hf. cbn [app] in Hf.
    pose proof (form1_suffix _ _ Hf) as Hf1.
    pose proof (form1_cons _ _ Hf1) as [_ [_ Hf2]].
    destruct (IH rest fn HF' Hf2) as [tgs [W [T [D [C N0]]]]].
    destruct (tok_cont_line cl (concat (map glines gs) ++ rest) fn Hg2 Hf1)
      as [c0 [fl [Wl [Tl [Dl Nl]]]]].
    exists (mkTG cmts c0 fl :: tgs). split; [|split; [|split; [|split]]].
    + cbn [forallb]. unfold tgroup_wf at 1. cbn [tg_line]. now rewrite Wl, W.
    + intros ns Hr.
      assert (EQ : ((cmts ++ [cl]) ++ concat (map glines gs)) ++ rest
                   = cmts ++ cl :: concat (map glines gs) ++ rest)
        by (now rewrite <- !app_assoc).
      apply (tl_ok_lines _ _ _ _ EQ). cbn [flat_map]. unfold group0 at 1.
      cbn [tg_cmts tg_c0 tg_line]. rewrite <- !app_assoc. apply tok_comments; [exact Hg1|exact Hf|].
      cbn [app]. apply Tl. now apply T.
    + cbn [flat_map]. unfold group0 at 1. cbn [tg_cmts tg_c0 tg_line].
      rewrite !dump_list_app, dump_list_cmt_toks, D. rewrite concat_app. f_equal.
      rewrite concat_app. cbn [concat]. rewrite app_nil_r. f_equal.
      rewrite dump_list_cons. unfold cont_node. rewrite dump_tok. exact Dl.
    + intros E HE. cbn [groups_cl tg_line]. rewrite (C E HE), andb_true_r. rewrite Nl.
      destruct (ends_lf cl) eqn:Ecl; [reflexivity|]. cbn [orb].
      pose proof (form1_head_closed _ _ Hf1 Ecl) as Hnil.
      apply app_eq_nil in Hnil. destruct Hnil as [Hg Hrest].
      apply glines_nonempty in Hg. rewrite (N0 Hg), (HE Hrest). reflexivity.
    + discriminate.
Qed.

(** ** one field *)
Lemma tok_field f rest :
  field_wf f = true -> form1 (flines f ++ rest) = true ->
  exists tf,
    tfield_wf tf = true
    /\ (forall cur ns, tl_ok (loop (Some (f_name f)) rest) ns ->
                   tl_ok (loop cur (flines f ++ rest)) (field0 tf ++ ns))
    /\ field_of tf = f
    /\ (forall E, (rest = [] -> E = true) -> field_cl tf E = true).
Proof.
  intros Hwf Hf. destruct (field_wf_parts _ Hwf) as [Hc [Hh [Hn [r1 [bl [Hr [Hr1 Hbl]]]]]]].
  unfold flines in *. rewrite Hr in *. rewrite <- app_assoc in Hf. cbn [app] in Hf.
  pose proof (form1_suffix _ _ Hf) as Hf1.
  pose proof (form1_cons _ _ Hf1) as [_ [_ Hf2]].
  destruct (body_groups bl Hbl) as [gs [Ebl HF]]. subst bl.
  destruct (tok_groups gs rest (f_name f) HF Hf2) as [tgs [W [T [D [C N0]]]]].
  destruct (tok_field_line (f_name f) r1 (concat (map glines gs) ++ rest) Hn Hr1 Hf1)
    as [fl [Wl [Tl [Dl Nl]]]].
  exists (mkTF (lf_lines (f_comment f)) (f_name f) fl tgs). split; [|split; [|split]].
  - unfold tfield_wf. cbn [tf_first tf_body]. now rewrite Wl, W.
  - intros cur ns Hr'. unfold field0. cbn [tf_cmts tf_name tf_first tf_body].
    rewrite <- !app_assoc. apply tok_comments; [exact Hh|exact Hf|].
    cbn [app]. rewrite <- app_assoc. apply Tl. now apply T.
  - unfold field_of, rest_text. cbn [tf_cmts tf_name tf_first tf_body].
    rewrite concat_lf_lines, dump_list_app, D.
    pose proof (concat_lf_lines (f_rest f)) as E. rewrite Hr in E. cbn [concat] in E.
    change (Token.COLON :: dump_list (line0 fl) ++ concat (concat (map glines gs)))
      with ((Doc.COLON :: dump_list (line0 fl)) ++ concat (concat (map glines gs))).
    rewrite Dl, E. now destruct f.
  - intros E HE. unfold field_cl. cbn [tf_first tf_body]. rewrite (C E HE), andb_true_r. rewrite Nl.
    destruct (ends_lf (f_name f ++ r1)) eqn:El; [reflexivity|]. cbn [orb].
    pose proof (form1_head_closed _ _ Hf1 El) as Hnil.
    apply app_eq_nil in Hnil. destruct Hnil as [Hg Hrest].
    apply glines_nonempty in Hg. rewrite (N0 Hg), (HE Hrest). reflexivity.
Qed.

(** ** the fields of a paragraph *)
Lemma flines_nonempty f : field_wf f = true -> flines f <> [].
Proof.
  intros Hwf. destruct (field_wf_parts _ Hwf) as [_ [_ [_ [r1 [bl [Hr _]]]]]].
  unfold flines. rewrite Hr. destruct (lf_lines (f_comment f)); discriminate.
Qed.

Lemma tok_fields fs : forall rest,
  forallb field_wf fs = true -> form1 (concat (map flines fs) ++ rest) = true ->
  exists tfs,
    forallb tfield_wf tfs = true
    /\ (forall cur ns, (forall cur', tl_ok (loop cur' rest) ns) ->
                   tl_ok (loop cur (concat (map flines fs) ++ rest)) (flat_map field0 tfs ++ ns))
    /\ map field_of tfs = fs
    /\ (forall E, (rest = [] -> E = true) -> fields_cl tfs E = true).
Proof.
  induction fs as [|f fs IH]; intros rest Hwf Hf.
  - exists []. repeat split; auto.
  - cbn [forallb] in Hwf. apply andb_true_iff in Hwf. destruct Hwf as [Hwf1 Hwf].
    cbn [map concat] in *.
    assert (EQ : (flines f ++ concat (map flines fs)) ++ rest
                 = flines f ++ concat (map flines fs) ++ rest) by (now rewrite <- app_assoc).
    assert (Hf' : form1 (flines f ++ concat (map flines fs) ++ rest) = true).
    { now rewrite <- EQ. }
    pose proof (form1_suffix _ _ Hf') as Hf2.
    destruct (IH rest Hwf Hf2) as [tfs [W [T [D C]]]].
    destruct (tok_field f (concat (map flines fs) ++ rest) Hwf1 Hf') as [tf [Wf [Tf [Df Cf]]]].
    exists (tf :: tfs). split; [|split; [|split]].
    + cbn [forallb]. now rewrite Wf, W.
    + intros cur ns Hr. apply (tl_ok_lines _ _ _ _ EQ). cbn [flat_map]. rewrite <- app_assoc.
      apply Tf. now apply T.
    + cbn [map]. now rewrite Df, D.
    + intros E HE. cbn [fields_cl]. rewrite (C E HE), andb_true_r. apply Cf.
      intros Hnil. apply app_eq_nil in Hnil. destruct Hnil as [Hfs Hrest].
      rewrite (HE Hrest). cbn [andb].
      destruct fs as [|g fs']; [now destruct tfs|]. exfalso.
      cbn [forallb] in Hwf. apply andb_true_iff in Hwf. destruct Hwf as [Hg _].
      cbn [map concat] in Hfs. apply app_eq_nil in Hfs. destruct Hfs as [Hfs _].
      now apply (flines_nonempty g Hg).
Qed.

(** ** what the first line of the rest of a document can be *)
Definition hd_not_wsterm (ls : list str) : Prop :=
  match ls with x :: _ => ws_term py_isspace x = false | [] => True end.

Lemma starts_hash_not_ws l : starts_hash l = true -> tis_ws_line l = false.
Proof.
  destruct l as [|c l]; [discriminate|]. cbn [starts_hash]. intros H. apply N.eqb_eq in H. subst c.
  now apply not_ws_first.
Qed.

Lemma flines_head f :
  field_wf f = true -> exists x ls, flines f = x :: ls /\ tis_ws_line x = false.
Proof.
  intros Hwf. destruct (field_wf_parts _ Hwf) as [_ [Hh [Hn [r1 [bl [Hr _]]]]]].
  unfold flines. rewrite Hr. destruct (lf_lines (f_comment f)) as [|c cs].
  - cbn [app]. eexists _, _. split; [reflexivity|].
    unfold name_ok in Hn. destruct (f_name f) as [|c n0]; [discriminate|].
    apply andb_true_iff in Hn. destruct Hn as [Hc _]. cbn [app]. apply not_ws_first.
    apply visible_not_space. now apply name_first_bounds.
  - cbn [app]. eexists _, _. split; [reflexivity|]. cbn [forallb] in Hh.
    apply andb_true_iff in Hh. destruct Hh as [Hc _]. now apply starts_hash_not_ws.
Qed.

Lemma ws_term_false_not_ws x : tis_ws_line x = false -> ws_term py_isspace x = false.
Proof. intros H. unfold ws_term. now rewrite H. Qed.

Lemma item_lines_head_after_ws t nx d :
  forallb para_wf (paras (nx :: d)) = true -> item_canon nx = true ->
  adj_canon (Other OWs t) nx = true ->
  hd_not_wsterm (item_lines nx ++ doc_lines d).
Proof.
  intros Hwf Hc Ha. destruct nx as [p|[] t2]; cbn [item_canon adj_canon] in *; try discriminate.
  - cbn [paras flat_map app forallb] in Hwf. apply andb_true_iff in Hwf. destruct Hwf as [Hp _].
    unfold para_wf in Hp. cbn [item_lines]. destruct (para_fields p) as [|f fs]; [discriminate|].
    cbn [forallb] in Hp. apply andb_true_iff in Hp. destruct Hp as [Hf _].
    destruct (flines_head f Hf) as [x [ls [E Hx]]]. cbn [map concat]. rewrite E. cbn [app hd_not_wsterm].
    now apply ws_term_false_not_ws.
  - (* an unterminated whitespace line *)
    unfold ws_text_ok in Hc. apply andb_true_iff in Hc. destruct Hc as [Hc Hc3].
    apply andb_true_iff in Hc. destruct Hc as [Hc1 Hc2].
    apply negb_true_iff in Ha. rewrite Ha in Hc3. cbn [orb] in Hc3.
    cbn [item_lines]. rewrite lf_lines_single.
    + cbn [app hd_not_wsterm]. unfold ws_term. rewrite ends_lf_nl, Ha. apply andb_false_r.
    + destruct t2; [discriminate|discriminate].
    + exact Hc3.
  - unfold comment_text_ok in Hc. apply andb_true_iff in Hc. destruct Hc as [Hc1 Hc2].
    cbn [item_lines]. destruct (lf_lines t2) as [|x ls] eqn:E.
    + exfalso. apply (lf_lines_nonempty t2); [|exact E]. destruct t2; [discriminate|discriminate].
    + cbn [app hd_not_wsterm]. cbn [forallb] in Hc2. apply andb_true_iff in Hc2.
      destruct Hc2 as [Hx _]. now apply ws_term_false_not_ws, starts_hash_not_ws.
Qed.

Lemma item_lines_nonempty it :
  forallb para_wf (paras [it]) = true -> item_canon it = true -> item_lines it <> [].
Proof.
  intros Hwf Hc. destruct it as [p|[] t]; cbn [item_canon item_lines] in *; try discriminate.
  - cbn [paras flat_map app forallb] in Hwf. apply andb_true_iff in Hwf. destruct Hwf as [Hp _].
    unfold para_wf in Hp. destruct (para_fields p) as [|f fs]; [discriminate|].
    cbn [forallb] in Hp. apply andb_true_iff in Hp. destruct Hp as [Hf _].
    cbn [map concat]. intros E. apply app_eq_nil in E. destruct E as [E _].
    now apply (flines_nonempty f Hf).
  - apply lf_lines_nonempty. unfold ws_text_ok in Hc. destruct t; [discriminate|discriminate].
  - apply lf_lines_nonempty. unfold comment_text_ok in Hc. destruct t; [discriminate|discriminate].
Qed.

(** ** the whole document *)
Lemma doc_canon_cons it d :
  doc_canon (it :: d) = true ->
  item_canon it = true /\ match d with nx :: _ => adj_canon it nx | [] => true end = true
  /\ doc_canon d = true.
Proof.
  cbn [doc_canon]. intros H. apply andb_true_iff in H. destruct H as [H H3].
  apply andb_true_iff in H. destruct H as [H1 H2]. now repeat split.
Qed.

Lemma paras_cons_wf it d :
  forallb para_wf (paras (it :: d)) = true ->
  forallb para_wf (paras [it]) = true /\ forallb para_wf (paras d) = true.
Proof.
  change (it :: d) with ([it] ++ d). rewrite paras_app, forallb_app. intros H.
  now apply andb_true_iff in H.
Qed.

Lemma doc_of_nil_inv td : doc_of td = [] -> td = [].
Proof. destruct td; [reflexivity|discriminate]. Qed.

Theorem tok_doc d :
  forallb para_wf (paras d) = true -> doc_canon d = true -> form1 (doc_lines d) = true ->
  exists td,
    (forall cur, tl_ok (loop cur (doc_lines d)) (R0 td))
    /\ td_wf td = true /\ td_cl td = true /\ doc_of td = norm_doc d.
Proof.
  induction d as [|it d IH]; intros Hwf Hc Hf.
  - exists []. repeat split. intros cur. exists []. now split.
  - apply paras_cons_wf in Hwf. destruct Hwf as [Hwf1 Hwf].
    apply doc_canon_cons in Hc. destruct Hc as [Hc1 [Hc2 Hc]].
    unfold doc_lines in Hf |- *. cbn [map concat] in Hf |- *. fold (doc_lines d) in Hf |- *.
    pose proof (form1_suffix _ _ Hf) as Hf2.
    destruct (IH Hwf Hc Hf2) as [td [T [W [C D]]]].
    assert (Hnil : doc_lines d = [] -> td = []).
    { intros E. destruct d as [|nx d']; [now apply doc_of_nil_inv|]. exfalso.
      unfold doc_lines in E. cbn [map concat] in E. apply app_eq_nil in E. destruct E as [E _].
      apply paras_cons_wf in Hwf. destruct Hwf as [Hwfn _].
      apply doc_canon_cons in Hc. destruct Hc as [Hcn _].
      now apply (item_lines_nonempty nx Hwfn Hcn). }
    destruct it as [p|k t].
    + (* a paragraph *)
      cbn [paras flat_map app forallb] in Hwf1. apply andb_true_iff in Hwf1. destruct Hwf1 as [Hp _].
      cbn [item_lines] in *. cbn [item_canon] in Hc1.
      destruct (tok_fields (para_fields p) (doc_lines d) Hp Hf) as [tfs [Wf [Tf [Df Cf]]]].
      exists (TPara tfs :: td). split; [|split; [|split]].
      * intros cur. unfold R0. cbn [flat_map item0]. fold (R0 td). now apply Tf.
      * cbn [td_wf titem_wf]. rewrite Wf, W, !andb_true_r. apply andb_true_iff. split.
        -- destruct tfs; [|reflexivity]. cbn [map] in Df. rewrite <- Df in Hc1. discriminate.
        -- destruct td as [|nx' td']; [reflexivity|]. destruct d as [|nx d']; [discriminate|].
           cbn [doc_of norm_doc map] in D. injection D as D1 _.
           destruct nx' as [fs'|t'|ls']; [|reflexivity|reflexivity].
           cbn [item_of] in D1. destruct nx; [discriminate Hc2|discriminate D1].
      * cbn [td_cl]. rewrite C, andb_true_r. apply Cf. intros E. now rewrite (Hnil E).
      * cbn [doc_of norm_doc map item_of norm_item]. fold (doc_of td). fold (norm_doc d).
        now rewrite Df, D.
    + destruct k; cbn [item_canon] in Hc1; [| |discriminate].
      * (* whitespace *)
        cbn [item_lines] in *. pose proof Hc1 as Hws. unfold ws_text_ok in Hws.
        apply andb_true_iff in Hws. destruct Hws as [Hws Hws3].
        apply andb_true_iff in Hws. destruct Hws as [Hws1 Hws2].
        assert (Htn : t <> []) by (destruct t; [discriminate|discriminate]).
        exists (TWs t :: td). split; [|split; [|split]].
        -- intros cur. unfold R0. cbn [flat_map item0 app]. fold (R0 td).
           destruct (ends_nl t) eqn:Et.
           ++ pose proof (lf_lines_closed_all t (ends_nl_closed _ Et)) as Hall.
              pose proof (lf_lines_nonempty t Htn) as Hne.
              pose proof (concat_lf_lines t) as Hcat.
              destruct (lf_lines t) as [|w ws]; [congruence|].
              assert (Hterm : forallb (ws_term py_isspace) (w :: ws) = true).
              { apply forallb_forall. intros x Hx. unfold ws_term.
                rewrite forallb_forall in Hws2, Hall. rewrite is_ws_line_same, (Hws2 x Hx).
                rewrite ends_lf_nl. now apply Hall. }
              assert (Hhd : hd_not_wsterm (doc_lines d)).
              { destruct d as [|nx d']; [exact I|]. unfold doc_lines. cbn [map concat].
                fold (doc_lines d'). apply doc_canon_cons in Hc. destruct Hc as [Hcn _].
                now apply (item_lines_head_after_ws t). }
              apply (tl_ok_rew _ _ _ (loop_ws_closed py_isspace nf nr w ws (doc_lines d) cur Hterm Hhd Hf)).
              rewrite Hcat. apply (tl_ok_bind _ [mkTok KWhitespace t]). apply T.
           ++ cbn [orb] in Hws3. assert (Hlf : lf_free t = true) by exact Hws3.
              rewrite (lf_lines_single t Htn Hlf) in *. cbn [app] in Hf |- *.
              pose proof (form1_head_closed _ _ Hf Et) as Hd. rewrite Hd in *.
              rewrite (Hnil eq_refl). cbn [R0 flat_map].
              rewrite (loop_ws_open py_isspace nf nr t cur).
              ** eexists. split; reflexivity.
              ** cbn [forallb] in Hws2. rewrite andb_true_r in Hws2. exact Hws2.
              ** exact Et.
              ** cbn [form1] in Hf. exact Hf.
        -- cbn [td_wf titem_wf tadj]. rewrite W. now destruct td.
        -- cbn [td_cl]. exact C.
        -- cbn [doc_of norm_doc map item_of norm_item]. fold (doc_of td). fold (norm_doc d).
           now rewrite D.
      * (* a free comment *)
        cbn [item_lines] in *. pose proof Hc1 as Hcm. unfold comment_text_ok in Hcm.
        apply andb_true_iff in Hcm. destruct Hcm as [Hcm1 Hcm2].
        assert (Htn : t <> []) by (destruct t; [discriminate|discriminate]).
        exists (TComment (lf_lines t) :: td). split; [|split; [|split]].
        -- intros cur. unfold R0. cbn [flat_map item0]. fold (R0 td).
           apply tok_comments; [exact Hcm2|exact Hf|apply T].
        -- cbn [td_wf titem_wf]. rewrite W, andb_true_r. apply andb_true_iff. split.
           ++ pose proof (lf_lines_nonempty t Htn) as Hne. now destruct (lf_lines t).
           ++ destruct td as [|nx' td']; [reflexivity|]. destruct d as [|nx d']; [discriminate|].
              cbn [doc_of norm_doc map] in D. injection D as D1 _.
              destruct nx as [p|[] t2]; cbn [adj_canon] in Hc2; try discriminate.
              destruct nx' as [fs'|t'|ls']; [discriminate D1|reflexivity|discriminate D1].
        -- cbn [td_cl]. exact C.
        -- cbn [doc_of norm_doc map item_of norm_item]. fold (doc_of td). fold (norm_doc d).
           now rewrite D, concat_lf_lines.
Qed.

(** * The theorem *)

Lemma form1_no_autocorrect ls : form1 ls = true -> auto_correct_newlines ls = false.
Proof.
  intros H. destruct ls as [|l1 [|l2 rest]]; [reflexivity|reflexivity|].
  cbn. apply form1_cons in H. destruct H as [_ [H _]]. now rewrite H.
Qed.

(** the tokens and the top-level elements the parser builds from the dump *)
Lemma parse_dump_tree d :
  forallb para_wf (paras d) = true -> DocInv.lines_ok d = true -> doc_canon d = true ->
  exists td,
    td_wf td = true /\ doc_of td = norm_doc d
    /\ exists ts, tokenize py_isspace nf nr (lines_of (Doc.dump d)) = Ok ts
                  /\ stages (map node_of_token ts) = R5 td.
Proof.
  intros Hwf Hl Hc. unfold lines_of. rewrite (lf_lines_dump d Hwf Hl).
  assert (Hf : form1 (doc_lines d) = true).
  { rewrite <- (lf_lines_dump d Hwf Hl). apply form1_lf_lines. }
  destruct (tok_doc d Hwf Hc Hf) as [td [T [W [C D]]]].
  exists td. split; [exact W|]. split; [exact D|].
  destruct (T None) as [ts [E1 E2]]. exists ts. split.
  - unfold tokenize. now rewrite (form1_no_autocorrect _ Hf).
  - rewrite E2. now apply stages_R.
Qed.

(** parse_dump_abs, accepting mode: every document with well-formed fields, valid line structure
    and parser-shaped item structure is what the parser model reads from its own dump *)
Theorem parse_dump_abs d :
  forallb para_wf (paras d) = true -> DocInv.lines_ok d = true -> doc_canon d = true ->
  exists t, parse_accepting py_isspace nf nr (lines_of (Doc.dump d)) = Ok t
            /\ abs_of_tree t = Ok (norm_doc d).
Proof.
  intros Hwf Hl Hc. destruct (parse_dump_tree d Hwf Hl Hc) as [td [W [D [ts [E1 E2]]]]].
  exists (Elem EFile (R5 td)). split.
  - unfold parse_accepting, parse. rewrite E1. cbn [bind negb andb]. now rewrite E2.
  - rewrite abs_R5. now rewrite D.
Qed.

(** the no-duplicates class, when no name is repeated *)
Definition plain_item (it : item) : item :=
  match it with
  | Para p => Para (PN (para_fields p))
  | Other k t => Other k t
  end.
Definition plain_doc (d : doc) : doc := map plain_item d.

Lemma from_kvpairs_nodup fs : nodup_names fs = true -> Doc.from_kvpairs fs = PN fs.
Proof. unfold nodup_names, lnames, Doc.from_kvpairs. now intros ->. Qed.

Lemma norm_doc_inv d : doc_inv d = true -> norm_doc d = plain_doc d.
Proof.
  unfold doc_inv. induction d as [|it d IH]; intros H; [reflexivity|].
  cbn [norm_doc plain_doc map]. fold (norm_doc d). fold (plain_doc d).
  destruct it as [p|k t]; cbn [paras flat_map app forallb] in H.
  - apply andb_true_iff in H. destruct H as [Hp H]. rewrite (IH H). cbn [norm_item plain_item].
    apply para_inv_fields in Hp. unfold fields_inv in Hp. apply andb_true_iff in Hp.
    destruct Hp as [Hp _]. now rewrite from_kvpairs_nodup.
  - now rewrite (IH H).
Qed.

Lemma R5_no_dup td d :
  doc_of td = plain_doc d -> has_dup_paragraph (R5 td) = false.
Proof.
  revert d. induction td as [|it td IH]; intros d H; [reflexivity|].
  destruct d as [|x d]; [discriminate|]. cbn [doc_of plain_doc map] in H. injection H as H1 H2.
  unfold has_dup_paragraph, R5 in *. cbn [map existsb]. rewrite (IH d H2), orb_false_r.
  destruct it as [fs|t|ls]; [|reflexivity|reflexivity].
  cbn [item5]. unfold Parse.from_kvpairs. rewrite has_dup_ci_nodupb, !map_map.
  cbn [item_of] in H1. destruct x as [p|k t]; [|discriminate]. cbn [plain_item] in H1.
  injection H1 as H1. unfold Doc.from_kvpairs in H1.
  assert (E : map (fun x => lower (kvp_name (field4 x))) fs
              = map (fun f => lower (f_name f)) (map field_of fs)).
  { rewrite map_map. apply map_ext. intros f. now rewrite kvp_name_field4. }
  rewrite E. now destruct (nodupb (map (fun f => lower (f_name f)) (map field_of fs))).
Qed.

(** parse_dump_abs for well-formed documents ([doc_wf]: no repeated names in addition), any
    combination of the two acceptance flags: nothing is rejected, every paragraph comes back in
    the no-duplicates class with the same fields *)
Theorem parse_dump_abs_wf d :
  doc_wf d = true -> doc_canon d = true ->
  forall accept_errors accept_dups,
  exists t, parse py_isspace nf nr accept_errors accept_dups (lines_of (Doc.dump d)) = Ok t
            /\ abs_of_tree t = Ok (plain_doc d).
Proof.
  intros Hwf Hc ae ad. unfold doc_wf, doc_ok in Hwf.
  apply andb_true_iff in Hwf. destruct Hwf as [Hok Hwf].
  apply andb_true_iff in Hok. destruct Hok as [Hinv Hl].
  destruct (parse_dump_tree d Hwf Hl Hc) as [td [W [D [ts [E1 E2]]]]].
  rewrite (norm_doc_inv d Hinv) in D.
  exists (Elem EFile (R5 td)). split.
  - unfold parse. rewrite E1. cbn [bind]. rewrite E2.
    rewrite (R5_no_error td W), (R5_no_dup td d D), !andb_false_r. reflexivity.
  - rewrite abs_R5. now rewrite D.
Qed.

End Glue.

(** * The instance the implementation runs with *)
From Verif Require Import Gen.ReproChars.

Lemma field_name_first_same c : field_name_first c = Doc.name_first c.
Proof.
  unfold field_name_first, Doc.name_first, in_ranges, field_first_ranges. cbn [existsb fst snd]. lia.
Qed.

Lemma field_name_rest_same c : field_name_rest c = Doc.name_char c.
Proof.
  unfold field_name_rest, Doc.name_char, in_ranges, field_rest_ranges. cbn [existsb fst snd]. lia.
Qed.

Theorem py_parse_dump_abs d :
  forallb para_wf (paras d) = true -> DocInv.lines_ok d = true -> doc_canon d = true ->
  py_reparse (Doc.dump d) = Ok (norm_doc d).
Proof.
  intros Hwf Hl Hc.
  destruct (parse_dump_abs field_name_first field_name_rest field_name_first_same
              field_name_rest_same d Hwf Hl Hc) as [t [P A]].
  unfold py_reparse, reparse_with. unfold parse_accepting in P. now rewrite P.
Qed.

Theorem py_parse_dump_abs_wf d :
  doc_wf d = true -> doc_canon d = true ->
  py_reparse (Doc.dump d) = Ok (plain_doc d) /\ py_reparse_strict (Doc.dump d) = Ok (plain_doc d).
Proof.
  intros Hwf Hc. split.
  - destruct (parse_dump_abs_wf field_name_first field_name_rest field_name_first_same
                field_name_rest_same d Hwf Hc true true) as [t [P A]].
    unfold py_reparse, reparse_with. now rewrite P.
  - destruct (parse_dump_abs_wf field_name_first field_name_rest field_name_first_same
                field_name_rest_same d Hwf Hc false true) as [t [P A]].
    unfold py_reparse_strict, reparse_with. now rewrite P.
Qed.
