(** Python's [sorted(xs, key=k)], used by sort_fields(key=...) of both paragraph
    classes (model, Repro/Struct.v) and by the list reference (Repro/StructSpec.v).

    [sorted] is a stable sort that compares keys with [<] only; on a list every
    stable sort returns the same result, so the insertion sort below IS the
    function (not an approximation of Timsort).  That it is a stable sort is
    proved in Repro/StructSortProofs.v for EVERY key function into a type with a
    total, transitive [<=] ([sort_by_sorted], [sort_by_stable], [sort_by_perm]).

    The key functions sort_fields is exercised with form a small family
    ([sortkey]); each is rendered as the function field name -> key value together
    with the comparison Python uses for values of that type: [str] values are
    compared code point by code point, a proper prefix being smaller; [int] and
    [bool] values (False < True) numerically.  A key function maps every name into
    ONE type, so keys of different types are never compared (Python would raise
    TypeError): [keyfn] carries the type with its order. *)
From Verif Require Import Lib.Base Lib.PyStr Repro.Doc.

(** [a <= b] for Python strings *)
Fixpoint str_leb (a b : str) : bool :=
  match a, b with
  | [], _ => true
  | _ :: _, [] => false
  | x :: a', y :: b' => if (x <? y)%N then true else if (y <? x)%N then false else str_leb a' b'
  end.

(** [a <= b] for Python bools: False < True *)
Definition bool_leb (a b : bool) : bool := implb a b.

Section Sort.
  Context {A K : Type}.
  Variable leb : K -> K -> bool.       (* [a <= b], i.e. [not (b < a)] *)
  Variable key : A -> K.

  (** [x] was in front of every element of [l] before sorting: it stays in front
      of the elements whose key equals its own *)
  Fixpoint sort_insert (x : A) (l : list A) : list A :=
    match l with
    | [] => [x]
    | y :: l' => if leb (key x) (key y) then x :: y :: l' else y :: sort_insert x l'
    end.

  Definition sort_by (l : list A) : list A := fold_right sort_insert [] l.
End Sort.

(** * The key functions *)

Inductive sortkey :=
| KDefault       (* key=None: default_field_sort_key = lambda n: n.lower() *)
| KLen           (* key=len *)
| KConst         (* key=lambda n: 0                                 everything ties *)
| KXLast         (* key=lambda n: n.lower().startswith("x-")        "X-" fields after the others *)
| KFirstChar     (* key=lambda n: n[:1].lower() *)
| KExact.        (* key=str                                         the name as spelled, case-sensitive *)

Record keyfn := mkKeyfn {
  k_ty : Type;                          (* what the key function returns *)
  k_leb : k_ty -> k_ty -> bool;         (* Python's [<=] on it *)
  k_of : str -> k_ty                    (* the key function, on the field name *)
}.

Definition X_DASH : str := [120; 45]%N.     (* "x-" *)

Definition keyfn_of (k : sortkey) : keyfn :=
  match k with
  | KDefault => mkKeyfn str str_leb lower
  | KLen => mkKeyfn N N.leb (fun n => N.of_nat (length n))
  | KConst => mkKeyfn N N.leb (fun _ => 0%N)
  | KXLast => mkKeyfn bool bool_leb (fun n => startswith X_DASH (lower n))
  | KFirstChar => mkKeyfn str str_leb (fun n => lower (firstn 1 n))
  | KExact => mkKeyfn str str_leb (fun n => n)
  end.

(** the key of a field under [k]; [sorted(fields, key=lambda f: key(f.field_name))] *)
Definition field_key (k : sortkey) (f : field) : k_ty (keyfn_of k) := k_of (keyfn_of k) (f_name f).

Definition sort_fields_by (k : sortkey) (fs : list field) : list field :=
  sort_by (k_leb (keyfn_of k)) (field_key k) fs.

(** two fields tie under [k]: neither key is smaller than the other *)
Definition key_tie (k : sortkey) (f g : field) : bool :=
  k_leb (keyfn_of k) (field_key k f) (field_key k g) && k_leb (keyfn_of k) (field_key k g) (field_key k f).
