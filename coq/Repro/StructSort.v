(** Python's [sorted(xs, key=k)] for string keys, used by sort_fields of both
    paragraph classes (model, Repro/Struct.v) and by the list reference
    (Repro/StructSpec.v).

    [sorted] is a stable sort that compares keys with [<] only; on a list every
    stable sort returns the same result, so the insertion sort below IS the
    function (not an approximation of Timsort).  That it is a stable sort is
    proved in Repro/StructProofs.v ([sort_by_sorted], [sort_by_stable],
    [sort_by_perm]).  Python compares [str] values code point by code point, a
    proper prefix being smaller. *)
From Verif Require Import Lib.Base.

(** [a <= b] for Python strings *)
Fixpoint str_leb (a b : str) : bool :=
  match a, b with
  | [], _ => true
  | _ :: _, [] => false
  | x :: a', y :: b' => if (x <? y)%N then true else if (y <? x)%N then false else str_leb a' b'
  end.

Section Sort.
  Context {A : Type}.
  Variable key : A -> str.

  (** [x] was in front of every element of [l] before sorting: it stays in front
      of the elements whose key equals its own *)
  Fixpoint sort_insert (x : A) (l : list A) : list A :=
    match l with
    | [] => [x]
    | y :: l' => if str_leb (key x) (key y) then x :: y :: l' else y :: sort_insert x l'
    end.

  Definition sort_by (l : list A) : list A := fold_right sort_insert [] l.
End Sort.
