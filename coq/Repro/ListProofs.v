(** Proofs for C11, part 1: what a list view reads.
    - the two finditer leaves cover their line and produce well-formed tokens;
    - the tokens of a whole value text, their line structure (an automaton over token kinds);
    - [view_reads_split]: values (interpret k v) = split_spec k v, for both interpretations. *)
From Verif Require Import Lib.Base Lib.PyStr Gen.PyChars Repro.ListView Repro.ListSpec Repro.ListLemmas.
From Coq Require Import Lia.

Ltac splits := repeat match goal with |- _ /\ _ => split end.

(** * Character facts (checked against the generated tables by computation) *)

Lemma isws_LF : isws LF = true. Proof. reflexivity. Qed.
Lemma isws_SP : isws SP = true. Proof. reflexivity. Qed.
Lemma isws_TAB : isws TAB = true. Proof. reflexivity. Qed.
Lemma isws_HASH : isws HASH = false. Proof. reflexivity. Qed.
Lemma isws_COMMA : isws COMMA = false. Proof. reflexivity. Qed.
Lemma islb_LF : py_islinebreak LF = true. Proof. reflexivity. Qed.

(** every line boundary of str.splitlines() is whitespace *)
Lemma islb_isws c : py_islinebreak c = true -> isws c = true.
Proof.
  unfold py_islinebreak. intros H. apply existsb_exists in H. destruct H as [x [Hin Hx]].
  apply N.eqb_eq in Hx. subst x.
  assert (G : forallb isws py_linebreaks = true) by reflexivity.
  rewrite forallb_forall in G. now apply G.
Qed.

Lemma notws_isws c : notws c = negb (isws c).
Proof. reflexivity. Qed.

Definition no_lb (s : str) : bool := forallb (fun c => negb (py_islinebreak c)) s.

Lemma no_lb_app a b : no_lb (a ++ b) = no_lb a && no_lb b.
Proof. apply forallb_app. Qed.

Lemma notws_no_lb s : forallb notws s = true -> no_lb s = true.
Proof.
  unfold no_lb. rewrite !forallb_forall. intros H c Hc. specialize (H c Hc).
  unfold notws in H. destruct (py_islinebreak c) eqn:E; [|reflexivity].
  apply islb_isws in E. unfold isws in E. now rewrite E in H.
Qed.

Lemma no_lb_no_lf s : no_lb s = true -> no_lf s = true.
Proof.
  unfold no_lb, no_lf. rewrite !forallb_forall. intros H c Hc. specialize (H c Hc).
  destruct (is_lf c) eqn:E; [|reflexivity]. unfold is_lf in E. apply N.eqb_eq in E. subst c.
  vm_compute in H. discriminate.
Qed.

Lemma no_lb_not_ends_lf s : no_lb s = true -> ends_with_lf s = false.
Proof.
  intros H. unfold ends_with_lf. destruct (last_opt s) as [c|] eqn:E; [|reflexivity].
  apply ends_snoc_inv in E. rewrite E, no_lb_app in H. apply andb_true_iff in H. destruct H as [_ H].
  simpl in H. rewrite andb_true_r in H. destruct (N.eqb_spec c LF) as [->|]; [|reflexivity].
  now rewrite islb_LF in H.
Qed.

Lemma ends_with_lf_snoc s : ends_with_lf (s ++ [LF]) = true.
Proof. unfold ends_with_lf. now rewrite last_opt_snoc. Qed.

(** * Tokens *)

Lemma toks_text_app a b : toks_text (a ++ b) = toks_text a ++ toks_text b.
Proof. unfold toks_text. now rewrite map_app, concat_app. Qed.

Lemma toks_text_cons t r : toks_text (t :: r) = tx t ++ toks_text r.
Proof. reflexivity. Qed.

Lemma toks_text_opt k s : toks_text (opt_tok k s) = s.
Proof. destruct s; [reflexivity|]. unfold opt_tok, toks_text. simpl. now rewrite app_nil_r. Qed.

Definition nc (t : tok) : bool := negb (is_comment_tok t).
Definition vals (ts : list tok) : list str := map tx (filter is_val ts).

(** text conditions by kind, for the tokens of a whitespace-separated list *)
Definition tok_ok_sp (t : tok) : bool :=
  match tk t with
  | KVal => nonempty (tx t) && forallb notws (tx t)
  | KSep | KWs => nonempty (tx t) && forallb isws (tx t) && no_lb (tx t)
       (* KWs: the plain whitespace token that append() puts before the very first value *)
  | KCont => str_eqb (tx t) [SP] || str_eqb (tx t) [TAB]
  | KNl => str_eqb (tx t) [LF]
  | KCom => starts_hash (tx t) && no_lb (removelast (tx t))
  | KComma => false
  end.

(** ** The line structure of a token list, as an automaton over kinds.
    s_lf : the previous token ended a line (KNl or a comment line);
    s_pv : the previous token is a value;
    s_ok : the current line is the first line or already holds a value. *)
Record ast := AST { s_lf : bool; s_pv : bool; s_ok : bool }.

Definition astep (s : ast) (k : kind) : option ast :=
  match k with
  | KVal => if s_lf s || s_pv s then None else Some (AST false true true)
  | KSep | KWs => if s_lf s then None else Some (AST false false (s_ok s))
  | KNl => if s_lf s || negb (s_ok s) then None else Some (AST true false false)
  | KCom => if s_lf s then Some (AST true false false) else None
  | KCont => if s_lf s then Some (AST false false false) else None
  | KComma => None
  end.

Fixpoint arun (s : ast) (ts : list tok) : option ast :=
  match ts with
  | [] => Some s
  | t :: r => match astep s (tk t) with Some s' => arun s' r | None => None end
  end.

Definition s0 : ast := AST false false true.
Definition sLF : ast := AST true false false.

Lemma arun_app s a b :
  arun s (a ++ b) = match arun s a with Some s' => arun s' b | None => None end.
Proof.
  revert s. induction a as [|t a IH]; intros s; [reflexivity|].
  simpl. destruct (astep s (tk t)); [apply IH|reflexivity].
Qed.

Lemma Forall_app_iff {A} (P : A -> Prop) a b : Forall P (a ++ b) <-> Forall P a /\ Forall P b.
Proof. apply Forall_app. Qed.

(** * The whitespace finditer leaf *)

Definition wtoks (ms : list (str * str * str)) : list tok :=
  flat_map (fun m => match m with (sb, w, sa) =>
     opt_tok KSep sb ++ [Tok KVal w] ++ opt_tok KSep sa end) ms.

Definition valsep (t : tok) : bool := match tk t with KVal | KSep => true | _ => false end.

Lemma opt_sep_ok s : forallb isws s = true -> no_lb s = true ->
  Forall (fun t => tok_ok_sp t = true) (opt_tok KSep s) /\ forallb valsep (opt_tok KSep s) = true.
Proof.
  intros H1 H2. destruct s as [|c s]; [split; [constructor|reflexivity]|].
  split; [|reflexivity]. constructor; [|constructor].
  unfold tok_ok_sp. cbn [tk tx nonempty]. now rewrite H1, H2.
Qed.

Lemma arun_opt_sep s x : s_lf s = false ->
  arun s (opt_tok KSep x) = Some (match x with [] => s | _ => AST false false (s_ok s) end).
Proof. intros H. destruct x; [reflexivity|]. simpl. now rewrite H. Qed.

Lemma all_ws_dec s : s = [] \/ forallb isws s = false \/ (s <> [] /\ forallb isws s = true).
Proof. destruct s; [now left|]. destruct (forallb isws (n :: s)) eqn:E; [right; right; split; [discriminate|reflexivity]|right; now left]. Qed.

Lemma ws_finditer_ok : forall n s fuel,
  length s <= n -> length s < fuel ->
  (s = [] \/ forallb isws s = false) -> no_lb s = true ->
  exists ms, ws_finditer fuel s = Ok ms
    /\ toks_text (wtoks ms) = s
    /\ Forall (fun t => tok_ok_sp t = true) (wtoks ms)
    /\ forallb valsep (wtoks ms) = true
    /\ forall lo, exists pv, arun (AST false false lo) (wtoks ms) = Some (AST false pv (lo || nonempty s)).
Proof.
  induction n as [|n IH]; intros s fuel Hn Hf Hs Hlb.
  - destruct s; [|simpl in Hn; lia]. destruct fuel; [simpl in Hf; lia|].
    exists []. simpl. repeat split; try constructor. intros lo. exists false. now rewrite orb_false_r.
  - destruct Hs as [->|Hs].
    { destruct fuel; [simpl in Hf; lia|].
      exists []. simpl. repeat split; try constructor. intros lo. exists false. now rewrite orb_false_r. }
    destruct fuel as [|f]; [lia|].
    cbn [ws_finditer].
    destruct (span isws s) as [sb r1] eqn:E1. apply span_eq in E1. destruct E1 as [Es [Hsb Hr1]].
    destruct (span notws r1) as [w r2] eqn:E2. apply span_eq in E2. destruct E2 as [Er1 [Hw Hr2]].
    destruct r1 as [|c r1'].
    { exfalso. rewrite app_nil_r in Es. subst sb. now rewrite Hsb in Hs. }
    destruct w as [|c0 w'].
    { exfalso. simpl in Er1. subst r2. rewrite notws_isws, Hr1 in Hr2. discriminate. }
    destruct (span isws r2) as [sa r3] eqn:E3. apply span_eq in E3. destruct E3 as [Er2 [Hsa Hr3]].
    set (w := c0 :: w') in *.
    assert (Hlen : length s = length sb + length w + length sa + length r3).
    { rewrite Es, Er1, Er2. rewrite !app_length. lia. }
    assert (Hwlen : 1 <= length w) by (subst w; simpl; lia).
    assert (Hlbs : no_lb sb = true /\ no_lb sa = true /\ no_lb r3 = true).
    { rewrite Es, Er1, Er2 in Hlb. rewrite !no_lb_app in Hlb.
      repeat (apply andb_true_iff in Hlb; destruct Hlb as [? Hlb]).
      repeat match goal with H : _ && _ = true |- _ => apply andb_true_iff in H; destruct H end.
      auto. }
    destruct Hlbs as [Lsb [Lsa Lr3]].
    assert (Hr3' : r3 = [] \/ forallb isws r3 = false).
    { destruct r3 as [|d r3']; [now left|right]. simpl. now rewrite Hr3. }
    destruct (IH r3 f) as [ms [Hms [Htx [Hok [Hvs Hrun]]]]]; try lia; try assumption.
    rewrite Hms. cbn [bind]. eexists. split; [reflexivity|].
    cbn [wtoks flat_map]. fold (wtoks ms).
    destruct (opt_sep_ok sb Hsb Lsb) as [Osb Vsb].
    destruct (opt_sep_ok sa Hsa Lsa) as [Osa Vsa].
    assert (Okw : tok_ok_sp (Tok KVal w) = true).
    { unfold tok_ok_sp. cbn [tk tx]. subst w. cbn [nonempty]. exact Hw. }
    repeat split.
    + rewrite !toks_text_app, !toks_text_opt, Htx. cbn [toks_text map concat]. rewrite app_nil_r.
      rewrite Es, Er1, Er2. now rewrite <- !app_assoc.
    + repeat (apply Forall_app; split); try assumption. constructor; [exact Okw|constructor].
    + rewrite !forallb_app. rewrite Vsb, Vsa, Hvs. reflexivity.
    + intros lo. rewrite !arun_app. rewrite arun_opt_sep by reflexivity.
      assert (Hst : (match sb with [] => AST false false lo | _ => AST false false (s_ok (AST false false lo)) end)
                    = AST false false lo) by (destruct sb; reflexivity).
      rewrite Hst. cbn [app arun astep tk s_lf s_pv orb]. rewrite arun_opt_sep by reflexivity.
      assert (Hne : nonempty s = true).
      { rewrite Es. destruct sb; reflexivity. }
      rewrite Hne, orb_true_r.
      destruct sa as [|d sa'].
      * (* no whitespace after the word: the line ends here *)
        simpl in Er2. subst r3.
        assert (r2 = []) as ->.
        { destruct r2 as [|d r2']; [reflexivity|]. rewrite notws_isws in Hr2. rewrite Hr3 in Hr2. discriminate. }
        destruct f; [simpl in Hf; lia|]. simpl in Hms. injection Hms as <-. simpl. now exists true.
      * destruct (Hrun true) as [pv Hpv]. cbn [s_ok]. rewrite Hpv. exists pv. reflexivity.
Qed.

(** whitespace_split_tokenizer's body on one line (no line boundary inside) *)
Lemma ws_line_tokens_ok body : no_lb body = true ->
  exists ts, ws_line_tokens body = Ok ts
    /\ toks_text ts = body
    /\ Forall (fun t => tok_ok_sp t = true) ts
    /\ forallb valsep ts = true
    /\ forall lo, exists pv, arun (AST false false lo) ts = Some (AST false pv (lo || negb (forallb isws body))).
Proof.
  intros Hlb. unfold ws_line_tokens.
  destruct (all_ws_dec body) as [->|[H|[Hne H]]].
  - simpl. exists []. repeat split; try constructor. intros lo. exists false. now rewrite orb_false_r.
  - rewrite H, andb_false_r.
    destruct (ws_finditer_ok (length body) body (S (length body))) as [ms [Hms [Htx [Hok [Hvs Hrun]]]]];
      try lia; auto.
    rewrite Hms. cbn [bind]. eexists. split; [reflexivity|]. fold (wtoks ms).
    repeat split; try assumption. intros lo. destruct (Hrun lo) as [pv Hpv]. exists pv.
    rewrite Hpv. simpl. destruct body; [discriminate|reflexivity].
  - rewrite H. destruct body as [|c b]; [congruence|]. cbn [nonempty andb].
    exists [Tok KSep (c :: b)]. repeat split.
    + unfold toks_text. simpl. now rewrite app_nil_r.
    + constructor; [|constructor]. unfold tok_ok_sp. cbn [tk tx nonempty]. now rewrite H, Hlb.
    + intros lo. exists false. simpl. now rewrite orb_false_r.
Qed.

(** * The tokens of a whole value text (whitespace-separated lists) *)

(** a comment token holds a complete line *)
Definition com_lf (t : tok) : bool := if is_comment_tok t then ends_with_lf (tx t) else true.

(** the last line is a comment without its newline *)
Definition open_comment (v : str) : bool :=
  match last_opt (lines_lf v) with
  | Some l => is_comment_line l && negb (ends_with_lf l)
  | None => false
  end.

Lemma open_comment_line b r : no_lf b = true -> open_comment (b ++ LF :: r) = open_comment r.
Proof.
  intros Hb. unfold open_comment. rewrite lines_lf_line by assumption.
  destruct (lines_lf r) as [|l ls] eqn:E.
  - simpl. rewrite ends_with_lf_snoc. now rewrite andb_false_r.
  - rewrite last_opt_cons by discriminate. reflexivity.
Qed.

Definition cont_line_ok (l : str) : bool := starts_cont l && negb (blank l).

Lemma lf_only_app a b : lf_only (a ++ b) = lf_only a && lf_only b.
Proof. apply forallb_app. Qed.

Lemma lf_only_no_lb b : lf_only b = true -> no_lf b = true -> no_lb b = true.
Proof.
  unfold lf_only, no_lf, no_lb. rewrite !forallb_forall. intros H1 H2 c Hc.
  specialize (H1 c Hc). specialize (H2 c Hc).
  destruct (py_islinebreak c); [|reflexivity]. simpl in H1. now rewrite H1 in H2.
Qed.

Lemma lf_only_line b r : lf_only (b ++ LF :: r) = true -> no_lf b = true ->
  no_lb b = true /\ lf_only r = true.
Proof.
  intros H Hb. rewrite lf_only_app in H. apply andb_true_iff in H. destruct H as [H1 H2].
  split; [now apply lf_only_no_lb|]. change (lf_only (LF :: r)) with (true && lf_only r) in H2. exact H2.
Qed.

Lemma no_lb_removelast s : no_lb s = true -> no_lb (removelast s) = true.
Proof.
  intros H. destruct s as [|c s] using rev_ind; [reflexivity|].
  rewrite removelast_snoc. rewrite no_lb_app in H. apply andb_true_iff in H. tauto.
Qed.

Lemma valsep_nc ts : forallb valsep ts = true -> filter nc ts = ts.
Proof.
  induction ts as [|t ts IH]; [reflexivity|]. simpl. intros H.
  apply andb_true_iff in H. destruct H as [Ht H].
  assert (nc t = true) as ->.
  { unfold nc, is_comment_tok, valsep in *. destruct (tk t); try discriminate; reflexivity. }
  now rewrite IH.
Qed.

Lemma valsep_com_lf ts : forallb valsep ts = true -> forallb com_lf ts = true.
Proof.
  induction ts as [|t ts IH]; [reflexivity|]. simpl. intros H.
  apply andb_true_iff in H. destruct H as [Ht H]. rewrite IH by assumption.
  unfold com_lf, is_comment_tok, valsep in *. destruct (tk t); try discriminate; reflexivity.
Qed.

(** one continuation line (terminated or not) that is not a comment *)
Lemma cont_line_sp c b (term : bool) :
  (c =? SP)%N || (c =? TAB)%N = true -> no_lb b = true -> forallb isws b = false ->
  let l := c :: b ++ (if term then [LF] else []) in
  exists ts, line_tokens Space false l = Ok ts
    /\ toks_text ts = l
    /\ Forall (fun t => tok_ok_sp t = true) ts
    /\ filter nc ts = ts
    /\ forallb com_lf ts = true
    /\ exists pv, arun sLF ts = Some (if term then sLF else AST false pv true).
Proof.
  intros Hc Hb Hnb l.
  assert (Hh : starts_hash l = false).
  { subst l. simpl. apply orb_true_iff in Hc. destruct Hc as [Hc|Hc]; apply N.eqb_eq in Hc; subst c; reflexivity. }
  unfold line_tokens. rewrite Hh. cbn [negb andb]. subst l. cbn [bind].
  destruct (ws_line_tokens_ok b Hb) as [ts [Hts [Htx [Hok [Hvs Hrun]]]]].
  assert (Hkc : tok_ok_sp (Tok KCont [c]) = true).
  { unfold tok_ok_sp. cbn [tk tx]. apply orb_true_iff in Hc.
    destruct Hc as [Hc|Hc]; apply N.eqb_eq in Hc; subst c; reflexivity. }
  destruct term.
  - rewrite ends_with_lf_snoc, removelast_snoc. cbn [line_func]. rewrite Hts. cbn [bind].
    eexists. split; [reflexivity|]. splits.
    + cbn [app]. rewrite toks_text_cons, toks_text_app, Htx. reflexivity.
    + constructor; [exact Hkc|]. apply Forall_app. split; [assumption|]. constructor; [reflexivity|constructor].
    + cbn [app filter nc is_comment_tok tk kind_eqb negb]. rewrite filter_app, valsep_nc by assumption. reflexivity.
    + cbn [app forallb]. rewrite forallb_app, valsep_com_lf by assumption. reflexivity.
    + exists false. cbn [app arun astep tk sLF s_lf]. rewrite arun_app.
      destruct (Hrun false) as [pv Hpv]. rewrite Hpv, Hnb. reflexivity.
  - rewrite app_nil_r. rewrite no_lb_not_ends_lf by assumption. cbn [line_func]. rewrite Hts. cbn [bind].
    eexists. split; [reflexivity|]. splits.
    + cbn [app]. rewrite app_nil_r, toks_text_cons, Htx. reflexivity.
    + rewrite app_nil_r. constructor; assumption.
    + rewrite app_nil_r. cbn [app filter nc is_comment_tok tk kind_eqb negb]. now rewrite valsep_nc.
    + rewrite app_nil_r. cbn [app forallb]. now rewrite valsep_com_lf.
    + destruct (Hrun false) as [pv Hpv]. exists pv. rewrite app_nil_r.
      cbn [app arun astep tk sLF s_lf]. rewrite Hpv, Hnb. reflexivity.
Qed.

Definition noncomment_line (l : str) : bool := negb (is_comment_line l).

Lemma noncomment_line_cons c b : noncomment_line (c :: b) = negb (c =? HASH)%N.
Proof. reflexivity. Qed.

Lemma starts_cont_cases l : starts_cont l = true ->
  exists c b, l = c :: b /\ ((c =? HASH)%N = true \/ (c =? SP)%N || (c =? TAB)%N = true /\ (c =? HASH)%N = false).
Proof.
  destruct l as [|c b]; [discriminate|]. simpl. intros H. exists c, b. split; [reflexivity|].
  destruct (N.eqb_spec c HASH) as [->|Hn]; [now left|right].
  unfold HASH in *. destruct (N.eqb_spec c 35); [congruence|]. rewrite orb_false_r in H.
  split; [exact H|reflexivity].
Qed.

(** all lines of [r] are continuation or comment lines *)
Lemma cont_lines_sp : forall r,
  lf_only r = true -> forallb cont_line_ok (lines_lf r) = true ->
  exists ts, lines_tokens Space false (lines_lf r) = Ok ts
    /\ toks_text ts = r
    /\ Forall (fun t => tok_ok_sp t = true) ts
    /\ toks_text (filter nc ts) = concat (filter noncomment_line (lines_lf r))
    /\ (open_comment r = false -> forallb com_lf ts = true)
    /\ exists s', arun sLF ts = Some s' /\ s_ok s' || s_lf s' = true.
Proof.
  intros r. pattern r. apply lines_ind; clear r.
  - intros _ _. exists []. repeat split; try constructor. now exists sLF.
  - (* unterminated last line *)
    intros b Hne Hb Hlf Hok. rewrite lines_lf_last in * by assumption.
    simpl in Hok. rewrite andb_true_r in Hok. unfold cont_line_ok in Hok.
    apply andb_true_iff in Hok. destruct Hok as [Hsc Hnb]. apply negb_true_iff in Hnb.
    pose proof (lf_only_no_lb b Hlf Hb) as Hlb.
    destruct (starts_cont_cases b Hsc) as [c [b' [-> [Hc|[Hc Hh]]]]].
    + apply N.eqb_eq in Hc. subst c. cbn [lines_tokens line_tokens negb andb starts_hash].
      change (HASH =? HASH)%N with true. cbn [bind app].
      eexists. split; [reflexivity|]. splits.
      * unfold toks_text. simpl. now rewrite app_nil_r.
      * constructor; [|constructor]. unfold tok_ok_sp. cbn [tk tx starts_hash].
        change (HASH =? HASH)%N with true. cbn [andb]. now apply no_lb_removelast.
      * reflexivity.
      * intros Ho. unfold open_comment in Ho. rewrite lines_lf_last in Ho by assumption.
        cbn [last_opt is_comment_line] in Ho. change (HASH =? 35)%N with true in Ho.
        cbn [andb] in Ho. apply negb_false_iff in Ho.
        rewrite no_lb_not_ends_lf in Ho by assumption. discriminate.
      * now exists sLF.
    + assert (Hb' : no_lb b' = true).
      { change (c :: b') with ([c] ++ b') in Hlb. rewrite no_lb_app in Hlb. apply andb_true_iff in Hlb. tauto. }
      assert (Hnb' : forallb isws b' = false).
      { unfold blank in Hnb. simpl in Hnb. apply andb_false_iff in Hnb. destruct Hnb as [Hx|Hx]; [|exact Hx].
        apply orb_true_iff in Hc. destruct Hc as [Hc|Hc]; apply N.eqb_eq in Hc; subst c; discriminate. }
      destruct (cont_line_sp c b' false Hc Hb' Hnb') as [ts [Hts [Htx [Hk [Hf [Hcl [pv Hrun]]]]]]].
      rewrite app_nil_r in *. cbn [lines_tokens]. rewrite Hts. cbn [bind]. rewrite app_nil_r.
      exists ts. splits; try assumption; try (intros _; assumption); try reflexivity.
      * rewrite Hf, Htx. cbn [filter]. rewrite noncomment_line_cons, Hh. cbn [negb concat]. now rewrite app_nil_r.
      * eexists. split; [exact Hrun|reflexivity].
  - (* a terminated line, then the rest *)
    intros b r Hb IH Hlf Hok. rewrite lines_lf_line in * by assumption.
    destruct (lf_only_line b r Hlf Hb) as [Hlb Hlfr].
    cbn [forallb] in Hok. apply andb_true_iff in Hok. destruct Hok as [Hl Hok].
    destruct (IH Hlfr Hok) as [tr [Htr [Htxr [Hkr [Hfr [Hcr [s' [Hrunr Hfin]]]]]]]].
    unfold cont_line_ok in Hl. apply andb_true_iff in Hl. destruct Hl as [Hsc Hnb].
    apply negb_true_iff in Hnb.
    destruct (starts_cont_cases _ Hsc) as [c [b' [El [Hc|[Hc Hh]]]]].
    + apply N.eqb_eq in Hc. subst c. cbn [lines_tokens]. rewrite El.
      cbn [line_tokens negb andb starts_hash]. change (HASH =? HASH)%N with true. cbn [bind].
      rewrite Htr. cbn [bind app]. exists (Tok KCom (HASH :: b') :: tr). split; [reflexivity|]. splits.
      * rewrite toks_text_cons, Htxr. cbn [tx]. rewrite <- El. now rewrite <- app_assoc.
      * constructor; [|assumption]. unfold tok_ok_sp. cbn [tk tx starts_hash].
        change (HASH =? HASH)%N with true. cbn [andb]. rewrite <- El, removelast_snoc. exact Hlb.
      * cbn [filter nc is_comment_tok tk kind_eqb negb noncomment_line is_comment_line].
        change (HASH =? 35)%N with true. cbn [negb]. exact Hfr.
      * intros Ho. rewrite open_comment_line in Ho by assumption.
        cbn [forallb com_lf is_comment_tok tk kind_eqb tx]. rewrite <- El, ends_with_lf_snoc.
        now apply Hcr.
      * cbn [arun astep tk sLF s_lf]. eexists. split; [exact Hrunr|exact Hfin].
    + destruct b as [|c1 b1]; [simpl in El; injection El as <- <-; discriminate|].
      simpl in El. injection El as <- <-.
      assert (Hb' : no_lb b1 = true).
      { change (c1 :: b1) with ([c1] ++ b1) in Hlb. rewrite no_lb_app in Hlb. apply andb_true_iff in Hlb. tauto. }
      assert (Hnb' : forallb isws b1 = false).
      { unfold blank in Hnb. change ((c1 :: b1) ++ [LF]) with (c1 :: b1 ++ [LF]) in Hnb.
        cbn [forallb] in Hnb. rewrite forallb_app in Hnb. cbn [forallb] in Hnb.
        change (py_isspace LF) with true in Hnb. rewrite !andb_true_r in Hnb.
        apply andb_false_iff in Hnb. destruct Hnb as [Hx|Hx]; [|exact Hx].
        apply orb_true_iff in Hc. destruct Hc as [Hc|Hc]; apply N.eqb_eq in Hc; subst c1; discriminate. }
      destruct (cont_line_sp c1 b1 true Hc Hb' Hnb') as [ts [Hts [Htx [Hk [Hf [Hcl [pv Hrun]]]]]]].
      cbn [lines_tokens]. change ((c1 :: b1) ++ [LF]) with (c1 :: b1 ++ [LF]).
      rewrite Hts. cbn [bind]. rewrite Htr. cbn [bind].
      eexists. split; [reflexivity|]. splits.
      * rewrite toks_text_app, Htx, Htxr. cbn [app]. now rewrite <- app_assoc.
      * apply Forall_app. split; assumption.
      * rewrite filter_app, toks_text_app, Hf, Htx, Hfr.
        cbn [filter]. rewrite noncomment_line_cons, Hh. cbn [negb concat]. reflexivity.
      * intros Ho. rewrite open_comment_line in Ho by assumption.
        rewrite forallb_app, Hcl. now apply Hcr.
      * rewrite arun_app, Hrun. eexists. split; [exact Hrunr|exact Hfin].
Qed.

(** * tokenize on a value text of the property's domain *)

Lemma lf_only_islb v : lf_only v = true -> forall c, In c v -> py_islinebreak c = is_lf c.
Proof.
  unfold lf_only. rewrite forallb_forall. intros H c Hc. specialize (H c Hc).
  destruct (is_lf c) eqn:E.
  - unfold is_lf in E. apply N.eqb_eq in E. now subst c.
  - rewrite orb_false_r in H. now apply negb_true_iff in H.
Qed.

Lemma splitlines_lf_only v : lf_only v = true -> splitlines py_islinebreak true v = lines_lf v.
Proof.
  intros H. unfold lines_lf, splitlines. eapply splitlines_aux_ext; [reflexivity|].
  now apply lf_only_islb.
Qed.

Lemma blank_all_ws v : v <> [] -> all_ws v = blank v.
Proof. intros H. unfold all_ws, blank. destruct v; [congruence|reflexivity]. Qed.

Definition open_comment1 (v : str) : bool :=
  match lines_lf v with
  | [] => false
  | _ :: ls => match last_opt ls with
               | Some l => is_comment_line l && negb (ends_with_lf l)
               | None => false
               end
  end.

Lemma closed_value_open v : closed_value v = negb (open_comment1 v).
Proof.
  unfold closed_value, open_comment1. destruct (lines_lf v) as [|l ls]; [reflexivity|].
  destruct (last_opt ls) as [l'|]; [|reflexivity].
  change (ends_lf l') with (ends_with_lf l').
  destruct (is_comment_line l'), (ends_with_lf l'); reflexivity.
Qed.

Lemma tokenize_sp_ok v : value_ok v = true ->
  exists ts s', tokenize Space v = Ok ts
    /\ toks_text ts = v
    /\ Forall (fun t => tok_ok_sp t = true) ts
    /\ toks_text (filter nc ts) = drop_comment_lines v
    /\ (open_comment1 v = false -> forallb com_lf ts = true)
    /\ arun s0 ts = Some s' /\ s_ok s' || s_lf s' = true.
Proof.
  intros Hv. unfold value_ok in Hv. apply andb_true_iff in Hv. destruct Hv as [Hv Hls].
  apply andb_true_iff in Hv. destruct Hv as [Hlf Hnb]. apply negb_true_iff in Hnb.
  assert (Hne : v <> []) by (intros ->; discriminate).
  unfold tokenize. rewrite blank_all_ws, Hnb by assumption.
  rewrite splitlines_lf_only by assumption. unfold drop_comment_lines, open_comment1.
  destruct (lf_decompose v) as [b [rest [Hb [[-> ->]|[r [-> ->]]]]]].
  - (* a single unterminated line *)
    pose proof (lf_only_no_lb b Hlf Hb) as Hlb.
    rewrite lines_lf_last by assumption.
    cbn [lines_tokens line_tokens negb andb bind]. rewrite no_lb_not_ends_lf by assumption.
    cbn [line_func].
    destruct (ws_line_tokens_ok b Hlb) as [ts [Hts [Htx [Hok [Hvs Hrun]]]]].
    rewrite Hts. cbn [bind]. rewrite !app_nil_r.
    destruct (Hrun true) as [pv Hpv].
    exists ts. eexists. split; [reflexivity|]. splits; try assumption.
    + rewrite valsep_nc by assumption. exact Htx.
    + intros _. now apply valsep_com_lf.
    + exact Hpv.
    + reflexivity.
  - destruct (lf_only_line b r Hlf Hb) as [Hlb Hlfr].
    rewrite lines_lf_line in * by assumption.
    destruct (cont_lines_sp r Hlfr Hls) as [tr [Htr [Htxr [Hkr [Hfr [Hcr [s' [Hrunr Hfin]]]]]]]].
    cbn [lines_tokens line_tokens negb andb bind]. rewrite ends_with_lf_snoc, removelast_snoc.
    cbn [line_func].
    destruct (ws_line_tokens_ok b Hlb) as [ts [Hts [Htx [Hok [Hvs Hrun]]]]].
    rewrite Hts. cbn [bind]. rewrite Htr. cbn [bind app].
    destruct (Hrun true) as [pv Hpv].
    exists ((ts ++ [Tok KNl [LF]]) ++ tr), s'. split; [reflexivity|]. splits.
    + rewrite !toks_text_app, Htx, Htxr. cbn. now rewrite <- app_assoc.
    + repeat (apply Forall_app; split); try assumption. constructor; [reflexivity|constructor].
    + rewrite !filter_app, !toks_text_app, valsep_nc, Htx, Hfr by assumption. reflexivity.
    + intros Ho. rewrite !forallb_app, valsep_com_lf by assumption. cbn [forallb com_lf is_comment_tok tk kind_eqb andb].
      apply Hcr. exact Ho.
    + unfold s0. rewrite !arun_app, Hpv. cbn [arun astep tk s_lf s_ok orb negb]. exact Hrunr.
    + exact Hfin.
Qed.

(** * From tokens to values: whitespace-separated lists *)

Lemma tok_ok_sp_ws t : tok_ok_sp t = true -> is_val t = false -> nc t = true ->
  tx t <> [] /\ forallb isws (tx t) = true.
Proof.
  unfold tok_ok_sp, is_val, nc, is_comment_tok. destruct t as [k x]. cbn [tk tx].
  destruct k; cbn [kind_eqb negb]; intros H; try discriminate; intros _ _.
  - apply andb_true_iff in H. destruct H as [H _]. apply andb_true_iff in H. destruct H as [H1 H2].
    split; [destruct x; [discriminate|discriminate]|assumption].
  - apply andb_true_iff in H. destruct H as [H _]. apply andb_true_iff in H. destruct H as [H1 H2].
    split; [destruct x; [discriminate|discriminate]|assumption].
  - apply orb_true_iff in H. destruct H as [H|H]; apply str_eqb_eq in H; subst x; split; try discriminate; reflexivity.
  - apply str_eqb_eq in H. subst x. split; [discriminate|reflexivity].
Qed.

Lemma ws_head_app_ne x rest : x <> [] -> forallb isws x = true -> ws_head isws (x ++ rest) = true.
Proof. destruct x as [|c x]; [congruence|]. simpl. intros _ H. apply andb_true_iff in H. tauto. Qed.

(** the values of an accepted token list are the words of its comment-free text *)
Lemma sp_vals : forall ts s s',
  Forall (fun t => tok_ok_sp t = true) ts -> arun s ts = Some s' ->
  split_ws isws (toks_text (filter nc ts)) = vals ts
  /\ (s_pv s || s_lf s = true -> ws_head isws (toks_text (filter nc ts)) = true).
Proof.
  induction ts as [|t r IH]; intros s s' Hok Hrun; [split; reflexivity|].
  inversion Hok as [|? ? Ht Hr]; subst. cbn [arun] in Hrun.
  destruct (astep s (tk t)) as [s1|] eqn:Es; [|discriminate].
  destruct (IH s1 s' Hr Hrun) as [IH1 IH2].
  destruct (is_val t) eqn:Ev.
  - (* a value *)
    assert (Hk : tk t = KVal) by (unfold is_val in Ev; destruct (tk t); try discriminate; reflexivity).
    rewrite Hk in Es. cbn [astep] in Es.
    destruct (s_lf s || s_pv s) eqn:E; [discriminate|]. injection Es as <-.
    assert (Hnc : nc t = true) by (unfold nc, is_comment_tok; now rewrite Hk).
    cbn [filter]. rewrite Hnc. unfold vals. cbn [filter]. rewrite Ev. cbn [map].
    rewrite toks_text_cons.
    unfold tok_ok_sp in Ht. rewrite Hk in Ht. apply andb_true_iff in Ht. destruct Ht as [Hne Hw].
    split.
    + rewrite split_ws_word.
      * f_equal. exact IH1.
      * destruct (tx t); [discriminate|discriminate].
      * exact Hw.
      * apply IH2. reflexivity.
    + intros Hp. rewrite orb_comm in Hp. congruence.
  - destruct (nc t) eqn:Hnc.
    + destruct (tok_ok_sp_ws t Ht Ev Hnc) as [Hne Hws].
      cbn [filter]. rewrite Hnc. unfold vals. cbn [filter]. rewrite Ev.
      rewrite toks_text_cons. split.
      * rewrite split_ws_spaces by assumption. exact IH1.
      * intros _. now apply ws_head_app_ne.
    + (* a comment line: only after a line end *)
      assert (Hk : tk t = KCom).
      { unfold nc, is_comment_tok in Hnc. destruct (tk t); try discriminate; reflexivity. }
      rewrite Hk in Es. cbn [astep] in Es. destruct (s_lf s) eqn:E; [|discriminate]. injection Es as <-.
      cbn [filter]. rewrite Hnc. unfold vals. cbn [filter]. rewrite Ev. split; [exact IH1|].
      intros _. apply IH2. reflexivity.
Qed.

Definition sp_item (t : tok) : item := if is_val t then IV [t] false else IT t.

Lemma parse_stream_space : forall ts fuel, length ts < fuel ->
  parse_stream Space fuel ts = Ok (map sp_item ts).
Proof.
  induction ts as [|t r IH]; intros fuel Hf; (destruct fuel as [|f]; [simpl in Hf; lia|]); [reflexivity|].
  cbn [parse_stream]. simpl in Hf. unfold sp_item at 1. cbn [map].
  destruct (is_val t); rewrite IH by lia; reflexivity.
Qed.

Lemma items_text_sp ts : items_text (map sp_item ts) = toks_text ts.
Proof.
  induction ts as [|t r IH]; [reflexivity|]. unfold items_text in *. cbn [map concat].
  rewrite IH. rewrite toks_text_cons. f_equal. unfold sp_item. destruct (is_val t); unfold item_text, toks_text; simpl; now rewrite app_nil_r.
Qed.

Lemma is_val_nc t : is_val t = true -> is_comment_tok t = false.
Proof. unfold is_val, is_comment_tok. destruct (tk t); try discriminate; reflexivity. Qed.

Lemma is_value_sp t : is_value (sp_item t) = is_val t.
Proof. unfold sp_item. destruct (is_val t); reflexivity. Qed.

Lemma render_sp t : is_val t = true -> render (sp_item t) = tx t.
Proof.
  intros E. unfold sp_item. rewrite E. unfold render. cbn [item_toks filter].
  rewrite is_val_nc by assumption. cbn [negb]. unfold toks_text. simpl. now rewrite app_nil_r.
Qed.

Lemma values_of_sp ts : values_of (map sp_item ts) = vals ts.
Proof.
  induction ts as [|t r IH]; [reflexivity|]. unfold values_of, vals in *. cbn [map filter].
  rewrite is_value_sp. destruct (is_val t) eqn:E; [|exact IH].
  cbn [map]. rewrite IH, render_sp by assumption. reflexivity.
Qed.

Lemma values_of_app a b : values_of (a ++ b) = values_of a ++ values_of b.
Proof. unfold values_of. now rewrite filter_app, map_app. Qed.

(** dropping a final non-value item does not change the values *)
Lemma values_of_removelast its t : last_opt its = Some (IT t) -> values_of (removelast its) = values_of its.
Proof.
  intros H. apply ends_snoc_inv in H. rewrite H at 2. rewrite values_of_app.
  unfold values_of at 3. simpl. now rewrite app_nil_r.
Qed.

Lemma mk_view_values its : its <> [] ->
  exists vw, mk_view its = Ok vw /\ view_values vw = values_of its.
Proof.
  intros Hne. unfold mk_view. destruct its as [|i0 its0] eqn:Eits; [congruence|]. rewrite <- Eits in *.
  eexists. split; [reflexivity|]. unfold view_values, v_items. cbn [v_nodes].
  assert (G : forall n l, map snd (number_from n l) = l).
  { intros n l. revert n. induction l as [|x l IH]; intros n; [reflexivity|]. simpl. now rewrite IH. }
  rewrite G. destruct (last_opt its) as [[t|ts f]|] eqn:El; try reflexivity.
  destruct (kind_eqb (tk t) KNl); [|reflexivity]. now apply values_of_removelast with t.
Qed.

Theorem view_reads_split_space v : value_ok v = true ->
  exists vw, interpret Space v = Ok vw /\ view_values vw = split_spec false v.
Proof.
  intros Hv. destruct (tokenize_sp_ok v Hv) as [ts [s' [Htok [Htx [Hok [Hdc [_ [Hrun _]]]]]]]].
  destruct (sp_vals ts s0 s' Hok Hrun) as [Hvals _].
  unfold interpret, parse_str. rewrite Htok. cbn [bind]. rewrite Htx, Nat.eqb_refl. cbn [negb].
  rewrite parse_stream_space by lia. cbn [bind]. rewrite items_text_sp, Htx, Nat.eqb_refl. cbn [negb].
  assert (Hne : map sp_item ts <> []).
  { destruct ts; [|discriminate]. unfold toks_text in Htx. simpl in Htx. subst v. discriminate. }
  destruct (mk_view_values _ Hne) as [vw [Hvw Hvals']].
  exists vw. split; [exact Hvw|]. rewrite Hvals', values_of_sp, <- Hvals, Hdc. reflexivity.
Qed.

(** * The comma finditer leaf *)

Definition word_ok (w : str) : bool :=
  match w with
  | c :: _ => negb (isws c)
              && match last_opt w with Some d => negb (isws d) | None => false end
              && forallb not_comma w
  | [] => false
  end.

Lemma span_cons_false {A} (p : A -> bool) c s : p c = false -> span p (c :: s) = ([], c :: s).
Proof. simpl. now intros ->. Qed.

Lemma not_comma_false c : not_comma c = false -> c = COMMA.
Proof. unfold not_comma. intros H. apply negb_false_iff in H. now apply N.eqb_eq in H. Qed.

Lemma skipn_length_app {A} (a b : list A) : skipn (length a) (a ++ b) = b.
Proof. induction a; simpl; auto. Qed.

Lemma firstn_length_app {A} (a b : list A) : firstn (length a) (a ++ b) = a.
Proof. induction a; simpl; [reflexivity|]. now f_equal. Qed.

Lemma comma_tail_spec s sbw w saw rest :
  comma_tail s = ((sbw, w, saw), rest) ->
  s = sbw ++ w ++ saw ++ rest
  /\ forallb isws sbw = true /\ forallb isws saw = true
  /\ (w = [] /\ saw = [] \/ word_ok w = true)
  /\ (rest = [] \/ exists r, rest = COMMA :: r).
Proof.
  unfold comma_tail. destruct (span isws s) as [sb r1] eqn:E1. apply span_eq in E1.
  destruct E1 as [Es [Hsb Hr1]].
  destruct r1 as [|c r1'].
  - intros [= <- <- <- <-]. rewrite app_nil_r in Es. splits; auto. cbn [app]. now rewrite app_nil_r.
  - destruct (not_comma c) eqn:Ec.
    + destruct (span not_comma (c :: r1')) as [run r2] eqn:E2. apply span_eq in E2.
      destruct E2 as [Er [Hrun Hr2]].
      intros [= <- <- <- <-].
      destruct (rdropwhile_split isws run) as [t [Ht1 Ht2]].
      assert (Hsk : skipn (length (rstrip_by isws run)) run = t).
      { unfold rstrip_by. rewrite Ht1 at 2. apply skipn_length_app. }
      rewrite Hsk. unfold rstrip_by in *.
      destruct run as [|c' run'].
      { simpl in Er. subst r2. rewrite Ec in Hr2. discriminate. }
      simpl in Er. injection Er as <- Er'.
      splits; auto.
      * rewrite Es. f_equal. rewrite app_assoc, <- Ht1. simpl. now rewrite Er'.
      * right. rewrite rdropwhile_cons_keep by assumption. unfold word_ok.
        rewrite Hr1. cbn [negb andb].
        pose proof (rdropwhile_last isws (c :: run')) as HL.
        rewrite rdropwhile_cons_keep in HL by assumption.
        destruct (last_opt (c :: rdropwhile isws run')) as [d|] eqn:EL.
        -- rewrite HL. cbn [negb andb].
           rewrite rdropwhile_cons_keep in Ht1 by assumption. rewrite Ht1 in Hrun.
           apply forallb_app_iff in Hrun. tauto.
        -- apply last_opt_none in EL. discriminate.
      * destruct r2 as [|d r2']; [now left|right]. apply not_comma_false in Hr2. subst d. now exists r2'.
    + intros [= <- <- <- <-]. apply not_comma_false in Ec. subst c. splits; auto.
      right. now exists r1'.
Qed.

(** text conditions by kind, for the tokens of a comma-separated list *)
Definition tok_ok_cm (t : tok) : bool :=
  match tk t with
  | KVal => word_ok (tx t)
  | KWs => nonempty (tx t) && forallb isws (tx t)
  | KComma => str_eqb (tx t) [COMMA]
  | KCont => str_eqb (tx t) [SP] || str_eqb (tx t) [TAB]
  | KNl => str_eqb (tx t) [LF]
  | KCom => true
  | KSep => false
  end.

Definition ctoks (gs : list cgroups) : list tok :=
  flat_map (fun g =>
        opt_tok KWs (g_sbc g) ++ (if g_comma g then [Tok KComma [COMMA]] else [])
        ++ opt_tok KWs (g_sbw g) ++ opt_tok KVal (g_word g) ++ opt_tok KWs (g_saw g)) gs.

(** kinds a line body can produce *)
Definition inline_cm (t : tok) : bool := match tk t with KVal | KWs | KComma => true | _ => false end.

Lemma opt_ws_ok s : forallb isws s = true ->
  Forall (fun t => tok_ok_cm t = true) (opt_tok KWs s) /\ forallb inline_cm (opt_tok KWs s) = true.
Proof.
  intros H. destruct s as [|c s]; [split; [constructor|reflexivity]|].
  split; [|reflexivity]. constructor; [|constructor]. unfold tok_ok_cm. cbn [tk tx nonempty]. now rewrite H.
Qed.

Lemma opt_val_ok w : w = [] \/ word_ok w = true ->
  Forall (fun t => tok_ok_cm t = true) (opt_tok KVal w) /\ forallb inline_cm (opt_tok KVal w) = true.
Proof.
  intros H. destruct w as [|c w]; [split; [constructor|reflexivity]|].
  destruct H as [H|H]; [discriminate|]. split; [|reflexivity]. constructor; [exact H|constructor].
Qed.

(** the tokens of one match *)
Lemma group_toks_ok (cm : bool) sbw w saw :
  forallb isws sbw = true -> forallb isws saw = true -> (w = [] /\ saw = [] \/ word_ok w = true) ->
  let ts := opt_tok KWs [] ++ (if cm then [Tok KComma [COMMA]] else [])
            ++ opt_tok KWs sbw ++ opt_tok KVal w ++ opt_tok KWs saw in
  toks_text ts = (if cm then [COMMA] else []) ++ sbw ++ w ++ saw
  /\ Forall (fun t => tok_ok_cm t = true) ts /\ forallb inline_cm ts = true.
Proof.
  intros H1 H2 H3 ts. subst ts.
  destruct (opt_ws_ok sbw H1) as [A1 B1]. destruct (opt_ws_ok saw H2) as [A2 B2].
  assert (H3' : w = [] \/ word_ok w = true) by tauto.
  destruct (opt_val_ok w H3') as [A3 B3].
  splits.
  - rewrite !toks_text_app, !toks_text_opt. destruct cm; reflexivity.
  - cbn [opt_tok app]. apply Forall_app. split; [destruct cm; repeat constructor|].
    repeat (apply Forall_app; split); assumption.
  - cbn [opt_tok app]. rewrite !forallb_app, B1, B2, B3. destruct cm; reflexivity.
Qed.

Lemma comma_finditer_rest : forall n s fuel (at_start must_adv : bool),
  length s <= n -> length s < fuel ->
  (at_start = true -> must_adv = true) ->
  (s = [] \/ exists s', s = COMMA :: s') ->
  exists gs, comma_finditer fuel at_start must_adv s = Ok gs
    /\ toks_text (ctoks gs) = s
    /\ Forall (fun t => tok_ok_cm t = true) (ctoks gs)
    /\ forallb inline_cm (ctoks gs) = true.
Proof.
  induction n as [|n IH]; intros s fuel at_start must_adv Hn Hf Hfl Hs.
  - destruct s; [|simpl in Hn; lia]. destruct fuel; [simpl in Hf; lia|].
    exists []. split; [|splits; try constructor].
    cbn [comma_finditer comma_try comma_tail span]. destruct at_start.
    + rewrite (Hfl eq_refl). reflexivity.
    + reflexivity.
  - destruct Hs as [->|[s' ->]].
    { destruct fuel; [simpl in Hf; lia|].
      exists []. split; [|splits; try constructor].
      cbn [comma_finditer comma_try comma_tail span]. destruct at_start.
      + rewrite (Hfl eq_refl). reflexivity.
      + reflexivity. }
    destruct fuel as [|f]; [lia|]. simpl in Hn, Hf.
    destruct (comma_tail s') as [[[sbw w] saw] rest] eqn:Et.
    destruct (comma_tail_spec _ _ _ _ _ Et) as [Es [Hsbw [Hsaw [Hw Hrest]]]].
    assert (Htry : comma_try at_start must_adv (COMMA :: s') = Some (CG [] true sbw w saw, rest, false)).
    { unfold comma_try. rewrite (span_cons_false isws COMMA s' isws_COMMA).
      change (COMMA =? COMMA)%N with true. cbn iota. rewrite Et.
      destruct at_start; [|reflexivity].
      rewrite (Hfl eq_refl). unfold comma_tail. rewrite (span_cons_false isws COMMA s' isws_COMMA).
      change (not_comma COMMA) with false. cbn iota. reflexivity. }
    cbn [comma_finditer]. rewrite Htry. cbn [andb].
    assert (Hlen : length rest <= length s').
    { rewrite Es. rewrite !app_length. lia. }
    assert (Hff : false = true -> false = true) by (intros; assumption).
    destruct (IH rest f false false ltac:(lia) ltac:(lia) Hff Hrest) as [gs [Hgs [Htx [Hok Hin]]]].
    rewrite andb_false_r. rewrite Hgs. cbn [bind]. eexists. split; [reflexivity|].
    cbn [ctoks flat_map g_sbc g_comma g_sbw g_word g_saw]. fold (ctoks gs).
    destruct (group_toks_ok true sbw w saw Hsbw Hsaw Hw) as [T1 [T2 T3]].
    splits.
    + rewrite toks_text_app, T1, Htx. rewrite Es. cbn [app]. now rewrite <- !app_assoc.
    + apply Forall_app. split; assumption.
    + rewrite forallb_app, T3, Hin. reflexivity.
Qed.

Lemma comma_finditer_S f a m s :
  comma_finditer (S f) a m s =
  match comma_try a m s with
  | Some (g, rest, empty) => do more <- comma_finditer f (a && empty) empty rest; Ok (g :: more)
  | None => match s with [] => Ok [] | _ :: s' => comma_finditer f false false s' end
  end.
Proof. reflexivity. Qed.

(** comma_split_tokenizer's body on one line *)
Lemma comma_line_tokens_ok body :
  exists ts, comma_line_tokens body = Ok ts
    /\ toks_text ts = body
    /\ Forall (fun t => tok_ok_cm t = true) ts
    /\ forallb inline_cm ts = true.
Proof.
  unfold comma_line_tokens, comma_groups.
  destruct (comma_tail body) as [[[sbw w] saw] rest] eqn:Et.
  destruct (comma_tail_spec _ _ _ _ _ Et) as [Es [Hsbw [Hsaw [Hw Hrest]]]].
  assert (Hlen : length rest <= length body) by (rewrite Es; rewrite !app_length; lia).
  set (fuel := 2 * length body + 2).
  assert (Hfuel : fuel = S (S (2 * length body))) by (subst fuel; lia).
  rewrite Hfuel. rewrite comma_finditer_S. cbn [comma_try]. rewrite Et. cbn [andb].
  set (empty := negb (nonempty sbw || nonempty w || nonempty saw)).
  destruct (comma_finditer_rest (length rest) rest (S (2 * length body)) empty empty) as [gs [Hgs [Htx [Hok Hin]]]];
    try lia; auto.
  rewrite Hgs. cbn [bind]. eexists. split; [reflexivity|].
  fold ctoks. cbn [ctoks flat_map g_sbc g_comma g_sbw g_word g_saw]. fold (ctoks gs).
  destruct (group_toks_ok false sbw w saw Hsbw Hsaw Hw) as [T1 [T2 T3]].
  splits.
  - rewrite toks_text_app, T1, Htx. rewrite Es. cbn [app]. now rewrite <- !app_assoc.
  - apply Forall_app. split; assumption.
  - rewrite forallb_app, T3, Hin. reflexivity.
Qed.

(** * The tokens of a whole value text (comma-separated lists) *)

Lemma inline_cm_nc ts : forallb inline_cm ts = true -> filter nc ts = ts.
Proof.
  induction ts as [|t ts IH]; [reflexivity|]. simpl. intros H.
  apply andb_true_iff in H. destruct H as [Ht H].
  assert (nc t = true) as ->.
  { unfold nc, is_comment_tok, inline_cm in *. destruct (tk t); try discriminate; reflexivity. }
  now rewrite IH.
Qed.

Lemma cont_line_cm c b (term : bool) :
  (c =? SP)%N || (c =? TAB)%N = true -> no_lb b = true ->
  let l := c :: b ++ (if term then [LF] else []) in
  exists ts, line_tokens Comma false l = Ok ts
    /\ toks_text ts = l
    /\ Forall (fun t => tok_ok_cm t = true) ts
    /\ filter nc ts = ts.
Proof.
  intros Hc Hb l.
  assert (Hh : starts_hash l = false).
  { subst l. simpl. apply orb_true_iff in Hc. destruct Hc as [Hc|Hc]; apply N.eqb_eq in Hc; subst c; reflexivity. }
  unfold line_tokens. rewrite Hh. cbn [negb andb]. subst l. cbn [bind].
  destruct (comma_line_tokens_ok b) as [ts [Hts [Htx [Hok Hin]]]].
  assert (Hkc : tok_ok_cm (Tok KCont [c]) = true).
  { unfold tok_ok_cm. cbn [tk tx]. apply orb_true_iff in Hc.
    destruct Hc as [Hc|Hc]; apply N.eqb_eq in Hc; subst c; reflexivity. }
  destruct term.
  - rewrite ends_with_lf_snoc, removelast_snoc. cbn [line_func]. rewrite Hts. cbn [bind].
    eexists. split; [reflexivity|]. splits.
    + cbn [app]. rewrite toks_text_cons, toks_text_app, Htx. reflexivity.
    + constructor; [exact Hkc|]. apply Forall_app. split; [assumption|]. constructor; [reflexivity|constructor].
    + cbn [app filter nc is_comment_tok tk kind_eqb negb]. rewrite filter_app, inline_cm_nc by assumption. reflexivity.
  - rewrite app_nil_r. rewrite no_lb_not_ends_lf by assumption. cbn [line_func]. rewrite Hts. cbn [bind].
    eexists. split; [reflexivity|]. splits.
    + cbn [app]. rewrite app_nil_r, toks_text_cons, Htx. reflexivity.
    + rewrite app_nil_r. constructor; assumption.
    + rewrite app_nil_r. cbn [app filter nc is_comment_tok tk kind_eqb negb]. now rewrite inline_cm_nc.
Qed.

Lemma cont_lines_cm : forall r,
  lf_only r = true -> forallb cont_line_ok (lines_lf r) = true ->
  exists ts, lines_tokens Comma false (lines_lf r) = Ok ts
    /\ toks_text ts = r
    /\ Forall (fun t => tok_ok_cm t = true) ts
    /\ toks_text (filter nc ts) = concat (filter noncomment_line (lines_lf r)).
Proof.
  intros r. pattern r. apply lines_ind; clear r.
  - intros _ _. exists []. splits; try constructor.
  - intros b Hne Hb Hlf Hok. rewrite lines_lf_last in * by assumption.
    simpl in Hok. rewrite andb_true_r in Hok. unfold cont_line_ok in Hok.
    apply andb_true_iff in Hok. destruct Hok as [Hsc _].
    pose proof (lf_only_no_lb b Hlf Hb) as Hlb.
    destruct (starts_cont_cases b Hsc) as [c [b' [-> [Hc|[Hc Hh]]]]].
    + apply N.eqb_eq in Hc. subst c. cbn [lines_tokens line_tokens negb andb starts_hash].
      change (HASH =? HASH)%N with true. cbn [bind app].
      eexists. split; [reflexivity|]. splits.
      * unfold toks_text. simpl. now rewrite app_nil_r.
      * constructor; [reflexivity|constructor].
      * reflexivity.
    + assert (Hb' : no_lb b' = true).
      { change (c :: b') with ([c] ++ b') in Hlb. rewrite no_lb_app in Hlb. apply andb_true_iff in Hlb. tauto. }
      destruct (cont_line_cm c b' false Hc Hb') as [ts [Hts [Htx [Hk Hf]]]].
      rewrite app_nil_r in *. cbn [lines_tokens]. rewrite Hts. cbn [bind]. rewrite app_nil_r.
      exists ts. splits; try assumption; try reflexivity.
      rewrite Hf, Htx. cbn [filter]. rewrite noncomment_line_cons, Hh. cbn [negb concat]. now rewrite app_nil_r.
  - intros b r Hb IH Hlf Hok. rewrite lines_lf_line in * by assumption.
    destruct (lf_only_line b r Hlf Hb) as [Hlb Hlfr].
    cbn [forallb] in Hok. apply andb_true_iff in Hok. destruct Hok as [Hl Hok].
    destruct (IH Hlfr Hok) as [tr [Htr [Htxr [Hkr Hfr]]]].
    unfold cont_line_ok in Hl. apply andb_true_iff in Hl. destruct Hl as [Hsc _].
    destruct (starts_cont_cases _ Hsc) as [c [b' [El [Hc|[Hc Hh]]]]].
    + apply N.eqb_eq in Hc. subst c. cbn [lines_tokens]. rewrite El.
      cbn [line_tokens negb andb starts_hash]. change (HASH =? HASH)%N with true. cbn [bind].
      rewrite Htr. cbn [bind app]. exists (Tok KCom (HASH :: b') :: tr). split; [reflexivity|]. splits.
      * rewrite toks_text_cons, Htxr. cbn [tx]. rewrite <- El. now rewrite <- app_assoc.
      * constructor; [reflexivity|assumption].
      * cbn [filter nc is_comment_tok tk kind_eqb negb]. rewrite noncomment_line_cons.
        change (HASH =? HASH)%N with true. cbn [negb]. exact Hfr.
    + destruct b as [|c1 b1]; [simpl in El; injection El as <- <-; discriminate|].
      simpl in El. injection El as <- <-.
      assert (Hb' : no_lb b1 = true).
      { change (c1 :: b1) with ([c1] ++ b1) in Hlb. rewrite no_lb_app in Hlb. apply andb_true_iff in Hlb. tauto. }
      destruct (cont_line_cm c1 b1 true Hc Hb') as [ts [Hts [Htx [Hk Hf]]]].
      cbn [lines_tokens]. change ((c1 :: b1) ++ [LF]) with (c1 :: b1 ++ [LF]).
      rewrite Hts. cbn [bind]. rewrite Htr. cbn [bind].
      eexists. split; [reflexivity|]. splits.
      * rewrite toks_text_app, Htx, Htxr. cbn [app]. now rewrite <- app_assoc.
      * apply Forall_app. split; assumption.
      * rewrite filter_app, toks_text_app, Hf, Htx, Hfr.
        cbn [filter]. rewrite noncomment_line_cons, Hh. cbn [negb concat]. reflexivity.
Qed.

Lemma tokenize_cm_ok v : value_ok v = true ->
  exists ts, tokenize Comma v = Ok ts
    /\ toks_text ts = v
    /\ Forall (fun t => tok_ok_cm t = true) ts
    /\ toks_text (filter nc ts) = drop_comment_lines v.
Proof.
  intros Hv. unfold value_ok in Hv. apply andb_true_iff in Hv. destruct Hv as [Hv Hls].
  apply andb_true_iff in Hv. destruct Hv as [Hlf Hnb]. apply negb_true_iff in Hnb.
  assert (Hne : v <> []) by (intros ->; discriminate).
  unfold tokenize. rewrite blank_all_ws, Hnb by assumption.
  rewrite splitlines_lf_only by assumption. unfold drop_comment_lines.
  destruct (lf_decompose v) as [b [rest [Hb [[-> ->]|[r [-> ->]]]]]].
  - pose proof (lf_only_no_lb b Hlf Hb) as Hlb.
    rewrite lines_lf_last by assumption.
    cbn [lines_tokens line_tokens negb andb bind]. rewrite no_lb_not_ends_lf by assumption.
    cbn [line_func].
    destruct (comma_line_tokens_ok b) as [ts [Hts [Htx [Hok Hin]]]].
    rewrite Hts. cbn [bind]. rewrite !app_nil_r.
    exists ts. split; [reflexivity|]. splits; try assumption.
    rewrite inline_cm_nc by assumption. exact Htx.
  - destruct (lf_only_line b r Hlf Hb) as [Hlb Hlfr].
    rewrite lines_lf_line in * by assumption.
    destruct (cont_lines_cm r Hlfr Hls) as [tr [Htr [Htxr [Hkr Hfr]]]].
    cbn [lines_tokens line_tokens negb andb bind]. rewrite ends_with_lf_snoc, removelast_snoc.
    cbn [line_func].
    destruct (comma_line_tokens_ok b) as [ts [Hts [Htx [Hok Hin]]]].
    rewrite Hts. cbn [bind]. rewrite Htr. cbn [bind app].
    exists ((ts ++ [Tok KNl [LF]]) ++ tr). split; [reflexivity|]. splits.
    + rewrite !toks_text_app, Htx, Htxr. cbn. now rewrite <- app_assoc.
    + repeat (apply Forall_app; split); try assumption. constructor; [reflexivity|constructor].
    + rewrite !filter_app, !toks_text_app, inline_cm_nc, Htx, Hfr by assumption. reflexivity.
Qed.

(** * From tokens to values: comma-separated lists *)

Definition nonval (t : tok) : bool := negb (is_val t).
Definition noncomma (t : tok) : bool := negb (is_comma_tok t).
Definition has_val (g : list tok) : bool := existsb is_val g.

(** the token list cut at the comma tokens *)
Fixpoint groups (ts : list tok) : list (list tok) :=
  match ts with
  | [] => [[]]
  | t :: r =>
      if is_comma_tok t then [] :: groups r
      else match groups r with g :: gs => (t :: g) :: gs | [] => [[t]] end
  end.

(** from the first to the last value token *)
Definition trim (g : list tok) : list tok := rdropwhile nonval (dropwhile nonval g).

Definition cvals (ts : list tok) : list str :=
  map (fun g => toks_text (filter nc (trim g))) (filter has_val (groups ts)).

Lemma groups_nonempty ts : groups ts <> [].
Proof.
  induction ts as [|t r IH]; simpl; [discriminate|].
  destruct (is_comma_tok t); [discriminate|]. destruct (groups r); discriminate.
Qed.

Lemma groups_app_free a : forall b,
  forallb noncomma a = true ->
  groups (a ++ b) = match groups b with g :: gs => (a ++ g) :: gs | [] => [a] end.
Proof.
  induction a as [|t a IH]; intros b H.
  - simpl. pose proof (groups_nonempty b). destruct (groups b); [congruence|reflexivity].
  - simpl in H. apply andb_true_iff in H. destruct H as [Ht H]. unfold noncomma in Ht.
    apply negb_true_iff in Ht. simpl. rewrite Ht. rewrite IH by assumption.
    pose proof (groups_nonempty b). destruct (groups b); [congruence|reflexivity].
Qed.

Lemma peek_find_comma_span rest : forall i,
  peek_find_comma rest i =
  match snd (span noncomma rest) with
  | [] => None
  | _ :: _ => Some (S (i + length (fst (span noncomma rest))))
  end.
Proof.
  induction rest as [|t r IH]; intros i; [reflexivity|].
  cbn [peek_find_comma span].
  assert (H : noncomma t = negb (is_comma_tok t)) by reflexivity. rewrite H.
  destruct (is_comma_tok t); cbn [negb].
  - cbn [fst snd length]. f_equal. lia.
  - rewrite IH. destruct (span noncomma r) as [a b]. cbn [fst snd length].
    destruct b; [reflexivity|]. f_equal. lia.
Qed.

Lemma has_val_false_all g : has_val g = false -> forallb nonval g = true.
Proof.
  induction g as [|t g IH]; [reflexivity|]. simpl. intros H. apply orb_false_iff in H.
  destruct H as [H1 H2]. unfold nonval at 1. rewrite H1. simpl. now apply IH.
Qed.

Lemma all_nonval_has_val g : forallb nonval g = true -> has_val g = false.
Proof.
  induction g as [|t g IH]; [reflexivity|]. simpl. intros H. apply andb_true_iff in H.
  destruct H as [H1 H2]. unfold nonval in H1. apply negb_true_iff in H1. rewrite H1. now apply IH.
Qed.

Lemma is_val_noncomma t : is_val t = true -> is_comma_tok t = false.
Proof. unfold is_val, is_comma_tok. destruct (tk t); try discriminate; reflexivity. Qed.

Lemma length_cons_pred {A} (a : A) l : length (a :: l) - 1 = length l.
Proof. simpl. lia. Qed.

Lemma trim_nonval_cons t g : is_val t = false -> trim (t :: g) = trim g.
Proof. intros H. unfold trim. simpl. unfold nonval at 2. now rewrite H. Qed.

Lemma trim_val_cons t g : is_val t = true -> trim (t :: g) = t :: rdropwhile nonval g.
Proof.
  intros H. unfold trim. simpl. unfold nonval at 2. rewrite H. cbn [negb].
  apply rdropwhile_cons_keep. unfold nonval. now rewrite H.
Qed.

Lemma cvals_nonval_cons t r : is_val t = false -> cvals (t :: r) = cvals r.
Proof.
  intros Hv. unfold cvals. cbn [groups]. destruct (is_comma_tok t) eqn:Ec.
  - reflexivity.
  - pose proof (groups_nonempty r). destruct (groups r) as [|g gs]; [congruence|].
    cbn [filter has_val existsb]. rewrite Hv. cbn [orb]. fold (has_val g).
    destruct (has_val g); [|reflexivity]. cbn [map]. f_equal.
    now rewrite trim_nonval_cons.
Qed.

Lemma cvals_nonvals a : forall b, forallb nonval a = true -> forallb noncomma a = true ->
  cvals (a ++ b) = cvals b.
Proof.
  induction a as [|t a IH]; intros b H1 H2; [reflexivity|].
  simpl in H1, H2. apply andb_true_iff in H1. apply andb_true_iff in H2.
  destruct H1 as [Ht H1]. destruct H2 as [_ H2]. unfold nonval in Ht. apply negb_true_iff in Ht.
  cbn [app]. rewrite cvals_nonval_cons by assumption. now apply IH.
Qed.

(** a value token, the rest of its group [a], then the end or a comma *)
Lemma cvals_val t a b :
  is_val t = true -> forallb noncomma a = true -> (b = [] \/ exists c b', b = c :: b' /\ is_comma_tok c = true) ->
  cvals (t :: a ++ b) = toks_text (filter nc (t :: rdropwhile nonval a)) :: cvals b.
Proof.
  intros Hv Ha Hb. unfold cvals. cbn [groups]. rewrite is_val_noncomma by assumption.
  rewrite groups_app_free by assumption.
  assert (G : exists gs, groups b = [] :: gs).
  { destruct Hb as [->|[c [b' [-> Hc]]]]; [now exists []|]. cbn [groups]. rewrite Hc. now eexists. }
  destruct G as [gs ->]. rewrite app_nil_r. cbn [filter has_val existsb]. rewrite Hv. cbn [orb map].
  f_equal. now rewrite trim_val_cons.
Qed.

Lemma span_noncomma_rest rest a b : span noncomma rest = (a, b) ->
  rest = a ++ b /\ forallb noncomma a = true /\ (b = [] \/ exists c b', b = c :: b' /\ is_comma_tok c = true).
Proof.
  intros H. apply span_eq in H. destruct H as [H1 [H2 H3]]. splits; auto.
  destruct b as [|c b']; [now left|right]. exists c, b'. split; [reflexivity|].
  unfold noncomma in H3. now apply negb_false_iff in H3.
Qed.

Lemma items_text_cons it its : items_text (it :: its) = item_text it ++ items_text its.
Proof. reflexivity. Qed.

Lemma parse_stream_comma : forall n ts fuel,
  length ts <= n -> length ts < fuel ->
  exists its, parse_stream Comma fuel ts = Ok its
    /\ values_of its = cvals ts
    /\ items_text its = toks_text ts
    /\ (ts <> [] -> its <> []).
Proof.
  induction n as [|n IH]; intros ts fuel Hn Hf.
  - destruct ts; [|simpl in Hn; lia]. destruct fuel; [simpl in Hf; lia|].
    exists []. splits; try reflexivity. congruence.
  - destruct ts as [|t rest].
    { destruct fuel; [simpl in Hf; lia|]. exists []. splits; try reflexivity. congruence. }
    destruct fuel as [|f]; [lia|]. simpl in Hn, Hf. cbn [parse_stream].
    destruct (is_val t) eqn:Hv.
    + destruct (span noncomma rest) as [a b] eqn:Esp.
      destruct (span_noncomma_rest _ _ _ Esp) as [Er [Ha Hb]].
      assert (Hseg : match peek_find_comma rest 0 with
                     | Some off => firstn (off - 1) rest
                     | None => rest
                     end = a).
      { rewrite peek_find_comma_span, Esp. cbn [fst snd]. destruct b as [|c b'].
        - rewrite app_nil_r in Er. now subst.
        - cbn [plus]. rewrite Nat.sub_1_r. cbn [pred]. rewrite Er. apply firstn_length_app. }
      rewrite Hseg. unfold trim_to_value. fold nonval.
      assert (Hnt : nonval t = false) by (unfold nonval; now rewrite Hv).
      rewrite rdropwhile_cons_keep by assumption. rewrite length_cons_pred.
      destruct (rdropwhile_split nonval a) as [tail [Htl1 Htl2]].
      set (keep := rdropwhile nonval a) in *.
      assert (Hskip : skipn (length keep) rest = tail ++ b).
      { rewrite Er, Htl1, <- app_assoc. apply skipn_length_app. }
      rewrite Hskip.
      assert (Hlen : length (tail ++ b) <= length rest).
      { rewrite Er, Htl1. rewrite !app_length. lia. }
      destruct (IH (tail ++ b) f ltac:(lia) ltac:(lia)) as [its [Hits [Hvals [Htxt _]]]].
      rewrite Hits. cbn [bind]. eexists. split; [reflexivity|]. splits.
      * unfold values_of in *. cbn [filter is_value map]. rewrite Hvals.
        rewrite Er. rewrite cvals_val by assumption. f_equal.
        apply cvals_nonvals; [assumption|].
        rewrite Htl1 in Ha. apply forallb_app_iff in Ha. tauto.
      * rewrite items_text_cons, Htxt. unfold item_text. cbn [item_toks].
        rewrite <- toks_text_app. f_equal. cbn [app]. f_equal. rewrite Er.
        transitivity ((keep ++ tail) ++ b); [now rewrite <- app_assoc|now rewrite <- Htl1].
      * discriminate.
    + destruct (IH rest f ltac:(lia) ltac:(lia)) as [its [Hits [Hvals [Htxt _]]]].
      rewrite Hits. cbn [bind]. eexists. split; [reflexivity|]. splits.
      * unfold values_of in *. cbn [filter is_value]. rewrite Hvals. now rewrite cvals_nonval_cons.
      * rewrite items_text_cons, Htxt. unfold item_text. cbn [item_toks]. rewrite !toks_text_cons.
        unfold toks_text at 1. simpl. now rewrite app_nil_r.
      * discriminate.
Qed.

(** ** the spec side: splitting the comment-free text on commas *)

Lemma dropwhile_filter {A} (p q : A -> bool) g :
  (forall t, q t = false -> p t = true) ->
  dropwhile p (filter q g) = filter q (dropwhile p g).
Proof.
  intros H. induction g as [|t g IH]; [reflexivity|]. simpl.
  destruct (q t) eqn:Eq.
  - simpl. destruct (p t); [exact IH|]. simpl. now rewrite Eq.
  - rewrite (H t Eq). exact IH.
Qed.

Lemma rdropwhile_filter {A} (p q : A -> bool) g :
  (forall t, q t = false -> p t = true) ->
  rdropwhile p (filter q g) = filter q (rdropwhile p g).
Proof.
  intros H. induction g as [|t g IH] using rev_ind; [reflexivity|].
  rewrite filter_app. cbn [filter]. rewrite rdropwhile_snoc. destruct (q t) eqn:Eq.
  - rewrite rdropwhile_snoc. destruct (p t); [exact IH|]. rewrite filter_app. cbn [filter]. now rewrite Eq.
  - rewrite app_nil_r, (H t Eq). exact IH.
Qed.

Lemma nc_false_nonval t : nc t = false -> nonval t = true.
Proof. unfold nc, nonval, is_comment_tok, is_val. destruct (tk t); try discriminate; reflexivity. Qed.

Lemma trim_filter_nc g : trim (filter nc g) = filter nc (trim g).
Proof.
  unfold trim. rewrite dropwhile_filter by apply nc_false_nonval.
  apply rdropwhile_filter. apply nc_false_nonval.
Qed.

Lemma has_val_filter_nc g : has_val (filter nc g) = has_val g.
Proof.
  induction g as [|t g IH]; [reflexivity|]. simpl. destruct (nc t) eqn:E.
  - simpl. now rewrite IH.
  - apply nc_false_nonval in E. unfold nonval in E. apply negb_true_iff in E. now rewrite E.
Qed.

Lemma groups_filter_nc ts : groups (filter nc ts) = map (filter nc) (groups ts).
Proof.
  induction ts as [|t r IH]; [reflexivity|]. cbn [filter groups].
  destruct (nc t) eqn:E.
  - cbn [groups]. destruct (is_comma_tok t); [cbn [map filter]; now rewrite IH|].
    rewrite IH. pose proof (groups_nonempty r). destruct (groups r) as [|g gs]; [congruence|].
    cbn [map filter]. now rewrite E.
  - assert (Hc : is_comma_tok t = false).
    { unfold nc, is_comment_tok, is_comma_tok in *. destruct (tk t); try discriminate; reflexivity. }
    rewrite Hc, IH. pose proof (groups_nonempty r). destruct (groups r) as [|g gs]; [congruence|].
    cbn [map filter]. now rewrite E.
Qed.

(** a token of a comment-free list that is neither a value nor a comma is whitespace *)
Lemma tok_ok_cm_ws t : tok_ok_cm t = true -> nc t = true -> is_val t = false -> is_comma_tok t = false ->
  tx t <> [] /\ forallb isws (tx t) = true.
Proof.
  unfold tok_ok_cm, nc, is_val, is_comma_tok, is_comment_tok. destruct t as [k x]. cbn [tk tx].
  destruct k; cbn [kind_eqb negb]; intros H; try discriminate; intros _ _ _.
  - apply andb_true_iff in H. destruct H as [H1 H2]. split; [destruct x; discriminate|assumption].
  - apply orb_true_iff in H. destruct H as [H|H]; apply str_eqb_eq in H; subst x; split; try discriminate; reflexivity.
  - apply str_eqb_eq in H. subst x. split; [discriminate|reflexivity].
Qed.

Lemma mem_char_cons c x s : mem_char c (x :: s) = (c =? x)%N || mem_char c s.
Proof. reflexivity. Qed.

Lemma isws_not_comma s : forallb isws s = true -> negb (mem_char COMMA s) = true.
Proof.
  induction s as [|c s IH]; [reflexivity|]. cbn [forallb]. intros H. apply andb_true_iff in H.
  destruct H as [Hc H]. rewrite mem_char_cons, negb_orb, IH by assumption. rewrite andb_true_r.
  destruct (N.eqb_spec COMMA c) as [<-|]; [|reflexivity]. now rewrite isws_COMMA in Hc.
Qed.

Lemma not_comma_mem s : forallb not_comma s = true -> negb (mem_char COMMA s) = true.
Proof.
  induction s as [|c s IH]; [reflexivity|]. cbn [forallb]. intros H. apply andb_true_iff in H.
  destruct H as [Hc H]. rewrite mem_char_cons, negb_orb, IH by assumption. rewrite andb_true_r.
  unfold not_comma in Hc. now rewrite N.eqb_sym.
Qed.

Lemma word_ok_parts w : word_ok w = true ->
  exists c w', w = c :: w' /\ isws c = false
    /\ (exists d, last_opt w = Some d /\ isws d = false)
    /\ forallb not_comma w = true.
Proof.
  unfold word_ok. destruct w as [|c w']; [discriminate|]. intros H.
  apply andb_true_iff in H. destruct H as [H H3]. apply andb_true_iff in H. destruct H as [H1 H2].
  exists c, w'. splits; auto.
  - now apply negb_true_iff.
  - destruct (last_opt (c :: w')) as [d|]; [|discriminate]. exists d. split; [reflexivity|now apply negb_true_iff].
Qed.

Lemma tok_ok_cm_free t : tok_ok_cm t = true -> nc t = true -> is_comma_tok t = false ->
  negb (mem_char COMMA (tx t)) = true.
Proof.
  intros Hok Hnc Hc. destruct (is_val t) eqn:Ev.
  - unfold is_val in Ev. unfold tok_ok_cm in Hok. destruct (tk t); try discriminate.
    destruct (word_ok_parts _ Hok) as [c [w' [_ [_ [_ H]]]]]. now apply not_comma_mem.
  - destruct (tok_ok_cm_ws t Hok Hnc Ev Hc) as [_ H]. now apply isws_not_comma.
Qed.

Lemma split_on_groups ts :
  Forall (fun t => tok_ok_cm t = true) ts -> forallb nc ts = true ->
  split_on COMMA (toks_text ts) = map toks_text (groups ts).
Proof.
  induction ts as [|t r IH]; intros Hok Hnc; [reflexivity|].
  inversion Hok as [|? ? Ht Hr]; subst. simpl in Hnc. apply andb_true_iff in Hnc.
  destruct Hnc as [Hn Hnr]. specialize (IH Hr Hnr).
  cbn [groups]. rewrite toks_text_cons. destruct (is_comma_tok t) eqn:Ec.
  - assert (Hx : tx t = [COMMA]).
    { unfold is_comma_tok in Ec. unfold tok_ok_cm in Ht. destruct (tk t); try discriminate. now apply str_eqb_eq in Ht. }
    rewrite Hx. cbn [app split_on]. rewrite N.eqb_refl. cbn [map]. now rewrite IH.
  - rewrite split_on_app_free by now apply tok_ok_cm_free.
    rewrite IH. pose proof (groups_nonempty r). destruct (groups r) as [|g gs]; [congruence|].
    reflexivity.
Qed.

Definition group_ok (g : list tok) : Prop :=
  Forall (fun t => tok_ok_cm t = true) g /\ forallb nc g = true /\ forallb noncomma g = true.

Lemma groups_ok ts :
  Forall (fun t => tok_ok_cm t = true) ts -> forallb nc ts = true ->
  Forall group_ok (groups ts).
Proof.
  induction ts as [|t r IH]; intros Hok Hnc.
  - constructor; [|constructor]. repeat split; constructor.
  - inversion Hok as [|? ? Ht Hr]; subst. simpl in Hnc. apply andb_true_iff in Hnc.
    destruct Hnc as [Hn Hnr]. specialize (IH Hr Hnr). cbn [groups].
    destruct (is_comma_tok t) eqn:Ec.
    + constructor; [|assumption]. repeat split; constructor.
    + pose proof (groups_nonempty r). destruct (groups r) as [|g gs]; [congruence|].
      inversion IH as [|? ? [G1 [G2 G3]] Hgs]; subst. constructor; [|assumption].
      repeat split.
      * now constructor.
      * simpl. now rewrite Hn.
      * simpl. unfold noncomma at 1. now rewrite Ec.
Qed.

Lemma group_ok_tail t g : group_ok (t :: g) -> group_ok g.
Proof.
  intros [H1 [H2 H3]]. inversion H1; subst. simpl in H2, H3.
  apply andb_true_iff in H2. apply andb_true_iff in H3. repeat split; tauto.
Qed.

Lemma group_ok_app a b : group_ok (a ++ b) -> group_ok a /\ group_ok b.
Proof.
  intros [H1 [H2 H3]]. apply Forall_app in H1. rewrite forallb_app in H2, H3.
  apply andb_true_iff in H2. apply andb_true_iff in H3. unfold group_ok. tauto.
Qed.

Lemma group_tok_cases t g : group_ok (t :: g) ->
  (is_val t = true /\ word_ok (tx t) = true) \/ (is_val t = false /\ tx t <> [] /\ forallb isws (tx t) = true).
Proof.
  intros [H1 [H2 H3]]. inversion H1 as [|? ? Ht _]; subst. simpl in H2, H3.
  apply andb_true_iff in H2. apply andb_true_iff in H3. destruct H2 as [Hn _]. destruct H3 as [Hc _].
  unfold noncomma in Hc. apply negb_true_iff in Hc.
  destruct (is_val t) eqn:Ev.
  - left. split; [reflexivity|]. unfold is_val in Ev. unfold tok_ok_cm in Ht. destruct (tk t); try discriminate. exact Ht.
  - right. split; [reflexivity|]. now apply tok_ok_cm_ws.
Qed.

Lemma lstrip_group g : group_ok g ->
  dropwhile isws (toks_text g) = toks_text (dropwhile nonval g).
Proof.
  induction g as [|t g IH]; intros Hg; [reflexivity|].
  destruct (group_tok_cases t g Hg) as [[Hv Hw]|[Hv [Hne Hws]]].
  - cbn [dropwhile]. unfold nonval at 1. rewrite Hv. cbn [negb]. rewrite toks_text_cons.
    destruct (word_ok_parts _ Hw) as [c [w' [-> [Hc _]]]]. cbn [app dropwhile]. now rewrite Hc.
  - cbn [dropwhile]. unfold nonval at 1. rewrite Hv. cbn [negb]. rewrite toks_text_cons.
    rewrite dropwhile_app_all by assumption. apply IH. now apply group_ok_tail with t.
Qed.

Lemma rstrip_group g : group_ok g ->
  rdropwhile isws (toks_text g) = toks_text (rdropwhile nonval g).
Proof.
  induction g as [|t g IH] using rev_ind; intros Hg; [reflexivity|].
  destruct (group_ok_app _ _ Hg) as [Hg0 Ht].
  rewrite toks_text_app, rdropwhile_snoc.
  destruct (group_tok_cases t [] Ht) as [[Hv Hw]|[Hv [Hne Hws]]].
  - unfold nonval at 1. rewrite Hv. cbn [negb]. rewrite toks_text_app.
    destruct (word_ok_parts _ Hw) as [c [w' [Ew [_ [[d [Hd1 Hd2]] _]]]]].
    apply rdropwhile_keep_last with d; [|assumption].
    unfold toks_text at 2. cbn [map concat]. rewrite app_nil_r.
    rewrite last_opt_app; [assumption|]. rewrite Ew. discriminate.
  - unfold nonval at 1. rewrite Hv. cbn [negb].
    unfold toks_text at 2. cbn [map concat]. rewrite app_nil_r.
    rewrite rdropwhile_app_drop by assumption. now apply IH.
Qed.

Lemma Forall_dropwhile {A} (P : A -> Prop) p l : Forall P l -> Forall P (dropwhile p l).
Proof.
  induction l as [|a l IH]; intros H; [constructor|]. simpl. destruct (p a); [|assumption].
  inversion H; subst. now apply IH.
Qed.

Lemma group_ok_dropwhile g : group_ok g -> group_ok (dropwhile nonval g).
Proof.
  induction g as [|t g IH]; intros H; [assumption|]. simpl. destruct (nonval t); [|assumption].
  apply IH. now apply group_ok_tail with t.
Qed.

Lemma strip_group g : group_ok g ->
  strip_by isws (toks_text g) = toks_text (trim g)
  /\ nonempty_str (toks_text (trim g)) = has_val g.
Proof.
  intros Hg. split.
  - unfold strip_by, lstrip_by, rstrip_by, trim. rewrite lstrip_group by assumption.
    apply rstrip_group. now apply group_ok_dropwhile.
  - destruct (has_val g) eqn:Eh.
    + assert (G : exists t r, dropwhile nonval g = t :: r /\ is_val t = true).
      { clear Hg. induction g as [|t g IH]; [discriminate|]. simpl in Eh. simpl.
        unfold nonval at 1. destruct (is_val t) eqn:Ev; cbn [negb].
        - now exists t, g.
        - simpl in Eh. now apply IH. }
      destruct G as [t [r [Ed Ev]]]. unfold trim. rewrite Ed.
      rewrite rdropwhile_cons_keep by (unfold nonval; now rewrite Ev).
      pose proof (group_ok_dropwhile g Hg) as Hd. rewrite Ed in Hd.
      destruct (group_tok_cases t r Hd) as [[_ Hw]|[Hv' _]]; [|congruence].
      destruct (word_ok_parts _ Hw) as [c [w' [Ew _]]]. rewrite toks_text_cons, Ew. reflexivity.
    + unfold trim. rewrite dropwhile_all by now apply has_val_false_all. reflexivity.
Qed.

Lemma strip_groups gs : Forall group_ok gs ->
  filter nonempty_str (map (strip_by isws) (map toks_text gs))
  = map (fun g => toks_text (trim g)) (filter has_val gs).
Proof.
  induction gs as [|g gs IH]; intros H; [reflexivity|].
  inversion H as [|? ? Hg Hgs]; subst. cbn [map filter].
  destruct (strip_group g Hg) as [S1 S2]. rewrite S1, S2.
  destruct (has_val g); cbn [map]; now rewrite IH.
Qed.

Lemma forallb_filter_id {A} (p : A -> bool) l : forallb p (filter p l) = true.
Proof. induction l as [|a l IH]; [reflexivity|]. simpl. destruct (p a) eqn:E; [simpl; now rewrite E|exact IH]. Qed.

Lemma Forall_filter {A} (P : A -> Prop) p l : Forall P l -> Forall P (filter p l).
Proof.
  induction l as [|a l IH]; intros H; [constructor|]. inversion H; subst. simpl.
  destruct (p a); [constructor; auto|auto].
Qed.

Lemma cm_vals ts : Forall (fun t => tok_ok_cm t = true) ts ->
  filter nonempty_str (map (strip_by isws) (split_on COMMA (toks_text (filter nc ts)))) = cvals ts.
Proof.
  intros Hok.
  assert (Hok' : Forall (fun t => tok_ok_cm t = true) (filter nc ts)) by now apply Forall_filter.
  pose proof (forallb_filter_id nc ts) as Hnc.
  rewrite split_on_groups by assumption.
  rewrite strip_groups by now apply groups_ok.
  rewrite groups_filter_nc. unfold cvals.
  generalize (groups ts). intros gs. induction gs as [|g gs IH]; [reflexivity|].
  cbn [map filter]. rewrite has_val_filter_nc. destruct (has_val g); [|exact IH].
  cbn [map]. rewrite IH. now rewrite trim_filter_nc.
Qed.

Theorem view_reads_split_comma v : value_ok v = true ->
  exists vw, interpret Comma v = Ok vw /\ view_values vw = split_spec true v.
Proof.
  intros Hv. destruct (tokenize_cm_ok v Hv) as [ts [Htok [Htx [Hok Hdc]]]].
  unfold interpret, parse_str. rewrite Htok. cbn [bind]. rewrite Htx, Nat.eqb_refl. cbn [negb].
  destruct (parse_stream_comma (length ts) ts (S (length ts))) as [its [Hits [Hvals [Hitx Hne]]]]; try lia.
  rewrite Hits. cbn [bind]. rewrite Hitx, Htx, Nat.eqb_refl. cbn [negb].
  assert (Hne' : its <> []).
  { apply Hne. intros ->. unfold toks_text in Htx. simpl in Htx. subst v. discriminate. }
  destruct (mk_view_values _ Hne') as [vw [Hvw Hvals']].
  exists vw. split; [exact Hvw|]. rewrite Hvals', Hvals, <- cm_vals by assumption.
  rewrite Hdc. reflexivity.
Qed.

(** * Opening a view and closing it without an edit *)

Definition read_only (o : op) : bool := match o with OSnap | ORefGet _ => true | _ => false end.

Lemma step_read_only k o vw : read_only o = true ->
  v_changed (fst (fst (step k o vw))) = v_changed vw.
Proof.
  destruct o; try discriminate; intros _; cbn [step].
  - reflexivity.
  - destruct (ref_get j vw); reflexivity.
Qed.

Lemma run_ops_read_only k os : forall vw, forallb read_only os = true ->
  v_changed (snd (run_ops k os vw)) = v_changed vw.
Proof.
  induction os as [|o os IH]; intros vw H; [reflexivity|].
  simpl in H. apply andb_true_iff in H. destruct H as [Ho H].
  cbn [run_ops]. pose proof (step_read_only k o vw Ho) as Hs.
  destruct (step k o vw) as [[vw' e] got]. cbn [fst] in Hs.
  destruct e; destruct (run_ops k os vw') as [outs vf] eqn:E; cbn [snd];
    (replace vf with (snd (run_ops k os vw')) by now rewrite E); now rewrite IH.
Qed.

Lemma mk_view_unchanged its vw : mk_view its = Ok vw -> v_changed vw = false.
Proof. unfold mk_view. destruct its; [discriminate|]. now intros [= <-]. Qed.

(** open + (reads only) + close: nothing is written, whatever the field holds *)
Theorem view_noop_identity k name value os :
  forallb read_only os = true ->
  sr_close (run_session k name value os) = None
  /\ sr_value (run_session k name value os) = value.
Proof.
  intros H. unfold run_session. destruct (interpret k value) as [vw|e] eqn:Ei; [|split; reflexivity].
  assert (Hc : v_changed vw = false).
  { unfold interpret in Ei. destruct (parse_str k value); [|discriminate]. now apply mk_view_unchanged in Ei. }
  pose proof (run_ops_read_only k os vw H) as Hr.
  destruct (run_ops k os vw) as [outs vf]. cbn [snd] in Hr.
  unfold close. rewrite Hr, Hc. split; reflexivity.
Qed.
