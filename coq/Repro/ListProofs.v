(** Proofs for C11, part 1: what a list view reads.
    - the two finditer leaves cover their line and produce well-formed tokens;
    - the tokens of a whole value text, their line structure (an automaton over token kinds);
    - [view_reads_split]: values (interpret k v) = split_spec k v, for both interpretations. *)
From Verif Require Import Lib.Base Lib.PyStr Gen.PyChars Repro.ListView Repro.ListSpec Repro.ListLemmas.
From Coq Require Import Lia.

(** * Character facts (checked against the generated tables by computation) *)

Lemma isws_LF : isws LF = true. Proof. reflexivity. Qed.
Lemma isws_SP : isws SP = true. Proof. reflexivity. Qed.
Lemma isws_TAB : isws TAB = true. Proof. reflexivity. Qed.
Lemma isws_HASH : isws HASH = false. Proof. reflexivity. Qed.
Lemma isws_COMMA : isws COMMA = false. Proof. reflexivity. Qed.
Lemma islb_LF : py_islinebreak LF = true. Proof. reflexivity. Qed.

(** every line boundary of str.splitlines() is whitespace *)
Lemma islb_isws c : py_islinebreak c = true -> isws c = true.
Proof.
  unfold py_islinebreak. intros H. apply existsb_exists in H. destruct H as [x [Hin Hx]].
  apply N.eqb_eq in Hx. subst x.
  assert (G : forallb isws py_linebreaks = true) by reflexivity.
  rewrite forallb_forall in G. now apply G.
Qed.

Lemma notws_isws c : notws c = negb (isws c).
Proof. reflexivity. Qed.

Definition no_lb (s : str) : bool := forallb (fun c => negb (py_islinebreak c)) s.

Lemma no_lb_app a b : no_lb (a ++ b) = no_lb a && no_lb b.
Proof. apply forallb_app. Qed.

Lemma notws_no_lb s : forallb notws s = true -> no_lb s = true.
Proof.
  unfold no_lb. rewrite !forallb_forall. intros H c Hc. specialize (H c Hc).
  unfold notws in H. destruct (py_islinebreak c) eqn:E; [|reflexivity].
  apply islb_isws in E. unfold isws in E. now rewrite E in H.
Qed.

Lemma no_lb_no_lf s : no_lb s = true -> no_lf s = true.
Proof.
  unfold no_lb, no_lf. rewrite !forallb_forall. intros H c Hc. specialize (H c Hc).
  destruct (is_lf c) eqn:E; [|reflexivity]. unfold is_lf in E. apply N.eqb_eq in E. subst c.
  vm_compute in H. discriminate.
Qed.

Lemma no_lb_not_ends_lf s : no_lb s = true -> ends_with_lf s = false.
Proof.
  intros H. unfold ends_with_lf. destruct (last_opt s) as [c|] eqn:E; [|reflexivity].
  apply ends_snoc_inv in E. rewrite E, no_lb_app in H. apply andb_true_iff in H. destruct H as [_ H].
  simpl in H. rewrite andb_true_r in H. destruct (N.eqb_spec c LF) as [->|]; [|reflexivity].
  now rewrite islb_LF in H.
Qed.

Lemma ends_with_lf_snoc s : ends_with_lf (s ++ [LF]) = true.
Proof. unfold ends_with_lf. now rewrite last_opt_snoc. Qed.

(** * Tokens *)

Lemma toks_text_app a b : toks_text (a ++ b) = toks_text a ++ toks_text b.
Proof. unfold toks_text. now rewrite map_app, concat_app. Qed.

Lemma toks_text_cons t r : toks_text (t :: r) = tx t ++ toks_text r.
Proof. reflexivity. Qed.

Lemma toks_text_opt k s : toks_text (opt_tok k s) = s.
Proof. destruct s; [reflexivity|]. unfold opt_tok, toks_text. simpl. now rewrite app_nil_r. Qed.

Definition nc (t : tok) : bool := negb (is_comment_tok t).
Definition vals (ts : list tok) : list str := map tx (filter is_val ts).

(** text conditions by kind, for the tokens of a whitespace-separated list *)
Definition tok_ok_sp (t : tok) : bool :=
  match tk t with
  | KVal => nonempty (tx t) && forallb notws (tx t)
  | KSep => nonempty (tx t) && forallb isws (tx t) && no_lb (tx t)
  | KCont => str_eqb (tx t) [SP] || str_eqb (tx t) [TAB]
  | KNl => str_eqb (tx t) [LF]
  | KCom => starts_hash (tx t) && no_lb (removelast (tx t))
  | KWs | KComma => false
  end.

(** ** The line structure of a token list, as an automaton over kinds.
    s_lf : the previous token ended a line (KNl or a comment line);
    s_pv : the previous token is a value;
    s_ok : the current line is the first line or already holds a value. *)
Record ast := AST { s_lf : bool; s_pv : bool; s_ok : bool }.

Definition astep (s : ast) (k : kind) : option ast :=
  match k with
  | KVal => if s_lf s || s_pv s then None else Some (AST false true true)
  | KSep => if s_lf s then None else Some (AST false false (s_ok s))
  | KNl => if s_lf s || negb (s_ok s) then None else Some (AST true false false)
  | KCom => if s_lf s then Some (AST true false false) else None
  | KCont => if s_lf s then Some (AST false false false) else None
  | KWs | KComma => None
  end.

Fixpoint arun (s : ast) (ts : list tok) : option ast :=
  match ts with
  | [] => Some s
  | t :: r => match astep s (tk t) with Some s' => arun s' r | None => None end
  end.

Definition s0 : ast := AST false false true.
Definition sLF : ast := AST true false false.

Lemma arun_app s a b :
  arun s (a ++ b) = match arun s a with Some s' => arun s' b | None => None end.
Proof.
  revert s. induction a as [|t a IH]; intros s; [reflexivity|].
  simpl. destruct (astep s (tk t)); [apply IH|reflexivity].
Qed.

Lemma Forall_app_iff {A} (P : A -> Prop) a b : Forall P (a ++ b) <-> Forall P a /\ Forall P b.
Proof. apply Forall_app. Qed.

(** * The whitespace finditer leaf *)

Definition wtoks (ms : list (str * str * str)) : list tok :=
  flat_map (fun m => match m with (sb, w, sa) =>
     opt_tok KSep sb ++ [Tok KVal w] ++ opt_tok KSep sa end) ms.

Definition valsep (t : tok) : bool := match tk t with KVal | KSep => true | _ => false end.

Lemma opt_sep_ok s : forallb isws s = true -> no_lb s = true ->
  Forall (fun t => tok_ok_sp t = true) (opt_tok KSep s) /\ forallb valsep (opt_tok KSep s) = true.
Proof.
  intros H1 H2. destruct s as [|c s]; [split; [constructor|reflexivity]|].
  split; [|reflexivity]. constructor; [|constructor].
  unfold tok_ok_sp. cbn [tk tx nonempty]. now rewrite H1, H2.
Qed.

Lemma arun_opt_sep s x : s_lf s = false ->
  arun s (opt_tok KSep x) = Some (match x with [] => s | _ => AST false false (s_ok s) end).
Proof. intros H. destruct x; [reflexivity|]. simpl. now rewrite H. Qed.

Lemma all_ws_dec s : s = [] \/ forallb isws s = false \/ (s <> [] /\ forallb isws s = true).
Proof. destruct s; [now left|]. destruct (forallb isws (n :: s)) eqn:E; [right; right; split; [discriminate|reflexivity]|right; now left]. Qed.

Lemma ws_finditer_ok : forall n s fuel,
  length s <= n -> length s < fuel ->
  (s = [] \/ forallb isws s = false) -> no_lb s = true ->
  exists ms, ws_finditer fuel s = Ok ms
    /\ toks_text (wtoks ms) = s
    /\ Forall (fun t => tok_ok_sp t = true) (wtoks ms)
    /\ forallb valsep (wtoks ms) = true
    /\ forall lo, exists pv, arun (AST false false lo) (wtoks ms) = Some (AST false pv (lo || nonempty s)).
Proof.
  induction n as [|n IH]; intros s fuel Hn Hf Hs Hlb.
  - destruct s; [|simpl in Hn; lia]. destruct fuel; [simpl in Hf; lia|].
    exists []. simpl. repeat split; try constructor. intros lo. exists false. now rewrite orb_false_r.
  - destruct Hs as [->|Hs].
    { destruct fuel; [simpl in Hf; lia|].
      exists []. simpl. repeat split; try constructor. intros lo. exists false. now rewrite orb_false_r. }
    destruct fuel as [|f]; [lia|].
    cbn [ws_finditer].
    destruct (span isws s) as [sb r1] eqn:E1. apply span_eq in E1. destruct E1 as [Es [Hsb Hr1]].
    destruct (span notws r1) as [w r2] eqn:E2. apply span_eq in E2. destruct E2 as [Er1 [Hw Hr2]].
    destruct r1 as [|c r1'].
    { exfalso. rewrite app_nil_r in Es. subst sb. now rewrite Hsb in Hs. }
    destruct w as [|c0 w'].
    { exfalso. simpl in Er1. subst r2. rewrite notws_isws, Hr1 in Hr2. discriminate. }
    destruct (span isws r2) as [sa r3] eqn:E3. apply span_eq in E3. destruct E3 as [Er2 [Hsa Hr3]].
    set (w := c0 :: w') in *.
    assert (Hlen : length s = length sb + length w + length sa + length r3).
    { rewrite Es, Er1, Er2. rewrite !app_length. lia. }
    assert (Hwlen : 1 <= length w) by (subst w; simpl; lia).
    assert (Hlbs : no_lb sb = true /\ no_lb sa = true /\ no_lb r3 = true).
    { rewrite Es, Er1, Er2 in Hlb. rewrite !no_lb_app in Hlb.
      repeat (apply andb_true_iff in Hlb; destruct Hlb as [? Hlb]).
      repeat match goal with H : _ && _ = true |- _ => apply andb_true_iff in H; destruct H end.
      auto. }
    destruct Hlbs as [Lsb [Lsa Lr3]].
    assert (Hr3' : r3 = [] \/ forallb isws r3 = false).
    { destruct r3 as [|d r3']; [now left|right]. simpl. now rewrite Hr3. }
    destruct (IH r3 f) as [ms [Hms [Htx [Hok [Hvs Hrun]]]]]; try lia; try assumption.
    rewrite Hms. cbn [bind]. eexists. split; [reflexivity|].
    cbn [wtoks flat_map]. fold (wtoks ms).
    destruct (opt_sep_ok sb Hsb Lsb) as [Osb Vsb].
    destruct (opt_sep_ok sa Hsa Lsa) as [Osa Vsa].
    assert (Okw : tok_ok_sp (Tok KVal w) = true).
    { unfold tok_ok_sp. cbn [tk tx]. subst w. cbn [nonempty]. exact Hw. }
    repeat split.
    + rewrite !toks_text_app, !toks_text_opt, Htx. cbn [toks_text map concat]. rewrite app_nil_r.
      rewrite Es, Er1, Er2. now rewrite <- !app_assoc.
    + repeat (apply Forall_app; split); try assumption. constructor; [exact Okw|constructor].
    + rewrite !forallb_app. rewrite Vsb, Vsa, Hvs. reflexivity.
    + intros lo. rewrite !arun_app. rewrite arun_opt_sep by reflexivity.
      assert (Hst : (match sb with [] => AST false false lo | _ => AST false false (s_ok (AST false false lo)) end)
                    = AST false false lo) by (destruct sb; reflexivity).
      rewrite Hst. cbn [app arun astep tk s_lf s_pv orb]. rewrite arun_opt_sep by reflexivity.
      assert (Hne : nonempty s = true).
      { rewrite Es. destruct sb; reflexivity. }
      rewrite Hne, orb_true_r.
      destruct sa as [|d sa'].
      * (* no whitespace after the word: the line ends here *)
        simpl in Er2. subst r3.
        assert (r2 = []) as ->.
        { destruct r2 as [|d r2']; [reflexivity|]. rewrite notws_isws in Hr2. rewrite Hr3 in Hr2. discriminate. }
        destruct f; [simpl in Hf; lia|]. simpl in Hms. injection Hms as <-. simpl. now exists true.
      * destruct (Hrun true) as [pv Hpv]. cbn [s_ok]. rewrite Hpv. exists pv. reflexivity.
Qed.

(** whitespace_split_tokenizer's body on one line (no line boundary inside) *)
Lemma ws_line_tokens_ok body : no_lb body = true ->
  exists ts, ws_line_tokens body = Ok ts
    /\ toks_text ts = body
    /\ Forall (fun t => tok_ok_sp t = true) ts
    /\ forallb valsep ts = true
    /\ forall lo, exists pv, arun (AST false false lo) ts = Some (AST false pv (lo || negb (forallb isws body))).
Proof.
  intros Hlb. unfold ws_line_tokens.
  destruct (all_ws_dec body) as [->|[H|[Hne H]]].
  - simpl. exists []. repeat split; try constructor. intros lo. exists false. now rewrite orb_false_r.
  - rewrite H, andb_false_r.
    destruct (ws_finditer_ok (length body) body (S (length body))) as [ms [Hms [Htx [Hok [Hvs Hrun]]]]];
      try lia; auto.
    rewrite Hms. cbn [bind]. eexists. split; [reflexivity|]. fold (wtoks ms).
    repeat split; try assumption. intros lo. destruct (Hrun lo) as [pv Hpv]. exists pv.
    rewrite Hpv. simpl. destruct body; [discriminate|reflexivity].
  - rewrite H. destruct body as [|c b]; [congruence|]. cbn [nonempty andb].
    exists [Tok KSep (c :: b)]. repeat split.
    + unfold toks_text. simpl. now rewrite app_nil_r.
    + constructor; [|constructor]. unfold tok_ok_sp. cbn [tk tx nonempty]. now rewrite H, Hlb.
    + intros lo. exists false. simpl. now rewrite orb_false_r.
Qed.

(** * The tokens of a whole value text (whitespace-separated lists) *)

(** a comment token holds a complete line *)
Definition com_lf (t : tok) : bool := if is_comment_tok t then ends_with_lf (tx t) else true.

(** the last line is a comment without its newline *)
Definition open_comment (v : str) : bool :=
  match last_opt (lines_lf v) with
  | Some l => is_comment_line l && negb (ends_with_lf l)
  | None => false
  end.

Lemma open_comment_line b r : no_lf b = true -> open_comment (b ++ LF :: r) = open_comment r.
Proof.
  intros Hb. unfold open_comment. rewrite lines_lf_line by assumption.
  destruct (lines_lf r) as [|l ls] eqn:E.
  - simpl. rewrite ends_with_lf_snoc. now rewrite andb_false_r.
  - rewrite last_opt_cons by discriminate. reflexivity.
Qed.

Definition cont_line_ok (l : str) : bool := starts_cont l && negb (blank l).

Lemma lf_only_app a b : lf_only (a ++ b) = lf_only a && lf_only b.
Proof. apply forallb_app. Qed.

Lemma lf_only_no_lb b : lf_only b = true -> no_lf b = true -> no_lb b = true.
Proof.
  unfold lf_only, no_lf, no_lb. rewrite !forallb_forall. intros H1 H2 c Hc.
  specialize (H1 c Hc). specialize (H2 c Hc).
  destruct (py_islinebreak c); [|reflexivity]. simpl in H1. now rewrite H1 in H2.
Qed.

Lemma lf_only_line b r : lf_only (b ++ LF :: r) = true -> no_lf b = true ->
  no_lb b = true /\ lf_only r = true.
Proof.
  intros H Hb. rewrite lf_only_app in H. apply andb_true_iff in H. destruct H as [H1 H2].
  split; [now apply lf_only_no_lb|]. change (lf_only (LF :: r)) with (true && lf_only r) in H2. exact H2.
Qed.

Lemma no_lb_removelast s : no_lb s = true -> no_lb (removelast s) = true.
Proof.
  intros H. destruct s as [|c s] using rev_ind; [reflexivity|].
  rewrite removelast_snoc. rewrite no_lb_app in H. apply andb_true_iff in H. tauto.
Qed.

Lemma valsep_nc ts : forallb valsep ts = true -> filter nc ts = ts.
Proof.
  induction ts as [|t ts IH]; [reflexivity|]. simpl. intros H.
  apply andb_true_iff in H. destruct H as [Ht H].
  assert (nc t = true) as ->.
  { unfold nc, is_comment_tok, valsep in *. destruct (tk t); try discriminate; reflexivity. }
  now rewrite IH.
Qed.

Lemma valsep_com_lf ts : forallb valsep ts = true -> forallb com_lf ts = true.
Proof.
  induction ts as [|t ts IH]; [reflexivity|]. simpl. intros H.
  apply andb_true_iff in H. destruct H as [Ht H]. rewrite IH by assumption.
  unfold com_lf, is_comment_tok, valsep in *. destruct (tk t); try discriminate; reflexivity.
Qed.

(** one continuation line (terminated or not) that is not a comment *)
Lemma cont_line_sp c b (term : bool) :
  (c =? SP)%N || (c =? TAB)%N = true -> no_lb b = true -> forallb isws b = false ->
  let l := c :: b ++ (if term then [LF] else []) in
  exists ts, line_tokens Space false l = Ok ts
    /\ toks_text ts = l
    /\ Forall (fun t => tok_ok_sp t = true) ts
    /\ filter nc ts = ts
    /\ forallb com_lf ts = true
    /\ exists pv, arun sLF ts = Some (if term then sLF else AST false pv true).
Proof.
  intros Hc Hb Hnb l.
  assert (Hh : starts_hash l = false).
  { subst l. simpl. apply orb_true_iff in Hc. destruct Hc as [Hc|Hc]; apply N.eqb_eq in Hc; subst c; reflexivity. }
  unfold line_tokens. rewrite Hh. cbn [negb andb]. subst l. cbn [bind].
  destruct (ws_line_tokens_ok b Hb) as [ts [Hts [Htx [Hok [Hvs Hrun]]]]].
  assert (Hkc : tok_ok_sp (Tok KCont [c]) = true).
  { unfold tok_ok_sp. cbn [tk tx]. apply orb_true_iff in Hc.
    destruct Hc as [Hc|Hc]; apply N.eqb_eq in Hc; subst c; reflexivity. }
  destruct term.
  - rewrite ends_with_lf_snoc, removelast_snoc, Hts. cbn [bind].
    eexists. split; [reflexivity|]. repeat split.
    + cbn [app]. rewrite toks_text_cons, toks_text_app, Htx. reflexivity.
    + constructor; [exact Hkc|]. apply Forall_app. split; [assumption|]. constructor; [reflexivity|constructor].
    + cbn [app filter nc is_comment_tok tk kind_eqb negb]. rewrite filter_app, valsep_nc by assumption. reflexivity.
    + cbn [app forallb]. rewrite forallb_app, valsep_com_lf by assumption. reflexivity.
    + exists false. cbn [app arun astep tk sLF s_lf]. rewrite arun_app.
      destruct (Hrun false) as [pv Hpv]. rewrite Hpv, Hnb. reflexivity.
  - rewrite app_nil_r. rewrite no_lb_not_ends_lf by assumption. rewrite Hts. cbn [bind].
    eexists. split; [reflexivity|]. repeat split.
    + cbn [app]. rewrite app_nil_r, toks_text_cons, Htx. reflexivity.
    + rewrite app_nil_r. constructor; assumption.
    + rewrite app_nil_r. cbn [app filter nc is_comment_tok tk kind_eqb negb]. now rewrite valsep_nc.
    + rewrite app_nil_r. cbn [app forallb]. now rewrite valsep_com_lf.
    + destruct (Hrun false) as [pv Hpv]. exists pv. rewrite app_nil_r.
      cbn [app arun astep tk sLF s_lf]. rewrite Hpv, Hnb. reflexivity.
Qed.

Definition noncomment_line (l : str) : bool := negb (is_comment_line l).

Lemma starts_cont_cases l : starts_cont l = true ->
  exists c b, l = c :: b /\ ((c =? HASH)%N = true \/ (c =? SP)%N || (c =? TAB)%N = true /\ (c =? HASH)%N = false).
Proof.
  destruct l as [|c b]; [discriminate|]. simpl. intros H. exists c, b. split; [reflexivity|].
  destruct (N.eqb_spec c HASH) as [->|Hn]; [now left|right].
  unfold HASH in *. destruct (N.eqb_spec c 35); [congruence|]. rewrite orb_false_r in H.
  split; [exact H|reflexivity].
Qed.

(** all lines of [r] are continuation or comment lines *)
Lemma cont_lines_sp : forall r,
  lf_only r = true -> forallb cont_line_ok (lines_lf r) = true ->
  exists ts, lines_tokens Space false (lines_lf r) = Ok ts
    /\ toks_text ts = r
    /\ Forall (fun t => tok_ok_sp t = true) ts
    /\ toks_text (filter nc ts) = concat (filter noncomment_line (lines_lf r))
    /\ (open_comment r = false -> forallb com_lf ts = true)
    /\ exists s', arun sLF ts = Some s'.
Proof.
  intros r. pattern r. apply lines_ind; clear r.
  - intros _ _. exists []. repeat split; try constructor. now exists sLF.
  - (* unterminated last line *)
    intros b Hne Hb Hlf Hok. rewrite lines_lf_last in * by assumption.
    simpl in Hok. rewrite andb_true_r in Hok. unfold cont_line_ok in Hok.
    apply andb_true_iff in Hok. destruct Hok as [Hsc Hnb]. apply negb_true_iff in Hnb.
    pose proof (lf_only_no_lb b Hlf Hb) as Hlb.
    destruct (starts_cont_cases b Hsc) as [c [b' [-> [Hc|[Hc Hh]]]]].
    + apply N.eqb_eq in Hc. subst c. cbn [lines_tokens line_tokens negb andb starts_hash].
      change (HASH =? HASH)%N with true. cbn [bind app].
      eexists. split; [reflexivity|]. repeat split.
      * unfold toks_text. simpl. now rewrite app_nil_r.
      * constructor; [|constructor]. unfold tok_ok_sp. cbn [tk tx starts_hash].
        change (HASH =? HASH)%N with true. cbn [andb]. now apply no_lb_removelast.
      * reflexivity.
      * intros Ho. unfold open_comment in Ho. rewrite lines_lf_last in Ho by assumption.
        cbn [last_opt is_comment_line] in Ho. change (HASH =? 35)%N with true in Ho.
        cbn [andb] in Ho. apply negb_false_iff in Ho.
        cbn [forallb com_lf is_comment_tok tk kind_eqb tx]. now rewrite Ho.
      * now exists sLF.
    + assert (Hb' : no_lb b' = true).
      { change (c :: b') with ([c] ++ b') in Hlb. rewrite no_lb_app in Hlb. apply andb_true_iff in Hlb. tauto. }
      assert (Hnb' : forallb isws b' = false).
      { unfold blank in Hnb. simpl in Hnb. apply andb_false_iff in Hnb. destruct Hnb as [Hx|Hx]; [|exact Hx].
        apply orb_true_iff in Hc. destruct Hc as [Hc|Hc]; apply N.eqb_eq in Hc; subst c; discriminate. }
      destruct (cont_line_sp c b' false Hc Hb' Hnb') as [ts [Hts [Htx [Hk [Hf [Hcl [pv Hrun]]]]]]].
      rewrite app_nil_r in *. cbn [lines_tokens]. rewrite Hts. cbn [bind]. rewrite app_nil_r.
      exists ts. repeat split; try assumption.
      * rewrite Hf, Htx. cbn [filter noncomment_line is_comment_line].
        change 35%N with HASH. rewrite Hh. cbn [negb concat]. now rewrite app_nil_r.
      * eexists. exact Hrun.
  - (* a terminated line, then the rest *)
    intros b r Hb IH Hlf Hok. rewrite lines_lf_line in * by assumption.
    destruct (lf_only_line b r Hlf Hb) as [Hlb Hlfr].
    cbn [forallb] in Hok. apply andb_true_iff in Hok. destruct Hok as [Hl Hok].
    destruct (IH Hlfr Hok) as [tr [Htr [Htxr [Hkr [Hfr [Hcr [s' Hrunr]]]]]]].
    unfold cont_line_ok in Hl. apply andb_true_iff in Hl. destruct Hl as [Hsc Hnb].
    apply negb_true_iff in Hnb.
    destruct (starts_cont_cases _ Hsc) as [c [b' [El [Hc|[Hc Hh]]]]].
    + apply N.eqb_eq in Hc. subst c. cbn [lines_tokens]. rewrite El.
      cbn [line_tokens negb andb starts_hash]. change (HASH =? HASH)%N with true. cbn [bind].
      rewrite Htr. cbn [bind app]. eexists. split; [reflexivity|]. repeat split.
      * rewrite toks_text_cons, Htxr. cbn [tx]. rewrite <- El. now rewrite <- app_assoc.
      * constructor; [|assumption]. unfold tok_ok_sp. cbn [tk tx starts_hash].
        change (HASH =? HASH)%N with true. cbn [andb]. rewrite <- El, removelast_snoc. exact Hlb.
      * cbn [filter nc is_comment_tok tk kind_eqb negb noncomment_line is_comment_line].
        change (HASH =? 35)%N with true. cbn [negb]. exact Hfr.
      * intros Ho. rewrite open_comment_line in Ho by assumption.
        cbn [forallb com_lf is_comment_tok tk kind_eqb tx]. rewrite <- El, ends_with_lf_snoc.
        now apply Hcr.
      * cbn [arun astep tk sLF s_lf]. eexists. exact Hrunr.
    + destruct b as [|c1 b1]; [simpl in El; injection El as <- <-; discriminate|].
      simpl in El. injection El as <- <-.
      assert (Hb' : no_lb b1 = true).
      { change (c1 :: b1) with ([c1] ++ b1) in Hlb. rewrite no_lb_app in Hlb. apply andb_true_iff in Hlb. tauto. }
      assert (Hnb' : forallb isws b1 = false).
      { unfold blank in Hnb. change ((c1 :: b1) ++ [LF]) with (c1 :: b1 ++ [LF]) in Hnb.
        cbn [forallb] in Hnb. rewrite forallb_app in Hnb. cbn [forallb] in Hnb.
        change (py_isspace LF) with true in Hnb. rewrite !andb_true_r in Hnb.
        apply andb_false_iff in Hnb. destruct Hnb as [Hx|Hx]; [|exact Hx].
        apply orb_true_iff in Hc. destruct Hc as [Hc|Hc]; apply N.eqb_eq in Hc; subst c1; discriminate. }
      destruct (cont_line_sp c1 b1 true Hc Hb' Hnb') as [ts [Hts [Htx [Hk [Hf [Hcl [pv Hrun]]]]]]].
      cbn [lines_tokens]. change ((c1 :: b1) ++ [LF]) with (c1 :: b1 ++ [LF]).
      rewrite Hts. cbn [bind]. rewrite Htr. cbn [bind].
      eexists. split; [reflexivity|]. repeat split.
      * rewrite toks_text_app, Htx, Htxr. cbn [app]. now rewrite <- app_assoc.
      * apply Forall_app. split; assumption.
      * rewrite filter_app, toks_text_app, Hf, Htx, Hfr.
        cbn [filter noncomment_line is_comment_line]. change 35%N with HASH. rewrite Hh.
        cbn [negb concat]. reflexivity.
      * intros Ho. rewrite open_comment_line in Ho by assumption.
        rewrite forallb_app, Hcl. now apply Hcr.
      * rewrite arun_app, Hrun. eexists. exact Hrunr.
Qed.
