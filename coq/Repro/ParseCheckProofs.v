(** The bridge between the theorems about the model and the two boolean functions
    the correspondence check evaluates (Repro/Check.v):

      agree c = true  ->  holds c = true

    i.e. whenever the implementation's observation equals what the model computes
    (the run-time correspondence), the property itself — judged on the
    implementation's observation against LosslessSpec.expected_text — holds,
    because the model satisfies it (TokenProofs, ParseProofs). *)
From Coq Require Import String.
From Verif Require Import Repro.Check Repro.TokenProofs Repro.ParseProofs.
Import ListNotations.
Local Open Scope list_scope.

(** * the boolean equalities of Check.v decide equality *)
Lemma bool_eqb_eq a b : bool_eqb a b = true -> a = b.
Proof. destruct a, b; cbn; congruence. Qed.

Lemma tkind_eqb_eq a b : tkind_eqb a b = true -> a = b.
Proof. destruct a, b; intros H; try reflexivity; discriminate H. Qed.

Lemma token_eqb_eq a b : token_eqb a b = true -> a = b.
Proof.
  destruct a as [k s], b as [k' s']. unfold token_eqb. cbn [tk ttext]. intros H.
  apply andb_true_iff in H. destruct H as [H1 H2].
  apply tkind_eqb_eq in H1. apply str_eqb_eq in H2. now subst.
Qed.

Lemma tokens_eqb_eq a b : list_eqb token_eqb a b = true -> a = b.
Proof.
  revert b. induction a as [|x a IH]; destruct b as [|y b]; cbn; intros H;
    try reflexivity; try discriminate.
  apply andb_true_iff in H. destruct H as [H1 H2].
  apply token_eqb_eq in H1. apply IH in H2. now subst.
Qed.

Lemma slots_eqb_eq a b : slots_eqb a b = true -> a = b.
Proof.
  destruct a, b. unfold slots_eqb. cbn. intros H.
  repeat (apply andb_true_iff in H; let H' := fresh "H" in destruct H as [H H']).
  repeat match goal with X : bool_eqb _ _ = true |- _ => apply bool_eqb_eq in X end.
  now subst.
Qed.

Lemma ekind_eqb_eq a b : ekind_eqb a b = true -> a = b.
Proof.
  destruct a, b; cbn; intros H; try reflexivity; try discriminate.
  - now apply slots_eqb_eq in H; subst.
  - now apply bool_eqb_eq in H; subst.
  - now apply bool_eqb_eq in H; subst.
Qed.

(** induction on the rose tree *)
Fixpoint node_ind' (P : node -> Prop)
    (HT : forall k s, P (Tok k s))
    (HE : forall k ps, Forall P ps -> P (Elem k ps)) (n : node) {struct n} : P n :=
  match n with
  | Tok k s => HT k s
  | Elem k ps =>
      HE k ps ((fix go (l : list node) : Forall P l :=
                  match l with
                  | [] => Forall_nil P
                  | x :: l' => Forall_cons x (node_ind' P HT HE x) (go l')
                  end) ps)
  end.

Lemma node_eqb_eq a : forall b, node_eqb a b = true -> a = b.
Proof.
  induction a as [k s|k ps IH] using node_ind'; intros [k' s'|k' qs]; cbn [node_eqb];
    try discriminate.
  - intros H. apply andb_true_iff in H. destruct H as [H1 H2].
    apply tkind_eqb_eq in H1. apply str_eqb_eq in H2. now subst.
  - intros H. apply andb_true_iff in H. destruct H as [H1 H2].
    apply ekind_eqb_eq in H1. subst k'. f_equal.
    revert qs H2. induction IH as [|x ps Hx _ IHps]; intros [|y qs] H2;
      try reflexivity; try discriminate.
    apply andb_true_iff in H2. destruct H2 as [H2 H3].
    apply Hx in H2. apply IHps in H3. now subst.
Qed.

(** * agree implies holds *)
Theorem agree_implies_holds c : agree c = true -> holds c = true.
Proof.
  destruct c as [lines otoks otree odump ostrict|s om ows]; [|reflexivity].
  cbn [agree holds]. set (ls := map dec lines). intros H.
  destruct (expected_text ls) as [e|] eqn:Ee; [|reflexivity].
  destruct (tokenize_expected py_isspace field_name_first field_name_rest
              eq_refl eq_refl eq_refl ls e Ee) as [ts [T1 T2]].
  destruct (parse_dump_expected py_isspace field_name_first field_name_rest
              eq_refl eq_refl eq_refl ls e Ee) as [t [P1 P2]].
  fold py_tokenize in T1. change (py_parse true true ls = Ok t) in P1.
  rewrite T1, P1 in H.
  repeat (apply andb_true_iff in H; let H' := fresh "H" in destruct H as [H H']).
  destruct otoks as [ots|]; [|discriminate]. cbn [result_eqb] in H.
  apply tokens_eqb_eq in H.
  destruct otree as [ot|]; [|discriminate]. cbn [result_eqb] in H2.
  apply node_eqb_eq in H2.
  destruct odump as [d|]; [|discriminate]. cbn [option_map option_eqb] in H1.
  apply str_eqb_eq in H1.
  rewrite <- H, <- H2, <- H1, T2, P2. now rewrite !str_eqb_refl.
Qed.
