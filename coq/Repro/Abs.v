(** The abstraction from the element tree of the parser model (Repro/Parse.v, C01) to the
    field-level document of Repro/Doc.v (C05, C10), and the document-level "fresh parse":

      abs_of_tree : node -> result doc
      reparse     : str -> result doc      (lines of the text -> C01 parser model -> abs_of_tree)

    [abs_of_tree] is the Coq counterpart of [abstract] in harness/props/c05.py (the walk over
    [iter_parts] that produces the initial document of every C05/C10 case):
      * a paragraph element becomes [Para]; its class is kept ([EParagraph true] = the
        duplicate-fields class, built by [init_dup] exactly as [DocCheck.dec_item] does);
        every key-value pair becomes a field: text of the comment element (if any), text of the
        field-name token, text of everything after it (separator + value element);
      * a top-level whitespace token becomes [Other OWs], a comment element [Other OComment],
        anything else [Other OError] — with its text.
    A key-value pair element that does not have the shape [comment? name rest...] is an error
    ([Err OtherError]); the parser model never builds one.

    Definitions only; the theorem [abs (parse (dump d)) = d] is in Repro/ParseDumpAbs*.v. *)
From Verif Require Import Lib.Base Lib.PyStr Gen.PyChars Gen.ReproChars Repro.Token Repro.Parse Repro.Doc.

(** [kv.comment_element.convert_to_text()], [str(kv.field_name)], the remaining text *)
Definition abs_kvp (n : node) : result field :=
  match n with
  | Elem (EKvp c) parts =>
      let cp := if c then match parts with
                          | x :: r => Some (Parse.dump x, r)
                          | [] => None
                          end
                else Some ([], parts) in
      match cp with
      | Some (cmt, Tok KFieldName nm :: rest) => Ok (mkF cmt nm (Parse.dump_list rest))
      | _ => Err OtherError
      end
  | _ => Err OtherError
  end.

Definition abs_item (n : node) : result item :=
  match n with
  | Elem (EParagraph dup) kvps =>
      do fs <- map_result abs_kvp kvps;
      Ok (Para (if dup then PD (init_dup fs) else PN fs))
  | Tok k t => Ok (Other (if is_ws_kind k then OWs else OError) t)
  | Elem EComment _ => Ok (Other OComment (Parse.dump n))
  | Elem _ _ => Ok (Other OError (Parse.dump n))
  end.

Definition abs_of_tree (t : node) : result doc :=
  match t with
  | Elem EFile top => map_result abs_item top
  | _ => Err OtherError
  end.

(** the lines handed to the parser: the text split after every LF (harness: [split_lines]) *)
Definition lines_of (text : str) : list str := lf_lines text.

Section Reparse.
Variable is_space : N -> bool.
Variables name_first name_rest : N -> bool.

(** parse the text afresh (accepting mode, as DESIGN's [parse_dump_abs] has it) and abstract *)
Definition reparse_with (accept_errors accept_dups : bool) (text : str) : result doc :=
  do t <- parse is_space name_first name_rest accept_errors accept_dups (lines_of text);
  abs_of_tree t.
End Reparse.

(** the instance the implementation runs with (the tables of Repro/Check.v) *)
Definition py_reparse (text : str) : result doc :=
  reparse_with py_isspace field_name_first field_name_rest true true text.

(** the same through the call the C05/C10 drivers make: parse_deb822_file(lines,
    accept_files_with_duplicated_fields=True) — error tokens are rejected *)
Definition py_reparse_strict (text : str) : result doc :=
  reparse_with py_isspace field_name_first field_name_rest false true text.

(** ** equality of documents (for the correspondence check) *)
Definition field_eqb' (a b : field) : bool :=
  str_eqb (f_comment a) (f_comment b) && str_eqb (f_name a) (f_name b) && str_eqb (f_rest a) (f_rest b).

Definition okind_eqb (a b : okind) : bool :=
  match a, b with
  | OWs, OWs | OComment, OComment | OError, OError => true
  | _, _ => false
  end.

(** same class, same fields in the same order (for the duplicate-fields class the node
    identities are those [init_dup] hands out on both sides) *)
Definition item_eqb (a b : item) : bool :=
  match a, b with
  | Para (PN fs), Para (PN gs) => list_eqb field_eqb' fs gs
  | Para (PD d), Para (PD e) => list_eqb field_eqb' (map snd (d_order d)) (map snd (d_order e))
  | Other k t, Other k' t' => okind_eqb k k' && str_eqb t t'
  | _, _ => false
  end.

Definition doc_eqb (a b : doc) : bool := list_eqb item_eqb a b.

(** * Documents as the parser returns them

    [doc_canon d]: the item structure of [d] is one a fresh parse can produce —
      * no error items (the theorems are about documents the parser accepts without errors);
      * no paragraph without fields (an emptied paragraph leaves no trace in the dump);
      * a whitespace item is a non-empty run of whitespace-only lines, all newline-terminated —
        or one unterminated whitespace-only line (the tokenizer merges only terminated blank
        lines, fix of D1), which may directly follow a terminated run;
      * a comment item is a non-empty run of '#' lines; it is followed by a whitespace item or by
        the end (a comment directly in front of a field belongs to that field, two comment runs
        would be one);
      * two paragraphs are separated by something.
    Evaluated by the correspondence check on every document the implementation parsed. *)
Definition ws_text_ok (t : str) : bool :=
  negb (is_nil t) && forallb Doc.is_ws_line (lf_lines t) && (ends_nl t || negb (mem_char LF t)).

Definition comment_text_ok (t : str) : bool :=
  negb (is_nil t) && forallb starts_hash (lf_lines t).

Definition item_canon (it : item) : bool :=
  match it with
  | Para p => negb (is_nil (para_fields p))
  | Other OWs t => ws_text_ok t
  | Other OComment t => comment_text_ok t
  | Other OError _ => false
  end.

Definition adj_canon (it nx : item) : bool :=
  match it, nx with
  | Para _, Para _ => false
  | Other OComment _, Other OWs _ => true
  | Other OComment _, _ => false
  | Other OWs _, Other OWs t2 => negb (ends_nl t2)
  | _, _ => true
  end.

Fixpoint doc_canon (d : doc) : bool :=
  match d with
  | [] => true
  | it :: d' =>
      item_canon it && match d' with nx :: _ => adj_canon it nx | [] => true end && doc_canon d'
  end.

(** what a fresh parse shows of [d]: the same items; every paragraph in the class the parser
    chooses for its fields (the no-duplicates class [PN fs] when no name is repeated) *)
Definition norm_item (it : item) : item :=
  match it with
  | Para p => Para (Doc.from_kvpairs (para_fields p))
  | Other k t => Other k t
  end.
Definition norm_doc (d : doc) : doc := map norm_item d.

(** * What the parser cannot see

    [squash d]: paragraphs emptied of all their fields leave no trace in the dump, so they are
    dropped, and a run of blank lines that directly follows another (after a paragraph between
    them was emptied) is one whitespace token: the two items are merged — unless the second is
    the unterminated whitespace line at the very end, which stays a token of its own.
    [doc_shape d] = [doc_canon d] without the demand that paragraphs are non-empty and without
    the restriction on what follows a whitespace item (a second run of blank lines is merged by
    [squash]): the item structure of every document reachable from a parsed one by field edits
    and by inserting / appending paragraphs with their separating newline tokens. *)
Fixpoint squash (d : doc) : doc :=
  match d with
  | [] => []
  | it :: d' =>
      let r := squash d' in
      match it with
      | Para p => if is_nil (para_fields p) then r else it :: r
      | Other OWs t =>
          match r with
          | Other OWs t2 :: r' => if ends_nl t2 then Other OWs (t ++ t2) :: r' else it :: r
          | _ => it :: r
          end
      | _ => it :: r
      end
  end.

Definition item_shape (it : item) : bool :=
  match it with Para _ => true | _ => item_canon it end.

Definition adj_shape (it nx : item) : bool :=
  match it with Other OWs _ => true | _ => adj_canon it nx end.

Fixpoint doc_shape (d : doc) : bool :=
  match d with
  | [] => true
  | it :: d' =>
      item_shape it && match d' with nx :: _ => adj_shape it nx | [] => true end && doc_shape d'
  end.
