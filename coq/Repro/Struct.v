(** Model of the STRUCTURAL operations of the format-preserving deb822 document
    (debian._deb822_repro.parsing), as the code is in /repo now (with the repairs
    D3, D4, D5, D23), on top of the field-level document of Repro/Doc.v:

      Deb822NoDuplicateFieldsParagraphElement.order_first / order_last / order_before /
        order_after / sort_fields      over  debian._util.OrderedSet (at list level:
        OrderedSet.order_* / _reorder remove one key and re-insert it; the linked
        list underneath is C09's subject)
      Deb822DuplicateFieldsParagraphElement._nodes_being_relocated / order_first /
        order_last / order_before / order_after / _regenerate_relative_kvapir_order /
        sort_fields                    over the two orders the class keeps:
        [d_order] (= _kvpair_order, the LinkedList of nodes, identity + current value)
        and [d_byname] (= _kvpair_elements, lower-cased name -> list of nodes)
      Deb822FileElement.append / insert
      p[k] = v and del p[k] are Doc.setitem / Doc.p_remove (set_kvpair_element /
        remove_kvpair_element / _resolve_to_single_node underneath).

    An operation that raises may already have called _ensure_final_newline, so
    every operation returns the (possibly changed) state together with the
    exception kind: [sres A = option err * A].

    No proofs here: the model must still run when a proof breaks. *)
From Verif Require Import Lib.Base Lib.PyStr Gen.PyChars Repro.Doc Repro.StructSort.

Definition sres (A : Type) : Type := (option err * A)%type.
Definition ok {A} (a : A) : sres A := (None, a).
Definition fail {A} (e : err) (a : A) : sres A := (Some e, a).

(** sort_fields(key=...): the key functions are the family [sortkey] of
    Repro/StructSort.v ([KDefault] = default_field_sort_key, [x.lower()] of the
    field name); [sort_fields_by k] = sorted(fields, key=lambda f: key(f.field_name)) *)

(** * Deb822NoDuplicateFieldsParagraphElement over OrderedSet

    As in Doc.v the dict of fields and the OrderedSet of their keys are one list
    of fields in _kvpair_order order. *)

(** LinkedList.insert_before(x, reference_node) / insert_after; the reference is
    present whenever these are reached (its presence is tested first) *)
Fixpoint insert_before (p : field -> bool) (x : field) (l : list field) : list field :=
  match l with
  | [] => [x]
  | a :: l' => if p a then x :: a :: l' else a :: insert_before p x l'
  end.

Fixpoint insert_after (p : field -> bool) (x : field) (l : list field) : list field :=
  match l with
  | [] => [x]
  | a :: l' => if p a then a :: x :: l' else a :: insert_after p x l'
  end.

(** OrderedSet._reorder: node = self.__table[item] (KeyError); remove_node;
    reinserter(node.value) *)
Definition nd_reorder (fs : list field) (n : str)
           (reinsert : field -> list field -> list field) : sres (list field) :=
  match List.find (has_name n) fs with
  | None => fail KeyError fs
  | Some f => ok (reinsert f (remove_first (has_name n) fs))
  end.

(** order_last / order_first: _unpack_key(raise_if_indexed=True), then
    _ensure_final_newline, then the OrderedSet *)
Definition nd_order_last (fs : list field) (k : key) : sres (list field) :=
  match unpack_key k true with
  | Err e => fail e fs
  | Ok (n, _) => nd_reorder (map_last add_nl fs) n (fun f l => l ++ [f])
  end.

Definition nd_order_first (fs : list field) (k : key) : sres (list field) :=
  match unpack_key k true with
  | Err e => fail e fs
  | Ok (n, _) => nd_reorder (map_last add_nl fs) n (fun f l => f :: l)
  end.

(** order_before / order_after: both keys unpacked, _ensure_final_newline, then
    OrderedSet.order_before: item == reference_item (ValueError),
    self.__table[reference_item] (KeyError), _reorder (KeyError) *)
Definition nd_order_rel (after : bool) (fs : list field) (k r : key) : sres (list field) :=
  match unpack_key k true with
  | Err e => fail e fs
  | Ok (n, _) =>
      match unpack_key r true with
      | Err e => fail e fs
      | Ok (rn, _) =>
          let fs1 := map_last add_nl fs in
          if name_eqb n rn then fail ValueError fs1
          else if negb (existsb (has_name rn) fs1) then fail KeyError fs1
          else nd_reorder fs1 n (if after then insert_after (has_name rn)
                                 else insert_before (has_name rn))
      end
  end.

(** sort_fields: the last field gets its newline, then
    OrderedSet(sorted(self._kvpair_order, key=key)); the elements of _kvpair_order
    are the field names as spelled in the fields *)
Definition nd_sort (k : sortkey) (fs : list field) : list field := sort_fields_by k (map_last add_nl fs).

(** * Deb822DuplicateFieldsParagraphElement *)

Notation order := (list (N * field)) (only parsing).

Definition is_node (id : N) (nf : N * field) : bool := (fst nf =? id)%N.

(** the node and the list without it (LinkedList.remove_node) *)
Definition take_node (id : N) (o : order) : option ((N * field) * order) :=
  match List.find (is_node id) o with
  | Some x => Some (x, remove_node id o)
  | None => None
  end.

(** kvpair_order.head_node is node / tail_node is node *)
Definition head_is (o : order) (id : N) : bool :=
  match o with x :: _ => is_node id x | [] => false end.
Definition tail_is (o : order) (id : N) : bool :=
  match last_opt o with Some x => is_node id x | None => false end.

(** insert_node_before(node, reference_node) / insert_node_after; [None]: the
    reference is not in the list (excluded by the invariant) *)
Fixpoint ins_before (ref : N) (x : N * field) (o : order) : option order :=
  match o with
  | [] => None
  | a :: o' =>
      if is_node ref a then Some (x :: a :: o')
      else match ins_before ref x o' with Some r => Some (a :: r) | None => None end
  end.

Fixpoint ins_after (ref : N) (x : N * field) (o : order) : option order :=
  match o with
  | [] => None
  | a :: o' =>
      if is_node ref a then Some (a :: x :: o')
      else match ins_after ref x o' with Some r => Some (a :: r) | None => None end
  end.

(** _nodes_being_relocated: dict key, [nodes] (the list object stored in
    _kvpair_elements) and the nodes to move *)
Definition relocated (d : dpara) (k : key) : result (str * list N * list N) :=
  do nk <- unpack_key k false;
  let '(n, idx) := nk in
  match assoc_get (lower n) (d_byname d) with
  | None => Err KeyError                                   (* self._kvpair_elements[key] *)
  | Some nodes =>
      match idx with
      | None => Ok (lower n, nodes, nodes)
      | Some _ =>
          match resolve_single nodes idx false with
          | LOk (Some x) => Ok (lower n, nodes, [x])
          | LOk None => Err AssertionError                 (* assert single_node is not None *)
          | LAmb => Err KeyError
          | LErr e => Err e
          end
      end
  end.

(** one round of the loops; a node that is not in the list (Err OtherError) is
    excluded by the invariant *)
Definition step_last (ro : result order) (id : N) : result order :=
  do o <- ro;
  if tail_is o id then Ok o                               (* continue *)
  else match take_node id o with
       | Some (x, o') => Ok (o' ++ [x])                   (* insert_node_after(node, tail_node) *)
       | None => Err OtherError
       end.

Definition step_first (ro : result order) (id : N) : result order :=
  do o <- ro;
  if head_is o id then Ok o                               (* continue *)
  else match take_node id o with
       | Some (x, o') => Ok (x :: o')                     (* insert_node_before(node, head_node) *)
       | None => Err OtherError
       end.

Definition step_rel (after : bool) (ref : N) (ro : result order) (id : N) : result order :=
  do o <- ro;
  match take_node id o with
  | Some (x, o') =>
      match (if after then ins_after ref x o' else ins_before ref x o') with
      | Some r => Ok r
      | None => Err OtherError
      end
  | None => Err OtherError
  end.

Definition with_order (d : dpara) (o : order) : dpara := mkD o (d_byname d) (d_next d).

Definition d_ensure (d : dpara) : dpara := with_order d (d_ensure_nl (d_order d)).

Definition d_order_last (d : dpara) (k : key) : sres dpara :=
  match relocated d k with
  | Err e => fail e d
  | Ok (key, nodes, reloc) =>
      let d1 := d_ensure d in
      match fold_left step_last reloc (Ok (d_order d1)) with
      | Err e => fail e d1
      | Ok o2 =>
          let bn :=
              match reloc with
              | [x] =>
                  if option_eqb N.eqb (last_opt nodes) (Some x) then d_byname d
                  else assoc_set key (remove_first (N.eqb x) nodes ++ [x]) (d_byname d)
              | _ => d_byname d
              end in
          ok (mkD o2 bn (d_next d))
      end
  end.

Definition d_order_first (d : dpara) (k : key) : sres dpara :=
  match relocated d k with
  | Err e => fail e d
  | Ok (key, nodes, reloc) =>
      let d1 := d_ensure d in
      (* "reversed" to preserve the relative order of the nodes in a bulk reorder *)
      match fold_left step_first (rev reloc) (Ok (d_order d1)) with
      | Err e => fail e d1
      | Ok o2 =>
          let bn :=
              match reloc with
              | [x] =>
                  if option_eqb N.eqb (hd_error nodes) (Some x) then d_byname d
                  else assoc_set key (x :: remove_first (N.eqb x) nodes) (d_byname d)
              | _ => d_byname d
              end in
          ok (mkD o2 bn (d_next d))
      end
  end.

(** _regenerate_relative_kvapir_order *)
Definition regenerate (fname : str) (o : order) (bn : list (str * list N)) : list (str * list N) :=
  assoc_set (lower fname)
            (map fst (filter (fun nf => name_eqb (f_name (snd nf)) fname) o)) bn.

Definition d_order_rel (after : bool) (d : dpara) (k r : key) : sres dpara :=
  match relocated d k with
  | Err e => fail e d
  | Ok (key, nodes, reloc) =>
      let d1 := d_ensure d in
      match relocated d1 r with
      | Err e => fail e d1
      | Ok (_, _, refs) =>
          (* reference_nodes[0] for "before", reference_nodes[-1] for "after" *)
          match py_index refs (if after then (-1)%Z else 0%Z) with
          | None => fail IndexError d1
          | Some ref =>
              if existsb (N.eqb ref) reloc then fail ValueError d1
              else
                match fold_left (step_rel after ref) (if after then rev reloc else reloc)
                                (Ok (d_order d1)) with
                | Err e => fail e d1
                | Ok o2 =>
                    let bn :=
                        match reloc, nodes with
                        | [x], _ :: _ :: _ =>
                            match node_val x o2 with
                            | Some f => regenerate (f_name f) o2 (d_byname d)
                            | None => d_byname d
                            end
                        | _, _ => d_byname d
                        end in
                    ok (mkD o2 bn (d_next d))
                end
          end
      end
  end.

(** sort_fields: newline on the last field, sorted(self._kvpair_order, key=_actual_key)
    with _actual_key(kvpair) = key(kvpair.field_name), then both orders are rebuilt
    by _init_kvpair_fields *)
Definition d_sort (k : sortkey) (d : dpara) : dpara :=
  let fs := sort_fields_by k (map snd (d_ensure_nl (d_order d))) in
  init_kvpairs fs (mkD [] [] (d_next d)).

(** * Either class *)

Definition lift_pn (r : sres (list field)) : sres para := (fst r, PN (snd r)).
Definition lift_pd (r : sres dpara) : sres para := (fst r, PD (snd r)).

Definition p_order_first (p : para) (k : key) : sres para :=
  match p with PN fs => lift_pn (nd_order_first fs k) | PD d => lift_pd (d_order_first d k) end.
Definition p_order_last (p : para) (k : key) : sres para :=
  match p with PN fs => lift_pn (nd_order_last fs k) | PD d => lift_pd (d_order_last d k) end.
Definition p_order_rel (after : bool) (p : para) (k r : key) : sres para :=
  match p with
  | PN fs => lift_pn (nd_order_rel after fs k r)
  | PD d => lift_pd (d_order_rel after d k r)
  end.
Definition p_sort (k : sortkey) (p : para) : sres para :=
  match p with PN fs => ok (PN (nd_sort k fs)) | PD d => ok (PD (d_sort k d)) end.

(** operations of Doc.v that either succeed or leave the paragraph as it was *)
Definition lift_res (f : para -> result para) (p : para) : sres para :=
  match f p with Ok p' => ok p' | Err e => fail e p end.

(** * get_kvpair_element((name, i)): position of the element among iter_parts() *)

Fixpoint index_of {A} (p : A -> bool) (l : list A) : option nat :=
  match l with
  | [] => None
  | a :: l' => if p a then Some O
               else match index_of p l' with Some i => Some (S i) | None => None end
  end.

Definition p_position (p : para) (n : str) (i : Z) : result nat :=
  match p with
  | PN fs =>
      do o <- nd_get fs (KIdx n i) false;
      match o with
      | Some f => match index_of (has_name (f_name f)) fs with
                  | Some q => Ok q
                  | None => Err OtherError
                  end
      | None => Err OtherError
      end
  | PD d =>
      match assoc_get (lower n) (d_byname d) with
      | None => Err KeyError
      | Some nodes =>
          match resolve_single nodes (Some i) false with
          | LOk (Some id) => match index_of (is_node id) (d_order d) with
                             | Some q => Ok q
                             | None => Err OtherError
                             end
          | LOk None => Err OtherError
          | LAmb => Err KeyError
          | LErr e => Err e
          end
      end
  end.

(** * Deb822FileElement *)

Definition item_is_ws (it : item) : bool :=
  match it with Other OWs _ => true | _ => false end.

Definition WSNL : item := Other OWs [LF].

Definition ensure_item (it : item) : item :=
  match it with Para p => Para (p_ensure_nl p) | _ => it end.

(** append (for a paragraph that has no parent yet); [if tail_element is not None]
    (D23: an emptied paragraph is falsy but still needs the separator) *)
Definition f_append (d : doc) (p : para) : doc :=
  match last_opt d with
  | None => d ++ [Para p]
  | Some t =>
      let d1 := if ends_nl (item_text t) then d
                else match t with
                     | Para _ => map_last ensure_item d      (* tail_element._ensure_final_newline() *)
                     | Other _ _ => d ++ [WSNL]
                     end in
      let d2 := if item_is_ws t then d1 else d1 ++ [WSNL] in
      d2 ++ [Para p]
  end.

(** the node walk of insert for idx <> 0: the paragraph goes, followed by a newline
    token, before the first node at which [idx = i - 1] *)
Fixpoint ins_walk (d : doc) (idx i : Z) (p : para) : option doc :=
  match d with
  | [] => None
  | it :: d' =>
      let i' := match it with Para _ => (i + 1)%Z | Other _ _ => i end in
      if (idx =? i' - 1)%Z then Some (Para p :: WSNL :: it :: d')
      else match ins_walk d' idx i' p with Some r => Some (it :: r) | None => None end
  end.

Definition f_insert (d : doc) (idx : Z) (p : para) : doc :=
  if (idx =? 0)%Z then
    match d with
    | [] => f_append d p
    | _ => Para p :: WSNL :: d
    end
  else
    match ins_walk d idx 0 p with
    | Some r => r
    | None => f_append d p
    end.

(** the harness builds the new paragraph with new_empty_paragraph() and p[k] = v *)
Fixpoint build_para (kvs : list (str * str)) (p : para) : result para :=
  match kvs with
  | [] => Ok p
  | (k, v) :: kvs' => do p' <- setitem p (KStr k) v; build_para kvs' p'
  end.

(** * Operations and histories *)

Inductive sop :=
| SFirst (j : nat) (k : key)                    (* list(f)[j].order_first(k) *)
| SLast (j : nat) (k : key)
| SBefore (j : nat) (k r : key)
| SAfter (j : nat) (k r : key)
| SSort (j : nat) (sk : sortkey)                (* sort_fields(key=sk) *)
| SSet (j : nat) (k : key) (v : str)            (* p[k] = v *)
| SDel (j : nat) (k : key)                      (* del p[k] *)
| SAppend (kvs : list (str * str))              (* f.append(new paragraph) *)
| SInsert (i : Z) (kvs : list (str * str))      (* f.insert(i, new paragraph) *)
| SReappend (j : nat).                          (* f.append(list(f)[j]): already part of this file *)

(** apply [f] to the [j]-th paragraph (list(file)[j]) *)
Fixpoint update_para_s (d : doc) (j : nat) (f : para -> sres para) : sres doc :=
  match d with
  | [] => fail IndexError []
  | Para p :: d' =>
      match j with
      | O => let (e, p') := f p in (e, Para p' :: d')
      | S j' => let (e, d'') := update_para_s d' j' f in (e, Para p :: d'')
      end
  | it :: d' => let (e, d'') := update_para_s d' j f in (e, it :: d'')
  end.

Definition s_step (d : doc) (o : sop) : sres doc :=
  match o with
  | SFirst j k => update_para_s d j (fun p => p_order_first p k)
  | SLast j k => update_para_s d j (fun p => p_order_last p k)
  | SBefore j k r => update_para_s d j (fun p => p_order_rel false p k r)
  | SAfter j k r => update_para_s d j (fun p => p_order_rel true p k r)
  | SSort j sk => update_para_s d j (p_sort sk)
  | SSet j k v => update_para_s d j (lift_res (fun p => setitem p k v))
  | SDel j k => update_para_s d j (lift_res (fun p => p_remove p k))
  | SAppend kvs =>
      match build_para kvs (PN []) with
      | Ok p => ok (f_append d p)
      | Err e => fail e d
      end
  | SInsert i kvs =>
      match build_para kvs (PN []) with
      | Ok p => ok (f_insert d i p)
      | Err e => fail e d
      end
  | SReappend j =>
      match nth_error (paras d) j with
      | Some _ => fail ValueError d
      | None => fail IndexError d
      end
  end.

Definition s_run (d : doc) (ops : list sop) : doc :=
  fold_left (fun d o => snd (s_step d o)) ops d.
