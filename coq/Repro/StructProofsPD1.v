(** C10 proofs, part 2: the invariant of the duplicate-fields paragraph class
    ([WfD]: node identities are distinct and the name index is, for every name,
    the list of the nodes carrying that name in document order), association-list
    facts, and what _nodes_being_relocated returns in a consistent state. *)
From Coq Require Import Permutation.
From Verif Require Import Lib.Base Lib.PyStr Gen.PyChars Repro.Doc Repro.StructSort
  Repro.Struct Repro.StructSpec Repro.StructLemmas Repro.StructProofsPN.

(** * Association lists *)

Section Assoc.
Context {B : Type}.
Implicit Types (l : list (str * B)).

Lemma assoc_get_set_same k v l : assoc_get k (assoc_set k v l) = Some v.
Proof.
  induction l as [|[k' v'] l IH]; cbn.
  - now rewrite str_eqb_refl.
  - destruct (str_eqb k k') eqn:E; cbn; rewrite E; [reflexivity|exact IH].
Qed.

Lemma assoc_get_set_other k k' v l :
  str_eqb k' k = false -> assoc_get k' (assoc_set k v l) = assoc_get k' l.
Proof.
  intros Hne. induction l as [|[k2 v2] l IH]; cbn.
  - now rewrite Hne.
  - destruct (str_eqb k k2) eqn:E; cbn.
    + apply str_eqb_eq in E. subst k2. now rewrite Hne.
    + destruct (str_eqb k' k2); [reflexivity|exact IH].
Qed.

Lemma assoc_get_In k l v : assoc_get k l = Some v -> In (k, v) l.
Proof.
  induction l as [|[k' v'] l IH]; cbn; [discriminate|].
  destruct (str_eqb k k') eqn:E.
  - intros [= ->]. apply str_eqb_eq in E. subst. now left.
  - intros H. right. now apply IH.
Qed.

Lemma assoc_get_none_keys k l : assoc_get k l = None -> ~ In k (map fst l).
Proof.
  induction l as [|[k' v'] l IH]; cbn; [tauto|].
  destruct (str_eqb k k') eqn:E; [discriminate|].
  intros H [Hk|Hk]; [subst; now rewrite str_eqb_refl in E|now apply IH].
Qed.

Lemma assoc_get_some_keys k l v : assoc_get k l = Some v -> In k (map fst l).
Proof. intros H. apply assoc_get_In in H. now apply (in_map fst) in H. Qed.

Lemma keys_assoc_set k v l :
  map fst (assoc_set k v l) = if existsb (str_eqb k) (map fst l) then map fst l else map fst l ++ [k].
Proof.
  induction l as [|[k' v'] l IH]; cbn; [reflexivity|].
  destruct (str_eqb k k') eqn:E; cbn.
  - apply str_eqb_eq in E. now subst.
  - rewrite IH. now destruct (existsb (str_eqb k) (map fst l)).
Qed.

Lemma keys_nodup_set k v l : NoDup (map fst l) -> NoDup (map fst (assoc_set k v l)).
Proof.
  intros H. rewrite keys_assoc_set.
  destruct (existsb (str_eqb k) (map fst l)) eqn:E; [exact H|].
  apply NoDup_snoc; [exact H|].
  intros Hin. apply existsb_str_In in Hin. congruence.
Qed.

Lemma assoc_get_del_other k k' l :
  str_eqb k' k = false -> assoc_get k' (assoc_del k l) = assoc_get k' l.
Proof.
  intros Hne. induction l as [|[k2 v2] l IH]; cbn; [reflexivity|].
  destruct (str_eqb k k2) eqn:E; cbn.
  - apply str_eqb_eq in E. subst k2. now rewrite Hne.
  - destruct (str_eqb k' k2); [reflexivity|exact IH].
Qed.

Lemma assoc_get_del_same k l : NoDup (map fst l) -> assoc_get k (assoc_del k l) = None.
Proof.
  induction l as [|[k2 v2] l IH]; cbn; intros H; [reflexivity|].
  inversion H as [|? ? Hn Hd]; subst.
  destruct (str_eqb k k2) eqn:E; cbn.
  - apply str_eqb_eq in E. subst k2.
    destruct (assoc_get k l) eqn:G; [|reflexivity].
    apply assoc_get_some_keys in G. contradiction.
  - rewrite E. now apply IH.
Qed.

Lemma keys_del_incl k l x : In x (map fst (assoc_del k l)) -> In x (map fst l).
Proof.
  induction l as [|[k2 v2] l IH]; cbn; [tauto|].
  destruct (str_eqb k k2); cbn; [tauto|]. intros [H|H]; [now left|right; now apply IH].
Qed.

Lemma keys_nodup_del k l : NoDup (map fst l) -> NoDup (map fst (assoc_del k l)).
Proof.
  induction l as [|[k2 v2] l IH]; cbn; intros H; [constructor|].
  inversion H as [|? ? Hn Hd]; subst.
  destruct (str_eqb k k2); cbn; [exact Hd|].
  constructor; [|now apply IH]. intros Hin. apply Hn. now apply (keys_del_incl k).
Qed.
End Assoc.

(** * The invariant *)

Definition ids (o : order) : list N := map fst o.
Definition named (k : str) (nf : N * field) : bool := str_eqb (lname (snd nf)) k.
Definition ids_named (k : str) (o : order) : list N := map fst (filter (named k) o).
Definition nonempty_opt {A} (l : list A) : option (list A) :=
  match l with [] => None | _ => Some l end.

Record WfD (d : dpara) : Prop := mkWfD {
  wf_ids : NoDup (ids (d_order d));
  wf_next : forall nf, In nf (d_order d) -> (fst nf < d_next d)%N;
  wf_keys : NoDup (map fst (d_byname d));
  wf_by : forall k, assoc_get k (d_byname d) = nonempty_opt (ids_named k (d_order d))
}.

Lemma has_name_named n id f : has_name n f = named (lower n) (id, f).
Proof. reflexivity. Qed.

Lemma named_lower_cong a b nf : name_eqb a b = true -> named (lower a) nf = named (lower b) nf.
Proof. intros H. apply name_eqb_eq in H. now rewrite H. Qed.

(** only identities and lower-cased names matter *)
Definition sig (o : order) : list (N * str) := map (fun nf => (fst nf, lname (snd nf))) o.

Lemma ids_named_sig k o o' : sig o = sig o' -> ids_named k o = ids_named k o'.
Proof.
  unfold ids_named. revert o'.
  induction o as [|[i f] o IH]; intros [|[i' f'] o'] Hs; try discriminate; [reflexivity|].
  cbn in Hs. injection Hs as -> Hl Hs.
  assert (E : named k (i', f) = named k (i', f')) by (unfold named; cbn [snd]; now rewrite Hl).
  cbn [filter]. rewrite E.
  destruct (named k (i', f')); cbn [map fst]; now rewrite (IH o' Hs).
Qed.

Lemma ids_sig o o' : sig o = sig o' -> ids o = ids o'.
Proof.
  intros H. unfold ids. assert (E : forall x, map fst x = map fst (sig x)).
  { intros x. unfold sig. now rewrite map_map. }
  now rewrite (E o), (E o'), H.
Qed.

Lemma sig_ensure_nl o : sig (d_ensure_nl o) = sig o.
Proof.
  unfold d_ensure_nl, sig. apply map_last_map. intros [i f]. cbn. unfold lname.
  now rewrite f_name_add_nl.
Qed.

Lemma map_snd_ensure_nl o : map snd (d_ensure_nl o) = nl (map snd o).
Proof.
  unfold d_ensure_nl, nl. destruct (list_snoc_cases o) as [->|(a & x & ->)]; [reflexivity|].
  rewrite map_last_snoc, !map_app. cbn. now rewrite map_last_snoc.
Qed.

Lemma WfD_sig d o' :
  WfD d -> sig o' = sig (d_order d) -> WfD (mkD o' (d_byname d) (d_next d)).
Proof.
  intros [H1 H2 H3 H4] Hs. constructor; cbn [d_order d_byname d_next].
  - now rewrite (ids_sig _ _ Hs).
  - intros nf Hin.
    assert (Hi : In (fst nf) (ids (d_order d))).
    { rewrite <- (ids_sig _ _ Hs). now apply in_map. }
    apply in_map_iff in Hi as (nf' & E & Hin'). rewrite <- E. now apply H2.
  - exact H3.
  - intros k. rewrite (ids_named_sig k _ _ Hs). apply H4.
Qed.

Lemma WfD_ensure d : WfD d -> WfD (d_ensure d).
Proof. intros H. apply WfD_sig; [exact H|apply sig_ensure_nl]. Qed.

(** * Nodes in a list with distinct identities *)

Lemma in_ids nf (o : order) : In nf o -> In (fst nf) (ids o).
Proof. apply in_map. Qed.

Lemma nodup_ids_eq (o : order) nf nf' :
  NoDup (ids o) -> In nf o -> In nf' o -> fst nf = fst nf' -> nf = nf'.
Proof.
  induction o as [|x o IH]; cbn; intros Hn H1 H2 E; [tauto|].
  inversion Hn as [|? ? Hx Hn']; subst.
  destruct H1 as [->|H1], H2 as [->|H2]; auto.
  - exfalso. apply Hx. rewrite E. now apply in_ids.
  - exfalso. apply Hx. rewrite <- E. now apply in_ids.
Qed.

Lemma filter_is_node (o : order) nf :
  NoDup (ids o) -> In nf o -> filter (is_node (fst nf)) o = [nf].
Proof.
  induction o as [|x o IH]; cbn; intros Hn Hin; [tauto|].
  inversion Hn as [|? ? Hx Hn']; subst.
  destruct Hin as [->|Hin].
  - unfold is_node at 1. rewrite N.eqb_refl. f_equal.
    apply filter_none. intros y Hy. unfold is_node. apply N.eqb_neq. intros E.
    apply Hx. rewrite <- E. now apply in_ids.
  - assert (E : is_node (fst nf) x = false).
    { unfold is_node. apply N.eqb_neq. intros E. apply Hx. rewrite E. now apply in_ids. }
    rewrite E. now apply IH.
Qed.

Lemma filter_is_node_absent (o : order) x : ~ In x (ids o) -> filter (is_node x) o = [].
Proof.
  intros H. apply filter_none. intros y Hy. unfold is_node. apply N.eqb_neq.
  intros E. apply H. rewrite <- E. now apply in_ids.
Qed.

Lemma find_is_node (o : order) nf :
  NoDup (ids o) -> In nf o -> List.find (is_node (fst nf)) o = Some nf.
Proof.
  induction o as [|x o IH]; cbn; intros Hn Hin; [tauto|].
  inversion Hn as [|? ? Hx Hn']; subst.
  destruct Hin as [->|Hin].
  - unfold is_node. now rewrite N.eqb_refl.
  - assert (E : is_node (fst nf) x = false).
    { unfold is_node. apply N.eqb_neq. intros E. apply Hx. rewrite E. now apply in_ids. }
    rewrite E. now apply IH.
Qed.

Lemma remove_node_filter (o : order) x :
  NoDup (ids o) -> remove_node x o = filter (fun y => negb (is_node x y)) o.
Proof.
  unfold remove_node. induction o as [|y o IH]; cbn; intros Hn; [reflexivity|].
  inversion Hn as [|? ? Hy Hn']; subst.
  fold (is_node x y). destruct (is_node x y) eqn:E; cbn.
  - symmetry. apply filter_all. intros z Hz. apply negb_true_iff. unfold is_node in *.
    apply N.eqb_eq in E. apply N.eqb_neq. intros E2. apply Hy. rewrite E, <- E2. now apply in_ids.
  - f_equal. now apply IH.
Qed.

Lemma in_ids_named k o x : In x (ids_named k o) -> exists nf, In nf o /\ fst nf = x /\ named k nf = true.
Proof.
  unfold ids_named. intros H. apply in_map_iff in H as (nf & E & Hin).
  apply filter_In in Hin as [Hin Hk]. eauto.
Qed.

Lemma ids_named_incl k o x : In x (ids_named k o) -> In x (ids o).
Proof. intros H. destruct (in_ids_named _ _ _ H) as (nf & Hin & <- & _). now apply in_ids. Qed.

Lemma NoDup_map_filter {A B} (f : A -> B) (p : A -> bool) l : NoDup (map f l) -> NoDup (map f (filter p l)).
Proof.
  induction l as [|x l IH]; cbn; intros H; [constructor|].
  inversion H as [|? ? Hx Hn]; subst.
  destruct (p x); cbn; [|now apply IH].
  constructor; [|now apply IH]. intros Hin. apply Hx.
  apply in_map_iff in Hin as (y & E & Hy). apply filter_In in Hy as [Hy _].
  rewrite <- E. now apply in_map.
Qed.

Lemma ids_named_nodup k o : NoDup (ids o) -> NoDup (ids_named k o).
Proof. apply NoDup_map_filter. Qed.

(** membership of the identity in the index list is the name test *)
Lemma mem_ids_named k o nf :
  NoDup (ids o) -> In nf o -> existsb (N.eqb (fst nf)) (ids_named k o) = named k nf.
Proof.
  intros Hn Hin. destruct (named k nf) eqn:E.
  - apply existsb_exists. exists (fst nf). split; [|apply N.eqb_refl].
    unfold ids_named. apply in_map. apply filter_In. now split.
  - destruct (existsb (N.eqb (fst nf)) (ids_named k o)) eqn:F; [|reflexivity].
    apply existsb_exists in F as (x & Hx & Ex). apply N.eqb_eq in Ex. subst x.
    destruct (in_ids_named _ _ _ Hx) as (nf' & Hin' & Ef & Hk).
    rewrite (nodup_ids_eq o nf nf' Hn Hin Hin' (eq_sym Ef)) in E. congruence.
Qed.

Definition idmask (xs : list N) (o : order) : list bool :=
  map (fun nf => existsb (N.eqb (fst nf)) xs) o.

Lemma map_ext_in' {A B} (f g : A -> B) l : (forall x, In x l -> f x = g x) -> map f l = map g l.
Proof. apply map_ext_in. Qed.

Lemma idmask_bulk n o :
  NoDup (ids o) -> idmask (ids_named (lower n) o) o = mask_all n (map snd o).
Proof.
  intros Hn. unfold idmask, mask_all. rewrite map_map. apply map_ext_in.
  intros nf Hin. rewrite (mem_ids_named _ o nf Hn Hin). destruct nf. reflexivity.
Qed.

Lemma idmask_single n o : forall j x,
  NoDup (ids o) -> nth_error (ids_named (lower n) o) j = Some x ->
  idmask [x] o = mask_nth n j (map snd o).
Proof.
  induction o as [|[i f] o IH]; intros j x Hn Hj; [now destruct j|].
  inversion Hn as [|? ? Hi Hn']; subst.
  assert (Hfalse : forall y, In y (ids o) -> y <> i) by (intros y Hy ->; contradiction).
  unfold ids_named in Hj. cbn [filter] in Hj. unfold named at 1 in Hj. cbn [snd] in Hj.
  cbn [map snd mask_nth idmask fst existsb]. rewrite (has_name_named n i f). unfold named. cbn [snd].
  fold (idmask [x] o).
  destruct (str_eqb (lname f) (lower n)) eqn:E.
  - cbn [map fst] in Hj. destruct j as [|j].
    + cbn in Hj. injection Hj as <-. rewrite N.eqb_refl. cbn [orb]. f_equal.
      unfold idmask. rewrite map_map. apply map_ext_in. intros nf Hin. cbn.
      rewrite orb_false_r. apply N.eqb_neq. apply Hfalse. now apply in_ids.
    + cbn in Hj. assert (Hx : x <> i).
      { apply Hfalse. apply (ids_named_incl (lower n)). unfold ids_named. eapply nth_error_In. exact Hj. }
      apply N.eqb_neq in Hx. rewrite N.eqb_sym in Hx. rewrite Hx. cbn [orb]. f_equal.
      now apply IH.
  - assert (Hx : x <> i).
    { apply Hfalse. apply (ids_named_incl (lower n)). unfold ids_named. eapply nth_error_In. exact Hj. }
    apply N.eqb_neq in Hx. rewrite N.eqb_sym in Hx. rewrite Hx. cbn [orb]. f_equal.
    now apply IH.
Qed.

Lemma occ_count_ids n o : occ_count n (map snd o) = length (ids_named (lower n) o).
Proof.
  unfold occ_count, ids_named. rewrite map_length.
  induction o as [|[i f] o IH]; cbn; [reflexivity|].
  rewrite (has_name_named n i f). destruct (named (lower n) (i, f)); cbn; now rewrite IH.
Qed.

(** * _nodes_being_relocated in a consistent state *)

Lemma py_index_spec {A} (l : list A) i :
  py_index l i =
  let j := if (i <? 0)%Z then (i + Z.of_nat (length l))%Z else i in
  if (j <? 0)%Z || (Z.of_nat (length l) <=? j)%Z then None else nth_error l (Z.to_nat j).
Proof. reflexivity. Qed.

Lemma py_index_In {A} (l : list A) i x : py_index l i = Some x -> In x l.
Proof.
  rewrite py_index_spec. cbn zeta. destruct (_ || _); [discriminate|]. apply nth_error_In.
Qed.

Lemma lookup_named d k :
  WfD d -> assoc_get k (d_byname d) = nonempty_opt (ids_named k (d_order d)).
Proof. intros H. apply (wf_by d H). Qed.

Lemma nonempty_opt_some {A} (l l' : list A) : nonempty_opt l = Some l' -> l' = l /\ l <> [].
Proof. destruct l; cbn; [discriminate|]. intros [= <-]. split; [reflexivity|discriminate]. Qed.

Lemma nonempty_opt_none {A} (l : list A) : nonempty_opt l = None -> l = [].
Proof. destruct l; cbn; [reflexivity|discriminate]. Qed.

(** the reference's selection is the model's relocation *)
Lemma relocated_select d k :
  WfD d ->
  let fs := map snd (d_order d) in
  match relocated d k with
  | Ok (key, nodes, reloc) =>
      key = lower (fst (key_parts k))
      /\ nodes = ids_named key (d_order d) /\ nodes <> []
      /\ assoc_get key (d_byname d) = Some nodes
      /\ (match snd (key_parts k) with
          | None => reloc = nodes
          | Some i => exists x, py_index nodes i = Some x /\ reloc = [x]
          end)
      /\ exists neg, select_key WAll k fs = Some (idmask reloc (d_order d), neg)
  | Err e => select_key WAll k fs = None /\ e = KeyError
  end.
Proof.
  intros Hwf. cbn zeta. unfold relocated, select_key.
  destruct k as [n|n i]; cbn [unpack_key bind key_parts fst snd].
  - rewrite (lookup_named d (lower n) Hwf).
    destruct (nonempty_opt (ids_named (lower n) (d_order d))) as [nodes|] eqn:E.
    + destruct (nonempty_opt_some _ _ E) as [-> Hne].
      repeat split; try assumption; try reflexivity.
      * now rewrite (lookup_named d (lower n) Hwf).
      * exists false. unfold select. rewrite occ_count_ids.
        destruct (ids_named (lower n) (d_order d)) eqn:En; [congruence|]. cbn [length].
        rewrite <- En. now rewrite (idmask_bulk n _ (wf_ids d Hwf)).
    + apply nonempty_opt_none in E. split; [|reflexivity].
      unfold select. now rewrite occ_count_ids, E.
  - rewrite (lookup_named d (lower n) Hwf).
    destruct (nonempty_opt (ids_named (lower n) (d_order d))) as [nodes|] eqn:E.
    + destruct (nonempty_opt_some _ _ E) as [-> Hne].
      unfold resolve_single. rewrite py_index_spec. cbn zeta.
      unfold select. rewrite occ_count_ids.
      set (c := length (ids_named (lower n) (d_order d))).
      set (j := if (i <? 0)%Z then (i + Z.of_nat c)%Z else i).
      destruct ((j <? 0)%Z || (Z.of_nat c <=? j)%Z) eqn:Eb.
      * split; reflexivity.
      * destruct (nth_error (ids_named (lower n) (d_order d)) (Z.to_nat j)) as [x|] eqn:Ex.
        -- repeat split; try assumption; try reflexivity.
           ++ now rewrite (lookup_named d (lower n) Hwf).
           ++ exists x. split; [|reflexivity]. rewrite py_index_spec. cbn zeta. fold c. fold j.
              now rewrite Eb.
           ++ exists (i <? 0)%Z. now rewrite (idmask_single n _ _ x (wf_ids d Hwf) Ex).
        -- exfalso. apply nth_error_None in Ex. fold c in Ex.
           apply orb_false_iff in Eb as [E1 E2]. apply Z.ltb_ge in E1. apply Z.leb_gt in E2. lia.
    + apply nonempty_opt_none in E. split; [|reflexivity].
      unfold select. rewrite occ_count_ids, E. cbn [length].
      destruct (i <? 0)%Z eqn:Ei.
      * apply Z.ltb_lt in Ei. assert (H : ((i + Z.of_nat 0 <? 0)%Z || (Z.of_nat 0 <=? i + Z.of_nat 0)%Z) = true).
        { apply orb_true_iff. left. apply Z.ltb_lt. lia. }
        now rewrite H.
      * apply Z.ltb_ge in Ei. assert (H : ((i <? 0)%Z || (Z.of_nat 0 <=? i)%Z) = true).
        { apply orb_true_iff. right. apply Z.leb_le. lia. }
        now rewrite H.
Qed.
