(** Proofs about the field-level document model Repro/Doc.v (C05).

    Part 1: lists, texts, the document level (an edit of paragraph [j] touches nothing outside
            that paragraph).
    Part 2: what the text of a newly built field looks like (name spelling, colon, final
            newline, comment).
    Part 3: the two paragraph classes: which field a key denotes, what set / remove do to the
            field list (the duplicate-fields class rests on Repro/DocDup.v).
    Part 4: the edit operations set_field_from_raw_string / set_field_to_simple_value /
            __setitem__ / __delitem__ at paragraph level.
    Part 5: documents: every successful operation is local; byte-level statements.
    Part 6: line structure (only the very end of the document may lack its newline).
    Part 7: histories; reading the edited object.
    Part 8: values: adding the missing final newline does not change a value; other fields read
            as before.
    Part 9: the value the dict interface stores reads back as the Spec's [expected_read].
    Part 10: re-reading the text of a paragraph ([scan_para]) gives its fields back; every
            operation keeps fields well-formed. *)
From Coq Require Import Lia ZifyBool.
From Verif Require Import Repro.DocSpec.
From Verif Require Import Lib.Base Lib.PyStr Gen.PyChars Repro.Doc Repro.DocInv Repro.DocDup.

(** * Part 1 : helpers *)

Lemma is_nil_true {A} (l : list A) : is_nil l = true -> l = [].
Proof. destruct l; [reflexivity|discriminate]. Qed.

Lemma bind_ok {A B} (r : result A) (f : A -> result B) b :
  bind r f = Ok b -> exists a, r = Ok a /\ f a = Ok b.
Proof. destruct r as [a|e]; simpl; [eauto|discriminate]. Qed.

Ltac bind_inv H :=
  let a := fresh "x" in let H1 := fresh H "a" in let H2 := fresh H "b" in
  apply bind_ok in H; destruct H as [a [H1 H2]].

(** ** [ends_nl] *)

Lemma last_opt_app {A} (a : list A) x : last_opt (a ++ [x]) = Some x.
Proof.
  induction a as [|y a IH]; [reflexivity|].
  cbn [app last_opt]. destruct (a ++ [x]) eqn:E; [destruct a; discriminate|exact IH].
Qed.

Lemma last_opt_app2 {A} (a b : list A) : b <> [] -> last_opt (a ++ b) = last_opt b.
Proof.
  intros Hb. induction a as [|y a IH]; [reflexivity|].
  cbn [app last_opt]. destruct (a ++ b) eqn:E; [|exact IH].
  destruct a; destruct b; try discriminate; congruence.
Qed.

Lemma ends_nl_app a b : b <> [] -> ends_nl (a ++ b) = ends_nl b.
Proof. intros Hb. unfold ends_nl. now rewrite last_opt_app2. Qed.

Lemma ends_nl_app_lf a : ends_nl (a ++ [LF]) = true.
Proof. unfold ends_nl. rewrite last_opt_app. apply N.eqb_refl. Qed.

Lemma ends_nl_nonempty s : ends_nl s = true -> s <> [].
Proof. destruct s; [discriminate|discriminate]. Qed.

Lemma ends_nl_app_r a b : ends_nl b = true -> ends_nl (a ++ b) = true.
Proof. intros H. rewrite ends_nl_app; [exact H|now apply ends_nl_nonempty]. Qed.

Lemma ends_nl_split s : ends_nl s = true -> exists s0, s = s0 ++ [LF].
Proof.
  intros H. destruct (@exists_last _ s (ends_nl_nonempty _ H)) as [s0 [c ->]].
  unfold ends_nl in H. rewrite last_opt_app in H. apply N.eqb_eq in H. subst c. now exists s0.
Qed.

Lemma closed_app a b : closed a = true -> closed b = true -> closed (a ++ b) = true.
Proof.
  unfold closed. intros Ha Hb. destruct b as [|c b].
  - now rewrite app_nil_r.
  - simpl in Hb. rewrite ends_nl_app by discriminate. rewrite Hb. apply orb_true_r.
Qed.

Lemma closed_concat ls : forallb closed ls = true -> closed (concat ls) = true.
Proof.
  induction ls as [|l ls IH]; [reflexivity|]. simpl. intros H.
  apply andb_true_iff in H. destruct H as [H1 H2]. apply closed_app; auto.
Qed.

Lemma ends_nl_closed s : ends_nl s = true -> closed s = true.
Proof. unfold closed. intros ->. apply orb_true_r. Qed.

(** ** texts of field lists *)

Definition ftext (fs : list field) : str := concat (map field_text fs).

Lemma ftext_app a b : ftext (a ++ b) = ftext a ++ ftext b.
Proof. unfold ftext. now rewrite map_app, concat_app. Qed.

Lemma ftext_cons f fs : ftext (f :: fs) = field_text f ++ ftext fs.
Proof. reflexivity. Qed.

Lemma para_text_ftext p : para_text p = ftext (para_fields p).
Proof. reflexivity. Qed.

(** [_ensure_final_newline]: the only bytes it can add are one LF at the very end *)
Definition nl_suffix (s : str) : str := if closed s then [] else [LF].

Lemma field_text_add_nl f :
  field_text (add_nl f) = field_text f ++ (if ends_nl (f_rest f) then [] else [LF]).
Proof.
  unfold add_nl, field_text. destruct (ends_nl (f_rest f)); simpl.
  - now rewrite app_nil_r.
  - now rewrite !app_assoc.
Qed.

Lemma rest_colon_nonempty f : rest_colon f = true -> f_rest f <> [].
Proof. unfold rest_colon. destruct (f_rest f); [discriminate|discriminate]. Qed.

Lemma ends_nl_field_text f :
  f_rest f <> [] -> ends_nl (field_text f) = ends_nl (f_rest f).
Proof.
  intros H. unfold field_text. rewrite app_assoc. now apply ends_nl_app.
Qed.

Lemma closed_nonempty s : s <> [] -> closed s = ends_nl s.
Proof. destruct s; [congruence|reflexivity]. Qed.

Lemma field_text_nonempty f : rest_colon f = true -> field_text f <> [].
Proof.
  intros H. apply rest_colon_nonempty in H. unfold field_text.
  destruct (f_comment f), (f_name f), (f_rest f); simpl; congruence.
Qed.

Lemma ftext_one f : ftext [f] = field_text f.
Proof. unfold ftext. simpl. apply app_nil_r. Qed.

Lemma ftext_map_last_add_nl fs :
  forallb rest_colon fs = true ->
  ftext (map_last add_nl fs) = ftext fs ++ nl_suffix (ftext fs).
Proof.
  induction fs as [|f fs IH]; intros Hc; [reflexivity|].
  cbn [forallb] in Hc. apply andb_true_iff in Hc. destruct Hc as [Hf Hc].
  destruct fs as [|g fs].
  - cbn [map_last]. rewrite !ftext_one, field_text_add_nl. f_equal.
    unfold nl_suffix. rewrite closed_nonempty by now apply field_text_nonempty.
    rewrite ends_nl_field_text by now apply rest_colon_nonempty. reflexivity.
  - change (map_last add_nl (f :: g :: fs)) with (f :: map_last add_nl (g :: fs)).
    rewrite ftext_cons, IH by exact Hc. rewrite (ftext_cons f), <- app_assoc. f_equal. f_equal.
    assert (Hne : ftext (g :: fs) <> []).
    { cbn [forallb] in Hc. apply andb_true_iff in Hc. destruct Hc as [Hg _].
      rewrite ftext_cons. apply field_text_nonempty in Hg.
      destruct (field_text g); [congruence|discriminate]. }
    assert (Hne2 : field_text f ++ ftext (g :: fs) <> []).
    { destruct (field_text f); simpl; [exact Hne|discriminate]. }
    unfold nl_suffix. rewrite (closed_nonempty _ Hne), (closed_nonempty _ Hne2).
    now rewrite ends_nl_app.
Qed.

(** ** the document level *)

Lemma dump_app a b : dump (a ++ b) = dump a ++ dump b.
Proof. unfold dump. now rewrite map_app, concat_app. Qed.

Lemma dump_cons it d : dump (it :: d) = item_text it ++ dump d.
Proof. reflexivity. Qed.

(** the [j]-th paragraph and the items before and after it *)
Fixpoint split_doc (d : doc) (j : nat) : option (doc * para * doc) :=
  match d with
  | [] => None
  | Para p :: d' =>
      match j with
      | O => Some ([], p, d')
      | S j' => match split_doc d' j' with
                | Some (a, x, b) => Some (Para p :: a, x, b)
                | None => None
                end
      end
  | it :: d' => match split_doc d' j with
                | Some (a, x, b) => Some (it :: a, x, b)
                | None => None
                end
  end.

Lemma split_doc_eq d : forall j a p b, split_doc d j = Some (a, p, b) -> d = a ++ Para p :: b.
Proof.
  induction d as [|it d IH]; intros j a p b H; [discriminate|].
  destruct it as [q|k t].
  - destruct j as [|j].
    + injection H as <- <- <-. reflexivity.
    + cbn [split_doc] in H. destruct (split_doc d j) as [[[a' x] b']|] eqn:E; [|discriminate].
      injection H as <- <- <-. simpl. f_equal. eapply IH; eassumption.
  - cbn [split_doc] in H. destruct (split_doc d j) as [[[a' x] b']|] eqn:E; [|discriminate].
    injection H as <- <- <-. simpl. f_equal. eapply IH; eassumption.
Qed.

(** number of paragraphs among the items *)
Definition n_paras (d : doc) : nat := length (paras d).

Lemma split_doc_index d : forall j a p b,
  split_doc d j = Some (a, p, b) -> n_paras a = j.
Proof.
  induction d as [|it d IH]; intros j a p b H; [discriminate|].
  destruct it as [q|k t].
  - destruct j as [|j].
    + injection H as <- <- <-. reflexivity.
    + cbn [split_doc] in H. destruct (split_doc d j) as [[[a' x] b']|] eqn:E; [|discriminate].
      injection H as <- <- <-. unfold n_paras. simpl. f_equal. eapply IH; eassumption.
  - cbn [split_doc] in H. destruct (split_doc d j) as [[[a' x] b']|] eqn:E; [|discriminate].
    injection H as <- <- <-. unfold n_paras. simpl. eapply IH; eassumption.
Qed.

Lemma split_doc_app a p b : split_doc (a ++ Para p :: b) (n_paras a) = Some (a, p, b).
Proof.
  induction a as [|it a IH]; [reflexivity|].
  destruct it as [q|k t].
  - unfold n_paras in *. cbn [app paras flat_map length split_doc]. simpl length.
    cbn [split_doc]. unfold paras in IH. rewrite IH. reflexivity.
  - unfold n_paras in *. cbn [app paras flat_map length split_doc]. simpl.
    unfold paras in IH. rewrite IH. reflexivity.
Qed.

(** [update_para] is: split, edit the paragraph, put it back *)
Lemma update_para_split d f : forall j,
  update_para d j f =
  match split_doc d j with
  | Some (a, p, b) => do p' <- f p; Ok (a ++ Para p' :: b)
  | None => Err IndexError
  end.
Proof.
  induction d as [|it d IH]; intros j; [reflexivity|].
  destruct it as [q|k t].
  - destruct j as [|j].
    + reflexivity.
    + cbn [update_para split_doc]. rewrite IH.
      destruct (split_doc d j) as [[[a x] b]|]; [|reflexivity].
      destruct (f x); reflexivity.
  - cbn [update_para split_doc]. rewrite IH.
    destruct (split_doc d j) as [[[a x] b]|]; [|reflexivity].
    destruct (f x); reflexivity.
Qed.

Lemma update_para_ok d j f d' :
  update_para d j f = Ok d' ->
  exists a p b p', split_doc d j = Some (a, p, b) /\ f p = Ok p' /\ d' = a ++ Para p' :: b.
Proof.
  rewrite update_para_split. destruct (split_doc d j) as [[[a p] b]|]; [|discriminate].
  intros H. bind_inv H. injection Hb as <-. now exists a, p, b, x.
Qed.

Lemma dump_split a p b : dump (a ++ Para p :: b) = dump a ++ ftext (para_fields p) ++ dump b.
Proof. now rewrite dump_app, dump_cons. Qed.

(** every operation is an [update_para] *)
Definition op_para (o : op) : nat :=
  match o with OSet j _ _ | ODel j _ | OSimple j _ _ _ _ | ORaw j _ _ _ _ => j end.

Definition op_on_para (o : op) (p : para) : result para :=
  match o with
  | OSet _ k v => setitem p k v
  | ODel _ k => p_remove p k
  | OSimple _ k v pres fc => set_simple p k v pres (fc_of fc)
  | ORaw _ k v pres fc => set_raw p k v pres (fc_of fc)
  end.

Lemma run_op_update d o : run_op d o = update_para d (op_para o) (op_on_para o).
Proof. destruct o; reflexivity. Qed.

Lemma run_op_ok d o d' :
  run_op d o = Ok d' ->
  exists a p b p', split_doc d (op_para o) = Some (a, p, b)
                   /\ op_on_para o p = Ok p' /\ d' = a ++ Para p' :: b.
Proof. rewrite run_op_update. apply update_para_ok. Qed.

(** * Part 2 : the text of a newly built field *)

Lemma name_eqb_eq a b : name_eqb a b = true <-> lower a = lower b.
Proof. unfold name_eqb. apply str_eqb_eq. Qed.

Lemma name_eqb_refl a : name_eqb a a = true.
Proof. now apply name_eqb_eq. Qed.

Lemma name_eqb_sym a b : name_eqb a b = name_eqb b a.
Proof.
  destruct (name_eqb a b) eqn:E1, (name_eqb b a) eqn:E2; try reflexivity.
  - apply name_eqb_eq in E1. symmetry in E1. apply name_eqb_eq in E1. congruence.
  - apply name_eqb_eq in E2. symmetry in E2. apply name_eqb_eq in E2. congruence.
Qed.

Lemma name_eqb_length a b : name_eqb a b = true -> length a = length b.
Proof.
  intros H. apply name_eqb_eq in H. unfold lower, ascii_lower in H.
  rewrite <- (map_length ascii_lower_char a), <- (map_length ascii_lower_char b). now rewrite H.
Qed.

Lemma has_name_cong a b f : name_eqb a b = true -> has_name a f = has_name b f.
Proof. intros H. apply name_eqb_eq in H. unfold has_name, name_eqb. now rewrite H. Qed.

Lemma first_colon X : forall Z Y W,
  forallb (fun c => negb (c =? COLON)%N) X = true ->
  X ++ COLON :: Y = Z ++ COLON :: W ->
  length X <= length Z /\ (length X = length Z -> X = Z /\ Y = W).
Proof.
  induction X as [|x X IH]; intros Z Y W Hx E.
  - destruct Z as [|z Z]; simpl in *.
    + split; [lia|]. intros _. injection E as ->. now split.
    + split; [lia|]. discriminate.
  - cbn [forallb] in Hx. apply andb_true_iff in Hx. destruct Hx as [Hx1 Hx2].
    destruct Z as [|z Z]; simpl in E.
    + injection E as -> _. now rewrite N.eqb_refl in Hx1.
    + injection E as -> E. destruct (IH _ _ _ Hx2 E) as [H1 H2]. simpl. split; [lia|].
      intros Hl. injection Hl as Hl. destruct (H2 Hl) as [-> ->]. now split.
Qed.

Lemma name_char_not_colon c : name_char c = true -> negb (c =? COLON)%N = true.
Proof.
  intros H. destruct (N.eqb_spec c COLON) as [->|]; [discriminate H|reflexivity].
Qed.

Lemma match_field_line_some l n r :
  match_field_line l = Some (n, r) ->
  l = n ++ r /\ forallb name_char n = true /\ exists r', r = COLON :: r'.
Proof.
  unfold match_field_line. destruct l as [|c l0]; [discriminate|].
  destruct (name_first c); [|discriminate].
  pose proof (span_app name_char (c :: l0)) as Happ.
  pose proof (span_all name_char (c :: l0)) as Hall.
  destruct (span name_char (c :: l0)) as [n0 r0]. cbn [fst snd] in *.
  destruct r0 as [|c' r0]; [discriminate|].
  destruct (N.eqb_spec c' COLON) as [->|]; [|discriminate].
  intros [= <- <-]. split; [now symmetry|]. split; [exact Hall|now exists r0].
Qed.

Lemma name_first_char c : name_first c = true -> name_char c = true.
Proof. unfold name_first, name_char. intros H. lia. Qed.

Lemma match_field_line_name_ok l n r : match_field_line l = Some (n, r) -> name_ok n = true.
Proof.
  unfold match_field_line. destruct l as [|c l0]; [discriminate|].
  destruct (name_first c) eqn:Hc; [|discriminate].
  pose proof (span_all name_char (c :: l0)) as Hall.
  destruct (span name_char (c :: l0)) as [n0 r0] eqn:Es. cbn [fst] in Hall.
  destruct r0 as [|c' r0]; [discriminate|]. destruct (c' =? COLON)%N; [|discriminate].
  intros [= <- <-]. cbn [span] in Es. rewrite (name_first_char c Hc) in Es.
  destruct (span name_char l0) as [a b]. injection Es as <- _. unfold name_ok.
  now rewrite Hc.
Qed.

Lemma classify_field b l n r : classify b l = LField n r -> match_field_line l = Some (n, r).
Proof.
  unfold classify. destruct (is_ws_line l); [discriminate|].
  destruct l as [|c l0]; [discriminate|].
  destruct (c =? HASH)%N; [discriminate|].
  destruct ((c =? SP)%N || (c =? TAB)%N); [destruct b; discriminate|].
  destruct (match_field_line (c :: l0)) as [[n0 r0]|]; [|discriminate].
  now intros [= -> ->].
Qed.

(** a line that starts like a continuation or comment line *)
Definition cont_start (l : str) : bool :=
  match l with c :: _ => (c =? SP)%N || (c =? TAB)%N || (c =? HASH)%N | [] => false end.

Lemma classify_cont_start l :
  cont_start l = true ->
  classify false l = LWs \/ classify false l = LComment \/ classify false l = LError.
Proof.
  unfold classify. destruct (is_ws_line l); [now left|].
  destruct l as [|c l0]; [discriminate|]. unfold cont_start.
  destruct (c =? HASH)%N; [now (right; left)|]. rewrite orb_false_r.
  intros ->. now (right; right).
Qed.

Lemma scan_head_no_field ls : forall pend f,
  forallb cont_start ls = true -> scan_head ls pend <> Ok (Some f).
Proof.
  induction ls as [|l ls IH]; intros pend f H; [discriminate|].
  cbn [forallb] in H. apply andb_true_iff in H. destruct H as [Hl Hls].
  cbn [scan_head]. destruct (classify_cont_start l Hl) as [E|[E|E]]; rewrite E.
  - now apply IH.
  - now apply IH.
  - discriminate.
Qed.

Lemma classify_comment c : starts_hash c = true -> classify false c = LComment.
Proof.
  destruct c as [|h c]; [discriminate|]. unfold starts_hash. intros H.
  apply N.eqb_eq in H. subst h. reflexivity.
Qed.

Lemma scan_head_comments cs : forall ls pend,
  forallb starts_hash cs = true ->
  scan_head (cs ++ ls) pend = scan_head ls (pend ++ concat cs).
Proof.
  induction cs as [|c cs IH]; intros ls pend H.
  - simpl. now rewrite app_nil_r.
  - cbn [forallb] in H. apply andb_true_iff in H. destruct H as [Hc Hcs].
    cbn [app scan_head]. rewrite (classify_comment c Hc), IH by exact Hcs.
    cbn [concat]. now rewrite app_assoc.
Qed.

Lemma scan_head_first first others pend f :
  forallb cont_start others = true ->
  scan_head (first :: others) pend = Ok (Some f) ->
  exists n r rest, classify false first = LField n r
                   /\ scan_body others [] r = Ok rest /\ f = mkF pend n rest.
Proof.
  intros Ho. cbn [scan_head]. destruct (classify false first) as [| | |n r|] eqn:E.
  - intros H. now apply scan_head_no_field in H.
  - intros H. now apply scan_head_no_field in H.
  - discriminate.
  - intros H. bind_inv H. injection Hb as <-. now exists n, r, x.
  - discriminate.
Qed.

Lemma scan_body_shape ls : forall pend acc rest,
  forallb ends_nl ls = true ->
  scan_body ls pend acc = Ok rest ->
  exists x, rest = acc ++ x /\ (x = [] \/ ends_nl x = true).
Proof.
  induction ls as [|l ls IH]; intros pend acc rest Hnl H.
  - injection H as <-. exists []. rewrite app_nil_r. now split; [|left].
  - cbn [forallb] in Hnl. apply andb_true_iff in Hnl. destruct Hnl as [Hl Hls].
    cbn [scan_body] in H. destruct (classify true l).
    + bind_inv H. injection Hb as <-. exists []. rewrite app_nil_r. now split; [|left].
    + now apply (IH _ _ _ Hls) in H.
    + apply (IH _ _ _ Hls) in H. destruct H as [x [-> Hx]].
      exists (pend ++ l ++ x). split; [now rewrite <- !app_assoc|]. right.
      apply ends_nl_app_r. destruct Hx as [->|Hx].
      * now rewrite app_nil_r.
      * now apply ends_nl_app_r.
    + discriminate.
    + discriminate.
Qed.

Lemma check_raw_lines_ok ls : forall first,
  check_raw_lines first ls = Ok tt ->
  forallb ends_nl ls = true /\ forallb cont_start (if first then tl ls else ls) = true.
Proof.
  induction ls as [|l ls IH]; intros first H.
  - destruct first; now split.
  - cbn [check_raw_lines] in H. destruct (ends_nl l) eqn:El; [|discriminate]. cbn [negb] in H.
    destruct first.
    + cbn [negb andb] in H. destruct (IH _ H) as [H1 H2]. cbn [forallb tl]. rewrite El. now split.
    + cbn [negb andb] in H.
      destruct l as [|c l0]; [discriminate|].
      destruct ((c =? SP)%N || (c =? TAB)%N || (c =? HASH)%N) eqn:Ec; [|discriminate].
      cbn [negb] in H. destruct (IH _ H) as [H1 H2]. cbn [forallb cont_start].
      rewrite El, Ec. now split.
Qed.

Lemma validate_raw_lines_ok ls :
  validate_raw_lines ls = Ok tt ->
  forallb ends_nl ls = true /\ forallb cont_start (tl ls) = true.
Proof.
  unfold validate_raw_lines. intros H. bind_inv H. destruct x. now apply check_raw_lines_ok in Ha.
Qed.

Lemma forallb_ends_nl_closed ls : forallb ends_nl ls = true -> closed (concat ls) = true.
Proof.
  intros H. apply closed_concat. rewrite forallb_forall in *. intros x Hx.
  apply ends_nl_closed. now apply H.
Qed.

(** what [parse_new_field] returns for the lines [set_field_from_raw_string] builds *)
Lemma parse_new_field_shape comments raw fname cased v :
  forallb starts_hash comments = true ->
  validate_raw_lines (splitlines py_islinebreak true (cased ++ [COLON] ++ raw)) = Ok tt ->
  length cased = length fname ->
  parse_new_field (comments ++ splitlines py_islinebreak true (cased ++ [COLON] ++ raw)) fname = Ok v ->
  f_name v = cased /\ forallb name_char cased = true
  /\ (name_ok cased = true /\ forallb ends_nl comments = true)
  /\ f_comment v = concat comments /\ closed (f_comment v) = true
  /\ rest_colon v = true /\ ends_nl (f_rest v) = true
  /\ exists first others r',
       splitlines py_islinebreak true (cased ++ [COLON] ++ raw) = first :: others
       /\ first = cased ++ COLON :: r' /\ scan_body others [] (COLON :: r') = Ok (f_rest v).
Proof.
  intros Hcs Hval Hlen H.
  pose proof (splitlines_keepends_concat py_islinebreak (cased ++ [COLON] ++ raw)) as Hcat.
  set (rl := splitlines py_islinebreak true (cased ++ [COLON] ++ raw)) in *.
  destruct (validate_raw_lines_ok _ Hval) as [Hnl Hcont].
  unfold parse_new_field in H.
  destruct (forallb ends_nl (comments ++ rl)) eqn:Hall; [|discriminate]. cbn [negb] in H.
  bind_inv H. rewrite scan_head_comments in Ha by exact Hcs. cbn [app] in Ha.
  destruct x as [f|]; [|discriminate].
  destruct (name_eqb (f_name f) fname) eqn:Hname; [|discriminate]. injection Hb as <-.
  destruct rl as [|first others]; [discriminate|]. cbn [tl] in Hcont.
  destruct (scan_head_first _ _ _ _ Hcont Ha) as [n [r [rest [Hcl [Hbody ->]]]]].
  pose proof Hcl as Hcl0.
  apply classify_field, match_field_line_some in Hcl. destruct Hcl as [Hfirst [Hn [r' ->]]].
  cbn [f_name f_comment f_rest] in *.
  cbn [forallb] in Hnl. apply andb_true_iff in Hnl. destruct Hnl as [Hfnl Honl].
  (* the name *)
  assert (Hname_eq : n = cased).
  { cbn [concat] in Hcat. rewrite Hfirst, <- app_assoc in Hcat. cbn [app] in Hcat.
    assert (Hnc : forallb (fun c => negb (c =? COLON)%N) n = true).
    { rewrite forallb_forall in *. intros c Hc. apply name_char_not_colon. now apply Hn. }
    change (cased ++ [COLON] ++ raw) with (cased ++ COLON :: raw) in Hcat.
    destruct (first_colon _ _ _ _ Hnc Hcat) as [_ H2].
    apply name_eqb_length in Hname. apply H2. congruence. }
  split; [exact Hname_eq|]. split; [now rewrite <- Hname_eq|].
  split.
  { split.
    - rewrite <- Hname_eq. eapply match_field_line_name_ok. eapply classify_field. exact Hcl0.
    - rewrite forallb_app in Hall. apply andb_true_iff in Hall. now destruct Hall. }
  split; [reflexivity|].
  split.
  { rewrite forallb_app in Hall. apply andb_true_iff in Hall. destruct Hall as [Hc _].
    now apply forallb_ends_nl_closed. }
  destruct (scan_body_shape _ _ _ _ Honl Hbody) as [x [Hrest Hx]].
  split; [now rewrite Hrest|].
  assert (Hr : ends_nl (COLON :: r') = true).
  { rewrite Hfirst in Hfnl. now rewrite ends_nl_app in Hfnl by discriminate. }
  split.
  { rewrite Hrest. destruct Hx as [->|Hx]; [now rewrite app_nil_r|now apply ends_nl_app_r]. }
  exists first, others, r'. subst n. now repeat split.
Qed.

Lemma format_comment_hash c c' : format_comment c = Ok c' -> starts_hash c' = true.
Proof.
  unfold format_comment. destruct (is_nil c); [now intros [= <-]|].
  destruct (mem_char LF (removelast c)); [discriminate|].
  set (c1 := if ends_nl c then c else py_rstrip c ++ [LF]).
  destruct c1 as [|x c1]; [now intros [= <-]|].
  destruct (x =? HASH)%N eqn:E; intros [= <-]; [exact E|reflexivity].
Qed.

Lemma map_result_format_comment l cs :
  map_result format_comment l = Ok cs -> forallb starts_hash cs = true.
Proof.
  revert cs. induction l as [|c l IH]; intros cs H.
  - now injection H as <-.
  - cbn [map_result] in H. bind_inv H. bind_inv Hb. injection Hbb as <-.
    cbn [forallb]. rewrite (format_comment_hash _ _ Ha). now apply IH.
Qed.

Lemma set_comment_ok v c v' :
  set_comment v c = Ok v' ->
  v' = mkF c (f_name v) (f_rest v) /\ closed c = true.
Proof.
  unfold set_comment, closed. destruct (is_nil c) eqn:E.
  - apply is_nil_true in E. subst c. now intros [= <-].
  - destruct (ends_nl c); [|discriminate]. now intros [= <-].
Qed.

(** * Part 3 : paragraphs *)

Definition absent (n : str) (fs : list field) : bool :=
  forallb (fun f => negb (has_name n f)) fs.

Lemma forallb_ext {A} (p q : A -> bool) l : (forall a, p a = q a) -> forallb p l = forallb q l.
Proof. intros H. induction l as [|a l IH]; [reflexivity|]. cbn [forallb]. now rewrite H, IH. Qed.

Lemma forallb_map {A B} (g : A -> B) (q : B -> bool) l :
  forallb q (map g l) = forallb (fun a => q (g a)) l.
Proof. induction l as [|a l IH]; [reflexivity|]. cbn [map forallb]. now rewrite IH. Qed.

Lemma absent_cong a b fs : name_eqb a b = true -> absent a fs = absent b fs.
Proof.
  intros H. unfold absent. apply forallb_ext. intros f. now rewrite (has_name_cong _ _ f H).
Qed.

Lemma absent_app n a b : absent n (a ++ b) = absent n a && absent n b.
Proof. apply forallb_app. Qed.

Lemma find_some_split {A} (p : A -> bool) l x :
  List.find p l = Some x ->
  exists l1 l2, l = l1 ++ x :: l2 /\ forallb (fun a => negb (p a)) l1 = true /\ p x = true.
Proof.
  induction l as [|a l IH]; [discriminate|]. cbn [List.find].
  destruct (p a) eqn:E.
  - intros [= <-]. now exists [], l.
  - intros H. destruct (IH H) as [l1 [l2 [-> [H1 H2]]]].
    exists (a :: l1), l2. cbn [forallb]. rewrite E. now split.
Qed.

Lemma find_none_forallb {A} (p : A -> bool) l :
  List.find p l = None -> forallb (fun a => negb (p a)) l = true.
Proof.
  induction l as [|a l IH]; [reflexivity|]. cbn [List.find forallb].
  destruct (p a); [discriminate|]. exact IH.
Qed.

Lemma find_split {A} (p : A -> bool) l1 x l2 :
  forallb (fun a => negb (p a)) l1 = true -> p x = true -> List.find p (l1 ++ x :: l2) = Some x.
Proof.
  induction l1 as [|a l1 IH]; cbn [forallb app List.find]; intros H Hx.
  - now rewrite Hx.
  - apply andb_true_iff in H. destruct H as [Ha H]. apply negb_true_iff in Ha. rewrite Ha. now apply IH.
Qed.

Lemma existsb_neg_forallb {A} (p : A -> bool) l :
  existsb p l = negb (forallb (fun a => negb (p a)) l).
Proof.
  induction l as [|a l IH]; [reflexivity|]. cbn [existsb forallb]. rewrite IH.
  destruct (p a); reflexivity.
Qed.

Lemma replace_first_split {A} (p : A -> bool) v l1 x l2 :
  forallb (fun a => negb (p a)) l1 = true -> p x = true ->
  replace_first p v (l1 ++ x :: l2) = l1 ++ v :: l2.
Proof.
  induction l1 as [|a l1 IH]; cbn [forallb app replace_first]; intros H Hx.
  - now rewrite Hx.
  - apply andb_true_iff in H. destruct H as [Ha H]. apply negb_true_iff in Ha. rewrite Ha.
    f_equal. now apply IH.
Qed.

Lemma remove_first_split {A} (p : A -> bool) l1 x l2 :
  forallb (fun a => negb (p a)) l1 = true -> p x = true ->
  remove_first p (l1 ++ x :: l2) = l1 ++ l2.
Proof.
  induction l1 as [|a l1 IH]; cbn [forallb app remove_first]; intros H Hx.
  - now rewrite Hx.
  - apply andb_true_iff in H. destruct H as [Ha H]. apply negb_true_iff in Ha. rewrite Ha.
    f_equal. now apply IH.
Qed.

(** ** names without duplicates *)

Lemma existsb_lnames n fs :
  existsb (str_eqb (lower n)) (lnames fs) = negb (absent n fs).
Proof.
  unfold absent, lnames. rewrite existsb_neg_forallb. f_equal. rewrite forallb_map.
  apply forallb_ext. intros f. unfold has_name, name_eqb.
  f_equal. destruct (str_eqb (lower n) (lower (f_name f))) eqn:E1, (str_eqb (lower (f_name f)) (lower n)) eqn:E2;
    try reflexivity.
  - apply str_eqb_eq in E1. rewrite E1, str_eqb_refl in E2. discriminate.
  - apply str_eqb_eq in E2. rewrite E2, str_eqb_refl in E1. discriminate.
Qed.

Lemma nodup_names_cons f fs :
  nodup_names (f :: fs) = absent (f_name f) fs && nodup_names fs.
Proof.
  unfold nodup_names. cbn [lnames map nodupb]. fold (lnames fs).
  rewrite existsb_lnames. now rewrite negb_involutive.
Qed.

Lemma nodup_names_split l1 f l2 :
  nodup_names (l1 ++ f :: l2) = true ->
  absent (f_name f) l1 = true /\ absent (f_name f) l2 = true
  /\ nodup_names (l1 ++ l2) = true.
Proof.
  induction l1 as [|g l1 IH]; cbn [app].
  - rewrite nodup_names_cons. intros H. apply andb_true_iff in H. now destruct H.
  - rewrite !nodup_names_cons, !absent_app. cbn [absent forallb]. fold (absent (f_name g) l2).
    intros H. apply andb_true_iff in H. destruct H as [H1 H2].
    apply andb_true_iff in H1. destruct H1 as [H1 H1'].
    apply andb_true_iff in H1'. destruct H1' as [Hgf H1'].
    destruct (IH H2) as [Ha [Hb Hc]].
    cbn [absent forallb]. fold (absent (f_name f) l1).
    assert (Hfg : negb (has_name (f_name f) g) = true).
    { unfold has_name in *. now rewrite name_eqb_sym. }
    rewrite Hfg, Ha, Hb, H1, H1', Hc. now repeat split.
Qed.

Lemma nodup_names_replace l1 f v l2 :
  name_eqb (f_name f) (f_name v) = true ->
  nodup_names (l1 ++ f :: l2) = true -> nodup_names (l1 ++ v :: l2) = true.
Proof.
  intros Hn. unfold nodup_names, lnames. rewrite !map_app. cbn [map].
  apply name_eqb_eq in Hn. now rewrite Hn.
Qed.

Lemma lnames_map_last_add_nl fs : lnames (map_last add_nl fs) = lnames fs.
Proof.
  induction fs as [|f fs IH]; [reflexivity|]. destruct fs as [|g fs].
  - cbn [map_last lnames map]. unfold add_nl. now destruct (ends_nl (f_rest f)).
  - change (map_last add_nl (f :: g :: fs)) with (f :: map_last add_nl (g :: fs)).
    cbn [lnames map]. f_equal. exact IH.
Qed.

Lemma absent_map_last_add_nl n fs : absent n (map_last add_nl fs) = absent n fs.
Proof.
  pose proof (existsb_lnames n fs) as H1. pose proof (existsb_lnames n (map_last add_nl fs)) as H2.
  rewrite lnames_map_last_add_nl, H1 in H2.
  destruct (absent n fs), (absent n (map_last add_nl fs)); simpl in H2; congruence.
Qed.

Lemma nodup_names_append fs v :
  absent (f_name v) fs = true -> nodup_names fs = true ->
  nodup_names (map_last add_nl fs ++ [v]) = true.
Proof.
  intros Ha Hn. unfold nodup_names, lnames. rewrite map_app. fold (lnames (map_last add_nl fs)).
  rewrite lnames_map_last_add_nl. cbn [map].
  revert Ha Hn. unfold nodup_names. induction fs as [|f fs IH]; [reflexivity|].
  cbn [lnames map app nodupb absent forallb]. fold (lnames fs). fold (absent (f_name v) fs).
  intros Ha Hn. apply andb_true_iff in Ha. destruct Ha as [Hf Ha].
  apply andb_true_iff in Hn. destruct Hn as [Hn1 Hn2].
  rewrite IH by assumption. rewrite andb_true_r. rewrite existsb_app. cbn [existsb].
  apply negb_true_iff in Hn1. rewrite Hn1. cbn [orb]. rewrite orb_false_r.
  unfold has_name, name_eqb in Hf. exact Hf.
Qed.

Lemma rest_colon_add_nl f : rest_colon (add_nl f) = rest_colon f.
Proof.
  unfold add_nl, rest_colon. destruct (ends_nl (f_rest f)); [reflexivity|].
  cbn [f_rest]. destruct (f_rest f); reflexivity.
Qed.

Lemma forallb_map_last {A} (q : A -> bool) (g : A -> A) l :
  (forall a, q (g a) = q a) -> forallb q (map_last g l) = forallb q l.
Proof.
  intros Hq. induction l as [|a l IH]; [reflexivity|]. destruct l as [|b l].
  - cbn [map_last forallb]. now rewrite Hq.
  - change (map_last g (a :: b :: l)) with (a :: map_last g (b :: l)).
    cbn [forallb] in *. now rewrite IH.
Qed.

Lemma para_inv_fields p : para_inv p = true -> fields_inv (para_fields p) = true.
Proof.
  destruct p as [fs|d]; cbn [para_inv para_fields]; [auto|]. intros H.
  apply andb_true_iff in H. now destruct H.
Qed.

Lemma para_inv_PD d :
  para_inv (PD d) = true ->
  DWf d /\ nodup_names (map snd (d_order d)) = true /\ forallb rest_colon (map snd (d_order d)) = true.
Proof.
  cbn [para_inv]. intros H. apply andb_true_iff in H. destruct H as [H1 H2].
  apply d_wf_DWf in H1. unfold fields_inv in H2. apply andb_true_iff in H2. now destruct H2.
Qed.

Lemma lname_has_name n f : lname f = lower n <-> has_name n f = true.
Proof. unfold has_name, lname. symmetry. apply name_eqb_eq. Qed.

Lemma ids_with_nil_absent n o : ids_with (lower n) o = [] -> absent n (map snd o) = true.
Proof.
  intros H. apply ids_with_nil_iff in H. unfold absent.
  pose proof (existsb_lnames n (map snd o)) as E. rewrite H in E. unfold absent in E.
  now destruct (forallb (fun f => negb (has_name n f)) (map snd o)).
Qed.

Lemma map_snd_split (o1 : list (N * field)) id f o2 :
  map snd (o1 ++ (id, f) :: o2) = map snd o1 ++ f :: map snd o2.
Proof. now rewrite map_app. Qed.

(** ** which field a key denotes; set, remove *)

Lemma unpack_key_true k nk :
  unpack_key k true = Ok nk -> nk = (key_name k, None).
Proof.
  destruct k as [n|n i]; cbn [unpack_key key_name].
  - now intros [= <-].
  - destruct (i =? 0)%Z; [now intros [= <-]|discriminate].
Qed.

Lemma p_get_some p k f :
  para_inv p = true -> p_get p k true = LOk (Some f) ->
  exists l1 l2, para_fields p = l1 ++ f :: l2
                /\ has_name (key_name k) f = true /\ absent (key_name k) l1 = true.
Proof.
  destruct p as [fs|d]; intros Hinv; cbn [p_get para_fields].
  - unfold nd_get. destruct (unpack_key k true) as [nk|e] eqn:Ek; [|discriminate].
    apply unpack_key_true in Ek. subst nk. cbn [bind fst].
    destruct (List.find (has_name (key_name k)) fs) as [g|] eqn:Ef; [|discriminate].
    intros [= <-]. destruct (find_some_split _ _ _ Ef) as [l1 [l2 [-> [H1 H2]]]].
    now exists l1, l2.
  - destruct (para_inv_PD _ Hinv) as [Hd [Hnd _]]. intros H.
    destruct (d_get_nodup d k true Hd Hnd) as [[_ Hg]|[o1 [id [g [o2 [Ho [Hg [_ Hget]]]]]]]];
      rewrite H in *; [discriminate|].
    destruct (idx_hits k); [|discriminate]. injection Hget as ->.
    exists (map snd o1), (map snd o2). rewrite Ho, map_snd_split.
    apply lname_has_name in Hg. split; [reflexivity|]. split; [exact Hg|].
    apply para_inv_fields in Hinv. cbn [para_fields] in Hinv. rewrite Ho, map_snd_split in Hinv.
    unfold fields_inv in Hinv. apply andb_true_iff in Hinv. destruct Hinv as [Hn _].
    apply nodup_names_split in Hn. destruct Hn as [Hn _]. unfold has_name in Hg.
    now rewrite <- (absent_cong _ _ _ Hg).
Qed.

Lemma p_get_not_amb p k : para_inv p = true -> p_get p k true <> LAmb.
Proof.
  destruct p as [fs|d]; intros Hinv; cbn [p_get].
  - destruct (nd_get fs k true); discriminate.
  - destruct (para_inv_PD _ Hinv) as [Hd [Hnd _]].
    destruct (d_get_nodup d k true Hd Hnd) as [[_ Hg]|[o1 [id [g [o2 [_ [_ [_ Hg]]]]]]]]; rewrite Hg;
      [discriminate|]. destruct (idx_hits k); discriminate.
Qed.

Lemma fields_inv_replace l1 f v l2 :
  fields_inv (l1 ++ f :: l2) = true -> name_eqb (f_name f) (f_name v) = true ->
  rest_colon v = true -> fields_inv (l1 ++ v :: l2) = true.
Proof.
  unfold fields_inv. intros H Hn Hv. apply andb_true_iff in H. destruct H as [Hnd Hrc].
  apply andb_true_iff. split.
  - eapply nodup_names_replace; eassumption.
  - rewrite forallb_app in *. cbn [forallb] in *.
    apply andb_true_iff in Hrc. destruct Hrc as [Hr1 Hr2].
    apply andb_true_iff in Hr2. destruct Hr2 as [_ Hr2]. now rewrite Hr1, Hv, Hr2.
Qed.

Lemma fields_inv_append fs v :
  fields_inv fs = true -> absent (f_name v) fs = true -> rest_colon v = true ->
  fields_inv (map_last add_nl fs ++ [v]) = true.
Proof.
  unfold fields_inv. intros H Ha Hv. apply andb_true_iff in H. destruct H as [Hnd Hrc].
  apply andb_true_iff. split.
  - now apply nodup_names_append.
  - rewrite forallb_app. cbn [forallb]. rewrite Hv.
    rewrite forallb_map_last by apply rest_colon_add_nl. now rewrite Hrc.
Qed.

Lemma fields_inv_remove l1 f l2 :
  fields_inv (l1 ++ f :: l2) = true -> fields_inv (l1 ++ l2) = true.
Proof.
  unfold fields_inv. intros H. apply andb_true_iff in H. destruct H as [Hnd Hrc].
  apply andb_true_iff. split.
  - now apply nodup_names_split in Hnd.
  - rewrite forallb_app in *. cbn [forallb] in Hrc.
    apply andb_true_iff in Hrc. destruct Hrc as [Hr1 Hr2].
    apply andb_true_iff in Hr2. destruct Hr2 as [_ Hr2]. now rewrite Hr1, Hr2.
Qed.

Lemma p_set_kvpair_spec p k v p' :
  para_inv p = true -> rest_colon v = true ->
  p_set_kvpair p k v = Ok p' ->
  name_eqb (key_name k) (f_name v) = true /\ para_inv p' = true /\
  ((exists l1 f l2, p_get p k true = LOk (Some f)
        /\ para_fields p = l1 ++ f :: l2 /\ has_name (key_name k) f = true
        /\ absent (key_name k) l1 = true /\ para_fields p' = l1 ++ v :: l2)
   \/ (p_get p k true = LOk None /\ absent (key_name k) (para_fields p) = true
       /\ para_fields p' = map_last add_nl (para_fields p) ++ [v])).
Proof.
  destruct p as [fs|d]; cbn [p_set_kvpair p_get para_fields]; intros Hinv Hv H;
    bind_inv H; injection Hb as <-; cbn [para_inv para_fields].
  - cbn [para_inv] in Hinv. unfold nd_set_kvpair in Ha. unfold nd_get.
    destruct (unpack_key k true) as [nk|e] eqn:Ek; [|discriminate].
    apply unpack_key_true in Ek. subst nk. cbn [bind fst] in *.
    destruct (name_eqb (key_name k) (f_name v)) eqn:Hn; [|discriminate]. cbn [negb] in Ha.
    split; [reflexivity|].
    rewrite existsb_neg_forallb in Ha. fold (absent (f_name v) fs) in Ha.
    rewrite <- (absent_cong _ _ fs Hn) in Ha.
    destruct (List.find (has_name (key_name k)) fs) as [f|] eqn:Ef.
    + destruct (find_some_split _ _ _ Ef) as [l1 [l2 [-> [H1 H2]]]].
      assert (Hab : absent (key_name k) (l1 ++ f :: l2) = false).
      { rewrite absent_app. cbn [absent forallb]. rewrite H2. cbn. apply andb_false_r. }
      rewrite Hab in Ha. cbn [negb] in Ha. injection Ha as <-.
      rewrite (replace_first_split (has_name (f_name v))).
      * split.
        -- eapply fields_inv_replace; [exact Hinv| |exact Hv]. unfold has_name in H2.
           apply name_eqb_eq in H2, Hn. apply name_eqb_eq. congruence.
        -- left. exists l1, f, l2. now repeat split.
      * erewrite forallb_ext; [exact H1|]. intros a. cbn. now rewrite (has_name_cong _ _ a Hn).
      * now rewrite <- (has_name_cong _ _ f Hn).
    + apply find_none_forallb in Ef. fold (absent (key_name k) fs) in Ef.
      rewrite Ef in Ha. cbn [negb] in Ha. injection Ha as <-.
      split.
      * apply fields_inv_append; [exact Hinv| |exact Hv]. now rewrite <- (absent_cong _ _ fs Hn).
      * right. now repeat split.
  - destruct (para_inv_PD _ Hinv) as [Hd [Hnd Hrc]].
    pose proof (d_set_kvpair_wf _ _ _ _ Hd Ha) as Hd'.
    destruct (d_set_kvpair_nodup _ _ _ _ Hd Hnd Ha) as [Hn Hcases].
    split; [exact Hn|].
    apply para_inv_fields in Hinv. cbn [para_fields] in Hinv.
    destruct Hcases as [[o1 [id [f [o2 [Ho [Hf [Hget Ho']]]]]]]|[Hnil [Hget Ho']]].
    + apply lname_has_name in Hf. rewrite Ho, map_snd_split in Hinv.
      assert (Hab : absent (key_name k) (map snd o1) = true).
      { pose proof Hinv as Hi. unfold fields_inv in Hi. apply andb_true_iff in Hi. destruct Hi as [Hi _].
        apply nodup_names_split in Hi. destruct Hi as [Hi _]. unfold has_name in Hf.
        now rewrite <- (absent_cong _ _ _ Hf). }
      split.
      * apply andb_true_iff. split; [now apply d_wf_DWf|]. rewrite Ho', map_snd_split.
        eapply fields_inv_replace; [exact Hinv| |exact Hv]. unfold has_name in Hf.
        apply name_eqb_eq in Hf, Hn. apply name_eqb_eq. congruence.
      * left. exists (map snd o1), f, (map snd o2). rewrite Ho, Ho', !map_snd_split. now repeat split.
    + pose proof (ids_with_nil_absent _ _ Hnil) as Hab.
      split.
      * apply andb_true_iff. split; [now apply d_wf_DWf|]. rewrite Ho', map_app, ensure_nl_fields. cbn [map snd].
        apply fields_inv_append; [exact Hinv| |exact Hv]. now rewrite <- (absent_cong _ _ _ Hn).
      * right. rewrite Ho', map_app, ensure_nl_fields. now repeat split.
Qed.

Lemma p_remove_spec p k p' :
  para_inv p = true -> p_remove p k = Ok p' ->
  para_inv p' = true /\
  exists l1 f l2, para_fields p = l1 ++ f :: l2 /\ has_name (key_name k) f = true
                  /\ absent (key_name k) l1 = true /\ para_fields p' = l1 ++ l2.
Proof.
  destruct p as [fs|d]; cbn [p_remove para_fields]; intros Hinv H;
    bind_inv H; injection Hb as <-; cbn [para_inv para_fields].
  - cbn [para_inv] in Hinv. unfold nd_remove in Ha.
    destruct (unpack_key k true) as [nk|e] eqn:Ek; [|discriminate].
    apply unpack_key_true in Ek. subst nk. cbn [bind fst] in *.
    destruct (existsb (has_name (key_name k)) fs) eqn:Ex; [|discriminate]. injection Ha as <-.
    destruct (List.find (has_name (key_name k)) fs) as [f|] eqn:Ef.
    + destruct (find_some_split _ _ _ Ef) as [l1 [l2 [-> [H1 H2]]]].
      rewrite remove_first_split by assumption.
      split; [now apply fields_inv_remove in Hinv|]. now exists l1, f, l2.
    + apply find_none_forallb in Ef. rewrite existsb_neg_forallb, Ef in Ex. discriminate.
  - destruct (para_inv_PD _ Hinv) as [Hd [Hnd Hrc]].
    pose proof (d_remove_wf _ _ _ Hd Ha) as Hd'.
    destruct (d_remove_nodup _ _ _ Hd Hnd Ha) as [o1 [id [f [o2 [Ho [Hf Ho']]]]]].
    apply para_inv_fields in Hinv. cbn [para_fields] in Hinv. rewrite Ho, map_snd_split in Hinv.
    apply lname_has_name in Hf.
    split.
    + apply andb_true_iff. split; [now apply d_wf_DWf|]. rewrite Ho', map_app.
      now apply fields_inv_remove in Hinv.
    + exists (map snd o1), f, (map snd o2). rewrite Ho, Ho', map_snd_split, map_app.
      repeat split; try assumption.
      unfold fields_inv in Hinv. apply andb_true_iff in Hinv. destruct Hinv as [Hi _].
      apply nodup_names_split in Hi. destruct Hi as [Hi _]. unfold has_name in Hf.
      now rewrite <- (absent_cong _ _ _ Hf).
Qed.

(** reading through the dict interface = looking the name up in the field list *)
Definition plain_key (k : key) : bool :=
  match k with KStr _ => true | KIdx _ i => (i =? 0)%Z end.

Definition read_name (fs : list field) (m : str) : option str :=
  option_map value_str (List.find (has_name m) fs).

Lemma getitem_fields p k :
  para_inv p = true -> plain_key k = true ->
  getitem p k = match read_name (para_fields p) (key_name k) with
                | Some s => Ok s | None => Err KeyError end.
Proof.
  intros Hinv Hk. unfold getitem, read_name.
  set (k' := match k with KStr n => KIdx n 0 | KIdx _ _ => k end).
  assert (Hk' : key_name k' = key_name k) by (destruct k; reflexivity).
  destruct p as [fs|d]; cbn [p_get para_fields].
  - unfold nd_get.
    assert (Hu : unpack_key k' true = Ok (key_name k, None)).
    { subst k'. destruct k as [n|n i]; cbn [unpack_key key_name]; [reflexivity|]. cbn in Hk. now rewrite Hk. }
    rewrite Hu. cbn [bind fst]. now destruct (List.find (has_name (key_name k)) fs).
  - destruct (para_inv_PD _ Hinv) as [Hd [Hnd _]].
    assert (Hhit : idx_hits k' = true).
    { subst k'. destruct k as [n|n i]; [reflexivity|]. cbn in Hk. unfold idx_hits. cbn. now rewrite Hk. }
    destruct (d_get_nodup d k' false Hd Hnd) as [[Hnil Hg]|[o1 [id [f [o2 [Ho [Hf [_ Hg]]]]]]]];
      rewrite Hg, ?Hhit; rewrite Hk' in *.
    + apply ids_with_nil_absent in Hnil.
      destruct (List.find (has_name (key_name k)) (map snd (d_order d))) as [g|] eqn:Ef; [|reflexivity].
      apply find_some_split in Ef. destruct Ef as [m1 [m2 [E [_ Hgn]]]]. rewrite E, absent_app in Hnil.
      cbn [absent forallb] in Hnil. rewrite Hgn in Hnil. cbn in Hnil. now rewrite andb_false_r in Hnil.
    + apply lname_has_name in Hf. rewrite Ho, map_snd_split.
      apply para_inv_fields in Hinv. cbn [para_fields] in Hinv. rewrite Ho, map_snd_split in Hinv.
      unfold fields_inv in Hinv. apply andb_true_iff in Hinv. destruct Hinv as [Hi _].
      apply nodup_names_split in Hi. destruct Hi as [Hi _].
      rewrite find_split; [reflexivity| |exact Hf].
      unfold has_name in Hf. rewrite (absent_cong _ _ _ Hf) in Hi. exact Hi.
Qed.

(** reading a field that is there: any spelling of the name, with or without index 0 *)
Lemma getitem_spec p k l1 f l2 :
  para_inv p = true ->
  para_fields p = l1 ++ f :: l2 -> has_name (key_name k) f = true ->
  absent (key_name k) l1 = true ->
  plain_key k = true ->
  getitem p k = Ok (value_str f).
Proof.
  intros Hinv Hpf Hf Hl1 Hk. rewrite getitem_fields by assumption.
  unfold read_name. now rewrite Hpf, find_split.
Qed.

(** * Part 4 : the edit operations *)

Lemma scan_body_cons l ls pend acc :
  scan_body (l :: ls) pend acc =
  match classify true l with
  | LComment => scan_body ls (pend ++ l) acc
  | LCont => scan_body ls [] (acc ++ pend ++ l)
  | LWs => do _ <- scan_tail ls; Ok acc
  | LField _ _ => Err OtherError
  | LError => Err ValueError
  end.
Proof. reflexivity. Qed.

Lemma scan_body_all ls : forall pend acc,
  ls <> [] -> forallb body_class ls = true ->
  match last_opt ls with Some l => cont_class l | None => false end = true ->
  scan_body ls pend acc = Ok (acc ++ pend ++ concat ls).
Proof.
  induction ls as [|l ls IH]; intros pend acc Hne Hall Hlast; [congruence|].
  cbn [forallb] in Hall. apply andb_true_iff in Hall. destruct Hall as [Hl Hall].
  destruct ls as [|l2 ls].
  - cbn [last_opt] in Hlast. unfold cont_class in Hlast. cbn [scan_body concat].
    destruct (classify true l); try discriminate. now rewrite app_nil_r.
  - assert (Hlast' : match last_opt (l2 :: ls) with Some l => cont_class l | None => false end = true)
      by exact Hlast.
    unfold body_class in Hl. rewrite scan_body_cons. destruct (classify true l); try discriminate.
    + rewrite IH by (try discriminate; assumption). cbn [concat]. now rewrite <- !app_assoc.
    + rewrite IH by (try discriminate; assumption). cbn [concat app]. now rewrite <- !app_assoc.
Qed.

Lemma scan_body_whole others r' raw cased rest :
  concat ((cased ++ COLON :: r') :: others) = cased ++ [COLON] ++ raw ->
  body_ok others = true ->
  scan_body others [] (COLON :: r') = Ok rest -> rest = COLON :: raw.
Proof.
  intros Hcat Hok Hb. cbn [concat] in Hcat. rewrite <- app_assoc in Hcat.
  apply app_inv_head in Hcat. cbn [app] in Hcat. rewrite <- Hcat.
  unfold body_ok in Hok. destruct others as [|l ls].
  - injection Hb as <-. now rewrite app_nil_r.
  - cbn [is_nil orb] in Hok. apply andb_true_iff in Hok. destruct Hok as [H1 H2].
    rewrite scan_body_all in Hb by (try discriminate; assumption). injection Hb as <-. reflexivity.
Qed.

(** the comment of the field that [set_field_from_raw_string] stores *)
Definition core_comment (comments : list str) (pres : option bool) (fc : fcomment)
           (orig : option field) : str :=
  if match pres with None => true | Some b => b end then
    match orig with Some o => f_comment o | None => concat comments end
  else
    match fc with FCElem t => t | _ => concat comments end.

(** [new_for p k p' v orig]: [p'] is [p] with the field [v] in the place the key denotes:
    instead of the existing field [orig = Some f] (same position, spelling of the name kept),
    or, when no field has that name ([orig = None]), after the last field, whose missing final
    newline is supplied. *)
Definition new_for (p : para) (k : key) (p' : para) (v : field) (orig : option field) : Prop :=
  match orig with
  | Some f =>
      exists l1 l2, para_fields p = l1 ++ f :: l2 /\ has_name (key_name k) f = true
                    /\ absent (key_name k) l1 = true
                    /\ para_fields p' = l1 ++ v :: l2 /\ f_name v = f_name f
  | None =>
      absent (key_name k) (para_fields p) = true
      /\ para_fields p' = map_last add_nl (para_fields p) ++ [v] /\ f_name v = key_name k
  end.

(** a field text that occupies lines of its own: colon after the name, final newline,
    comment lines (if any) complete *)
Definition own_lines (v : field) : bool :=
  forallb name_char (f_name v) && rest_colon v && ends_nl (f_rest v) && closed (f_comment v).

Lemma set_raw_core_spec p k raw comments pres fc p' :
  para_inv p = true -> forallb starts_hash comments = true ->
  set_raw_core p k raw comments pres fc = Ok p' ->
  para_inv p' = true /\
  exists v orig, own_lines v = true /\ new_for p k p' v orig
                 /\ f_comment v = core_comment comments pres fc orig
                 /\ (body_ok (tl (splitlines py_islinebreak true (f_name v ++ [COLON] ++ raw))) = true
                     -> f_rest v = COLON :: raw)
                 /\ p_get p k true = LOk orig.
Proof.
  intros Hinv Hcs H. unfold set_raw_core in H.
  destruct (p_get p k true) as [original| |e] eqn:Eget;
    [|now apply p_get_not_amb in Eget|discriminate].
  cbn [bind] in H.
  set (cased := match original with Some f => f_name f | None => key_name k end) in *.
  bind_inv H. destruct x. bind_inv Hb. rename x into v0. bind_inv Hbb. rename x into v.
  assert (Hlen : length cased = length (key_name k)).
  { subst cased. destruct original as [f|]; [|reflexivity].
    destruct (p_get_some _ _ _ Hinv Eget) as [l1 [l2 [_ [Hf _]]]].
    now apply name_eqb_length in Hf. }
  destruct (parse_new_field_shape _ _ _ _ _ Hcs Ha Hlen Hba)
    as [Hn0 [Hnc0 [_ [Hc0 [Hcl0 [Hrc0 [Hnl0 [first [others [r' [Hlines [Hfirst Hbody]]]]]]]]]]]].
  (* the comment step keeps name and rest *)
  assert (Hv : f_name v = cased /\ f_rest v = f_rest v0 /\ closed (f_comment v) = true
               /\ f_comment v = core_comment comments pres fc original).
  { unfold core_comment. destruct (match pres with None => true | Some b => b end).
    - destruct original as [o|].
      + apply set_comment_ok in Hbba. destruct Hbba as [-> Hcl]. now cbn.
      + injection Hbba as <-. now repeat split.
    - destruct fc as [|l|t].
      + injection Hbba as <-. now repeat split.
      + injection Hbba as <-. now repeat split.
      + apply set_comment_ok in Hbba. destruct Hbba as [-> Hcl]. now cbn. }
  destruct Hv as [Hn [Hr [Hcl Hcm]]].
  assert (Hrc : rest_colon v = true) by (unfold rest_colon in *; now rewrite Hr).
  destruct (p_set_kvpair_spec _ _ _ _ Hinv Hrc Hbbb) as [_ [Hinv' Hcases]].
  split; [exact Hinv'|]. exists v, original.
  split; [unfold own_lines; now rewrite Hn, Hnc0, Hrc, Hr, Hnl0, Hcl|].
  split; [|split; [exact Hcm|split; [|reflexivity]]].
  - destruct Hcases as [[l1 [f [l2 [Hg [Hpf [Hhn [Hab Hpf']]]]]]]|[Hg [Hab Hpf']]];
      rewrite Hg in Eget; injection Eget as <-; cbn [new_for].
    + exists l1, l2. now repeat split.
    + now repeat split.
  - rewrite Hn, Hlines, Hr. cbn [tl]. intros Hok.
    pose proof (splitlines_keepends_concat py_islinebreak (cased ++ [COLON] ++ raw)) as Hcat.
    rewrite Hlines, Hfirst in Hcat. exact (scan_body_whole _ _ _ _ _ Hcat Hok Hbody).
Qed.

(** the comment of the new field, in terms of the arguments of the call *)
Definition new_comment (pres : option bool) (fc : fcomment) (orig : option field) (c : str) : Prop :=
  match pres, fc with
  | None, FCNone | Some true, FCNone => c = match orig with Some f => f_comment f | None => [] end
  | Some false, FCNone => c = []
  | None, FCList l => exists cs, map_result format_comment l = Ok cs /\ c = concat cs
  | None, FCElem t => c = t
  | Some _, _ => False
  end.

Lemma set_raw_spec p k raw pres fc p' :
  para_inv p = true -> set_raw p k raw pres fc = Ok p' ->
  para_inv p' = true /\
  exists v orig, own_lines v = true /\ new_for p k p' v orig
                 /\ new_comment pres fc orig (f_comment v)
                 /\ (body_ok (tl (splitlines py_islinebreak true (f_name v ++ [COLON] ++ raw))) = true
                     -> f_rest v = COLON :: raw)
                 /\ p_get p k true = LOk orig.
Proof.
  intros Hinv H. unfold set_raw in H. bind_inv H. destruct x as [[comments pres'] fc'].
  unfold raw_args in Ha.
  destruct pres as [b|]; destruct fc as [|l|t]; try discriminate.
  - injection Ha as <- <- <-.
    destruct (set_raw_core_spec _ _ _ [] _ _ _ Hinv eq_refl Hb) as [Hi [v [orig [Ho [Hn [Hc [Hw Hg]]]]]]].
    split; [exact Hi|]. exists v, orig. split; [exact Ho|]. split; [exact Hn|]. split; [|split; [exact Hw|exact Hg]].
    unfold core_comment in Hc. cbn [new_comment]. destruct b; [|now destruct orig].
    exact Hc.
  - injection Ha as <- <- <-.
    destruct (set_raw_core_spec _ _ _ [] _ _ _ Hinv eq_refl Hb) as [Hi [v [orig [Ho [Hn [Hc [Hw Hg]]]]]]].
    split; [exact Hi|]. exists v, orig. now repeat split.
  - bind_inv Ha. injection Hab as <- <- <-.
    pose proof (map_result_format_comment _ _ Haa) as Hcs.
    destruct (set_raw_core_spec _ _ _ _ _ _ _ Hinv Hcs Hb) as [Hi [v [orig [Ho [Hn [Hc [Hw Hg]]]]]]].
    split; [exact Hi|]. exists v, orig. split; [exact Ho|]. split; [exact Hn|]. split; [|split; [exact Hw|exact Hg]].
    cbn [new_comment]. exists x. now split.
  - injection Ha as <- <- <-.
    destruct (set_raw_core_spec _ _ _ [] _ _ _ Hinv eq_refl Hb) as [Hi [v [orig [Ho [Hn [Hc [Hw Hg]]]]]]].
    split; [exact Hi|]. exists v, orig. now repeat split.
Qed.

Lemma set_simple_spec p k sv pres fc p' :
  para_inv p = true -> set_simple p k sv pres fc = Ok p' ->
  para_inv p' = true /\
  exists v orig, own_lines v = true /\ new_for p k p' v orig
                 /\ new_comment pres fc orig (f_comment v)
                 /\ (body_ok (tl (splitlines py_islinebreak true
                                   (f_name v ++ [COLON] ++ [SP] ++ py_strip sv ++ [LF]))) = true
                     -> f_rest v = COLON :: [SP] ++ py_strip sv ++ [LF])
                 /\ p_get p k true = LOk orig.
Proof.
  unfold set_simple. destruct (mem_char LF sv); [discriminate|]. apply set_raw_spec.
Qed.

(** the raw text [__setitem__] makes of a value *)
Definition setitem_raw (value : str) : str :=
  match split_on_first LF value with
  | (_, None) => [SP] ++ py_strip (py_strip value) ++ [LF]
  | (first_line, Some rest) =>
      let value' := [SP] ++ py_strip first_line ++ [LF] ++ rest in
      if ends_nl value' then value' else value' ++ [LF]
  end.

Lemma p_get_lookup_key p k ug :
  para_inv p = true ->
  p_get p (match k with KStr n => KIdx n 0 | KIdx _ _ => k end) ug = p_get p k ug.
Proof.
  intros Hinv. destruct k as [n|n i]; [|reflexivity]. destruct p as [fs|d]; cbn [p_get].
  - reflexivity.
  - destruct (para_inv_PD _ Hinv) as [Hd [Hnd _]]. now apply d_get_str_idx0.
Qed.

(** the dict interface keeps the comment of the field it replaces *)
Lemma setitem_spec p k value p' :
  para_inv p = true -> setitem p k value = Ok p' ->
  para_inv p' = true /\
  exists v orig, own_lines v = true /\ new_for p k p' v orig
                 /\ f_comment v = match orig with Some f => f_comment f | None => [] end
                 /\ (body_ok (tl (splitlines py_islinebreak true
                                   (f_name v ++ [COLON] ++ setitem_raw value))) = true
                     -> f_rest v = COLON :: setitem_raw value).
Proof.
  intros Hinv H. unfold setitem in H. bind_inv H. rename x into orig0.
  set (fc := match orig0 with
             | Some f => if is_nil (f_comment f) then FCNone else FCElem (f_comment f)
             | None => FCNone
             end) in *.
  assert (Hs : set_raw p k (setitem_raw value) None fc = Ok p').
  { unfold setitem_raw. destruct (split_on_first LF value) as [first [rest|]].
    - cbv zeta in Hb. exact Hb.
    - unfold set_simple in Hb. destruct (mem_char LF (py_strip value)); [discriminate|].
      exact Hb. }
  destruct (set_raw_spec _ _ _ _ _ _ Hinv Hs) as [Hi [v [orig [Ho [Hn [Hc [Hw Hg]]]]]]].
  split; [exact Hi|]. exists v, orig. split; [exact Ho|]. split; [exact Hn|]. split; [|exact Hw].
  (* the field looked up with index 0 is the field the set replaces *)
  assert (Horig : orig0 = orig).
  { rewrite p_get_lookup_key in Ha by exact Hinv. rewrite Hg in Ha. now injection Ha. }
  subst orig0. subst fc. destruct orig as [f|]; cbn [new_comment] in Hc.
  - destruct (is_nil (f_comment f)) eqn:En; cbn [new_comment] in Hc; [exact Hc|exact Hc].
  - exact Hc.
Qed.

(** * Part 5 : documents *)

Lemma paras_app a b : paras (a ++ b) = paras a ++ paras b.
Proof. unfold paras. apply flat_map_app. Qed.

Lemma doc_inv_split a p b :
  doc_inv (a ++ Para p :: b) = doc_inv a && (para_inv p && doc_inv b).
Proof. unfold doc_inv. rewrite paras_app. cbn [paras flat_map app]. now rewrite forallb_app. Qed.

Definition op_key (o : op) : key :=
  match o with OSet _ k _ | ODel _ k | OSimple _ k _ _ _ | ORaw _ k _ _ _ => k end.

(** the comment of the field a set-like operation stores *)
Definition op_comment (o : op) (orig : option field) (c : str) : Prop :=
  match o with
  | OSet _ _ _ => c = match orig with Some f => f_comment f | None => [] end
  | OSimple _ _ _ pres fc | ORaw _ _ _ pres fc => new_comment pres (fc_of fc) orig c
  | ODel _ _ => False
  end.

(** what a successful operation does to the fields of its paragraph *)
Definition para_edit (o : op) (p p' : para) : Prop :=
  match o with
  | ODel _ k =>
      exists l1 f l2, para_fields p = l1 ++ f :: l2 /\ has_name (key_name k) f = true
                      /\ absent (key_name k) l1 = true /\ para_fields p' = l1 ++ l2
  | _ =>
      exists v orig, own_lines v = true /\ new_for p (op_key o) p' v orig
                     /\ op_comment o orig (f_comment v)
  end.

Lemma op_on_para_spec o p p' :
  para_inv p = true -> op_on_para o p = Ok p' -> para_inv p' = true /\ para_edit o p p'.
Proof.
  intros Hinv H. destruct o as [j k v|j k|j k v pres fc|j k v pres fc]; cbn [op_on_para] in H.
  - destruct (setitem_spec _ _ _ _ Hinv H) as [Hi [w [orig [H1 [H2 [H3 _]]]]]].
    split; [exact Hi|]. exists w, orig. now repeat split.
  - destruct (p_remove_spec _ _ _ Hinv H) as [Hi Hr]. now split.
  - destruct (set_simple_spec _ _ _ _ _ _ Hinv H) as [Hi [w [orig [H1 [H2 [H3 _]]]]]].
    split; [exact Hi|]. exists w, orig. now repeat split.
  - destruct (set_raw_spec _ _ _ _ _ _ Hinv H) as [Hi [w [orig [H1 [H2 [H3 _]]]]]].
    split; [exact Hi|]. exists w, orig. now repeat split.
Qed.

(** every successful operation: the addressed paragraph is edited as [para_edit] says,
    every other item of the document is untouched, and the result is valid again *)
Theorem run_op_local d o d' :
  doc_inv d = true -> run_op d o = Ok d' ->
  doc_inv d' = true /\
  exists a p b p', split_doc d (op_para o) = Some (a, p, b) /\ d' = a ++ Para p' :: b
                   /\ para_inv p = true /\ para_edit o p p'.
Proof.
  intros Hinv H. destruct (run_op_ok _ _ _ H) as [a [p [b [p' [Hs [Hop ->]]]]]].
  pose proof (split_doc_eq _ _ _ _ _ Hs) as Hd. rewrite Hd, doc_inv_split in Hinv.
  apply andb_true_iff in Hinv. destruct Hinv as [Ha Hpb].
  apply andb_true_iff in Hpb. destruct Hpb as [Hp Hb].
  destruct (op_on_para_spec _ _ _ Hp Hop) as [Hp' He].
  split; [now rewrite doc_inv_split, Ha, Hp', Hb|].
  now exists a, p, b, p'.
Qed.

Lemma step_inv d o : doc_inv d = true -> doc_inv (snd (step d o)) = true.
Proof.
  intros H. unfold step. destruct (run_op d o) as [d'|e] eqn:E; [|exact H].
  now apply run_op_local in E.
Qed.

Lemma run_inv ops : forall d, doc_inv d = true -> doc_inv (run d ops) = true.
Proof.
  induction ops as [|o ops IH]; intros d H; [exact H|].
  unfold run. cbn [fold_left]. apply IH. now apply step_inv.
Qed.

Lemma run_app d ops1 ops2 : run d (ops1 ++ ops2) = run (run d ops1) ops2.
Proof. unfold run. apply fold_left_app. Qed.

(** the field of a paragraph that a name denotes is unique *)
Lemma denoted_unique n l1 f l2 l1' f' l2' :
  l1 ++ f :: l2 = l1' ++ f' :: l2' ->
  has_name n f = true -> absent n l1 = true ->
  has_name n f' = true -> absent n l1' = true ->
  l1 = l1' /\ f = f' /\ l2 = l2'.
Proof.
  revert l1'. induction l1 as [|g l1 IH]; intros l1' E Hf Hl Hf' Hl'.
  - destruct l1' as [|g' l1'].
    + now injection E as -> ->.
    + injection E as -> _. cbn [absent forallb] in Hl'. rewrite Hf in Hl'. discriminate.
  - destruct l1' as [|g' l1'].
    + injection E as -> _. cbn [absent forallb] in Hl. rewrite Hf' in Hl. discriminate.
    + injection E as -> E. cbn [absent forallb] in Hl, Hl'.
      apply andb_true_iff in Hl, Hl'. destruct Hl as [_ Hl], Hl' as [_ Hl'].
      destruct (IH _ E Hf Hl Hf' Hl') as [-> [-> ->]]. now repeat split.
Qed.

Lemma fields_inv_absent_before n l1 f l2 :
  fields_inv (l1 ++ f :: l2) = true -> has_name n f = true ->
  absent n l1 = true /\ absent n l2 = true.
Proof.
  unfold fields_inv. intros H Hf. apply andb_true_iff in H. destruct H as [H _].
  apply nodup_names_split in H. destruct H as [H1 [H2 _]].
  unfold has_name in Hf. now rewrite <- !(absent_cong _ _ _ Hf).
Qed.

(** ** byte-level statements *)

(** replacing an existing field through any set-like operation *)
Theorem set_existing_bytes d o d' a p b l1 f l2 :
  doc_inv d = true ->
  match o with ODel _ _ => false | _ => true end = true ->
  split_doc d (op_para o) = Some (a, p, b) ->
  para_fields p = l1 ++ f :: l2 -> has_name (key_name (op_key o)) f = true ->
  run_op d o = Ok d' ->
  exists v,
    dump d  = (dump a ++ ftext l1) ++ field_text f ++ (ftext l2 ++ dump b) /\
    dump d' = (dump a ++ ftext l1) ++ field_text v ++ (ftext l2 ++ dump b) /\
    (exists p', d' = a ++ Para p' :: b /\ para_fields p' = l1 ++ v :: l2) /\
    f_name v = f_name f /\ own_lines v = true /\ op_comment o (Some f) (f_comment v).
Proof.
  intros Hinv Hset Hs Hpf Hf H.
  destruct (run_op_local _ _ _ Hinv H) as [_ [a' [p0 [b' [p' [Hs' [-> [Hp He]]]]]]]].
  rewrite Hs in Hs'. injection Hs' as <- <- <-.
  pose proof (para_inv_fields _ Hp) as Hfi. rewrite Hpf in Hfi.
  destruct (fields_inv_absent_before _ _ _ _ Hfi Hf) as [Hl1 Hl2].
  assert (He' : exists v orig, own_lines v = true /\ new_for p (op_key o) p' v orig
                               /\ op_comment o orig (f_comment v)).
  { destruct o; [exact He|discriminate|exact He|exact He]. }
  destruct He' as [v [orig [Hown [Hnew Hcm]]]].
  destruct orig as [g|]; cbn [new_for] in Hnew.
  - destruct Hnew as [m1 [m2 [Hpf2 [Hg [Hm1 [Hpf' Hname]]]]]].
    rewrite Hpf in Hpf2.
    destruct (denoted_unique _ _ _ _ _ _ _ Hpf2 Hf Hl1 Hg Hm1) as [<- [<- <-]].
    exists v. rewrite (split_doc_eq _ _ _ _ _ Hs).
    rewrite !dump_split, Hpf, Hpf', !ftext_app, !ftext_cons, <- !app_assoc.
    repeat split; try assumption. now exists p'.
  - destruct Hnew as [Hab _]. rewrite Hpf, absent_app in Hab. cbn [absent forallb] in Hab.
    rewrite Hf in Hab. cbn in Hab. now rewrite andb_false_r in Hab.
Qed.

(** adding a field under a name the paragraph does not have *)
Theorem set_new_bytes d o d' a p b :
  doc_inv d = true ->
  match o with ODel _ _ => false | _ => true end = true ->
  split_doc d (op_para o) = Some (a, p, b) ->
  absent (key_name (op_key o)) (para_fields p) = true ->
  run_op d o = Ok d' ->
  exists v,
    dump d  = (dump a ++ ftext (para_fields p)) ++ dump b /\
    dump d' = (dump a ++ ftext (para_fields p)) ++ nl_suffix (ftext (para_fields p))
              ++ field_text v ++ dump b /\
    (exists p', d' = a ++ Para p' :: b
                /\ para_fields p' = map_last add_nl (para_fields p) ++ [v]) /\
    f_name v = key_name (op_key o) /\ own_lines v = true /\ op_comment o None (f_comment v).
Proof.
  intros Hinv Hset Hs Hab H.
  destruct (run_op_local _ _ _ Hinv H) as [Hi' [a' [p0 [b' [p' [Hs' [-> [Hp He]]]]]]]].
  rewrite Hs in Hs'. injection Hs' as <- <- <-.
  assert (He' : exists v orig, own_lines v = true /\ new_for p (op_key o) p' v orig
                               /\ op_comment o orig (f_comment v)).
  { destruct o; [exact He|discriminate|exact He|exact He]. }
  destruct He' as [v [orig [Hown [Hnew Hcm]]]].
  destruct orig as [g|]; cbn [new_for] in Hnew.
  - destruct Hnew as [m1 [m2 [Hpf2 [Hg _]]]]. rewrite Hpf2, absent_app in Hab.
    cbn [absent forallb] in Hab. rewrite Hg in Hab. cbn in Hab. now rewrite andb_false_r in Hab.
  - destruct Hnew as [_ [Hpf' Hname]].
    exists v. rewrite (split_doc_eq _ _ _ _ _ Hs).
    pose proof (para_inv_fields _ Hp) as Hfi. unfold fields_inv in Hfi.
    apply andb_true_iff in Hfi. destruct Hfi as [_ Hrc].
    rewrite !dump_split, Hpf', ftext_app, ftext_map_last_add_nl, ftext_one, <- !app_assoc by exact Hrc.
    repeat split; try assumption. now exists p'.
Qed.

(** deleting a field *)
Theorem delete_bytes d j k d' a p b l1 f l2 :
  doc_inv d = true ->
  split_doc d j = Some (a, p, b) ->
  para_fields p = l1 ++ f :: l2 -> has_name (key_name k) f = true ->
  run_op d (ODel j k) = Ok d' ->
  dump d  = (dump a ++ ftext l1) ++ field_text f ++ (ftext l2 ++ dump b) /\
  dump d' = (dump a ++ ftext l1) ++ (ftext l2 ++ dump b) /\
  exists p', d' = a ++ Para p' :: b /\ para_fields p' = l1 ++ l2.
Proof.
  intros Hinv Hs Hpf Hf H.
  destruct (run_op_local _ _ _ Hinv H) as [Hi' [a' [p0 [b' [p' [Hs' [-> [Hp He]]]]]]]].
  cbn [op_para] in Hs'. rewrite Hs in Hs'. injection Hs' as <- <- <-.
  pose proof (para_inv_fields _ Hp) as Hfi. rewrite Hpf in Hfi.
  destruct (fields_inv_absent_before _ _ _ _ Hfi Hf) as [Hl1 Hl2].
  cbn [para_edit] in He. destruct He as [m1 [g [m2 [Hpf2 [Hg [Hm1 Hpf']]]]]].
  rewrite Hpf in Hpf2.
  destruct (denoted_unique _ _ _ _ _ _ _ Hpf2 Hf Hl1 Hg Hm1) as [<- [<- <-]].
  rewrite (split_doc_eq _ _ _ _ _ Hs).
  rewrite !dump_split, Hpf, Hpf', !ftext_app, !ftext_cons, <- !app_assoc.
  repeat split. now exists p'.
Qed.

(** * Part 6 : line structure (every item that is followed by another one ends with a newline) *)

Lemma removelast_app_cons {A} (l1 : list A) x l2 :
  removelast (l1 ++ x :: l2) = l1 ++ removelast (x :: l2).
Proof. apply removelast_app. discriminate. Qed.

Lemma forallb_removelast {A} (q : A -> bool) l : forallb q l = true -> forallb q (removelast l) = true.
Proof.
  induction l as [|a l IH]; [reflexivity|]. cbn [forallb]. intros H.
  apply andb_true_iff in H. destruct H as [Ha H]. destruct l as [|b l]; [reflexivity|].
  change (removelast (a :: b :: l)) with (a :: removelast (b :: l)). cbn [forallb].
  rewrite Ha. now apply IH.
Qed.

Lemma fclosed_add_nl f : fclosed (add_nl f) = true.
Proof.
  unfold fclosed, add_nl. destruct (ends_nl (f_rest f)) eqn:E; [exact E|].
  cbn [f_rest]. apply ends_nl_app_lf.
Qed.

Lemma add_nl_closed f : fclosed f = true -> add_nl f = f.
Proof. unfold fclosed, add_nl. now intros ->. Qed.

Lemma fields_closed_map_last fs :
  fields_closed (removelast fs) = true -> fields_closed (map_last add_nl fs) = true.
Proof.
  induction fs as [|f fs IH]; [reflexivity|]. destruct fs as [|g fs].
  - intros _. cbn [map_last fields_closed forallb]. now rewrite fclosed_add_nl.
  - change (removelast (f :: g :: fs)) with (f :: removelast (g :: fs)).
    change (map_last add_nl (f :: g :: fs)) with (f :: map_last add_nl (g :: fs)).
    unfold fields_closed in *. cbn [forallb]. intros H. apply andb_true_iff in H.
    destruct H as [Hf H]. rewrite Hf. now apply IH.
Qed.

Lemma map_last_closed fs : fields_closed fs = true -> map_last add_nl fs = fs.
Proof.
  induction fs as [|f fs IH]; [reflexivity|]. unfold fields_closed. cbn [forallb]. intros H.
  apply andb_true_iff in H. destruct H as [Hf H]. destruct fs as [|g fs].
  - cbn [map_last]. now rewrite add_nl_closed.
  - change (map_last add_nl (f :: g :: fs)) with (f :: map_last add_nl (g :: fs)).
    now rewrite IH.
Qed.

Lemma fields_closed_text fs :
  forallb rest_colon fs = true -> fields_closed fs = true -> closed (ftext fs) = true.
Proof.
  intros Hrc Hc. unfold ftext. apply closed_concat. rewrite forallb_map.
  unfold fields_closed in Hc. rewrite forallb_forall in *. intros f Hf.
  rewrite closed_nonempty by (apply field_text_nonempty; now apply Hrc).
  rewrite ends_nl_field_text by (apply rest_colon_nonempty; now apply Hrc). now apply Hc.
Qed.

(** the effect of a successful operation on the closedness of its paragraph *)
Lemma para_edit_lines o p p' :
  para_edit o p p' ->
  fields_closed (removelast (para_fields p)) = true ->
  fields_closed (removelast (para_fields p')) = true
  /\ (fields_closed (para_fields p) = true -> fields_closed (para_fields p') = true).
Proof.
  intros He Hin.
  assert (Hset : (exists v orig, own_lines v = true /\ new_for p (op_key o) p' v orig) ->
                 fields_closed (removelast (para_fields p')) = true
                 /\ (fields_closed (para_fields p) = true -> fields_closed (para_fields p') = true)).
  { intros [v [orig [Hown Hnew]]].
    assert (Hv : fclosed v = true).
    { unfold own_lines in Hown. apply andb_true_iff in Hown. destruct Hown as [Hown _].
      apply andb_true_iff in Hown. now destruct Hown. }
    destruct orig as [f|]; cbn [new_for] in Hnew.
    - destruct Hnew as [l1 [l2 [Hpf [_ [_ [Hpf' _]]]]]]. rewrite Hpf in *. rewrite Hpf'.
      rewrite removelast_app_cons in *. unfold fields_closed in *. rewrite !forallb_app in *.
      split.
      + apply andb_true_iff in Hin. destruct Hin as [H1 H2]. rewrite H1. cbn [andb].
        destruct l2 as [|g l2]; [reflexivity|].
        change (removelast (v :: g :: l2)) with (v :: removelast (g :: l2)).
        change (removelast (f :: g :: l2)) with (f :: removelast (g :: l2)) in H2.
        cbn [forallb] in *. rewrite Hv. apply andb_true_iff in H2. now destruct H2.
      + intros H. apply andb_true_iff in H. destruct H as [H1 H2]. rewrite H1. cbn [forallb] in *.
        rewrite Hv. apply andb_true_iff in H2. now destruct H2.
    - destruct Hnew as [_ [Hpf' _]]. rewrite Hpf'.
      assert (Hall : fields_closed (map_last add_nl (para_fields p) ++ [v]) = true).
      { unfold fields_closed. rewrite forallb_app. cbn [forallb]. rewrite Hv.
        fold (fields_closed (map_last add_nl (para_fields p))). now rewrite fields_closed_map_last. }
      split; [|intros _; exact Hall].
      rewrite removelast_app_cons. cbn [removelast]. rewrite app_nil_r.
      now apply fields_closed_map_last. }
  destruct o as [j k v|j k|j k v pres fc|j k v pres fc]; cbn [para_edit] in He.
  - apply Hset. destruct He as [w [orig [H1 [H2 _]]]]. now exists w, orig.
  - destruct He as [l1 [f [l2 [Hpf [_ [_ Hpf']]]]]]. rewrite Hpf in *. rewrite Hpf'.
    rewrite removelast_app_cons in Hin. unfold fields_closed in *. rewrite forallb_app in *.
    apply andb_true_iff in Hin. destruct Hin as [H1 H2]. split.
    + destruct l2 as [|g l2].
      * rewrite app_nil_r. now apply forallb_removelast.
      * rewrite removelast_app_cons, forallb_app, H1. cbn [andb].
        change (removelast (f :: g :: l2)) with (f :: removelast (g :: l2)) in H2.
        cbn [forallb] in H2. apply andb_true_iff in H2. now destruct H2.
    + rewrite ?forallb_app. intros H. apply andb_true_iff in H. destruct H as [_ H]. cbn [forallb] in H.
      apply andb_true_iff in H. destruct H as [_ H]. now rewrite H1, H.
  - apply Hset. destruct He as [w [orig [H1 [H2 _]]]]. now exists w, orig.
  - apply Hset. destruct He as [w [orig [H1 [H2 _]]]]. now exists w, orig.
Qed.

Lemma lines_ok_app a it b :
  lines_ok (a ++ it :: b) =
  forallb (fun x => item_closed x && item_inner x) a
  && ((is_nil b || item_closed it) && item_inner it && lines_ok b).
Proof.
  induction a as [|x a IH]; [reflexivity|].
  cbn [app lines_ok forallb]. rewrite IH.
  destruct (a ++ it :: b) eqn:E; [destruct a; discriminate|]. cbn [is_nil orb].
  now rewrite !andb_assoc.
Qed.

Lemma items_closed_dump a :
  forallb para_inv (paras a) = true ->
  forallb (fun x => item_closed x && item_inner x) a = true -> closed (dump a) = true.
Proof.
  induction a as [|x a IH]; [reflexivity|]. intros Hinv H. cbn [forallb] in H.
  apply andb_true_iff in H. destruct H as [Hx H]. apply andb_true_iff in Hx. destruct Hx as [Hx _].
  rewrite dump_cons. apply closed_app.
  - destruct x as [p|k t]; [|exact Hx]. cbn [item_text item_closed] in *. rewrite para_text_ftext.
    apply fields_closed_text; [|exact Hx].
    cbn [paras flat_map app forallb] in Hinv. apply andb_true_iff in Hinv. destruct Hinv as [Hp _].
    apply para_inv_fields in Hp. unfold fields_inv in Hp. apply andb_true_iff in Hp. now destruct Hp.
  - apply IH; [|exact H]. destruct x; cbn [paras flat_map app forallb] in Hinv; [|exact Hinv].
    apply andb_true_iff in Hinv. now destruct Hinv.
Qed.

Theorem run_op_ok_preserved d o d' :
  doc_ok d = true -> run_op d o = Ok d' -> doc_ok d' = true.
Proof.
  unfold doc_ok. intros H Hr. apply andb_true_iff in H. destruct H as [Hinv Hl].
  destruct (run_op_local _ _ _ Hinv Hr) as [Hinv' [a [p [b [p' [Hs [-> [Hp He]]]]]]]].
  rewrite Hinv'. cbn [andb].
  rewrite (split_doc_eq _ _ _ _ _ Hs), lines_ok_app in Hl. rewrite lines_ok_app.
  apply andb_true_iff in Hl. destruct Hl as [Ha Hl]. rewrite Ha. cbn [andb].
  apply andb_true_iff in Hl. destruct Hl as [Hl Hb]. rewrite Hb, andb_true_r.
  apply andb_true_iff in Hl. destruct Hl as [Hc Hi]. cbn [item_closed item_inner] in *.
  destruct (para_edit_lines _ _ _ He Hi) as [Hi' Hc']. rewrite Hi', andb_true_r.
  destruct (is_nil b); [reflexivity|]. cbn [orb] in *. now apply Hc'.
Qed.

Lemma step_ok d o : doc_ok d = true -> doc_ok (snd (step d o)) = true.
Proof.
  intros H. unfold step. destruct (run_op d o) as [d'|e] eqn:E; [|exact H].
  now apply run_op_ok_preserved in E.
Qed.

Theorem run_ok ops : forall d, doc_ok d = true -> doc_ok (run d ops) = true.
Proof.
  induction ops as [|o ops IH]; intros d H; [exact H|].
  unfold run. cbn [fold_left]. apply IH. now apply step_ok.
Qed.

(** where a new field goes: at the beginning of a line; and a newline is supplied only when the
    paragraph is the very end of the document *)
Theorem new_field_position d j a p b :
  doc_ok d = true -> split_doc d j = Some (a, p, b) ->
  closed ((dump a ++ ftext (para_fields p)) ++ nl_suffix (ftext (para_fields p))) = true
  /\ (nl_suffix (ftext (para_fields p)) <> [] -> b = []).
Proof.
  unfold doc_ok. intros H Hs. apply andb_true_iff in H. destruct H as [Hinv Hl].
  rewrite (split_doc_eq _ _ _ _ _ Hs) in Hinv, Hl. rewrite doc_inv_split in Hinv.
  apply andb_true_iff in Hinv. destruct Hinv as [Hia Hinv].
  apply andb_true_iff in Hinv. destruct Hinv as [Hp _].
  rewrite lines_ok_app in Hl. apply andb_true_iff in Hl. destruct Hl as [Ha Hl].
  apply andb_true_iff in Hl. destruct Hl as [Hl _]. apply andb_true_iff in Hl. destruct Hl as [Hc _].
  pose proof (items_closed_dump _ Hia Ha) as Hda.
  apply para_inv_fields in Hp. unfold fields_inv in Hp. apply andb_true_iff in Hp. destruct Hp as [_ Hrc].
  split.
  - rewrite <- app_assoc. apply closed_app; [exact Hda|].
    unfold nl_suffix. destruct (closed (ftext (para_fields p))) eqn:E.
    + now rewrite app_nil_r.
    + unfold closed. rewrite ends_nl_app_lf. apply orb_true_r.
  - intros Hn. destruct b as [|x b]; [reflexivity|]. cbn [is_nil orb item_closed] in Hc.
    exfalso. apply Hn. unfold nl_suffix. now rewrite fields_closed_text.
Qed.

(** * Part 7 : histories; the free text and the number of paragraphs never change *)

Definition skeleton (d : doc) : list (option str) :=
  map (fun it => match it with Para _ => None | Other _ t => Some t end) d.

Lemma run_op_skeleton d o d' : run_op d o = Ok d' -> skeleton d' = skeleton d.
Proof.
  intros H. destruct (run_op_ok _ _ _ H) as [a [p [b [p' [Hs [_ ->]]]]]].
  rewrite (split_doc_eq _ _ _ _ _ Hs). unfold skeleton. now rewrite !map_app.
Qed.

Lemma run_skeleton ops : forall d, skeleton (run d ops) = skeleton d.
Proof.
  induction ops as [|o ops IH]; intros d; [reflexivity|].
  unfold run. cbn [fold_left]. fold (run (snd (step d o)) ops). rewrite IH.
  unfold step. destruct (run_op d o) as [d'|e] eqn:E; [|reflexivity].
  cbn [snd]. now apply (run_op_skeleton d o).
Qed.

(** one successful operation, as a relation between documents *)
Definition local_step (o : op) (d d' : doc) : Prop :=
  exists a p b p', split_doc d (op_para o) = Some (a, p, b) /\ d' = a ++ Para p' :: b
                   /\ para_edit o p p'.

Lemma step_snd_ok d o d' : run_op d o = Ok d' -> snd (step d o) = d'.
Proof. unfold step. now intros ->. Qed.

Lemma step_snd_err d o e : run_op d o = Err e -> step d o = (Some e, d).
Proof. unfold step. now intros ->. Qed.

(** at every point of every history the document is valid, and the next operation either is
    rejected and changes nothing or is a local edit *)
Theorem edit_sequence d ops1 o ops2 :
  doc_ok d = true ->
  let d1 := run d ops1 in
  let d2 := run d (ops1 ++ [o]) in
  doc_ok d1 = true
  /\ ((exists e, run_op d1 o = Err e /\ d2 = d1) \/ (run_op d1 o = Ok d2 /\ local_step o d1 d2))
  /\ doc_ok (run d (ops1 ++ o :: ops2)) = true
  /\ skeleton (run d (ops1 ++ o :: ops2)) = skeleton d.
Proof.
  intros Hok d1 d2. pose proof (run_ok ops1 _ Hok) as H1. fold d1 in H1.
  split; [exact H1|]. split.
  - subst d2. rewrite run_app. fold d1. unfold run. cbn [fold_left].
    destruct (run_op d1 o) as [d'|e] eqn:E.
    + right. rewrite (step_snd_ok _ _ _ E). split; [reflexivity|].
      unfold doc_ok in H1. apply andb_true_iff in H1. destruct H1 as [Hinv _].
      destruct (run_op_local _ _ _ Hinv E) as [_ [a [p [b [p' [Hs [-> [_ He]]]]]]]].
      now exists a, p, b, p'.
    + left. exists e. rewrite (step_snd_err _ _ _ E). now split.
  - split; [now apply run_ok|apply run_skeleton].
Qed.

Theorem rejects_leave_unchanged d o e d' : step d o = (Some e, d') -> d' = d /\ run_op d o = Err e.
Proof.
  unfold step. destruct (run_op d o) as [d1|e1]; intros H; inversion H; now split.
Qed.

(** ** reading the edited object *)

(** the new field is read under every spelling of its name *)
Lemma getitem_new p k p' v orig k' :
  para_inv p' = true -> new_for p k p' v orig ->
  name_eqb (key_name k') (key_name k) = true -> plain_key k' = true ->
  getitem p' k' = Ok (value_str v).
Proof.
  intros Hinv' Hnew Hk Hplain. destruct orig as [f|]; cbn [new_for] in Hnew.
  - destruct Hnew as [l1 [l2 [_ [Hf [Hab [Hpf' Hname]]]]]].
    apply (getitem_spec _ _ l1 v l2); try assumption.
    + unfold has_name in *. rewrite Hname.
      apply name_eqb_eq in Hf, Hk. apply name_eqb_eq. congruence.
    + now rewrite (absent_cong _ _ l1 Hk).
  - destruct Hnew as [Hab [Hpf' Hname]].
    apply (getitem_spec _ _ (map_last add_nl (para_fields p)) v []); try assumption.
    + unfold has_name. rewrite Hname, name_eqb_sym. exact Hk.
    + now rewrite (absent_cong _ _ _ Hk), absent_map_last_add_nl.
Qed.

(** names and order *)
Lemma names_after_set p k p' v orig :
  new_for p k p' v orig ->
  map f_name (para_fields p') =
  match orig with
  | Some _ => map f_name (para_fields p)
  | None => map f_name (para_fields p) ++ [key_name k]
  end.
Proof.
  destruct orig as [f|]; cbn [new_for].
  - intros [l1 [l2 [-> [_ [_ [-> Hn]]]]]]. rewrite !map_app. cbn [map]. now rewrite Hn.
  - intros [_ [-> Hn]]. rewrite map_app. cbn [map]. rewrite Hn. f_equal.
    induction (para_fields p) as [|f fs IH]; [reflexivity|]. destruct fs as [|g fs].
    + cbn [map_last map]. unfold add_nl. now destruct (ends_nl (f_rest f)).
    + change (map_last add_nl (f :: g :: fs)) with (f :: map_last add_nl (g :: fs)).
      cbn [map] in *. now rewrite IH.
Qed.

(** * Part 8 : values *)

(** ** physical lines *)

Fixpoint lines_acc (s : str) (cur : str) : list str :=
  match s with
  | [] => if is_nil cur then [] else [rev cur]
  | x :: s' => if (x =? LF)%N then (rev cur ++ [LF]) :: lines_acc s' [] else lines_acc s' (x :: cur)
  end.

Lemma splitlines_aux_lines_acc islb s : forall cur,
  islb LF = true ->
  forallb (fun c => negb (islb c) || (c =? LF)%N) s = true ->
  splitlines_aux islb true s cur = lines_acc s cur.
Proof.
  intros cur Hlf. revert cur. induction s as [|x s IH]; intros cur H.
  - cbn. destruct cur; reflexivity.
  - cbn [forallb] in H. apply andb_true_iff in H. destruct H as [Hx H].
    cbn [splitlines_aux lines_acc]. destruct (N.eqb_spec x LF) as [->|Hne].
    + rewrite Hlf. destruct s as [|y s']; [reflexivity|].
      change ((LF =? 13)%N) with false. cbn [andb]. now rewrite IH.
    + cbn [orb] in Hx. rewrite orb_false_r in Hx. apply negb_true_iff in Hx. rewrite Hx.
      now apply IH.
Qed.

Lemma lf_lines_acc s : lf_lines s = lines_acc s [].
Proof.
  unfold lf_lines, splitlines. apply splitlines_aux_lines_acc.
  - reflexivity.
  - induction s as [|x s IH]; [reflexivity|]. cbn [forallb]. rewrite IH, andb_true_r.
    unfold is_lf. now destruct (x =? LF)%N.
Qed.

Lemma lines_acc_nonempty_lines s : forall cur, forallb (fun l => negb (is_nil l)) (lines_acc s cur) = true.
Proof.
  induction s as [|x s IH]; intros cur.
  - cbn. destruct cur as [|c cur]; [reflexivity|]. cbn. destruct (rev cur ++ [c]) eqn:E; [|reflexivity].
    destruct (rev cur); discriminate.
  - cbn [lines_acc]. destruct (x =? LF)%N; [|apply IH].
    cbn [forallb]. rewrite IH, andb_true_r. destruct (rev cur); reflexivity.
Qed.

Lemma lines_acc_nonempty s cur : s <> [] -> lines_acc s cur <> [].
Proof.
  revert cur. induction s as [|x s IH]; intros cur Hs; [congruence|].
  cbn [lines_acc]. destruct (x =? LF)%N; [discriminate|].
  destruct s as [|y s]; [cbn; discriminate|]. apply IH. discriminate.
Qed.

Definition app_lf (l : str) : str := l ++ [LF].

Lemma ends_nl_cons c s : s <> [] -> ends_nl (c :: s) = ends_nl s.
Proof. intros H. now apply (ends_nl_app [c] s). Qed.

Lemma lines_acc_app_lf s : forall cur,
  ends_nl s = false ->
  lines_acc (s ++ [LF]) cur =
  match lines_acc s cur with [] => [[LF]] | ls => map_last app_lf ls end.
Proof.
  induction s as [|x s IH]; intros cur H.
  - cbn. destruct cur; reflexivity.
  - assert (Hs : ends_nl s = false).
    { destruct s as [|y s]; [reflexivity|]. now rewrite ends_nl_cons in H by discriminate. }
    cbn [app lines_acc]. destruct (N.eqb_spec x LF) as [->|Hne].
    + assert (Hne : s <> []) by (intros ->; discriminate H).
      rewrite IH by exact Hs. pose proof (lines_acc_nonempty s [] Hne) as Hl.
      destruct (lines_acc s []) as [|h t]; [congruence|]. reflexivity.
    + now apply IH.
Qed.

(** ** adding the missing final newline does not change the value that is read *)

Lemma dropwhile_app_not_all {A} (q : A -> bool) a b :
  forallb q a = false -> dropwhile q (a ++ b) = dropwhile q a ++ b.
Proof.
  induction a as [|c a IH]; [discriminate|]. cbn [forallb app dropwhile].
  destruct (q c); [exact IH|reflexivity].
Qed.

Lemma py_strip_app_lf l : py_strip (l ++ [LF]) = py_strip l.
Proof.
  unfold py_strip, strip_by, lstrip_by, rstrip_by.
  destruct (forallb py_isspace l) eqn:E.
  - rewrite dropwhile_app_all by exact E.
    assert (Hd : dropwhile py_isspace l = []).
    { rewrite <- (app_nil_r l) at 1. now rewrite dropwhile_app_all. }
    rewrite Hd. reflexivity.
  - rewrite dropwhile_app_not_all by exact E. now apply rdropwhile_app_drop.
Qed.

Lemma starts_hash_app l x : l <> [] -> starts_hash (l ++ x) = starts_hash l.
Proof. destruct l; [congruence|reflexivity]. Qed.

Lemma map_last_cons2 {A} (g : A -> A) a l : l <> [] -> map_last g (a :: l) = a :: map_last g l.
Proof. destruct l; [congruence|reflexivity]. Qed.

Lemma map_last_snoc {A} (g : A -> A) l x : map_last g (l ++ [x]) = l ++ [g x].
Proof.
  induction l as [|a l IH]; [reflexivity|]. cbn [app].
  rewrite map_last_cons2 by (destruct l; discriminate). now rewrite IH.
Qed.

Lemma drop_final_nl_app_lf a : ends_nl a = false -> drop_final_nl (a ++ [LF]) = drop_final_nl a.
Proof.
  intros H. unfold drop_final_nl. rewrite ends_nl_app_lf, H. apply removelast_last.
Qed.

Lemma value_multi l1 (F : list str) x :
  match l1 :: (F ++ [x]) with
  | [] => []
  | [l] => py_strip l
  | a :: ls => drop_final_nl (py_strip a ++ [LF] ++ concat ls)
  end = drop_final_nl (py_strip l1 ++ [LF] ++ concat F ++ x).
Proof.
  destruct (F ++ [x]) as [|m ms] eqn:E; [destruct F; discriminate|].
  rewrite <- E, concat_app. cbn [concat]. now rewrite app_nil_r.
Qed.

Lemma value_str_add_nl f : rest_colon f = true -> value_str (add_nl f) = value_str f.
Proof.
  intros Hrc. unfold add_nl. destruct (ends_nl (f_rest f)) eqn:Hnl; [reflexivity|].
  unfold value_str, value_lines. cbn [f_rest].
  unfold rest_colon in Hrc. destruct (f_rest f) as [|c s] eqn:Er; [discriminate|].
  cbn [app tl].
  assert (Hs : ends_nl s = false).
  { destruct s as [|y s]; [reflexivity|]. now rewrite ends_nl_cons in Hnl by discriminate. }
  rewrite !lf_lines_acc, lines_acc_app_lf by exact Hs.
  pose proof (lines_acc_nonempty_lines s []) as Hne.
  pose proof (splitlines_keepends_concat is_lf s) as Hcat.
  fold (lf_lines s) in Hcat. rewrite lf_lines_acc in Hcat.
  destruct (lines_acc s []) as [|l1 ls] eqn:El.
  - reflexivity.
  - destruct ls as [|l2 ls].
    + cbn [map_last filter]. apply py_strip_app_lf.
    + change (map_last app_lf (l1 :: l2 :: ls)) with (l1 :: map_last app_lf (l2 :: ls)).
      destruct (@exists_last _ (l2 :: ls)) as [ls0 [last Hl]]; [discriminate|]. rewrite Hl in *.
      rewrite map_last_snoc. rewrite !filter_app. cbn [filter].
      cbn [forallb] in Hne. apply andb_true_iff in Hne. destruct Hne as [_ Hne].
      rewrite forallb_app in Hne. apply andb_true_iff in Hne. destruct Hne as [_ Hne].
      cbn [forallb] in Hne. rewrite andb_true_r in Hne.
      assert (Hlast : last <> []) by (destruct last; [discriminate|discriminate]).
      unfold app_lf. rewrite starts_hash_app by exact Hlast.
      destruct (negb (starts_hash last)); [|reflexivity].
      assert (Hend : ends_nl last = false).
      { cbn [concat] in Hcat. rewrite concat_app in Hcat. cbn [concat] in Hcat.
        rewrite app_nil_r in Hcat. rewrite <- Hcat in Hs.
        rewrite app_assoc in Hs. now rewrite ends_nl_app in Hs by exact Hlast. }
      rewrite !value_multi. rewrite !app_assoc. apply drop_final_nl_app_lf.
      now rewrite ends_nl_app by exact Hlast.
Qed.

(** ** the other fields read as before *)

Lemma find_app_none {A} (q : A -> bool) l1 l2 :
  List.find q (l1 ++ l2) = match List.find q l1 with Some x => Some x | None => List.find q l2 end.
Proof.
  induction l1 as [|a l1 IH]; [reflexivity|]. cbn [app List.find]. now destruct (q a).
Qed.

Lemma read_name_replace m l1 f v l2 :
  has_name m f = false -> has_name m v = false ->
  read_name (l1 ++ v :: l2) m = read_name (l1 ++ f :: l2) m.
Proof.
  intros Hf Hv. unfold read_name. rewrite !find_app_none. cbn [List.find]. now rewrite Hf, Hv.
Qed.

Lemma read_name_remove m l1 f l2 :
  has_name m f = false -> read_name (l1 ++ l2) m = read_name (l1 ++ f :: l2) m.
Proof.
  intros Hf. unfold read_name. rewrite !find_app_none. cbn [List.find]. now rewrite Hf.
Qed.

Lemma has_name_add_nl m f : has_name m (add_nl f) = has_name m f.
Proof. unfold add_nl, has_name. now destruct (ends_nl (f_rest f)). Qed.

Lemma read_name_map_last m fs :
  forallb rest_colon fs = true -> read_name (map_last add_nl fs) m = read_name fs m.
Proof.
  unfold read_name. induction fs as [|f fs IH]; [reflexivity|]. cbn [forallb]. intros H.
  apply andb_true_iff in H. destruct H as [Hf H]. destruct fs as [|g fs].
  - cbn [map_last List.find]. rewrite has_name_add_nl. destruct (has_name m f); [|reflexivity].
    cbn [option_map]. now rewrite value_str_add_nl.
  - rewrite map_last_cons2 by discriminate. cbn [List.find] in *.
    destruct (has_name m f); [reflexivity|]. now apply IH.
Qed.

Lemma read_name_append m fs v :
  forallb rest_colon fs = true -> has_name m v = false ->
  read_name (map_last add_nl fs ++ [v]) m = read_name fs m.
Proof.
  intros Hrc Hv. rewrite <- (read_name_map_last m fs Hrc). unfold read_name.
  rewrite find_app_none. cbn [List.find]. rewrite Hv.
  now destruct (List.find (has_name m) (map_last add_nl fs)).
Qed.

Lemma other_name m n f : has_name n f = true -> name_eqb m n = false -> has_name m f = false.
Proof.
  unfold has_name. intros Hf Hm. destruct (name_eqb (f_name f) m) eqn:E; [|reflexivity].
  apply name_eqb_eq in Hf, E. assert (name_eqb m n = true) by (apply name_eqb_eq; congruence).
  congruence.
Qed.

(** every field other than the one addressed reads as before the operation *)
Theorem others_unchanged o p p' k' :
  para_inv p = true -> para_inv p' = true -> para_edit o p p' ->
  plain_key k' = true -> name_eqb (key_name k') (key_name (op_key o)) = false ->
  getitem p' k' = getitem p k'.
Proof.
  intros Hp Hp' He Hk Hm.
  rewrite !getitem_fields by assumption.
  apply para_inv_fields in Hp. unfold fields_inv in Hp.
  apply andb_true_iff in Hp. destruct Hp as [_ Hrc].
  set (fs := para_fields p) in *. set (fs' := para_fields p') in *.
  assert (Hset : (exists v orig, new_for p (op_key o) p' v orig) ->
                 read_name fs' (key_name k') = read_name fs (key_name k')).
  { intros [v [orig Hnew]]. subst fs fs'. destruct orig as [f|]; cbn [new_for] in Hnew.
    - destruct Hnew as [l1 [l2 [E [Hf [_ [E' Hn]]]]]]. rewrite E, E'.
      pose proof (other_name _ _ _ Hf Hm) as Hf'.
      apply read_name_replace; [exact Hf'|]. unfold has_name in *. now rewrite Hn.
    - destruct Hnew as [_ [E' Hn]]. rewrite E'. apply read_name_append; [exact Hrc|].
      unfold has_name. rewrite Hn, name_eqb_sym. exact Hm. }
  destruct o as [j k v|j k|j k v pres fc|j k v pres fc]; cbn [para_edit op_key] in *.
  - rewrite Hset; [reflexivity|]. destruct He as [w [orig [_ [H _]]]]. now exists w, orig.
  - destruct He as [l1 [f [l2 [E [Hf [_ E']]]]]]. subst fs fs'. rewrite E, E'.
    now rewrite (read_name_remove _ l1 f l2 (other_name _ _ _ Hf Hm)).
  - rewrite Hset; [reflexivity|]. destruct He as [w [orig [_ [H _]]]]. now exists w, orig.
  - rewrite Hset; [reflexivity|]. destruct He as [w [orig [_ [H _]]]]. now exists w, orig.
Qed.

(** * Part 9 : the value the dict interface stores reads back as the Spec's [expected_read] *)

Lemma lines_acc_prefix a b : forall cur,
  forallb (fun c => negb (c =? LF)%N) a = true ->
  lines_acc (a ++ LF :: b) cur = (rev cur ++ a ++ [LF]) :: lines_acc b [].
Proof.
  induction a as [|x a IH]; intros cur H.
  - reflexivity.
  - cbn [forallb] in H. apply andb_true_iff in H. destruct H as [Hx H].
    apply negb_true_iff in Hx. cbn [app lines_acc]. rewrite Hx, IH by exact H.
    cbn [rev]. now rewrite <- !app_assoc.
Qed.

Lemma split_on_first_some c s a b :
  split_on_first c s = (a, Some b) ->
  s = a ++ c :: b /\ forallb (fun x => negb (x =? c)%N) a = true.
Proof.
  revert a b. induction s as [|x s IH]; intros a b H; [discriminate|].
  cbn [split_on_first] in H. destruct (N.eqb_spec x c) as [->|Hne].
  - injection H as <- <-. now split.
  - destruct (split_on_first c s) as [a' b'] eqn:E. injection H as <- ->.
    destruct (IH _ _ eq_refl) as [-> H2]. split; [reflexivity|].
    cbn [forallb]. rewrite H2, andb_true_r. now apply negb_true_iff, N.eqb_neq.
Qed.

Lemma split_on_first_none c s a :
  split_on_first c s = (a, None) -> a = s /\ forallb (fun x => negb (x =? c)%N) s = true.
Proof.
  revert a. induction s as [|x s IH]; intros a H.
  - injection H as <-. now split.
  - cbn [split_on_first] in H. destruct (N.eqb_spec x c) as [->|Hne]; [discriminate|].
    destruct (split_on_first c s) as [a' b'] eqn:E. injection H as <- ->.
    destruct (IH _ eq_refl) as [-> H2]. split; [reflexivity|].
    cbn [forallb]. rewrite H2, andb_true_r. now apply negb_true_iff, N.eqb_neq.
Qed.

(** ** stripping *)

Lemma forallb_dropwhile {A} (q r : A -> bool) s : forallb q s = true -> forallb q (dropwhile r s) = true.
Proof.
  induction s as [|c s IH]; [reflexivity|]. cbn [forallb dropwhile]. intros H.
  apply andb_true_iff in H. destruct H as [Hc H]. destruct (r c); [now apply IH|].
  cbn [forallb]. now rewrite Hc, H.
Qed.

Lemma forallb_rev {A} (q : A -> bool) s : forallb q (rev s) = forallb q s.
Proof.
  induction s as [|c s IH]; [reflexivity|]. cbn [rev forallb]. rewrite forallb_app, IH.
  cbn [forallb]. rewrite andb_true_r. apply andb_comm.
Qed.

Lemma forallb_py_strip q s : forallb q s = true -> forallb q (py_strip s) = true.
Proof.
  intros H. unfold py_strip, strip_by, rstrip_by, lstrip_by, rdropwhile.
  rewrite forallb_rev. apply forallb_dropwhile. rewrite forallb_rev. now apply forallb_dropwhile.
Qed.

Lemma py_strip_idem s : py_strip (py_strip s) = py_strip s.
Proof. apply strip_by_idem. Qed.

Lemma py_strip_sp s : py_strip (SP :: s) = py_strip s.
Proof. reflexivity. Qed.

Lemma py_strip_first_line sf : py_strip (SP :: py_strip sf ++ [LF]) = py_strip sf.
Proof.
  change (SP :: py_strip sf ++ [LF]) with ((SP :: py_strip sf) ++ [LF]).
  now rewrite py_strip_app_lf, py_strip_sp, py_strip_idem.
Qed.

(** ** lines of a closed text; chomp and join *)

Lemma lines_acc_closed s : forall cur,
  (if is_nil s then is_nil cur else ends_nl s) = true ->
  forallb ends_nl (lines_acc s cur) = true.
Proof.
  induction s as [|x s IH]; intros cur H.
  - cbn in H. apply is_nil_true in H. now subst cur.
  - cbn [is_nil] in H. cbn [lines_acc]. destruct (N.eqb_spec x LF) as [->|Hne].
    + cbn [forallb]. rewrite ends_nl_app_lf. cbn [andb]. apply IH.
      destruct s as [|y s]; [reflexivity|]. cbn [is_nil]. now rewrite ends_nl_cons in H by discriminate.
    + apply IH. destruct s as [|y s].
      * unfold ends_nl in H. cbn in H. apply N.eqb_eq in H. congruence.
      * cbn [is_nil]. now rewrite ends_nl_cons in H by discriminate.
Qed.

Lemma chomp_app_lf l : chomp (l ++ [LF]) = l.
Proof.
  unfold chomp. change s_ends_nl with ends_nl. rewrite ends_nl_app_lf. apply removelast_last.
Qed.

Lemma chomp_no_nl l : ends_nl l = false -> chomp l = l.
Proof. unfold chomp. change s_ends_nl with ends_nl. now intros ->. Qed.

Lemma starts_hash_chomp l : starts_hash (chomp l) = starts_hash l.
Proof.
  unfold chomp. change s_ends_nl with ends_nl. destruct (ends_nl l) eqn:E; [|reflexivity].
  apply ends_nl_split in E. destruct E as [l0 ->]. rewrite removelast_last.
  destruct l0 as [|c l0]; reflexivity.
Qed.

Lemma filter_map_comm {A B} (g : A -> B) (q : B -> bool) l :
  filter q (map g l) = map g (filter (fun a => q (g a)) l).
Proof.
  induction l as [|a l IH]; [reflexivity|]. cbn [map filter]. destruct (q (g a)); cbn [map]; now rewrite IH.
Qed.

Lemma filter_ext {A} (q r : A -> bool) l : (forall a, q a = r a) -> filter q l = filter r l.
Proof.
  intros H. induction l as [|a l IH]; [reflexivity|]. cbn [filter]. now rewrite H, IH.
Qed.

Lemma concat_chomp_join F :
  F <> [] -> forallb ends_nl F = true -> concat F = join [LF] (map chomp F) ++ [LF].
Proof.
  induction F as [|l F IH]; [congruence|]. intros _ H. cbn [forallb] in H.
  apply andb_true_iff in H. destruct H as [Hl H]. apply ends_nl_split in Hl. destruct Hl as [l0 ->].
  destruct F as [|l2 F].
  - cbn [concat map join intersperse_concat]. now rewrite app_nil_r, chomp_app_lf.
  - cbn [concat map]. rewrite join_cons by discriminate. rewrite chomp_app_lf.
    change (concat (l2 :: F)) with (concat (l2 :: F)).
    assert (E : concat (l2 :: F) = join [LF] (map chomp (l2 :: F)) ++ [LF]) by (apply IH; [discriminate|exact H]).
    cbn [concat map] in E. rewrite E. now rewrite <- !app_assoc.
Qed.

(** ** reading the stored text *)

Definition no_other_break (s : str) : bool :=
  forallb (fun c => negb (py_islinebreak c) || (c =? LF)%N) s.

(** the text [__setitem__] builds for a multi-line value: first line, then the lines of the rest *)
Definition closed_rest (rest : str) : str := if closed rest then rest else rest ++ [LF].

Lemma setitem_raw_multi V first rest :
  split_on_first LF V = (first, Some rest) ->
  setitem_raw V = (SP :: py_strip first) ++ LF :: closed_rest rest.
Proof.
  intros E. unfold setitem_raw. rewrite E. cbv zeta. set (sf := py_strip first).
  assert (Ha : [SP] ++ sf ++ [LF] ++ rest = ((SP :: sf) ++ [LF]) ++ rest)
    by (cbn [app]; now rewrite <- app_assoc).
  rewrite Ha. unfold closed_rest, closed. destruct rest as [|c rest].
  - rewrite app_nil_r, ends_nl_app_lf. reflexivity.
  - cbn [is_nil orb]. rewrite ends_nl_app by discriminate. destruct (ends_nl (c :: rest)).
    + now rewrite <- app_assoc.
    + now rewrite <- !app_assoc.
Qed.

Lemma lines_closed_rest rest :
  let Ls := lines_acc rest [] in
  let Ls' := lines_acc (closed_rest rest) [] in
  forallb ends_nl Ls' = true
  /\ map chomp (filter (fun l => negb (starts_hash l)) Ls')
     = map chomp (filter (fun l => negb (starts_hash l)) Ls)
  /\ (Ls' = Ls \/ exists L0 last, Ls = L0 ++ [last] /\ Ls' = L0 ++ [last ++ [LF]] /\ last <> []).
Proof.
  cbv zeta. unfold closed_rest. destruct (closed rest) eqn:Ec.
  - split; [|split; [reflexivity|now left]].
    apply lines_acc_closed. unfold closed in Ec. destruct rest; [reflexivity|exact Ec].
  - assert (Hne : rest <> []) by (intros ->; discriminate).
    assert (Hnl : ends_nl rest = false) by (rewrite closed_nonempty in Ec; assumption).
    split.
    { apply lines_acc_closed. rewrite ends_nl_app_lf.
      destruct (rest ++ [LF]) eqn:E; [destruct rest; discriminate|]. reflexivity. }
    rewrite lines_acc_app_lf by exact Hnl.
    pose proof (lines_acc_nonempty rest [] Hne) as Hl.
    pose proof (lines_acc_nonempty_lines rest []) as Hnel.
    pose proof (splitlines_keepends_concat is_lf rest) as Hcat.
    fold (lf_lines rest) in Hcat. rewrite lf_lines_acc in Hcat.
    destruct (lines_acc rest []) as [|h t] eqn:El; [congruence|].
    destruct (@exists_last _ (h :: t)) as [L0 [last Hlast]]; [discriminate|]. rewrite Hlast in *.
    rewrite map_last_snoc. unfold app_lf.
    rewrite forallb_app in Hnel. apply andb_true_iff in Hnel. destruct Hnel as [_ Hnel].
    cbn [forallb] in Hnel. rewrite andb_true_r in Hnel.
    assert (Hlne : last <> []) by (destruct last; [discriminate|discriminate]).
    assert (Hend : ends_nl last = false).
    { rewrite concat_app in Hcat. cbn [concat] in Hcat. rewrite app_nil_r in Hcat.
      rewrite <- Hcat in Hnl. now rewrite ends_nl_app in Hnl by exact Hlne. }
    split; [|right; now exists L0, last].
    rewrite !filter_app, !map_app. f_equal. cbn [filter]. rewrite starts_hash_app by exact Hlne.
    destruct (negb (starts_hash last)); [|reflexivity]. cbn [map].
    now rewrite chomp_app_lf, chomp_no_nl.
Qed.

Lemma only_lf_lines s : splitlines only_lf true s = lines_acc s [].
Proof. change (splitlines only_lf true s) with (lf_lines s). apply lf_lines_acc. Qed.

Theorem value_str_setitem_raw c n V :
  valid_value V = true ->
  value_str (mkF c n (COLON :: setitem_raw V)) = expected_read V.
Proof.
  intros Hv. unfold valid_value in Hv. apply andb_true_iff in Hv. destruct Hv as [_ Hv].
  unfold expected_read. destruct (split_on_first 10%N V) as [first [rest|]] eqn:E.
  - (* multi-line *)
    change 10%N with LF in E. rewrite (setitem_raw_multi _ _ _ E).
    destruct (split_on_first_some _ _ _ _ E) as [_ Hfirst].
    unfold value_str, value_lines. cbn [f_rest tl].
    rewrite lf_lines_acc, lines_acc_prefix.
    2:{ cbn [forallb]. change (negb (SP =? LF)%N) with true. cbn [andb].
        now apply forallb_py_strip. }
    cbn [rev app]. rewrite only_lf_lines.
    destruct (lines_closed_rest rest) as [Hends [Hmap _]]. cbv zeta in Hends, Hmap.
    set (Ls := lines_acc rest []) in *. set (Ls' := lines_acc (closed_rest rest) []) in *.
    rewrite filter_map_comm.
    rewrite (filter_ext (fun a => negb (is_comment_line (chomp a))) (fun l => negb (starts_hash l)))
      by (intros a; change is_comment_line with starts_hash; now rewrite starts_hash_chomp).
    rewrite <- Hmap.
    set (F := filter (fun l => negb (starts_hash l)) Ls') in *.
    assert (HF : forallb ends_nl F = true).
    { subst F. rewrite forallb_forall in *. intros x Hx. apply filter_In in Hx. now apply Hends. }
    clearbody F. destruct F as [|m F'].
    + cbn [map]. change (join [10%N] [trim first]) with (trim first).
      change trim with py_strip. apply py_strip_first_line.
    + change (py_strip ((SP :: py_strip first) ++ [LF])) with (py_strip (SP :: py_strip first ++ [LF])).
      rewrite py_strip_first_line. rewrite join_cons by discriminate.
      rewrite concat_chomp_join by (try discriminate; exact HF).
      change trim with py_strip. change [10%N] with [LF].
      set (J := join [LF] (map chomp (m :: F'))).
      change (py_strip first ++ LF :: J ++ [LF]) with (py_strip first ++ ([LF] ++ J) ++ [LF]).
      rewrite app_assoc. unfold drop_final_nl. rewrite ends_nl_app_lf. now rewrite removelast_last.
  - (* single line *)
    change 10%N with LF in E. unfold setitem_raw. rewrite E.
    destruct (split_on_first_none _ _ _ E) as [_ HV].
    unfold value_str, value_lines. cbn [f_rest tl].
    change ([SP] ++ py_strip (py_strip V) ++ [LF]) with ((SP :: py_strip (py_strip V)) ++ LF :: []).
    rewrite lf_lines_acc, lines_acc_prefix.
    2:{ cbn [forallb]. change (negb (SP =? LF)%N) with true. cbn [andb].
        now apply forallb_py_strip, forallb_py_strip. }
    cbn [rev app lines_acc is_nil filter].
    change (py_strip (SP :: py_strip (py_strip V) ++ [LF]) = trim V).
    rewrite py_strip_first_line. change trim with py_strip. apply py_strip_idem.
Qed.

(** ** for a valid value the stored field is the whole text *)

Lemma name_char_no_break c : name_char c = true -> py_islinebreak c = false.
Proof.
  intros H. unfold py_islinebreak, py_linebreaks. cbn [existsb].
  repeat match goal with
         | |- context [N.eqb c ?k] => destruct (N.eqb_spec c k) as [->|_]; [discriminate H|]
         end.
  reflexivity.
Qed.

Lemma no_other_break_app a b : no_other_break (a ++ b) = no_other_break a && no_other_break b.
Proof. apply forallb_app. Qed.

Lemma no_break_no_lf s :
  forallb (fun c => negb (py_islinebreak c)) s = true ->
  no_other_break s = true /\ forallb (fun c => negb (c =? LF)%N) s = true.
Proof.
  intros H. unfold no_other_break. rewrite forallb_forall in H. split; apply forallb_forall; intros c Hc.
  - now rewrite (H c Hc).
  - specialize (H c Hc). destruct (N.eqb_spec c LF) as [->|]; [discriminate H|reflexivity].
Qed.

Lemma no_lf_no_break s :
  no_other_break s = true -> forallb (fun c => negb (c =? LF)%N) s = true ->
  forallb (fun c => negb (py_islinebreak c)) s = true.
Proof.
  unfold no_other_break. rewrite !forallb_forall. intros H1 H2 c Hc.
  specialize (H1 c Hc). specialize (H2 c Hc). apply negb_true_iff in H2. rewrite H2 in H1.
  now rewrite orb_false_r in H1.
Qed.

Lemma classify_comment_line l : is_comment_line l = true -> classify true l = LComment.
Proof.
  destruct l as [|c l]; [discriminate|]. cbn [is_comment_line]. intros H.
  apply N.eqb_eq in H. subst c. reflexivity.
Qed.

Lemma classify_cont_line l : is_cont_line l = true -> classify true l = LCont.
Proof.
  destruct l as [|c l]; [discriminate|]. cbn [is_cont_line]. intros H.
  apply andb_true_iff in H. destruct H as [Hc Hs]. apply negb_true_iff in Hs.
  unfold classify, Doc.is_ws_line. rewrite Hs. cbn [is_nil negb andb].
  change 32%N with SP in Hc. change 9%N with TAB in Hc. rewrite Hc.
  apply orb_true_iff in Hc. destruct Hc as [Hc|Hc]; apply N.eqb_eq in Hc; subst c; reflexivity.
Qed.

Lemma is_cont_line_app_lf l : l <> [] -> is_cont_line (l ++ [LF]) = is_cont_line l.
Proof.
  destruct l as [|c l]; [congruence|]. intros _. cbn [app is_cont_line]. f_equal. f_equal.
  change (c :: l ++ [LF]) with ((c :: l) ++ [LF]). rewrite forallb_app. cbn [forallb].
  change (py_isspace LF) with true. now rewrite !andb_true_r.
Qed.

Lemma last_opt_in {A} (l : list A) x : last_opt l = Some x -> exists l0, l = l0 ++ [x].
Proof.
  intros H. destruct l as [|a l]; [discriminate|].
  destruct (@exists_last _ (a :: l)) as [l0 [y Hy]]; [discriminate|]. rewrite Hy in *.
  rewrite last_opt_app in H. injection H as ->. now exists l0.
Qed.

Lemma last_opt_none {A} (l : list A) : last_opt l = None -> l = [].
Proof.
  destruct l as [|a l]; [reflexivity|]. intros H.
  destruct (@exists_last _ (a :: l)) as [l0 [y Hy]]; [discriminate|]. rewrite Hy, last_opt_app in H.
  discriminate.
Qed.

Lemma body_ok_lines rest :
  forallb (fun l => is_comment_line l || is_cont_line l) (lines_acc rest []) = true ->
  match last_opt (lines_acc rest []) with Some l => negb (is_comment_line l) | None => true end = true ->
  body_ok (lines_acc (closed_rest rest) []) = true.
Proof.
  intros Hall Hlast. destruct (lines_closed_rest rest) as [_ [_ Hshape]]. cbv zeta in Hshape.
  assert (Hbc : forall l, is_comment_line l || is_cont_line l = true -> body_class l = true).
  { intros l H. unfold body_class. apply orb_true_iff in H. destruct H as [H|H].
    - now rewrite (classify_comment_line _ H).
    - now rewrite (classify_cont_line _ H). }
  assert (Hcc : forall l, is_comment_line l || is_cont_line l = true -> is_comment_line l = false ->
                          cont_class l = true).
  { intros l H Hn. rewrite Hn in H. cbn [orb] in H. unfold cont_class.
    now rewrite (classify_cont_line _ H). }
  unfold body_ok. destruct (lines_acc rest []) as [|h t] eqn:El.
  - destruct Hshape as [->|[L0 [last [E _]]]]; [reflexivity|destruct L0; discriminate].
  - destruct (last_opt (h :: t)) as [lst|] eqn:Elast; [|now apply last_opt_none in Elast].
    apply negb_true_iff in Hlast. destruct (last_opt_in _ _ Elast) as [M0 HM].
    rewrite HM in Hall. rewrite forallb_app in Hall. apply andb_true_iff in Hall.
    destruct Hall as [HM0 Hl]. cbn [forallb] in Hl. rewrite andb_true_r in Hl.
    destruct Hshape as [->|[L0 [last [E [-> Hne]]]]].
    + rewrite HM. rewrite forallb_app, last_opt_app. cbn [forallb].
      destruct M0; cbn [app is_nil orb]; rewrite ?(Hbc _ Hl), ?(Hcc _ Hl Hlast), ?andb_true_r.
      * reflexivity.
      * rewrite forallb_forall in HM0. cbn [forallb]. rewrite Hbc by (apply HM0; now left).
        cbn [andb]. apply forallb_forall. intros x Hx. apply Hbc, HM0. now right.
    + rewrite HM in E. apply app_inj_tail in E. destruct E as [<- <-].
      assert (Hl' : is_comment_line (lst ++ [LF]) || is_cont_line (lst ++ [LF]) = true).
      { rewrite is_cont_line_app_lf by exact Hne. change is_comment_line with starts_hash in *.
        now rewrite starts_hash_app. }
      assert (Hlast' : is_comment_line (lst ++ [LF]) = false).
      { change is_comment_line with starts_hash in *. now rewrite starts_hash_app. }
      rewrite forallb_app, last_opt_app. cbn [forallb].
      rewrite (Hbc _ Hl'), (Hcc _ Hl' Hlast'), !andb_true_r.
      assert (HM0' : forallb body_class M0 = true).
      { apply forallb_forall. intros x Hx. apply Hbc. rewrite forallb_forall in HM0. now apply HM0. }
      rewrite HM0'. destruct M0; reflexivity.
Qed.

Lemma setitem_body_ok n V :
  forallb name_char n = true -> valid_value V = true ->
  body_ok (tl (splitlines py_islinebreak true (n ++ [COLON] ++ setitem_raw V))) = true.
Proof.
  intros Hn Hv. unfold valid_value in Hv. apply andb_true_iff in Hv. destruct Hv as [Hch Hv].
  change (fun c : N => negb (py_islinebreak c) || (c =? 10)%N) with
         (fun c : N => negb (py_islinebreak c) || (c =? LF)%N) in Hch.
  fold (no_other_break V) in Hch.
  assert (Hnb : forallb (fun c => negb (py_islinebreak c)) n = true).
  { rewrite forallb_forall in *. intros c Hc. now rewrite (name_char_no_break c (Hn c Hc)). }
  destruct (no_break_no_lf _ Hnb) as [Hn1 Hn2].
  destruct (split_on_first 10%N V) as [first [rest|]] eqn:E; change 10%N with LF in E.
  - rewrite (setitem_raw_multi _ _ _ E).
    destruct (split_on_first_some _ _ _ _ E) as [HV Hfirst]. rewrite HV in Hch.
    rewrite no_other_break_app in Hch. apply andb_true_iff in Hch. destruct Hch as [Hf Hr].
    change (LF :: rest) with ([LF] ++ rest) in Hr. rewrite no_other_break_app in Hr.
    apply andb_true_iff in Hr. destruct Hr as [_ Hr].
    pose proof (no_lf_no_break _ Hf Hfirst) as Hfb.
    pose proof (forallb_py_strip _ _ Hfb) as Hsb. destruct (no_break_no_lf _ Hsb) as [Hs1 Hs2].
    set (sf := py_strip first) in *.
    assert (Hpre : n ++ [COLON] ++ (SP :: sf) ++ LF :: closed_rest rest
                   = (n ++ COLON :: SP :: sf) ++ LF :: closed_rest rest).
    { now rewrite <- !app_assoc. }
    rewrite Hpre. unfold splitlines. rewrite splitlines_aux_lines_acc.
    + rewrite lines_acc_prefix.
      * cbn [tl]. rewrite only_lf_lines in Hv. apply andb_true_iff in Hv. destruct Hv as [H1 H2].
        now apply body_ok_lines.
      * rewrite forallb_app. cbn [forallb]. now rewrite Hn2, Hs2.
    + reflexivity.
    + fold (no_other_break ((n ++ COLON :: SP :: sf) ++ LF :: closed_rest rest)).
      rewrite no_other_break_app. change (COLON :: SP :: sf) with ([COLON; SP] ++ sf).
      rewrite !no_other_break_app, Hn1, Hs1. cbn [andb].
      change (no_other_break [COLON; SP]) with true. cbn [andb].
      change (LF :: closed_rest rest) with ([LF] ++ closed_rest rest). rewrite no_other_break_app.
      change (no_other_break [LF]) with true. cbn [andb]. unfold closed_rest.
      destruct (closed rest); [exact Hr|]. rewrite no_other_break_app, Hr. reflexivity.
  - unfold setitem_raw. rewrite E.
    destruct (split_on_first_none _ _ _ E) as [_ HV].
    pose proof (no_lf_no_break _ Hch HV) as Hvb.
    pose proof (forallb_py_strip _ _ (forallb_py_strip _ _ Hvb)) as Hsb.
    destruct (no_break_no_lf _ Hsb) as [Hs1 Hs2]. set (sf := py_strip (py_strip V)) in *.
    assert (Hpre : n ++ [COLON] ++ [SP] ++ sf ++ [LF] = (n ++ COLON :: SP :: sf) ++ LF :: []).
    { now rewrite <- !app_assoc. }
    rewrite Hpre. unfold splitlines. rewrite splitlines_aux_lines_acc.
    + rewrite lines_acc_prefix; [reflexivity|]. rewrite forallb_app. cbn [forallb]. now rewrite Hn2, Hs2.
    + reflexivity.
    + fold (no_other_break ((n ++ COLON :: SP :: sf) ++ [LF])).
      rewrite no_other_break_app. change (COLON :: SP :: sf) with ([COLON; SP] ++ sf).
      rewrite !no_other_break_app, Hn1, Hs1. reflexivity.
Qed.

(** the dict interface, complete: where the new field goes, its comment, and — for every value
    deb822 can carry — the value it reads back as *)
Theorem setitem_readback p k V p' :
  para_inv p = true -> setitem p k V = Ok p' ->
  para_inv p' = true /\
  exists v orig, own_lines v = true /\ new_for p k p' v orig
                 /\ f_comment v = match orig with Some f => f_comment f | None => [] end
                 /\ (valid_value V = true ->
                     f_rest v = COLON :: setitem_raw V /\ value_str v = expected_read V).
Proof.
  intros Hinv H. destruct (setitem_spec _ _ _ _ Hinv H) as [Hi [v [orig [Ho [Hn [Hc Hw]]]]]].
  split; [exact Hi|]. exists v, orig. repeat split; try assumption.
  - apply Hw. apply setitem_body_ok; [|assumption]. unfold own_lines in Ho.
    apply andb_true_iff in Ho. destruct Ho as [Ho _]. apply andb_true_iff in Ho. destruct Ho as [Ho _].
    apply andb_true_iff in Ho. now destruct Ho.
  - rewrite <- (value_str_setitem_raw (f_comment v) (f_name v) V) by assumption.
    assert (Hr : f_rest v = COLON :: setitem_raw V).
    { apply Hw. apply setitem_body_ok; [|assumption]. unfold own_lines in Ho.
      apply andb_true_iff in Ho. destruct Ho as [Ho _]. apply andb_true_iff in Ho. destruct Ho as [Ho _].
      apply andb_true_iff in Ho. now destruct Ho. }
    unfold value_str. cbn [f_rest]. now rewrite Hr.
Qed.

(** after a delete the name is gone *)
Lemma getitem_deleted p p' n l1 f l2 k' :
  para_inv p = true -> para_inv p' = true ->
  para_fields p = l1 ++ f :: l2 -> has_name n f = true -> para_fields p' = l1 ++ l2 ->
  plain_key k' = true -> name_eqb (key_name k') n = true ->
  getitem p' k' = Err KeyError.
Proof.
  intros Hp Hp' Hpf Hf Hpf' Hk Hn.
  rewrite getitem_fields by assumption. rewrite Hpf'. unfold read_name.
  apply para_inv_fields in Hp. rewrite Hpf in Hp.
  destruct (fields_inv_absent_before _ _ _ _ Hp Hf) as [H1 H2].
  assert (Hab : absent (key_name k') (l1 ++ l2) = true).
  { rewrite (absent_cong _ _ _ Hn), absent_app. now rewrite H1, H2. }
  destruct (List.find (has_name (key_name k')) (l1 ++ l2)) as [g|] eqn:Ef; [|reflexivity].
  apply find_some_split in Ef. destruct Ef as [m1 [m2 [E [_ Hg]]]]. rewrite E in Hab.
  rewrite absent_app in Hab. cbn [absent forallb] in Hab. rewrite Hg in Hab. cbn in Hab.
  now rewrite andb_false_r in Hab.
Qed.

(** * Part 10 : re-reading the text of a paragraph gives its fields back *)

(** ** lines of composed texts *)

Lemma lines_acc_cur s : forall cur,
  s <> [] ->
  lines_acc s cur = match lines_acc s [] with l :: ls => (rev cur ++ l) :: ls | [] => [] end.
Proof.
  induction s as [|x s IH]; intros cur Hs; [congruence|].
  cbn [lines_acc]. destruct (N.eqb_spec x LF) as [->|Hne]; [reflexivity|].
  destruct s as [|y s].
  - reflexivity.
  - rewrite (IH (x :: cur)), (IH [x]) by discriminate.
    pose proof (lines_acc_nonempty (y :: s) [] ltac:(discriminate)) as Hl.
    destruct (lines_acc (y :: s) []) as [|l ls]; [congruence|]. cbn [rev app].
    now rewrite <- app_assoc.
Qed.

Lemma lines_acc_app_closed a : forall b cur,
  ends_nl a = true -> lines_acc (a ++ b) cur = lines_acc a cur ++ lines_acc b [].
Proof.
  induction a as [|x a IH]; intros b cur H; [discriminate|].
  cbn [app lines_acc]. destruct (N.eqb_spec x LF) as [->|Hne].
  - cbn [app]. f_equal. destruct a as [|y a]; [reflexivity|]. apply IH.
    now rewrite ends_nl_cons in H by discriminate.
  - destruct a as [|y a].
    + unfold ends_nl in H. cbn in H. apply N.eqb_eq in H. congruence.
    + apply IH. now rewrite ends_nl_cons in H by discriminate.
Qed.

Lemma lf_lines_app_closed a b : closed a = true -> lf_lines (a ++ b) = lf_lines a ++ lf_lines b.
Proof.
  intros H. rewrite !lf_lines_acc. unfold closed in H. destruct a as [|x a]; [reflexivity|].
  cbn [is_nil orb] in H. now apply lines_acc_app_closed.
Qed.

Lemma lines_acc_nolf n : forall s cur,
  forallb (fun c => negb (c =? LF)%N) n = true -> lines_acc (n ++ s) cur = lines_acc s (rev n ++ cur).
Proof.
  induction n as [|x n IH]; intros s cur H; [reflexivity|].
  cbn [forallb] in H. apply andb_true_iff in H. destruct H as [Hx H]. apply negb_true_iff in Hx.
  cbn [app lines_acc]. rewrite Hx, IH by exact H. cbn [rev]. now rewrite <- app_assoc.
Qed.

Lemma lf_lines_name_rest n rest :
  forallb (fun c => negb (c =? LF)%N) n = true -> rest <> [] ->
  lf_lines (n ++ rest) = match lf_lines rest with r1 :: bl => (n ++ r1) :: bl | [] => [] end.
Proof.
  intros Hn Hr. rewrite !lf_lines_acc, lines_acc_nolf by exact Hn. rewrite app_nil_r.
  rewrite lines_acc_cur by exact Hr. now rewrite rev_involutive.
Qed.

(** physical lines: LF-terminated, no LF inside *)
Definition phys (l : str) : bool := ends_nl l && negb (mem_char LF (removelast l)).

Lemma mem_char_forallb c s : negb (mem_char c s) = forallb (fun x => negb (x =? c)%N) s.
Proof.
  unfold mem_char. induction s as [|x s IH]; [reflexivity|]. cbn [existsb forallb].
  rewrite negb_orb, IH. now rewrite (N.eqb_sym c x).
Qed.

Lemma lf_lines_concat_phys ls : forallb phys ls = true -> lf_lines (concat ls) = ls.
Proof.
  induction ls as [|l ls IH]; [reflexivity|]. cbn [forallb concat]. intros H.
  apply andb_true_iff in H. destruct H as [Hl H]. unfold phys in Hl.
  apply andb_true_iff in Hl. destruct Hl as [He Hm]. apply ends_nl_split in He. destruct He as [l0 ->].
  rewrite removelast_last in Hm. rewrite mem_char_forallb in Hm.
  rewrite lf_lines_acc, <- app_assoc. cbn [app]. rewrite lines_acc_prefix by exact Hm.
  cbn [rev app]. f_equal. rewrite <- lf_lines_acc. now apply IH.
Qed.

(** ** how the pieces of a well-formed field are classified *)

Lemma classify_hash b c : starts_hash c = true -> classify b c = LComment.
Proof.
  destruct c as [|h c]; [discriminate|]. unfold starts_hash. intros H.
  apply N.eqb_eq in H. subst h. reflexivity.
Qed.

Lemma name_first_bounds c : name_first c = true -> (33 <= c <= 127)%N.
Proof. unfold name_first. intros H. lia. Qed.

Lemma name_char_bounds c : name_char c = true -> (33 <= c <= 127)%N.
Proof. unfold name_char. intros H. lia. Qed.

Lemma visible_not_space c : (33 <= c <= 127)%N -> py_isspace c = false.
Proof.
  intros H. unfold py_isspace, in_ranges.
  assert (Hall : forallb (fun r => (snd r <? 33)%N || (127 <? fst r)%N) py_space_ranges = true) by reflexivity.
  destruct (existsb (fun r => (fst r <=? c)%N && (c <=? snd r)%N) py_space_ranges) eqn:E; [|reflexivity].
  apply existsb_exists in E. destruct E as [r [Hr E]]. rewrite forallb_forall in Hall.
  specialize (Hall r Hr). lia.
Qed.

Lemma classify_field_line b n r1 :
  name_ok n = true -> colon_first r1 = true -> classify b (n ++ r1) = LField n r1.
Proof.
  intros Hn Hr. unfold name_ok in Hn. destruct n as [|c n0]; [discriminate|].
  apply andb_true_iff in Hn. destruct Hn as [Hc Hall].
  destruct r1 as [|d r1]; [discriminate|]. cbn [colon_first] in Hr. apply N.eqb_eq in Hr. subst d.
  pose proof (name_first_bounds c Hc) as Hb.
  unfold classify, Doc.is_ws_line. cbn [app forallb].
  rewrite (visible_not_space c Hb). cbn [andb is_nil negb].
  destruct (N.eqb_spec c HASH) as [->|_]; [discriminate Hc|].
  destruct (N.eqb_spec c SP) as [->|_]; [discriminate Hc|].
  destruct (N.eqb_spec c TAB) as [->|_]; [discriminate Hc|]. cbn [orb].
  unfold match_field_line. rewrite Hc.
  change (c :: n0 ++ COLON :: r1) with ((c :: n0) ++ COLON :: r1).
  rewrite span_forall_app by (try exact Hall; reflexivity). now rewrite N.eqb_refl.
Qed.

(** ** the scanner on the lines of well-formed fields *)

Lemma scan_fields_comments cl : forall L cur pend,
  forallb starts_hash cl = true ->
  scan_fields (cl ++ L) cur pend = scan_fields L cur (pend ++ concat cl).
Proof.
  induction cl as [|c cl IH]; intros L cur pend H.
  - cbn. now rewrite app_nil_r.
  - cbn [forallb] in H. apply andb_true_iff in H. destruct H as [Hc H].
    cbn [app scan_fields]. rewrite (classify_hash _ c Hc), IH by exact H.
    cbn [concat]. now rewrite app_assoc.
Qed.

Lemma scan_fields_cons l ls cur pend :
  scan_fields (l :: ls) cur pend =
  match classify (match cur with Some _ => true | None => false end) l with
  | LComment => scan_fields ls cur (pend ++ l)
  | LCont =>
      match cur with
      | Some f => scan_fields ls (Some (mkF (f_comment f) (f_name f) (f_rest f ++ pend ++ l))) []
      | None => Err ValueError
      end
  | LField n r =>
      do rest <- scan_fields ls (Some (mkF pend n r)) [];
      Ok (match cur with Some f => f :: rest | None => rest end)
  | LWs => Err OtherError
  | LError => Err ValueError
  end.
Proof. reflexivity. Qed.

Lemma scan_fields_body bl : forall L c n rest pend,
  bl <> [] -> forallb body_class bl = true ->
  match last_opt bl with Some l => cont_class l | None => false end = true ->
  scan_fields (bl ++ L) (Some (mkF c n rest)) pend
  = scan_fields L (Some (mkF c n (rest ++ pend ++ concat bl))) [].
Proof.
  induction bl as [|l bl IH]; intros L c n rest pend Hne Hall Hlast; [congruence|].
  cbn [forallb] in Hall. apply andb_true_iff in Hall. destruct Hall as [Hl Hall].
  cbn [app]. rewrite scan_fields_cons. cbn [f_comment f_name f_rest].
  destruct bl as [|l2 bl].
  - cbn [last_opt] in Hlast. unfold cont_class in Hlast.
    destruct (classify true l); try discriminate. cbn [app concat]. now rewrite app_nil_r.
  - assert (Hlast' : match last_opt (l2 :: bl) with Some l => cont_class l | None => false end = true)
      by exact Hlast.
    unfold body_class in Hl. destruct (classify true l); try discriminate.
    + rewrite IH by (try discriminate; assumption). cbn [concat]. now rewrite <- !app_assoc.
    + rewrite IH by (try discriminate; assumption). cbn [concat app]. now rewrite <- !app_assoc.
Qed.

Definition opt_cons (cur : option field) (r : list field) : list field :=
  match cur with Some f => f :: r | None => r end.

Lemma field_wf_parts f :
  field_wf f = true ->
  closed (f_comment f) = true /\ forallb starts_hash (lf_lines (f_comment f)) = true
  /\ name_ok (f_name f) = true
  /\ exists r1 bl, lf_lines (f_rest f) = r1 :: bl /\ colon_first r1 = true /\ body_ok bl = true.
Proof.
  unfold field_wf, comment_wf, rest_wf. intros H. apply andb_true_iff in H. destruct H as [H Hr].
  apply andb_true_iff in H. destruct H as [H Hn]. apply andb_true_iff in H. destruct H as [Hc Hh].
  repeat split; try assumption.
  destruct (lf_lines (f_rest f)) as [|r1 bl]; [discriminate|].
  apply andb_true_iff in Hr. destruct Hr as [H1 H2]. now exists r1, bl.
Qed.

Lemma concat_lf_lines s : concat (lf_lines s) = s.
Proof. apply splitlines_keepends_concat. Qed.

Lemma scan_field_lines f L cur :
  field_wf f = true ->
  scan_fields (flines f ++ L) cur [] = do r <- scan_fields L (Some f) []; Ok (opt_cons cur r).
Proof.
  intros Hwf. destruct (field_wf_parts _ Hwf) as [Hc [Hh [Hn [r1 [bl [Hr [Hr1 Hbl]]]]]]].
  unfold flines. rewrite Hr, <- app_assoc, scan_fields_comments by exact Hh.
  cbn [app]. rewrite concat_lf_lines. cbn [app]. rewrite scan_fields_cons.
  rewrite (classify_field_line _ _ _ Hn Hr1).
  assert (Hf : f = mkF (f_comment f) (f_name f) (r1 ++ concat bl)).
  { pose proof (concat_lf_lines (f_rest f)) as E. rewrite Hr in E. cbn [concat] in E.
    destruct f as [c n r]. cbn in *. now rewrite E. }
  assert (Hbody : scan_fields (bl ++ L) (Some (mkF (f_comment f) (f_name f) r1)) []
                  = scan_fields L (Some f) []).
  { unfold body_ok in Hbl. destruct bl as [|b bl].
    - cbn [app concat] in *. rewrite app_nil_r in Hf. now rewrite <- Hf.
    - cbn [is_nil orb] in Hbl. apply andb_true_iff in Hbl. destruct Hbl as [H1 H2].
      rewrite scan_fields_body by (try discriminate; assumption). cbn [app]. now rewrite <- Hf. }
  rewrite Hbody. destruct (scan_fields L (Some f) []); [|reflexivity]. now destruct cur.
Qed.

Lemma scan_fields_all fs : forall cur,
  forallb field_wf fs = true ->
  scan_fields (concat (map flines fs)) cur [] = Ok (opt_cons cur fs).
Proof.
  induction fs as [|f fs IH]; intros cur H.
  - cbn. now destruct cur.
  - cbn [forallb] in H. apply andb_true_iff in H. destruct H as [Hf H].
    cbn [map concat]. rewrite scan_field_lines by exact Hf. now rewrite IH.
Qed.

Lemma name_ok_no_lf n : name_ok n = true -> forallb (fun c => negb (c =? LF)%N) n = true.
Proof.
  unfold name_ok. destruct n as [|c n]; [discriminate|]. intros H.
  apply andb_true_iff in H. destruct H as [_ H]. rewrite forallb_forall in *. intros x Hx.
  specialize (H x Hx). apply name_char_bounds in H. apply negb_true_iff, N.eqb_neq. unfold LF. lia.
Qed.

Lemma lf_lines_field_text f : field_wf f = true -> lf_lines (field_text f) = flines f.
Proof.
  intros Hwf. destruct (field_wf_parts _ Hwf) as [Hc [_ [Hn [r1 [bl [Hr _]]]]]].
  unfold field_text, flines. rewrite lf_lines_app_closed by exact Hc. f_equal.
  apply lf_lines_name_rest; [now apply name_ok_no_lf|]. intros E. rewrite E in Hr. discriminate.
Qed.

Lemma field_wf_rest_colon f : field_wf f = true -> rest_colon f = true.
Proof.
  intros Hwf. destruct (field_wf_parts _ Hwf) as [_ [_ [_ [r1 [bl [Hr [Hr1 _]]]]]]].
  pose proof (concat_lf_lines (f_rest f)) as E. rewrite Hr in E. cbn [concat] in E.
  unfold rest_colon. rewrite <- E. destruct r1; [discriminate|exact Hr1].
Qed.

Lemma lf_lines_ftext fs :
  forallb field_wf fs = true -> fields_closed (removelast fs) = true ->
  lf_lines (ftext fs) = concat (map flines fs).
Proof.
  induction fs as [|f fs IH]; [reflexivity|]. cbn [forallb]. intros H Hc.
  apply andb_true_iff in H. destruct H as [Hf H]. rewrite ftext_cons. cbn [map concat].
  destruct fs as [|g fs].
  - unfold ftext. cbn [map concat]. rewrite !app_nil_r. now apply lf_lines_field_text.
  - change (removelast (f :: g :: fs)) with (f :: removelast (g :: fs)) in Hc.
    unfold fields_closed in Hc. cbn [forallb] in Hc. apply andb_true_iff in Hc. destruct Hc as [Hfc Hc].
    rewrite lf_lines_app_closed.
    + rewrite lf_lines_field_text by exact Hf. f_equal. now apply IH.
    + pose proof (field_wf_rest_colon _ Hf) as Hrc.
      rewrite closed_nonempty by now apply field_text_nonempty.
      now rewrite ends_nl_field_text by now apply rest_colon_nonempty.
Qed.

(** re-reading the text of a paragraph whose fields are well-formed yields exactly its fields:
    comments, names as spelled, values, in order *)
Theorem scan_para_fields fs :
  forallb field_wf fs = true -> fields_closed (removelast fs) = true ->
  scan_para (ftext fs) = Ok fs.
Proof.
  intros Hwf Hc. unfold scan_para. rewrite lf_lines_ftext by assumption.
  now rewrite scan_fields_all.
Qed.

(** ** the field a set builds is well-formed *)

Definition nolf (s : str) : bool := forallb (fun c => negb (c =? LF)%N) s.

Lemma nolf_app a b : nolf (a ++ b) = nolf a && nolf b.
Proof. apply forallb_app. Qed.

Lemma nolf_removelast s : nolf s = true -> nolf (removelast s) = true.
Proof. apply forallb_removelast. Qed.

Lemma nolf_rev s : nolf (rev s) = nolf s.
Proof. apply forallb_rev. Qed.

(** lines produced by splitlines contain LF at most as their last character *)
Lemma splitlines_aux_inner islb :
  islb LF = true ->
  forall n s, length s <= n -> forall cur, nolf cur = true ->
  forall l, In l (splitlines_aux islb true s cur) -> nolf (removelast l) = true.
Proof.
  intros Hlf. induction n as [|n IH]; intros s Hlen cur Hcur l Hin.
  - destruct s; [|simpl in Hlen; lia]. cbn in Hin. destruct cur as [|c cur]; [contradiction|].
    destruct Hin as [<-|[]]. apply nolf_removelast. now rewrite nolf_rev.
  - destruct s as [|x s'].
    + cbn in Hin. destruct cur as [|c cur]; [contradiction|].
      destruct Hin as [<-|[]]. apply nolf_removelast. now rewrite nolf_rev.
    + simpl in Hlen. cbn [splitlines_aux] in Hin. destruct (islb x) eqn:Ex.
      * destruct s' as [|y s''].
        -- destruct Hin as [<-|[]]. rewrite removelast_last. now rewrite nolf_rev.
        -- destruct ((x =? 13)%N && (y =? 10)%N) eqn:Ecr.
           ++ destruct Hin as [<-|Hin].
              ** apply andb_true_iff in Ecr. destruct Ecr as [E1 _]. apply N.eqb_eq in E1. subst x.
                 change (rev cur ++ [13%N; y]) with (rev cur ++ [13%N] ++ [y]).
                 rewrite app_assoc, removelast_last, nolf_app, nolf_rev, Hcur. reflexivity.
              ** apply (IH s'' ltac:(simpl in Hlen; lia) [] eq_refl _ Hin).
           ++ destruct Hin as [<-|Hin].
              ** rewrite removelast_last. now rewrite nolf_rev.
              ** apply (IH (y :: s'') ltac:(lia) [] eq_refl _ Hin).
      * apply (IH s' ltac:(lia) (x :: cur)); [|exact Hin]. unfold nolf. cbn [forallb].
        fold (nolf cur). rewrite Hcur, andb_true_r. apply negb_true_iff, N.eqb_neq. intros ->. congruence.
Qed.

Lemma splitlines_inner s l :
  In l (splitlines py_islinebreak true s) -> nolf (removelast l) = true.
Proof. intros H. eapply (splitlines_aux_inner py_islinebreak eq_refl (length s) s (le_n _) []); [reflexivity|exact H]. Qed.

Lemma phys_intro l : ends_nl l = true -> nolf (removelast l) = true -> phys l = true.
Proof.
  intros H1 H2. unfold phys. rewrite H1. cbn [andb]. rewrite mem_char_forallb. exact H2.
Qed.

Lemma phys_parts l : phys l = true -> ends_nl l = true /\ nolf (removelast l) = true.
Proof.
  unfold phys. intros H. apply andb_true_iff in H. destruct H as [H1 H2].
  rewrite mem_char_forallb in H2. now split.
Qed.

(** the value text [scan_body] returns is made of whole body lines *)
Lemma last_opt_snoc_cons {A} (l : list A) x m :
  last_opt (l ++ x :: m) = match last_opt m with Some y => Some y | None => Some x end.
Proof.
  destruct m as [|y m].
  - cbn [last_opt]. apply last_opt_app.
  - rewrite (last_opt_app2 l (x :: y :: m)) by discriminate.
    change (last_opt (x :: y :: m)) with (last_opt (y :: m)).
    destruct (last_opt (y :: m)) eqn:E; [reflexivity|]. apply last_opt_none in E. discriminate.
Qed.

Lemma scan_body_used ls : forall pl acc rest,
  forallb phys ls = true ->
  forallb phys pl = true -> forallb body_class pl = true ->
  scan_body ls (concat pl) acc = Ok rest ->
  exists bl, rest = acc ++ concat bl /\ body_ok bl = true /\ forallb phys bl = true.
Proof.
  induction ls as [|l ls IH]; intros pl acc rest Hls Hpl Hbc H.
  - injection H as <-. exists []. now rewrite app_nil_r.
  - cbn [forallb] in Hls. apply andb_true_iff in Hls. destruct Hls as [Hl Hls].
    rewrite scan_body_cons in H. destruct (classify true l) eqn:Ec.
    + bind_inv H. injection Hb as <-. exists []. now rewrite app_nil_r.
    + apply (IH (pl ++ [l]) acc rest Hls).
      * rewrite forallb_app. cbn [forallb]. now rewrite Hpl, Hl.
      * rewrite forallb_app. cbn [forallb]. unfold body_class at 2. now rewrite Hbc, Ec.
      * rewrite concat_app. cbn [concat]. now rewrite app_nil_r.
    + change (@nil N) with (concat (@nil str)) in H.
      destruct (IH [] _ _ Hls eq_refl eq_refl H) as [bl [-> [Hbl Hph]]].
      exists (pl ++ l :: bl). split.
      * rewrite concat_app. cbn [concat]. now rewrite <- !app_assoc.
      * split.
        -- unfold body_ok in *.
           assert (Hnn : is_nil (pl ++ l :: bl) = false) by (destruct pl; reflexivity).
           rewrite Hnn. cbn [orb]. rewrite forallb_app. cbn [forallb]. rewrite Hbc.
           unfold body_class at 1. rewrite Ec. cbn [andb].
           rewrite last_opt_snoc_cons.
           destruct bl as [|b bl].
           ++ cbn [forallb last_opt]. unfold cont_class. now rewrite Ec.
           ++ cbn [is_nil orb] in Hbl. apply andb_true_iff in Hbl. destruct Hbl as [H1 H2].
              rewrite H1. cbn [andb].
              match type of H2 with (match ?t with _ => _ end) = _ => destruct t end;
                [exact H2|discriminate].
        -- rewrite forallb_app. cbn [forallb]. now rewrite Hpl, Hl, Hph.
    + discriminate.
    + discriminate.
Qed.


Lemma nolf_not_ends s : s <> [] -> nolf (removelast s) = true -> ends_nl s = false -> nolf s = true.
Proof.
  intros Hs Hr He. destruct (@exists_last _ s Hs) as [s0 [c ->]]. rewrite removelast_last in Hr.
  rewrite nolf_app, Hr. cbn [andb]. unfold nolf. cbn [forallb]. rewrite andb_true_r.
  unfold ends_nl in He. rewrite last_opt_app in He. now rewrite He.
Qed.

Lemma format_comment_nolf c c' : format_comment c = Ok c' -> nolf (removelast c') = true.
Proof.
  unfold format_comment. destruct (is_nil c) eqn:Enil; [now intros [= <-]|].
  destruct (mem_char LF (removelast c)) eqn:Hm; [discriminate|].
  assert (Hm' : nolf (removelast c) = true).
  { unfold nolf. rewrite <- mem_char_forallb. now rewrite Hm. }
  assert (Hc : c <> []) by (intros ->; discriminate).
  set (c1 := if ends_nl c then c else py_rstrip c ++ [LF]).
  assert (H1 : nolf (removelast c1) = true).
  { subst c1. destruct (ends_nl c) eqn:He; [exact Hm'|]. rewrite removelast_last.
    pose proof (nolf_not_ends c Hc Hm' He) as Hn.
    unfold py_rstrip, rstrip_by, rdropwhile. rewrite nolf_rev. apply forallb_dropwhile. now rewrite forallb_rev. }
  clearbody c1. destruct c1 as [|x c1]; [now intros [= <-]|].
  destruct (x =? HASH)%N; intros [= <-]; [exact H1|].
  unfold py_lstrip, lstrip_by.
  pose proof (span_app py_isspace (x :: c1)) as Hsp. rewrite <- dropwhile_span in Hsp.
  destruct (dropwhile py_isspace (x :: c1)) as [|y t]; [reflexivity|].
  change (HASH :: SP :: y :: t) with ([HASH; SP] ++ (y :: t)).
  rewrite removelast_app by discriminate. rewrite nolf_app.
  change (nolf [HASH; SP]) with true. cbn [andb].
  rewrite <- Hsp in H1. rewrite removelast_app in H1 by discriminate.
  rewrite nolf_app in H1. apply andb_true_iff in H1. now destruct H1.
Qed.

Lemma map_result_format_comment_nolf l cs :
  map_result format_comment l = Ok cs -> forallb (fun c => nolf (removelast c)) cs = true.
Proof.
  revert cs. induction l as [|c l IH]; intros cs H.
  - now injection H as <-.
  - cbn [map_result] in H. bind_inv H. bind_inv Hb. injection Hbb as <-.
    cbn [forallb]. rewrite (format_comment_nolf _ _ Ha). now apply IH.
Qed.

Lemma comment_wf_concat cs :
  forallb starts_hash cs = true -> forallb phys cs = true -> comment_wf (concat cs) = true.
Proof.
  intros Hh Hp. unfold comment_wf. rewrite lf_lines_concat_phys by exact Hp. rewrite Hh, andb_true_r.
  apply forallb_ends_nl_closed. rewrite forallb_forall in *. intros x Hx. now apply phys_parts, Hp.
Qed.

Lemma comment_wf_nil : comment_wf [] = true.
Proof. reflexivity. Qed.

(** the field [parse_new_field] returns is well-formed *)
Lemma parse_new_field_wf comments raw fname cased v :
  forallb starts_hash comments = true ->
  forallb (fun c => nolf (removelast c)) comments = true ->
  validate_raw_lines (splitlines py_islinebreak true (cased ++ [COLON] ++ raw)) = Ok tt ->
  length cased = length fname ->
  parse_new_field (comments ++ splitlines py_islinebreak true (cased ++ [COLON] ++ raw)) fname = Ok v ->
  field_wf v = true.
Proof.
  intros Hcs Hin Hval Hlen H.
  destruct (parse_new_field_shape _ _ _ _ _ Hcs Hval Hlen H)
    as [Hn [_ [[Hnok Hcnl] [Hc [_ [_ [Hnl [first [others [r' [Hlines [Hfirst Hbody]]]]]]]]]]]].
  destruct (validate_raw_lines_ok _ Hval) as [Hends _]. rewrite Hlines in Hends.
  cbn [forallb] in Hends. apply andb_true_iff in Hends. destruct Hends as [Hfe Hoe].
  assert (Hinner : forall l, In l (first :: others) -> nolf (removelast l) = true).
  { intros l Hl. rewrite <- Hlines in Hl. now apply splitlines_inner in Hl. }
  assert (Hphys_o : forallb phys others = true).
  { apply forallb_forall. intros l Hl. apply phys_intro.
    - rewrite forallb_forall in Hoe. now apply Hoe.
    - apply Hinner. now right. }
  assert (Hphys_r : phys (COLON :: r') = true).
  { apply phys_intro.
    - rewrite Hfirst in Hfe. now rewrite ends_nl_app in Hfe by discriminate.
    - specialize (Hinner first (or_introl eq_refl)). rewrite Hfirst in Hinner.
      rewrite removelast_app in Hinner by discriminate. rewrite nolf_app in Hinner.
      apply andb_true_iff in Hinner. now destruct Hinner. }
  change (@nil N) with (concat (@nil str)) in Hbody.
  destruct (scan_body_used others [] _ _ Hphys_o eq_refl eq_refl Hbody) as [bl [Hrest [Hbl Hpb]]].
  unfold field_wf. rewrite Hn, Hnok, Hc. rewrite andb_true_r.
  apply andb_true_iff. split.
  - apply comment_wf_concat; [exact Hcs|]. apply forallb_forall. intros c Hc'. apply phys_intro.
    + rewrite forallb_forall in Hcnl. now apply Hcnl.
    + rewrite forallb_forall in Hin. now apply Hin.
  - unfold rest_wf. rewrite Hrest.
    change ((COLON :: r') ++ concat bl) with (concat ((COLON :: r') :: bl)).
    rewrite lf_lines_concat_phys by (cbn [forallb]; now rewrite Hphys_r, Hpb).
    now rewrite Hbl.
Qed.

(** ** [add_nl] keeps a field well-formed *)

Lemma classify_true_app_lf l :
  l <> [] -> body_class l = true -> classify true (l ++ [LF]) = classify true l.
Proof.
  intros Hl Hb. unfold body_class in Hb. destruct l as [|c l]; [congruence|].
  unfold classify, Doc.is_ws_line in *. cbn [app is_nil negb andb] in *.
  change (c :: l ++ [LF]) with ((c :: l) ++ [LF]). rewrite forallb_app. cbn [forallb].
  change (py_isspace LF) with true. rewrite !andb_true_r.
  destruct (forallb py_isspace (c :: l)) eqn:Ews; [discriminate|].
  destruct (c =? HASH)%N; [reflexivity|].
  destruct ((c =? SP)%N || (c =? TAB)%N); [reflexivity|].
  destruct (match_field_line (c :: l)) as [[? ?]|]; discriminate.
Qed.

Lemma body_class_nonempty l : body_class l = true -> l <> [].
Proof. intros H ->. discriminate. Qed.

Lemma body_ok_map_last bl : body_ok bl = true -> body_ok (map_last app_lf bl) = true.
Proof.
  unfold body_ok. destruct bl as [|b bl]; [reflexivity|]. cbn [is_nil orb]. intros H.
  apply andb_true_iff in H. destruct H as [Hall Hlast].
  destruct (@exists_last _ (b :: bl)) as [bl0 [lst E]]; [discriminate|]. rewrite E in *.
  rewrite map_last_snoc. rewrite last_opt_app in *. rewrite forallb_app in *. cbn [forallb] in *.
  apply andb_true_iff in Hall. destruct Hall as [H0 Hl]. rewrite andb_true_r in Hl.
  assert (Hne : lst <> []) by now apply body_class_nonempty.
  assert (Hcl : classify true (app_lf lst) = classify true lst) by now apply classify_true_app_lf.
  assert (Hnn : is_nil (bl0 ++ [app_lf lst]) = false) by (destruct bl0; reflexivity).
  rewrite Hnn, H0. cbn [orb andb]. unfold body_class, cont_class in *. now rewrite Hcl, Hl, Hlast.
Qed.

Lemma field_wf_add_nl f : field_wf f = true -> field_wf (add_nl f) = true.
Proof.
  intros Hwf. unfold add_nl. destruct (ends_nl (f_rest f)) eqn:He; [exact Hwf|].
  unfold field_wf in *. cbn [f_comment f_name f_rest].
  apply andb_true_iff in Hwf. destruct Hwf as [Hcn Hr]. rewrite Hcn. cbn [andb].
  unfold rest_wf in *. rewrite lf_lines_acc in *.
  destruct (f_rest f) as [|c s] eqn:Er; [discriminate|].
  rewrite lines_acc_app_lf by exact He.
  destruct (lines_acc (c :: s) []) as [|r1 bl] eqn:El; [discriminate|].
  apply andb_true_iff in Hr. destruct Hr as [Hr1 Hbl].
  destruct bl as [|b bl].
  - cbn [map_last]. unfold app_lf. destruct r1; [discriminate|]. cbn [app colon_first] in *. now rewrite Hr1.
  - rewrite map_last_cons2 by discriminate. rewrite Hr1. cbn [andb]. now apply body_ok_map_last.
Qed.

Lemma forallb_field_wf_map_last fs :
  forallb field_wf fs = true -> forallb field_wf (map_last add_nl fs) = true.
Proof.
  induction fs as [|f fs IH]; [reflexivity|]. cbn [forallb]. intros H.
  apply andb_true_iff in H. destruct H as [Hf H]. destruct fs as [|g fs].
  - cbn [map_last forallb]. now rewrite field_wf_add_nl.
  - rewrite map_last_cons2 by discriminate. cbn [forallb]. rewrite Hf. now apply IH.
Qed.

(** ** every operation keeps the fields of its paragraph well-formed *)

Definition fc_wf (fc : fcomment) : bool :=
  match fc with FCElem t => comment_wf t | _ => true end.

Lemma field_wf_comment f : field_wf f = true -> comment_wf (f_comment f) = true.
Proof.
  unfold field_wf. intros H. apply andb_true_iff in H. destruct H as [H _].
  apply andb_true_iff in H. now destruct H.
Qed.

Lemma field_wf_set_comment v c :
  field_wf v = true -> comment_wf c = true -> field_wf (mkF c (f_name v) (f_rest v)) = true.
Proof.
  unfold field_wf. cbn [f_comment f_name f_rest]. intros H Hc.
  apply andb_true_iff in H. destruct H as [H Hr]. apply andb_true_iff in H. destruct H as [_ Hn].
  now rewrite Hc, Hn, Hr.
Qed.

Lemma para_wf_in p f : para_wf p = true -> In f (para_fields p) -> field_wf f = true.
Proof. unfold para_wf. rewrite forallb_forall. auto. Qed.

Lemma set_raw_core_wf p k raw comments pres fc p' :
  para_inv p = true -> para_wf p = true ->
  forallb starts_hash comments = true ->
  forallb (fun c => nolf (removelast c)) comments = true -> fc_wf fc = true ->
  set_raw_core p k raw comments pres fc = Ok p' -> para_wf p' = true.
Proof.
  intros Hinv Hwf Hcs Hin Hfc H. unfold set_raw_core in H.
  destruct (p_get p k true) as [original| |e] eqn:Eget;
    [|now apply p_get_not_amb in Eget|discriminate].
  cbn [bind] in H.
  set (cased := match original with Some f => f_name f | None => key_name k end) in *.
  bind_inv H. destruct x. bind_inv Hb. rename x into v0. bind_inv Hbb. rename x into v.
  assert (Horig : forall o, original = Some o -> field_wf o = true).
  { intros o ->. destruct (p_get_some _ _ _ Hinv Eget) as [l1 [l2 [Hpf _]]].
    apply (para_wf_in p); [exact Hwf|]. rewrite Hpf. apply in_elt. }
  assert (Hlen : length cased = length (key_name k)).
  { subst cased. destruct original as [f|]; [|reflexivity].
    destruct (p_get_some _ _ _ Hinv Eget) as [l1 [l2 [_ [Hf _]]]].
    now apply name_eqb_length in Hf. }
  pose proof (parse_new_field_wf _ _ _ _ _ Hcs Hin Ha Hlen Hba) as Hwf0.
  assert (Hv : field_wf v = true).
  { destruct (match pres with None => true | Some b => b end).
    - destruct original as [o|].
      + apply set_comment_ok in Hbba. destruct Hbba as [-> _].
        apply field_wf_set_comment; [exact Hwf0|]. now apply field_wf_comment, Horig.
      + now injection Hbba as <-.
    - destruct fc as [|l|t].
      + now injection Hbba as <-.
      + now injection Hbba as <-.
      + apply set_comment_ok in Hbba. destruct Hbba as [-> _].
        now apply field_wf_set_comment. }
  pose proof (field_wf_rest_colon _ Hv) as Hrc.
  destruct (p_set_kvpair_spec _ _ _ _ Hinv Hrc Hbbb) as [_ [_ Hcases]].
  unfold para_wf in *.
  destruct Hcases as [[l1 [f [l2 [_ [Hpf [_ [_ Hpf']]]]]]]|[_ [_ Hpf']]]; rewrite Hpf'.
  - rewrite Hpf in Hwf. rewrite forallb_app in *. cbn [forallb] in *.
    apply andb_true_iff in Hwf. destruct Hwf as [H1 H2]. apply andb_true_iff in H2. destruct H2 as [_ H2].
    now rewrite H1, Hv, H2.
  - rewrite forallb_app. cbn [forallb]. rewrite Hv, andb_true_r. now apply forallb_field_wf_map_last.
Qed.

Lemma set_raw_wf p k raw pres fc p' :
  para_inv p = true -> para_wf p = true -> fc_wf fc = true ->
  set_raw p k raw pres fc = Ok p' -> para_wf p' = true.
Proof.
  intros Hinv Hwf Hfc H. unfold set_raw in H. bind_inv H. destruct x as [[comments pres'] fc'].
  unfold raw_args in Ha.
  destruct pres as [b|]; destruct fc as [|l|t]; try discriminate.
  - injection Ha as <- <- <-. now apply (set_raw_core_wf p k raw [] (Some b) FCNone).
  - injection Ha as <- <- <-. now apply (set_raw_core_wf p k raw [] None FCNone).
  - bind_inv Ha. injection Hab as <- <- <-.
    apply (set_raw_core_wf p k raw x (Some false) FCNone); try assumption.
    + now apply map_result_format_comment in Haa.
    + now apply map_result_format_comment_nolf in Haa.
  - injection Ha as <- <- <-. now apply (set_raw_core_wf p k raw [] (Some false) (FCElem t)).
Qed.

Lemma setitem_wf p k value p' :
  para_inv p = true -> para_wf p = true -> setitem p k value = Ok p' -> para_wf p' = true.
Proof.
  intros Hinv Hwf H. unfold setitem in H. bind_inv H. rename x into orig0.
  set (fc := match orig0 with
             | Some f => if is_nil (f_comment f) then FCNone else FCElem (f_comment f)
             | None => FCNone
             end) in *.
  assert (Hfc : fc_wf fc = true).
  { subst fc. destruct orig0 as [f|]; [|reflexivity]. destruct (is_nil (f_comment f)); [reflexivity|].
    cbn [fc_wf]. apply field_wf_comment. rewrite p_get_lookup_key in Ha by exact Hinv.
    destruct (p_get p k true) as [o| |e] eqn:Eg; try discriminate. injection Ha as ->.
    destruct (p_get_some _ _ _ Hinv Eg) as [l1 [l2 [Hpf _]]].
    apply (para_wf_in p); [exact Hwf|]. rewrite Hpf. apply in_elt. }
  destruct (split_on_first LF value) as [first [rest|]].
  - cbv zeta in Hb. now apply (set_raw_wf _ _ _ _ _ _ Hinv Hwf Hfc Hb).
  - unfold set_simple in Hb. destruct (mem_char LF (py_strip value)); [discriminate|].
    now apply (set_raw_wf _ _ _ _ _ _ Hinv Hwf Hfc Hb).
Qed.

Lemma op_on_para_wf o p p' :
  para_inv p = true -> para_wf p = true -> op_on_para o p = Ok p' -> para_wf p' = true.
Proof.
  intros Hinv Hwf H. destruct o as [j k v|j k|j k v pres fc|j k v pres fc]; cbn [op_on_para] in H.
  - now apply (setitem_wf p k v).
  - destruct (p_remove_spec _ _ _ Hinv H) as [_ [l1 [f [l2 [Hpf [_ [_ Hpf']]]]]]].
    unfold para_wf in *. rewrite Hpf' , Hpf in *. rewrite forallb_app in *. cbn [forallb] in Hwf.
    apply andb_true_iff in Hwf. destruct Hwf as [H1 H2]. apply andb_true_iff in H2. destruct H2 as [_ H2].
    now rewrite H1, H2.
  - unfold set_simple in H. destruct (mem_char LF v); [discriminate|].
    apply (set_raw_wf _ _ _ _ _ _ Hinv Hwf) in H; [exact H|]. now destruct fc.
  - apply (set_raw_wf _ _ _ _ _ _ Hinv Hwf) in H; [exact H|]. now destruct fc.
Qed.

Lemma forallb_para_wf_split a p b :
  forallb para_wf (paras (a ++ Para p :: b))
  = forallb para_wf (paras a) && (para_wf p && forallb para_wf (paras b)).
Proof. rewrite paras_app. cbn [paras flat_map app]. now rewrite forallb_app. Qed.

Theorem run_op_wf d o d' : doc_wf d = true -> run_op d o = Ok d' -> doc_wf d' = true.
Proof.
  unfold doc_wf. intros H Hr. apply andb_true_iff in H. destruct H as [Hok Hwf].
  rewrite (run_op_ok_preserved _ _ _ Hok Hr). cbn [andb].
  destruct (run_op_ok _ _ _ Hr) as [a [p [b [p' [Hs [Hop ->]]]]]].
  rewrite (split_doc_eq _ _ _ _ _ Hs) in Hwf, Hok. rewrite forallb_para_wf_split in *.
  apply andb_true_iff in Hwf. destruct Hwf as [Ha Hpb]. apply andb_true_iff in Hpb. destruct Hpb as [Hp Hb].
  unfold doc_ok in Hok. apply andb_true_iff in Hok. destruct Hok as [Hinv _].
  rewrite doc_inv_split in Hinv. apply andb_true_iff in Hinv. destruct Hinv as [_ Hinv].
  apply andb_true_iff in Hinv. destruct Hinv as [Hpi _].
  now rewrite Ha, Hb, (op_on_para_wf _ _ _ Hpi Hp Hop).
Qed.

Theorem run_wf ops : forall d, doc_wf d = true -> doc_wf (run d ops) = true.
Proof.
  induction ops as [|o ops IH]; intros d H; [exact H|].
  unfold run. cbn [fold_left]. apply IH. unfold step.
  destruct (run_op d o) as [d'|e] eqn:E; [|exact H]. now apply (run_op_wf d o).
Qed.

(** every paragraph of a well-formed document re-reads to its own fields *)
Theorem paragraphs_reread d j a p b :
  doc_wf d = true -> split_doc d j = Some (a, p, b) ->
  scan_para (para_text p) = Ok (para_fields p).
Proof.
  unfold doc_wf, doc_ok. intros H Hs. apply andb_true_iff in H. destruct H as [Hok Hwf].
  apply andb_true_iff in Hok. destruct Hok as [_ Hl].
  rewrite (split_doc_eq _ _ _ _ _ Hs) in Hwf, Hl. rewrite forallb_para_wf_split in Hwf.
  apply andb_true_iff in Hwf. destruct Hwf as [_ Hpb]. apply andb_true_iff in Hpb. destruct Hpb as [Hp _].
  rewrite lines_ok_app in Hl. apply andb_true_iff in Hl. destruct Hl as [_ Hl].
  apply andb_true_iff in Hl. destruct Hl as [Hl _]. apply andb_true_iff in Hl. destruct Hl as [_ Hi].
  rewrite para_text_ftext. now apply scan_para_fields.
Qed.
