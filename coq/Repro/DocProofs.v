(** Proofs about the field-level document model Repro/Doc.v (C05).

    Part 1: lists, texts, the document level (an edit of paragraph [j] touches
            nothing outside that paragraph).
    Part 2: what the text of a newly built field looks like (name spelling, colon,
            final newline, comment).
    Part 3: the two paragraph classes: which field a key denotes, what set / remove do
            to the field list; the invariant of the duplicate-fields class.
    Part 4: the edit operations, locality, read-back on the edited object, histories. *)
From Verif Require Import Lib.Base Lib.PyStr Gen.PyChars Repro.Doc Repro.DocInv.

(** * Part 1 : helpers *)

Lemma is_nil_true {A} (l : list A) : is_nil l = true -> l = [].
Proof. destruct l; [reflexivity|discriminate]. Qed.

Lemma bind_ok {A B} (r : result A) (f : A -> result B) b :
  bind r f = Ok b -> exists a, r = Ok a /\ f a = Ok b.
Proof. destruct r as [a|e]; simpl; [eauto|discriminate]. Qed.

Ltac bind_inv H :=
  let a := fresh "x" in let H1 := fresh H "a" in let H2 := fresh H "b" in
  apply bind_ok in H; destruct H as [a [H1 H2]].

(** ** [ends_nl] *)

Lemma last_opt_app {A} (a : list A) x : last_opt (a ++ [x]) = Some x.
Proof.
  induction a as [|y a IH]; [reflexivity|].
  cbn [app last_opt]. destruct (a ++ [x]) eqn:E; [destruct a; discriminate|exact IH].
Qed.

Lemma last_opt_app2 {A} (a b : list A) : b <> [] -> last_opt (a ++ b) = last_opt b.
Proof.
  intros Hb. induction a as [|y a IH]; [reflexivity|].
  cbn [app last_opt]. destruct (a ++ b) eqn:E; [|exact IH].
  destruct a; destruct b; try discriminate; congruence.
Qed.

Lemma ends_nl_app a b : b <> [] -> ends_nl (a ++ b) = ends_nl b.
Proof. intros Hb. unfold ends_nl. now rewrite last_opt_app2. Qed.

Lemma ends_nl_app_lf a : ends_nl (a ++ [LF]) = true.
Proof. unfold ends_nl. rewrite last_opt_app. apply N.eqb_refl. Qed.

Lemma ends_nl_nonempty s : ends_nl s = true -> s <> [].
Proof. destruct s; [discriminate|discriminate]. Qed.

Lemma ends_nl_app_r a b : ends_nl b = true -> ends_nl (a ++ b) = true.
Proof. intros H. rewrite ends_nl_app; [exact H|now apply ends_nl_nonempty]. Qed.

Lemma ends_nl_split s : ends_nl s = true -> exists s0, s = s0 ++ [LF].
Proof.
  intros H. destruct (@exists_last _ s (ends_nl_nonempty _ H)) as [s0 [c ->]].
  unfold ends_nl in H. rewrite last_opt_app in H. apply N.eqb_eq in H. subst c. now exists s0.
Qed.

Lemma closed_app a b : closed a = true -> closed b = true -> closed (a ++ b) = true.
Proof.
  unfold closed. intros Ha Hb. destruct b as [|c b].
  - now rewrite app_nil_r.
  - simpl in Hb. rewrite ends_nl_app by discriminate. rewrite Hb. apply orb_true_r.
Qed.

Lemma closed_concat ls : forallb closed ls = true -> closed (concat ls) = true.
Proof.
  induction ls as [|l ls IH]; [reflexivity|]. simpl. intros H.
  apply andb_true_iff in H. destruct H as [H1 H2]. apply closed_app; auto.
Qed.

Lemma ends_nl_closed s : ends_nl s = true -> closed s = true.
Proof. unfold closed. intros ->. apply orb_true_r. Qed.

(** ** texts of field lists *)

Definition ftext (fs : list field) : str := concat (map field_text fs).

Lemma ftext_app a b : ftext (a ++ b) = ftext a ++ ftext b.
Proof. unfold ftext. now rewrite map_app, concat_app. Qed.

Lemma ftext_cons f fs : ftext (f :: fs) = field_text f ++ ftext fs.
Proof. reflexivity. Qed.

Lemma para_text_ftext p : para_text p = ftext (para_fields p).
Proof. reflexivity. Qed.

(** [_ensure_final_newline]: the only bytes it can add are one LF at the very end *)
Definition nl_suffix (s : str) : str := if closed s then [] else [LF].

Lemma field_text_add_nl f :
  field_text (add_nl f) = field_text f ++ (if ends_nl (f_rest f) then [] else [LF]).
Proof.
  unfold add_nl, field_text. destruct (ends_nl (f_rest f)); simpl.
  - now rewrite app_nil_r.
  - now rewrite !app_assoc.
Qed.

Lemma rest_colon_nonempty f : rest_colon f = true -> f_rest f <> [].
Proof. unfold rest_colon. destruct (f_rest f); [discriminate|discriminate]. Qed.

Lemma ends_nl_field_text f :
  f_rest f <> [] -> ends_nl (field_text f) = ends_nl (f_rest f).
Proof.
  intros H. unfold field_text. rewrite app_assoc. now apply ends_nl_app.
Qed.

Lemma closed_nonempty s : s <> [] -> closed s = ends_nl s.
Proof. destruct s; [congruence|reflexivity]. Qed.

Lemma field_text_nonempty f : rest_colon f = true -> field_text f <> [].
Proof.
  intros H. apply rest_colon_nonempty in H. unfold field_text.
  destruct (f_comment f), (f_name f), (f_rest f); simpl; congruence.
Qed.

Lemma ftext_one f : ftext [f] = field_text f.
Proof. unfold ftext. simpl. apply app_nil_r. Qed.

Lemma ftext_map_last_add_nl fs :
  forallb rest_colon fs = true ->
  ftext (map_last add_nl fs) = ftext fs ++ nl_suffix (ftext fs).
Proof.
  induction fs as [|f fs IH]; intros Hc; [reflexivity|].
  cbn [forallb] in Hc. apply andb_true_iff in Hc. destruct Hc as [Hf Hc].
  destruct fs as [|g fs].
  - cbn [map_last]. rewrite !ftext_one, field_text_add_nl. f_equal.
    unfold nl_suffix. rewrite closed_nonempty by now apply field_text_nonempty.
    rewrite ends_nl_field_text by now apply rest_colon_nonempty. reflexivity.
  - change (map_last add_nl (f :: g :: fs)) with (f :: map_last add_nl (g :: fs)).
    rewrite ftext_cons, IH by exact Hc. rewrite (ftext_cons f), <- app_assoc. f_equal. f_equal.
    assert (Hne : ftext (g :: fs) <> []).
    { cbn [forallb] in Hc. apply andb_true_iff in Hc. destruct Hc as [Hg _].
      rewrite ftext_cons. apply field_text_nonempty in Hg.
      destruct (field_text g); [congruence|discriminate]. }
    assert (Hne2 : field_text f ++ ftext (g :: fs) <> []).
    { destruct (field_text f); simpl; [exact Hne|discriminate]. }
    unfold nl_suffix. rewrite (closed_nonempty _ Hne), (closed_nonempty _ Hne2).
    now rewrite ends_nl_app.
Qed.

(** ** the document level *)

Lemma dump_app a b : dump (a ++ b) = dump a ++ dump b.
Proof. unfold dump. now rewrite map_app, concat_app. Qed.

Lemma dump_cons it d : dump (it :: d) = item_text it ++ dump d.
Proof. reflexivity. Qed.

(** the [j]-th paragraph and the items before and after it *)
Fixpoint split_doc (d : doc) (j : nat) : option (doc * para * doc) :=
  match d with
  | [] => None
  | Para p :: d' =>
      match j with
      | O => Some ([], p, d')
      | S j' => match split_doc d' j' with
                | Some (a, x, b) => Some (Para p :: a, x, b)
                | None => None
                end
      end
  | it :: d' => match split_doc d' j with
                | Some (a, x, b) => Some (it :: a, x, b)
                | None => None
                end
  end.

Lemma split_doc_eq d : forall j a p b, split_doc d j = Some (a, p, b) -> d = a ++ Para p :: b.
Proof.
  induction d as [|it d IH]; intros j a p b H; [discriminate|].
  destruct it as [q|k t].
  - destruct j as [|j].
    + injection H as <- <- <-. reflexivity.
    + cbn [split_doc] in H. destruct (split_doc d j) as [[[a' x] b']|] eqn:E; [|discriminate].
      injection H as <- <- <-. simpl. f_equal. eapply IH; eassumption.
  - cbn [split_doc] in H. destruct (split_doc d j) as [[[a' x] b']|] eqn:E; [|discriminate].
    injection H as <- <- <-. simpl. f_equal. eapply IH; eassumption.
Qed.

(** number of paragraphs among the items *)
Definition n_paras (d : doc) : nat := length (paras d).

Lemma split_doc_index d : forall j a p b,
  split_doc d j = Some (a, p, b) -> n_paras a = j.
Proof.
  induction d as [|it d IH]; intros j a p b H; [discriminate|].
  destruct it as [q|k t].
  - destruct j as [|j].
    + injection H as <- <- <-. reflexivity.
    + cbn [split_doc] in H. destruct (split_doc d j) as [[[a' x] b']|] eqn:E; [|discriminate].
      injection H as <- <- <-. unfold n_paras. simpl. f_equal. eapply IH; eassumption.
  - cbn [split_doc] in H. destruct (split_doc d j) as [[[a' x] b']|] eqn:E; [|discriminate].
    injection H as <- <- <-. unfold n_paras. simpl. eapply IH; eassumption.
Qed.

Lemma split_doc_app a p b : split_doc (a ++ Para p :: b) (n_paras a) = Some (a, p, b).
Proof.
  induction a as [|it a IH]; [reflexivity|].
  destruct it as [q|k t].
  - unfold n_paras in *. cbn [app paras flat_map length split_doc]. simpl length.
    cbn [split_doc]. unfold paras in IH. rewrite IH. reflexivity.
  - unfold n_paras in *. cbn [app paras flat_map length split_doc]. simpl.
    unfold paras in IH. rewrite IH. reflexivity.
Qed.

(** [update_para] is: split, edit the paragraph, put it back *)
Lemma update_para_split d f : forall j,
  update_para d j f =
  match split_doc d j with
  | Some (a, p, b) => do p' <- f p; Ok (a ++ Para p' :: b)
  | None => Err IndexError
  end.
Proof.
  induction d as [|it d IH]; intros j; [reflexivity|].
  destruct it as [q|k t].
  - destruct j as [|j].
    + reflexivity.
    + cbn [update_para split_doc]. rewrite IH.
      destruct (split_doc d j) as [[[a x] b]|]; [|reflexivity].
      destruct (f x); reflexivity.
  - cbn [update_para split_doc]. rewrite IH.
    destruct (split_doc d j) as [[[a x] b]|]; [|reflexivity].
    destruct (f x); reflexivity.
Qed.

Lemma update_para_ok d j f d' :
  update_para d j f = Ok d' ->
  exists a p b p', split_doc d j = Some (a, p, b) /\ f p = Ok p' /\ d' = a ++ Para p' :: b.
Proof.
  rewrite update_para_split. destruct (split_doc d j) as [[[a p] b]|]; [|discriminate].
  intros H. bind_inv H. injection Hb as <-. now exists a, p, b, x.
Qed.

Lemma dump_split a p b : dump (a ++ Para p :: b) = dump a ++ ftext (para_fields p) ++ dump b.
Proof. now rewrite dump_app, dump_cons. Qed.

(** every operation is an [update_para] *)
Definition op_para (o : op) : nat :=
  match o with OSet j _ _ | ODel j _ | OSimple j _ _ _ _ | ORaw j _ _ _ _ => j end.

Definition op_on_para (o : op) (p : para) : result para :=
  match o with
  | OSet _ k v => setitem p k v
  | ODel _ k => p_remove p k
  | OSimple _ k v pres fc => set_simple p k v pres (fc_of fc)
  | ORaw _ k v pres fc => set_raw p k v pres (fc_of fc)
  end.

Lemma run_op_update d o : run_op d o = update_para d (op_para o) (op_on_para o).
Proof. destruct o; reflexivity. Qed.

Lemma run_op_ok d o d' :
  run_op d o = Ok d' ->
  exists a p b p', split_doc d (op_para o) = Some (a, p, b)
                   /\ op_on_para o p = Ok p' /\ d' = a ++ Para p' :: b.
Proof. rewrite run_op_update. apply update_para_ok. Qed.

(** * Part 2 : the text of a newly built field *)

Lemma name_eqb_eq a b : name_eqb a b = true <-> lower a = lower b.
Proof. unfold name_eqb. apply str_eqb_eq. Qed.

Lemma name_eqb_refl a : name_eqb a a = true.
Proof. now apply name_eqb_eq. Qed.

Lemma name_eqb_sym a b : name_eqb a b = name_eqb b a.
Proof.
  destruct (name_eqb a b) eqn:E1, (name_eqb b a) eqn:E2; try reflexivity.
  - apply name_eqb_eq in E1. symmetry in E1. apply name_eqb_eq in E1. congruence.
  - apply name_eqb_eq in E2. symmetry in E2. apply name_eqb_eq in E2. congruence.
Qed.

Lemma name_eqb_length a b : name_eqb a b = true -> length a = length b.
Proof.
  intros H. apply name_eqb_eq in H. unfold lower, ascii_lower in H.
  rewrite <- (map_length ascii_lower_char a), <- (map_length ascii_lower_char b). now rewrite H.
Qed.

Lemma has_name_cong a b f : name_eqb a b = true -> has_name a f = has_name b f.
Proof. intros H. apply name_eqb_eq in H. unfold has_name, name_eqb. now rewrite H. Qed.

Lemma first_colon X : forall Z Y W,
  forallb (fun c => negb (c =? COLON)%N) X = true ->
  X ++ COLON :: Y = Z ++ COLON :: W ->
  length X <= length Z /\ (length X = length Z -> X = Z /\ Y = W).
Proof.
  induction X as [|x X IH]; intros Z Y W Hx E.
  - destruct Z as [|z Z]; simpl in *.
    + split; [lia|]. intros _. injection E as ->. now split.
    + split; [lia|]. discriminate.
  - cbn [forallb] in Hx. apply andb_true_iff in Hx. destruct Hx as [Hx1 Hx2].
    destruct Z as [|z Z]; simpl in E.
    + injection E as -> _. now rewrite N.eqb_refl in Hx1.
    + injection E as -> E. destruct (IH _ _ _ Hx2 E) as [H1 H2]. simpl. split; [lia|].
      intros Hl. injection Hl as Hl. destruct (H2 Hl) as [-> ->]. now split.
Qed.

Lemma name_char_not_colon c : name_char c = true -> negb (c =? COLON)%N = true.
Proof.
  intros H. destruct (N.eqb_spec c COLON) as [->|]; [discriminate H|reflexivity].
Qed.

Lemma match_field_line_some l n r :
  match_field_line l = Some (n, r) ->
  l = n ++ r /\ forallb name_char n = true /\ exists r', r = COLON :: r'.
Proof.
  unfold match_field_line. destruct l as [|c l0]; [discriminate|].
  destruct (name_first c); [|discriminate].
  pose proof (span_app name_char (c :: l0)) as Happ.
  pose proof (span_all name_char (c :: l0)) as Hall.
  destruct (span name_char (c :: l0)) as [n0 r0]. cbn [fst snd] in *.
  destruct r0 as [|c' r0]; [discriminate|].
  destruct (N.eqb_spec c' COLON) as [->|]; [|discriminate].
  intros [= <- <-]. split; [now symmetry|]. split; [exact Hall|now exists r0].
Qed.

Lemma classify_field b l n r : classify b l = LField n r -> match_field_line l = Some (n, r).
Proof.
  unfold classify. destruct (is_ws_line l); [discriminate|].
  destruct l as [|c l0]; [discriminate|].
  destruct (c =? HASH)%N; [discriminate|].
  destruct ((c =? SP)%N || (c =? TAB)%N); [destruct b; discriminate|].
  destruct (match_field_line (c :: l0)) as [[n0 r0]|]; [|discriminate].
  now intros [= -> ->].
Qed.

(** a line that starts like a continuation or comment line *)
Definition cont_start (l : str) : bool :=
  match l with c :: _ => (c =? SP)%N || (c =? TAB)%N || (c =? HASH)%N | [] => false end.

Lemma classify_cont_start l :
  cont_start l = true ->
  classify false l = LWs \/ classify false l = LComment \/ classify false l = LError.
Proof.
  unfold classify. destruct (is_ws_line l); [now left|].
  destruct l as [|c l0]; [discriminate|]. unfold cont_start.
  destruct (c =? HASH)%N; [now (right; left)|]. rewrite orb_false_r.
  intros ->. now (right; right).
Qed.

Lemma scan_head_no_field ls : forall pend f,
  forallb cont_start ls = true -> scan_head ls pend <> Ok (Some f).
Proof.
  induction ls as [|l ls IH]; intros pend f H; [discriminate|].
  cbn [forallb] in H. apply andb_true_iff in H. destruct H as [Hl Hls].
  cbn [scan_head]. destruct (classify_cont_start l Hl) as [E|[E|E]]; rewrite E.
  - now apply IH.
  - now apply IH.
  - discriminate.
Qed.

Lemma classify_comment c : starts_hash c = true -> classify false c = LComment.
Proof.
  destruct c as [|h c]; [discriminate|]. unfold starts_hash. intros H.
  apply N.eqb_eq in H. subst h. reflexivity.
Qed.

Lemma scan_head_comments cs : forall ls pend,
  forallb starts_hash cs = true ->
  scan_head (cs ++ ls) pend = scan_head ls (pend ++ concat cs).
Proof.
  induction cs as [|c cs IH]; intros ls pend H.
  - simpl. now rewrite app_nil_r.
  - cbn [forallb] in H. apply andb_true_iff in H. destruct H as [Hc Hcs].
    cbn [app scan_head]. rewrite (classify_comment c Hc), IH by exact Hcs.
    cbn [concat]. now rewrite app_assoc.
Qed.

Lemma scan_head_first first others pend f :
  forallb cont_start others = true ->
  scan_head (first :: others) pend = Ok (Some f) ->
  exists n r rest, classify false first = LField n r
                   /\ scan_body others [] r = Ok rest /\ f = mkF pend n rest.
Proof.
  intros Ho. cbn [scan_head]. destruct (classify false first) as [| | |n r|] eqn:E.
  - intros H. now apply scan_head_no_field in H.
  - intros H. now apply scan_head_no_field in H.
  - discriminate.
  - intros H. bind_inv H. injection Hb as <-. now exists n, r, x.
  - discriminate.
Qed.

Lemma scan_body_shape ls : forall pend acc rest,
  forallb ends_nl ls = true ->
  scan_body ls pend acc = Ok rest ->
  exists x, rest = acc ++ x /\ (x = [] \/ ends_nl x = true).
Proof.
  induction ls as [|l ls IH]; intros pend acc rest Hnl H.
  - injection H as <-. exists []. rewrite app_nil_r. now split; [|left].
  - cbn [forallb] in Hnl. apply andb_true_iff in Hnl. destruct Hnl as [Hl Hls].
    cbn [scan_body] in H. destruct (classify true l).
    + bind_inv H. injection Hb as <-. exists []. rewrite app_nil_r. now split; [|left].
    + now apply (IH _ _ _ Hls) in H.
    + apply (IH _ _ _ Hls) in H. destruct H as [x [-> Hx]].
      exists (pend ++ l ++ x). split; [now rewrite <- !app_assoc|]. right.
      apply ends_nl_app_r. destruct Hx as [->|Hx].
      * now rewrite app_nil_r.
      * now apply ends_nl_app_r.
    + discriminate.
    + discriminate.
Qed.

Lemma check_raw_lines_ok ls : forall first,
  check_raw_lines first ls = Ok tt ->
  forallb ends_nl ls = true /\ forallb cont_start (if first then tl ls else ls) = true.
Proof.
  induction ls as [|l ls IH]; intros first H.
  - destruct first; now split.
  - cbn [check_raw_lines] in H. destruct (ends_nl l) eqn:El; [|discriminate]. cbn [negb] in H.
    destruct first.
    + cbn [negb andb] in H. destruct (IH _ H) as [H1 H2]. cbn [forallb tl]. rewrite El. now split.
    + cbn [negb andb] in H.
      destruct l as [|c l0]; [discriminate|].
      destruct ((c =? SP)%N || (c =? TAB)%N || (c =? HASH)%N) eqn:Ec; [|discriminate].
      cbn [negb] in H. destruct (IH _ H) as [H1 H2]. cbn [forallb cont_start].
      rewrite El, Ec. now split.
Qed.

Lemma validate_raw_lines_ok ls :
  validate_raw_lines ls = Ok tt ->
  forallb ends_nl ls = true /\ forallb cont_start (tl ls) = true.
Proof.
  unfold validate_raw_lines. intros H. bind_inv H. destruct x. now apply check_raw_lines_ok in Ha.
Qed.

Lemma forallb_ends_nl_closed ls : forallb ends_nl ls = true -> closed (concat ls) = true.
Proof.
  intros H. apply closed_concat. rewrite forallb_forall in *. intros x Hx.
  apply ends_nl_closed. now apply H.
Qed.

(** what [parse_new_field] returns for the lines [set_field_from_raw_string] builds *)
Lemma parse_new_field_shape comments raw fname cased v :
  forallb starts_hash comments = true ->
  validate_raw_lines (splitlines py_islinebreak true (cased ++ [COLON] ++ raw)) = Ok tt ->
  length cased = length fname ->
  parse_new_field (comments ++ splitlines py_islinebreak true (cased ++ [COLON] ++ raw)) fname = Ok v ->
  f_name v = cased /\ forallb name_char cased = true
  /\ f_comment v = concat comments /\ closed (f_comment v) = true
  /\ rest_colon v = true /\ ends_nl (f_rest v) = true
  /\ exists first others r',
       splitlines py_islinebreak true (cased ++ [COLON] ++ raw) = first :: others
       /\ first = cased ++ COLON :: r' /\ scan_body others [] (COLON :: r') = Ok (f_rest v).
Proof.
  intros Hcs Hval Hlen H.
  pose proof (splitlines_keepends_concat py_islinebreak (cased ++ [COLON] ++ raw)) as Hcat.
  set (rl := splitlines py_islinebreak true (cased ++ [COLON] ++ raw)) in *.
  destruct (validate_raw_lines_ok _ Hval) as [Hnl Hcont].
  unfold parse_new_field in H.
  destruct (forallb ends_nl (comments ++ rl)) eqn:Hall; [|discriminate]. cbn [negb] in H.
  bind_inv H. rewrite scan_head_comments in Ha by exact Hcs. cbn [app] in Ha.
  destruct x as [f|]; [|discriminate].
  destruct (name_eqb (f_name f) fname) eqn:Hname; [|discriminate]. injection Hb as <-.
  destruct rl as [|first others]; [discriminate|]. cbn [tl] in Hcont.
  destruct (scan_head_first _ _ _ _ Hcont Ha) as [n [r [rest [Hcl [Hbody ->]]]]].
  apply classify_field, match_field_line_some in Hcl. destruct Hcl as [Hfirst [Hn [r' ->]]].
  cbn [f_name f_comment f_rest] in *.
  cbn [forallb] in Hnl. apply andb_true_iff in Hnl. destruct Hnl as [Hfnl Honl].
  (* the name *)
  assert (Hname_eq : n = cased).
  { cbn [concat] in Hcat. rewrite Hfirst, <- app_assoc in Hcat. cbn [app] in Hcat.
    assert (Hnc : forallb (fun c => negb (c =? COLON)%N) n = true).
    { rewrite forallb_forall in *. intros c Hc. apply name_char_not_colon. now apply Hn. }
    change (cased ++ [COLON] ++ raw) with (cased ++ COLON :: raw) in Hcat.
    destruct (first_colon _ _ _ _ Hnc Hcat) as [_ H2].
    apply name_eqb_length in Hname. apply H2. congruence. }
  split; [exact Hname_eq|]. split; [now rewrite <- Hname_eq|]. split; [reflexivity|].
  split.
  { rewrite forallb_app in Hall. apply andb_true_iff in Hall. destruct Hall as [Hc _].
    now apply forallb_ends_nl_closed. }
  destruct (scan_body_shape _ _ _ _ Honl Hbody) as [x [Hrest Hx]].
  split; [now rewrite Hrest|].
  assert (Hr : ends_nl (COLON :: r') = true).
  { rewrite Hfirst in Hfnl. now rewrite ends_nl_app in Hfnl by discriminate. }
  split.
  { rewrite Hrest. destruct Hx as [->|Hx]; [now rewrite app_nil_r|now apply ends_nl_app_r]. }
  exists first, others, r'. subst n. now repeat split.
Qed.

Lemma format_comment_hash c c' : format_comment c = Ok c' -> starts_hash c' = true.
Proof.
  unfold format_comment. destruct (is_nil c); [now intros [= <-]|].
  destruct (mem_char LF (removelast c)); [discriminate|].
  set (c1 := if ends_nl c then c else py_rstrip c ++ [LF]).
  destruct c1 as [|x c1]; [now intros [= <-]|].
  destruct (x =? HASH)%N eqn:E; intros [= <-]; [exact E|reflexivity].
Qed.

Lemma map_result_format_comment l cs :
  map_result format_comment l = Ok cs -> forallb starts_hash cs = true.
Proof.
  revert cs. induction l as [|c l IH]; intros cs H.
  - now injection H as <-.
  - cbn [map_result] in H. bind_inv H. bind_inv Hb. injection Hbb as <-.
    cbn [forallb]. rewrite (format_comment_hash _ _ Ha). now apply IH.
Qed.

Lemma set_comment_ok v c v' :
  set_comment v c = Ok v' ->
  v' = mkF c (f_name v) (f_rest v) /\ closed c = true.
Proof.
  unfold set_comment, closed. destruct (is_nil c) eqn:E.
  - apply is_nil_true in E. subst c. now intros [= <-].
  - destruct (ends_nl c); [|discriminate]. now intros [= <-].
Qed.

(** * Part 3 : paragraphs *)

Definition absent (n : str) (fs : list field) : bool :=
  forallb (fun f => negb (has_name n f)) fs.

Lemma forallb_ext {A} (p q : A -> bool) l : (forall a, p a = q a) -> forallb p l = forallb q l.
Proof. intros H. induction l as [|a l IH]; [reflexivity|]. cbn [forallb]. now rewrite H, IH. Qed.

Lemma forallb_map {A B} (g : A -> B) (q : B -> bool) l :
  forallb q (map g l) = forallb (fun a => q (g a)) l.
Proof. induction l as [|a l IH]; [reflexivity|]. cbn [map forallb]. now rewrite IH. Qed.

Lemma absent_cong a b fs : name_eqb a b = true -> absent a fs = absent b fs.
Proof.
  intros H. unfold absent. apply forallb_ext. intros f. now rewrite (has_name_cong _ _ f H).
Qed.

Lemma absent_app n a b : absent n (a ++ b) = absent n a && absent n b.
Proof. apply forallb_app. Qed.

Lemma find_some_split {A} (p : A -> bool) l x :
  List.find p l = Some x ->
  exists l1 l2, l = l1 ++ x :: l2 /\ forallb (fun a => negb (p a)) l1 = true /\ p x = true.
Proof.
  induction l as [|a l IH]; [discriminate|]. cbn [List.find].
  destruct (p a) eqn:E.
  - intros [= <-]. now exists [], l.
  - intros H. destruct (IH H) as [l1 [l2 [-> [H1 H2]]]].
    exists (a :: l1), l2. cbn [forallb]. rewrite E. now split.
Qed.

Lemma find_none_forallb {A} (p : A -> bool) l :
  List.find p l = None -> forallb (fun a => negb (p a)) l = true.
Proof.
  induction l as [|a l IH]; [reflexivity|]. cbn [List.find forallb].
  destruct (p a); [discriminate|]. exact IH.
Qed.

Lemma find_split {A} (p : A -> bool) l1 x l2 :
  forallb (fun a => negb (p a)) l1 = true -> p x = true -> List.find p (l1 ++ x :: l2) = Some x.
Proof.
  induction l1 as [|a l1 IH]; cbn [forallb app List.find]; intros H Hx.
  - now rewrite Hx.
  - apply andb_true_iff in H. destruct H as [Ha H]. apply negb_true_iff in Ha. rewrite Ha. now apply IH.
Qed.

Lemma existsb_neg_forallb {A} (p : A -> bool) l :
  existsb p l = negb (forallb (fun a => negb (p a)) l).
Proof.
  induction l as [|a l IH]; [reflexivity|]. cbn [existsb forallb]. rewrite IH.
  destruct (p a); reflexivity.
Qed.

Lemma replace_first_split {A} (p : A -> bool) v l1 x l2 :
  forallb (fun a => negb (p a)) l1 = true -> p x = true ->
  replace_first p v (l1 ++ x :: l2) = l1 ++ v :: l2.
Proof.
  induction l1 as [|a l1 IH]; cbn [forallb app replace_first]; intros H Hx.
  - now rewrite Hx.
  - apply andb_true_iff in H. destruct H as [Ha H]. apply negb_true_iff in Ha. rewrite Ha.
    f_equal. now apply IH.
Qed.

Lemma remove_first_split {A} (p : A -> bool) l1 x l2 :
  forallb (fun a => negb (p a)) l1 = true -> p x = true ->
  remove_first p (l1 ++ x :: l2) = l1 ++ l2.
Proof.
  induction l1 as [|a l1 IH]; cbn [forallb app remove_first]; intros H Hx.
  - now rewrite Hx.
  - apply andb_true_iff in H. destruct H as [Ha H]. apply negb_true_iff in Ha. rewrite Ha.
    f_equal. now apply IH.
Qed.

(** ** names without duplicates *)

Lemma existsb_lnames n fs :
  existsb (str_eqb (lower n)) (lnames fs) = negb (absent n fs).
Proof.
  unfold absent, lnames. rewrite existsb_neg_forallb. f_equal. rewrite forallb_map.
  apply forallb_ext. intros f. unfold has_name, name_eqb.
  f_equal. destruct (str_eqb (lower n) (lower (f_name f))) eqn:E1, (str_eqb (lower (f_name f)) (lower n)) eqn:E2;
    try reflexivity.
  - apply str_eqb_eq in E1. rewrite E1, str_eqb_refl in E2. discriminate.
  - apply str_eqb_eq in E2. rewrite E2, str_eqb_refl in E1. discriminate.
Qed.

Lemma nodup_names_cons f fs :
  nodup_names (f :: fs) = absent (f_name f) fs && nodup_names fs.
Proof.
  unfold nodup_names. cbn [lnames map nodupb]. fold (lnames fs).
  rewrite existsb_lnames. now rewrite negb_involutive.
Qed.

Lemma nodup_names_split l1 f l2 :
  nodup_names (l1 ++ f :: l2) = true ->
  absent (f_name f) l1 = true /\ absent (f_name f) l2 = true
  /\ nodup_names (l1 ++ l2) = true.
Proof.
  induction l1 as [|g l1 IH]; cbn [app].
  - rewrite nodup_names_cons. intros H. apply andb_true_iff in H. now destruct H.
  - rewrite !nodup_names_cons, !absent_app. cbn [absent forallb]. fold (absent (f_name g) l2).
    intros H. apply andb_true_iff in H. destruct H as [H1 H2].
    apply andb_true_iff in H1. destruct H1 as [H1 H1'].
    apply andb_true_iff in H1'. destruct H1' as [Hgf H1'].
    destruct (IH H2) as [Ha [Hb Hc]].
    cbn [absent forallb]. fold (absent (f_name f) l1).
    assert (Hfg : negb (has_name (f_name f) g) = true).
    { unfold has_name in *. now rewrite name_eqb_sym. }
    rewrite Hfg, Ha, Hb, H1, H1', Hc. now repeat split.
Qed.

Lemma nodup_names_replace l1 f v l2 :
  name_eqb (f_name f) (f_name v) = true ->
  nodup_names (l1 ++ f :: l2) = true -> nodup_names (l1 ++ v :: l2) = true.
Proof.
  intros Hn. unfold nodup_names, lnames. rewrite !map_app. cbn [map].
  apply name_eqb_eq in Hn. now rewrite Hn.
Qed.

Lemma lnames_map_last_add_nl fs : lnames (map_last add_nl fs) = lnames fs.
Proof.
  induction fs as [|f fs IH]; [reflexivity|]. destruct fs as [|g fs].
  - cbn [map_last lnames map]. unfold add_nl. now destruct (ends_nl (f_rest f)).
  - change (map_last add_nl (f :: g :: fs)) with (f :: map_last add_nl (g :: fs)).
    cbn [lnames map]. f_equal. exact IH.
Qed.

Lemma absent_map_last_add_nl n fs : absent n (map_last add_nl fs) = absent n fs.
Proof.
  pose proof (existsb_lnames n fs) as H1. pose proof (existsb_lnames n (map_last add_nl fs)) as H2.
  rewrite lnames_map_last_add_nl, H1 in H2.
  destruct (absent n fs), (absent n (map_last add_nl fs)); simpl in H2; congruence.
Qed.

Lemma nodup_names_append fs v :
  absent (f_name v) fs = true -> nodup_names fs = true ->
  nodup_names (map_last add_nl fs ++ [v]) = true.
Proof.
  intros Ha Hn. unfold nodup_names, lnames. rewrite map_app. fold (lnames (map_last add_nl fs)).
  rewrite lnames_map_last_add_nl. cbn [map].
  revert Ha Hn. unfold nodup_names. induction fs as [|f fs IH]; [reflexivity|].
  cbn [lnames map app nodupb absent forallb]. fold (lnames fs). fold (absent (f_name v) fs).
  intros Ha Hn. apply andb_true_iff in Ha. destruct Ha as [Hf Ha].
  apply andb_true_iff in Hn. destruct Hn as [Hn1 Hn2].
  rewrite IH by assumption. rewrite andb_true_r. rewrite existsb_app. cbn [existsb].
  apply negb_true_iff in Hn1. rewrite Hn1. cbn [orb]. rewrite orb_false_r.
  unfold has_name, name_eqb in Hf. exact Hf.
Qed.

Lemma rest_colon_add_nl f : rest_colon (add_nl f) = rest_colon f.
Proof.
  unfold add_nl, rest_colon. destruct (ends_nl (f_rest f)); [reflexivity|].
  cbn [f_rest]. destruct (f_rest f); reflexivity.
Qed.

Lemma forallb_map_last {A} (q : A -> bool) (g : A -> A) l :
  (forall a, q (g a) = q a) -> forallb q (map_last g l) = forallb q l.
Proof.
  intros Hq. induction l as [|a l IH]; [reflexivity|]. destruct l as [|b l].
  - cbn [map_last forallb]. now rewrite Hq.
  - change (map_last g (a :: b :: l)) with (a :: map_last g (b :: l)).
    cbn [forallb] in *. now rewrite IH.
Qed.

Lemma para_inv_fields p : para_inv p = true -> fields_inv (para_fields p) = true.
Proof. destruct p; [auto|discriminate]. Qed.

(** ** which field a key denotes; set, remove *)

Lemma unpack_key_true k nk :
  unpack_key k true = Ok nk -> nk = (key_name k, None).
Proof.
  destruct k as [n|n i]; cbn [unpack_key key_name].
  - now intros [= <-].
  - destruct (i =? 0)%Z; [now intros [= <-]|discriminate].
Qed.

Lemma p_get_some p k f :
  para_inv p = true -> p_get p k true = LOk (Some f) ->
  exists l1 l2, para_fields p = l1 ++ f :: l2
                /\ has_name (key_name k) f = true /\ absent (key_name k) l1 = true.
Proof.
  destruct p as [fs|d]; [|discriminate]. intros _. cbn [p_get para_fields].
  unfold nd_get. destruct (unpack_key k true) as [nk|e] eqn:Ek; [|discriminate].
  apply unpack_key_true in Ek. subst nk. cbn [bind fst].
  destruct (List.find (has_name (key_name k)) fs) as [g|] eqn:Ef; [|discriminate].
  intros [= <-]. destruct (find_some_split _ _ _ Ef) as [l1 [l2 [-> [H1 H2]]]].
  now exists l1, l2.
Qed.

Lemma p_get_not_amb p k : para_inv p = true -> p_get p k true <> LAmb.
Proof.
  destruct p as [fs|d]; [|discriminate]. intros _. cbn [p_get].
  destruct (nd_get fs k true); discriminate.
Qed.

Lemma p_set_kvpair_spec p k v p' :
  para_inv p = true -> rest_colon v = true ->
  p_set_kvpair p k v = Ok p' ->
  name_eqb (key_name k) (f_name v) = true /\ para_inv p' = true /\
  ((exists l1 f l2, p_get p k true = LOk (Some f)
        /\ para_fields p = l1 ++ f :: l2 /\ has_name (key_name k) f = true
        /\ absent (key_name k) l1 = true /\ para_fields p' = l1 ++ v :: l2)
   \/ (p_get p k true = LOk None /\ absent (key_name k) (para_fields p) = true
       /\ para_fields p' = map_last add_nl (para_fields p) ++ [v])).
Proof.
  destruct p as [fs|d]; [|discriminate]. cbn [para_inv p_set_kvpair p_get para_fields].
  intros Hinv Hv H. bind_inv H. injection Hb as <-. cbn [para_inv para_fields].
  unfold nd_set_kvpair in Ha. unfold nd_get.
  destruct (unpack_key k true) as [nk|e] eqn:Ek; [|discriminate].
  apply unpack_key_true in Ek. subst nk. cbn [bind fst] in *.
  destruct (name_eqb (key_name k) (f_name v)) eqn:Hn; [|discriminate]. cbn [negb] in Ha.
  split; [reflexivity|].
  unfold fields_inv in Hinv. apply andb_true_iff in Hinv. destruct Hinv as [Hnd Hrc].
  rewrite existsb_neg_forallb in Ha. fold (absent (f_name v) fs) in Ha.
  rewrite <- (absent_cong _ _ fs Hn) in Ha.
  destruct (List.find (has_name (key_name k)) fs) as [f|] eqn:Ef.
  - destruct (find_some_split _ _ _ Ef) as [l1 [l2 [-> [H1 H2]]]].
    assert (Hab : absent (key_name k) (l1 ++ f :: l2) = false).
    { rewrite absent_app. cbn [absent forallb]. rewrite H2. cbn. apply andb_false_r. }
    rewrite Hab in Ha. cbn [negb] in Ha. injection Ha as <-.
    rewrite (replace_first_split (has_name (f_name v))).
    + split.
      * unfold fields_inv. apply andb_true_iff. split.
        -- eapply nodup_names_replace; [|exact Hnd]. unfold has_name in H2.
           apply name_eqb_eq in H2, Hn. apply name_eqb_eq. congruence.
        -- rewrite forallb_app in *. cbn [forallb] in *.
           apply andb_true_iff in Hrc. destruct Hrc as [Hr1 Hr2].
           apply andb_true_iff in Hr2. destruct Hr2 as [_ Hr2]. now rewrite Hr1, Hv, Hr2.
      * left. exists l1, f, l2. now repeat split.
    + erewrite forallb_ext; [exact H1|]. intros a. cbn. now rewrite (has_name_cong _ _ a Hn).
    + now rewrite <- (has_name_cong _ _ f Hn).
  - apply find_none_forallb in Ef. fold (absent (key_name k) fs) in Ef.
    rewrite Ef in Ha. cbn [negb] in Ha. injection Ha as <-.
    split.
    + unfold fields_inv. apply andb_true_iff. split.
      * apply nodup_names_append; [now rewrite <- (absent_cong _ _ fs Hn)|exact Hnd].
      * rewrite forallb_app. cbn [forallb]. rewrite Hv.
        rewrite forallb_map_last by apply rest_colon_add_nl. now rewrite Hrc.
    + right. now repeat split.
Qed.

Lemma p_remove_spec p k p' :
  para_inv p = true -> p_remove p k = Ok p' ->
  para_inv p' = true /\
  exists l1 f l2, para_fields p = l1 ++ f :: l2 /\ has_name (key_name k) f = true
                  /\ absent (key_name k) l1 = true /\ para_fields p' = l1 ++ l2.
Proof.
  destruct p as [fs|d]; [|discriminate]. cbn [para_inv p_remove para_fields].
  intros Hinv H. bind_inv H. injection Hb as <-. cbn [para_inv para_fields].
  unfold nd_remove in Ha.
  destruct (unpack_key k true) as [nk|e] eqn:Ek; [|discriminate].
  apply unpack_key_true in Ek. subst nk. cbn [bind fst] in *.
  destruct (existsb (has_name (key_name k)) fs) eqn:Ex; [|discriminate]. injection Ha as <-.
  destruct (List.find (has_name (key_name k)) fs) as [f|] eqn:Ef.
  - destruct (find_some_split _ _ _ Ef) as [l1 [l2 [-> [H1 H2]]]].
    rewrite remove_first_split by assumption.
    unfold fields_inv in *. apply andb_true_iff in Hinv. destruct Hinv as [Hnd Hrc].
    split.
    + apply andb_true_iff. split.
      * now apply nodup_names_split in Hnd.
      * rewrite forallb_app in *. cbn [forallb] in Hrc.
        apply andb_true_iff in Hrc. destruct Hrc as [Hr1 Hr2].
        apply andb_true_iff in Hr2. destruct Hr2 as [_ Hr2]. now rewrite Hr1, Hr2.
    + now exists l1, f, l2.
  - apply find_none_forallb in Ef. rewrite existsb_neg_forallb, Ef in Ex. discriminate.
Qed.

(** reading a field that is there: any spelling of the name, with or without index 0 *)
Lemma getitem_spec p k l1 f l2 :
  para_inv p = true ->
  para_fields p = l1 ++ f :: l2 -> has_name (key_name k) f = true ->
  absent (key_name k) l1 = true ->
  match k with KStr _ => true | KIdx _ i => (i =? 0)%Z end = true ->
  getitem p k = Ok (value_str f).
Proof.
  destruct p as [fs|d]; [|discriminate]. cbn [para_fields]. intros _ -> Hf Hl1 Hk.
  unfold getitem. cbn [p_get]. unfold nd_get.
  assert (Hu : unpack_key (match k with KStr n => KIdx n 0 | KIdx _ _ => k end) true
               = Ok (key_name k, None)).
  { destruct k as [n|n i]; cbn [unpack_key key_name]; [reflexivity|]. now rewrite Hk. }
  rewrite Hu. cbn [bind fst]. now rewrite find_split.
Qed.

(** * Part 4 : the edit operations *)

(** the lines after the first one all belong to the value (continuation lines, comment lines
    between them, a continuation line last): then the stored field is the given text as a whole *)
Definition body_class (l : str) : bool :=
  match classify true l with LComment | LCont => true | _ => false end.
Definition cont_class (l : str) : bool :=
  match classify true l with LCont => true | _ => false end.
Definition body_ok (others : list str) : bool :=
  is_nil others
  || (forallb body_class others
      && match last_opt others with Some l => cont_class l | None => false end).

Lemma scan_body_cons l ls pend acc :
  scan_body (l :: ls) pend acc =
  match classify true l with
  | LComment => scan_body ls (pend ++ l) acc
  | LCont => scan_body ls [] (acc ++ pend ++ l)
  | LWs => do _ <- scan_tail ls; Ok acc
  | LField _ _ => Err OtherError
  | LError => Err ValueError
  end.
Proof. reflexivity. Qed.

Lemma scan_body_all ls : forall pend acc,
  ls <> [] -> forallb body_class ls = true ->
  match last_opt ls with Some l => cont_class l | None => false end = true ->
  scan_body ls pend acc = Ok (acc ++ pend ++ concat ls).
Proof.
  induction ls as [|l ls IH]; intros pend acc Hne Hall Hlast; [congruence|].
  cbn [forallb] in Hall. apply andb_true_iff in Hall. destruct Hall as [Hl Hall].
  destruct ls as [|l2 ls].
  - cbn [last_opt] in Hlast. unfold cont_class in Hlast. cbn [scan_body concat].
    destruct (classify true l); try discriminate. now rewrite app_nil_r.
  - assert (Hlast' : match last_opt (l2 :: ls) with Some l => cont_class l | None => false end = true)
      by exact Hlast.
    unfold body_class in Hl. rewrite scan_body_cons. destruct (classify true l); try discriminate.
    + rewrite IH by (try discriminate; assumption). cbn [concat]. now rewrite <- !app_assoc.
    + rewrite IH by (try discriminate; assumption). cbn [concat app]. now rewrite <- !app_assoc.
Qed.

Lemma scan_body_whole others r' raw cased rest :
  concat ((cased ++ COLON :: r') :: others) = cased ++ [COLON] ++ raw ->
  body_ok others = true ->
  scan_body others [] (COLON :: r') = Ok rest -> rest = COLON :: raw.
Proof.
  intros Hcat Hok Hb. cbn [concat] in Hcat. rewrite <- app_assoc in Hcat.
  apply app_inv_head in Hcat. cbn [app] in Hcat. rewrite <- Hcat.
  unfold body_ok in Hok. destruct others as [|l ls].
  - injection Hb as <-. now rewrite app_nil_r.
  - cbn [is_nil orb] in Hok. apply andb_true_iff in Hok. destruct Hok as [H1 H2].
    rewrite scan_body_all in Hb by (try discriminate; assumption). injection Hb as <-. reflexivity.
Qed.

(** the comment of the field that [set_field_from_raw_string] stores *)
Definition core_comment (comments : list str) (pres : option bool) (fc : fcomment)
           (orig : option field) : str :=
  if match pres with None => true | Some b => b end then
    match orig with Some o => f_comment o | None => concat comments end
  else
    match fc with FCElem t => t | _ => concat comments end.

(** [new_for p k p' v orig]: [p'] is [p] with the field [v] in the place the key denotes:
    instead of the existing field [orig = Some f] (same position, spelling of the name kept),
    or, when no field has that name ([orig = None]), after the last field, whose missing final
    newline is supplied. *)
Definition new_for (p : para) (k : key) (p' : para) (v : field) (orig : option field) : Prop :=
  match orig with
  | Some f =>
      exists l1 l2, para_fields p = l1 ++ f :: l2 /\ has_name (key_name k) f = true
                    /\ absent (key_name k) l1 = true
                    /\ para_fields p' = l1 ++ v :: l2 /\ f_name v = f_name f
  | None =>
      absent (key_name k) (para_fields p) = true
      /\ para_fields p' = map_last add_nl (para_fields p) ++ [v] /\ f_name v = key_name k
  end.

(** a field text that occupies lines of its own: colon after the name, final newline,
    comment lines (if any) complete *)
Definition own_lines (v : field) : bool :=
  forallb name_char (f_name v) && rest_colon v && ends_nl (f_rest v) && closed (f_comment v).

Lemma set_raw_core_spec p k raw comments pres fc p' :
  para_inv p = true -> forallb starts_hash comments = true ->
  set_raw_core p k raw comments pres fc = Ok p' ->
  para_inv p' = true /\
  exists v orig, own_lines v = true /\ new_for p k p' v orig
                 /\ f_comment v = core_comment comments pres fc orig
                 /\ (body_ok (tl (splitlines py_islinebreak true (f_name v ++ [COLON] ++ raw))) = true
                     -> f_rest v = COLON :: raw).
Proof.
  intros Hinv Hcs H. unfold set_raw_core in H.
  destruct (p_get p k true) as [original| |e] eqn:Eget;
    [|now apply p_get_not_amb in Eget|discriminate].
  cbn [bind] in H.
  set (cased := match original with Some f => f_name f | None => key_name k end) in *.
  bind_inv H. destruct x. bind_inv Hb. rename x into v0. bind_inv Hbb. rename x into v.
  assert (Hlen : length cased = length (key_name k)).
  { subst cased. destruct original as [f|]; [|reflexivity].
    destruct (p_get_some _ _ _ Hinv Eget) as [l1 [l2 [_ [Hf _]]]].
    now apply name_eqb_length in Hf. }
  destruct (parse_new_field_shape _ _ _ _ _ Hcs Ha Hlen Hba)
    as [Hn0 [Hnc0 [Hc0 [Hcl0 [Hrc0 [Hnl0 [first [others [r' [Hlines [Hfirst Hbody]]]]]]]]]]].
  (* the comment step keeps name and rest *)
  assert (Hv : f_name v = cased /\ f_rest v = f_rest v0 /\ closed (f_comment v) = true
               /\ f_comment v = core_comment comments pres fc original).
  { unfold core_comment. destruct (match pres with None => true | Some b => b end).
    - destruct original as [o|].
      + apply set_comment_ok in Hbba. destruct Hbba as [-> Hcl]. now cbn.
      + injection Hbba as <-. now repeat split.
    - destruct fc as [|l|t].
      + injection Hbba as <-. now repeat split.
      + injection Hbba as <-. now repeat split.
      + apply set_comment_ok in Hbba. destruct Hbba as [-> Hcl]. now cbn. }
  destruct Hv as [Hn [Hr [Hcl Hcm]]].
  assert (Hrc : rest_colon v = true) by (unfold rest_colon in *; now rewrite Hr).
  destruct (p_set_kvpair_spec _ _ _ _ Hinv Hrc Hbbb) as [_ [Hinv' Hcases]].
  split; [exact Hinv'|]. exists v, original.
  split; [unfold own_lines; now rewrite Hn, Hnc0, Hrc, Hr, Hnl0, Hcl|].
  split; [|split; [exact Hcm|]].
  - destruct Hcases as [[l1 [f [l2 [Hg [Hpf [Hhn [Hab Hpf']]]]]]]|[Hg [Hab Hpf']]];
      rewrite Hg in Eget; injection Eget as <-; cbn [new_for].
    + exists l1, l2. now repeat split.
    + now repeat split.
  - rewrite Hn, Hlines, Hr. cbn [tl]. intros Hok.
    pose proof (splitlines_keepends_concat py_islinebreak (cased ++ [COLON] ++ raw)) as Hcat.
    rewrite Hlines, Hfirst in Hcat. exact (scan_body_whole _ _ _ _ _ Hcat Hok Hbody).
Qed.

(** the comment of the new field, in terms of the arguments of the call *)
Definition new_comment (pres : option bool) (fc : fcomment) (orig : option field) (c : str) : Prop :=
  match pres, fc with
  | None, FCNone | Some true, FCNone => c = match orig with Some f => f_comment f | None => [] end
  | Some false, FCNone => c = []
  | None, FCList l => exists cs, map_result format_comment l = Ok cs /\ c = concat cs
  | None, FCElem t => c = t
  | Some _, _ => False
  end.

Lemma set_raw_spec p k raw pres fc p' :
  para_inv p = true -> set_raw p k raw pres fc = Ok p' ->
  para_inv p' = true /\
  exists v orig, own_lines v = true /\ new_for p k p' v orig
                 /\ new_comment pres fc orig (f_comment v)
                 /\ (body_ok (tl (splitlines py_islinebreak true (f_name v ++ [COLON] ++ raw))) = true
                     -> f_rest v = COLON :: raw).
Proof.
  intros Hinv H. unfold set_raw in H. bind_inv H. destruct x as [[comments pres'] fc'].
  unfold raw_args in Ha.
  destruct pres as [b|]; destruct fc as [|l|t]; try discriminate.
  - injection Ha as <- <- <-.
    destruct (set_raw_core_spec _ _ _ [] _ _ _ Hinv eq_refl Hb) as [Hi [v [orig [Ho [Hn [Hc Hw]]]]]].
    split; [exact Hi|]. exists v, orig. split; [exact Ho|]. split; [exact Hn|]. split; [|exact Hw].
    unfold core_comment in Hc. cbn [new_comment]. destruct b; [|now destruct orig].
    exact Hc.
  - injection Ha as <- <- <-.
    destruct (set_raw_core_spec _ _ _ [] _ _ _ Hinv eq_refl Hb) as [Hi [v [orig [Ho [Hn [Hc Hw]]]]]].
    split; [exact Hi|]. exists v, orig. now repeat split.
  - bind_inv Ha. injection Hab as <- <- <-.
    pose proof (map_result_format_comment _ _ Haa) as Hcs.
    destruct (set_raw_core_spec _ _ _ _ _ _ _ Hinv Hcs Hb) as [Hi [v [orig [Ho [Hn [Hc Hw]]]]]].
    split; [exact Hi|]. exists v, orig. split; [exact Ho|]. split; [exact Hn|]. split; [|exact Hw].
    cbn [new_comment]. exists x. now split.
  - injection Ha as <- <- <-.
    destruct (set_raw_core_spec _ _ _ [] _ _ _ Hinv eq_refl Hb) as [Hi [v [orig [Ho [Hn [Hc Hw]]]]]].
    split; [exact Hi|]. exists v, orig. now repeat split.
Qed.

Lemma set_simple_spec p k sv pres fc p' :
  para_inv p = true -> set_simple p k sv pres fc = Ok p' ->
  para_inv p' = true /\
  exists v orig, own_lines v = true /\ new_for p k p' v orig
                 /\ new_comment pres fc orig (f_comment v)
                 /\ (body_ok (tl (splitlines py_islinebreak true
                                   (f_name v ++ [COLON] ++ [SP] ++ py_strip sv ++ [LF]))) = true
                     -> f_rest v = COLON :: [SP] ++ py_strip sv ++ [LF]).
Proof.
  unfold set_simple. destruct (mem_char LF sv); [discriminate|]. apply set_raw_spec.
Qed.

(** the raw text [__setitem__] makes of a value *)
Definition setitem_raw (value : str) : str :=
  match split_on_first LF value with
  | (_, None) => [SP] ++ py_strip (py_strip value) ++ [LF]
  | (first_line, Some rest) =>
      let value' := [SP] ++ py_strip first_line ++ [LF] ++ rest in
      if ends_nl value' then value' else value' ++ [LF]
  end.

(** the dict interface keeps the comment of the field it replaces *)
Lemma setitem_spec p k value p' :
  para_inv p = true -> setitem p k value = Ok p' ->
  para_inv p' = true /\
  exists v orig, own_lines v = true /\ new_for p k p' v orig
                 /\ f_comment v = match orig with Some f => f_comment f | None => [] end
                 /\ (body_ok (tl (splitlines py_islinebreak true
                                   (f_name v ++ [COLON] ++ setitem_raw value))) = true
                     -> f_rest v = COLON :: setitem_raw value).
Proof.
  intros Hinv H. unfold setitem in H. bind_inv H. rename x into orig0.
  set (fc := match orig0 with
             | Some f => if is_nil (f_comment f) then FCNone else FCElem (f_comment f)
             | None => FCNone
             end) in *.
  assert (Hs : set_raw p k (setitem_raw value) None fc = Ok p').
  { unfold setitem_raw. destruct (split_on_first LF value) as [first [rest|]].
    - cbv zeta in Hb. exact Hb.
    - unfold set_simple in Hb. destruct (mem_char LF (py_strip value)); [discriminate|].
      exact Hb. }
  destruct (set_raw_spec _ _ _ _ _ _ Hinv Hs) as [Hi [v [orig [Ho [Hn [Hc Hw]]]]]].
  split; [exact Hi|]. exists v, orig. split; [exact Ho|]. split; [exact Hn|]. split; [|exact Hw].
  (* the field looked up with index 0 is the field the set replaces *)
  assert (Horig : orig0 = orig).
  { destruct p as [fs|d]; [|discriminate].
    cbn [p_get] in Ha. unfold nd_get in Ha.
    assert (Hu : unpack_key (match k with KStr n => KIdx n 0 | KIdx _ _ => k end) true
                 = unpack_key k true) by (destruct k; reflexivity).
    rewrite Hu in Ha. clear Hu.
    destruct (unpack_key k true) as [nk|e] eqn:Ek.
    2:{ (* an indexed key other than 0: the set itself fails *)
        exfalso. unfold set_raw in Hs. destruct fc; cbn [raw_args bind] in Hs;
          unfold set_raw_core in Hs; cbn [p_get] in Hs; unfold nd_get in Hs;
          rewrite Ek in Hs; discriminate. }
    apply unpack_key_true in Ek. subst nk. cbn [bind fst lres_result] in Ha.
    cbn [para_fields] in Hn.
    destruct (List.find (has_name (key_name k)) fs) as [g|] eqn:Ef; injection Ha as <-.
    - destruct orig as [f|]; cbn [new_for para_fields] in Hn.
      + destruct Hn as [l1 [l2 [Hfs [Hf [Hab _]]]]]. rewrite Hfs, find_split in Ef by assumption.
        congruence.
      + destruct Hn as [Hab _]. apply find_some_split in Ef.
        destruct Ef as [l1 [l2 [-> [_ Hg]]]]. rewrite absent_app in Hab. cbn [absent forallb] in Hab.
        rewrite Hg in Hab. cbn in Hab. now rewrite andb_false_r in Hab.
    - destruct orig as [f|]; [|reflexivity]. cbn [new_for para_fields] in Hn.
      destruct Hn as [l1 [l2 [Hfs [Hf [Hab _]]]]]. rewrite Hfs, find_split in Ef by assumption.
      discriminate. }
  subst orig0. subst fc. destruct orig as [f|]; cbn [new_comment] in Hc.
  - destruct (is_nil (f_comment f)) eqn:En; cbn [new_comment] in Hc; [exact Hc|exact Hc].
  - exact Hc.
Qed.

(** * Part 5 : documents *)

Lemma paras_app a b : paras (a ++ b) = paras a ++ paras b.
Proof. unfold paras. apply flat_map_app. Qed.

Lemma doc_inv_split a p b :
  doc_inv (a ++ Para p :: b) = doc_inv a && (para_inv p && doc_inv b).
Proof. unfold doc_inv. rewrite paras_app. cbn [paras flat_map app]. now rewrite forallb_app. Qed.

Definition op_key (o : op) : key :=
  match o with OSet _ k _ | ODel _ k | OSimple _ k _ _ _ | ORaw _ k _ _ _ => k end.

(** the comment of the field a set-like operation stores *)
Definition op_comment (o : op) (orig : option field) (c : str) : Prop :=
  match o with
  | OSet _ _ _ => c = match orig with Some f => f_comment f | None => [] end
  | OSimple _ _ _ pres fc | ORaw _ _ _ pres fc => new_comment pres (fc_of fc) orig c
  | ODel _ _ => False
  end.

(** what a successful operation does to the fields of its paragraph *)
Definition para_edit (o : op) (p p' : para) : Prop :=
  match o with
  | ODel _ k =>
      exists l1 f l2, para_fields p = l1 ++ f :: l2 /\ has_name (key_name k) f = true
                      /\ absent (key_name k) l1 = true /\ para_fields p' = l1 ++ l2
  | _ =>
      exists v orig, own_lines v = true /\ new_for p (op_key o) p' v orig
                     /\ op_comment o orig (f_comment v)
  end.

Lemma op_on_para_spec o p p' :
  para_inv p = true -> op_on_para o p = Ok p' -> para_inv p' = true /\ para_edit o p p'.
Proof.
  intros Hinv H. destruct o as [j k v|j k|j k v pres fc|j k v pres fc]; cbn [op_on_para] in H.
  - destruct (setitem_spec _ _ _ _ Hinv H) as [Hi [w [orig [H1 [H2 [H3 _]]]]]].
    split; [exact Hi|]. exists w, orig. now repeat split.
  - destruct (p_remove_spec _ _ _ Hinv H) as [Hi Hr]. now split.
  - destruct (set_simple_spec _ _ _ _ _ _ Hinv H) as [Hi [w [orig [H1 [H2 [H3 _]]]]]].
    split; [exact Hi|]. exists w, orig. now repeat split.
  - destruct (set_raw_spec _ _ _ _ _ _ Hinv H) as [Hi [w [orig [H1 [H2 [H3 _]]]]]].
    split; [exact Hi|]. exists w, orig. now repeat split.
Qed.

(** every successful operation: the addressed paragraph is edited as [para_edit] says,
    every other item of the document is untouched, and the result is valid again *)
Theorem run_op_local d o d' :
  doc_inv d = true -> run_op d o = Ok d' ->
  doc_inv d' = true /\
  exists a p b p', split_doc d (op_para o) = Some (a, p, b) /\ d' = a ++ Para p' :: b
                   /\ para_inv p = true /\ para_edit o p p'.
Proof.
  intros Hinv H. destruct (run_op_ok _ _ _ H) as [a [p [b [p' [Hs [Hop ->]]]]]].
  pose proof (split_doc_eq _ _ _ _ _ Hs) as Hd. rewrite Hd, doc_inv_split in Hinv.
  apply andb_true_iff in Hinv. destruct Hinv as [Ha Hpb].
  apply andb_true_iff in Hpb. destruct Hpb as [Hp Hb].
  destruct (op_on_para_spec _ _ _ Hp Hop) as [Hp' He].
  split; [now rewrite doc_inv_split, Ha, Hp', Hb|].
  now exists a, p, b, p'.
Qed.

Lemma step_inv d o : doc_inv d = true -> doc_inv (snd (step d o)) = true.
Proof.
  intros H. unfold step. destruct (run_op d o) as [d'|e] eqn:E; [|exact H].
  now apply run_op_local in E.
Qed.

Lemma run_inv ops : forall d, doc_inv d = true -> doc_inv (run d ops) = true.
Proof.
  induction ops as [|o ops IH]; intros d H; [exact H|].
  unfold run. cbn [fold_left]. apply IH. now apply step_inv.
Qed.

Lemma run_app d ops1 ops2 : run d (ops1 ++ ops2) = run (run d ops1) ops2.
Proof. unfold run. apply fold_left_app. Qed.

(** the field of a paragraph that a name denotes is unique *)
Lemma denoted_unique n l1 f l2 l1' f' l2' :
  l1 ++ f :: l2 = l1' ++ f' :: l2' ->
  has_name n f = true -> absent n l1 = true ->
  has_name n f' = true -> absent n l1' = true ->
  l1 = l1' /\ f = f' /\ l2 = l2'.
Proof.
  revert l1'. induction l1 as [|g l1 IH]; intros l1' E Hf Hl Hf' Hl'.
  - destruct l1' as [|g' l1'].
    + now injection E as -> ->.
    + injection E as -> _. cbn [absent forallb] in Hl'. rewrite Hf in Hl'. discriminate.
  - destruct l1' as [|g' l1'].
    + injection E as -> _. cbn [absent forallb] in Hl. rewrite Hf' in Hl. discriminate.
    + injection E as -> E. cbn [absent forallb] in Hl, Hl'.
      apply andb_true_iff in Hl, Hl'. destruct Hl as [_ Hl], Hl' as [_ Hl'].
      destruct (IH _ E Hf Hl Hf' Hl') as [-> [-> ->]]. now repeat split.
Qed.

Lemma fields_inv_absent_before n l1 f l2 :
  fields_inv (l1 ++ f :: l2) = true -> has_name n f = true ->
  absent n l1 = true /\ absent n l2 = true.
Proof.
  unfold fields_inv. intros H Hf. apply andb_true_iff in H. destruct H as [H _].
  apply nodup_names_split in H. destruct H as [H1 [H2 _]].
  unfold has_name in Hf. now rewrite <- !(absent_cong _ _ _ Hf).
Qed.

(** ** byte-level statements *)

Definition colon_first (s : str) : bool :=
  match s with c :: _ => (c =? COLON)%N | [] => false end.

(** replacing an existing field through any set-like operation *)
Theorem set_existing_bytes d o d' a p b l1 f l2 :
  doc_inv d = true ->
  match o with ODel _ _ => false | _ => true end = true ->
  split_doc d (op_para o) = Some (a, p, b) ->
  para_fields p = l1 ++ f :: l2 -> has_name (key_name (op_key o)) f = true ->
  run_op d o = Ok d' ->
  exists v,
    dump d  = (dump a ++ ftext l1) ++ field_text f ++ (ftext l2 ++ dump b) /\
    dump d' = (dump a ++ ftext l1) ++ field_text v ++ (ftext l2 ++ dump b) /\
    d' = a ++ Para (PN (l1 ++ v :: l2)) :: b /\
    f_name v = f_name f /\ own_lines v = true /\ op_comment o (Some f) (f_comment v).
Proof.
  intros Hinv Hset Hs Hpf Hf H.
  destruct (run_op_local _ _ _ Hinv H) as [_ [a' [p0 [b' [p' [Hs' [-> [Hp He]]]]]]]].
  rewrite Hs in Hs'. injection Hs' as <- <- <-.
  pose proof (para_inv_fields _ Hp) as Hfi. rewrite Hpf in Hfi.
  destruct (fields_inv_absent_before _ _ _ _ Hfi Hf) as [Hl1 Hl2].
  assert (He' : exists v orig, own_lines v = true /\ new_for p (op_key o) p' v orig
                               /\ op_comment o orig (f_comment v)).
  { destruct o; [exact He|discriminate|exact He|exact He]. }
  destruct He' as [v [orig [Hown [Hnew Hcm]]]].
  destruct orig as [g|]; cbn [new_for] in Hnew.
  - destruct Hnew as [m1 [m2 [Hpf2 [Hg [Hm1 [Hpf' Hname]]]]]].
    rewrite Hpf in Hpf2.
    destruct (denoted_unique _ _ _ _ _ _ _ Hpf2 Hf Hl1 Hg Hm1) as [<- [<- <-]].
    exists v. rewrite (split_doc_eq _ _ _ _ _ Hs).
    rewrite !dump_split, Hpf, Hpf', !ftext_app, !ftext_cons, <- !app_assoc.
    repeat split; try assumption.
    destruct p' as [fs'|dd]; [cbn [para_fields] in Hpf'; now subst fs'|].
    exfalso. pose proof (run_op_local _ _ _ Hinv H) as [Hi' _].
    rewrite doc_inv_split in Hi'. cbn [para_inv] in Hi'. now rewrite andb_false_r in Hi'.
  - destruct Hnew as [Hab _]. rewrite Hpf, absent_app in Hab. cbn [absent forallb] in Hab.
    rewrite Hf in Hab. cbn in Hab. now rewrite andb_false_r in Hab.
Qed.

(** adding a field under a name the paragraph does not have *)
Theorem set_new_bytes d o d' a p b :
  doc_inv d = true ->
  match o with ODel _ _ => false | _ => true end = true ->
  split_doc d (op_para o) = Some (a, p, b) ->
  absent (key_name (op_key o)) (para_fields p) = true ->
  run_op d o = Ok d' ->
  exists v,
    dump d  = (dump a ++ ftext (para_fields p)) ++ dump b /\
    dump d' = (dump a ++ ftext (para_fields p)) ++ nl_suffix (ftext (para_fields p))
              ++ field_text v ++ dump b /\
    d' = a ++ Para (PN (map_last add_nl (para_fields p) ++ [v])) :: b /\
    f_name v = key_name (op_key o) /\ own_lines v = true /\ op_comment o None (f_comment v).
Proof.
  intros Hinv Hset Hs Hab H.
  destruct (run_op_local _ _ _ Hinv H) as [Hi' [a' [p0 [b' [p' [Hs' [-> [Hp He]]]]]]]].
  rewrite Hs in Hs'. injection Hs' as <- <- <-.
  assert (He' : exists v orig, own_lines v = true /\ new_for p (op_key o) p' v orig
                               /\ op_comment o orig (f_comment v)).
  { destruct o; [exact He|discriminate|exact He|exact He]. }
  destruct He' as [v [orig [Hown [Hnew Hcm]]]].
  destruct orig as [g|]; cbn [new_for] in Hnew.
  - destruct Hnew as [m1 [m2 [Hpf2 [Hg _]]]]. rewrite Hpf2, absent_app in Hab.
    cbn [absent forallb] in Hab. rewrite Hg in Hab. cbn in Hab. now rewrite andb_false_r in Hab.
  - destruct Hnew as [_ [Hpf' Hname]].
    exists v. rewrite (split_doc_eq _ _ _ _ _ Hs).
    pose proof (para_inv_fields _ Hp) as Hfi. unfold fields_inv in Hfi.
    apply andb_true_iff in Hfi. destruct Hfi as [_ Hrc].
    rewrite !dump_split, Hpf', ftext_app, ftext_map_last_add_nl, ftext_one, <- !app_assoc by exact Hrc.
    repeat split; try assumption.
    destruct p' as [fs'|dd]; [cbn [para_fields] in Hpf'; now subst fs'|].
    exfalso. rewrite doc_inv_split in Hi'. cbn [para_inv] in Hi'. now rewrite andb_false_r in Hi'.
Qed.

(** deleting a field *)
Theorem delete_bytes d j k d' a p b l1 f l2 :
  doc_inv d = true ->
  split_doc d j = Some (a, p, b) ->
  para_fields p = l1 ++ f :: l2 -> has_name (key_name k) f = true ->
  run_op d (ODel j k) = Ok d' ->
  dump d  = (dump a ++ ftext l1) ++ field_text f ++ (ftext l2 ++ dump b) /\
  dump d' = (dump a ++ ftext l1) ++ (ftext l2 ++ dump b) /\
  d' = a ++ Para (PN (l1 ++ l2)) :: b.
Proof.
  intros Hinv Hs Hpf Hf H.
  destruct (run_op_local _ _ _ Hinv H) as [Hi' [a' [p0 [b' [p' [Hs' [-> [Hp He]]]]]]]].
  cbn [op_para] in Hs'. rewrite Hs in Hs'. injection Hs' as <- <- <-.
  pose proof (para_inv_fields _ Hp) as Hfi. rewrite Hpf in Hfi.
  destruct (fields_inv_absent_before _ _ _ _ Hfi Hf) as [Hl1 Hl2].
  cbn [para_edit] in He. destruct He as [m1 [g [m2 [Hpf2 [Hg [Hm1 Hpf']]]]]].
  rewrite Hpf in Hpf2.
  destruct (denoted_unique _ _ _ _ _ _ _ Hpf2 Hf Hl1 Hg Hm1) as [<- [<- <-]].
  rewrite (split_doc_eq _ _ _ _ _ Hs).
  rewrite !dump_split, Hpf, Hpf', !ftext_app, !ftext_cons, <- !app_assoc.
  repeat split.
  destruct p' as [fs'|dd]; [cbn [para_fields] in Hpf'; now subst fs'|].
  exfalso. rewrite doc_inv_split in Hi'. cbn [para_inv] in Hi'. now rewrite andb_false_r in Hi'.
Qed.

(** * Part 6 : line structure (every item that is followed by another one ends with a newline) *)

Lemma removelast_app_cons {A} (l1 : list A) x l2 :
  removelast (l1 ++ x :: l2) = l1 ++ removelast (x :: l2).
Proof. apply removelast_app. discriminate. Qed.

Lemma forallb_removelast {A} (q : A -> bool) l : forallb q l = true -> forallb q (removelast l) = true.
Proof.
  induction l as [|a l IH]; [reflexivity|]. cbn [forallb]. intros H.
  apply andb_true_iff in H. destruct H as [Ha H]. destruct l as [|b l]; [reflexivity|].
  change (removelast (a :: b :: l)) with (a :: removelast (b :: l)). cbn [forallb].
  rewrite Ha. now apply IH.
Qed.

Lemma fclosed_add_nl f : fclosed (add_nl f) = true.
Proof.
  unfold fclosed, add_nl. destruct (ends_nl (f_rest f)) eqn:E; [exact E|].
  cbn [f_rest]. apply ends_nl_app_lf.
Qed.

Lemma add_nl_closed f : fclosed f = true -> add_nl f = f.
Proof. unfold fclosed, add_nl. now intros ->. Qed.

Lemma fields_closed_map_last fs :
  fields_closed (removelast fs) = true -> fields_closed (map_last add_nl fs) = true.
Proof.
  induction fs as [|f fs IH]; [reflexivity|]. destruct fs as [|g fs].
  - intros _. cbn [map_last fields_closed forallb]. now rewrite fclosed_add_nl.
  - change (removelast (f :: g :: fs)) with (f :: removelast (g :: fs)).
    change (map_last add_nl (f :: g :: fs)) with (f :: map_last add_nl (g :: fs)).
    unfold fields_closed in *. cbn [forallb]. intros H. apply andb_true_iff in H.
    destruct H as [Hf H]. rewrite Hf. now apply IH.
Qed.

Lemma map_last_closed fs : fields_closed fs = true -> map_last add_nl fs = fs.
Proof.
  induction fs as [|f fs IH]; [reflexivity|]. unfold fields_closed. cbn [forallb]. intros H.
  apply andb_true_iff in H. destruct H as [Hf H]. destruct fs as [|g fs].
  - cbn [map_last]. now rewrite add_nl_closed.
  - change (map_last add_nl (f :: g :: fs)) with (f :: map_last add_nl (g :: fs)).
    now rewrite IH.
Qed.

Lemma fields_closed_text fs :
  forallb rest_colon fs = true -> fields_closed fs = true -> closed (ftext fs) = true.
Proof.
  intros Hrc Hc. unfold ftext. apply closed_concat. rewrite forallb_map.
  unfold fields_closed in Hc. rewrite forallb_forall in *. intros f Hf.
  rewrite closed_nonempty by (apply field_text_nonempty; now apply Hrc).
  rewrite ends_nl_field_text by (apply rest_colon_nonempty; now apply Hrc). now apply Hc.
Qed.

(** the effect of a successful operation on the closedness of its paragraph *)
Lemma para_edit_lines o p p' :
  para_edit o p p' ->
  fields_closed (removelast (para_fields p)) = true ->
  fields_closed (removelast (para_fields p')) = true
  /\ (fields_closed (para_fields p) = true -> fields_closed (para_fields p') = true).
Proof.
  intros He Hin.
  assert (Hset : (exists v orig, own_lines v = true /\ new_for p (op_key o) p' v orig) ->
                 fields_closed (removelast (para_fields p')) = true
                 /\ (fields_closed (para_fields p) = true -> fields_closed (para_fields p') = true)).
  { intros [v [orig [Hown Hnew]]].
    assert (Hv : fclosed v = true).
    { unfold own_lines in Hown. apply andb_true_iff in Hown. destruct Hown as [Hown _].
      apply andb_true_iff in Hown. now destruct Hown. }
    destruct orig as [f|]; cbn [new_for] in Hnew.
    - destruct Hnew as [l1 [l2 [Hpf [_ [_ [Hpf' _]]]]]]. rewrite Hpf in *. rewrite Hpf'.
      rewrite removelast_app_cons in *. unfold fields_closed in *. rewrite !forallb_app in *.
      split.
      + apply andb_true_iff in Hin. destruct Hin as [H1 H2]. rewrite H1. cbn [andb].
        destruct l2 as [|g l2]; [reflexivity|].
        change (removelast (v :: g :: l2)) with (v :: removelast (g :: l2)).
        change (removelast (f :: g :: l2)) with (f :: removelast (g :: l2)) in H2.
        cbn [forallb] in *. rewrite Hv. apply andb_true_iff in H2. now destruct H2.
      + intros H. apply andb_true_iff in H. destruct H as [H1 H2]. rewrite H1. cbn [forallb] in *.
        rewrite Hv. apply andb_true_iff in H2. now destruct H2.
    - destruct Hnew as [_ [Hpf' _]]. rewrite Hpf'.
      assert (Hall : fields_closed (map_last add_nl (para_fields p) ++ [v]) = true).
      { unfold fields_closed. rewrite forallb_app. cbn [forallb]. rewrite Hv.
        fold (fields_closed (map_last add_nl (para_fields p))). now rewrite fields_closed_map_last. }
      split; [|intros _; exact Hall].
      rewrite removelast_app_cons. cbn [removelast]. rewrite app_nil_r.
      now apply fields_closed_map_last. }
  destruct o as [j k v|j k|j k v pres fc|j k v pres fc]; cbn [para_edit] in He.
  - apply Hset. destruct He as [w [orig [H1 [H2 _]]]]. now exists w, orig.
  - destruct He as [l1 [f [l2 [Hpf [_ [_ Hpf']]]]]]. rewrite Hpf in *. rewrite Hpf'.
    rewrite removelast_app_cons in Hin. unfold fields_closed in *. rewrite forallb_app in *.
    apply andb_true_iff in Hin. destruct Hin as [H1 H2]. split.
    + destruct l2 as [|g l2].
      * rewrite app_nil_r. now apply forallb_removelast.
      * rewrite removelast_app_cons, forallb_app, H1. cbn [andb].
        change (removelast (f :: g :: l2)) with (f :: removelast (g :: l2)) in H2.
        cbn [forallb] in H2. apply andb_true_iff in H2. now destruct H2.
    + rewrite ?forallb_app. intros H. apply andb_true_iff in H. destruct H as [_ H]. cbn [forallb] in H.
      apply andb_true_iff in H. destruct H as [_ H]. now rewrite H1, H.
  - apply Hset. destruct He as [w [orig [H1 [H2 _]]]]. now exists w, orig.
  - apply Hset. destruct He as [w [orig [H1 [H2 _]]]]. now exists w, orig.
Qed.

Lemma lines_ok_app a it b :
  lines_ok (a ++ it :: b) =
  forallb (fun x => item_closed x && item_inner x) a
  && ((is_nil b || item_closed it) && item_inner it && lines_ok b).
Proof.
  induction a as [|x a IH]; [reflexivity|].
  cbn [app lines_ok forallb]. rewrite IH.
  destruct (a ++ it :: b) eqn:E; [destruct a; discriminate|]. cbn [is_nil orb].
  now rewrite !andb_assoc.
Qed.

Lemma items_closed_dump a :
  forallb para_inv (paras a) = true ->
  forallb (fun x => item_closed x && item_inner x) a = true -> closed (dump a) = true.
Proof.
  induction a as [|x a IH]; [reflexivity|]. intros Hinv H. cbn [forallb] in H.
  apply andb_true_iff in H. destruct H as [Hx H]. apply andb_true_iff in Hx. destruct Hx as [Hx _].
  rewrite dump_cons. apply closed_app.
  - destruct x as [p|k t]; [|exact Hx]. cbn [item_text item_closed] in *. rewrite para_text_ftext.
    apply fields_closed_text; [|exact Hx].
    cbn [paras flat_map app forallb] in Hinv. apply andb_true_iff in Hinv. destruct Hinv as [Hp _].
    apply para_inv_fields in Hp. unfold fields_inv in Hp. apply andb_true_iff in Hp. now destruct Hp.
  - apply IH; [|exact H]. destruct x; cbn [paras flat_map app forallb] in Hinv; [|exact Hinv].
    apply andb_true_iff in Hinv. now destruct Hinv.
Qed.

Theorem run_op_ok_preserved d o d' :
  doc_ok d = true -> run_op d o = Ok d' -> doc_ok d' = true.
Proof.
  unfold doc_ok. intros H Hr. apply andb_true_iff in H. destruct H as [Hinv Hl].
  destruct (run_op_local _ _ _ Hinv Hr) as [Hinv' [a [p [b [p' [Hs [-> [Hp He]]]]]]]].
  rewrite Hinv'. cbn [andb].
  rewrite (split_doc_eq _ _ _ _ _ Hs), lines_ok_app in Hl. rewrite lines_ok_app.
  apply andb_true_iff in Hl. destruct Hl as [Ha Hl]. rewrite Ha. cbn [andb].
  apply andb_true_iff in Hl. destruct Hl as [Hl Hb]. rewrite Hb, andb_true_r.
  apply andb_true_iff in Hl. destruct Hl as [Hc Hi]. cbn [item_closed item_inner] in *.
  destruct (para_edit_lines _ _ _ He Hi) as [Hi' Hc']. rewrite Hi', andb_true_r.
  destruct (is_nil b); [reflexivity|]. cbn [orb] in *. now apply Hc'.
Qed.

Lemma step_ok d o : doc_ok d = true -> doc_ok (snd (step d o)) = true.
Proof.
  intros H. unfold step. destruct (run_op d o) as [d'|e] eqn:E; [|exact H].
  now apply run_op_ok_preserved in E.
Qed.

Theorem run_ok ops : forall d, doc_ok d = true -> doc_ok (run d ops) = true.
Proof.
  induction ops as [|o ops IH]; intros d H; [exact H|].
  unfold run. cbn [fold_left]. apply IH. now apply step_ok.
Qed.

(** where a new field goes: at the beginning of a line; and a newline is supplied only when the
    paragraph is the very end of the document *)
Theorem new_field_position d j a p b :
  doc_ok d = true -> split_doc d j = Some (a, p, b) ->
  closed ((dump a ++ ftext (para_fields p)) ++ nl_suffix (ftext (para_fields p))) = true
  /\ (nl_suffix (ftext (para_fields p)) <> [] -> b = []).
Proof.
  unfold doc_ok. intros H Hs. apply andb_true_iff in H. destruct H as [Hinv Hl].
  rewrite (split_doc_eq _ _ _ _ _ Hs) in Hinv, Hl. rewrite doc_inv_split in Hinv.
  apply andb_true_iff in Hinv. destruct Hinv as [Hia Hinv].
  apply andb_true_iff in Hinv. destruct Hinv as [Hp _].
  rewrite lines_ok_app in Hl. apply andb_true_iff in Hl. destruct Hl as [Ha Hl].
  apply andb_true_iff in Hl. destruct Hl as [Hl _]. apply andb_true_iff in Hl. destruct Hl as [Hc _].
  pose proof (items_closed_dump _ Hia Ha) as Hda.
  apply para_inv_fields in Hp. unfold fields_inv in Hp. apply andb_true_iff in Hp. destruct Hp as [_ Hrc].
  split.
  - rewrite <- app_assoc. apply closed_app; [exact Hda|].
    unfold nl_suffix. destruct (closed (ftext (para_fields p))) eqn:E.
    + now rewrite app_nil_r.
    + unfold closed. rewrite ends_nl_app_lf. apply orb_true_r.
  - intros Hn. destruct b as [|x b]; [reflexivity|]. cbn [is_nil orb item_closed] in Hc.
    exfalso. apply Hn. unfold nl_suffix. now rewrite fields_closed_text.
Qed.

(** * Part 7 : histories; the free text and the number of paragraphs never change *)

Definition skeleton (d : doc) : list (option str) :=
  map (fun it => match it with Para _ => None | Other _ t => Some t end) d.

Lemma run_op_skeleton d o d' : run_op d o = Ok d' -> skeleton d' = skeleton d.
Proof.
  intros H. destruct (run_op_ok _ _ _ H) as [a [p [b [p' [Hs [_ ->]]]]]].
  rewrite (split_doc_eq _ _ _ _ _ Hs). unfold skeleton. now rewrite !map_app.
Qed.

Lemma run_skeleton ops : forall d, skeleton (run d ops) = skeleton d.
Proof.
  induction ops as [|o ops IH]; intros d; [reflexivity|].
  unfold run. cbn [fold_left]. fold (run (snd (step d o)) ops). rewrite IH.
  unfold step. destruct (run_op d o) as [d'|e] eqn:E; [|reflexivity].
  cbn [snd]. now apply (run_op_skeleton d o).
Qed.

(** one successful operation, as a relation between documents *)
Definition local_step (o : op) (d d' : doc) : Prop :=
  exists a p b p', split_doc d (op_para o) = Some (a, p, b) /\ d' = a ++ Para p' :: b
                   /\ para_edit o p p'.

Lemma step_snd_ok d o d' : run_op d o = Ok d' -> snd (step d o) = d'.
Proof. unfold step. now intros ->. Qed.

Lemma step_snd_err d o e : run_op d o = Err e -> step d o = (Some e, d).
Proof. unfold step. now intros ->. Qed.

(** at every point of every history the document is valid, and the next operation either is
    rejected and changes nothing or is a local edit *)
Theorem edit_sequence d ops1 o ops2 :
  doc_ok d = true ->
  let d1 := run d ops1 in
  let d2 := run d (ops1 ++ [o]) in
  doc_ok d1 = true
  /\ ((exists e, run_op d1 o = Err e /\ d2 = d1) \/ (run_op d1 o = Ok d2 /\ local_step o d1 d2))
  /\ doc_ok (run d (ops1 ++ o :: ops2)) = true
  /\ skeleton (run d (ops1 ++ o :: ops2)) = skeleton d.
Proof.
  intros Hok d1 d2. pose proof (run_ok ops1 _ Hok) as H1. fold d1 in H1.
  split; [exact H1|]. split.
  - subst d2. rewrite run_app. fold d1. unfold run. cbn [fold_left].
    destruct (run_op d1 o) as [d'|e] eqn:E.
    + right. rewrite (step_snd_ok _ _ _ E). split; [reflexivity|].
      unfold doc_ok in H1. apply andb_true_iff in H1. destruct H1 as [Hinv _].
      destruct (run_op_local _ _ _ Hinv E) as [_ [a [p [b [p' [Hs [-> [_ He]]]]]]]].
      now exists a, p, b, p'.
    + left. exists e. rewrite (step_snd_err _ _ _ E). now split.
  - split; [now apply run_ok|apply run_skeleton].
Qed.

Theorem rejects_leave_unchanged d o e d' : step d o = (Some e, d') -> d' = d /\ run_op d o = Err e.
Proof.
  unfold step. destruct (run_op d o) as [d1|e1]; intros H; inversion H; now split.
Qed.

(** ** reading the edited object *)

Definition plain_key (k : key) : bool :=
  match k with KStr _ => true | KIdx _ i => (i =? 0)%Z end.

(** the new field is read under every spelling of its name *)
Lemma getitem_new p k p' v orig k' :
  para_inv p' = true -> new_for p k p' v orig ->
  name_eqb (key_name k') (key_name k) = true -> plain_key k' = true ->
  getitem p' k' = Ok (value_str v).
Proof.
  intros Hinv' Hnew Hk Hplain. destruct orig as [f|]; cbn [new_for] in Hnew.
  - destruct Hnew as [l1 [l2 [_ [Hf [Hab [Hpf' Hname]]]]]].
    apply (getitem_spec _ _ l1 v l2); try assumption.
    + unfold has_name in *. rewrite Hname.
      apply name_eqb_eq in Hf, Hk. apply name_eqb_eq. congruence.
    + now rewrite (absent_cong _ _ l1 Hk).
  - destruct Hnew as [Hab [Hpf' Hname]].
    apply (getitem_spec _ _ (map_last add_nl (para_fields p)) v []); try assumption.
    + unfold has_name. rewrite Hname, name_eqb_sym. exact Hk.
    + now rewrite (absent_cong _ _ _ Hk), absent_map_last_add_nl.
Qed.

(** names and order *)
Lemma names_after_set p k p' v orig :
  new_for p k p' v orig ->
  map f_name (para_fields p') =
  match orig with
  | Some _ => map f_name (para_fields p)
  | None => map f_name (para_fields p) ++ [key_name k]
  end.
Proof.
  destruct orig as [f|]; cbn [new_for].
  - intros [l1 [l2 [-> [_ [_ [-> Hn]]]]]]. rewrite !map_app. cbn [map]. now rewrite Hn.
  - intros [_ [-> Hn]]. rewrite map_app. cbn [map]. rewrite Hn. f_equal.
    induction (para_fields p) as [|f fs IH]; [reflexivity|]. destruct fs as [|g fs].
    + cbn [map_last map]. unfold add_nl. now destruct (ends_nl (f_rest f)).
    + change (map_last add_nl (f :: g :: fs)) with (f :: map_last add_nl (g :: fs)).
      cbn [map] in *. now rewrite IH.
Qed.

(** * Part 8 : values *)

(** ** physical lines *)

Fixpoint lines_acc (s : str) (cur : str) : list str :=
  match s with
  | [] => if is_nil cur then [] else [rev cur]
  | x :: s' => if (x =? LF)%N then (rev cur ++ [LF]) :: lines_acc s' [] else lines_acc s' (x :: cur)
  end.

Lemma splitlines_aux_lines_acc islb s : forall cur,
  islb LF = true ->
  forallb (fun c => negb (islb c) || (c =? LF)%N) s = true ->
  splitlines_aux islb true s cur = lines_acc s cur.
Proof.
  intros cur Hlf. revert cur. induction s as [|x s IH]; intros cur H.
  - cbn. destruct cur; reflexivity.
  - cbn [forallb] in H. apply andb_true_iff in H. destruct H as [Hx H].
    cbn [splitlines_aux lines_acc]. destruct (N.eqb_spec x LF) as [->|Hne].
    + rewrite Hlf. destruct s as [|y s']; [reflexivity|].
      change ((LF =? 13)%N) with false. cbn [andb]. now rewrite IH.
    + cbn [orb] in Hx. rewrite orb_false_r in Hx. apply negb_true_iff in Hx. rewrite Hx.
      now apply IH.
Qed.

Lemma lf_lines_acc s : lf_lines s = lines_acc s [].
Proof.
  unfold lf_lines, splitlines. apply splitlines_aux_lines_acc.
  - reflexivity.
  - induction s as [|x s IH]; [reflexivity|]. cbn [forallb]. rewrite IH, andb_true_r.
    unfold is_lf. now destruct (x =? LF)%N.
Qed.

Lemma lines_acc_nonempty_lines s : forall cur, forallb (fun l => negb (is_nil l)) (lines_acc s cur) = true.
Proof.
  induction s as [|x s IH]; intros cur.
  - cbn. destruct cur as [|c cur]; [reflexivity|]. cbn. destruct (rev cur ++ [c]) eqn:E; [|reflexivity].
    destruct (rev cur); discriminate.
  - cbn [lines_acc]. destruct (x =? LF)%N; [|apply IH].
    cbn [forallb]. rewrite IH, andb_true_r. destruct (rev cur); reflexivity.
Qed.

Lemma lines_acc_nonempty s cur : s <> [] -> lines_acc s cur <> [].
Proof.
  revert cur. induction s as [|x s IH]; intros cur Hs; [congruence|].
  cbn [lines_acc]. destruct (x =? LF)%N; [discriminate|].
  destruct s as [|y s]; [cbn; discriminate|]. apply IH. discriminate.
Qed.

Definition app_lf (l : str) : str := l ++ [LF].

Lemma ends_nl_cons c s : s <> [] -> ends_nl (c :: s) = ends_nl s.
Proof. intros H. now apply (ends_nl_app [c] s). Qed.

Lemma lines_acc_app_lf s : forall cur,
  ends_nl s = false ->
  lines_acc (s ++ [LF]) cur =
  match lines_acc s cur with [] => [[LF]] | ls => map_last app_lf ls end.
Proof.
  induction s as [|x s IH]; intros cur H.
  - cbn. destruct cur; reflexivity.
  - assert (Hs : ends_nl s = false).
    { destruct s as [|y s]; [reflexivity|]. now rewrite ends_nl_cons in H by discriminate. }
    cbn [app lines_acc]. destruct (N.eqb_spec x LF) as [->|Hne].
    + assert (Hne : s <> []) by (intros ->; discriminate H).
      rewrite IH by exact Hs. pose proof (lines_acc_nonempty s [] Hne) as Hl.
      destruct (lines_acc s []) as [|h t]; [congruence|]. reflexivity.
    + now apply IH.
Qed.

(** ** adding the missing final newline does not change the value that is read *)

Lemma dropwhile_app_not_all {A} (q : A -> bool) a b :
  forallb q a = false -> dropwhile q (a ++ b) = dropwhile q a ++ b.
Proof.
  induction a as [|c a IH]; [discriminate|]. cbn [forallb app dropwhile].
  destruct (q c); [exact IH|reflexivity].
Qed.

Lemma py_strip_app_lf l : py_strip (l ++ [LF]) = py_strip l.
Proof.
  unfold py_strip, strip_by, lstrip_by, rstrip_by.
  destruct (forallb py_isspace l) eqn:E.
  - rewrite dropwhile_app_all by exact E.
    assert (Hd : dropwhile py_isspace l = []).
    { rewrite <- (app_nil_r l) at 1. now rewrite dropwhile_app_all. }
    rewrite Hd. reflexivity.
  - rewrite dropwhile_app_not_all by exact E. now apply rdropwhile_app_drop.
Qed.

Lemma starts_hash_app l x : l <> [] -> starts_hash (l ++ x) = starts_hash l.
Proof. destruct l; [congruence|reflexivity]. Qed.

Lemma map_last_cons2 {A} (g : A -> A) a l : l <> [] -> map_last g (a :: l) = a :: map_last g l.
Proof. destruct l; [congruence|reflexivity]. Qed.

Lemma map_last_snoc {A} (g : A -> A) l x : map_last g (l ++ [x]) = l ++ [g x].
Proof.
  induction l as [|a l IH]; [reflexivity|]. cbn [app].
  rewrite map_last_cons2 by (destruct l; discriminate). now rewrite IH.
Qed.

Lemma drop_final_nl_app_lf a : ends_nl a = false -> drop_final_nl (a ++ [LF]) = drop_final_nl a.
Proof.
  intros H. unfold drop_final_nl. rewrite ends_nl_app_lf, H. apply removelast_last.
Qed.

Lemma value_multi l1 (F : list str) x :
  match l1 :: (F ++ [x]) with
  | [] => []
  | [l] => py_strip l
  | a :: ls => drop_final_nl (py_strip a ++ [LF] ++ concat ls)
  end = drop_final_nl (py_strip l1 ++ [LF] ++ concat F ++ x).
Proof.
  destruct (F ++ [x]) as [|m ms] eqn:E; [destruct F; discriminate|].
  rewrite <- E, concat_app. cbn [concat]. now rewrite app_nil_r.
Qed.

Lemma value_str_add_nl f : rest_colon f = true -> value_str (add_nl f) = value_str f.
Proof.
  intros Hrc. unfold add_nl. destruct (ends_nl (f_rest f)) eqn:Hnl; [reflexivity|].
  unfold value_str, value_lines. cbn [f_rest].
  unfold rest_colon in Hrc. destruct (f_rest f) as [|c s] eqn:Er; [discriminate|].
  cbn [app tl].
  assert (Hs : ends_nl s = false).
  { destruct s as [|y s]; [reflexivity|]. now rewrite ends_nl_cons in Hnl by discriminate. }
  rewrite !lf_lines_acc, lines_acc_app_lf by exact Hs.
  pose proof (lines_acc_nonempty_lines s []) as Hne.
  pose proof (splitlines_keepends_concat is_lf s) as Hcat.
  fold (lf_lines s) in Hcat. rewrite lf_lines_acc in Hcat.
  destruct (lines_acc s []) as [|l1 ls] eqn:El.
  - reflexivity.
  - destruct ls as [|l2 ls].
    + cbn [map_last filter]. apply py_strip_app_lf.
    + change (map_last app_lf (l1 :: l2 :: ls)) with (l1 :: map_last app_lf (l2 :: ls)).
      destruct (@exists_last _ (l2 :: ls)) as [ls0 [last Hl]]; [discriminate|]. rewrite Hl in *.
      rewrite map_last_snoc. rewrite !filter_app. cbn [filter].
      cbn [forallb] in Hne. apply andb_true_iff in Hne. destruct Hne as [_ Hne].
      rewrite forallb_app in Hne. apply andb_true_iff in Hne. destruct Hne as [_ Hne].
      cbn [forallb] in Hne. rewrite andb_true_r in Hne.
      assert (Hlast : last <> []) by (destruct last; [discriminate|discriminate]).
      unfold app_lf. rewrite starts_hash_app by exact Hlast.
      destruct (negb (starts_hash last)); [|reflexivity].
      assert (Hend : ends_nl last = false).
      { cbn [concat] in Hcat. rewrite concat_app in Hcat. cbn [concat] in Hcat.
        rewrite app_nil_r in Hcat. rewrite <- Hcat in Hs.
        rewrite app_assoc in Hs. now rewrite ends_nl_app in Hs by exact Hlast. }
      rewrite !value_multi. rewrite !app_assoc. apply drop_final_nl_app_lf.
      now rewrite ends_nl_app by exact Hlast.
Qed.

(** ** the other fields read as before *)

Definition read_name (fs : list field) (m : str) : option str :=
  option_map value_str (List.find (has_name m) fs).

Lemma getitem_PN fs k :
  plain_key k = true ->
  getitem (PN fs) k = match read_name fs (key_name k) with Some s => Ok s | None => Err KeyError end.
Proof.
  intros Hk. unfold getitem, read_name. cbn [p_get]. unfold nd_get.
  assert (Hu : unpack_key (match k with KStr n => KIdx n 0 | KIdx _ _ => k end) true
               = Ok (key_name k, None)).
  { destruct k as [n|n i]; cbn [unpack_key key_name]; [reflexivity|]. cbn in Hk. now rewrite Hk. }
  rewrite Hu. cbn [bind fst]. now destruct (List.find (has_name (key_name k)) fs).
Qed.

Lemma find_app_none {A} (q : A -> bool) l1 l2 :
  List.find q (l1 ++ l2) = match List.find q l1 with Some x => Some x | None => List.find q l2 end.
Proof.
  induction l1 as [|a l1 IH]; [reflexivity|]. cbn [app List.find]. now destruct (q a).
Qed.

Lemma read_name_replace m l1 f v l2 :
  has_name m f = false -> has_name m v = false ->
  read_name (l1 ++ v :: l2) m = read_name (l1 ++ f :: l2) m.
Proof.
  intros Hf Hv. unfold read_name. rewrite !find_app_none. cbn [List.find]. now rewrite Hf, Hv.
Qed.

Lemma read_name_remove m l1 f l2 :
  has_name m f = false -> read_name (l1 ++ l2) m = read_name (l1 ++ f :: l2) m.
Proof.
  intros Hf. unfold read_name. rewrite !find_app_none. cbn [List.find]. now rewrite Hf.
Qed.

Lemma has_name_add_nl m f : has_name m (add_nl f) = has_name m f.
Proof. unfold add_nl, has_name. now destruct (ends_nl (f_rest f)). Qed.

Lemma read_name_map_last m fs :
  forallb rest_colon fs = true -> read_name (map_last add_nl fs) m = read_name fs m.
Proof.
  unfold read_name. induction fs as [|f fs IH]; [reflexivity|]. cbn [forallb]. intros H.
  apply andb_true_iff in H. destruct H as [Hf H]. destruct fs as [|g fs].
  - cbn [map_last List.find]. rewrite has_name_add_nl. destruct (has_name m f); [|reflexivity].
    cbn [option_map]. now rewrite value_str_add_nl.
  - rewrite map_last_cons2 by discriminate. cbn [List.find] in *.
    destruct (has_name m f); [reflexivity|]. now apply IH.
Qed.

Lemma read_name_append m fs v :
  forallb rest_colon fs = true -> has_name m v = false ->
  read_name (map_last add_nl fs ++ [v]) m = read_name fs m.
Proof.
  intros Hrc Hv. rewrite <- (read_name_map_last m fs Hrc). unfold read_name.
  rewrite find_app_none. cbn [List.find]. rewrite Hv.
  now destruct (List.find (has_name m) (map_last add_nl fs)).
Qed.

Lemma other_name m n f : has_name n f = true -> name_eqb m n = false -> has_name m f = false.
Proof.
  unfold has_name. intros Hf Hm. destruct (name_eqb (f_name f) m) eqn:E; [|reflexivity].
  apply name_eqb_eq in Hf, E. assert (name_eqb m n = true) by (apply name_eqb_eq; congruence).
  congruence.
Qed.

(** every field other than the one addressed reads as before the operation *)
Theorem others_unchanged o p p' k' :
  para_inv p = true -> para_inv p' = true -> para_edit o p p' ->
  plain_key k' = true -> name_eqb (key_name k') (key_name (op_key o)) = false ->
  getitem p' k' = getitem p k'.
Proof.
  intros Hp Hp' He Hk Hm.
  destruct p as [fs|]; [|discriminate]. destruct p' as [fs'|]; [|discriminate].
  rewrite !getitem_PN by exact Hk. cbn [para_inv] in Hp. unfold fields_inv in Hp.
  apply andb_true_iff in Hp. destruct Hp as [_ Hrc].
  assert (Hset : (exists v orig, new_for (PN fs) (op_key o) (PN fs') v orig) ->
                 read_name fs' (key_name k') = read_name fs (key_name k')).
  { intros [v [orig Hnew]]. destruct orig as [f|]; cbn [new_for para_fields] in Hnew.
    - destruct Hnew as [l1 [l2 [-> [Hf [_ [-> Hn]]]]]].
      pose proof (other_name _ _ _ Hf Hm) as Hf'.
      apply read_name_replace; [exact Hf'|]. unfold has_name in *. now rewrite Hn.
    - destruct Hnew as [_ [-> Hn]]. apply read_name_append; [exact Hrc|].
      unfold has_name. rewrite Hn, name_eqb_sym. exact Hm. }
  destruct o as [j k v|j k|j k v pres fc|j k v pres fc]; cbn [para_edit op_key] in *.
  - rewrite Hset; [reflexivity|]. destruct He as [w [orig [_ [H _]]]]. now exists w, orig.
  - cbn [para_fields] in He. destruct He as [l1 [f [l2 [-> [Hf [_ ->]]]]]].
    now rewrite (read_name_remove _ l1 f l2 (other_name _ _ _ Hf Hm)).
  - rewrite Hset; [reflexivity|]. destruct He as [w [orig [_ [H _]]]]. now exists w, orig.
  - rewrite Hset; [reflexivity|]. destruct He as [w [orig [_ [H _]]]]. now exists w, orig.
Qed.
