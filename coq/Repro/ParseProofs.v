(** Proofs about the grouping stages of the parser model (Repro/Parse.v):
    every stage preserves the token sequence ([flatten_list]), the only lossy
    branch (the parse-error branch of [_build_field_with_value], which drops a
    pending comment element) is unreachable from the tokenizer, and therefore
    parse-then-dump is the concatenation of the token texts. *)
From Verif Require Import Lib.Base Lib.PyStr Repro.Token Repro.Parse
  Repro.LosslessSpec Repro.TokenProofs.

(** * flatten basics *)
Lemma flatten_list_app a b : flatten_list (a ++ b) = flatten_list a ++ flatten_list b.
Proof. unfold flatten_list. apply flat_map_app. Qed.

Lemma flatten_list_cons x l : flatten_list (x :: l) = flatten x ++ flatten_list l.
Proof. reflexivity. Qed.

Lemma flatten_list_single x : flatten_list [x] = flatten x.
Proof. cbn. apply app_nil_r. Qed.

Lemma flatten_elem k ps : flatten (Elem k ps) = flatten_list ps.
Proof. reflexivity. Qed.

Lemma flatten_list_opt_list (o : option node) :
  flatten_list (opt_list o) = match o with Some x => flatten x | None => [] end.
Proof. destruct o; [apply flatten_list_single|reflexivity]. Qed.

Lemma flatten_tokens ts : flatten_list (map node_of_token ts) = ts.
Proof.
  induction ts as [|t ts IH]; [reflexivity|].
  cbn [map]. rewrite flatten_list_cons, IH. now destruct t.
Qed.

(** * Stages 1, 3, 5, 6: [combine_into_replacement] *)
Section CombineProofs.
Variable is_src : node -> bool.
Variable ctor : list node -> node.
Hypothesis ctor_flat : forall acc, flatten (ctor acc) = flatten_list acc.

Lemma flush_flatten acc : flatten_list (flush ctor acc) = flatten_list acc.
Proof.
  unfold flush. destruct acc as [|a acc]; [reflexivity|]. cbn [is_nil].
  rewrite flatten_list_single. apply ctor_flat.
Qed.

Lemma combine_from_flatten l : forall acc,
  flatten_list (combine_from is_src ctor acc l) = flatten_list acc ++ flatten_list l.
Proof.
  induction l as [|t l IH]; intros acc; cbn [combine_from].
  - rewrite flush_flatten. cbn. now rewrite app_nil_r.
  - destruct (is_src t).
    + rewrite IH, flatten_list_app, flatten_list_single, flatten_list_cons.
      now rewrite <- app_assoc.
    + rewrite flatten_list_app, flush_flatten, !flatten_list_cons, IH. reflexivity.
Qed.

Lemma combine_flatten l : flatten_list (combine is_src ctor l) = flatten_list l.
Proof. unfold combine. now rewrite combine_from_flatten. Qed.
End CombineProofs.

(** a run that has started always comes out as one constructed element *)
Lemma combine_from_nonempty is_src ctor l : forall acc,
  acc <> [] -> exists run tl, combine_from is_src ctor acc l = ctor run :: tl.
Proof.
  induction l as [|t l IH]; intros acc Hacc; cbn [combine_from].
  - unfold flush. destruct acc; [congruence|]. cbn [is_nil]. eauto.
  - destruct (is_src t).
    + apply IH. destruct acc; discriminate.
    + unfold flush. destruct acc; [congruence|]. cbn [is_nil app]. eauto.
Qed.

(** * Stage 2: [_build_value_line] *)
Lemma split_last_some {A} (l : list A) i x : split_last l = Some (i, x) -> l = i ++ [x].
Proof.
  revert i x. induction l as [|a l IH]; intros i x; [discriminate|].
  cbn [split_last]. destruct l as [|b l].
  - intros [= <- <-]. reflexivity.
  - destruct (split_last (b :: l)) as [[i' x']|] eqn:E; [|discriminate].
    intros [= <- <-]. cbn [app]. f_equal. now apply IH.
Qed.

Lemma pop_trailing_spec toks t1 tr :
  pop_trailing toks = (t1, tr) -> toks = t1 ++ opt_list tr.
Proof.
  unfold pop_trailing. destruct (split_last toks) as [[i x]|] eqn:E.
  - destruct (is_ws_tok x).
    + intros [= <- <-]. now apply split_last_some.
    + intros [= <- <-]. cbn. now rewrite app_nil_r.
  - intros [= <- <-]. cbn. now rewrite app_nil_r.
Qed.

Lemma pop_leading_spec toks ld t2 :
  pop_leading toks = (ld, t2) -> toks = opt_list ld ++ t2.
Proof.
  unfold pop_leading. destruct (split_last toks) as [[i x]|] eqn:E.
  - destruct (is_ws_tok x).
    + destruct toks as [|h t]; intros [= <- <-]; reflexivity.
    + intros [= <- <-]. reflexivity.
  - intros [= <- <-]. reflexivity.
Qed.

Lemma mk_value_line_shape cmt cont toks eol :
  exists s ps, mk_value_line cmt cont toks eol = Elem (EValueLine s) ps
    /\ flatten_list ps = flatten_list (opt_list cmt ++ opt_list cont ++ toks ++ opt_list eol).
Proof.
  unfold mk_value_line.
  destruct (pop_trailing toks) as [t1 tr] eqn:E1.
  destruct (pop_leading t1) as [ld t2] eqn:E2.
  apply pop_trailing_spec in E1. apply pop_leading_spec in E2. subst toks t1.
  eexists _, _. split; [reflexivity|].
  rewrite <- !app_assoc. reflexivity.
Qed.

Lemma mk_value_line_flatten cmt cont toks eol :
  flatten (mk_value_line cmt cont toks eol)
  = flatten_list (opt_list cmt ++ opt_list cont ++ toks ++ opt_list eol).
Proof.
  destruct (mk_value_line_shape cmt cont toks eol) as [s [ps [-> H]]]. exact H.
Qed.

Lemma mk_value_line_is_vl cmt cont toks eol :
  is_value_line_elem (mk_value_line cmt cont toks eol) = true.
Proof. destruct (mk_value_line_shape cmt cont toks eol) as [s [ps [-> _]]]. reflexivity. Qed.

Lemma take_value_line_flatten (k : list node -> list node) cmt cont :
  forall r acc,
    (forall b, length b <= length r -> flatten_list (k b) = flatten_list b) ->
    flatten_list (take_value_line k cmt cont acc r)
    = flatten_list (opt_list cmt ++ opt_list cont ++ acc ++ r).
Proof.
  induction r as [|x r IH]; intros acc Hk; cbn [take_value_line].
  - rewrite flatten_list_single, mk_value_line_flatten. reflexivity.
  - destruct (non_eol x).
    + rewrite IH by (intros b Hb; apply Hk; cbn; lia).
      now rewrite <- app_assoc.
    + rewrite flatten_list_cons, mk_value_line_flatten, Hk by (cbn; lia).
      rewrite <- flatten_list_app. rewrite <- !app_assoc. reflexivity.
Qed.

Lemma build_value_lines_flatten_n : forall n l,
  length l <= n -> flatten_list (build_value_lines l) = flatten_list l.
Proof.
  induction n as [|n IH]; intros l Hlen.
  - destruct l; [reflexivity|cbn in Hlen; lia].
  - destruct l as [|t rest]; [reflexivity|]. cbn [length] in Hlen.
    assert (IHk : forall r : list node, length r <= length rest ->
              forall b, length b <= length r ->
              flatten_list (build_value_lines b) = flatten_list b)
      by (intros r Hr b Hb; apply IH; lia).
    cbn [build_value_lines].
    destruct (is_comment_elem t).
    + destruct rest as [|nx rest2]; [reflexivity|].
      destruct (is_cont_tok nx).
      * rewrite take_value_line_flatten by (apply IHk; cbn; lia). reflexivity.
      * rewrite !flatten_list_cons. rewrite IH by lia. reflexivity.
    + destruct (is_cont_tok t).
      * rewrite take_value_line_flatten by (apply IHk; lia). reflexivity.
      * destruct (is_fieldsep_tok t).
        -- rewrite !flatten_list_cons, take_value_line_flatten by (apply IHk; lia). reflexivity.
        -- rewrite !flatten_list_cons. rewrite IH by lia. reflexivity.
Qed.

Theorem build_value_lines_flatten l :
  flatten_list (build_value_lines l) = flatten_list l.
Proof. apply (build_value_lines_flatten_n (length l)), le_n. Qed.

(** * The invariant that makes stage 4 lossless

    [names_followed q l]: every top-level field-name token of [l] is immediately
    followed by a field-separator token and then a node satisfying [q]. *)
Fixpoint names_sep (l : list node) : bool :=
  match l with
  | [] => true
  | t :: rest =>
      (if is_fieldname_tok t
       then match rest with s :: _ => is_fieldsep_tok s | [] => false end
       else true) && names_sep rest
  end.

Fixpoint names_followed (q : node -> bool) (l : list node) : bool :=
  match l with
  | [] => true
  | t :: rest =>
      (if is_fieldname_tok t
       then match rest with s :: v :: _ => is_fieldsep_tok s && q v | _ => false end
       else true) && names_followed q rest
  end.

(** what stage 4 needs: name, separator, value element *)
Definition fields_ok : list node -> bool := names_followed is_value_elem.

Lemma names_sep_tokens ts : names_sep (map node_of_token ts) = names_sep_t ts.
Proof.
  induction ts as [|t ts IH]; [reflexivity|].
  cbn [map names_sep names_sep_t]. rewrite IH. f_equal.
  destruct t as [k s]. destruct ts as [|[k' s'] ts]; destruct k; try reflexivity;
    destruct k'; reflexivity.
Qed.

Lemma names_sep_tail t l : names_sep (t :: l) = true -> names_sep l = true.
Proof. cbn [names_sep]. intros H. apply andb_true_iff in H. apply H. Qed.

Lemma names_sep_plain t l :
  is_fieldname_tok t = false -> names_sep (t :: l) = names_sep l.
Proof. intros H. cbn [names_sep]. now rewrite H. Qed.

Lemma names_followed_tail q t l :
  names_followed q (t :: l) = true -> names_followed q l = true.
Proof. cbn [names_followed]. intros H. apply andb_true_iff in H. apply H. Qed.

Lemma names_followed_plain q t l :
  is_fieldname_tok t = false -> names_followed q (t :: l) = names_followed q l.
Proof. intros H. cbn [names_followed]. now rewrite H. Qed.

Lemma names_followed_app_plain q a l :
  forallb (fun t => negb (is_fieldname_tok t)) a = true ->
  names_followed q (a ++ l) = names_followed q l.
Proof.
  induction a as [|t a IH]; [reflexivity|]. cbn [forallb app]. intros H.
  apply andb_true_iff in H. destruct H as [H1 H2].
  rewrite names_followed_plain by now apply negb_true_iff. now apply IH.
Qed.

Lemma names_sep_app_plain a l :
  forallb (fun t => negb (is_fieldname_tok t)) a = true ->
  names_sep (a ++ l) = names_sep l.
Proof.
  induction a as [|t a IH]; [reflexivity|]. cbn [forallb app]. intros H.
  apply andb_true_iff in H. destruct H as [H1 H2].
  rewrite names_sep_plain by now apply negb_true_iff. now apply IH.
Qed.

Lemma elem_not_name k ps : is_fieldname_tok (Elem k ps) = false.
Proof. reflexivity. Qed.

Lemma flush_elem_plain k acc :
  forallb (fun t => negb (is_fieldname_tok t)) (flush (Elem k) acc) = true.
Proof. unfold flush. now destruct acc. Qed.

(** ** stage 1 keeps "name is followed by separator" *)
Lemma combine_comments_from_names_sep l : forall acc,
  names_sep l = true ->
  names_sep (combine_from is_comment_tok (Elem EComment) acc l) = true.
Proof.
  induction l as [|t l IH]; intros acc H; cbn [combine_from].
  - rewrite <- (app_nil_r (flush _ acc)). now rewrite names_sep_app_plain by apply flush_elem_plain.
  - destruct (is_comment_tok t) eqn:Ec.
    + apply IH. eapply names_sep_tail; eassumption.
    + rewrite names_sep_app_plain by apply flush_elem_plain.
      pose proof (IH [] (names_sep_tail _ _ H)) as IH'.
      cbn [names_sep] in *. rewrite IH', andb_true_r.
      destruct (is_fieldname_tok t) eqn:En; [|reflexivity].
      apply andb_true_iff in H. destruct H as [H _].
      destruct l as [|s l]; [discriminate|]. cbn [combine_from].
      destruct s as [ks ss|]; [|discriminate].
      destruct ks; try discriminate. reflexivity.
Qed.

Lemma combine_comments_names_sep l :
  names_sep l = true -> names_sep (combine_comments l) = true.
Proof. apply combine_comments_from_names_sep. Qed.

(** ** stage 2 puts a value-line element after every such separator *)
Lemma mk_value_line_not_name cmt cont toks eol :
  is_fieldname_tok (mk_value_line cmt cont toks eol) = false.
Proof. destruct (mk_value_line_shape cmt cont toks eol) as [s [ps [-> _]]]. reflexivity. Qed.

Lemma take_value_line_head (k : list node -> list node) cmt cont :
  forall r acc, exists v tl,
    take_value_line k cmt cont acc r = v :: tl /\ is_value_line_elem v = true.
Proof.
  induction r as [|x r IH]; intros acc; cbn [take_value_line].
  - eexists _, _. split; [reflexivity|apply mk_value_line_is_vl].
  - destruct (non_eol x); [apply IH|].
    eexists _, _. split; [reflexivity|apply mk_value_line_is_vl].
Qed.

Lemma vl_not_name v : is_value_line_elem v = true -> is_fieldname_tok v = false.
Proof. destruct v as [|k ps]; [discriminate|reflexivity]. Qed.

Lemma take_value_line_names (k : list node -> list node) cmt cont :
  forall r acc,
    (forall b, length b <= length r -> names_sep b = true ->
               names_followed is_value_line_elem (k b) = true) ->
    names_sep r = true ->
    names_followed is_value_line_elem (take_value_line k cmt cont acc r) = true.
Proof.
  induction r as [|x r IH]; intros acc Hk Hr; cbn [take_value_line].
  - rewrite names_followed_plain by apply mk_value_line_not_name. reflexivity.
  - destruct (non_eol x).
    + apply IH; [|eapply names_sep_tail; eassumption].
      intros b Hb. apply Hk. cbn. lia.
    + rewrite names_followed_plain by apply mk_value_line_not_name.
      apply Hk; [cbn; lia|eapply names_sep_tail; eassumption].
Qed.

Lemma build_value_lines_names_n : forall n l,
  length l <= n -> names_sep l = true ->
  names_followed is_value_line_elem (build_value_lines l) = true.
Proof.
  induction n as [|n IH]; intros l Hlen Hl.
  - destruct l; [reflexivity|cbn in Hlen; lia].
  - destruct l as [|t rest]; [reflexivity|]. cbn [length] in Hlen.
    assert (IHk : forall r : list node, length r <= length rest ->
              forall b, length b <= length r -> names_sep b = true ->
              names_followed is_value_line_elem (build_value_lines b) = true)
      by (intros r Hr b Hb; apply IH; lia).
    pose proof (names_sep_tail _ _ Hl) as Hrest.
    cbn [build_value_lines].
    destruct (is_comment_elem t) eqn:Ece.
    + assert (Ht : is_fieldname_tok t = false) by (destruct t as [|[] ?]; try discriminate; reflexivity).
      destruct rest as [|nx rest2]; [now rewrite names_followed_plain|].
      destruct (is_cont_tok nx).
      * apply take_value_line_names; [apply IHk; cbn; lia|].
        eapply names_sep_tail; eassumption.
      * rewrite names_followed_plain by assumption. apply IH; [cbn in *; lia|assumption].
    + destruct (is_cont_tok t) eqn:Ect.
      * apply take_value_line_names; [apply IHk; lia|assumption].
      * destruct (is_fieldsep_tok t) eqn:Efs.
        -- assert (Ht : is_fieldname_tok t = false)
             by (destruct t as [[] ?|]; try discriminate; reflexivity).
           rewrite names_followed_plain by assumption.
           apply take_value_line_names; [apply IHk; lia|assumption].
        -- pose proof (IH rest ltac:(lia) Hrest) as IHr.
           cbn [names_followed]. rewrite IHr, andb_true_r.
           destruct (is_fieldname_tok t) eqn:En; [|reflexivity].
           cbn [names_sep] in Hl. rewrite En in Hl.
           apply andb_true_iff in Hl. destruct Hl as [Hs _].
           destruct rest as [|s rest']; [discriminate|].
           cbn [build_value_lines].
           assert (Es1 : is_comment_elem s = false)
             by (destruct s as [|[] ?]; try discriminate; reflexivity).
           assert (Es2 : is_cont_tok s = false)
             by (destruct s as [[] ?|]; try discriminate; reflexivity).
           rewrite Es1, Es2, Hs.
           destruct (take_value_line_head build_value_lines None None rest' []) as [v [tl [-> Hv]]].
           now rewrite Hs, Hv.
Qed.

Lemma build_value_lines_names l :
  names_sep l = true -> names_followed is_value_line_elem (build_value_lines l) = true.
Proof. apply (build_value_lines_names_n (length l)), le_n. Qed.

(** ** stage 3 turns it into a value element *)
Lemma combine_value_lines_from_names l : forall acc,
  names_followed is_value_line_elem l = true ->
  names_followed is_value_elem
    (combine_from is_value_line_elem (Elem EValue) acc l) = true.
Proof.
  induction l as [|t l IH]; intros acc H; cbn [combine_from].
  - rewrite <- (app_nil_r (flush _ acc)).
    now rewrite names_followed_app_plain by apply flush_elem_plain.
  - destruct (is_value_line_elem t) eqn:Ev.
    + apply IH. eapply names_followed_tail; eassumption.
    + rewrite names_followed_app_plain by apply flush_elem_plain.
      pose proof (IH [] (names_followed_tail _ _ _ H)) as IH'.
      cbn [names_followed] in *. rewrite IH', andb_true_r.
      destruct (is_fieldname_tok t) eqn:En; [|reflexivity].
      apply andb_true_iff in H. destruct H as [H _].
      destruct l as [|s [|v l]]; [discriminate|discriminate|].
      apply andb_true_iff in H. destruct H as [Hs Hv].
      cbn [combine_from].
      assert (Es : is_value_line_elem s = false)
        by (destruct s as [|? ?]; [reflexivity|discriminate]).
      rewrite Es, Hv. cbn [flush is_nil app].
      destruct (combine_from_nonempty is_value_line_elem (Elem EValue) l [v])
        as [run [tl ->]]; [discriminate|].
      now rewrite Hs.
Qed.

Lemma combine_value_lines_names l :
  names_followed is_value_line_elem l = true -> fields_ok (combine_value_lines l) = true.
Proof. apply combine_value_lines_from_names. Qed.

(** * Stage 4: [_build_field_with_value] *)
Lemma build_field_flatten (k : list node -> list node) cmt name rest :
  (forall b, length b <= length rest -> fields_ok b = true ->
             flatten_list (k b) = flatten_list b) ->
  fields_ok (name :: rest) = true -> is_fieldname_tok name = true ->
  flatten_list (build_field k cmt name rest)
  = flatten_list (opt_list cmt ++ name :: rest).
Proof.
  intros Hk Hok Hn. unfold fields_ok in Hok. cbn [names_followed] in Hok. rewrite Hn in Hok.
  apply andb_true_iff in Hok. destruct Hok as [H1 H2].
  destruct rest as [|sep [|val rest']]; [discriminate|discriminate|].
  cbn [build_field]. rewrite H1.
  rewrite flatten_list_cons, flatten_elem, Hk.
  - rewrite <- flatten_list_app. rewrite <- app_assoc. reflexivity.
  - cbn. lia.
  - eapply names_followed_tail, names_followed_tail. exact H2.
Qed.

Lemma build_fields_flatten_n : forall n l,
  length l <= n -> fields_ok l = true ->
  flatten_list (build_fields l) = flatten_list l.
Proof.
  induction n as [|n IH]; intros l Hlen Hl.
  - destruct l; [reflexivity|cbn in Hlen; lia].
  - destruct l as [|t rest]; [reflexivity|]. cbn [length] in Hlen.
    pose proof (names_followed_tail _ _ _ Hl) as Hrest. fold fields_ok in Hrest.
    cbn [build_fields].
    destruct (is_comment_elem t) eqn:Ece.
    + destruct rest as [|nx rest2]; [reflexivity|].
      destruct (is_fieldname_tok nx) eqn:En.
      * rewrite build_field_flatten; [reflexivity| |assumption|assumption].
        intros b Hb. apply IH. cbn in *. lia.
      * rewrite !flatten_list_cons. rewrite IH by (cbn in *; lia || assumption).
        reflexivity.
    + destruct (is_fieldname_tok t) eqn:En.
      * rewrite build_field_flatten; [reflexivity| |assumption|assumption].
        intros b Hb. apply IH. lia.
      * rewrite !flatten_list_cons. rewrite IH by (lia || assumption). reflexivity.
Qed.

Theorem build_fields_flatten l :
  fields_ok l = true -> flatten_list (build_fields l) = flatten_list l.
Proof. apply (build_fields_flatten_n (length l)), le_n. Qed.

(** * The six stages *)
Theorem combine_comments_flatten l : flatten_list (combine_comments l) = flatten_list l.
Proof. apply combine_flatten. intros; apply flatten_elem. Qed.

Theorem combine_value_lines_flatten l : flatten_list (combine_value_lines l) = flatten_list l.
Proof. apply combine_flatten. intros; apply flatten_elem. Qed.

Theorem combine_paragraphs_flatten l : flatten_list (combine_paragraphs l) = flatten_list l.
Proof. apply combine_flatten. intros; apply flatten_elem. Qed.

Theorem combine_errors_flatten l : flatten_list (combine_errors l) = flatten_list l.
Proof. apply combine_flatten. intros; apply flatten_elem. Qed.

(** the invariant reaches stage 4 *)
Theorem stages123_fields_ok l :
  names_sep l = true ->
  fields_ok (combine_value_lines (build_value_lines (combine_comments l))) = true.
Proof.
  intros H. now apply combine_value_lines_names, build_value_lines_names,
    combine_comments_names_sep.
Qed.

Theorem stages_flatten l :
  names_sep l = true -> flatten_list (stages l) = flatten_list l.
Proof.
  intros H. unfold stages.
  rewrite combine_errors_flatten, combine_paragraphs_flatten.
  rewrite build_fields_flatten by now apply stages123_fields_ok.
  now rewrite combine_value_lines_flatten, build_value_lines_flatten, combine_comments_flatten.
Qed.

(** * parse, dump *)
Section ParserProofs.
Variable is_space : N -> bool.
Variables name_first name_rest : N -> bool.

Notation tokenize := (tokenize is_space name_first name_rest).
Notation parse := (parse is_space name_first name_rest).
Notation parse_accepting := (parse_accepting is_space name_first name_rest).

(** Whatever the input, if the tokenizer returns then the accepting parser
    returns, and the dump of the tree is the concatenation of the token texts,
    in order (indeed the tree's token sequence IS the token stream). *)
Theorem parse_of_tokens ls ts :
  tokenize ls = Ok ts ->
  exists top, parse_accepting ls = Ok (Elem EFile top)
              /\ flatten (Elem EFile top) = ts
              /\ dump (Elem EFile top) = text_of_tokens ts.
Proof.
  intros H. unfold Parse.parse_accepting, Parse.parse. rewrite H. cbn [bind negb andb].
  eexists. split; [reflexivity|].
  assert (E : flatten (Elem EFile (stages (map node_of_token ts))) = ts).
  { rewrite flatten_elem, stages_flatten, flatten_tokens; [reflexivity|].
    rewrite names_sep_tokens. apply (tokenize_inv _ _ _ _ _ H). }
  split; [exact E|]. unfold dump. now rewrite E.
Qed.

(** the accepting parser fails only where the tokenizer fails, with its error *)
Theorem parse_accepting_err ls e :
  tokenize ls = Err e -> parse_accepting ls = Err e.
Proof. intros H. unfold Parse.parse_accepting, Parse.parse. now rewrite H. Qed.

Hypothesis space_lf : is_space LF = true.
Hypothesis space_sp : is_space SP = true.
Hypothesis space_tab : is_space TAB = true.

Theorem parse_dump_form1 ls :
  form1 ls = true ->
  exists t, parse_accepting ls = Ok t /\ dump t = concat ls.
Proof.
  intros H.
  destruct (tokenize_form1 is_space name_first name_rest space_lf space_sp space_tab ls H)
    as [ts [E1 E2]].
  destruct (parse_of_tokens ls ts E1) as [top [P1 [_ P2]]].
  eexists. split; [exact P1|]. rewrite P2. exact E2.
Qed.

Theorem parse_dump_form2 ls :
  form2 ls = true ->
  exists t, parse_accepting ls = Ok t /\ dump t = concat (map add_lf ls).
Proof.
  intros H.
  destruct (tokenize_form2 is_space name_first name_rest space_lf space_sp space_tab ls H)
    as [ts [E1 E2]].
  destruct (parse_of_tokens ls ts E1) as [top [P1 [_ P2]]].
  eexists. split; [exact P1|]. rewrite P2. exact E2.
Qed.

(** phrased against the Spec that [holds] uses *)
Theorem tokenize_expected ls e :
  expected_text ls = Some e ->
  exists ts, tokenize ls = Ok ts /\ text_of_tokens ts = e.
Proof.
  unfold expected_text. destruct (form1 ls) eqn:F1.
  - intros [= <-]. now apply tokenize_form1.
  - destruct (form2 ls) eqn:F2; [|discriminate]. intros [= <-]. now apply tokenize_form2.
Qed.

Theorem parse_dump_expected ls e :
  expected_text ls = Some e ->
  exists t, parse_accepting ls = Ok t /\ dump t = e.
Proof.
  unfold expected_text. destruct (form1 ls) eqn:F1.
  - intros [= <-]. now apply parse_dump_form1.
  - destruct (form2 ls) eqn:F2; [|discriminate]. intros [= <-]. now apply parse_dump_form2.
Qed.

Theorem parse_accepting_total ls :
  form1 ls || form2 ls = true -> is_ok (parse_accepting ls) = true.
Proof.
  intros H. apply orb_true_iff in H. destruct H as [H|H].
  - destruct (parse_dump_form1 ls H) as [t [-> _]]. reflexivity.
  - destruct (parse_dump_form2 ls H) as [t [-> _]]. reflexivity.
Qed.

End ParserProofs.
