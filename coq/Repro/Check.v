(** Case format evaluated by the correspondence check of C01.
    [agree]: the model (Token.v / Parse.v instantiated with the interpreter's
             character tables) reproduces what the implementation did: token
             kinds and texts, the whole element tree with slot occupancy, the
             dump, and the outcome of the default (strict) mode.
    [holds]: the property itself, judged on what the implementation returned,
             against LosslessSpec.expected_text. *)
From Coq Require Import String.
From Verif Require Export Lib.Base Lib.Dec Lib.PyStr Gen.PyChars Gen.ReproChars
  Repro.Token Repro.Parse Repro.LosslessSpec.

(** the instance the implementation runs with *)
Definition py_tokenize : list str -> result (list token) :=
  tokenize py_isspace field_name_first field_name_rest.
Definition py_parse (accept_errors accept_dups : bool) : list str -> result node :=
  parse py_isspace field_name_first field_name_rest accept_errors accept_dups.
Definition py_match_field_line : str -> option field_match :=
  match_field_line py_isspace field_name_first field_name_rest.

(** observed trees, texts as escaped literals *)
Inductive onode :=
| OT (k : tkind) (s : string)
| OE (k : ekind) (ps : list onode).

Fixpoint dec_node (o : onode) : node :=
  match o with
  | OT k s => Tok k (dec s)
  | OE k ps => Elem k (map dec_node ps)
  end.

Inductive leaf_obs :=
| LeafGroups (name space_before : string) (value : option (string * string)) (match_end : N)
| LeafBad.                       (* separator group not ":" or group bookkeeping inconsistent *)

Inductive case :=
| CParse (lines : list string)
         (obs_tokens : result (list (tkind * string)))   (* list(tokenize_deb822_file(lines)) *)
         (obs_tree : result onode)                      (* parse_deb822_file(lines, accept…=True, accept…=True) *)
         (obs_dump : option string)                     (* its dump() *)
         (obs_strict : option err)                      (* parse_deb822_file(lines): None = returned *)
| CLeaf (s : string)
        (obs_match : option leaf_obs)                   (* _RE_FIELD_LINE.match(s) *)
        (obs_ws : bool).                                (* _RE_WHITESPACE_LINE.match(s) is not None *)

Definition bool_eqb (a b : bool) : bool := if a then b else negb b.

Definition slots_eqb (a b : vl_slots) : bool :=
  bool_eqb (vl_comment a) (vl_comment b) && bool_eqb (vl_continuation a) (vl_continuation b)
  && bool_eqb (vl_leading a) (vl_leading b) && bool_eqb (vl_trailing a) (vl_trailing b)
  && bool_eqb (vl_newline a) (vl_newline b).

Definition ekind_eqb (a b : ekind) : bool :=
  match a, b with
  | EComment, EComment | EValue, EValue | EError, EError
  | EParsedValue, EParsedValue | EFile, EFile => true
  | EValueLine s, EValueLine s' => slots_eqb s s'
  | EKvp c, EKvp c' => bool_eqb c c'
  | EParagraph d, EParagraph d' => bool_eqb d d'
  | _, _ => false
  end.

Fixpoint node_eqb (a b : node) {struct a} : bool :=
  match a, b with
  | Tok k s, Tok k' s' => tkind_eqb k k' && str_eqb s s'
  | Elem k ps, Elem k' qs =>
      ekind_eqb k k' &&
      (fix go (l1 l2 : list node) {struct l1} : bool :=
         match l1, l2 with
         | [], [] => true
         | x :: l1', y :: l2' => node_eqb x y && go l1' l2'
         | _, _ => false
         end) ps qs
  | _, _ => false
  end.

Definition dec_tokens (ts : list (tkind * string)) : list token :=
  map (fun p => mkTok (fst p) (dec (snd p))) ts.

Definition agree (c : case) : bool :=
  match c with
  | CParse lines otoks otree odump ostrict =>
      let ls := map dec lines in
      result_eqb (list_eqb token_eqb) (py_tokenize ls)
        (match otoks with Ok ts => Ok (dec_tokens ts) | Err e => Err e end)
      && result_eqb node_eqb (py_parse true true ls)
           (match otree with Ok t => Ok (dec_node t) | Err e => Err e end)
      && option_eqb str_eqb
           (match py_parse true true ls with Ok t => Some (dump t) | Err _ => None end)
           (option_map dec odump)
      && option_eqb err_eqb
           (match py_parse false false ls with Ok _ => None | Err e => Some e end) ostrict
  | CLeaf s om ows =>
      let t := dec s in
      bool_eqb (is_ws_line py_isspace t) ows
      && match py_match_field_line t, om with
         | None, None => true
         | Some m, Some (LeafGroups name sb v e) =>
             str_eqb (fm_name m) (dec name)
             && str_eqb (fm_space_before m) (dec sb)
             && option_eqb (pair_eqb str_eqb str_eqb) (fm_value m)
                  (option_map (fun p => (dec (fst p), dec (snd p))) v)
             && (N.of_nat (List.length t - List.length (fm_unmatched m)) =? e)%N
         | _, _ => false
         end
  end.

Definition holds (c : case) : bool :=
  match c with
  | CParse lines otoks otree odump _ =>
      match expected_text (map dec lines) with
      | None => true                                   (* outside the two input forms *)
      | Some e =>
          match otoks, otree, odump with
          | Ok ts, Ok t, Some d =>
              str_eqb (text_of_tokens (dec_tokens ts)) e    (* "".join(token texts) *)
              && str_eqb (dec d) e                          (* dump() *)
              && str_eqb (dump (dec_node t)) e              (* texts of iter_tokens() through the tree *)
          | _, _, _ => false                             (* the parser must succeed *)
          end
      end
  | CLeaf _ _ _ => true
  end.

Definition bad_agree (cs : list case) : list N := bad agree cs.
Definition bad_holds (cs : list case) : list N := bad holds cs.
