(** Primitives that the regenerated control flow of [tokenize_deb822_file] (Gen/TrTokenize.v, regenerated
    from lib/debian/_deb822_repro/tokens.py on every run) calls.  Everything here is hand-written; every
    primitive is DEFINED AS the model's own leaf (Repro/Token.v) wherever the model has one, so that the tie
    is by unfolding and not by re-proving facts about regexes or constructors.

    Character classes.  The translated function takes the classes the two compiled patterns mention as
    leading (ghost) parameters — [is_space] ([\s] of a str pattern), [name_first]/[name_rest] (the two classes
    of [(?P<field_name> …)]) — and hands them to the regex leaves, exactly as Repro/Token.v is parametric in
    them; Repro/Check.v instantiates them with Gen/PyChars.py_isspace and Gen/ReproChars (regenerated from
    the pattern text on every run).

    The text stream.  [text_stream = BufferingIterator(_as_str(sequence))] is represented by the list of the
    lines that have not been consumed yet (its deque buffer followed by what is left of the underlying
    generator); [__next__] (the [for] loop, through [enumerate]) takes the head.  [peek], [peek_at] only fill
    the buffer: the list is unchanged.  [takewhile(p)] pops the longest prefix whose elements satisfy [p] and
    leaves the first element that does not in the buffer.  The source text of these BufferingIterator methods
    and of the nested helper [_as_str] is asserted by the generator (harness/props/c01.py, _gen_tr): a change
    fails the translation closed.  What the primitives say about them is checked by the correspondence run.

    [_as_str]: a line is its list of code points whatever its dynamic type; a [bytes] line is represented by
    the code points it decodes to (ASSUMPTIONS of C01: bytes input is valid UTF-8), so decoding is the
    identity on the representation.  Its laziness (a generator consumed by the BufferingIterator) is not
    observable: it cannot raise on valid input and has no effect. *)
From Verif Require Import Lib.Base Lib.PyStr Lib.Dec Repro.Token.

(** ** the text stream *)
Definition trp_as_str (s : list str) : list str := s.
Definition trp_buffering_iterator (s : list str) : list str := s.

(** [text_stream.peek()] *)
Definition trp_peek (it : list str) : option str :=
  match it with [] => None | x :: _ => Some x end.
(** [text_stream.peek_at(n)], [n >= 1] (the translator asserts the literal 2) *)
Definition trp_peek_at (it : list str) (n : nat) : option str := nth_error it (pred n).

(** [text_stream.takewhile(p)] consumed completely ([list(…)]): (the elements taken, the stream afterwards) *)
Definition trp_takewhile (it : list str) (p : str -> bool) : list str * list str := span p it.

(** the two predicates the source hands to takewhile (asserted as source text by the translator spec):
    [lambda x: _RE_WHITESPACE_LINE.match(x) is not None and not x.endswith("\n")] and
    [lambda x: _RE_WHITESPACE_LINE.match(x) is not None and x.endswith("\n")] *)
Definition trp_pred_ws_unterminated (is_space : N -> bool) (x : str) : bool :=
  is_ws_line is_space x && negb (ends_lf x).
Definition trp_pred_ws_terminated (is_space : N -> bool) (x : str) : bool :=
  is_ws_line is_space x && ends_lf x.

(** ** str operations *)
(** [s.endswith("\n")] (the argument is asserted as the literal ['\n']) *)
Definition trp_endswith_lf (s : str) (_ : unit) : bool := ends_lf s.
(** ["".join(l)] *)
Definition trp_join_empty (l : list str) : str := concat l.
(** [sys.intern(s)] and [_strI(s)] ([_CaseInsensitiveString], a str subclass that compares and hashes by
    [lower()]): the same code points.  Nothing in the tokenizer compares [_strI] values; the token text is
    observed as plain text. *)
Definition trp_intern (s : str) : str := s.
Definition trp_strI (s : str) : str := s.
(** [str(n)] for an int (used in exception messages only; the message is not part of the result) *)
Definition trp_str_of_int (z : Z) : str :=
  (if (z <? 0)%Z then [45%N] else []) ++ print_dec (Z.abs_N z).

(** ** regex leaves = the model's leaves *)
(** [_RE_WHITESPACE_LINE.match(line)] as a truth value *)
Definition trp_ws_line_match (is_space : N -> bool) (s : str) : bool := is_ws_line is_space s.
(** [_RE_FIELD_LINE.match(line)]: the match object is the model's record of capture groups *)
Definition trp_field_line_match (is_space name_first name_rest : N -> bool) (s : str) : option field_match :=
  match_field_line is_space name_first name_rest s.
(** [m.groups()] = (field_name, separator, space_before_value, value, space_after_value); the last two belong
    to the same optional group: both None or both text *)
Definition trp_groups (m : field_match) : str * str * str * option str * option str :=
  (fm_name m, [COLON], fm_space_before m, option_map fst (fm_value m), option_map snd (fm_value m)).

(** ** token constructors: [Deb822Token.__init__] + [_verify_token_text] of class [k] = the model's [mk_token] *)
Definition trp_mk_token (k : tkind) (text : str) : result token := mk_token k text.
(** [Deb822NewlineAfterValueToken()] = [super().__init__('\n')], [Deb822FieldSeparatorToken()] = [super().__init__(':')] *)
Definition trp_newline_token : result token := mk_token KNewlineAfterValue [LF].
Definition trp_field_separator_token : result token := mk_token KFieldSeparator [COLON].
