(** C15, first half: the parser is total in lenient mode, and strict mode raises
    exactly when lenient mode warns.

    Everything is proved for EVERY instance [J] of the thirteen junk classifiers,
    every [allow_empty_author], every [max_blocks], every line list.

    Method.  Strict and lenient parsing run the same code; the only difference is
    [warn].  [SIM w0 Q rl rs] says, of a lenient result [rl] and the strict result
    [rs] of the same computation started with [w0] warnings: the lenient one is
    [Ok x] with [Q x], and either no warning was added and the strict one is the
    same [Ok x], or a warning was added and the strict one is [Err ParseError].
    [SIM] is closed under [bind]; the parser's steps are shown to satisfy it under
    the invariant [inv] (which is what makes [self._blocks[-1]] safe). *)
From Coq Require Import Lia.
From Verif Require Import Lib.Base Lib.PyStr Changelog.Model.

Definition wc (st : pst) : nat := length (p_warn st).
Definition ctl_st (c : ctl) : pst := match c with Next st | Stop st => st end.
Definition wcc (c : ctl) : nat := wc (ctl_st c).

Definition SIM {X} (wcX : X -> nat) (w0 : nat) (Q : X -> Prop) (rl rs : result X) : Prop :=
  exists x, rl = Ok x /\ Q x /\
    ((wcX x = w0 /\ rs = Ok x) \/ (w0 < wcX x /\ rs = Err ParseError)).

Lemma SIM_ret {X} (wcX : X -> nat) w0 (Q : X -> Prop) x :
  Q x -> wcX x = w0 -> SIM wcX w0 Q (Ok x) (Ok x).
Proof. intros HQ Hw. exists x. repeat split; auto. Qed.

Lemma SIM_warn (Q : pst -> Prop) w st :
  Q (with_warn st (w :: p_warn st)) ->
  SIM wc (wc st) Q (warn false w st) (warn true w st).
Proof.
  intros HQ. exists (with_warn st (w :: p_warn st)).
  split; [reflexivity|]. split; [exact HQ|].
  right. split; [unfold wc; simpl; lia|reflexivity].
Qed.

Lemma SIM_bind {A B} (wcA : A -> nat) (wcB : B -> nat) w0 (Q : A -> Prop) (Q' : B -> Prop)
    rl rs (gl gs : A -> result B) :
  SIM wcA w0 Q rl rs ->
  (forall a, Q a -> w0 <= wcA a -> SIM wcB (wcA a) Q' (gl a) (gs a)) ->
  SIM wcB w0 Q' (bind rl gl) (bind rs gs).
Proof.
  intros (a & -> & Ha & Hd) Hg. simpl.
  destruct Hd as [[Hw ->]|[Hw ->]]; simpl.
  - specialize (Hg a Ha ltac:(lia)). rewrite Hw in Hg. exact Hg.
  - destruct (Hg a Ha ltac:(lia)) as (b & Hb & HQ & Hd).
    exists b. repeat split; auto. right. split; [|reflexivity].
    destruct Hd as [[Hw' _]|[Hw' _]]; lia.
Qed.

Lemma SIM_weaken {X} (wcX : X -> nat) w0 (Q Q' : X -> Prop) rl rs :
  SIM wcX w0 Q rl rs -> (forall x, Q x -> Q' x) -> SIM wcX w0 Q' rl rs.
Proof. intros (x & H1 & H2 & H3) HQ. exists x. auto. Qed.

Lemma SIM_mono {X} (wcX : X -> nat) w0 (Q : X -> Prop) rl rs :
  SIM wcX w0 Q rl rs -> SIM wcX w0 (fun x => Q x /\ w0 <= wcX x) rl rs.
Proof.
  intros (x & H1 & H2 & H3). exists x. repeat split; auto.
  destruct H3 as [[? _]|[? _]]; lia.
Qed.

(** * The invariant *)

Definition inv (st : pst) : Prop :=
  match p_state st with
  | NextHeadingOrEof => p_blocks st <> []
  | SlurpToEnd => p_old st = Some NextHeadingOrEof -> p_blocks st <> []
  | _ => True
  end.

(** the control part of the state is untouched *)
Definition same_ctrl (st st' : pst) : Prop :=
  p_state st' = p_state st /\ p_old st' = p_old st /\ p_blocks st' = p_blocks st.

Lemma upd_last_some {A} (f : A -> A) l : l <> [] -> exists r, upd_last f l = Some r /\ r <> [].
Proof.
  induction l as [|a l IH]; [congruence|]. intros _.
  destruct l as [|b l]; [exists [f a]; split; [reflexivity|discriminate]|].
  destruct IH as (r & Hr & Hne); [discriminate|].
  exists (a :: r). split; [|discriminate]. cbn [upd_last] in *. now rewrite Hr.
Qed.

Lemma trail_last_ok st line :
  p_blocks st <> [] ->
  exists bs, trail_last st line = Ok (with_blocks st bs) /\ bs <> [].
Proof.
  intros H. unfold trail_last. destruct (upd_last_some (add_trailing line) _ H) as (r & -> & Hr).
  now exists r.
Qed.

Lemma keep_line_ok st line :
  (p_state st <> FirstHeading -> p_blocks st <> []) ->
  exists st', keep_line st line = Ok st' /\ p_state st' = p_state st /\ p_old st' = p_old st
              /\ wc st' = wc st /\ (p_blocks st <> [] -> p_blocks st' <> []).
Proof.
  intros H. unfold keep_line.
  destruct (p_state st) eqn:E;
    try (destruct (trail_last_ok st line) as (bs & -> & Hbs); [apply H; congruence|];
         eexists; split; [reflexivity|]; cbn; rewrite ?E; auto).
  eexists; split; [reflexivity|]. cbn. rewrite E. auto.
Qed.

(** * The header key/value loop *)

Lemma kv_loop_sim pieces : forall keys other st,
  SIM wc (wc st) (same_ctrl st)
      (kv_loop false pieces keys other st) (kv_loop true pieces keys other st).
Proof.
  induction pieces as [|piece rest IH]; intros keys other st; cbn [kv_loop].
  - apply SIM_ret; [|reflexivity]. repeat split.
  - destruct (match_keyvalue (strip_by ws piece)) as [[key value]|].
    + eapply SIM_bind with (Q := same_ctrl st).
      * destruct (existsb _ keys).
        -- apply SIM_warn. repeat split.
        -- apply SIM_ret; [|reflexivity]. repeat split.
      * intros st1 Hc _. destruct (str_eqb (key_lower key) s_urgency).
        -- destruct (match_value value) as [[u com]|].
           ++ eapply SIM_weaken; [apply (IH _ _ (with_cur st1 _))|].
              intros x (H1 & H2 & H3). destruct Hc as (G1 & G2 & G3).
              repeat split; cbn in *; congruence.
           ++ eapply SIM_bind with (Q := same_ctrl st).
              ** apply SIM_warn. destruct Hc as (G1 & G2 & G3). repeat split; cbn; assumption.
              ** intros st2 Hc2 _. eapply SIM_weaken; [apply IH|].
                 intros x (H1 & H2 & H3). destruct Hc2 as (G1 & G2 & G3).
                 repeat split; congruence.
        -- eapply SIM_weaken; [apply IH|].
           intros x (H1 & H2 & H3). destruct Hc as (G1 & G2 & G3). repeat split; congruence.
    + eapply SIM_bind with (Q := same_ctrl st).
      * apply SIM_warn. repeat split.
      * intros st1 Hc _. eapply SIM_weaken; [apply IH|].
        intros x (H1 & H2 & H3). destruct Hc as (G1 & G2 & G3). repeat split; congruence.
Qed.

Lemma do_header_sim st g1 g2 g3 pairs :
  SIM wc (wc st) (fun st' => p_state st' = StartOfChangeData)
      (do_header false st g1 g2 g3 pairs) (do_header true st g1 g2 g3 pairs).
Proof.
  unfold do_header.
  eapply SIM_bind; [apply (kv_loop_sim _ _ _ (with_cur st _))|].
  intros st2 _ _. apply SIM_ret; reflexivity.
Qed.

(** * The three step functions *)

Definition inv_ctl (c : ctl) : Prop := inv (ctl_st c).

Section Steps.
Variable J : junk.
Variable allow : bool.
Variable maxb : option nat.

Ltac keep st line H :=
  let st' := fresh "st'" in let E := fresh "E" in
  let H1 := fresh "Hs" in let H2 := fresh "Ho" in let H3 := fresh "Hw" in let H4 := fresh "Hb" in
  destruct (keep_line_ok st line H) as (st' & E & H1 & H2 & H3 & H4); rewrite E; cbn [bind].

Lemma step_heading_sim st line :
  inv st -> (p_state st = FirstHeading \/ p_state st = NextHeadingOrEof) ->
  SIM wcc (wc st) inv_ctl (step_heading J false maxb st line) (step_heading J true maxb st line).
Proof.
  intros Hinv Hstate. unfold step_heading.
  assert (Hkeep : forall s, p_state s = p_state st -> p_blocks s = p_blocks st ->
                    p_state s <> FirstHeading -> p_blocks s <> []).
  { intros s Hs Hb Hne. rewrite Hb. unfold inv in Hinv. destruct Hstate as [Es|Es]; rewrite Es in *; [congruence|exact Hinv]. }
  destruct (match_topline line) as [[[[g1 g2] g3] pairs]|].
  { destruct (match maxb with Some m => (m <=? length (p_blocks st))%nat | None => false end).
    - apply SIM_ret; [exact Hinv|reflexivity].
    - eapply SIM_bind; [apply do_header_sim|].
      intros st1 Hs _. apply SIM_ret; [|reflexivity]. unfold inv_ctl, inv. cbn. now rewrite Hs. }
  destruct (match_blank line).
  { keep st line (Hkeep st eq_refl eq_refl).
    apply SIM_ret; [|exact Hw]. unfold inv_ctl, inv in *. cbn. rewrite Hs.
    destruct Hstate as [Es|Es]; rewrite Es in *; auto. }
  assert (Hslurp : negb (pstate_eqb (p_state st) FirstHeading) = true ->
            SIM wcc (wc st) inv_ctl
              (do st1 <- trail_last st line; Ok (Next (with_slurp st1)))
              (do st1 <- trail_last st line; Ok (Next (with_slurp st1)))).
  { intros Hnf. destruct Hstate as [Es|Es]; rewrite Es in Hnf; [discriminate|].
    destruct (trail_last_ok st line) as (bs & -> & Hbs).
    { unfold inv in Hinv. now rewrite Es in Hinv. }
    cbn [bind]. apply SIM_ret; [|reflexivity]. unfold inv_ctl, inv. cbn. auto. }
  destruct ((j_emacs J line || j_vim J line) && negb (pstate_eqb (p_state st) FirstHeading)) eqn:E1.
  { apply andb_true_iff in E1. apply Hslurp, E1. }
  destruct (j_cvs J line || j_comments J line || j_more_comments J line).
  { keep st line (Hkeep st eq_refl eq_refl).
    apply SIM_ret; [|exact Hw]. unfold inv_ctl, inv in *. cbn. rewrite Hs.
    destruct Hstate as [Es|Es]; rewrite Es in *; auto. }
  destruct (old_format J line && negb (pstate_eqb (p_state st) FirstHeading)) eqn:E2.
  { apply andb_true_iff in E2. apply Hslurp, E2. }
  eapply SIM_bind with (Q := fun s => p_state s = p_state st /\ p_old s = p_old st /\ p_blocks s = p_blocks st).
  { apply SIM_warn. repeat split. }
  intros st1 (G1 & G2 & G3) _.
  keep st1 line (Hkeep st1 G1 G3).
  apply SIM_ret; [|exact Hw]. unfold inv_ctl, inv in *. cbn. rewrite Hs, G1.
  destruct Hstate as [Es|Es]; rewrite Es in *; auto. apply Hb. now rewrite G3.
Qed.

Lemma push_block_inv st b : inv (with_state (push_block st b) NextHeadingOrEof).
Proof. unfold inv. cbn. destruct (p_blocks st); discriminate. Qed.

Lemma step_changes_sim st line :
  (p_state st = StartOfChangeData \/ p_state st = MoreChangesOrTrailer) ->
  SIM wcc (wc st) inv_ctl (step_changes J false allow st line) (step_changes J true allow st line).
Proof.
  intros Hstate. unfold step_changes.
  assert (Hsame : forall s, p_state s = p_state st -> inv s).
  { intros s Hs. unfold inv. rewrite Hs. destruct Hstate as [E|E]; now rewrite E. }
  destruct (match_change line).
  { apply SIM_ret; [|reflexivity]. unfold inv_ctl, inv. now cbn. }
  destruct (match_endline line) as [[[[g1 g2] g3] g4]|].
  { eapply SIM_bind with (Q := fun _ => True).
    - destruct (str_eqb g3 [32%N; 32%N]).
      + apply SIM_ret; [exact I|reflexivity].
      + eapply SIM_bind with (Q := fun _ => True); [apply SIM_warn; exact I|].
        intros st' _ _. apply SIM_ret; [exact I|reflexivity].
    - intros st1 _ _. apply SIM_ret; [apply push_block_inv|reflexivity]. }
  destruct (match_nodetails line).
  { destruct allow.
    - apply SIM_ret; [apply push_block_inv|reflexivity].
    - eapply SIM_bind with (Q := fun s => p_state s = p_state st); [apply SIM_warn; reflexivity|].
      intros st1 Hs _. apply SIM_ret; [|reflexivity]. now apply Hsame. }
  destruct (match_blank line).
  { apply SIM_ret; [|reflexivity]. now apply Hsame. }
  destruct (j_cvs J line || j_comments J line || j_more_comments J line).
  { apply SIM_ret; [|reflexivity]. now apply Hsame. }
  eapply SIM_bind with (Q := fun s => p_state s = p_state st); [apply SIM_warn; reflexivity|].
  intros st1 Hs _. apply SIM_ret; [|reflexivity]. now apply Hsame.
Qed.

Lemma step_slurp_sim st line :
  inv st -> p_state st = SlurpToEnd ->
  SIM wcc (wc st) inv_ctl (step_slurp st line) (step_slurp st line).
Proof.
  intros Hinv Hs. unfold step_slurp.
  assert (Hother : SIM wcc (wc st) inv_ctl
            (Ok (Next (with_changes st (p_changes st ++ [line]))))
            (Ok (Next (with_changes st (p_changes st ++ [line]))))).
  { apply SIM_ret; [|reflexivity]. unfold inv_ctl, inv in *. cbn. now rewrite Hs in *. }
  destruct (p_old st) as [[| | | |]|] eqn:E; try exact Hother.
  destruct (trail_last_ok st line) as (bs & -> & Hbs).
  { unfold inv in Hinv. rewrite Hs in Hinv. now apply Hinv. }
  cbn [bind]. apply SIM_ret; [|reflexivity]. unfold inv_ctl, inv. cbn. rewrite Hs. auto.
Qed.

Lemma step_sim st raw :
  inv st ->
  SIM wcc (wc st) inv_ctl (step J false allow maxb st raw) (step J true allow maxb st raw).
Proof.
  intros Hinv. unfold step. destruct (p_state st) eqn:E.
  - apply step_heading_sim; auto.
  - apply step_heading_sim; auto.
  - apply step_changes_sim; auto.
  - apply step_changes_sim; auto.
  - apply step_slurp_sim; auto.
Qed.

Lemma finish_sim st :
  SIM wc (wc st) (fun _ => True) (finish false st) (finish true st).
Proof.
  unfold finish.
  destruct (match p_state st with
            | NextHeadingOrEof => false
            | SlurpToEnd => match p_old st with Some NextHeadingOrEof => false | _ => true end
            | _ => true end).
  - eapply SIM_bind with (Q := fun _ => True); [apply SIM_warn; exact I|].
    intros st1 _ _. apply SIM_ret; [exact I|reflexivity].
  - apply SIM_ret; [exact I|reflexivity].
Qed.

Lemma run_sim lines : forall st,
  inv st ->
  SIM wc (wc st) (fun _ => True) (run J false allow maxb st lines) (run J true allow maxb st lines).
Proof.
  induction lines as [|l ls IH]; intros st Hinv; cbn [run].
  - apply finish_sim.
  - destruct (step_sim st l Hinv) as (c & -> & Hc & Hd).
    destruct Hd as [[Hw ->]|[Hw ->]].
    + destruct c as [st'|st'].
      * unfold wcc in Hw. cbn in Hw. rewrite <- Hw. apply IH. exact Hc.
      * apply SIM_ret; [exact I|exact Hw].
    + destruct c as [st'|st'].
      * destruct (IH st' Hc) as (x & -> & _ & Hd).
        exists x. repeat split; auto. right. split; [|reflexivity].
        unfold wcc in Hw. cbn in Hw. destruct Hd as [[? _]|[? _]]; lia.
      * exists st'. repeat split; auto.
Qed.

End Steps.

Lemma inv_init : inv init_pst.
Proof. exact I. Qed.

(** * The constructor, all input forms *)

Lemma parse_sim J allow maxb inp :
  SIM wc 0 (fun _ => True)
      (parse_changelog J false allow maxb inp) (parse_changelog J true allow maxb inp).
Proof.
  unfold parse_changelog. destruct inp as [s|ls|s].
  - destruct (forallb ws s).
    + apply (SIM_warn (fun _ => True) WEmpty init_pst). exact I.
    + apply (run_sim J allow maxb _ init_pst inv_init).
  - apply (run_sim J allow maxb _ init_pst inv_init).
  - apply (run_sim J allow maxb _ init_pst inv_init).
Qed.

(** [lenient_total]: the lenient constructor never raises. *)
Theorem lenient_total J allow maxb inp :
  exists st, parse_changelog J false allow maxb inp = Ok st.
Proof. destruct (parse_sim J allow maxb inp) as (st & H & _). now exists st. Qed.

(** [strict_iff_warning]: strict parsing returns exactly the lenient result when
    that carries no warning, and raises the parse error -- never anything else --
    when it carries one. *)
Theorem strict_iff_warning J allow maxb inp :
  exists st, parse_changelog J false allow maxb inp = Ok st /\
    match parse_changelog J true allow maxb inp with
    | Ok st' => st' = st /\ p_warn st = []
    | Err e => e = ParseError /\ p_warn st <> []
    end.
Proof.
  destruct (parse_sim J allow maxb inp) as (st & H & _ & Hd).
  exists st. split; [exact H|].
  destruct Hd as [[Hw ->]|[Hw ->]].
  - split; [reflexivity|]. unfold wc in Hw. now destruct (p_warn st).
  - split; [reflexivity|]. unfold wc in Hw. destruct (p_warn st); [simpl in Hw; lia|discriminate].
Qed.

(** the same as two boolean-free equivalences, for the record *)
Corollary strict_raises_iff_lenient_warns J allow maxb inp st :
  parse_changelog J false allow maxb inp = Ok st ->
  (parse_changelog J true allow maxb inp = Err ParseError <-> p_warn st <> [])
  /\ (parse_changelog J true allow maxb inp = Ok st <-> p_warn st = []).
Proof.
  intros H. destruct (strict_iff_warning J allow maxb inp) as (st' & H' & Hm).
  rewrite H in H'. injection H' as <-.
  destruct (parse_changelog J true allow maxb inp) as [s|e].
  - destruct Hm as [-> Hw]. repeat split; auto; try discriminate. intros Hn. now rewrite Hw in Hn.
  - destruct Hm as [-> Hw]. repeat split; auto; try discriminate. intros Hn. now rewrite Hn in Hw.
Qed.
