(** C04: a text in the deb-changelog grammar of Changelog/Spec.v parses strictly, without
    any warning, to exactly the blocks that were written, and formats back to itself.

    [wf_changelog t] gives a well-formed document [d] with [render d = t]; everything
    else is about running the model's state machine over [doc_lines d]. *)
From Coq Require Import Lia.
From Verif Require Import Lib.Base Lib.PyStr Gen.PyChars Gen.ClChars
  Changelog.Model Changelog.Spec Changelog.CharFacts Changelog.LeafProofs.

(** * What a grammar block becomes *)

Definition hdr_block (b : wblock) : block :=
  mkBlock (Some (w_package b)) (Some (w_version b)) (Some (join SPs (w_dists b)))
          (Some (w_urgency b)) (w_comment b) [] None None [] (w_pairs b) false [32; 32]%N.

Definition block_of_w (b : wblock) : block :=
  mkBlock (Some (w_package b)) (Some (w_version b)) (Some (join SPs (w_dists b)))
          (Some (w_urgency b)) (w_comment b) (w_changes b)
          (Some (author_of b)) (Some (render_date (w_date b))) (w_after b) (w_pairs b) false [32; 32]%N.

(** parser states: waiting for a heading / inside a block; no warnings, old_state None *)
Definition hstate (init : list str) (blocks : list block) (s : pstate) : pst :=
  mkPst s None blocks init empty_block [] [].
Definition cstate (init : list str) (blocks : list block) (s : pstate) (cur : block) (chg : list str) : pst :=
  mkPst s None blocks init cur chg [].

Record wfb (b : wblock) : Prop := {
  wb_package : wf_package (w_package b) = true;
  wb_version : wf_version (w_version b) = true;
  wb_dists_ne : w_dists b <> [];
  wb_dists : forallb wf_dist (w_dists b) = true;
  wb_urgency : wf_key (w_urgency b) = true;
  wb_comment : wf_comment (w_comment b) = true;
  wb_pairs : wf_pairs (w_pairs b) = true;
  wb_changes : forallb change_line (w_changes b) = true;
  wb_name : one_line (w_name b) = true;
  wb_mail : one_line (w_mail b) = true;
  wb_date : wf_date (w_date b) = true;
  wb_after : forallb blank_line (w_after b) = true;
}.

Lemma wf_block_spec b : wf_block b = true -> wfb b.
Proof.
  unfold wf_block. intros H.
  repeat match type of H with
         | (_ && _ = true) => let H' := fresh "H" in
                              apply andb_true_iff in H; destruct H as [H H']
         end.
  constructor; try assumption.
  destruct (w_dists b); [discriminate|discriminate].
Qed.

(** * Every rendered line is free of CR and LF *)

Lemma one_line_class (p : N -> bool) s :
  forallb p s = true -> (forall c, p c = true -> (c < 128)%N /\ c <> 10%N /\ c <> 13%N) -> one_line s = true.
Proof.
  intros H Hp. apply (one_line_forall p s H). intros c Hc. destruct (Hp c Hc) as (_ & H10 & H13).
  unfold is_crlf. apply orb_false_iff. split; now apply N.eqb_neq.
Qed.

Lemma pkg_char_plain c : pkg_char c = true -> (c < 128)%N /\ c <> 10%N /\ c <> 13%N.
Proof. unfold pkg_char, is_alnum, is_alpha, is_upper, is_lower, is_digit. lia. Qed.
Lemma version_char_plain c : version_char c = true -> (c < 128)%N /\ c <> 10%N /\ c <> 13%N.
Proof. unfold version_char, is_alnum, is_alpha, is_upper, is_lower, is_digit. lia. Qed.
Lemma hkey_char_plain c : hkey_char c = true -> (c < 128)%N /\ c <> 10%N /\ c <> 13%N.
Proof. unfold hkey_char, is_alnum, is_alpha, is_upper, is_lower, is_digit. lia. Qed.

Lemma one_line_join dists : forallb wf_dist dists = true -> one_line (join SPs dists) = true.
Proof.
  induction dists as [|d1 ds IH]; [reflexivity|]. cbn [forallb]. intros H.
  apply andb_true_iff in H. destruct H as [H1 H2].
  destruct (wf_dist_spec _ H1) as (_ & Hp).
  pose proof (one_line_class pkg_char d1 Hp pkg_char_plain) as Hd1.
  destruct ds as [|d2 ds']; [exact Hd1|].
  rewrite join_cons by discriminate. rewrite !one_line_app, Hd1, (IH H2). reflexivity.
Qed.

Lemma one_line_pairs ps : wf_pairs ps = true -> one_line (flat_map render_pair ps) = true.
Proof.
  unfold wf_pairs. intros H. apply andb_true_iff in H. destruct H as [H _].
  induction ps as [|[k v] ps IH]; [reflexivity|]. cbn [forallb fst snd] in H.
  apply andb_true_iff in H. destruct H as [Hkv Hps].
  apply andb_true_iff in Hkv. destruct Hkv as [Hkv _]. apply andb_true_iff in Hkv. destruct Hkv as [Hk Hv].
  destruct (wf_key_spec _ Hk) as (_ & Hkc).
  unfold wf_value, header_text in Hv.
  apply andb_true_iff in Hv. destruct Hv as [_ Hv]. apply andb_true_iff in Hv. destruct Hv as [Hv _].
  cbn [flat_map]. unfold render_pair at 1. cbn [fst snd].
  rewrite !one_line_app, (one_line_class hkey_char k Hkc hkey_char_plain), Hv, (IH Hps). reflexivity.
Qed.

Lemma wf_comment_one_line com : wf_comment com = true -> one_line com = true.
Proof.
  unfold wf_comment. destruct com; [reflexivity|]. intros H.
  apply andb_true_iff in H. destruct H as [_ H]. unfold header_text in H.
  apply andb_true_iff in H. now destruct H.
Qed.

Lemma one_line_header b : wfb b -> one_line (render_header b) = true.
Proof.
  intros W. unfold render_header.
  pose proof (wb_package b W) as Hp. unfold wf_package in Hp. apply andb_true_iff in Hp. destruct Hp as [_ Hp].
  pose proof (wb_version b W) as Hv. unfold wf_version in Hv. apply andb_true_iff in Hv. destruct Hv as [Hv _].
  apply andb_true_iff in Hv. destruct Hv as [_ Hv].
  destruct (wf_key_spec _ (wb_urgency b W)) as (_ & Hu).
  rewrite !one_line_app.
  rewrite (one_line_class pkg_char _ Hp pkg_char_plain), (one_line_class version_char _ Hv version_char_plain),
    (one_line_join _ (wb_dists b W)), (one_line_class hkey_char _ Hu hkey_char_plain),
    (wf_comment_one_line _ (wb_comment b W)), (one_line_pairs _ (wb_pairs b W)).
  reflexivity.
Qed.

Lemma one_line_trailer b : wfb b -> one_line (render_trailer b) = true.
Proof.
  intros W. unfold render_trailer, author_of. rewrite !one_line_app.
  rewrite (wb_name b W), (wb_mail b W), (date_one_line _ (wb_date b W)). reflexivity.
Qed.

Lemma change_line_one_line l : change_line l = true -> one_line l = true.
Proof. unfold change_line. intros H. apply andb_true_iff in H. now destruct H. Qed.

Lemma blank_line_one_line l : blank_line l = true -> one_line l = true.
Proof. unfold blank_line. intros H. apply andb_true_iff in H. now destruct H. Qed.

Lemma one_line_block_lines b : wfb b -> forallb one_line (render_block_lines b) = true.
Proof.
  intros W. unfold render_block_lines. cbn [forallb]. rewrite forallb_app. cbn [forallb].
  rewrite (one_line_header b W), (one_line_trailer b W).
  rewrite (forallb_impl _ _ _ change_line_one_line (wb_changes b W)).
  rewrite (forallb_impl _ _ _ blank_line_one_line (wb_after b W)). reflexivity.
Qed.

(** * One step of the state machine on each kind of line *)

Section Steps.
Variable J : junk.
Variable strictb allow : bool.

Notation STEP := (step J strictb allow None).
Notation RUN := (run J strictb allow None).

Lemma run_next st l ls st' : STEP st l = Ok (Next st') -> RUN st (l :: ls) = RUN st' ls.
Proof. intros H. cbn [run]. now rewrite H. Qed.

Lemma step_leading init l :
  blank_line l = true ->
  STEP (hstate init [] FirstHeading) l = Ok (Next (hstate (init ++ [l]) [] FirstHeading)).
Proof.
  intros H. destruct (blank_line_spec _ H) as (Hws & Hlf).
  unfold step. rewrite (rstrip_lf_id _ Hlf). cbn [hstate p_state]. unfold step_heading.
  rewrite (match_topline_blank _ Hws). unfold match_blank. rewrite Hws. reflexivity.
Qed.

Lemma upd_last_snoc {A} (f : A -> A) l a : upd_last f (l ++ [a]) = Some (l ++ [f a]).
Proof.
  induction l as [|x l IH]; [reflexivity|]. cbn [app upd_last]. rewrite IH.
  destruct (l ++ [a]) eqn:E; [destruct l; discriminate|reflexivity].
Qed.

Lemma step_after init blocks bk l :
  blank_line l = true ->
  STEP (hstate init (blocks ++ [bk]) NextHeadingOrEof) l
  = Ok (Next (hstate init (blocks ++ [add_trailing l bk]) NextHeadingOrEof)).
Proof.
  intros H. destruct (blank_line_spec _ H) as (Hws & Hlf).
  unfold step. rewrite (rstrip_lf_id _ Hlf). cbn [hstate p_state]. unfold step_heading.
  rewrite (match_topline_blank _ Hws). unfold match_blank. rewrite Hws.
  unfold keep_line, trail_last. cbn [hstate p_state p_blocks]. rewrite upd_last_snoc. reflexivity.
Qed.

Lemma step_header init blocks hs b :
  wfb b -> (hs = FirstHeading \/ hs = NextHeadingOrEof) ->
  STEP (hstate init blocks hs) (render_header b)
  = Ok (Next (cstate init blocks StartOfChangeData (hdr_block b) [])).
Proof.
  intros W Hhs.
  unfold step. rewrite (rstrip_lf_id _ (one_line_lf _ (one_line_header b W))).
  assert (Hsh : step_heading J strictb None (hstate init blocks hs) (render_header b)
                = Ok (Next (cstate init blocks StartOfChangeData (hdr_block b) []))).
  { unfold step_heading.
    pose proof (wb_package b W) as Hp. unfold wf_package in Hp. apply andb_true_iff in Hp. destruct Hp as [Hp0 Hp].
    destruct (w_package b) as [|c n] eqn:Epkg; [discriminate|]. cbn [first_ok] in Hp0.
    cbn [forallb] in Hp. apply andb_true_iff in Hp. destruct Hp as [_ Hn].
    pose proof (wb_version b W) as Hv. unfold wf_version in Hv. apply andb_true_iff in Hv. destruct Hv as [Hv _].
    apply andb_true_iff in Hv. destruct Hv as [Hvne Hv].
    destruct (join_dists_props _ (wb_dists_ne b W) (wb_dists b W)) as (HD1 & (dc & dr & HD2 & HD2') & (gl & HD3 & HD3')).
    assert (Etop : match_topline (render_header b)
                   = Some (c :: n, w_version b, 32%N :: join SPs (w_dists b),
                           32%N :: s_urgency_eq ++ w_urgency b ++ w_comment b ++ flat_map render_pair (w_pairs b))).
    { unfold render_header. rewrite Epkg.
      change (match_topline (c :: n ++ 32%N :: 40%N :: w_version b ++ 41%N :: (32%N :: join SPs (w_dists b))
                ++ 59%N :: (32%N :: s_urgency_eq ++ w_urgency b ++ w_comment b ++ flat_map render_pair (w_pairs b)))
              = Some (c :: n, w_version b, 32%N :: join SPs (w_dists b),
                      32%N :: s_urgency_eq ++ w_urgency b ++ w_comment b ++ flat_map render_pair (w_pairs b))).
      apply match_topline_eq.
      - now apply alnum_wchar.
      - exact (forallb_impl _ _ _ pkg_name_char Hn).
      - destruct (w_version b); [discriminate|discriminate].
      - exact (forallb_impl _ _ _ version_ver_char Hv).
      - cbn [forallb]. now rewrite ws_sp, HD1.
      - exists 32%N, (join SPs (w_dists b)). split; [reflexivity|exact ws_sp].
      - exists gl. split; [|exact HD3']. rewrite last_opt_cons; [exact HD3|]. rewrite HD2. discriminate. }
    rewrite Etop. unfold do_header.
    rewrite (kv_loop_header strictb _ _ _ _ (wb_urgency b W) (wb_comment b W) (wb_pairs b W)).
    cbn [bind]. unfold hstate, cstate, hdr_block, with_state, with_cur, set_pairs, set_urgency, set_header.
    cbn. rewrite Epkg.
    rewrite HD2. cbn [dropwhile]. rewrite HD2'. reflexivity. }
  destruct Hhs as [-> | ->]; exact Hsh.
Qed.

Definition change_state (s : pstate) : Prop := s = StartOfChangeData \/ s = MoreChangesOrTrailer.

Lemma step_change init blocks cs cur chg l :
  change_state cs -> change_line l = true ->
  exists cs', change_state cs' /\
    STEP (cstate init blocks cs cur chg) l = Ok (Next (cstate init blocks cs' cur (chg ++ [l]))).
Proof.
  intros Hcs H.
  pose proof (one_line_lf _ (change_line_one_line _ H)) as Hlf.
  assert (Hsc : exists cs', change_state cs' /\
            step_changes J strictb allow (cstate init blocks cs cur chg) l
            = Ok (Next (cstate init blocks cs' cur (chg ++ [l])))).
  { unfold step_changes. destruct (change_line_cases l H) as [Hm|(Hm & He & Hn & Hb)].
    - rewrite Hm. exists MoreChangesOrTrailer. split; [now right|reflexivity].
    - rewrite Hm, He, Hn, Hb. exists cs. split; [exact Hcs|reflexivity]. }
  destruct Hsc as (cs' & Hcs' & Hsc). exists cs'. split; [exact Hcs'|].
  unfold step. rewrite (rstrip_lf_id _ Hlf). destruct Hcs as [-> | ->]; exact Hsc.
Qed.

Lemma step_trailer init blocks cs b chg :
  wfb b -> change_state cs ->
  STEP (cstate init blocks cs (hdr_block b) chg) (render_trailer b)
  = Ok (Next (hstate init (blocks ++ [set_changes (set_trailer (hdr_block b) (author_of b) (render_date (w_date b))) chg])
                     NextHeadingOrEof)).
Proof.
  intros W Hcs.
  unfold step. rewrite (rstrip_lf_id _ (one_line_lf _ (one_line_trailer b W))).
  assert (Hsc : step_changes J strictb allow (cstate init blocks cs (hdr_block b) chg) (render_trailer b)
                = Ok (Next (hstate init (blocks ++ [set_changes (set_trailer (hdr_block b) (author_of b)
                                                                   (render_date (w_date b))) chg])
                                   NextHeadingOrEof))).
  { unfold step_changes.
    assert (Hmc : match_change (render_trailer b) = false) by reflexivity.
    rewrite Hmc.
    destruct (match_endline_trailer (w_name b) (w_mail b) (w_date b) (wb_name b W) (wb_mail b W) (wb_date b W))
      as (g1 & g2 & He & Hg).
    unfold render_trailer, author_of. rewrite <- !app_assoc. rewrite He.
    rewrite str_eqb_refl. cbn [bind].
    assert (Ha : g1 ++ [32; 60]%N ++ g2 ++ [62%N] = w_name b ++ [32; 60]%N ++ w_mail b ++ [62%N]).
    { rewrite !app_assoc. rewrite <- (app_assoc g1). rewrite Hg. now rewrite <- !app_assoc. }
    rewrite Ha. reflexivity. }
  destruct Hcs as [-> | ->]; exact Hsc.
Qed.

(** * Whole blocks, whole documents *)

Lemma run_leading lead : forall init rest,
  forallb blank_line lead = true ->
  RUN (hstate init [] FirstHeading) (lead ++ rest) = RUN (hstate (init ++ lead) [] FirstHeading) rest.
Proof.
  induction lead as [|l lead IH]; intros init rest H.
  - now rewrite app_nil_r.
  - cbn [forallb] in H. apply andb_true_iff in H. destruct H as [Hl Hlead].
    cbn [app]. rewrite (run_next _ _ _ _ (step_leading init l Hl)).
    rewrite (IH _ _ Hlead). now rewrite <- app_assoc.
Qed.

Lemma run_changes changes : forall init blocks cs b chg rest,
  wfb b -> change_state cs -> forallb change_line changes = true ->
  RUN (cstate init blocks cs (hdr_block b) chg) (changes ++ render_trailer b :: rest)
  = RUN (hstate init (blocks ++ [set_changes (set_trailer (hdr_block b) (author_of b) (render_date (w_date b)))
                                              (chg ++ changes)]) NextHeadingOrEof) rest.
Proof.
  induction changes as [|l changes IH]; intros init blocks cs b chg rest W Hcs H.
  - cbn [app]. rewrite (run_next _ _ _ _ (step_trailer init blocks cs b chg W Hcs)). now rewrite app_nil_r.
  - cbn [forallb] in H. apply andb_true_iff in H. destruct H as [Hl Hch].
    destruct (step_change init blocks cs (hdr_block b) chg l Hcs Hl) as (cs' & Hcs' & Hstep).
    cbn [app]. rewrite (run_next _ _ _ _ Hstep). rewrite (IH _ _ _ _ _ _ W Hcs' Hch).
    now rewrite <- app_assoc.
Qed.

Lemma run_after after : forall init blocks bk rest,
  forallb blank_line after = true ->
  RUN (hstate init (blocks ++ [bk]) NextHeadingOrEof) (after ++ rest)
  = RUN (hstate init (blocks ++ [fold_left (fun k l => add_trailing l k) after bk]) NextHeadingOrEof) rest.
Proof.
  induction after as [|l after IH]; intros init blocks bk rest H.
  - reflexivity.
  - cbn [forallb] in H. apply andb_true_iff in H. destruct H as [Hl Haf].
    cbn [app]. rewrite (run_next _ _ _ _ (step_after init blocks bk l Hl)). now rewrite (IH _ _ _ _ Haf).
Qed.

Lemma fold_trailing after : forall bk,
  fold_left (fun k l => add_trailing l k) after bk
  = mkBlock (b_package bk) (b_version bk) (b_dists bk) (b_urgency bk) (b_comment bk) (b_changes bk)
            (b_author bk) (b_date bk) (b_trailing bk ++ after) (b_pairs bk) (b_no_trailer bk) (b_sep bk).
Proof.
  induction after as [|l after IH]; intros bk; cbn [fold_left].
  - rewrite app_nil_r. now destruct bk.
  - rewrite IH. unfold add_trailing. cbn. now rewrite <- app_assoc.
Qed.

Lemma run_block init blocks hs b rest :
  wfb b -> (hs = FirstHeading \/ hs = NextHeadingOrEof) ->
  RUN (hstate init blocks hs) (render_block_lines b ++ rest)
  = RUN (hstate init (blocks ++ [block_of_w b]) NextHeadingOrEof) rest.
Proof.
  intros W Hhs. unfold render_block_lines. cbn [app].
  rewrite (run_next _ _ _ _ (step_header init blocks hs b W Hhs)).
  rewrite <- app_assoc. cbn [app].
  rewrite (run_changes _ _ _ _ _ _ _ W (or_introl eq_refl) (wb_changes b W)).
  rewrite (run_after _ _ _ _ _ (wb_after b W)). rewrite fold_trailing. reflexivity.
Qed.

Lemma run_blocks bs : forall init blocks hs rest,
  Forall wfb bs -> (hs = FirstHeading \/ hs = NextHeadingOrEof) ->
  RUN (hstate init blocks hs) (flat_map render_block_lines bs ++ rest)
  = RUN (hstate init (blocks ++ map block_of_w bs) (match bs with [] => hs | _ => NextHeadingOrEof end)) rest.
Proof.
  induction bs as [|b bs IH]; intros init blocks hs rest HW Hhs.
  - cbn. now rewrite app_nil_r.
  - inversion HW as [|? ? Wb Wbs]; subst. cbn [flat_map map]. rewrite <- app_assoc.
    rewrite (run_block _ _ _ _ _ Wb Hhs). rewrite (IH _ _ _ _ Wbs (or_intror eq_refl)).
    rewrite <- app_assoc. cbn [app]. destruct bs; reflexivity.
Qed.

End Steps.

(** * Splitting the text into lines *)

Lemma split_crlf_line l : forall cur rest,
  one_line l = true ->
  split_crlf_aux (l ++ 10%N :: rest) cur = (rev cur ++ l) :: split_crlf_aux rest [].
Proof.
  induction l as [|x l IH]; intros cur rest H.
  - cbn. now rewrite app_nil_r.
  - unfold one_line in H. cbn [existsb] in H. apply negb_true_iff in H. apply orb_false_iff in H.
    destruct H as [Hx Hl]. unfold is_crlf in Hx. apply orb_false_iff in Hx. destruct Hx as [H10 H13].
    cbn [app split_crlf_aux]. rewrite H13, H10.
    rewrite IH by (unfold one_line; now rewrite Hl). cbn [rev]. now rewrite <- app_assoc.
Qed.

Lemma split_crlf_lines lines :
  forallb one_line lines = true -> split_crlf (flat_map nl lines) = lines ++ [[]].
Proof.
  unfold split_crlf. induction lines as [|l lines IH]; [reflexivity|]. cbn [forallb flat_map]. intros H.
  apply andb_true_iff in H. destruct H as [Hl Hls]. unfold nl at 1. rewrite <- app_assoc. cbn [app].
  rewrite (split_crlf_line l [] _ Hl). cbn [rev app]. now rewrite (IH Hls).
Qed.

Lemma str_lines_render lines :
  forallb one_line lines = true -> str_lines (flat_map nl lines) = lines.
Proof.
  intros H. unfold str_lines. rewrite (split_crlf_lines lines H).
  rewrite rev_app_distr. cbn [rev app]. apply rev_involutive.
Qed.

(** * Formatting *)

Lemma format_block_w b :
  format_block false (block_of_w b) = Ok (flat_map nl (render_block_lines b)).
Proof.
  unfold format_block, block_of_w. cbn [b_package b_version b_dists b_urgency b_comment b_changes b_author b_date
    b_trailing b_pairs b_no_trailer b_sep opt_or_err bind andb is_some negb].
  f_equal. unfold render_block_lines. cbn [flat_map]. rewrite flat_map_app. cbn [flat_map].
  unfold nl, render_header, render_trailer, author_of, s_urgency_eq, s_urgency, render_pair.
  repeat (first [rewrite <- app_assoc | progress (cbn [app])]). reflexivity.
Qed.

Lemma format_blocks_w bs :
  format_blocks false (map block_of_w bs) = Ok (flat_map nl (flat_map render_block_lines bs)).
Proof.
  induction bs as [|b bs IH]; [reflexivity|]. cbn [map format_blocks flat_map].
  rewrite format_block_w, IH. cbn [bind]. now rewrite flat_map_app.
Qed.

(** * The theorems *)

Definition doc_state (d : wdoc) : pst :=
  hstate (w_leading d) (map block_of_w (w_blocks d)) NextHeadingOrEof.

Lemma wf_doc_spec d :
  wf_doc d = true -> forallb blank_line (w_leading d) = true /\ w_blocks d <> [] /\ Forall wfb (w_blocks d).
Proof.
  unfold wf_doc. intros H. apply andb_true_iff in H. destruct H as [H H3].
  apply andb_true_iff in H. destruct H as [H1 H2].
  split; [exact H1|]. split; [destruct (w_blocks d); discriminate|].
  apply Forall_forall. intros b Hb. apply wf_block_spec. rewrite forallb_forall in H3. now apply H3.
Qed.

Lemma render_not_blank d : wf_doc d = true -> forallb ws (render d) = false.
Proof.
  intros H. destruct (wf_doc_spec d H) as (_ & Hne & HW).
  destruct (w_blocks d) as [|b bs] eqn:E; [congruence|]. inversion HW as [|? ? Wb _]; subst.
  pose proof (wb_package b Wb) as Hp. unfold wf_package in Hp. apply andb_true_iff in Hp. destruct Hp as [Hp0 _].
  destruct (w_package b) as [|c n] eqn:Epkg; [discriminate|]. cbn [first_ok] in Hp0.
  unfold render, doc_lines. rewrite E. cbn [flat_map]. rewrite flat_map_app.
  unfold render_block_lines at 1. cbn [flat_map app]. unfold render_header at 1. rewrite Epkg.
  rewrite forallb_app. cbn [app forallb]. rewrite (alnum_not_ws c Hp0). now rewrite andb_false_r.
Qed.

Lemma doc_lines_one_line d : wf_doc d = true -> forallb one_line (doc_lines d) = true.
Proof.
  intros H. destruct (wf_doc_spec d H) as (Hl & _ & HW). unfold doc_lines. rewrite forallb_app.
  rewrite (forallb_impl _ _ _ blank_line_one_line Hl). cbn [andb].
  induction (w_blocks d) as [|b bs IH]; [reflexivity|]. inversion HW as [|? ? Wb Wbs]; subst.
  cbn [flat_map]. rewrite forallb_app, (one_line_block_lines b Wb). now apply IH.
Qed.

Lemma run_doc J strictb allow d :
  wf_doc d = true ->
  run J strictb allow None init_pst (doc_lines d) = Ok (doc_state d).
Proof.
  intros H. destruct (wf_doc_spec d H) as (Hl & Hne & HW). unfold doc_lines.
  change init_pst with (hstate [] [] FirstHeading).
  rewrite (run_leading J strictb allow _ _ _ Hl). cbn [app].
  rewrite <- (app_nil_r (flat_map render_block_lines (w_blocks d))).
  rewrite (run_blocks J strictb allow _ _ _ _ _ HW (or_introl eq_refl)). cbn [app].
  unfold doc_state. destruct (w_blocks d); [congruence|]. reflexivity.
Qed.

Lemma parse_render J strictb allow d :
  wf_doc d = true ->
  parse_changelog J strictb allow None (InStr (render d)) = Ok (doc_state d).
Proof.
  intros H. unfold parse_changelog. rewrite (render_not_blank d H).
  unfold render.
  change (flat_map (fun l : list N => l ++ [10%N]) (doc_lines d)) with (flat_map nl (doc_lines d)).
  rewrite (str_lines_render _ (doc_lines_one_line d H)). now apply run_doc.
Qed.

(** the same text given as a list of lines (without line ends) *)
Lemma parse_lines J strictb allow d :
  wf_doc d = true ->
  parse_changelog J strictb allow None (InLines (doc_lines d)) = Ok (doc_state d).
Proof. intros H. unfold parse_changelog. now apply run_doc. Qed.

Lemma format_doc_state d :
  format_changelog false (cl_of (doc_state d)) = Ok (render d).
Proof.
  unfold format_changelog, cl_of, doc_state, hstate. cbn [p_initial p_blocks cl_blocks cl_initial].
  rewrite format_blocks_w. cbn [bind]. unfold render, doc_lines. now rewrite flat_map_app.
Qed.

Lemma wf_changelog_doc t : wf_changelog t = true -> exists d, doc_of t = Some d /\ wf_doc d = true /\ render d = t.
Proof.
  unfold wf_changelog, doc_of. destruct (recognise t) as [d|]; [|discriminate]. intros H.
  rewrite H. exists d. split; [reflexivity|]. apply andb_true_iff in H. destruct H as [H1 H2].
  split; [exact H1|now apply str_eqb_eq].
Qed.

(** [wf_roundtrip] *)
Theorem wf_roundtrip J t :
  wf_changelog t = true ->
  exists st, parse_changelog J true false None (InStr t) = Ok st
             /\ p_warn st = []
             /\ format_changelog false (cl_of st) = Ok t.
Proof.
  intros H. destruct (wf_changelog_doc t H) as (d & _ & Hd & <-).
  exists (doc_state d). split; [now apply parse_render|]. split; [reflexivity|apply format_doc_state].
Qed.

(** what a model block exposes through the attributes the property names *)
Definition exposed (b : block) : option xblock :=
  match b_package b, b_version b, b_dists b, b_urgency b, b_author b, b_date b with
  | Some p, Some v, Some d, Some u, Some a, Some dt =>
      Some (mkXB p v d u (b_comment b) (b_pairs b) (b_changes b) a dt)
  | _, _, _, _, _, _ => None
  end.

Lemma exposed_block_of_w b : exposed (block_of_w b) = Some (expose b).
Proof. reflexivity. Qed.

(** [wf_blocks_exposed] *)
Theorem wf_blocks_exposed J t d :
  doc_of t = Some d ->
  exists st, parse_changelog J true false None (InStr t) = Ok st
             /\ map exposed (p_blocks st) = map (fun b => Some (expose b)) (w_blocks d)
             /\ p_initial st = w_leading d.
Proof.
  unfold doc_of. destruct (recognise t) as [d'|]; [|discriminate].
  destruct (wf_doc d' && str_eqb (render d') t) eqn:E; [|discriminate]. intros [= ->].
  apply andb_true_iff in E. destruct E as [Hd Ht]. apply str_eqb_eq in Ht. subst t.
  exists (doc_state d). split; [now apply parse_render|]. split; [|reflexivity].
  unfold doc_state, hstate. cbn [p_blocks]. rewrite map_map. apply map_ext. intros b. apply exposed_block_of_w.
Qed.

(** the same holds in lenient mode and for any allow_empty_author: a well-formed text
    never produces a warning *)
Theorem wf_roundtrip_any_mode J strictb allow t :
  wf_changelog t = true ->
  exists st, parse_changelog J strictb allow None (InStr t) = Ok st
             /\ p_warn st = []
             /\ format_changelog false (cl_of st) = Ok t.
Proof.
  intros H. destruct (wf_changelog_doc t H) as (d & _ & Hd & <-).
  exists (doc_state d). split; [now apply parse_render|]. split; [reflexivity|apply format_doc_state].
Qed.

(** a well-formed text given as its list of lines (the other input form of the constructor) *)
Theorem wf_roundtrip_lines J strictb allow d :
  wf_doc d = true ->
  exists st, parse_changelog J strictb allow None (InLines (doc_lines d)) = Ok st
             /\ p_warn st = []
             /\ format_changelog false (cl_of st) = Ok (render d)
             /\ map exposed (p_blocks st) = map (fun b => Some (expose b)) (w_blocks d).
Proof.
  intros H. exists (doc_state d). split; [now apply parse_lines|]. split; [reflexivity|].
  split; [apply format_doc_state|].
  unfold doc_state, hstate. cbn [p_blocks]. rewrite map_map. apply map_ext. intros b. apply exposed_block_of_w.
Qed.
