(** Tie by regeneration, the changelog parser: [tr_parse_changelog] / [tr_parse_error] of Gen/TrChangelogParse.v
    (REGENERATED from lib/debian/changelog.py by harness/py2coq.py on every run: the bodies of
    Changelog.parse_changelog and Changelog._parse_error as the working tree has them) compute the model's
    [parse_changelog] / [warn] (Changelog/Model.v) — the functions that Check.agree runs and the theorems of
    Props/C04.v / Props/C15.v are about.  For EVERY input (bytes, str, list of lines, text file), every
    max_blocks / allow_empty_author / strict / encoding, every instance [J] of the thirteen uninterpreted
    patterns, and every prior state of the object.

    Method mode: the state is (self._blocks, self.initial_blank_lines, self._encoding, the process-wide list of
    warnings).  [forget] drops the state that a translated method returns next to an exception (the model says
    nothing about the object after a ChangelogParseError); [pview] reads a model result in the shape of the
    translated one.

    Structure of the proof: the line loop is simulated step by step ([step_sim]: one iteration of the regenerated
    loop = the model's [step], by cases on the parser state and on the same leaf calls in the same order); the
    nested key=value loop is first shown equal to a raw loop that keeps the seen keys in a dict as the code does
    ([loop2_raw]), which is the model's [kv_loop] ([kv_loop_raw]: the dict and the model's key list have the same
    members). *)
From Coq Require Import Lia.
From Verif Require Import Lib.Base Lib.PyStr Lib.Dec Lib.Tr Lib.PySlice Changelog.Model Changelog.TrPrims
  Gen.TrChangeBlock Changelog.TrPrimsParse Gen.TrChangelogParse.
Local Open Scope Z_scope.

Definition s_FH : str := [102; 105; 114; 115; 116; 32; 104; 101; 97; 100; 105; 110; 103]%N.
Definition s_NH : str := [110; 101; 120; 116; 32; 104; 101; 97; 100; 105; 110; 103; 32; 111; 102; 32; 69; 79; 70]%N.
Definition s_SC : str := [115; 116; 97; 114; 116; 32; 111; 102; 32; 99; 104; 97; 110; 103; 101; 32; 100; 97; 116; 97]%N.
Definition s_MC : str := [109; 111; 114; 101; 32; 99; 104; 97; 110; 103; 101; 32; 100; 97; 116; 97; 32; 111; 114; 32; 116; 114; 97; 105; 108; 101; 114]%N.
Definition s_SL : str := [115; 108; 117; 114; 112; 32; 116; 111; 32; 101; 110; 100]%N.

Definition str_of_pstate (p : pstate) : str :=
  match p with
  | FirstHeading => s_FH | NextHeadingOrEof => s_NH | StartOfChangeData => s_SC
  | MoreChangesOrTrailer => s_MC | SlurpToEnd => s_SL
  end.

Definition forget {A S} (r : mres A S) : result (A * S) :=
  match r with MOk a s => Ok (a, s) | MErr e _ => Err e end.

Lemma str_eqb_sym a b : str_eqb a b = str_eqb b a.
Proof.
  destruct (str_eqb a b) eqn:E1, (str_eqb b a) eqn:E2; try reflexivity.
  - apply str_eqb_eq in E1. subst. now rewrite str_eqb_refl in E2.
  - apply str_eqb_eq in E2. subst. now rewrite str_eqb_refl in E1.
Qed.

Lemma dict_set_eq k v d : dict_set k v d = tr_dict_set d k v.
Proof. induction d as [|[k' v'] d IH]; cbn [dict_set tr_dict_set]; [reflexivity|]. now rewrite IH. Qed.

Lemma rstrip_eq l : trp_rstrip l [10%N] = rstrip_lf l.
Proof.
  unfold trp_rstrip, rstrip_lf, rstrip_by, rdropwhile. f_equal.
  induction (rev l) as [|c r IH]; cbn [dropwhile]; [reflexivity|].
  unfold in_chars at 1. cbn [existsb]. rewrite orb_false_r. now rewrite IH.
Qed.

Lemma rev_case {A} (l : list A) : l = [] \/ exists pre b, l = pre ++ [b].
Proof. destruct l as [|a l] using rev_ind; [now left|right; eauto]. Qed.

Lemma tr_index_last {A} (pre : list A) b : tr_index (pre ++ [b]) (-1) = Ok b.
Proof.
  unfold tr_index. rewrite app_length. cbn [length Z.ltb Z.compare].
  replace (-1 + Z.of_nat (length pre + 1)) with (Z.of_nat (length pre)) by lia.
  assert (E : (Z.of_nat (length pre) <? 0) = false) by (apply Z.ltb_ge; lia). rewrite E.
  rewrite Nat2Z.id, nth_error_app2, Nat.sub_diag by lia. reflexivity.
Qed.

Lemma tr_set_nth_last {A} (pre : list A) b b' : tr_set_nth (pre ++ [b]) (length pre) b' = Some (pre ++ [b']).
Proof. induction pre as [|a pre IH]; cbn [app length tr_set_nth]; [reflexivity|]. now rewrite IH. Qed.

Lemma tr_set_index_last {A} (pre : list A) b b' : tr_set_index (pre ++ [b]) (-1) b' = Ok (pre ++ [b']).
Proof.
  unfold tr_set_index. rewrite app_length. cbn [length Z.ltb Z.compare].
  replace (-1 + Z.of_nat (length pre + 1)) with (Z.of_nat (length pre)) by lia.
  assert (E : (Z.of_nat (length pre) <? 0) = false) by (apply Z.ltb_ge; lia). rewrite E.
  now rewrite Nat2Z.id, tr_set_nth_last.
Qed.

Lemma upd_last_snoc {A} (f : A -> A) pre b : upd_last f (pre ++ [b]) = Some (pre ++ [f b]).
Proof.
  induction pre as [|a pre IH]; [reflexivity|].
  change ((a :: pre) ++ [b]) with (a :: (pre ++ [b])). cbn [upd_last]. rewrite IH.
  destruct (pre ++ [b]) eqn:E; [now destruct pre|reflexivity].
Qed.

Lemma maxb_test (blocks : list block) z : (tr_len blocks >=? z) = (Z.to_nat z <=? length blocks)%nat.
Proof.
  unfold tr_len. rewrite Z.geb_leb. destruct (Nat.leb_spec (Z.to_nat z) (length blocks)).
  - apply Z.leb_le. lia.
  - apply Z.leb_gt. lia.
Qed.

Lemma span_eq {A} (p : A -> bool) s a b : span p s = (a, b) -> s = a ++ b.
Proof. intros H. rewrite <- (span_app p s), H. reflexivity. Qed.

Lemma strip_prefix_eq pre : forall s r, strip_prefix pre s = Some r -> s = pre ++ r.
Proof.
  induction pre as [|a pre IH]; intros s r H; cbn [strip_prefix] in H.
  - now inversion H.
  - destruct s as [|b s]; [discriminate|]. destruct (a =? b)%N eqn:E; [|discriminate].
    apply N.eqb_eq in E. subst b. cbn [app]. f_equal. now apply IH.
Qed.

Lemma topline_rest line g1 g2 g3 rest :
  match_topline line = Some (g1, g2, g3, rest) ->
  tr_slice line (Some (trp_top_end (g1, g2, g3, rest))) None = rest.
Proof.
  unfold match_topline. destruct line as [|c r]; [discriminate|].
  destruct (wchar c); [|discriminate].
  destruct (span name_char r) as [n r1] eqn:E1.
  destruct (strip_prefix [32; 40]%N r1) as [r2|] eqn:E2; [|discriminate].
  destruct (span ver_char r2) as [v r3] eqn:E3.
  destruct v as [|v0 v]; [discriminate|].
  destruct (strip_prefix [41]%N r3) as [r4|] eqn:E4; [|discriminate].
  destruct (span (fun x => ws x || name_char x) r4) as [g r5] eqn:E5.
  destruct g as [|g0 g]; [discriminate|].
  destruct (last_opt (g0 :: g)); [|discriminate].
  destruct (strip_prefix [59]%N r5) as [rest'|] eqn:E6; [|discriminate].
  destruct (ws g0 && name_char n0); [|discriminate].
  intros H. inversion H. subst g1 g2 g3 rest'. clear H.
  apply span_eq in E1, E3, E5. apply strip_prefix_eq in E2, E4, E6. subst r r1 r3 r4 r5 r2.
  unfold tr_slice, trp_top_end, slice.
  set (a := (c :: n) ++ [32; 40]%N ++ (v0 :: v) ++ [41]%N ++ (g0 :: g) ++ [59]%N).
  replace (c :: n ++ [32; 40]%N ++ (v0 :: v) ++ [41]%N ++ (g0 :: g) ++ [59]%N ++ rest) with (a ++ rest)
    by (unfold a; rewrite <- !app_assoc; reflexivity).
  replace (Z.of_nat (length (c :: n) + 2 + length (v0 :: v) + 1 + length (g0 :: g) + 1)) with (Z.of_nat (length a))
    by (unfold a; rewrite ?app_length; cbn [length]; lia).
  rewrite !clamp_index_in_range by (rewrite app_length; lia).
  rewrite !Nat2Z.id, skipn_length_app, app_length.
  replace (length a + length rest - length a)%nat with (length rest) by lia. apply firstn_all.
Qed.

Lemma is_some_flag (b : bool) : tr_is_some (if b then Some tt else None) = b.
Proof. now destruct b. Qed.

Lemma maxb_test_opt (blocks : list block) (mb : option Z) :
  match mb with Some m => tr_len blocks >=? m | None => false end
  = match option_map Z.to_nat mb with Some m => (m <=? length blocks)%nat | None => false end.
Proof. destruct mb as [m|]; [apply maxb_test|reflexivity]. Qed.

Section Sim.
Variable J : junk.
Variable file : trp_file.
Variable maxb : option Z.
Variable allow strict : bool.
Variable encoding s_enc : str.
Variable warn0 : list warning.

Definition wrn (w : warning) (warn : list warning) : result (list warning) :=
  if strict then Err ParseError else Ok (w :: warn).

Fixpoint kv_raw (pieces : list str) (ak other : list (str * str)) (cur : block) (warn : list warning)
  : result (block * list warning * list (str * str) * list (str * str)) :=
  match pieces with
  | [] => Ok (cur, warn, ak, other)
  | piece :: rest =>
      let pair := strip_by ws piece in
      match match_keyvalue pair with
      | None => do w1 <- wrn WInvalidKV warn; kv_raw rest ak other cur w1
      | Some (key, value) =>
          let lk := key_lower key in
          do w1 <- (if tr_is_some (tr_dict_get ak lk) then wrn WRepeatedKey warn else Ok warn);
          let ak1 := tr_dict_set ak lk value in
          if str_eqb lk s_urgency then
            match match_value value with
            | None => do w2 <- wrn WBadUrgency w1; kv_raw rest ak1 other cur w2
            | Some (u, com) => kv_raw rest ak1 other (set_urgency cur u com) w1
            end
          else kv_raw rest ak1 (tr_dict_set other key value) cur w1
      end
  end.

Lemma loop2_raw pieces : forall kx blocks initial cur changes state old line tm bm pairs ak other warn,
  forget (tr_parse_changelog_loop2 pieces kx J file maxb allow strict encoding blocks initial s_enc (warn ++ warn0)
            s_FH s_NH s_SC s_MC s_SL cur changes state old line tm bm pairs ak other)
  = match kv_raw pieces ak other cur warn with
    | Err e => Err e
    | Ok (cur', warn', ak', other') =>
        forget (kx J file maxb allow strict encoding blocks initial s_enc (warn' ++ warn0)
                   s_FH s_NH s_SC s_MC s_SL cur' changes state old line tm bm pairs ak' other')
    end.
Proof.
  induction pieces as [|piece rest IH]; intros.
  - reflexivity.
  - cbn [tr_parse_changelog_loop2 kv_raw].
    unfold trp_strip_ws, trp_keyvalue_match, trp_lower, trp_value_match, trp_g1, trp_g2, tr_parse_error, trp_warn, wrn.
    destruct (match_keyvalue (strip_by ws piece)) as [[key value]|].
    + cbn [fst snd]. destruct (tr_is_some (tr_dict_get ak (key_lower key))); destruct strict eqn:Hs; cbn [bind forget];
        try reflexivity.
      all: change [117; 114; 103; 101; 110; 99; 121]%N with s_urgency;
        destruct (str_eqb (key_lower key) s_urgency).
      all: try (destruct (match_value value) as [[u com]|]; cbn [fst snd bind forget]).
      all: try reflexivity.
      all: try (rewrite <- IH; reflexivity).
      all: try (cbn [trp_msg_kind nth app]; rewrite <- IH; reflexivity).
    + destruct strict; cbn [bind forget]; [reflexivity|]. cbn [trp_msg_kind app]. rewrite <- IH. reflexivity.
Qed.

(** the model's key/value loop is the raw loop, the set of seen keys kept as a list instead of a dict *)
Lemma kv_loop_raw pieces : forall keys ak other ps old blocks initial cur changes warn,
  (forall k, tr_is_some (tr_dict_get ak k) = existsb (str_eqb k) keys) ->
  kv_loop strict pieces keys other (mkPst ps old blocks initial cur changes warn)
  = match kv_raw pieces ak other cur warn with
    | Err e => Err e
    | Ok (cur', warn', _, other') => Ok (mkPst ps old blocks initial (set_pairs cur' other') changes warn')
    end.
Proof.
  induction pieces as [|piece rest IH]; intros keys ak other ps old blocks initial cur changes warn Hk.
  - reflexivity.
  - cbn [kv_loop kv_raw]. unfold wrn, Model.warn.
    destruct (match_keyvalue (strip_by ws piece)) as [[key value]|].
    + rewrite <- Hk.
      assert (Hk' : forall v k, tr_is_some (tr_dict_get (tr_dict_set ak (key_lower key) v) k)
                                = existsb (str_eqb k) (key_lower key :: keys)).
      { intros v k. cbn [existsb]. rewrite <- Hk. clear. induction ak as [|[k' v'] ak IHak]; cbn [tr_dict_set tr_dict_get].
        - rewrite str_eqb_sym. now destruct (str_eqb k (key_lower key)).
        - destruct (str_eqb k' (key_lower key)) eqn:E1; cbn [tr_dict_get].
          + destruct (str_eqb k' k) eqn:E2; [now rewrite orb_true_r|].
            apply str_eqb_eq in E1. subst k'. rewrite str_eqb_sym, E2. reflexivity.
          + destruct (str_eqb k' k) eqn:E2; [now rewrite orb_true_r|]. apply IHak. }
      destruct (tr_is_some (tr_dict_get ak (key_lower key))); destruct strict eqn:Hs; cbn [bind]; try reflexivity.
      all: cbn [p_cur p_warn with_warn with_cur p_state p_old p_blocks p_initial p_changes].
      all: destruct (str_eqb (key_lower key) s_urgency).
      all: try (destruct (match_value value) as [[u com]|]; cbn [bind]).
      all: try reflexivity.
      all: unfold with_cur, with_warn; cbn [p_cur p_warn p_state p_old p_blocks p_initial p_changes].
      all: rewrite ?dict_set_eq.
      all: try (erewrite IH by (apply Hk'); reflexivity).
    + destruct strict; cbn [bind]; [reflexivity|].
      unfold with_cur, with_warn; cbn [p_cur p_warn p_state p_old p_blocks p_initial p_changes].
      erewrite IH by (apply Hk). reflexivity.
Qed.

Let maxb' := option_map Z.to_nat maxb.

Definition L1 (ls : list str) (st : pst) :=
  tr_parse_changelog_loop1 ls J file maxb allow strict encoding (p_blocks st) (p_initial st) s_enc (p_warn st ++ warn0)
     s_FH s_NH s_SC s_MC s_SL (p_cur st) (p_changes st) (str_of_pstate (p_state st)) (option_map str_of_pstate (p_old st)).

Definition done (st : pst) : result (unit * trp_state) :=
  Ok (tt, (p_blocks st, p_initial st, s_enc, p_warn st ++ warn0)).

Lemma step_sim_slurp old blocks initial cur changes warn l ls :
  let st := mkPst SlurpToEnd old blocks initial cur changes warn in
  forget (L1 (l :: ls) st)
  = match step J strict allow maxb' st l with
    | Err e => Err e | Ok (Stop st') => done st' | Ok (Next st') => forget (L1 ls st') end.
Proof.
  intros st. subst st. unfold L1. cbn [p_state p_old p_blocks p_initial p_cur p_changes p_warn].
  cbn [tr_parse_changelog_loop1]. cbn. rewrite rstrip_eq.
  destruct old as [[]|]; cbn; try reflexivity.
  destruct (rev_case blocks) as [->|(pre & b & ->)].
  - reflexivity.
  - rewrite tr_index_last, tr_set_index_last. unfold trail_last. cbn [p_blocks]. rewrite upd_last_snoc.
    reflexivity.
Qed.

Lemma step_sim_changes ps old blocks initial cur changes warn l ls :
  (ps = StartOfChangeData \/ ps = MoreChangesOrTrailer) ->
  let st := mkPst ps old blocks initial cur changes warn in
  forget (L1 (l :: ls) st)
  = match step J strict allow maxb' st l with
    | Err e => Err e | Ok (Stop st') => done st' | Ok (Next st') => forget (L1 ls st') end.
Proof.
  intros Hps st. subst st. unfold L1. cbn [p_state p_old p_blocks p_initial p_cur p_changes p_warn].
  cbn [tr_parse_changelog_loop1].
  destruct Hps as [-> | ->]; cbn; rewrite rstrip_eq.
  all: unfold trp_change_m, trp_endline_match, trp_nodetails_m, trp_blank_m, trp_junk_match, trp_flag,
         tr_parse_error, trp_warn, step_changes, Model.warn.
  all: set (line := rstrip_lf l).
  all: destruct (match_change line); cbn; [reflexivity|].
  all: destruct (match_endline line) as [[[[g1 g2] g3] g4]|]; cbn.
  all: try (destruct (str_eqb g3 [32; 32]%N); cbn; [reflexivity | destruct strict; cbn; reflexivity]).
  all: destruct (match_nodetails line); cbn.
  all: try (destruct allow; cbn; [reflexivity | destruct strict; reflexivity]).
  all: destruct (match_blank line); [reflexivity|].
  all: destruct (j_cvs J line), (j_comments J line), (j_more_comments J line); cbn; try reflexivity.
  all: destruct strict; reflexivity.
Qed.

Lemma step_sim_heading ps old blocks initial cur changes warn l ls :
  (ps = FirstHeading \/ ps = NextHeadingOrEof) ->
  let st := mkPst ps old blocks initial cur changes warn in
  forget (L1 (l :: ls) st)
  = match step J strict allow maxb' st l with
    | Err e => Err e | Ok (Stop st') => done st' | Ok (Next st') => forget (L1 ls st') end.
Proof.
  intros Hps st. subst st. unfold L1. cbn [p_state p_old p_blocks p_initial p_cur p_changes p_warn].
  cbn [tr_parse_changelog_loop1].
  destruct Hps as [-> | ->]; cbn; rewrite rstrip_eq.
  all: unfold trp_topline_match, trp_blank_m, trp_junk_match, trp_flag,
         tr_parse_error, trp_warn, step_heading, Model.warn.
  all: set (line := rstrip_lf l).
  all: destruct (match_topline line) as [[[[g1 g2] g3] rest]|] eqn:Etop; cbn.
  1, 3: pose proof (topline_rest _ _ _ _ _ Etop) as Hr; cbn [trp_top_end] in Hr; rewrite Hr; clear Hr;
    rewrite maxb_test_opt; unfold maxb';
    match goal with |- context [if ?t then MOk _ _ else _] => destruct t end; [reflexivity|];
    rewrite loop2_raw; unfold do_header, with_cur; cbn [p_cur p_state p_old p_blocks p_initial p_changes p_warn];
    rewrite (kv_loop_raw _ [] []) by reflexivity;
    change (trp_set_dists (trp_set_version (trp_set_package cur g1) g2) (dropwhile ws g3))
      with (set_header cur g1 g2 (lstrip_by ws g3));
    destruct (kv_raw (split_on 44 rest) [] [] (set_header cur g1 g2 (lstrip_by ws g3)) warn)
      as [[[[cur' warn'] ak'] other']|e]; reflexivity.
  all: rewrite !is_some_flag.
  all: change (j_old1 J line || j_old2 J line || j_old3 J line || j_old4 J line
               || j_old5 J line || j_old6 J line || j_old7 J line || j_old8 J line) with (old_format J line).
  all: rewrite ?andb_false_r, ?andb_true_r.
  all: unfold keep_line, trail_last; cbn [p_state p_blocks].
  2: destruct (rev_case blocks) as [->|(pre & b & ->)];
       [|rewrite !tr_index_last, !tr_set_index_last, upd_last_snoc].
  all: destruct (match_blank line); cbn; [reflexivity|].
  2, 3: destruct (j_emacs J line || j_vim J line); cbn; [reflexivity|].
  all: destruct (j_cvs J line || j_comments J line || j_more_comments J line); cbn; [reflexivity|].
  2, 3: destruct (old_format J line); cbn; [reflexivity|].
  all: destruct strict; [reflexivity|].
  all: cbv beta iota; rewrite ?tr_index_last; cbv beta iota; rewrite ?tr_set_index_last;
    unfold with_warn; cbn [bind p_state p_blocks]; rewrite ?upd_last_snoc; reflexivity.
Qed.

Lemma step_sim st l ls :
  forget (L1 (l :: ls) st)
  = match step J strict allow maxb' st l with
    | Err e => Err e | Ok (Stop st') => done st' | Ok (Next st') => forget (L1 ls st') end.
Proof.
  destruct st as [ps old blocks initial cur changes warn]. destruct ps.
  - apply step_sim_heading. now left.
  - apply step_sim_heading. now right.
  - apply step_sim_changes. now left.
  - apply step_sim_changes. now right.
  - apply step_sim_slurp.
Qed.

Lemma finish_sim st :
  forget (L1 [] st) = match finish strict st with Err e => Err e | Ok st' => done st' end.
Proof.
  destruct st as [ps old blocks initial cur changes warn]. unfold L1, finish, Model.warn, done.
  cbn [p_state p_old p_blocks p_initial p_cur p_changes p_warn tr_parse_changelog_loop1].
  unfold tr_parse_error, trp_warn.
  destruct ps; try (destruct old as [[]|]); cbn; try reflexivity; destruct strict; reflexivity.
Qed.

Lemma run_sim lines : forall st,
  forget (L1 lines st) = match run J strict allow maxb' st lines with Err e => Err e | Ok st' => done st' end.
Proof.
  induction lines as [|l ls IH]; intros st.
  - apply finish_sim.
  - rewrite step_sim. cbn [run]. destruct (step J strict allow maxb' st l) as [[st'|st']|e]; try reflexivity.
    apply IH.
Qed.
End Sim.

Definition pview (s_enc : str) (warn0 : list warning) (r : result pst) : result (unit * trp_state) :=
  match r with
  | Ok st => Ok (tt, (p_blocks st, p_initial st, s_enc, p_warn st ++ warn0))
  | Err e => Err e
  end.

Lemma strip_nil_forall s : tr_is_nil (strip_by ws s) = forallb ws s.
Proof.
  unfold strip_by, lstrip_by, rstrip_by, rdropwhile.
  induction s as [|c s IH]; [reflexivity|]. cbn [dropwhile forallb].
  destruct (ws c) eqn:E; [exact IH|]. cbn [andb].
  destruct (rev (c :: s)) as [|x r] eqn:Er.
  { apply (f_equal (@length _)) in Er. rewrite rev_length in Er. discriminate. }
  assert (Hin : In c (x :: r)) by (rewrite <- Er, <- in_rev; now left).
  clear Er. revert Hin. generalize (x :: r). intros l Hin.
  induction l as [|y l IHl]; [destruct Hin|]. cbn [dropwhile].
  destruct (ws y) eqn:Ey.
  - destruct Hin as [->|Hin]; [congruence|]. now apply IHl.
  - cbn [rev]. now destruct (rev l).
Qed.

Lemma pop_blank_last (ls : list str) :
  (if negb (tr_is_nil ls) then do x <- tr_index ls (-1); Ok (str_eqb x []) else Ok false)
  = Ok (match rev ls with [] :: _ => true | _ => false end).
Proof.
  destruct (rev_case ls) as [->|(pre & x & ->)]; [reflexivity|].
  rewrite rev_app_distr. cbn [rev app]. rewrite tr_index_last.
  destruct pre; cbn [app tr_is_nil negb bind]; now destruct x.
Qed.

Theorem tr_parse_changelog_eq J blocks0 initial0 s_enc warn0 file maxb allow strict enc :
  forget (tr_parse_changelog J blocks0 initial0 s_enc warn0 file maxb allow strict enc)
  = pview s_enc warn0 (parse_changelog J strict allow (option_map Z.to_nat maxb) (file_input file)).
Proof.
  unfold tr_parse_changelog.
  set (encoding := tr_opt_or enc s_enc).
  assert (HL : forall f lines,
    forget (tr_parse_changelog_loop1 lines J f maxb allow strict encoding [] [] s_enc warn0
              s_FH s_NH s_SC s_MC s_SL (trp_new_block encoding) [] s_FH None)
    = pview s_enc warn0 (run J strict allow (option_map Z.to_nat maxb) init_pst lines)).
  { intros f lines. pose proof (run_sim J f maxb allow strict encoding s_enc warn0 lines init_pst) as H.
    unfold L1 in H. cbn [init_pst p_state p_old p_blocks p_initial p_cur p_changes p_warn] in H.
    cbn [app str_of_pstate option_map] in H. unfold trp_new_block. etransitivity; [exact H|].
    destruct (run J strict allow (option_map Z.to_nat maxb) init_pst lines); reflexivity. }
  assert (HS : forall s,
    forget (if negb (negb (tr_is_nil (trp_file_strip (FStr s))))
            then match tr_parse_error J [] [] s_enc warn0
                         [69; 109; 112; 116; 121; 32; 99; 104; 97; 110; 103; 101; 108; 111; 103; 32; 102; 105; 108; 101; 46]%N strict with
                 | MErr e st => MErr e st
                 | MOk _ st => let '(b, i, e, w) := st in MOk tt (b, i, e, w)
                 end
            else tr_parse_changelog_loop1 (str_lines s) J (FLines (str_lines s)) maxb allow strict encoding [] [] s_enc warn0
                   s_FH s_NH s_SC s_MC s_SL (trp_new_block encoding) [] s_FH None)
    = pview s_enc warn0 (parse_changelog J strict allow (option_map Z.to_nat maxb) (InStr s))).
  { intros s. unfold trp_file_strip, trp_file_text, parse_changelog. rewrite strip_nil_forall, negb_involutive.
    destruct (forallb ws s).
    - unfold tr_parse_error, trp_warn, Model.warn. destruct strict; reflexivity.
    - apply HL. }
  assert (HP : forall s (K : list str -> mres unit trp_state),
    match (if negb (tr_is_nil (split_crlf s)) then do x <- tr_index (split_crlf s) (-1); Ok (str_eqb x []) else Ok false) with
    | Ok t => if t then match trp_list_pop (split_crlf s) with
                        | Ok p => let '(_, ls) := p in K ls
                        | Err e => MErr e ([], [], s_enc, warn0)
                        end
              else K (split_crlf s)
    | Err e => MErr e ([], [], s_enc, warn0)
    end = K (str_lines s)).
  { intros s K. rewrite pop_blank_last. unfold str_lines, trp_list_pop.
    destruct (rev (split_crlf s)) as [|[|c x] r]; reflexivity. }
  destruct file as [s|s|ls|s]; cbn [trp_file_isinstance trp_file_decode file_input].
  - cbv beta iota zeta. cbn [trp_file_isinstance]. rewrite <- HS. cbv beta iota zeta.
    destruct (negb (negb (tr_is_nil (trp_file_strip (FStr s))))); [reflexivity|].
    unfold trp_re_split, trp_file_text. rewrite (HP s (fun ls => _)). reflexivity.
  - cbv beta iota zeta. cbn [trp_file_isinstance]. rewrite <- HS. cbv beta iota zeta.
    destruct (negb (negb (tr_is_nil (trp_file_strip (FStr s))))); [reflexivity|].
    unfold trp_re_split, trp_file_text. rewrite (HP s (fun ls => _)). reflexivity.
  - cbv beta iota zeta. apply HL.
  - cbv beta iota zeta. apply HL.
Qed.

(** Changelog(file, max_blocks, allow_empty_author, strict, encoding): the constructor sets the attributes and,
    for [file] not None, parses — with the arguments passed by keyword as the source has them now *)
Theorem tr_changelog_init_eq J blocks0 initial0 enc0 warn0 file maxb allow strict encoding :
  forget (tr_changelog_init J blocks0 initial0 enc0 warn0 file maxb allow strict encoding)
  = match file with
    | None => Ok (tt, ([], [], encoding, warn0))
    | Some f => pview encoding warn0 (parse_changelog J strict allow (option_map Z.to_nat maxb) (file_input f))
    end.
Proof.
  unfold tr_changelog_init. destruct file as [f|]; [|reflexivity]. cbv zeta.
  rewrite <- (tr_parse_changelog_eq J [] [] encoding warn0 f maxb allow strict None).
  destruct (tr_parse_changelog J [] [] encoding warn0 f maxb allow strict None) as [[] [[[a b] c] d]|e s]; reflexivity.
Qed.

(** _parse_error(message, strict): ChangelogParseError in strict mode, else one more warning — the model's [warn]
    for the kind that the message text stands for *)
Theorem tr_parse_error_eq J st s_enc warn0 message strict :
  forget (tr_parse_error J (p_blocks st) (p_initial st) s_enc (p_warn st ++ warn0) message strict)
  = pview s_enc warn0 (warn strict (trp_msg_kind message) st).
Proof. unfold tr_parse_error, trp_warn, warn. destruct strict; reflexivity. Qed.

(** [pview] keeps what the object and the caller can see of the model's final parser state: the blocks, the
    initial lines ([cl_of]) and the warnings; [forget]/[pview] keep the exception kind *)
Theorem pview_faithful s_enc warn0 r1 r2 :
  pview s_enc warn0 r1 = pview s_enc warn0 r2 ->
  match r1, r2 with
  | Ok a, Ok b => cl_of a = cl_of b /\ p_warn a = p_warn b
  | Err x, Err y => x = y
  | _, _ => False
  end.
Proof.
  destruct r1 as [a|x], r2 as [b|y]; cbn [pview]; intros H; try discriminate.
  - inversion H as [[Hb Hi Hw]]. apply app_inv_tail in Hw. unfold cl_of. now rewrite Hb, Hi.
  - now inversion H.
Qed.
