(** Primitives that the regenerated control flow of debian/changelog.py (Gen/TrChangelog.v,
    regenerated from lib/debian/changelog.py on every run) calls.  Everything here is
    hand-written; every primitive is DEFINED THROUGH the model (Changelog/Model.v): the block /
    changelog records and their field projections, the regex leaves, the [junk] record.  The
    pattern texts are asserted by the translator spec (harness/props/clcommon.py): a changed
    pattern fails the translation closed. *)
From Verif Require Import Lib.Base Lib.PyStr Lib.Tr Gen.PyChars Gen.ClChars Changelog.Model.

(** ** The objects

    A ChangeBlock is the model's [block] record, a Changelog the model's [changelog] record.
    The translated code has local variables called [block]: the spec refers to the types by
    these two names.  An attribute read [self.package] is the projection [b_package self] (spec
    keys "<cblock>.@package" …); a store to an attribute of a read-only object has no
    rendering and fails the translation closed. *)
Definition cblock := block.
Definition cchangelog := changelog.

(** [self.other_pairs.items()]: the dict is an association list in insertion order *)
Definition trp_dict_items (d : list (str * str)) : list (str * str) := d.

(** [''.join(pieces)] *)
Definition trp_join (sep : str) (l : list str) : str := join sep l.

(** ** list methods used by ChangeBlock.add_change / add_trailing_line (receiver-mutating:
    the primitive returns the value and the receiver afterwards) *)
Definition trp_list_append (l : list str) (x : str) : unit * list str := (tt, l ++ [x]).
Definition trp_list_reverse (l : list str) : unit * list str := (tt, rev l).
(** [l.insert(i, x)] for a Python int [i]: negative indices count from the end, everything is clamped *)
Definition trp_list_insert (l : list str) (i : Z) (x : str) : unit * list str :=
  let n := Z.of_nat (length l) in
  let j := if (i <? 0)%Z then Z.max 0 (i + n)%Z else Z.min i n in
  (tt, firstn (Z.to_nat j) l ++ x :: skipn (Z.to_nat j) l).

(** [blankline.match(s)]: None or a match object of which only "is None" is used *)
Definition trp_blank_match (s : str) : option unit := if match_blank s then Some tt else None.
