(** Primitives that the regenerated control flow of Changelog.parse_changelog (Gen/TrChangelogParse.v,
    regenerated from lib/debian/changelog.py on every run) calls.  Everything here is hand-written;
    every regex leaf is DEFINED THROUGH the model's leaf of Changelog/Model.v ([match_topline],
    [match_blank], [match_change], [match_endline], [match_nodetails], [match_keyvalue], [match_value]);
    the thirteen junk patterns are the fields of the model's [junk] record (leading parameter [J] of the
    translated functions: the tie holds for every instance).  The pattern texts of the seven
    interpreted patterns are asserted by the translator spec (harness/props/clcommon.py). *)
From Verif Require Import Lib.Base Lib.PyStr Lib.Tr Gen.PyChars Gen.ClChars Changelog.Model Changelog.TrPrims
  Gen.TrChangeBlock.

(** ** The argument [file]

    A dynamic value: bytes, a str, an iterable of str lines, an open text file.  [file_input] is the
    model's view ([Model.input]; the codec is not modelled: bytes and str with the same code points are the
    same input).  The code rebinds [file]: [file = file.decode(encoding)], [file = lines]. *)
Inductive trp_file :=
| FBytes (s : str)
| FStr (s : str)
| FLines (ls : list str)
| FFile (s : str).

Definition file_input (f : trp_file) : input :=
  match f with
  | FBytes s | FStr s => InStr s
  | FLines ls => InLines ls
  | FFile s => InFile s
  end.

(** the classes that appear as second argument of [isinstance] *)
Inductive trp_pytype := TyBytes | TyStr.

Definition trp_file_isinstance (f : trp_file) (t : trp_pytype) : bool :=
  match f, t with
  | FBytes _, TyBytes => true
  | FStr _, TyStr => true
  | _, _ => false
  end.
(** [file.decode(encoding)] (only reached for bytes): the str with the same code points *)
Definition trp_file_decode (f : trp_file) (_ : str) : trp_file :=
  match f with FBytes s => FStr s | _ => f end.
(** [file.strip()] (only reached for a str; the value elsewhere is never used) *)
Definition trp_file_text (f : trp_file) : str :=
  match f with FBytes s | FStr s | FFile s => s | FLines _ => [] end.
Definition trp_file_strip (f : trp_file) : str := strip_by ws (trp_file_text f).
(** [re.split(r'\r\n|\r|\n', file)] *)
Definition trp_re_split (_ : unit) (f : trp_file) : list str := split_crlf (trp_file_text f).
(** [for line in file]: the items in the order in which the object yields them *)
Definition trp_file_iter (f : trp_file) : list str :=
  match f with
  | FLines ls => ls
  | FFile s => file_lines s
  | FBytes s | FStr s => map (fun c => [c]) s
  end.

(** the lines are str objects (a list of bytes lines is not modelled): [isinstance(line, str)],
    [line.decode(encoding)] (never reached) *)
Definition trp_line_isinstance (_ : str) (t : trp_pytype) : bool :=
  match t with TyStr => true | TyBytes => false end.
Definition trp_line_decode (l : str) (_ : str) : str := l.

(** ** list / str / dict methods *)
Definition trp_append {A} (l : list A) (x : A) : unit * list A := (tt, l ++ [x]).
(** [lines.pop()]: the last element; IndexError on an empty list *)
Definition trp_list_pop (l : list str) : result (str * list str) :=
  match rev l with
  | x :: r => Ok (x, rev r)
  | [] => Err IndexError
  end.
(** [s.rstrip(chars)], [s.lstrip()], [s.strip()], [s.split(sep)] for a one-character separator *)
Definition trp_rstrip (s chars : str) : str := rstrip_by (in_chars chars) s.
Definition trp_lstrip_ws (s : str) : str := lstrip_by ws s.
Definition trp_strip_ws (s : str) : str := strip_by ws s.
Definition trp_split (s sep : str) : list str :=
  match sep with [c] => split_on c s | _ => [s] end.
(** [key.lower()] — only ever applied to group 1 of [keyvalue], a string of key characters: the table of
    str.lower() on the key characters is generated (Gen/ClChars.v [cl_key_lower]) *)
Definition trp_lower (s : str) : str := key_lower s.

(** ** regex leaves: match objects are the tuples of groups that the model's leaves return *)
Definition trp_topm := (str * str * str * str)%type.       (* groups 1, 2, 3, and line[end():] *)
Definition trp_endm := (str * str * str * str)%type.       (* groups 1, 2, 3, 4 *)
Definition trp_kvm := (str * str)%type.                    (* groups 1, 2 *)
Definition trp_valm := (str * str)%type.                   (* groups 1, 2 *)

Definition trp_flag (b : bool) : option unit := if b then Some tt else None.

Definition trp_topline_match (l : str) : option trp_topm := match_topline l.
Definition trp_top_g1 (m : trp_topm) (_ : unit) : str := let '(a, _, _, _) := m in a.
Definition trp_top_g2 (m : trp_topm) (_ : unit) : str := let '(_, b, _, _) := m in b.
Definition trp_top_g3 (m : trp_topm) (_ : unit) : str := let '(_, _, c, _) := m in c.
(** [top_match.end()]: the match is  group1 " (" group2 ")" group3 ";"  from position 0 *)
Definition trp_top_end (m : trp_topm) : Z :=
  let '(a, b, c, _) := m in Z.of_nat (length a + 2 + length b + 1 + length c + 1).

Definition trp_blank_m (l : str) : option unit := trp_flag (match_blank l).
Definition trp_change_m (l : str) : option unit := trp_flag (match_change l).
Definition trp_nodetails_m (l : str) : option unit := trp_flag (match_nodetails l).

Definition trp_endline_match (l : str) : option trp_endm := match_endline l.
Definition trp_end_g1 (m : trp_endm) (_ : unit) : str := let '(a, _, _, _) := m in a.
Definition trp_end_g2 (m : trp_endm) (_ : unit) : str := let '(_, b, _, _) := m in b.
Definition trp_end_g3 (m : trp_endm) (_ : unit) : str := let '(_, _, c, _) := m in c.
Definition trp_end_g4 (m : trp_endm) (_ : unit) : str := let '(_, _, _, d) := m in d.

Definition trp_keyvalue_match (s : str) : option trp_kvm := match_keyvalue s.
Definition trp_value_match (s : str) : option trp_valm := match_value s.
Definition trp_g1 (m : str * str) (_ : unit) : str := fst m.
Definition trp_g2 (m : str * str) (_ : unit) : str := snd m.

(** a junk pattern: only "is None" of the match is used *)
Definition trp_junk_match (f : str -> bool) (l : str) : option unit := trp_flag (f l).

(** ** ChangeBlock objects in local variables: attribute stores *)

(** [ChangeBlock(encoding=encoding)]: the constructor with every other argument left out *)
Definition trp_new_block (_ : str) : cblock := empty_block.

Definition trp_set_package (b : cblock) (v : str) : cblock :=
  mkBlock (Some v) (b_version b) (b_dists b) (b_urgency b) (b_comment b) (b_changes b)
          (b_author b) (b_date b) (b_trailing b) (b_pairs b) (b_no_trailer b) (b_sep b).
Definition trp_set_version (b : cblock) (v : str) : cblock :=
  mkBlock (b_package b) (Some v) (b_dists b) (b_urgency b) (b_comment b) (b_changes b)
          (b_author b) (b_date b) (b_trailing b) (b_pairs b) (b_no_trailer b) (b_sep b).
Definition trp_set_dists (b : cblock) (v : str) : cblock :=
  mkBlock (b_package b) (b_version b) (Some v) (b_urgency b) (b_comment b) (b_changes b)
          (b_author b) (b_date b) (b_trailing b) (b_pairs b) (b_no_trailer b) (b_sep b).
Definition trp_set_urgency (b : cblock) (v : str) : cblock :=
  mkBlock (b_package b) (b_version b) (b_dists b) (Some v) (b_comment b) (b_changes b)
          (b_author b) (b_date b) (b_trailing b) (b_pairs b) (b_no_trailer b) (b_sep b).
Definition trp_set_comment (b : cblock) (v : str) : cblock :=
  mkBlock (b_package b) (b_version b) (b_dists b) (b_urgency b) v (b_changes b)
          (b_author b) (b_date b) (b_trailing b) (b_pairs b) (b_no_trailer b) (b_sep b).
Definition trp_set_author (b : cblock) (v : str) : cblock :=
  mkBlock (b_package b) (b_version b) (b_dists b) (b_urgency b) (b_comment b) (b_changes b)
          (Some v) (b_date b) (b_trailing b) (b_pairs b) (b_no_trailer b) (b_sep b).
Definition trp_set_date (b : cblock) (v : str) : cblock :=
  mkBlock (b_package b) (b_version b) (b_dists b) (b_urgency b) (b_comment b) (b_changes b)
          (b_author b) (Some v) (b_trailing b) (b_pairs b) (b_no_trailer b) (b_sep b).
Definition trp_set_no_trailer (b : cblock) (v : bool) : cblock :=
  mkBlock (b_package b) (b_version b) (b_dists b) (b_urgency b) (b_comment b) (b_changes b)
          (b_author b) (b_date b) (b_trailing b) (b_pairs b) v (b_sep b).
(** [_changes], [other_pairs], [_trailer_separator]: the model's own setters *)
Definition trp_set_changes (b : cblock) (v : list str) : cblock := set_changes b v.
Definition trp_set_pairs (b : cblock) (v : list (str * str)) : cblock := set_pairs b v.
Definition trp_set_sep (b : cblock) (v : str) : cblock := set_sep b v.

(** [block.add_trailing_line(line)] on a block held in a list: the TRANSLATED method
    (Gen/TrChangeBlock.v [tr_add_trailing_line], method mode with the one attribute [_trailing] as state)
    run on the block's attribute, the state it returns written back — every other attribute is untouched
    because a store to it would have failed that translation closed *)
Definition trp_block_add_trailing_line (b : cblock) (line : str) : result (unit * cblock) :=
  match tr_add_trailing_line (b_trailing b) line with
  | MOk _ t =>
      Ok (tt, mkBlock (b_package b) (b_version b) (b_dists b) (b_urgency b) (b_comment b) (b_changes b)
                      (b_author b) (b_date b) t (b_pairs b) (b_no_trailer b) (b_sep b))
  | MErr e _ => Err e
  end.

(** ** warnings

    [warnings.warn(message)] appends to a process-wide list; the model records the KIND of each warning
    ([Model.warning], newest first).  The state variable [s_warn] is that list; the kind is read off the
    literal text with which every message of this module starts. *)
Definition trp_msg_kind (m : str) : warning :=
  match m with
  | 69%N :: _ => WEmpty                    (* "Empty changelog file." *)
  | 73%N :: _ => WInvalidKV                (* "Invalid key-value pair after ';': …" *)
  | 82%N :: _ => WRepeatedKey              (* "Repeated key-value: …" *)
  | 85%N :: _ => WUnexpected               (* "Unexpected line while looking for …" *)
  | 70%N :: _ => WEof                      (* "Found eof where expected …" *)
  | 66%N :: r =>                           (* "Badly formatted urgency value: …" / "Badly formatted trailer line: …" *)
      match nth 15 r 0%N with 117%N => WBadUrgency | _ => WBadTrailer end
  | _ => WUnexpected
  end.

Definition trp_state := (list cblock * list str * str * list warning)%type.

(** calling convention of a primitive on the object's state (py2coq Call.stateprim): ghost parameters, the
    state variables, then the arguments *)
Definition trp_warn (_ : junk) (s_blocks : list cblock) (s_initial : list str) (s_encoding : str)
    (s_warn : list warning) (message : str) : mres unit trp_state :=
  MOk tt (s_blocks, s_initial, s_encoding, trp_msg_kind message :: s_warn).
