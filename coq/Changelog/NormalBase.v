(** C15, normal form -- groundwork.

    - [steps]: the parser loop without the end-of-file check; with max_blocks = None the
      loop never stops early, so [run = steps ; finish].
    - [same]: two parser states that differ at most in the warnings emitted so far.  The
      lenient parser never reads the warnings, so it maps [same] states to [same] states.
    - inversion lemmas for the regex leaves: what a successful topline / keyvalue /
      value_re / endline match says about its groups, and that every group consists of
      characters of the subject. *)
From Coq Require Import Lia.
From Verif Require Import Lib.Base Lib.PyStr Gen.PyChars Gen.ClChars
  Changelog.Model Changelog.Spec Changelog.CharFacts Changelog.LeafProofs Changelog.ParseProofs.

(** * States up to warnings *)

Definition same (a b : pst) : Prop :=
  p_state a = p_state b /\ p_old a = p_old b /\ p_blocks a = p_blocks b
  /\ p_initial a = p_initial b /\ p_cur a = p_cur b /\ p_changes a = p_changes b.

Lemma same_refl a : same a a.
Proof. repeat split. Qed.
Lemma same_sym a b : same a b -> same b a.
Proof. intros (H1 & H2 & H3 & H4 & H5 & H6). repeat split; congruence. Qed.
Lemma same_trans a b c : same a b -> same b c -> same a c.
Proof.
  intros (H1 & H2 & H3 & H4 & H5 & H6) (G1 & G2 & G3 & G4 & G5 & G6). repeat split; congruence.
Qed.

Lemma same_warn a w : same (with_warn a w) a.
Proof. repeat split. Qed.

Lemma same_cl a b : same a b -> cl_of a = cl_of b.
Proof. intros (H1 & H2 & H3 & H4 & H5 & H6). unfold cl_of. congruence. Qed.

Definition same_res (x y : result pst) : Prop :=
  match x, y with
  | Ok a, Ok b => same a b
  | Err e, Err f => e = f
  | _, _ => False
  end.

Definition same_ctl (x y : result ctl) : Prop :=
  match x, y with
  | Ok (Next a), Ok (Next b) => same a b
  | Ok (Stop a), Ok (Stop b) => same a b
  | Err e, Err f => e = f
  | _, _ => False
  end.

(** two states with the same visible part are the same record up to the warning list *)
Lemma same_eq a b : same a b -> a = with_warn b (p_warn a).
Proof.
  destruct a, b. unfold same. cbn. intros (-> & -> & -> & -> & -> & ->). reflexivity.
Qed.

Lemma kv_loop_same pieces : forall keys other a b,
  same a b ->
  same_res (kv_loop false pieces keys other a) (kv_loop false pieces keys other b).
Proof.
  induction pieces as [|piece rest IH]; intros keys other a b H; cbn [kv_loop].
  - destruct H as (H1 & H2 & H3 & H4 & H5 & H6). cbn. unfold same. cbn. rewrite H1, H2, H3, H4, H5, H6. repeat split.
  - assert (Hw : forall w w', same (with_warn a w) (with_warn b w')).
    { intros w w'. destruct H as (H1 & H2 & H3 & H4 & H5 & H6). unfold same. cbn. repeat split; assumption. }
    assert (Hc : forall w w' x, same (with_cur (with_warn a w) x) (with_cur (with_warn b w') x)).
    { intros w w' x. destruct H as (H1 & H2 & H3 & H4 & H5 & H6). unfold same. cbn. repeat split; assumption. }
    assert (Hc0 : forall x, same (with_cur a x) (with_cur b x)).
    { intros x. destruct H as (H1 & H2 & H3 & H4 & H5 & H6). unfold same. cbn. repeat split; assumption. }
    assert (Hcur : p_cur a = p_cur b) by (destruct H as (H1 & H2 & H3 & H4 & H5 & H6); exact H5).
    destruct (match_keyvalue (strip_by ws piece)) as [[key value]|].
    + destruct (existsb (str_eqb (key_lower key)) keys); cbn [warn bind];
        destruct (str_eqb (key_lower key) s_urgency).
      * destruct (match_value value) as [[u com]|]; cbn [warn bind].
        -- apply IH. cbn [with_warn p_cur]. rewrite Hcur. apply Hc.
        -- apply IH. cbn [with_warn p_warn]. apply (Hw _ _).
      * apply IH. apply Hw.
      * destruct (match_value value) as [[u com]|]; cbn [warn bind].
        -- apply IH. rewrite Hcur. apply Hc0.
        -- apply IH. apply Hw.
      * apply IH. exact H.
    + cbn [warn bind]. apply IH. apply Hw.
Qed.

Section Same.
Variable J : junk.
Variable allow : bool.
Variable maxb : option nat.

Lemma step_same a b l :
  same a b -> same_ctl (step J false allow maxb a l) (step J false allow maxb b l).
Proof.
  intros H. destruct a as [s o bl ini cur chg wa], b as [s' o' bl' ini' cur' chg' wb].
  unfold same in H. cbn in H. destruct H as (<- & <- & <- & <- & <- & <-).
  set (L := rstrip_lf l).
  assert (Hhead : same_ctl (step_heading J false maxb (mkPst s o bl ini cur chg wa) L)
                           (step_heading J false maxb (mkPst s o bl ini cur chg wb) L)).
  { unfold step_heading. cbn [p_state p_blocks].
    destruct (match_topline L) as [[[[g1 g2] g3] pairs]|].
    + destruct (match maxb with Some m => (m <=? length bl)%nat | None => false end).
      * cbn. repeat split.
      * unfold do_header.
        assert (HAB : same (with_cur (mkPst s o bl ini cur chg wa) (set_header cur g1 g2 (lstrip_by ws g3)))
                           (with_cur (mkPst s o bl ini cur chg wb) (set_header cur g1 g2 (lstrip_by ws g3)))).
        { unfold same. cbn. repeat split. }
        pose proof (kv_loop_same (split_on 44 pairs) [] [] _ _ HAB) as K.
        cbn [p_cur]. unfold same_res in K.
        destruct (kv_loop false (split_on 44 pairs) [] []
                    (with_cur (mkPst s o bl ini cur chg wa) (set_header cur g1 g2 (lstrip_by ws g3)))) as [x|e];
          destruct (kv_loop false (split_on 44 pairs) [] []
                    (with_cur (mkPst s o bl ini cur chg wb) (set_header cur g1 g2 (lstrip_by ws g3)))) as [y|f];
          try contradiction; cbn [bind same_ctl]; [|exact K].
        destruct K as (K1 & K2 & K3 & K4 & K5 & K6). unfold same. cbn. repeat split; assumption.
    + unfold keep_line, trail_last, warn. cbn [p_state p_blocks with_warn p_warn with_initial p_initial].
      destruct (match_blank L).
      { destruct s; cbn; try (destruct (upd_last (add_trailing L) bl); cbn); repeat split. }
      destruct ((j_emacs J L || j_vim J L) && negb (pstate_eqb s FirstHeading)).
      { destruct (upd_last (add_trailing L) bl); cbn; repeat split. }
      destruct (j_cvs J L || j_comments J L || j_more_comments J L).
      { destruct s; cbn; try (destruct (upd_last (add_trailing L) bl); cbn); repeat split. }
      destruct (old_format J L && negb (pstate_eqb s FirstHeading)).
      { destruct (upd_last (add_trailing L) bl); cbn; repeat split. }
      cbn [bind]. destruct s; cbn; try (destruct (upd_last (add_trailing L) bl); cbn); repeat split. }
  assert (Hchg : same_ctl (step_changes J false allow (mkPst s o bl ini cur chg wa) L)
                          (step_changes J false allow (mkPst s o bl ini cur chg wb) L)).
  { unfold step_changes. cbn [p_changes p_cur].
    destruct (match_change L); [cbn; repeat split|].
    destruct (match_endline L) as [[[[g1 g2] g3] g4]|].
    { destruct (str_eqb g3 [32%N; 32%N]); cbn; repeat split. }
    destruct (match_nodetails L); [destruct allow; cbn; repeat split|].
    destruct (match_blank L); [cbn; repeat split|].
    destruct (j_cvs J L || j_comments J L || j_more_comments J L); cbn; repeat split. }
  assert (Hsl : same_ctl (step_slurp (mkPst s o bl ini cur chg wa) L) (step_slurp (mkPst s o bl ini cur chg wb) L)).
  { unfold step_slurp, trail_last. cbn [p_old p_blocks p_changes].
    destruct o as [[| | | |]|]; try (cbn; repeat split).
    destruct (upd_last (add_trailing L) bl); cbn; repeat split. }
  unfold step. cbn [p_state]. fold L. destruct s; assumption.
Qed.

End Same.

(** * The loop without the end-of-file check *)

Section Steps.
Variable J : junk.
Variable allow : bool.

Fixpoint steps (st : pst) (ls : list str) : result pst :=
  match ls with
  | [] => Ok st
  | l :: ls' =>
      match step J false allow None st l with
      | Ok (Next st') => steps st' ls'
      | Ok (Stop st') => Ok st'
      | Err e => Err e
      end
  end.

Lemma step_never_stops st l st' : step J false allow None st l <> Ok (Stop st').
Proof.
  unfold step, step_heading, step_changes, step_slurp.
  repeat first
    [ progress cbn [warn bind]
    | match goal with
      | |- context [match ?x with _ => _ end] => destruct x
      | |- context [if ?x then _ else _] => destruct x
      end ]; try discriminate;
  match goal with |- bind ?r _ <> _ => destruct r; cbn [bind]; discriminate end.
Qed.

Lemma run_steps ls : forall st,
  run J false allow None st ls = bind (steps st ls) (finish false).
Proof.
  induction ls as [|l ls IH]; intros st; cbn [run steps]; [reflexivity|].
  destruct (step J false allow None st l) as [[st'|st']|e] eqn:E.
  - apply IH.
  - exfalso. exact (step_never_stops _ _ _ E).
  - reflexivity.
Qed.

Lemma steps_app a : forall st b,
  steps st (a ++ b) = bind (steps st a) (fun st' => steps st' b).
Proof.
  induction a as [|l a IH]; intros st b; cbn [app steps]; [reflexivity|].
  destruct (step J false allow None st l) as [[st'|st']|e] eqn:E.
  - apply IH.
  - exfalso. exact (step_never_stops _ _ _ E).
  - reflexivity.
Qed.

Lemma steps_same ls : forall a b, same a b -> same_res (steps a ls) (steps b ls).
Proof.
  induction ls as [|l ls IH]; intros a b H; cbn [steps]; [exact H|].
  pose proof (step_same J allow None a b l H) as S. unfold same_ctl in S.
  destruct (step J false allow None a l) as [[a'|a']|e]; destruct (step J false allow None b l) as [[b'|b']|f];
    try contradiction; try exact S.
  now apply IH.
Qed.

Lemma finish_same a b : same a b -> same_res (finish false a) (finish false b).
Proof.
  intros H. pose proof H as (H1 & H2 & H3 & H4 & H5 & H6). unfold finish. rewrite H1, H2.
  destruct (match p_state b with
            | NextHeadingOrEof => false
            | SlurpToEnd => match p_old b with Some NextHeadingOrEof => false | _ => true end
            | _ => true end); [|exact H].
  cbn [warn bind]. unfold push_block, same. cbn. rewrite H1, H2, H3, H4, H5, H6. repeat split.
Qed.

End Steps.

(** * Sub-texts: every group of a match consists of characters of the subject *)

Lemma forallb_span {A} (P p : A -> bool) s :
  forallb P s = true -> forallb P (fst (span p s)) = true /\ forallb P (snd (span p s)) = true.
Proof.
  induction s as [|c s IH]; [now split|]. cbn [forallb span]. intros H.
  apply andb_true_iff in H. destruct H as [Hc Hs]. destruct (IH Hs) as [I1 I2].
  destruct (p c).
  - destruct (span p s) as [a b]. cbn [fst snd] in *. cbn [forallb]. now rewrite Hc, I1.
  - cbn [fst snd forallb]. now rewrite Hc, Hs.
Qed.

Lemma forallb_dropwhile {A} (P p : A -> bool) s : forallb P s = true -> forallb P (dropwhile p s) = true.
Proof. rewrite dropwhile_span. intros H. now destruct (forallb_span P p s H). Qed.

Lemma forallb_rev {A} (P : A -> bool) s : forallb P (rev s) = forallb P s.
Proof.
  induction s as [|c s IH]; [reflexivity|]. cbn [rev forallb]. rewrite forallb_app, IH. cbn. now rewrite andb_true_r, andb_comm.
Qed.

Lemma forallb_rdropwhile {A} (P p : A -> bool) s : forallb P s = true -> forallb P (rdropwhile p s) = true.
Proof.
  intros H. unfold rdropwhile. rewrite forallb_rev. apply forallb_dropwhile. now rewrite forallb_rev.
Qed.

Lemma forallb_strip_by P p s : forallb P s = true -> forallb P (strip_by p s) = true.
Proof. intros H. unfold strip_by, rstrip_by, lstrip_by. now apply forallb_rdropwhile, forallb_dropwhile. Qed.

Lemma strip_prefix_spec pre : forall s r, strip_prefix pre s = Some r -> s = pre ++ r.
Proof.
  induction pre as [|a pre IH]; intros s r; cbn [strip_prefix].
  - now intros [= ->].
  - destruct s as [|b s]; [discriminate|]. destruct (a =? b)%N eqn:E; [|discriminate].
    apply N.eqb_eq in E. subst b. intros H. cbn [app]. f_equal. now apply IH.
Qed.

Lemma forallb_chop P v : forallb P v = true -> forallb P (chop_final_lf v) = true.
Proof.
  intros H. unfold chop_final_lf. destruct (rev v) as [|c r] eqn:E; [exact H|].
  destruct (c =? 10)%N; [|exact H].
  rewrite forallb_rev. rewrite <- (forallb_rev P v), E in H. cbn [forallb] in H.
  apply andb_true_iff in H. now destruct H.
Qed.

Lemma forallb_split_on P c s : forallb P s = true -> forallb (forallb P) (split_on c s) = true.
Proof.
  induction s as [|x s IH]; [reflexivity|]. cbn [forallb split_on]. intros H.
  apply andb_true_iff in H. destruct H as [Hx Hs]. specialize (IH Hs).
  destruct (x =? c)%N; [cbn [forallb]; exact IH|].
  destruct (split_on c s) as [|p ps]; cbn [forallb] in *; [now rewrite Hx|].
  apply andb_true_iff in IH. destruct IH as [I1 I2]. now rewrite Hx, I1, I2.
Qed.

Lemma split_on_no_sep c s : forallb (fun p => negb (mem_char c p)) (split_on c s) = true.
Proof.
  induction s as [|x s IH]; [reflexivity|]. cbn [split_on].
  destruct (x =? c)%N eqn:E; [cbn [forallb]; exact IH|].
  destruct (split_on c s) as [|p ps]; cbn [forallb] in *.
  - unfold mem_char. cbn [existsb]. rewrite N.eqb_sym, E. reflexivity.
  - apply andb_true_iff in IH. destruct IH as [I1 I2]. rewrite I2, andb_true_r.
    unfold mem_char in *. cbn [existsb]. rewrite N.eqb_sym, E. exact I1.
Qed.

(** * Inversion of the leaves *)

Lemma dropwhile_hd {A} (p : A -> bool) s c r : dropwhile p s = c :: r -> p c = false.
Proof. rewrite dropwhile_span. apply span_snd_head. Qed.

Lemma match_keyvalue_inv s k v :
  match_keyvalue s = Some (k, v) ->
  k <> [] /\ forallb key_char k = true
  /\ (exists c r, v = c :: r /\ ws c = false)
  /\ (exists cl, last_opt v = Some cl /\ ws cl = false)
  /\ mem_char 10 v = false
  /\ (forall P, forallb P s = true -> forallb P k = true /\ forallb P v = true).
Proof.
  unfold match_keyvalue. pose proof (span_all key_char s) as Hk. pose proof (span_app key_char s) as Happ.
  destruct (span key_char s) as [k0 r]. cbn [fst snd] in *.
  destruct k0 as [|k1 k']; [discriminate|].
  destruct (strip_prefix [61%N] r) as [r1|] eqn:Er; [|discriminate].
  apply strip_prefix_spec in Er.
  destruct (last_opt (chop_final_lf (dropwhile ws r1))) as [cl|] eqn:El; [|discriminate].
  destruct (negb (ws cl) && negb (mem_char 10 (chop_final_lf (dropwhile ws r1)))) eqn:E; [|discriminate].
  intros [= <- <-]. apply andb_true_iff in E. destruct E as [E1 E2].
  apply negb_true_iff in E1. apply negb_true_iff in E2.
  split; [discriminate|]. split; [exact Hk|].
  split.
  { (* the first character *)
    destruct (dropwhile ws r1) as [|c0 w] eqn:Ew; [discriminate|].
    pose proof (dropwhile_hd ws r1 c0 w Ew) as Hc0.
    unfold chop_final_lf in *. destruct (rev (c0 :: w)) as [|x xr] eqn:Erev; [exists c0, w; auto|].
    destruct (x =? 10)%N; [|exists c0, w; auto].
    (* c0 :: w = rev xr ++ [x]; the chopped text rev xr is non-empty *)
    assert (Hrev : c0 :: w = rev xr ++ [x]) by (rewrite <- (rev_involutive (c0 :: w)), Erev; reflexivity).
    destruct (rev xr) as [|y yr] eqn:Ey; [discriminate|].
    cbn [app] in Hrev. injection Hrev as -> _. exists y, yr. auto. }
  split; [exists cl; auto|]. split; [exact E2|].
  intros P HP. rewrite <- Happ, Er in HP. rewrite forallb_app in HP. apply andb_true_iff in HP.
  destruct HP as [HP1 HP2]. split; [exact HP1|]. cbn [app forallb] in HP2.
  apply andb_true_iff in HP2. destruct HP2 as [_ HP2]. now apply forallb_chop, forallb_dropwhile.
Qed.

Lemma last_opt_dropwhile_keep {A} (p : A -> bool) s cl :
  last_opt s = Some cl -> p cl = false -> dropwhile p s <> [] /\ last_opt (dropwhile p s) = Some cl.
Proof.
  intros Hl Hcl. destruct (last_opt_some _ _ Hl) as (a & ->).
  induction a as [|x a IH]; cbn [app dropwhile].
  - rewrite Hcl. split; [discriminate|reflexivity].
  - destruct (p x).
    + apply IH. apply last_opt_snoc.
    + split; [discriminate|]. apply (last_opt_snoc (x :: a)).
Qed.

Lemma match_value_inv s u com cl :
  match_value s = Some (u, com) -> last_opt s = Some cl -> ws cl = false -> mem_char 10 s = false ->
  u <> [] /\ forallb key_char u = true
  /\ (com = [] \/ exists c0 r, com = c0 :: r /\ ws c0 = true /\ last_opt com = Some cl /\ mem_char 10 com = false)
  /\ (forall P, forallb P s = true -> forallb P u = true /\ forallb P com = true).
Proof.
  unfold match_value. pose proof (span_all key_char s) as Hk. pose proof (span_app key_char s) as Happ.
  destruct (span key_char s) as [u0 r]. cbn [fst snd] in *.
  intros H Hl Hcl Hlf.
  destruct u0 as [|u1 u']; [destruct r; discriminate|].
  assert (HP : forall P, forallb P s = true -> forallb P (u1 :: u') = true /\ forallb P r = true).
  { intros P HP. rewrite <- Happ, forallb_app in HP. now apply andb_true_iff in HP. }
  destruct r as [|c r'].
  - injection H as <- <-. split; [discriminate|]. split; [exact Hk|]. split; [now left|].
    intros P HP0. destruct (HP P HP0). now split.
  - destruct (ws c) eqn:Ec; [|discriminate].
    destruct (dotstar_eol (dropwhile ws (c :: r'))); [|discriminate].
    assert (Hlr : last_opt (c :: r') = Some cl).
    { rewrite <- Happ in Hl. rewrite last_opt_app_r in Hl by discriminate. exact Hl. }
    assert (Hlfr : mem_char 10 (c :: r') = false).
    { rewrite <- Happ, mem_char_app in Hlf. now apply orb_false_iff in Hlf. }
    destruct (last_opt_dropwhile_keep ws (c :: r') cl Hlr Hcl) as (Hne & _).
    assert (Hcl10 : (cl =? 10)%N = false).
    { destruct (cl =? 10)%N eqn:E; [|reflexivity]. apply N.eqb_eq in E. subst cl. discriminate. }
    destruct (dropwhile ws (c :: r')) eqn:Ed; [congruence|].
    rewrite (chop_final_lf_id _ cl Hlr Hcl10) in H. injection H as <- <-.
    split; [discriminate|]. split; [exact Hk|].
    split; [right; exists c, r'; auto|].
    intros P HP0. exact (HP P HP0).
Qed.

Lemma split_last_spec c s : forall p q, split_last c s = Some (p, q) -> s = p ++ c :: q.
Proof.
  induction s as [|x s IH]; intros p q; cbn [split_last]; [discriminate|].
  destruct (split_last c s) as [[p' q']|].
  - intros [= <- <-]. cbn [app]. f_equal. now apply IH.
  - destruct (x =? c)%N eqn:E; [|discriminate]. apply N.eqb_eq in E. subst x. now intros [= <- <-].
Qed.

(** a matched trailer line is exactly " -- " g1 " <" g2 ">" g3 g4, and g3 is one or two spaces *)
Lemma match_endline_inv l g1 g2 g3 g4 :
  match_endline l = Some (g1, g2, g3, g4) ->
  l = [32; 45; 45; 32]%N ++ g1 ++ [32; 60]%N ++ g2 ++ [62%N] ++ g3 ++ g4
  /\ (g3 = [32; 32]%N \/ g3 = [32]%N).
Proof.
  unfold match_endline.
  destruct (strip_prefix [32; 45; 45; 32]%N l) as [x|] eqn:E1; [|discriminate].
  apply strip_prefix_spec in E1.
  destruct (split_last 62 x) as [[pre post]|] eqn:E2; [|discriminate].
  apply split_last_spec in E2.
  destruct (mem_char 10 pre); [discriminate|].
  destruct (split_last2 32 60 pre) as [[a b]|] eqn:E3; [|discriminate].
  apply split_last2_spec in E3.
  destruct (strip_prefix [32; 32]%N post) as [d|] eqn:E4.
  - apply strip_prefix_spec in E4. destruct (date_match d); [|discriminate].
    intros [= <- <- <- <-]. split; [|now left].
    rewrite E1, E2, E3, E4. repeat (rewrite <- app_assoc; cbn [app]). reflexivity.
  - destruct (strip_prefix [32%N] post) as [d|] eqn:E5; [|discriminate].
    apply strip_prefix_spec in E5. destruct (date_match d); [|discriminate].
    intros [= <- <- <- <-]. split; [|now right].
    rewrite E1, E2, E3, E5. repeat (rewrite <- app_assoc; cbn [app]). reflexivity.
Qed.

Lemma match_topline_inv l g1 g2 g3 rest :
  match_topline l = Some (g1, g2, g3, rest) ->
  (exists c n, g1 = c :: n /\ wchar c = true /\ forallb name_char n = true)
  /\ g2 <> [] /\ forallb ver_char g2 = true
  /\ forallb (fun x => ws x || name_char x) g3 = true
  /\ (exists g0 g', g3 = g0 :: g' /\ ws g0 = true)
  /\ (exists gl, last_opt g3 = Some gl /\ name_char gl = true)
  /\ l = g1 ++ [32; 40]%N ++ g2 ++ [41%N] ++ g3 ++ [59%N] ++ rest.
Proof.
  unfold match_topline. destruct l as [|c r]; [discriminate|].
  destruct (wchar c) eqn:Ec; [|discriminate].
  pose proof (span_all name_char r) as Hn. pose proof (span_app name_char r) as Hna.
  destruct (span name_char r) as [n r1]. cbn [fst snd] in *.
  destruct (strip_prefix [32; 40]%N r1) as [r2|] eqn:E1; [|discriminate]. apply strip_prefix_spec in E1.
  pose proof (span_all ver_char r2) as Hv. pose proof (span_app ver_char r2) as Hva.
  destruct (span ver_char r2) as [v r3]. cbn [fst snd] in *.
  destruct v as [|v0 v']; [discriminate|].
  destruct (strip_prefix [41%N] r3) as [r4|] eqn:E2; [|discriminate]. apply strip_prefix_spec in E2.
  pose proof (span_all (fun x => ws x || name_char x) r4) as Hg.
  pose proof (span_app (fun x => ws x || name_char x) r4) as Hga.
  destruct (span (fun x => ws x || name_char x) r4) as [g r5]. cbn [fst snd] in *.
  destruct g as [|g0 g']; [discriminate|].
  destruct (last_opt (g0 :: g')) as [gl|] eqn:El; [|discriminate].
  destruct (strip_prefix [59%N] r5) as [rest0|] eqn:E3; [|discriminate]. apply strip_prefix_spec in E3.
  destruct (ws g0 && name_char gl) eqn:E; [|discriminate].
  apply andb_true_iff in E. destruct E as [Eg0 Egl].
  intros [= <- <- <- <-].
  split; [exists c, n; auto|]. split; [discriminate|]. split; [exact Hv|]. split; [exact Hg|].
  split; [exists g0, g'; auto|]. split; [exists gl; auto|].
  rewrite <- Hna, E1, <- Hva, E2, <- Hga, E3. cbn [app]. repeat (rewrite <- app_assoc; cbn [app]). reflexivity.
Qed.
