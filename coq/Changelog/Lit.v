(** Compact case-file literals for the changelog checks (C04, C15).

    Elaborating a Coq [string] literal costs about 80 microseconds per character
    (measured, Coq 8.16.1), which made the changelog case files -- whole documents,
    repeated in the input, in str() and in the block attributes -- far too slow.
    Here a text is written as a list of primitive 63-bit integers:

      the text is encoded in (generalised) UTF-8 -- code points < 0x110000, lone
      surrogates included, 1 to 4 bytes each -- the bytes are cut into chunks of at
      most seven, and a chunk b0 b1 .. b(k-1) is the integer
          b0 + b1*2^8 + ... + b(k-1)*2^(8(k-1)) + 2^(8k)
      (the top set bit is an end marker, so no length is needed).

    The encoder is harness/props/clcommon.py [cq_lit]; [declit] is its inverse.
    [declit] is compared with Lib/Dec.v [dec] on every run ([CLit] cases of
    Changelog/Check.v).  Used only by the Check module: no theorem depends on it. *)
From Coq Require Import Uint63.
From Verif Require Import Lib.Base.

Definition lit := list int.

Definition bit_N (i k : int) (w : N) : N :=
  if Uint63.eqb (Uint63.land (Uint63.lsr i k) 1%uint63) 0%uint63 then 0%N else w.

(** the low byte of [i] as an [N] *)
Definition byte_N (i : int) : N :=
  (bit_N i 0%uint63 1 + bit_N i 1%uint63 2 + bit_N i 2%uint63 4 + bit_N i 3%uint63 8
   + bit_N i 4%uint63 16 + bit_N i 5%uint63 32 + bit_N i 6%uint63 64 + bit_N i 7%uint63 128)%N.

Fixpoint word_bytes (fuel : nat) (i : int) : list N :=
  match fuel with
  | O => []
  | S f => if Uint63.leb i 1%uint63 then [] else byte_N i :: word_bytes f (Uint63.lsr i 8%uint63)
  end.

Definition lit_bytes (l : lit) : list N := flat_map (word_bytes 8) l.

(** generalised UTF-8 decoding; a truncated sequence ends the text *)
Fixpoint utf8_dec (bs : list N) : str :=
  match bs with
  | [] => []
  | b :: r =>
      if (b <? 128)%N then b :: utf8_dec r
      else if (b <? 224)%N then
        match r with
        | c :: r' => ((b - 192) * 64 + (c - 128))%N :: utf8_dec r'
        | _ => []
        end
      else if (b <? 240)%N then
        match r with
        | c :: d :: r' => ((b - 224) * 4096 + (c - 128) * 64 + (d - 128))%N :: utf8_dec r'
        | _ => []
        end
      else
        match r with
        | c :: d :: e :: r' =>
            ((b - 240) * 262144 + (c - 128) * 4096 + (d - 128) * 64 + (e - 128))%N :: utf8_dec r'
        | _ => []
        end
  end.

Definition declit (l : lit) : str := utf8_dec (lit_bytes l).
