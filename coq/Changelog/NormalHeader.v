(** C15, normal form -- the heading line.

    [hdr_ok b]: what is true of the header fields of a block that the parser has just read
    from a heading line (every field is a sub-text of that line; package, version,
    distributions, urgency lie in their regex classes; the comment and the extra values
    have non-blank ends and contain neither ',' nor a line break; dictionary keys are
    distinct and none lower-cases to "urgency").

    - [kv_loop_ok] / [do_header_ok]: the parser establishes [hdr_ok];
    - [header_replay]: under [hdr_ok b], the parser reads the FORMATTED heading line
      [header_line b] back into exactly the same fields (possibly with other warnings). *)
From Coq Require Import Lia.
From Verif Require Import Lib.Base Lib.PyStr Gen.PyChars Gen.ClChars
  Changelog.Model Changelog.Spec Changelog.CharFacts Changelog.LeafProofs Changelog.ParseProofs
  Changelog.NormalBase.

(** * Plain characters *)

Definition notcrlf (c : N) : bool := negb (is_crlf c).
(** neither a line break nor a comma *)
Definition plain (c : N) : bool := negb (is_crlf c) && negb (c =? 44)%N.

Lemma one_line_notcrlf s : one_line s = forallb notcrlf s.
Proof.
  unfold one_line, notcrlf. induction s as [|c s IH]; [reflexivity|]. cbn [existsb forallb].
  rewrite negb_orb. now rewrite IH.
Qed.

Lemma plain_notcrlf s : forallb plain s = true -> forallb notcrlf s = true.
Proof. apply forallb_impl. intros c H. unfold plain in H. apply andb_true_iff in H. now destruct H. Qed.

Lemma plain_no_lf s : forallb plain s = true -> mem_char 10 s = false.
Proof. intros H. apply (mem_char_forall 10 s plain H). reflexivity. Qed.

Lemma plain_no_comma s : forallb plain s = true -> mem_char 44 s = false.
Proof. intros H. apply (mem_char_forall 44 s plain H). reflexivity. Qed.

Lemma notcrlf_no_lf s : forallb notcrlf s = true -> mem_char 10 s = false.
Proof. intros H. apply (mem_char_forall 10 s notcrlf H). reflexivity. Qed.

Lemma key_char_plain c : key_char c = true -> plain c = true.
Proof.
  unfold key_char. intros H. apply existsb_exists in H. destruct H as (x & Hin & Hx).
  apply N.eqb_eq in Hx. subst x.
  assert (G : forallb plain cl_key_chars = true) by (vm_compute; reflexivity).
  rewrite forallb_forall in G. now apply G.
Qed.

Lemma name_char_notcrlf c : name_char c = true -> notcrlf c = true.
Proof.
  unfold name_char. intros H. apply existsb_exists in H. destruct H as (x & Hin & Hx).
  apply N.eqb_eq in Hx. subst x.
  assert (G : forallb notcrlf cl_name_chars = true) by (vm_compute; reflexivity).
  rewrite forallb_forall in G. now apply G.
Qed.

Lemma plain_of_pieces s : forallb notcrlf s = true -> forallb (forallb plain) (split_on 44 s) = true.
Proof.
  intros H. pose proof (forallb_split_on notcrlf 44 s H) as H1. pose proof (split_on_no_sep 44 s) as H2.
  induction (split_on 44 s) as [|p ps IH]; [reflexivity|]. cbn [forallb] in *.
  apply andb_true_iff in H1. destruct H1 as [H1 H1']. apply andb_true_iff in H2. destruct H2 as [H2 H2'].
  rewrite (IH H1' H2'), andb_true_r. apply negb_true_iff in H2. unfold mem_char in H2.
  clear - H1 H2. induction p as [|c p IH]; [reflexivity|]. cbn [forallb existsb] in *.
  apply andb_true_iff in H1. destruct H1 as [Hc Hp]. apply orb_false_iff in H2. destruct H2 as [G1 G2].
  rewrite (IH Hp G2), andb_true_r. unfold plain. unfold notcrlf in Hc. rewrite Hc. cbn. now rewrite N.eqb_sym, G1.
Qed.

(** * Conditions on the fields *)

Definition val_ok (v : str) : Prop :=
  (exists c r, v = c :: r /\ ws c = false) /\ (exists cl, last_opt v = Some cl /\ ws cl = false)
  /\ forallb plain v = true.

Definition pair_ok (kv : str * str) : Prop :=
  fst kv <> [] /\ forallb key_char (fst kv) = true /\ str_eqb (key_lower (fst kv)) s_urgency = false
  /\ val_ok (snd kv).

Definition pairs_ok (ps : list (str * str)) : Prop :=
  Forall pair_ok ps /\ NoDup (map fst ps).

Definition com_ok (com : str) : Prop :=
  (com = [] \/ exists c0 r cl, com = c0 :: r /\ ws c0 = true /\ last_opt com = Some cl /\ ws cl = false
                               /\ mem_char 10 com = false)
  /\ forallb plain com = true.

Definition urg_ok (u : str) : Prop := u <> [] /\ forallb key_char u = true.

Definition dist_ok (d : str) : Prop :=
  forallb (fun x => ws x || name_char x) d = true
  /\ (exists c r, d = c :: r /\ ws c = false)
  /\ (exists gl, last_opt d = Some gl /\ name_char gl = true)
  /\ forallb notcrlf d = true.

Record hdr_ok (b : block) : Prop := {
  h_pkg : exists c n, b_package b = Some (c :: n) /\ wchar c = true /\ forallb name_char n = true
                      /\ notcrlf c = true;
  h_ver : exists v, b_version b = Some v /\ v <> [] /\ forallb ver_char v = true /\ forallb notcrlf v = true;
  h_dist : exists d, b_dists b = Some d /\ dist_ok d;
  h_urg : exists u, b_urgency b = Some u /\ urg_ok u;
  h_com : com_ok (b_comment b);
  h_pairs : pairs_ok (b_pairs b);
}.

(** * The formatted heading line *)

Definition ostr (o : option str) : str := match o with Some s => s | None => [] end.

Definition header_line (b : block) : str :=
  ostr (b_package b) ++ [32; 40]%N ++ ostr (b_version b) ++ [41; 32]%N ++ ostr (b_dists b) ++ [59; 32]%N
  ++ s_urgency_eq ++ ostr (b_urgency b) ++ b_comment b ++ flat_map render_pair (b_pairs b).

Lemma forallb_flat_pairs (P : N -> bool) ps :
  P 44%N = true -> P 32%N = true -> P 61%N = true ->
  Forall (fun kv => forallb P (fst kv) = true /\ forallb P (snd kv) = true) ps ->
  forallb P (flat_map render_pair ps) = true.
Proof.
  intros H44 H32 H61. induction 1 as [|[k v] ps (Hk & Hv) _ IH]; [reflexivity|].
  cbn [flat_map]. unfold render_pair at 1. cbn [fst snd] in *.
  rewrite !forallb_app. cbn [forallb]. now rewrite H44, H32, H61, Hk, Hv, IH.
Qed.

Lemma header_line_one_line b : hdr_ok b -> one_line (header_line b) = true.
Proof.
  intros [(c & n & Hp & _ & Hn & Hc) (v & Hv & _ & _ & Hvn) (d & Hd & _ & _ & _ & Hdn)
          (u & Hu & _ & Huk) (_ & Hcom) (Hps & _)].
  rewrite one_line_notcrlf. unfold header_line. rewrite Hp, Hv, Hd, Hu. cbn [ostr].
  rewrite !forallb_app. cbn [forallb].
  rewrite Hc, (forallb_impl _ _ _ name_char_notcrlf Hn), Hvn, Hdn.
  rewrite (plain_notcrlf _ (forallb_impl _ _ _ key_char_plain Huk)), (plain_notcrlf _ Hcom).
  rewrite forallb_flat_pairs; try reflexivity.
  eapply Forall_impl; [|exact Hps]. intros [k w] (_ & Hk & _ & (_ & _ & Hw)). cbn [fst snd] in *.
  split; [exact (plain_notcrlf _ (forallb_impl _ _ _ key_char_plain Hk))|exact (plain_notcrlf _ Hw)].
Qed.

(** * Dictionaries *)

Lemma NoDup_snoc {A} (l : list A) x : NoDup l -> ~ In x l -> NoDup (l ++ [x]).
Proof.
  induction 1 as [|y l Hy Hl IH]; intros Hx; cbn [app].
  - constructor; [intros []|constructor].
  - constructor.
    + rewrite in_app_iff. intros [H|[H|[]]]; [now apply Hy|]. subst. apply Hx. now left.
    + apply IH. intros H. apply Hx. now right.
Qed.

Lemma dict_set_keys k v d :
  map fst (dict_set k v d) = if existsb (fun kv => str_eqb (fst kv) k) d then map fst d else map fst d ++ [k].
Proof.
  induction d as [|[k' v'] d IH]; [reflexivity|]. cbn [dict_set existsb fst].
  destruct (str_eqb k' k) eqn:E; [reflexivity|]. cbn [orb map fst]. rewrite IH.
  destruct (existsb (fun kv => str_eqb (fst kv) k) d); reflexivity.
Qed.

Lemma dict_set_Forall (P : str * str -> Prop) k v d :
  P (k, v) -> (forall k', str_eqb k' k = true -> P (k', v)) -> Forall P d -> Forall P (dict_set k v d).
Proof.
  intros Hkv Hrep. induction 1 as [|[k' v'] d Hx Hd IH]; cbn [dict_set]; [now constructor|].
  destruct (str_eqb k' k) eqn:E.
  - constructor; [now apply Hrep|assumption].
  - constructor; assumption.
Qed.

Lemma pairs_ok_dict_set k v d : pair_ok (k, v) -> pairs_ok d -> pairs_ok (dict_set k v d).
Proof.
  intros Hkv [Hall Hnd]. split.
  - apply dict_set_Forall; auto. intros k' E. apply str_eqb_eq in E. now subst k'.
  - rewrite dict_set_keys. destruct (existsb (fun kv => str_eqb (fst kv) k) d) eqn:E; [exact Hnd|].
    apply NoDup_snoc; [exact Hnd|].
    intros Hin. apply in_map_iff in Hin. destruct Hin as ([k' v'] & Hk' & Hin). cbn [fst] in Hk'. subst k'.
    assert (existsb (fun kv => str_eqb (fst kv) k) d = true).
    { apply existsb_exists. exists (k, v'). split; [exact Hin|apply str_eqb_refl]. }
    congruence.
Qed.

(** * The parser establishes [hdr_ok] *)

Definition kvcur_ok (b : block) : Prop :=
  (exists u, b_urgency b = Some u /\ urg_ok u) /\ com_ok (b_comment b).

(** everything but urgency, comment and pairs is untouched *)
Definition keep_hdr (b b' : block) : Prop :=
  b_package b' = b_package b /\ b_version b' = b_version b /\ b_dists b' = b_dists b
  /\ b_changes b' = b_changes b /\ b_author b' = b_author b /\ b_date b' = b_date b
  /\ b_trailing b' = b_trailing b /\ b_no_trailer b' = b_no_trailer b /\ b_sep b' = b_sep b.

Lemma keep_hdr_refl b : keep_hdr b b.
Proof. repeat split. Qed.
Lemma keep_hdr_trans a b c : keep_hdr a b -> keep_hdr b c -> keep_hdr a c.
Proof.
  intros (A1 & A2 & A3 & A4 & A5 & A6 & A7 & A8 & A9) (B1 & B2 & B3 & B4 & B5 & B6 & B7 & B8 & B9).
  repeat split; congruence.
Qed.

(** everything but the current block and the warnings is untouched *)
Definition same5 (st st' : pst) : Prop :=
  p_state st' = p_state st /\ p_old st' = p_old st /\ p_blocks st' = p_blocks st
  /\ p_initial st' = p_initial st /\ p_changes st' = p_changes st.

Lemma same5_refl st : same5 st st.
Proof. repeat split. Qed.
Lemma same5_trans a b c : same5 a b -> same5 b c -> same5 a c.
Proof. intros (A1 & A2 & A3 & A4 & A5) (B1 & B2 & B3 & B4 & B5). repeat split; congruence. Qed.

Lemma plain_mem10 s : forallb plain s = true -> mem_char 10 s = false.
Proof. exact (plain_no_lf s). Qed.

Lemma kv_loop_ok pieces : forall keys other st st',
  kv_loop false pieces keys other st = Ok st' ->
  forallb (forallb plain) pieces = true ->
  kvcur_ok (p_cur st) -> pairs_ok other ->
  kvcur_ok (p_cur st') /\ pairs_ok (b_pairs (p_cur st')) /\ keep_hdr (p_cur st) (p_cur st') /\ same5 st st'.
Proof.
  induction pieces as [|piece rest IH]; intros keys other st st' H Hpl Hcur Hoth; cbn [kv_loop] in H.
  - injection H as <-. split; [exact Hcur|]. split; [exact Hoth|]. split; repeat split.
  - cbn [forallb] in Hpl. apply andb_true_iff in Hpl. destruct Hpl as [Hp Hrest].
    pose proof (forallb_strip_by plain ws piece Hp) as Hsp.
    destruct (match_keyvalue (strip_by ws piece)) as [[key value]|] eqn:Ekv.
    + destruct (match_keyvalue_inv _ _ _ Ekv) as (Hkne & Hkc & Hv0 & (cl & Hvl & Hcl) & Hvlf & HP).
      destruct (HP plain Hsp) as (_ & Hvp).
      assert (Hst1 : exists st1,
                (if existsb (str_eqb (key_lower key)) keys then warn false WRepeatedKey st else Ok st) = Ok st1
                /\ p_cur st1 = p_cur st /\ same5 st st1).
      { destruct (existsb (str_eqb (key_lower key)) keys); eexists; (split; [reflexivity|]); cbn; repeat split. }
      destruct Hst1 as (st1 & E1 & Hc1 & Hs1). rewrite E1 in H. cbn [bind] in H.
      destruct (str_eqb (key_lower key) s_urgency) eqn:Eu.
      * destruct (match_value value) as [[u com]|] eqn:Emv.
        -- destruct (match_value_inv _ _ _ cl Emv Hvl Hcl Hvlf) as (Hune & Huc & Hcom & HPv).
           destruct (HPv plain Hvp) as (_ & Hcp).
           destruct (IH _ _ _ _ H Hrest) as (I1 & I2 & I3 & I4).
           { cbn. split; [exists u; split; [reflexivity|split; assumption]|].
             split; [|exact Hcp]. destruct Hcom as [->|(c0 & r & Hc0 & Hws & Hl & Hlf)]; [now left|].
             right. exists c0, r, cl. auto. }
           { exact Hoth. }
           split; [exact I1|]. split; [exact I2|]. split.
           ++ eapply keep_hdr_trans; [|exact I3]. cbn. rewrite Hc1. repeat split.
           ++ eapply same5_trans; [exact Hs1|]. eapply same5_trans; [|exact I4]. repeat split.
        -- cbn [warn bind] in H.
           destruct (IH _ _ _ _ H Hrest) as (I1 & I2 & I3 & I4).
           { cbn. now rewrite Hc1. }
           { exact Hoth. }
           split; [exact I1|]. split; [exact I2|]. split.
           ++ cbn in I3. now rewrite Hc1 in I3.
           ++ eapply same5_trans; [exact Hs1|]. eapply same5_trans; [|exact I4]. repeat split.
      * destruct (IH _ _ _ _ H Hrest) as (I1 & I2 & I3 & I4).
        { now rewrite Hc1. }
        { apply pairs_ok_dict_set; [|exact Hoth].
          split; [exact Hkne|]. split; [exact Hkc|]. split; [exact Eu|].
          split; [exact Hv0|]. split; [exists cl; auto|exact Hvp]. }
        split; [exact I1|]. split; [exact I2|]. split.
        -- now rewrite Hc1 in I3.
        -- eapply same5_trans; [exact Hs1|exact I4].
    + cbn [warn bind] in H.
      destruct (IH _ _ _ _ H Hrest) as (I1 & I2 & I3 & I4); [exact Hcur|exact Hoth|].
      split; [exact I1|]. split; [exact I2|]. split; [exact I3|].
      eapply same5_trans; [|exact I4]. repeat split.
Qed.

Lemma forallb_app_l {A} (P : A -> bool) a b : forallb P (a ++ b) = true -> forallb P a = true.
Proof. rewrite forallb_app. intros H. apply andb_true_iff in H. now destruct H. Qed.
Lemma forallb_app_r {A} (P : A -> bool) a b : forallb P (a ++ b) = true -> forallb P b = true.
Proof. rewrite forallb_app. intros H. apply andb_true_iff in H. now destruct H. Qed.

(** the other fields of a block whose heading has just been read *)
Definition fresh_rest (b : block) : Prop :=
  b_changes b = [] /\ b_author b = None /\ b_date b = None /\ b_trailing b = []
  /\ b_no_trailer b = false /\ b_sep b = [32; 32]%N.

Lemma s_unknown_key : forallb key_char s_unknown = true.
Proof. vm_compute. reflexivity. Qed.

Lemma do_header_ok st g1 g2 g3 pairs l st' :
  p_cur st = empty_block -> match_topline l = Some (g1, g2, g3, pairs) -> forallb notcrlf l = true ->
  do_header false st g1 g2 g3 pairs = Ok st' ->
  hdr_ok (p_cur st') /\ fresh_rest (p_cur st') /\ p_state st' = StartOfChangeData
  /\ p_old st' = p_old st /\ p_blocks st' = p_blocks st /\ p_initial st' = p_initial st
  /\ p_changes st' = p_changes st.
Proof.
  intros Hcur Htop Hl H. unfold do_header in H.
  destruct (match_topline_inv _ _ _ _ _ Htop) as ((c & n & Hg1 & Hc & Hn) & Hg2ne & Hg2 & Hg3 & (g0 & g' & Hg30 & Hg0)
                                                   & (gl & Hgl & Hgln) & Hleq).
  (* sub-texts of the line *)
  rewrite Hleq in Hl.
  pose proof (forallb_app_l _ _ _ Hl) as L1. pose proof (forallb_app_r _ _ _ Hl) as Lr1.
  pose proof (forallb_app_r _ _ _ Lr1) as Lr2.
  pose proof (forallb_app_l _ _ _ Lr2) as L2. pose proof (forallb_app_r _ _ _ Lr2) as Lr3.
  pose proof (forallb_app_r _ _ _ Lr3) as Lr4.
  pose proof (forallb_app_l _ _ _ Lr4) as L3. pose proof (forallb_app_r _ _ _ Lr4) as Lr5.
  pose proof (forallb_app_r _ _ _ Lr5) as L4.
  destruct (kv_loop false (split_on 44 pairs) [] [] (with_cur st (set_header (p_cur st) g1 g2 (lstrip_by ws g3))))
    as [st2|e] eqn:Ekv; [|discriminate].
  cbn [bind] in H. injection H as <-.
  destruct (kv_loop_ok _ _ _ _ _ Ekv (plain_of_pieces _ L4)) as (I1 & I2 & I3 & I4).
  { cbn. rewrite Hcur. cbn. split.
    - exists s_unknown. split; [reflexivity|]. split; [discriminate|exact s_unknown_key].
    - split; [now left|reflexivity]. }
  { split; constructor. }
  destruct I3 as (K1 & K2 & K3 & K4 & K5 & K6 & K7 & K8 & K9). destruct I4 as (S1 & S2 & S3 & S4 & S5).
  cbn in K1, K2, K3, K4, K5, K6, K7, K8, K9, S1, S2, S3, S4, S5. rewrite Hcur in *. cbn in *.
  split.
  - constructor.
    + exists c, n. subst g1. cbn [forallb] in L1. apply andb_true_iff in L1. destruct L1 as [Lc _]. auto.
    + exists g2. auto.
    + exists (lstrip_by ws g3). split; [exact K3|].
      unfold lstrip_by.
      assert (Hglws : ws gl = false) by (now apply name_char_not_ws).
      destruct (last_opt_dropwhile_keep ws g3 gl Hgl Hglws) as (Hne & Hlast).
      split; [now apply forallb_dropwhile|]. split.
      * destruct (dropwhile ws g3) as [|d0 dr] eqn:Ed; [congruence|].
        exists d0, dr. split; [reflexivity|exact (dropwhile_hd ws g3 d0 dr Ed)].
      * split; [exists gl; auto|now apply forallb_dropwhile].
    + exact (proj1 I1).
    + exact (proj2 I1).
    + exact I2.
  - repeat split; auto.
Qed.

(** * Reading the formatted heading line back *)

Lemma kv_pairs_replay ps : forall keys other st,
  pairs_ok (other ++ ps) ->
  exists st', kv_loop false (map kv_piece ps) keys other st = Ok st'
              /\ same st' (with_cur st (set_pairs (p_cur st) (other ++ ps))).
Proof.
  induction ps as [|[k v] ps IH]; intros keys other st Hok.
  - cbn [map kv_loop]. rewrite app_nil_r. eexists. split; [reflexivity|apply same_refl].
  - destruct Hok as [Hall Hnd].
    pose proof (Forall_elt _ _ _ Hall) as (Hkne & Hkc & Hnu & (c0 & r0 & Hv0 & Hc0) & (cl & Hvl & Hcl) & Hvp).
    cbn [fst snd] in *.
    destruct k as [|kc kr]; [congruence|].
    assert (Hkc0 : ws kc = false).
    { cbn [forallb] in Hkc. apply andb_true_iff in Hkc. now apply key_char_not_ws. }
    assert (Hstrip : strip_by ws (kv_piece (kc :: kr, v)) = (kc :: kr) ++ 61%N :: v).
    { unfold kv_piece. cbn [fst snd].
      eapply (strip_sp_body ((kc :: kr) ++ 61%N :: v) kc (kr ++ 61%N :: v) cl); [reflexivity|exact Hkc0| |exact Hcl].
      rewrite last_opt_app_r by discriminate. rewrite last_opt_cons; [exact Hvl|]. rewrite Hv0. discriminate. }
    assert (Hst1 : exists st1,
              (if existsb (str_eqb (key_lower (kc :: kr))) keys then warn false WRepeatedKey st else Ok st) = Ok st1
              /\ same st1 st).
    { destruct (existsb (str_eqb (key_lower (kc :: kr))) keys); eexists; (split; [reflexivity|]).
      - apply same_warn.
      - apply same_refl. }
    destruct Hst1 as (st1 & Est1 & Hs1).
    assert (Hnew : existsb (fun kv => str_eqb (fst kv) (kc :: kr)) other = false).
    { destruct (existsb (fun kv => str_eqb (fst kv) (kc :: kr)) other) eqn:E; [|reflexivity].
      apply existsb_exists in E. destruct E as ([k' v'] & Hin & Hk'). cbn [fst] in Hk'.
      apply str_eqb_eq in Hk'. subst k'.
      rewrite map_app in Hnd. cbn [map fst] in Hnd. apply NoDup_remove_2 in Hnd.
      exfalso. apply Hnd. rewrite in_app_iff. left. apply in_map_iff. exists (kc :: kr, v'). auto. }
    assert (Estep : kv_loop false (map kv_piece ((kc :: kr, v) :: ps)) keys other st
                    = kv_loop false (map kv_piece ps) (key_lower (kc :: kr) :: keys) (other ++ [(kc :: kr, v)]) st1).
    { cbn [map kv_loop]. rewrite Hstrip.
      rewrite (match_keyvalue_kv (kc :: kr) v c0 r0 cl Hkne Hkc Hv0 Hc0 Hvl Hcl (plain_no_lf _ Hvp)).
      rewrite Est1. cbn [bind]. rewrite Hnu. now rewrite (dict_set_fresh _ v other Hnew). }
    destruct (IH (key_lower (kc :: kr) :: keys) (other ++ [(kc :: kr, v)]) st1) as (st' & Hst' & Hsame).
    { rewrite <- app_assoc. split; assumption. }
    exists st'. split; [exact (eq_trans Estep Hst')|].
    eapply same_trans; [exact Hsame|]. rewrite <- app_assoc. cbn [app].
    destruct Hs1 as (H1 & H2 & H3 & H4 & H5 & H6). unfold same. cbn. rewrite H5. repeat split; assumption.
Qed.

Lemma key_no_comma u : forallb key_char u = true -> mem_char 44 u = false.
Proof. intros H. apply plain_no_comma. exact (forallb_impl _ _ _ key_char_plain H). Qed.

Lemma pairs_ok_no_comma ps :
  pairs_ok ps ->
  forallb (fun kv => negb (mem_char 44 (fst kv)) && negb (mem_char 44 (snd kv))) ps = true.
Proof.
  intros [Hall _]. induction Hall as [|[k v] ps (_ & Hk & _ & (_ & _ & Hv)) _ IH]; [reflexivity|].
  cbn [forallb fst snd] in *. now rewrite (key_no_comma k Hk), (plain_no_comma v Hv), IH.
Qed.

Lemma hdr_assoc (u com F : str) :
  32%N :: s_urgency_eq ++ u ++ com ++ F = (32%N :: s_urgency_eq ++ u ++ com) ++ F.
Proof. cbn [app]. now rewrite <- !app_assoc. Qed.

Lemma kv_header_replay u com ps st :
  urg_ok u -> com_ok com -> pairs_ok ps ->
  exists st', kv_loop false (split_on 44 (32%N :: s_urgency_eq ++ u ++ com ++ flat_map render_pair ps)) [] [] st = Ok st'
              /\ same st' (with_cur st (set_pairs (set_urgency (p_cur st) u com) ps)).
Proof.
  intros (Hune & Huc) (Hcs & Hcp) Hps.
  destruct u as [|uc ur]; [congruence|].
  assert (Huc0 : ws uc = false).
  { cbn [forallb] in Huc. apply andb_true_iff in Huc. now apply key_char_not_ws. }
  pose proof (hdr_assoc (uc :: ur) com (flat_map render_pair ps)) as E.
  assert (Hsplit : split_on 44 (32%N :: s_urgency_eq ++ (uc :: ur) ++ com ++ flat_map render_pair ps)
                   = (32%N :: s_urgency_eq ++ (uc :: ur) ++ com) :: map kv_piece ps).
  { rewrite E. apply split_on_pairs.
    - change (32%N :: s_urgency_eq ++ (uc :: ur) ++ com) with ((32%N :: s_urgency_eq) ++ (uc :: ur) ++ com).
      rewrite !mem_char_app, (plain_no_comma _ Hcp), (key_no_comma _ Huc). reflexivity.
    - now apply pairs_ok_no_comma. }
  assert (Hval : exists c0 r cl, (uc :: ur) ++ com = c0 :: r /\ ws c0 = false /\ last_opt ((uc :: ur) ++ com) = Some cl
                                 /\ ws cl = false /\ mem_char 10 ((uc :: ur) ++ com) = false).
  { exists uc, (ur ++ com).
    assert (Hu10 : mem_char 10 (uc :: ur) = false).
    { apply plain_no_lf. exact (forallb_impl _ _ _ key_char_plain Huc). }
    destruct Hcs as [->|(c0 & r & cl & Hc & Hws & Hl & Hcl & Hlf)].
    - destruct (last_opt_nonempty (uc :: ur) Hune) as (cl & Hcl). exists cl.
      split; [reflexivity|]. split; [exact Huc0|]. split; [rewrite app_nil_r; exact Hcl|].
      split; [|rewrite app_nil_r; exact Hu10].
      apply key_char_not_ws. exact (forallb_last _ _ _ Huc Hcl).
    - exists cl. split; [reflexivity|]. split; [exact Huc0|].
      split; [rewrite last_opt_app_r; [exact Hl|rewrite Hc; discriminate]|].
      split; [exact Hcl|]. now rewrite mem_char_app, Hu10, Hlf. }
  destruct Hval as (c0 & r & cl & Hv0 & Hc0 & Hvl & Hcl & Hvlf).
  assert (Hstrip : strip_by ws (32%N :: s_urgency_eq ++ (uc :: ur) ++ com) = s_urgency ++ 61%N :: ((uc :: ur) ++ com)).
  { change (s_urgency_eq ++ (uc :: ur) ++ com) with (s_urgency ++ 61%N :: ((uc :: ur) ++ com)).
    eapply (strip_sp_body _ 117%N _ cl); [reflexivity|reflexivity| |exact Hcl].
    rewrite last_opt_app_r by discriminate. rewrite last_opt_cons; [exact Hvl|]. rewrite Hv0. discriminate. }
  assert (Estep : kv_loop false (split_on 44 (32%N :: s_urgency_eq ++ (uc :: ur) ++ com ++ flat_map render_pair ps)) [] [] st
                  = kv_loop false (map kv_piece ps) [s_urgency] [] (with_cur st (set_urgency (p_cur st) (uc :: ur) com))).
  { rewrite Hsplit. cbn [kv_loop]. rewrite Hstrip.
    rewrite (match_keyvalue_kv s_urgency ((uc :: ur) ++ com) c0 r cl ltac:(discriminate) eq_refl Hv0 Hc0 Hvl Hcl Hvlf).
    rewrite key_lower_urgency. cbn [existsb bind]. rewrite str_eqb_refl.
    now rewrite (match_value_uc (uc :: ur) com Hune Huc Hcs). }
  destruct (kv_pairs_replay ps [s_urgency] [] (with_cur st (set_urgency (p_cur st) (uc :: ur) com)) Hps)
    as (st' & Hst' & Hsame).
  exists st'. split; [exact (eq_trans Estep Hst')|exact Hsame].
Qed.

Definition hdr_fields (b : block) : block :=
  mkBlock (b_package b) (b_version b) (b_dists b) (b_urgency b) (b_comment b) [] None None []
          (b_pairs b) false [32; 32]%N.

Lemma header_replay J st b :
  hdr_ok b -> (p_state st = FirstHeading \/ p_state st = NextHeadingOrEof) -> p_cur st = empty_block ->
  exists st', step_heading J false None st (header_line b) = Ok (Next st')
              /\ same st' (with_state (with_cur st (hdr_fields b)) StartOfChangeData).
Proof.
  intros [(c & n & Hp & Hc & Hn & _) (v & Hv & Hvne & Hvc & _) (d & Hd & HD1 & (dc & dr & HD2 & HD2') & (gl & HD3 & HD3') & _)
          (u & Hu & Huok) Hcom Hps] Hstate Hcur.
  assert (Etop : match_topline (header_line b)
                 = Some (c :: n, v, 32%N :: d,
                         32%N :: s_urgency_eq ++ u ++ b_comment b ++ flat_map render_pair (b_pairs b))).
  { unfold header_line. rewrite Hp, Hv, Hd, Hu. cbn [ostr].
    change (match_topline (c :: n ++ 32%N :: 40%N :: v ++ 41%N :: (32%N :: d)
              ++ 59%N :: (32%N :: s_urgency_eq ++ u ++ b_comment b ++ flat_map render_pair (b_pairs b)))
            = Some (c :: n, v, 32%N :: d,
                    32%N :: s_urgency_eq ++ u ++ b_comment b ++ flat_map render_pair (b_pairs b))).
    apply match_topline_eq.
    - exact Hc.
    - exact Hn.
    - exact Hvne.
    - exact Hvc.
    - cbn [forallb]. now rewrite ws_sp, HD1.
    - exists 32%N, d. split; [reflexivity|exact ws_sp].
    - exists gl. split; [|exact HD3']. rewrite last_opt_cons; [exact HD3|]. rewrite HD2. discriminate. }
  destruct (kv_header_replay u (b_comment b) (b_pairs b)
              (with_cur st (set_header (p_cur st) (c :: n) v (lstrip_by ws (32%N :: d)))) Huok Hcom Hps)
    as (st2 & Hst2 & Hsame).
  exists (with_state st2 StartOfChangeData). split.
  - unfold step_heading. rewrite Etop. unfold do_header. rewrite Hst2. reflexivity.
  - assert (Hls : lstrip_by ws (32%N :: d) = d).
    { unfold lstrip_by. cbn [dropwhile]. rewrite ws_sp, HD2. cbn [dropwhile]. now rewrite HD2'. }
    destruct Hsame as (H1 & H2 & H3 & H4 & H5 & H6).
    cbn [with_state with_cur p_state p_old p_blocks p_initial p_cur p_changes] in H1, H2, H3, H4, H5, H6.
    unfold same. cbn [with_state with_cur p_state p_old p_blocks p_initial p_cur p_changes].
    split; [reflexivity|]. split; [exact H2|]. split; [exact H3|]. split; [exact H4|]. split; [|exact H6].
    rewrite H5, Hcur, Hls. unfold hdr_fields. rewrite Hp, Hv, Hd, Hu. reflexivity.
Qed.
