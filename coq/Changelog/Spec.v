(** SPEC for C04: the deb-changelog(5) grammar as the property words it.

    A well-formed changelog is the rendering of a [wdoc]:
      optional leading blank lines, then 1..n blocks, each
        header   package (version) dist1 dist2...; urgency=value[ comment][, key=value]*
        change lines (blank, or starting with two spaces)
        trailer   " -- name <mail>  date"   with an RFC-2822 shaped date
        blank lines
      every line terminated by LF, no CR anywhere.

    [render] is the concrete syntax, [wf_doc] the side conditions, [expose] the
    attribute values the property says the parsed blocks must show.
    [recognise] reads a text back into a [wdoc]; [wf_changelog t] holds when
    the text IS the rendering of the well-formed document recognised in it
    (so soundness of [recognise] is by definition; its completeness on
    generated texts is exercised by the check on every case).

    Nothing here refers to the model (Changelog/Model.v) or to the regexes;
    the character classes are written out in ASCII.  White space is Python's
    [str.isspace] table (Gen/PyChars.v). *)
From Verif Require Import Lib.Base Lib.PyStr Gen.PyChars.

Definition is_upper (c : N) : bool := (65 <=? c)%N && (c <=? 90)%N.
Definition is_lower (c : N) : bool := (97 <=? c)%N && (c <=? 122)%N.
Definition is_digit (c : N) : bool := (48 <=? c)%N && (c <=? 57)%N.
Definition is_alpha (c : N) : bool := is_upper c || is_lower c.
Definition is_alnum (c : N) : bool := is_alpha c || is_digit c.

(** package and distribution names: [A-Za-z0-9+.-] (Policy 5.6.1 says lower case; the
    grammar here is the more generous one) *)
Definition pkg_char (c : N) : bool := is_alnum c || (c =? 43)%N || (c =? 45)%N || (c =? 46)%N.
(** version characters: [A-Za-z0-9.+~:-] (Policy 5.6.12) *)
Definition version_char (c : N) : bool :=
  is_alnum c || (c =? 46)%N || (c =? 43)%N || (c =? 126)%N || (c =? 58)%N || (c =? 45)%N.
(** header keys and the urgency value: [A-Za-z0-9-] *)
Definition hkey_char (c : N) : bool := is_alnum c || (c =? 45)%N.

Definition is_crlf (c : N) : bool := (c =? 10)%N || (c =? 13)%N.
Definition one_line (s : str) : bool := negb (existsb is_crlf s).
Definition space (c : N) : bool := py_isspace c.

Definition nonempty {A} (l : list A) : bool := match l with [] => false | _ => true end.
Definition first_ok (p : N -> bool) (s : str) : bool := match s with c :: _ => p c | [] => false end.
Definition last_ok (p : N -> bool) (s : str) : bool :=
  match last_opt s with Some c => p c | None => false end.

Record wdate := mkDate {
  d_dow : option str;       (* day of week *)
  d_pad : bool;             (* two spaces after the comma (space padded day) *)
  d_day : str; d_month : str; d_year : str;
  d_hh : str; d_mm : str; d_ss : str;
  d_sign : N; d_zone : str;
}.

Record wblock := mkWB {
  w_package : str; w_version : str; w_dists : list str;
  w_urgency : str; w_comment : str;
  w_pairs : list (str * str);
  w_changes : list str;
  w_name : str; w_mail : str; w_date : wdate;
  w_after : list str;
}.

Record wdoc := mkWD { w_leading : list str; w_blocks : list wblock }.

(** * Concrete syntax *)

Definition SPs : str := [32%N].
Definition render_date (d : wdate) : str :=
  (match d_dow d with
   | Some w => w ++ [44%N] ++ (if d_pad d then [32; 32]%N else [32]%N)
   | None => []
   end)
  ++ d_day d ++ SPs ++ d_month d ++ SPs ++ d_year d ++ SPs
  ++ d_hh d ++ [58%N] ++ d_mm d ++ [58%N] ++ d_ss d ++ SPs ++ [d_sign d] ++ d_zone d.

Definition s_urgency_eq : str := [117; 114; 103; 101; 110; 99; 121; 61]%N.    (* "urgency=" *)

Definition render_pair (kv : str * str) : str := [44; 32]%N ++ fst kv ++ [61%N] ++ snd kv.

Definition render_header (b : wblock) : str :=
  w_package b ++ [32; 40]%N ++ w_version b ++ [41; 32]%N ++ join SPs (w_dists b)
  ++ [59; 32]%N ++ s_urgency_eq ++ w_urgency b ++ w_comment b
  ++ flat_map render_pair (w_pairs b).

Definition author_of (b : wblock) : str := w_name b ++ [32; 60]%N ++ w_mail b ++ [62%N].

Definition render_trailer (b : wblock) : str :=
  [32; 45; 45; 32]%N ++ author_of b ++ [32; 32]%N ++ render_date (w_date b).

Definition render_block_lines (b : wblock) : list str :=
  render_header b :: w_changes b ++ render_trailer b :: w_after b.

Definition doc_lines (d : wdoc) : list str :=
  w_leading d ++ flat_map render_block_lines (w_blocks d).

Definition render (d : wdoc) : str := flat_map (fun l => l ++ [10%N]) (doc_lines d).

(** * Side conditions *)

Definition digits (lo hi : nat) (s : str) : bool :=
  forallb is_digit s && (lo <=? length s)%nat && (length s <=? hi)%nat.
Definition letters (s : str) : bool := nonempty s && forallb is_alpha s.

Definition wf_date (d : wdate) : bool :=
  (match d_dow d with Some w => letters w | None => negb (d_pad d) end)
  && digits 1 2 (d_day d) && letters (d_month d) && digits 4 4 (d_year d)
  && digits 1 2 (d_hh d) && digits 2 2 (d_mm d) && digits 2 2 (d_ss d)
  && ((d_sign d =? 43)%N || (d_sign d =? 45)%N) && digits 4 4 (d_zone d).

Definition blank_line (l : str) : bool := forallb space l && one_line l.
Definition change_line (l : str) : bool :=
  one_line l && (forallb space l || startswith [32; 32]%N l).

Definition wf_package (s : str) : bool := first_ok is_alnum s && forallb pkg_char s.
(** [epoch:]upstream[-revision] (Policy 5.6.12): numeric epoch; upstream starts with a
    digit and may contain ':' only after an epoch and '-' only before a revision;
    revision over [A-Za-z0-9+.~] *)
Definition upstream_char (c : N) : bool :=
  is_alnum c || (c =? 46)%N || (c =? 43)%N || (c =? 126)%N.
Fixpoint last_index_of (c : N) (s : str) : option nat :=
  match s with
  | [] => None
  | x :: s' =>
      match last_index_of c s' with
      | Some i => Some (S i)
      | None => if (x =? c)%N then Some O else None
      end
  end.
Definition version_shape (s : str) : bool :=
  let (has_epoch, rest) :=
    match split_on_first 58 s with
    | (e, Some r) => if nonempty e && forallb is_digit e then (true, r) else (false, s)
    | (_, None) => (false, s)
    end in
  let up_ok (u : str) (hyphen : bool) :=
    first_ok is_digit u
    && forallb (fun c => upstream_char c || (has_epoch && (c =? 58)%N) || (hyphen && (c =? 45)%N)) u in
  match last_index_of 45 rest with
  | Some i => up_ok (firstn i rest) true
              && nonempty (skipn (S i) rest) && forallb upstream_char (skipn (S i) rest)
  | None => up_ok rest false
  end.
Definition wf_version (s : str) : bool :=
  nonempty s && forallb version_char s && version_shape s.
Definition wf_dist (s : str) : bool := nonempty s && forallb pkg_char s.
Definition wf_key (s : str) : bool := nonempty s && forallb hkey_char s.

(** free text inside the header: one line, no comma *)
Definition header_text (s : str) : bool := one_line s && negb (mem_char 44 s).
(** urgency comment: empty, or white space followed by text not ending in white space *)
Definition wf_comment (s : str) : bool :=
  match s with
  | [] => true
  | _ => first_ok space s && last_ok (fun c => negb (space c)) s && header_text s
  end.
Definition wf_value (s : str) : bool :=
  first_ok (fun c => negb (space c)) s && last_ok (fun c => negb (space c)) s && header_text s.

Definition s_urgency_l : str := [117; 114; 103; 101; 110; 99; 121]%N.

Fixpoint distinct (ks : list str) : bool :=
  match ks with
  | [] => true
  | k :: ks' => negb (existsb (str_eqb k) ks') && distinct ks'
  end.

Definition wf_pairs (ps : list (str * str)) : bool :=
  forallb (fun kv => wf_key (fst kv) && wf_value (snd kv)
                     && negb (str_eqb (ascii_lower (fst kv)) s_urgency_l)) ps
  && distinct (map (fun kv => ascii_lower (fst kv)) ps).

Definition wf_block (b : wblock) : bool :=
  wf_package (w_package b) && wf_version (w_version b)
  && nonempty (w_dists b) && forallb wf_dist (w_dists b)
  && wf_key (w_urgency b) && wf_comment (w_comment b) && wf_pairs (w_pairs b)
  && forallb change_line (w_changes b)
  && one_line (w_name b) && one_line (w_mail b) && wf_date (w_date b)
  && forallb blank_line (w_after b).

Definition wf_doc (d : wdoc) : bool :=
  forallb blank_line (w_leading d) && nonempty (w_blocks d) && forallb wf_block (w_blocks d).

(** * What the parsed blocks must expose *)

Record xblock := mkXB {
  x_package : str; x_version : str; x_dists : str; x_urgency : str; x_comment : str;
  x_pairs : list (str * str); x_changes : list str; x_author : str; x_date : str;
}.

Definition expose (b : wblock) : xblock :=
  mkXB (w_package b) (w_version b) (join SPs (w_dists b)) (w_urgency b) (w_comment b)
       (w_pairs b) (w_changes b) (author_of b) (render_date (w_date b)).

Definition pairs_eqb (a b : list (str * str)) : bool :=
  list_eqb (pair_eqb str_eqb str_eqb) a b.

Definition xblock_eqb (a b : xblock) : bool :=
  str_eqb (x_package a) (x_package b) && str_eqb (x_version a) (x_version b)
  && str_eqb (x_dists a) (x_dists b) && str_eqb (x_urgency a) (x_urgency b)
  && str_eqb (x_comment a) (x_comment b) && pairs_eqb (x_pairs a) (x_pairs b)
  && strs_eqb (x_changes a) (x_changes b) && str_eqb (x_author a) (x_author b)
  && str_eqb (x_date a) (x_date b).

(** * Recogniser *)

Definition obind {A B} (o : option A) (f : A -> option B) : option B :=
  match o with Some a => f a | None => None end.

Fixpoint strip_pre (pre s : str) : option str :=
  match pre, s with
  | [], _ => Some s
  | a :: pre', b :: s' => if (a =? b)%N then strip_pre pre' s' else None
  | _ :: _, [] => None
  end.

(** split at the first / at the last occurrence of a character *)
Definition cut_first (c : N) (s : str) : option (str * str) :=
  match split_on_first c s with (a, Some b) => Some (a, b) | (_, None) => None end.
Fixpoint cut_last (c : N) (s : str) : option (str * str) :=
  match s with
  | [] => None
  | x :: s' =>
      match cut_last c s' with
      | Some (p, q) => Some (x :: p, q)
      | None => if (x =? c)%N then Some ([], s') else None
      end
  end.
(** at the last occurrence of " <" *)
Fixpoint cut_last_splt (s : str) : option (str * str) :=
  match s with
  | [] => None
  | x :: s' =>
      match cut_last_splt s' with
      | Some (p, q) => Some (x :: p, q)
      | None =>
          match s' with
          | y :: s'' => if (x =? 32)%N && (y =? 60)%N then Some ([], s'') else None
          | [] => None
          end
      end
  end.

Definition read_date (s : str) : option wdate :=
  let '(dow, pad, rest) :=
    match cut_first 44 s with
    | Some (w, r) =>
        match strip_pre [32; 32]%N r with
        | Some r' => (Some w, true, Some r')
        | None => (Some w, false, strip_pre [32]%N r)
        end
    | None => (None, false, Some s)
    end in
  obind rest (fun rest =>
  match split_on 32 rest with
  | [day; month; year; time; zone] =>
      match split_on 58 time, zone with
      | [hh; mm; ss], sign :: z =>
          Some (mkDate dow pad day month year hh mm ss sign z)
      | _, _ => None
      end
  | _ => None
  end).

(** ", key=value" pieces after the urgency piece *)
Fixpoint read_pairs (pieces : list str) : option (list (str * str)) :=
  match pieces with
  | [] => Some []
  | p :: ps =>
      obind (strip_pre [32]%N p) (fun kv =>
      obind (cut_first 61 kv) (fun '(k, v) =>
      obind (read_pairs ps) (fun r => Some ((k, v) :: r))))
  end.

Record whead := mkWH {
  h_package : str; h_version : str; h_dists : list str; h_urgency : str; h_comment : str;
  h_pairs : list (str * str) }.

Definition read_header (l : str) : option whead :=
  obind (cut_first 32 l) (fun '(pkg, r1) =>
  obind (strip_pre [40]%N r1) (fun r2 =>
  obind (cut_first 41 r2) (fun '(ver, r3) =>
  obind (strip_pre [32]%N r3) (fun r4 =>
  obind (cut_first 59 r4) (fun '(ds, r5) =>
  obind (strip_pre (32%N :: s_urgency_eq) r5) (fun r6 =>
  match split_on 44 r6 with
  | first :: pieces =>
      let (u, com) := span hkey_char first in
      obind (read_pairs pieces) (fun ps =>
      Some (mkWH pkg ver (split_on 32 ds) u com ps))
  | [] => None
  end)))))).

(** " -- name <mail>  date": the date has no '>', so the author ends at the last '>' *)
Definition read_trailer (l : str) : option (str * str * wdate) :=
  obind (strip_pre [32; 45; 45; 32]%N l) (fun x =>
  obind (cut_last 62 x) (fun '(pre, post) =>
  obind (cut_last_splt pre) (fun '(name, mail) =>
  obind (strip_pre [32; 32]%N post) (fun ds =>
  obind (read_date ds) (fun d => Some (name, mail, d)))))).

Definition is_blank (l : str) : bool := forallb space l.
Definition is_change (l : str) : bool := is_blank l || startswith [32; 32]%N l.

Inductive rstate :=
| RLead                                           (* before the first header *)
| RChanges (h : whead) (rchanges : list str)      (* inside a block, changes reversed *)
| RAfter (h : whead) (changes : list str) (t : str * str * wdate) (rafter : list str).

Definition close_block (h : whead) (changes : list str) (t : str * str * wdate)
    (rafter : list str) : wblock :=
  match t with
  | (name, mail, d) =>
      mkWB (h_package h) (h_version h) (h_dists h) (h_urgency h) (h_comment h) (h_pairs h)
           changes name mail d (rev rafter)
  end.

Fixpoint read_lines (ls : list str) (st : rstate) (rlead : list str) (rblocks : list wblock)
  : option wdoc :=
  match ls with
  | [] =>
      match st with
      | RAfter h ch t ra => Some (mkWD (rev rlead) (rev (close_block h ch t ra :: rblocks)))
      | _ => None
      end
  | l :: ls' =>
      match st with
      | RLead =>
          if is_blank l then read_lines ls' RLead (l :: rlead) rblocks
          else obind (read_header l) (fun h => read_lines ls' (RChanges h []) rlead rblocks)
      | RChanges h rch =>
          if is_change l then read_lines ls' (RChanges h (l :: rch)) rlead rblocks
          else obind (read_trailer l) (fun t => read_lines ls' (RAfter h (rev rch) t []) rlead rblocks)
      | RAfter h ch t ra =>
          if is_blank l then read_lines ls' (RAfter h ch t (l :: ra)) rlead rblocks
          else obind (read_header l) (fun h' =>
               read_lines ls' (RChanges h' []) rlead (close_block h ch t ra :: rblocks))
      end
  end.

(** the text must end with LF: its LF-split then ends with an empty piece *)
Definition recognise (t : str) : option wdoc :=
  match rev (split_on 10 t) with
  | [] :: rls => read_lines (rev rls) RLead [] []
  | _ => None
  end.

Definition wf_changelog (t : str) : bool :=
  match recognise t with
  | Some d => wf_doc d && str_eqb (render d) t
  | None => false
  end.

(** the document a well-formed text stands for *)
Definition doc_of (t : str) : option wdoc :=
  match recognise t with
  | Some d => if wf_doc d && str_eqb (render d) t then Some d else None
  | None => None
  end.

(** * C15: documented domains of the values given to the editing calls
    (new_block, add_change, the set_* methods / properties).  The normal-form
    part of C15 is claimed for edits whose values lie in these domains. *)

Definition wf_author (a : str) : bool :=
  one_line a && last_ok (N.eqb 62) a && contains [32; 60]%N a.      (* "name <mail>" *)

Definition wf_date_str (s : str) : bool :=
  match read_date s with
  | Some d => wf_date d && str_eqb (render_date d) s
  | None => false
  end.

Definition wf_dists_str (s : str) : bool := forallb wf_dist (split_on 32 s).

Definition opt_ok {A} (p : A -> bool) (o : option A) : bool :=
  match o with Some a => p a | None => true end.

Definition new_block_ok (package version dists urgency comment : option str)
    (changes : option (list str)) (author date : option str)
    (pairs : option (list (str * str))) : bool :=
  opt_ok wf_package package && opt_ok wf_version version && opt_ok wf_dists_str dists
  && opt_ok (fun u => match u with [] => true | _ => wf_key u end) urgency
  && opt_ok wf_comment comment && opt_ok (forallb change_line) changes
  && opt_ok wf_author author && opt_ok wf_date_str date && opt_ok wf_pairs pairs.
