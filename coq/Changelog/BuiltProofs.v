(** C15, normal form -- changelogs built programmatically.

    Starting from the empty Changelog(), any sequence of editing calls (new_block,
    add_change, assignment to package / version / distributions / urgency / author / date)
    whose values lie in their documented domains ([op_dom], Changelog/EditSpec.v) yields an
    object whose every block is [built_ok].  If such an object can be formatted, each block
    is the model image [block_of_w] of a well-formed grammar block, so the text is in the
    grammar of C04 and [parse_render] (Changelog/WfProofs.v) applies: it parses, in any
    mode and without a single warning, to exactly the object that was formatted. *)
From Coq Require Import Lia.
From Verif Require Import Lib.Base Lib.PyStr Gen.PyChars Gen.ClChars
  Changelog.Model Changelog.Spec Changelog.EditSpec Changelog.CharFacts Changelog.LeafProofs Changelog.WfProofs.

Record built_ok (b : block) : Prop := {
  bo_package : opt_ok wf_package (b_package b) = true;
  bo_version : opt_ok wf_version (b_version b) = true;
  bo_dists : opt_ok wf_dists_str (b_dists b) = true;
  bo_urgency : exists u, b_urgency b = Some u /\ wf_key u = true;
  bo_comment : wf_comment (b_comment b) = true;
  bo_changes : forallb change_line (b_changes b) = true;
  bo_author : opt_ok wf_author (b_author b) = true;
  bo_date : opt_ok wf_date_str (b_date b) = true;
  bo_trailing : forallb blank_line (b_trailing b) = true;
  bo_pairs : wf_pairs (b_pairs b) = true;
  bo_no_trailer : b_no_trailer b = false;
  bo_sep : b_sep b = [32; 32]%N;
}.

(** * The editing calls preserve [built_ok] *)

Lemma insert_before_nonblank_forall (P : str -> bool) c l : forall r,
  P c = true -> forallb P l = true -> insert_before_nonblank c l = Some r -> forallb P r = true.
Proof.
  induction l as [|x l IH]; intros r Hc Hl; cbn [insert_before_nonblank]; [discriminate|].
  cbn [forallb] in Hl. apply andb_true_iff in Hl. destruct Hl as [Hx Hl].
  destruct (match_blank x).
  - destruct (insert_before_nonblank c l) as [r'|]; [|discriminate]. intros [= <-].
    cbn [forallb]. now rewrite Hx, (IH r' Hc Hl eq_refl).
  - intros [= <-]. cbn [forallb]. now rewrite Hc, Hx, Hl.
Qed.

Lemma forallb_rev' {A} (P : A -> bool) s : forallb P (rev s) = forallb P s.
Proof.
  induction s as [|c s IH]; [reflexivity|]. cbn [rev forallb]. rewrite forallb_app, IH. cbn.
  now rewrite andb_true_r, andb_comm.
Qed.

Lemma add_change_list_forall (P : str -> bool) c l :
  P c = true -> forallb P l = true -> forallb P (add_change_list c l) = true.
Proof.
  intros Hc Hl. unfold add_change_list. destruct l as [|x l']; [cbn; now rewrite Hc|].
  destruct (insert_before_nonblank c (rev (x :: l'))) as [r'|] eqn:E.
  - rewrite forallb_rev'. eapply insert_before_nonblank_forall; [exact Hc| |exact E]. now rewrite forallb_rev'.
  - rewrite rev_involutive, forallb_app, Hl. cbn [forallb andb]. now rewrite Hc.
Qed.

Lemma wf_key_unknown : wf_key s_unknown = true.
Proof. vm_compute. reflexivity. Qed.

Lemma new_block_built p v d u uc ch a dt ps :
  new_block_ok p v d u uc ch a dt ps = true -> built_ok (new_block p v d u uc ch a dt ps).
Proof.
  unfold new_block_ok. intros H.
  repeat match type of H with
         | (_ && _ = true) => let H' := fresh "H" in apply andb_true_iff in H; destruct H as [H H']
         end.
  constructor; cbn [new_block b_package b_version b_dists b_urgency b_comment b_changes b_author b_date
                    b_trailing b_pairs b_no_trailer b_sep]; try assumption; try reflexivity.
  - destruct u as [[|x l]|]; cbn [or_default]; eexists; (split; [reflexivity|]);
      try exact wf_key_unknown. exact H5.
  - destruct uc as [[|x l]|]; cbn [or_default]; try reflexivity. exact H4.
  - destruct ch as [[|x l]|]; cbn [or_default]; try reflexivity. exact H3.
  - destruct ps as [[|x l]|]; cbn [or_default]; try reflexivity. exact H0.
Qed.

Lemma set_attr_built a v b :
  built_ok b ->
  match a with
  | APackage => wf_package v | AVersion => wf_version v | ADists => wf_dists_str v
  | AUrgency => wf_key v | AAuthor => wf_author v | ADate => wf_date_str v
  end = true ->
  built_ok (set_attr a v b).
Proof.
  intros [] Hv. destruct a; constructor; cbn; try assumption. exists v. auto.
Qed.

Lemma set_changes_built b c : built_ok b -> forallb change_line c = true -> built_ok (set_changes b c).
Proof. intros [] Hc. constructor; cbn; assumption. Qed.

Lemma apply_op_built c o c' :
  Forall built_ok (cl_blocks c) -> op_dom o = true -> apply_op c o = Ok c' ->
  Forall built_ok (cl_blocks c') /\ cl_initial c' = cl_initial c.
Proof.
  intros Hall Hdom. destruct o as [p v d u uc ch a dt ps|s|a v]; cbn [apply_op op_dom] in *.
  - intros [= <-]. cbn. split; [|reflexivity]. constructor; [now apply new_block_built|exact Hall].
  - destruct (cl_blocks c) as [|b bs] eqn:E; [discriminate|]. intros [= <-]. cbn. split; [|reflexivity].
    inversion Hall as [|? ? Hb Hbs]; subst. constructor; [|exact Hbs].
    apply set_changes_built; [exact Hb|]. apply add_change_list_forall; [exact Hdom|]. exact (bo_changes b Hb).
  - destruct (cl_blocks c) as [|b bs] eqn:E; [discriminate|]. intros [= <-]. cbn. split; [|reflexivity].
    inversion Hall as [|? ? Hb Hbs]; subst. constructor; [|exact Hbs].
    apply set_attr_built; [exact Hb|]. destruct a; exact Hdom.
Qed.

Lemma apply_ops_built ops : forall c c',
  Forall built_ok (cl_blocks c) -> forallb op_dom ops = true -> apply_ops c ops = Ok c' ->
  Forall built_ok (cl_blocks c') /\ cl_initial c' = cl_initial c.
Proof.
  induction ops as [|o ops IH]; intros c c' Hall Hdom; cbn [apply_ops].
  - intros [= <-]. auto.
  - cbn [forallb] in Hdom. apply andb_true_iff in Hdom. destruct Hdom as [Ho Hops].
    destruct (apply_op c o) as [c1|e] eqn:E; [|discriminate]. cbn [bind].
    destruct (apply_op_built c o c1 Hall Ho E) as (H1 & H2). intros H.
    destruct (IH c1 c' H1 Hops H) as (H3 & H4). split; [exact H3|congruence].
Qed.

(** * A formattable built block is the image of a grammar block *)

Lemma startswith_spec pre : forall s, startswith pre s = true -> exists r, s = pre ++ r.
Proof.
  induction pre as [|a pre IH]; intros s; cbn [startswith]; [intros _; now exists s|].
  destruct s as [|b s]; [discriminate|]. intros H. apply andb_true_iff in H. destruct H as [H1 H2].
  apply N.eqb_eq in H1. subst b. destruct (IH s H2) as (r & ->). now exists r.
Qed.

Lemma contains_spec sub : forall s, contains sub s = true -> exists p q, s = p ++ sub ++ q.
Proof.
  induction s as [|x s IH]; cbn [contains]; intros H.
  - rewrite orb_false_r in H. destruct (startswith_spec _ _ H) as (r & Hr). exists [], r. exact Hr.
  - apply orb_true_iff in H. destruct H as [H|H].
    + destruct (startswith_spec _ _ H) as (r & Hr). exists [], r. exact Hr.
    + destruct (IH H) as (p & q & ->). exists (x :: p), q. reflexivity.
Qed.

Lemma wf_author_split a :
  wf_author a = true ->
  exists name mail, a = name ++ [32; 60]%N ++ mail ++ [62%N] /\ one_line name = true /\ one_line mail = true.
Proof.
  unfold wf_author. intros H. apply andb_true_iff in H. destruct H as [H Hc].
  apply andb_true_iff in H. destruct H as [Hol Hl].
  destruct (contains_spec _ _ Hc) as (p & q & Ha).
  unfold last_ok in Hl. destruct (last_opt a) as [c|] eqn:El; [|discriminate]. apply N.eqb_eq in Hl. subst c.
  (* q is not empty and ends with '>' *)
  destruct (last_opt q) as [c|] eqn:Eq.
  - destruct (last_opt_some _ _ Eq) as (mail & ->).
    assert (c = 62%N).
    { rewrite Ha in El. assert (Hne : mail ++ [c] <> []) by (destruct mail; discriminate).
      rewrite last_opt_app_r in El by discriminate. rewrite last_opt_app_r in El by exact Hne.
      rewrite last_opt_snoc in El. congruence. }
    subst c. exists p, mail. split; [exact Ha|].
    rewrite Ha in Hol. rewrite !one_line_app in Hol.
    repeat match type of Hol with (_ && _ = true) => let H' := fresh "H" in
                                   apply andb_true_iff in Hol; destruct Hol as [Hol H'] end.
    apply andb_true_iff in H. destruct H as [_ H]. apply andb_true_iff in H. destruct H as [Hm _]. auto.
  - exfalso. destruct q; [|destruct (last_opt_nonempty (n :: q) ltac:(discriminate)) as (c & Hc'); congruence].
    rewrite Ha, app_nil_r in El. rewrite last_opt_app_r in El by discriminate. cbn in El. congruence.
Qed.

Lemma wfb_wf_block b : wfb b -> wf_block b = true.
Proof.
  intros []. unfold wf_block.
  rewrite wb_package, wb_version, wb_dists, wb_urgency, wb_comment, wb_pairs, wb_changes, wb_name, wb_mail,
    wb_date, wb_after.
  destruct (w_dists b); [congruence|reflexivity].
Qed.

Lemma built_block_image b x :
  built_ok b -> format_block false b = Ok x -> exists wb, wfb wb /\ block_of_w wb = b.
Proof.
  intros Hb Hf. destruct Hb as [Hp Hv Hd (u & Hu & Hukey) Hcom Hch Ha Hdt Htr Hps Hnt Hsep].
  unfold format_block in Hf.
  destruct b as [bp bv bd bu bcom bch ba bdt btr bps bnt bsep].
  cbn [b_package b_version b_dists b_urgency b_comment b_changes b_author b_date b_trailing b_pairs b_no_trailer b_sep] in *.
  subst bnt bsep bu.
  destruct bp as [p|]; [|discriminate]. destruct bv as [v|]; [|discriminate]. destruct bd as [d|]; [|discriminate].
  cbn [opt_or_err bind andb] in Hf.
  destruct ba as [a|]; [|discriminate]. destruct bdt as [dt|]; [|discriminate].
  cbn [opt_ok] in *.
  destruct (wf_author_split a Ha) as (name & mail & -> & Hn & Hm).
  unfold wf_date_str in Hdt. destruct (read_date dt) as [wd|]; [|discriminate].
  apply andb_true_iff in Hdt. destruct Hdt as [Hwd Hrd]. apply str_eqb_eq in Hrd. subst dt.
  exists (mkWB p v (split_on 32 d) u bcom bps bch name mail wd btr). split.
  - constructor; cbn; try assumption. apply split_on_nonempty.
  - unfold block_of_w, author_of. cbn. unfold SPs. now rewrite join_split_on.
Qed.

Lemma built_blocks_image bs : forall x,
  Forall built_ok bs -> format_blocks false bs = Ok x ->
  exists wbs, Forall wfb wbs /\ map block_of_w wbs = bs.
Proof.
  induction bs as [|b bs IH]; intros x Hall; cbn [format_blocks].
  - intros _. exists []. split; [constructor|reflexivity].
  - inversion Hall as [|? ? Hb Hbs]; subst.
    destruct (format_block false b) as [y|] eqn:Eb; [|discriminate].
    destruct (format_blocks false bs) as [z|] eqn:Ebs; [|discriminate]. intros _.
    destruct (built_block_image b y Hb Eb) as (wb & Hwb & <-).
    destruct (IH z Hbs eq_refl) as (wbs & Hwbs & <-).
    exists (wb :: wbs). split; [now constructor|reflexivity].
Qed.

(** * The theorem *)

Theorem normal_form_built J allow ops c t :
  forallb op_dom ops = true ->
  apply_ops empty_changelog ops = Ok c ->
  format_changelog false c = Ok t ->
  exists st', parse_changelog J false allow None (InStr t) = Ok st'
              /\ cl_of st' = c
              /\ format_changelog false (cl_of st') = Ok t
              /\ (cl_blocks c <> [] -> p_warn st' = []).
Proof.
  intros Hdom Hops Hfmt.
  destruct (apply_ops_built ops empty_changelog c (Forall_nil _) Hdom Hops) as (Hall & Hini).
  cbn in Hini.
  destruct c as [ini bs]. cbn [cl_initial cl_blocks] in *. subst ini.
  pose proof Hfmt as Hfmt0.
  unfold format_changelog in Hfmt. cbn [cl_blocks cl_initial] in Hfmt.
  destruct (format_blocks false bs) as [body|] eqn:Eb; [|discriminate].
  cbn [bind flat_map app] in Hfmt. injection Hfmt as <-.
  destruct (built_blocks_image bs body Hall Eb) as (wbs & Hwbs & <-).
  destruct wbs as [|wb wbs].
  - (* no block at all: the empty text, "Empty changelog file." *)
    cbn in Eb. injection Eb as <-. unfold parse_changelog. cbn [forallb warn].
    eexists. split; [reflexivity|]. split; [reflexivity|]. split; [reflexivity|]. intros H. now elim H.
  - set (d := mkWD [] (wb :: wbs)).
    assert (Hd : wf_doc d = true).
    { unfold wf_doc. cbn. inversion Hwbs as [|? ? H1 H2]; subst. rewrite (wfb_wf_block wb H1). cbn.
      apply forallb_forall. intros b Hin. rewrite Forall_forall in H2. apply wfb_wf_block. now apply H2. }
    assert (Hr : render d = body).
    { pose proof (format_blocks_w (wb :: wbs)) as Hw. rewrite Eb in Hw. injection Hw as ->. reflexivity. }
    rewrite <- Hr. exists (doc_state d). split; [now apply parse_render|].
    split; [reflexivity|]. split; [rewrite Hr; exact Hfmt0|]. reflexivity.
Qed.
