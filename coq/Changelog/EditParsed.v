(** C15, normal form after editing -- every parsed object is structurally good
    ([doc_okc], EditForm.v), and the final theorem. *)
From Coq Require Import Lia.
From Verif Require Import Lib.Base Lib.PyStr Gen.PyChars Gen.ClChars
  Changelog.Model Changelog.Spec Changelog.EditSpec Changelog.CharFacts Changelog.LeafProofs
  Changelog.ParseProofs Changelog.WfProofs Changelog.NormalBase Changelog.NormalHeader Changelog.NormalProofs
  Changelog.BuiltProofs Changelog.EditBase Changelog.EditReplay Changelog.EditForm.

Section Parsed.
Variable J : junk.
Variable allow : bool.

Notation STEP := (step J false allow None).
Notation STEPS := (steps J allow).

Definition slurped (b : block) : Prop :=
  exists pre t post, b_trailing b = pre ++ t :: post /\ notrig J pre /\ tline_ok t /\ trigger J t = true
                     /\ Forall (fun l => one_line l = true) post.

Definition sinv (st : pst) : Prop :=
  Forall tline_ok (p_initial st) /\
  match p_state st with
  | FirstHeading => True
  | NextHeadingOrEof => Forall (blk_okc J false) (p_blocks st)
  | StartOfChangeData | MoreChangesOrTrailer =>
      Forall (blk_okc J false) (p_blocks st) /\ Forall chg_ok (p_changes st)
  | SlurpToEnd =>
      exists bs bk, p_blocks st = bs ++ [bk] /\ Forall (blk_okc J false) bs /\ blk_okc J true bk /\ slurped bk
  end.

(** * Blocks *)

Lemma optP_some {A} (P : A -> Prop) x : P x -> optP P (Some x).
Proof. intros H y [= <-]. exact H. Qed.
Lemma optP_none {A} (P : A -> Prop) : optP P None.
Proof. intros y H. discriminate. Qed.

Lemma notrig_nil : notrig J [].
Proof. constructor. Qed.

(** the block pushed when a trailer (or end of input) closes the current block *)
Lemma cur_blk_okc last cur chg (oa od : option str) nt sep :
  hdr_ok cur -> Forall chg_ok chg -> optP author_ok oa -> optP date_ok od -> sep_ok sep ->
  (nt = true -> last = true /\ sep = [32; 32]%N) ->
  blk_okc J last (mkBlock (b_package cur) (b_version cur) (b_dists cur) (b_urgency cur) (b_comment cur) chg
                          oa od [] (b_pairs cur) nt sep).
Proof.
  intros [(c & n & Hp & H1 & H2 & H3) (v & Hv & H4 & H5 & H6) (d & Hd & H7) (u & Hu & H8) Hcom Hps] Hchg Ha Hdt Hsep Hnt.
  constructor; cbn; try assumption.
  - rewrite Hp. apply optP_some. exists c, n. auto.
  - rewrite Hv. apply optP_some. repeat split; assumption.
  - rewrite Hd. now apply optP_some.
  - rewrite Hu. now apply optP_some.
  - left. apply notrig_nil.
  - intros E. destruct (Hnt E) as (E1 & E2). auto.
Qed.

Lemma add_trailing_okc last l b :
  blk_okc J last b -> trailing_ok J last (b_trailing b ++ [l]) -> b_no_trailer b = false ->
  blk_okc J last (add_trailing l b).
Proof.
  intros [] Ht Hn. constructor; cbn; try assumption. rewrite Hn. discriminate.
Qed.

Lemma okc_no_trailer_false b : blk_okc J false b -> b_no_trailer b = false.
Proof.
  intros K. destruct (b_no_trailer b) eqn:E; [|reflexivity]. destruct (k_notrailer J false b K E) as (H & _). discriminate.
Qed.

Lemma okc_false_notrig b : blk_okc J false b -> notrig J (b_trailing b).
Proof. intros K. destruct (k_trailing J false b K) as [H|(H & _)]; [exact H|discriminate]. Qed.

Lemma notrig_snoc ls l : notrig J ls -> tline_ok l -> trigger J l = false -> notrig J (ls ++ [l]).
Proof. intros H Hl Ht. apply Forall_app. split; [exact H|]. constructor; [split; assumption|constructor]. Qed.

Lemma upd_last_Forall (P : block -> Prop) (f : block -> block) bs : forall bs',
  upd_last f bs = Some bs' -> Forall P bs -> (forall b, P b -> P (f b)) -> Forall P bs'.
Proof.
  induction bs as [|a bs IH]; intros bs'; cbn [upd_last]; [discriminate|].
  destruct bs as [|b bs0].
  - intros [= <-] H Hf. inversion H; subst. constructor; auto.
  - destruct (upd_last f (b :: bs0)) as [r|]; [|discriminate]. intros [= <-] H Hf.
    inversion H as [|? ? Ha Hr]; subst. constructor; [exact Ha|]. now apply (IH r).
Qed.

Lemma exists_last' {A} (l : list A) : l <> [] -> exists l' a, l = l' ++ [a].
Proof. intros H. destruct (exists_last H) as (l' & a & ->). eauto. Qed.

(** * One step *)

Lemma sinv_step st l st1 :
  invs st -> sinv st -> one_line l = true -> STEP st l = Ok (Next st1) -> sinv st1.
Proof.
  intros Hi (Hini & Hst) Hl Hstep.
  unfold step in Hstep. rewrite (one_line_rstrip l Hl) in Hstep.
  destruct st as [s o bl ini cur chg w]. cbn [p_state p_initial p_blocks p_changes] in *.
  destruct s.
  - (* first heading *)
    destruct (i_head _ Hi) as (Hc & Hch); [cbn; auto|]. cbn [p_cur p_changes] in Hc, Hch. subst cur chg.
    pose proof (i_first _ Hi eq_refl) as Hb. cbn [p_blocks] in Hb. subst bl.
    unfold step_heading in Hstep. cbn [p_state p_blocks pstate_eqb negb] in Hstep.
    destruct (match_topline l) as [[[[g1 g2] g3] pairs]|] eqn:Etop.
    + destruct (do_header false _ g1 g2 g3 pairs) as [st'|e] eqn:Edh; [|discriminate].
      cbn [bind] in Hstep. injection Hstep as <-.
      rewrite one_line_notcrlf in Hl.
      destruct (do_header_ok (mkPst FirstHeading o [] ini empty_block [] w) g1 g2 g3 pairs l st' eq_refl Etop Hl Edh)
        as (_ & _ & Hs' & _ & Hbl & Hin & Hcg).
      cbn [p_blocks p_initial p_changes] in Hbl, Hin, Hcg.
      unfold sinv. rewrite Hs', Hin, Hbl, Hcg. split; [exact Hini|]. split; constructor.
    + rewrite !andb_false_r in Hstep.
      assert (Hres : exists w', st1 = mkPst FirstHeading o [] (ini ++ [l]) empty_block [] w').
      { destruct (match_blank l); [cbn in Hstep; injection Hstep as <-; eexists; reflexivity|].
        destruct (j_cvs J l || j_comments J l || j_more_comments J l); cbn in Hstep; injection Hstep as <-;
          eexists; reflexivity. }
      destruct Hres as (w' & ->). unfold sinv. cbn. split; [|exact I].
      apply Forall_app. split; [exact Hini|]. constructor; [split; assumption|constructor].
  - (* next heading *)
    destruct (i_head _ Hi) as (Hc & Hch); [cbn; auto|]. cbn [p_cur p_changes] in Hc, Hch. subst cur chg.
    pose proof (i_nhe _ Hi (or_introl eq_refl)) as Hne. cbn [p_blocks] in Hne.
    unfold step_heading in Hstep. cbn [p_state p_blocks pstate_eqb negb] in Hstep.
    destruct (match_topline l) as [[[[g1 g2] g3] pairs]|] eqn:Etop.
    + destruct (do_header false _ g1 g2 g3 pairs) as [st'|e] eqn:Edh; [|discriminate].
      cbn [bind] in Hstep. injection Hstep as <-.
      rewrite one_line_notcrlf in Hl.
      destruct (do_header_ok (mkPst NextHeadingOrEof o bl ini empty_block [] w) g1 g2 g3 pairs l st' eq_refl Etop Hl Edh)
        as (_ & _ & Hs' & _ & Hbl & Hin & Hcg).
      cbn [p_blocks p_initial p_changes] in Hbl, Hin, Hcg.
      unfold sinv. rewrite Hs', Hin, Hbl, Hcg. split; [exact Hini|]. split; [exact Hst|constructor].
    + rewrite !andb_true_r in Hstep.
      destruct (upd_last_some (add_trailing l) bl Hne) as (r & Hr & Hrne).
      assert (Htl : tline_ok l) by (split; assumption).
      (* the line is kept as a trailing line without switching mode *)
      assert (Hkeep : trigger J l = false -> Forall (blk_okc J false) r).
      { intros Htr. apply (upd_last_Forall _ _ bl r Hr Hst). intros b Kb.
        apply add_trailing_okc; [exact Kb| |now apply okc_no_trailer_false].
        left. apply notrig_snoc; [now apply okc_false_notrig|exact Htl|exact Htr]. }
      (* or it switches to slurp mode *)
      assert (Hsl : trigger J l = true ->
                exists bs bk, r = bs ++ [bk] /\ Forall (blk_okc J false) bs /\ blk_okc J true bk /\ slurped bk).
      { intros Htr. destruct (exists_last' bl Hne) as (bs & bk & ->).
        rewrite upd_last_snoc in Hr. injection Hr as <-.
        apply Forall_app in Hst. destruct Hst as (Hbs & Hbk). inversion Hbk as [|? ? Kbk _]; subst.
        exists bs, (add_trailing l bk). split; [reflexivity|]. split; [exact Hbs|].
        assert (Hsp : slurped (add_trailing l bk)).
        { exists (b_trailing bk), l, []. cbn. split; [reflexivity|]. split; [now apply okc_false_notrig|].
          split; [exact Htl|]. split; [exact Htr|constructor]. }
        split; [|exact Hsp].
        apply add_trailing_okc; [now apply blk_okc_weaken| |now apply okc_no_trailer_false].
        right. split; [reflexivity|]. destruct Hsp as (pre & t & post & E & H1 & H2 & H3 & H4).
        cbn in E. exists pre, t, post. auto. }
      unfold keep_line, trail_last, warn, with_warn, with_slurp, with_blocks in Hstep.
      cbn [bind p_state p_old p_blocks p_initial p_cur p_changes p_warn] in Hstep. rewrite Hr in Hstep.
      unfold trigger in Hkeep, Hsl.
      destruct (match_blank l).
      { cbn in Hstep. injection Hstep as <-. unfold sinv. cbn. split; [exact Hini|]. now apply Hkeep. }
      cbn [negb andb] in Hkeep, Hsl.
      destruct (j_emacs J l || j_vim J l).
      { cbn in Hstep. injection Hstep as <-. unfold sinv. cbn. split; [exact Hini|]. now apply Hsl. }
      destruct (j_cvs J l || j_comments J l || j_more_comments J l).
      { cbn in Hstep. injection Hstep as <-. unfold sinv. cbn. split; [exact Hini|]. now apply Hkeep. }
      cbn [negb andb orb] in Hkeep, Hsl.
      destruct (old_format J l).
      { cbn in Hstep. injection Hstep as <-. unfold sinv. cbn. split; [exact Hini|]. now apply Hsl. }
      cbn in Hstep. injection Hstep as <-. unfold sinv. cbn. split; [exact Hini|]. now apply Hkeep.
  - (* start of change data *)
    destruct Hst as (Hbl & Hchg). destruct (i_chg _ Hi) as (Hok & Hfresh); [cbn; auto|]. cbn [p_cur] in *.
    unfold step_changes in Hstep. cbn [p_changes p_cur] in Hstep.
    assert (Happ : forall s' w', (s' = StartOfChangeData \/ s' = MoreChangesOrTrailer) ->
              (match_change l = true \/ (match_endline l = None /\ match_nodetails l = false)) ->
              sinv (mkPst s' o bl ini cur (chg ++ [l]) w')).
    { intros s' w' Hs' Hc. unfold sinv. cbn [p_initial p_state p_blocks p_changes]. split; [exact Hini|].
      assert (Forall chg_ok (chg ++ [l])).
      { apply Forall_app. split; [exact Hchg|]. constructor; [split; assumption|constructor]. }
      destruct Hs' as [-> | ->]; auto. }
    destruct (match_change l) eqn:Emc.
    { injection Hstep as <-. apply Happ; auto. }
    destruct (match_endline l) as [[[[g1 g2] g3] g4]|] eqn:Eend.
    { destruct (match_endline_inv _ _ _ _ _ Eend) as (Hleq & Hg3).
      destruct (match_endline_inv2 _ _ _ _ _ Eend) as (Hdm & Hgt).
      destruct Hfresh as (F1 & F2 & F3 & F4 & F5 & F6).
      assert (Hlp : forallb notcrlf l = true) by (rewrite <- one_line_notcrlf; exact Hl).
      rewrite Hleq in Hlp. rewrite !forallb_app in Hlp.
      repeat match type of Hlp with (_ && _ = true) => let H' := fresh "P" in
                                     apply andb_true_iff in Hlp; destruct Hlp as [Hlp H'] end.
      assert (Hauth : author_ok (g1 ++ [32; 60]%N ++ g2 ++ [62%N])).
      { split; [|now exists g1, g2]. rewrite one_line_notcrlf, !forallb_app.
        apply andb_true_iff in P. destruct P as [P1 P]. apply andb_true_iff in P. destruct P as [_ P].
        apply andb_true_iff in P. destruct P as [P2 _]. now rewrite P1, P2. }
      assert (Hdate : date_ok g4).
      { split; [exact Hdm|]. split; [exact Hgt|]. rewrite one_line_notcrlf.
        apply andb_true_iff in P. destruct P as [_ P]. apply andb_true_iff in P. destruct P as [_ P].
        apply andb_true_iff in P. destruct P as [_ P]. apply andb_true_iff in P. destruct P as [_ P].
        apply andb_true_iff in P. now destruct P. }
      assert (HB : blk_okc J false (mkBlock (b_package cur) (b_version cur) (b_dists cur) (b_urgency cur)
                                             (b_comment cur) chg (Some (g1 ++ [32; 60]%N ++ g2 ++ [62%N])) (Some g4)
                                             [] (b_pairs cur) false g3)).
      { apply cur_blk_okc; [exact Hok|exact Hchg|now apply optP_some|now apply optP_some|exact Hg3|discriminate]. }
      assert (Hres : exists w', st1 = mkPst NextHeadingOrEof o
                (bl ++ [mkBlock (b_package cur) (b_version cur) (b_dists cur) (b_urgency cur) (b_comment cur) chg
                                (Some (g1 ++ [32; 60]%N ++ g2 ++ [62%N])) (Some g4) [] (b_pairs cur) false g3])
                ini empty_block [] w').
      { destruct Hg3 as [-> | ->]; cbn in Hstep; injection Hstep as <-; eexists;
          unfold push_block, with_state, set_sep, set_trailer, set_changes; cbn; rewrite ?F4, ?F5; try rewrite <- F6;
          destruct cur; cbn in *; subst; reflexivity. }
      destruct Hres as (w' & ->). unfold sinv. cbn. split; [exact Hini|].
      apply Forall_app. split; [exact Hbl|]. constructor; [exact HB|constructor]. }
    destruct (match_nodetails l) eqn:End.
    { destruct allow.
      - injection Hstep as <-. unfold sinv. cbn. split; [exact Hini|].
        apply Forall_app. split; [exact Hbl|]. constructor; [|constructor].
        destruct Hfresh as (F1 & F2 & F3 & F4 & F5 & F6).
        assert (E : set_changes cur chg = mkBlock (b_package cur) (b_version cur) (b_dists cur) (b_urgency cur)
                      (b_comment cur) chg None None [] (b_pairs cur) false [32; 32]%N).
        { destruct cur; cbn in *; subst; reflexivity. }
        rewrite E. apply cur_blk_okc; [exact Hok|exact Hchg|apply optP_none|apply optP_none|now left|discriminate].
      - cbn in Hstep. injection Hstep as <-. unfold sinv. cbn. auto. }
    destruct (match_blank l); [injection Hstep as <-; apply Happ; auto|].
    destruct (j_cvs J l || j_comments J l || j_more_comments J l); [injection Hstep as <-; apply Happ; auto|].
    cbn in Hstep. injection Hstep as <-. apply Happ; auto.
  - (* more changes or trailer: the same code *)
    destruct Hst as (Hbl & Hchg). destruct (i_chg _ Hi) as (Hok & Hfresh); [cbn; auto|]. cbn [p_cur] in *.
    unfold step_changes in Hstep. cbn [p_changes p_cur] in Hstep.
    assert (Happ : forall s' w', (s' = StartOfChangeData \/ s' = MoreChangesOrTrailer) ->
              (match_change l = true \/ (match_endline l = None /\ match_nodetails l = false)) ->
              sinv (mkPst s' o bl ini cur (chg ++ [l]) w')).
    { intros s' w' Hs' Hc. unfold sinv. cbn [p_initial p_state p_blocks p_changes]. split; [exact Hini|].
      assert (Forall chg_ok (chg ++ [l])).
      { apply Forall_app. split; [exact Hchg|]. constructor; [split; assumption|constructor]. }
      destruct Hs' as [-> | ->]; auto. }
    destruct (match_change l) eqn:Emc.
    { injection Hstep as <-. apply Happ; auto. }
    destruct (match_endline l) as [[[[g1 g2] g3] g4]|] eqn:Eend.
    { destruct (match_endline_inv _ _ _ _ _ Eend) as (Hleq & Hg3).
      destruct (match_endline_inv2 _ _ _ _ _ Eend) as (Hdm & Hgt).
      destruct Hfresh as (F1 & F2 & F3 & F4 & F5 & F6).
      assert (Hlp : forallb notcrlf l = true) by (rewrite <- one_line_notcrlf; exact Hl).
      rewrite Hleq in Hlp. rewrite !forallb_app in Hlp.
      repeat match type of Hlp with (_ && _ = true) => let H' := fresh "P" in
                                     apply andb_true_iff in Hlp; destruct Hlp as [Hlp H'] end.
      assert (Hauth : author_ok (g1 ++ [32; 60]%N ++ g2 ++ [62%N])).
      { split; [|now exists g1, g2]. rewrite one_line_notcrlf, !forallb_app.
        apply andb_true_iff in P. destruct P as [P1 P]. apply andb_true_iff in P. destruct P as [_ P].
        apply andb_true_iff in P. destruct P as [P2 _]. now rewrite P1, P2. }
      assert (Hdate : date_ok g4).
      { split; [exact Hdm|]. split; [exact Hgt|]. rewrite one_line_notcrlf.
        apply andb_true_iff in P. destruct P as [_ P]. apply andb_true_iff in P. destruct P as [_ P].
        apply andb_true_iff in P. destruct P as [_ P]. apply andb_true_iff in P. destruct P as [_ P].
        apply andb_true_iff in P. now destruct P. }
      assert (HB : blk_okc J false (mkBlock (b_package cur) (b_version cur) (b_dists cur) (b_urgency cur)
                                             (b_comment cur) chg (Some (g1 ++ [32; 60]%N ++ g2 ++ [62%N])) (Some g4)
                                             [] (b_pairs cur) false g3)).
      { apply cur_blk_okc; [exact Hok|exact Hchg|now apply optP_some|now apply optP_some|exact Hg3|discriminate]. }
      assert (Hres : exists w', st1 = mkPst NextHeadingOrEof o
                (bl ++ [mkBlock (b_package cur) (b_version cur) (b_dists cur) (b_urgency cur) (b_comment cur) chg
                                (Some (g1 ++ [32; 60]%N ++ g2 ++ [62%N])) (Some g4) [] (b_pairs cur) false g3])
                ini empty_block [] w').
      { destruct Hg3 as [-> | ->]; cbn in Hstep; injection Hstep as <-; eexists;
          unfold push_block, with_state, set_sep, set_trailer, set_changes; cbn; rewrite ?F4, ?F5; try rewrite <- F6;
          destruct cur; cbn in *; subst; reflexivity. }
      destruct Hres as (w' & ->). unfold sinv. cbn. split; [exact Hini|].
      apply Forall_app. split; [exact Hbl|]. constructor; [exact HB|constructor]. }
    destruct (match_nodetails l) eqn:End.
    { destruct allow.
      - injection Hstep as <-. unfold sinv. cbn. split; [exact Hini|].
        apply Forall_app. split; [exact Hbl|]. constructor; [|constructor].
        destruct Hfresh as (F1 & F2 & F3 & F4 & F5 & F6).
        assert (E : set_changes cur chg = mkBlock (b_package cur) (b_version cur) (b_dists cur) (b_urgency cur)
                      (b_comment cur) chg None None [] (b_pairs cur) false [32; 32]%N).
        { destruct cur; cbn in *; subst; reflexivity. }
        rewrite E. apply cur_blk_okc; [exact Hok|exact Hchg|apply optP_none|apply optP_none|now left|discriminate].
      - cbn in Hstep. injection Hstep as <-. unfold sinv. cbn. auto. }
    destruct (match_blank l); [injection Hstep as <-; apply Happ; auto|].
    destruct (j_cvs J l || j_comments J l || j_more_comments J l); [injection Hstep as <-; apply Happ; auto|].
    cbn in Hstep. injection Hstep as <-. apply Happ; auto.
  - (* slurping *)
    pose proof (i_slurp _ Hi eq_refl) as Ho. cbn [p_old] in Ho. subst o.
    destruct Hst as (bs & bk & -> & Hbs & Kbk & (pre & t & post & Etr & H1 & H2 & H3 & H4)).
    unfold step_slurp, trail_last in Hstep. cbn [p_old p_blocks] in Hstep. rewrite upd_last_snoc in Hstep.
    cbn in Hstep. injection Hstep as <-. unfold sinv. cbn. split; [exact Hini|].
    exists bs, (add_trailing l bk). split; [reflexivity|]. split; [exact Hbs|].
    assert (Hsp : slurped (add_trailing l bk)).
    { exists pre, t, (post ++ [l]). cbn. rewrite Etr. split; [now rewrite <- app_assoc|].
      split; [exact H1|]. split; [exact H2|]. split; [exact H3|].
      apply Forall_app. split; [exact H4|]. constructor; [exact Hl|constructor]. }
    split; [|exact Hsp].
    assert (Hnt : b_no_trailer bk = false).
    { destruct (b_no_trailer bk) eqn:E; [|reflexivity]. destruct (k_notrailer J true bk Kbk E) as (_ & Htl & _).
      rewrite Htl in Etr. destruct pre; discriminate. }
    apply add_trailing_okc; [exact Kbk| |exact Hnt].
    right. split; [reflexivity|]. destruct Hsp as (pre' & t' & post' & E' & G1 & G2 & G3 & G4).
    cbn in E'. exists pre', t', post'. auto.
Qed.

Lemma sinv_init : sinv init_pst.
Proof. split; [constructor|exact I]. Qed.

Lemma steps_sinv ls : forall st stN,
  invs st -> sinv st -> forallb one_line ls = true -> STEPS st ls = Ok stN -> invs stN /\ sinv stN.
Proof.
  induction ls as [|l ls IH]; intros st stN Hi Hs Hls Hsteps; cbn [steps] in Hsteps.
  - injection Hsteps as <-. auto.
  - cbn [forallb] in Hls. apply andb_true_iff in Hls. destruct Hls as [Hl Hls].
    destruct (STEP st l) as [[st1|st1]|e] eqn:Estep; [|exfalso; exact (step_never_stops _ _ _ _ _ Estep)|discriminate].
    destruct (step_replay J allow st l st1 Hi Hl Estep) as (Hi1 & _).
    apply (IH st1 stN Hi1 (sinv_step st l st1 Hi Hs Hl Estep) Hls Hsteps).
Qed.

(** * The finished object *)

Lemma blocks_okc_snoc bs bk : Forall (blk_okc J false) bs -> blk_okc J true bk -> blocks_okc J (bs ++ [bk]).
Proof.
  induction bs as [|b bs IH]; intros Hbs Kbk; [exact Kbk|].
  inversion Hbs as [|? ? Kb Hbs']; subst. cbn [app]. apply blocks_okc_cons; [exact Kb|now apply IH].
Qed.

Lemma blocks_okc_all bs : Forall (blk_okc J false) bs -> blocks_okc J bs.
Proof.
  intros H. destruct bs as [|b bs]; [exact I|]. destruct (exists_last' (b :: bs) ltac:(discriminate)) as (l' & a & E).
  rewrite E in *. apply Forall_app in H. destruct H as (H1 & H2). inversion H2; subst.
  apply blocks_okc_snoc; [exact H1|now apply blk_okc_weaken].
Qed.

Lemma urg_ok_unknown : urg_ok s_unknown.
Proof. split; [discriminate|exact s_unknown_key]. Qed.

Lemma finish_doc_okc stN st :
  invs stN -> sinv stN -> finish false stN = Ok st -> doc_okc J (cl_of st).
Proof.
  intros Hi (Hini & Hst) Hfin. unfold finish in Hfin.
  destruct stN as [s o bl ini cur chg w]. cbn [p_state p_old p_initial p_blocks p_changes] in *.
  assert (Hpend : forall bk, blk_okc J true bk -> Forall (blk_okc J false) bl ->
            doc_okc J (mkCl ini (bl ++ [bk]))).
  { intros bk Kbk Hbl. constructor; cbn; [exact Hini|now apply blocks_okc_snoc|]. destruct bl; discriminate. }
  destruct s.
  - cbn in Hfin. injection Hfin as <-. unfold cl_of. cbn.
    destruct (i_head _ Hi) as (Hc & Hch); [cbn; auto|]. cbn [p_cur p_changes] in Hc, Hch. subst cur chg.
    pose proof (i_first _ Hi eq_refl) as Hb. cbn [p_blocks] in Hb. subst bl.
    apply (Hpend _); [|constructor].
    constructor; cbn.
    + apply optP_none.
    + apply optP_none.
    + apply optP_none.
    + apply optP_some. exact urg_ok_unknown.
    + split; [now left|reflexivity].
    + split; constructor.
    + constructor.
    + apply optP_none.
    + apply optP_none.
    + now left.
    + left. apply notrig_nil.
    + auto.
  - injection Hfin as <-. unfold cl_of. cbn. pose proof (i_nhe _ Hi (or_introl eq_refl)) as Hne. cbn in Hne.
    constructor; cbn; [exact Hini|now apply blocks_okc_all|]. intros E. congruence.
  - destruct Hst as (Hbl & Hchg). destruct (i_chg _ Hi) as (Hok & (F1 & F2 & F3 & F4 & F5 & F6)); [cbn; auto|].
    cbn [p_cur] in *. cbn in Hfin. injection Hfin as <-. unfold cl_of. cbn.
    assert (E : set_changes (set_no_trailer cur) chg
                = mkBlock (b_package cur) (b_version cur) (b_dists cur) (b_urgency cur) (b_comment cur) chg
                          None None [] (b_pairs cur) true [32; 32]%N).
    { destruct cur; cbn in *; subst; reflexivity. }
    rewrite E. apply Hpend; [|exact Hbl].
    apply cur_blk_okc; [exact Hok|exact Hchg|apply optP_none|apply optP_none|now left|auto].
  - destruct Hst as (Hbl & Hchg). destruct (i_chg _ Hi) as (Hok & (F1 & F2 & F3 & F4 & F5 & F6)); [cbn; auto|].
    cbn [p_cur] in *. cbn in Hfin. injection Hfin as <-. unfold cl_of. cbn.
    assert (E : set_changes (set_no_trailer cur) chg
                = mkBlock (b_package cur) (b_version cur) (b_dists cur) (b_urgency cur) (b_comment cur) chg
                          None None [] (b_pairs cur) true [32; 32]%N).
    { destruct cur; cbn in *; subst; reflexivity. }
    rewrite E. apply Hpend; [|exact Hbl].
    apply cur_blk_okc; [exact Hok|exact Hchg|apply optP_none|apply optP_none|now left|auto].
  - pose proof (i_slurp _ Hi eq_refl) as Ho. cbn [p_old] in Ho. subst o.
    injection Hfin as <-. unfold cl_of. cbn.
    destruct Hst as (bs & bk & -> & Hbs & Kbk & _).
    constructor; cbn; [exact Hini|now apply blocks_okc_snoc|]. destruct bs; discriminate.
Qed.

Theorem parsed_doc_okc s st :
  parse_changelog J false allow None (InStr s) = Ok st -> doc_okc J (cl_of st).
Proof.
  unfold parse_changelog. destruct (forallb ws s).
  - cbn. intros [= <-]. apply doc_okc_empty.
  - rewrite run_steps. destruct (STEPS init_pst (str_lines s)) as [stN|e] eqn:E; [|discriminate].
    cbn [bind]. intros Hfin.
    destruct (steps_sinv (str_lines s) init_pst stN invs_init sinv_init (str_lines_one_line s) E) as (Hi & Hs).
    exact (finish_doc_okc stN st Hi Hs Hfin).
Qed.

(** * [format_normal_form] *)

Theorem format_normal_form_edit c0 ops c t :
  doc_okc J c0 -> forallb op_dom ops = true -> apply_ops c0 ops = Ok c ->
  format_changelog false c = Ok t ->
  exists st', parse_changelog J false allow None (InStr t) = Ok st'
              /\ cl_of st' = mkCl (cl_initial c) (map block_norm (cl_blocks c))
              /\ format_changelog false (cl_of st') = Ok t.
Proof.
  intros H0 Hdom Hops Hfmt.
  pose proof (apply_ops_okc J ops c0 c H0 Hdom Hops) as Hc.
  destruct (parse_replay J allow c t Hc Hfmt) as (st' & Hp & Hcl).
  exists st'. split; [exact Hp|]. split; [exact Hcl|].
  rewrite Hcl. unfold format_changelog in *. cbn [cl_blocks cl_initial]. now rewrite format_blocks_norm.
Qed.

End Parsed.

(** [block_norm] changes nothing but the private no-trailer flag *)
Lemma block_norm_attrs b :
  b_package (block_norm b) = b_package b /\ b_version (block_norm b) = b_version b
  /\ b_dists (block_norm b) = b_dists b /\ b_urgency (block_norm b) = b_urgency b
  /\ b_comment (block_norm b) = b_comment b /\ b_changes (block_norm b) = b_changes b
  /\ b_author (block_norm b) = b_author b /\ b_date (block_norm b) = b_date b
  /\ b_trailing (block_norm b) = b_trailing b /\ b_pairs (block_norm b) = b_pairs b
  /\ b_sep (block_norm b) = b_sep b.
Proof. repeat split. Qed.

(** for a parsed object nothing changes at all: with [ops = []] this is theorem 3 again *)
Theorem format_normal_form J allow s st ops c t :
  parse_changelog J false allow None (InStr s) = Ok st ->
  forallb op_dom ops = true -> apply_ops (cl_of st) ops = Ok c ->
  format_changelog false c = Ok t ->
  exists st', parse_changelog J false allow None (InStr t) = Ok st'
              /\ cl_of st' = mkCl (cl_initial c) (map block_norm (cl_blocks c))
              /\ format_changelog false (cl_of st') = Ok t.
Proof.
  intros Hp. apply format_normal_form_edit. exact (parsed_doc_okc J allow s st Hp).
Qed.

Theorem format_normal_form_empty J allow ops c t :
  forallb op_dom ops = true -> apply_ops empty_changelog ops = Ok c ->
  format_changelog false c = Ok t ->
  exists st', parse_changelog J false allow None (InStr t) = Ok st'
              /\ cl_of st' = mkCl (cl_initial c) (map block_norm (cl_blocks c))
              /\ format_changelog false (cl_of st') = Ok t.
Proof. apply format_normal_form_edit. apply doc_okc_empty. Qed.
