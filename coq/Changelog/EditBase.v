(** C15, normal form after editing -- structural conditions.

    [blk_okc last b]: a STRUCTURAL description of the blocks that re-parse to themselves
    when formatted: every header field that is present lies in its class ([hdr_ok] of
    NormalHeader.v, field by field and conditional on presence); every change line is one
    that the parser keeps as a change line; author and date, when present, make a trailer
    line that [endline] takes apart in the same way; the trailing lines are non-heading
    lines, and only the last block may contain a line that switches the parser to
    "slurp" mode.

    This file: the conditions, the extra facts about the trailer pattern, and that values in
    the documented domains of the editing calls (Spec.v) satisfy them. *)
From Coq Require Import Lia.
From Verif Require Import Lib.Base Lib.PyStr Gen.PyChars Gen.ClChars
  Changelog.Model Changelog.Spec Changelog.EditSpec Changelog.CharFacts Changelog.LeafProofs
  Changelog.ParseProofs Changelog.WfProofs Changelog.NormalBase Changelog.NormalHeader Changelog.NormalProofs
  Changelog.BuiltProofs.

(** * More about the trailer pattern *)

Lemma split_last_no c s : forall p q, split_last c s = Some (p, q) -> mem_char c q = false.
Proof.
  induction s as [|x s IH]; intros p q; cbn [split_last]; [discriminate|].
  destruct (split_last c s) as [[p' q']|] eqn:E.
  - intros [= <- <-]. now apply (IH p' q').
  - destruct (x =? c)%N; [|discriminate]. intros [= <- <-].
    clear IH. revert E. induction s as [|y s IHs]; [reflexivity|]. cbn [split_last].
    destruct (split_last c s) as [[? ?]|]; [discriminate|]. destruct (y =? c)%N eqn:Ey; [discriminate|].
    intros _. unfold mem_char. cbn [existsb]. rewrite N.eqb_sym, Ey. now apply IHs.
Qed.

Lemma match_endline_inv2 l g1 g2 g3 g4 :
  match_endline l = Some (g1, g2, g3, g4) -> date_match g4 = true /\ mem_char 62 g4 = false.
Proof.
  unfold match_endline.
  destruct (strip_prefix [32; 45; 45; 32]%N l) as [x|]; [|discriminate].
  destruct (split_last 62 x) as [[pre post]|] eqn:E2; [|discriminate].
  apply split_last_no in E2.
  destruct (mem_char 10 pre); [discriminate|].
  destruct (split_last2 32 60 pre) as [[a b]|]; [|discriminate].
  destruct (strip_prefix [32; 32]%N post) as [d|] eqn:E4.
  - apply strip_prefix_spec in E4. destruct (date_match d) eqn:Ed; [|discriminate].
    intros [= <- <- <- <-]. split; [exact Ed|]. rewrite E4, mem_char_app in E2. now apply orb_false_iff in E2.
  - destruct (strip_prefix [32%N] post) as [d|] eqn:E5; [|discriminate].
    apply strip_prefix_spec in E5. destruct (date_match d) eqn:Ed; [|discriminate].
    intros [= <- <- <- <-]. split; [exact Ed|]. rewrite E5, mem_char_app in E2. now apply orb_false_iff in E2.
Qed.

(** a date never starts with a space *)
Lemma date_match_no_sp r : date_match (32%N :: r) = false.
Proof.
  unfold date_match, date_prefix. cbn [span]. assert (H : wchar 32 = false) by reflexivity. rewrite H.
  unfold eat_d. cbn [span]. assert (H' : dchar 32 = false) by reflexivity. rewrite H'. reflexivity.
Qed.

Definition author_ok (a : str) : Prop :=
  one_line a = true /\ exists p q, a = p ++ [32; 60]%N ++ q ++ [62%N].
Definition date_ok (d : str) : Prop :=
  date_match d = true /\ mem_char 62 d = false /\ one_line d = true.
Definition sep_ok (s : str) : Prop := s = [32; 32]%N \/ s = [32%N].

(** the formatted trailer line is taken apart into the same author, separator and date *)
Lemma match_endline_gen a sep d :
  author_ok a -> sep_ok sep -> date_ok d ->
  exists g1 g2, match_endline ([32; 45; 45]%N ++ (32%N :: a) ++ sep ++ d) = Some (g1, g2, sep, d)
                /\ g1 ++ [32; 60]%N ++ g2 ++ [62%N] = a.
Proof.
  intros (Hol & p & q & ->) Hsep (Hdm & Hgt & Hdl).
  unfold match_endline.
  change ([32; 45; 45]%N ++ (32%N :: (p ++ [32; 60]%N ++ q ++ [62%N])) ++ sep ++ d)
    with ([32; 45; 45; 32]%N ++ ((p ++ [32; 60]%N ++ q ++ [62%N]) ++ sep ++ d)).
  rewrite strip_prefix_app.
  assert (E : (p ++ [32; 60]%N ++ q ++ [62%N]) ++ sep ++ d = (p ++ 32%N :: 60%N :: q) ++ 62%N :: (sep ++ d)).
  { repeat (rewrite <- app_assoc; cbn [app]). reflexivity. }
  rewrite E. rewrite split_last_app.
  2:{ rewrite mem_char_app, Hgt. destruct Hsep as [-> | ->]; reflexivity. }
  assert (Hlf : mem_char 10 (p ++ 32%N :: 60%N :: q) = false).
  { apply one_line_lf in Hol. change (32%N :: 60%N :: q) with ([32; 60]%N ++ q).
    rewrite !mem_char_app in Hol. rewrite !mem_char_app.
    apply orb_false_iff in Hol. destruct Hol as [H1 H2]. apply orb_false_iff in H2. destruct H2 as [H2 H3].
    apply orb_false_iff in H3. destruct H3 as [H3 _]. now rewrite H1, H2, H3. }
  rewrite Hlf.
  destruct (split_last2_ex 32 60 p q) as (g1 & g2 & Hs). rewrite Hs.
  pose proof (split_last2_spec _ _ _ _ _ Hs) as Hpre.
  assert (Hre : forall x y : str, x ++ [32; 60]%N ++ y ++ [62%N] = (x ++ 32%N :: 60%N :: y) ++ [62%N]).
  { intros x y. repeat (rewrite <- app_assoc; cbn [app]). reflexivity. }
  exists g1, g2.
  destruct Hsep as [-> | ->].
  - rewrite strip_prefix_app, Hdm. split; [reflexivity|]. now rewrite !Hre, Hpre.
  - (* one space: the two-space alternative fails because a date does not start with a space *)
    destruct d as [|d0 dr]; [discriminate|].
    assert (Hd0 : (32 =? d0)%N = false).
    { destruct (32 =? d0)%N eqn:E0; [|reflexivity]. apply N.eqb_eq in E0. subst d0.
      now rewrite date_match_no_sp in Hdm. }
    assert (S1 : strip_prefix [32; 32]%N ([32%N] ++ d0 :: dr) = None).
    { change (strip_prefix [32; 32]%N ([32%N] ++ d0 :: dr))
        with (if (32 =? 32)%N then (if (32 =? d0)%N then Some dr else None) else None).
      now rewrite Hd0. }
    assert (S2 : strip_prefix [32%N] ([32%N] ++ d0 :: dr) = Some (d0 :: dr)) by reflexivity.
    rewrite S1, S2, Hdm.
    split; [reflexivity|]. now rewrite !Hre, Hpre.
Qed.

(** * Lines *)

Section Conditions.
Variable J : junk.

(** a line that, met while waiting for the next heading, switches to slurp mode *)
Definition trigger (l : str) : bool :=
  negb (match_blank l)
  && ((j_emacs J l || j_vim J l)
      || (negb (j_cvs J l || j_comments J l || j_more_comments J l) && old_format J l)).

Definition tline_ok (l : str) : Prop := one_line l = true /\ match_topline l = None.
Definition notrig (ls : list str) : Prop := Forall (fun l => tline_ok l /\ trigger l = false) ls.

Definition trailing_ok (last : bool) (ls : list str) : Prop :=
  notrig ls
  \/ (last = true /\ exists pre t post, ls = pre ++ t :: post /\ notrig pre /\ tline_ok t /\ trigger t = true
                                        /\ Forall (fun l => one_line l = true) post).

Definition chg_ok (l : str) : Prop :=
  one_line l = true /\ (match_change l = true \/ (match_endline l = None /\ match_nodetails l = false)).

(** * Blocks, field by field *)

Definition pkg_okp (p : str) : Prop :=
  exists c n, p = c :: n /\ wchar c = true /\ forallb name_char n = true /\ notcrlf c = true.
Definition ver_okp (v : str) : Prop := v <> [] /\ forallb ver_char v = true /\ forallb notcrlf v = true.

Definition optP {A} (P : A -> Prop) (o : option A) : Prop := forall x, o = Some x -> P x.

Record blk_okc (last : bool) (b : block) : Prop := {
  k_pkg : optP pkg_okp (b_package b);
  k_ver : optP ver_okp (b_version b);
  k_dist : optP dist_ok (b_dists b);
  k_urg : optP urg_ok (b_urgency b);
  k_com : com_ok (b_comment b);
  k_pairs : pairs_ok (b_pairs b);
  k_chg : Forall chg_ok (b_changes b);
  k_auth : optP author_ok (b_author b);
  k_date : optP date_ok (b_date b);
  k_sep : sep_ok (b_sep b);
  k_trailing : trailing_ok last (b_trailing b);
  k_notrailer : b_no_trailer b = true -> last = true /\ b_trailing b = [] /\ b_sep b = [32; 32]%N;
}.

Lemma trailing_ok_weaken ls : trailing_ok false ls -> trailing_ok true ls.
Proof. intros [H|(H & _)]; [now left|discriminate]. Qed.

End Conditions.

(** * Values in the documented domains satisfy the conditions *)

Lemma wf_package_okp p : wf_package p = true -> pkg_okp p.
Proof.
  unfold wf_package. intros H. apply andb_true_iff in H. destruct H as [H0 H].
  destruct p as [|c n]; [discriminate|]. cbn [first_ok] in H0. cbn [forallb] in H.
  apply andb_true_iff in H. destruct H as [Hc Hn].
  exists c, n. split; [reflexivity|]. split; [now apply alnum_wchar|].
  split; [exact (forallb_impl _ _ _ pkg_name_char Hn)|].
  destruct (pkg_char_plain c Hc) as (_ & H10 & H13). unfold notcrlf, is_crlf.
  apply N.eqb_neq in H10. apply N.eqb_neq in H13. now rewrite H10, H13.
Qed.

Lemma class_notcrlf (P : N -> bool) s :
  (forall c, P c = true -> (c < 128)%N /\ c <> 10%N /\ c <> 13%N) -> forallb P s = true -> forallb notcrlf s = true.
Proof.
  intros HP. apply forallb_impl. intros c Hc. destruct (HP c Hc) as (_ & H10 & H13).
  unfold notcrlf, is_crlf. apply N.eqb_neq in H10. apply N.eqb_neq in H13. now rewrite H10, H13.
Qed.

Lemma wf_version_okp v : wf_version v = true -> ver_okp v.
Proof.
  unfold wf_version. intros H. apply andb_true_iff in H. destruct H as [H _].
  apply andb_true_iff in H. destruct H as [Hne Hv].
  split; [destruct v; discriminate|]. split; [exact (forallb_impl _ _ _ version_ver_char Hv)|].
  exact (class_notcrlf _ _ version_char_plain Hv).
Qed.

Lemma wf_dists_str_ok d : wf_dists_str d = true -> dist_ok d.
Proof.
  unfold wf_dists_str. intros H.
  pose proof (join_split_on 32 d) as Hj. change [32%N] with SPs in Hj.
  destruct (join_dists_props (split_on 32 d) (split_on_nonempty 32 d) H) as (H1 & H2 & H3).
  rewrite Hj in H1, H2, H3. split; [exact H1|]. split; [exact H2|]. split; [exact H3|].
  rewrite <- one_line_notcrlf, <- Hj. now apply one_line_join.
Qed.

Lemma wf_key_urg_ok u : wf_key u = true -> urg_ok u.
Proof.
  intros H. destruct (wf_key_spec _ H) as (Hne & Hc). split; [exact Hne|exact (forallb_impl _ _ _ hkey_key_char Hc)].
Qed.

Lemma header_text_plain s : header_text s = true -> forallb plain s = true.
Proof.
  unfold header_text, one_line, plain. intros H. apply andb_true_iff in H. destruct H as [H1 H2].
  apply negb_true_iff in H1. apply negb_true_iff in H2. unfold mem_char in H2.
  induction s as [|c s IH]; [reflexivity|]. cbn [existsb forallb] in *.
  apply orb_false_iff in H1. destruct H1 as [A1 A2]. apply orb_false_iff in H2. destruct H2 as [B1 B2].
  rewrite (IH A2 B2), andb_true_r, A1. cbn. now rewrite N.eqb_sym, B1.
Qed.

Lemma wf_comment_com_ok com : wf_comment com = true -> com_ok com.
Proof.
  intros H. destruct (wf_comment_spec _ H) as (H1 & _). split; [exact H1|].
  unfold wf_comment in H. destruct com as [|c r]; [reflexivity|].
  apply andb_true_iff in H. destruct H as [_ H]. now apply header_text_plain.
Qed.

Lemma wf_value_val_ok v : wf_value v = true -> val_ok v.
Proof.
  intros H. destruct (wf_value_spec _ H) as (H1 & H2 & _ & _). split; [exact H1|]. split; [exact H2|].
  unfold wf_value in H. apply andb_true_iff in H. destruct H as [_ H]. now apply header_text_plain.
Qed.

Lemma distinct_NoDup ks : distinct ks = true -> NoDup ks.
Proof.
  induction ks as [|k ks IH]; [constructor|]. cbn [distinct]. intros H.
  apply andb_true_iff in H. destruct H as [H1 H2]. constructor; [|now apply IH].
  intros Hin. apply negb_true_iff in H1.
  assert (existsb (str_eqb k) ks = true) by (apply existsb_exists; exists k; split; [exact Hin|apply str_eqb_refl]).
  congruence.
Qed.

Lemma NoDup_map_inv {A B} (f : A -> B) (g : A -> B) l :
  (forall x y, In x l -> In y l -> g x = g y -> f x = f y) -> NoDup (map f l) -> NoDup (map g l).
Proof.
  intros Hfg. induction l as [|a l IH]; cbn [map]; [constructor|]. intros H. inversion H as [|? ? Hn Hd]; subst.
  constructor.
  - intros Hin. apply in_map_iff in Hin. destruct Hin as (y & Hy & Hyl). apply Hn.
    apply in_map_iff. exists y. split; [|exact Hyl]. symmetry. apply Hfg; [now left|now right|now symmetry].
  - apply IH; [|exact Hd]. intros x y Hx Hy. apply Hfg; now right.
Qed.

Lemma wf_pairs_ok ps : wf_pairs ps = true -> pairs_ok ps.
Proof.
  unfold wf_pairs. intros H. apply andb_true_iff in H. destruct H as [Hall Hd]. split.
  - apply Forall_forall. intros [k v] Hin. rewrite forallb_forall in Hall. specialize (Hall _ Hin).
    cbn [fst snd] in Hall. apply andb_true_iff in Hall. destruct Hall as [Hall Hnu].
    apply andb_true_iff in Hall. destruct Hall as [Hk Hv].
    destruct (wf_key_spec _ Hk) as (Hne & Hc).
    split; [exact Hne|]. split; [exact (forallb_impl _ _ _ hkey_key_char Hc)|]. split; [|now apply wf_value_val_ok].
    cbn [fst]. rewrite (key_lower_ascii k Hc). now apply negb_true_iff in Hnu.
  - apply distinct_NoDup in Hd.
    apply (NoDup_map_inv (fun kv => ascii_lower (fst kv)) fst); [|exact Hd].
    intros x y _ _ E. now rewrite E.
Qed.

Lemma wf_author_ok a : wf_author a = true -> author_ok a.
Proof.
  intros H. destruct (wf_author_split a H) as (name & mail & -> & _ & _). split.
  - unfold wf_author in H. apply andb_true_iff in H. destruct H as [H _]. apply andb_true_iff in H. now destruct H.
  - now exists name, mail.
Qed.

Lemma wf_date_str_ok d : wf_date_str d = true -> date_ok d.
Proof.
  unfold wf_date_str. destruct (read_date d) as [wd|]; [|discriminate]. intros H.
  apply andb_true_iff in H. destruct H as [Hwd Hr]. apply str_eqb_eq in Hr. subst d.
  split; [now apply date_match_render|]. split; [now apply date_no_gt|now apply date_one_line].
Qed.

Section Domain.
Variable J : junk.

Lemma change_line_chg_ok l : change_line l = true -> chg_ok l.
Proof.
  intros H. split; [now apply change_line_one_line|].
  destruct (change_line_cases l H) as [Hm|(_ & He & Hn & _)]; [now left|right; auto].
Qed.

Lemma blank_notrig ls : forallb blank_line ls = true -> notrig J ls.
Proof.
  intros H. apply Forall_forall. intros l Hin. rewrite forallb_forall in H. specialize (H l Hin).
  destruct (blank_line_spec l H) as (Hws & _). split.
  - split; [now apply blank_line_one_line|now apply match_topline_blank].
  - unfold trigger. unfold match_blank. now rewrite Hws.
Qed.

Lemma built_blk_okc last b : built_ok b -> blk_okc J last b.
Proof.
  intros [Hp Hv Hd (u & Hu & Hukey) Hcom Hch Ha Hdt Htr Hps Hnt Hsep].
  constructor.
  - intros p E. rewrite E in Hp. now apply wf_package_okp.
  - intros v E. rewrite E in Hv. now apply wf_version_okp.
  - intros d E. rewrite E in Hd. now apply wf_dists_str_ok.
  - intros u' E. rewrite Hu in E. injection E as <-. now apply wf_key_urg_ok.
  - now apply wf_comment_com_ok.
  - now apply wf_pairs_ok.
  - apply Forall_forall. intros l Hin. rewrite forallb_forall in Hch. apply change_line_chg_ok. now apply Hch.
  - intros a E. rewrite E in Ha. now apply wf_author_ok.
  - intros d E. rewrite E in Hdt. now apply wf_date_str_ok.
  - left. exact Hsep.
  - left. now apply blank_notrig.
  - rewrite Hnt. discriminate.
Qed.

End Domain.
