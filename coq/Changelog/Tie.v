(** Tie by regeneration, changelog printer and block methods: the functions of Gen/TrChangeBlock.v and
    Gen/TrChangelog.v (REGENERATED from lib/debian/changelog.py by harness/py2coq.py on every run) compute the
    model functions of Changelog/Model.v that Check.agree runs and Props/C04.v / Props/C15.v are about:
    [format_block], [format_changelog], [add_trailing], [add_change_list].  For ALL blocks / changelogs. *)
From Verif Require Import Lib.Base Lib.PyStr Lib.Dec Lib.Tr Changelog.Model Changelog.TrPrims
  Gen.TrChangeBlock Gen.TrChangelog.
Local Open Scope Z_scope.

(** * ChangeBlock._format *)

Definition pair_text (kv : str * str) : str := [44; 32]%N ++ fst kv ++ [61%N] ++ snd kv.

Lemma fmt_loop3 l self allow blk :
  tr_block_format_loop3 l self allow blk = Ok (blk ++ flat_map nl l).
Proof.
  revert blk. induction l as [|x l IH]; intros blk; cbn [tr_block_format_loop3 flat_map].
  - now rewrite app_nil_r.
  - rewrite IH. unfold nl. now rewrite <- !app_assoc.
Qed.

Lemma fmt_loop2 l self allow blk :
  tr_block_format_loop2 l self allow blk = tr_block_format_loop2 [] self allow (blk ++ flat_map nl l).
Proof.
  revert blk. induction l as [|x l IH]; intros blk.
  - cbn [flat_map]. now rewrite app_nil_r.
  - cbn [flat_map]. transitivity (tr_block_format_loop2 l self allow (blk ++ nl x)); [reflexivity|].
    rewrite IH. now rewrite <- app_assoc.
Qed.

Lemma fmt_loop1 l self allow blk :
  tr_block_format_loop1 l self allow blk = tr_block_format_loop1 [] self allow (blk ++ flat_map pair_text l).
Proof.
  revert blk. induction l as [|[k v] l IH]; intros blk.
  - cbn [flat_map]. now rewrite app_nil_r.
  - cbn [flat_map]. transitivity (tr_block_format_loop1 l self allow (blk ++ pair_text (k, v))).
    { unfold pair_text. cbn [tr_block_format_loop1 fst snd]. now rewrite app_nil_r. }
    rewrite IH. now rewrite <- app_assoc.
Qed.

Ltac norm_text :=
  unfold s_urgency, pair_text; repeat (progress (rewrite <- ?app_assoc; cbn [app])); reflexivity.

Theorem tr_block_format_eq b allow : tr_block_format b allow = format_block allow b.
Proof.
  unfold tr_block_format, format_block.
  destruct b as [p v d u com chg a dt trl prs nt sep].
  cbn [b_package b_version b_dists b_urgency b_comment b_changes b_author b_date b_trailing b_pairs b_no_trailer b_sep].
  destruct p as [p|]; [|reflexivity]. destruct v as [v|]; [|reflexivity].
  destruct d as [d|]; [|reflexivity]. destruct u as [u|]; [|reflexivity].
  cbn [tr_is_none tr_add_opt opt_or_err bind].
  unfold trp_dict_items. rewrite fmt_loop1. cbn [tr_block_format_loop1].
  unfold tr_block_changes. cbn [b_changes bind]. rewrite fmt_loop2. cbn [tr_block_format_loop2].
  cbn [b_no_trailer b_author b_date b_trailing b_sep].
  destruct nt, a as [a|], dt as [dt|], allow; cbn [negb orb andb tr_is_some is_some tr_add_opt bind];
    try reflexivity; rewrite fmt_loop3; norm_text.
Qed.

(** the same function with the parameter left out: the default is read from the source ([false]) *)
Lemma fmt0_loop3 l self allow blk :
  tr_block_format_default_loop3 l self blk allow = Ok (blk ++ flat_map nl l).
Proof.
  revert blk. induction l as [|x l IH]; intros blk; cbn [tr_block_format_default_loop3 flat_map].
  - now rewrite app_nil_r.
  - rewrite IH. unfold nl. now rewrite <- !app_assoc.
Qed.

Lemma fmt0_loop2 l self allow blk :
  tr_block_format_default_loop2 l self blk allow
  = tr_block_format_default_loop2 [] self (blk ++ flat_map nl l) allow.
Proof.
  revert blk. induction l as [|x l IH]; intros blk.
  - cbn [flat_map]. now rewrite app_nil_r.
  - cbn [flat_map]. transitivity (tr_block_format_default_loop2 l self (blk ++ nl x) allow); [reflexivity|].
    rewrite IH. now rewrite <- app_assoc.
Qed.

Lemma fmt0_loop1 l self allow blk :
  tr_block_format_default_loop1 l self blk allow
  = tr_block_format_default_loop1 [] self (blk ++ flat_map pair_text l) allow.
Proof.
  revert blk. induction l as [|[k v] l IH]; intros blk.
  - cbn [flat_map]. now rewrite app_nil_r.
  - cbn [flat_map]. transitivity (tr_block_format_default_loop1 l self (blk ++ pair_text (k, v)) allow).
    { unfold pair_text. cbn [tr_block_format_default_loop1 fst snd]. now rewrite app_nil_r. }
    rewrite IH. now rewrite <- app_assoc.
Qed.

Theorem tr_block_format_default_eq b : tr_block_format_default b = format_block false b.
Proof.
  unfold tr_block_format_default, format_block.
  destruct b as [p v d u com chg a dt trl prs nt sep].
  cbn [b_package b_version b_dists b_urgency b_comment b_changes b_author b_date b_trailing b_pairs b_no_trailer b_sep].
  destruct p as [p|]; [|reflexivity]. destruct v as [v|]; [|reflexivity].
  destruct d as [d|]; [|reflexivity]. destruct u as [u|]; [|reflexivity].
  cbn [tr_is_none tr_add_opt opt_or_err bind].
  unfold trp_dict_items. rewrite fmt0_loop1. cbn [tr_block_format_default_loop1].
  unfold tr_block_changes. cbn [b_changes bind]. rewrite fmt0_loop2. cbn [tr_block_format_default_loop2].
  cbn [b_no_trailer b_author b_date b_trailing b_sep].
  destruct nt, a as [a|], dt as [dt|]; cbn [negb orb andb tr_is_some is_some tr_add_opt bind];
    try reflexivity; rewrite fmt0_loop3; norm_text.
Qed.

Theorem tr_block_str_eq b : tr_block_str b = format_block false b.
Proof.
  unfold tr_block_str. rewrite tr_block_format_default_eq. now destruct (format_block false b).
Qed.

Theorem tr_block_changes_eq b : tr_block_changes b = Ok (b_changes b).
Proof. reflexivity. Qed.

(** * Changelog._format *)

Lemma join_nil_app a b : trp_join [] (a ++ b) = trp_join [] a ++ trp_join [] b.
Proof.
  unfold trp_join, join. induction a as [|x a IH]; [reflexivity|].
  destruct a as [|y a].
  - cbn [app intersperse_concat]. destruct b; cbn [intersperse_concat app]; [now rewrite app_nil_r|reflexivity].
  - change ((x :: y :: a) ++ b) with (x :: (y :: a) ++ b).
    change (intersperse_concat [] (x :: (y :: a) ++ b)) with (x ++ [] ++ intersperse_concat [] ((y :: a) ++ b)).
    rewrite IH. cbn [intersperse_concat app]. now rewrite <- app_assoc.
Qed.

Lemma join_nil_lines l : trp_join [] (map nl l) = flat_map nl l.
Proof.
  induction l as [|x l IH]; [reflexivity|].
  change (map nl (x :: l)) with ([nl x] ++ map nl l). rewrite join_nil_app, IH. reflexivity.
Qed.

Lemma cfmt_loop2 l self allow pieces :
  tr_changelog_format_loop2 l self allow pieces
  = do y <- format_blocks allow l; Ok (trp_join [] pieces ++ y).
Proof.
  revert pieces. induction l as [|b l IH]; intros pieces; cbn [tr_changelog_format_loop2 format_blocks bind].
  - now rewrite app_nil_r.
  - rewrite tr_block_format_eq. destruct (format_block allow b) as [x|e]; cbn [bind]; [|reflexivity].
    rewrite IH. destruct (format_blocks allow l) as [y|e]; cbn [bind]; [|reflexivity].
    rewrite join_nil_app. cbn [trp_join join intersperse_concat]. now rewrite <- app_assoc.
Qed.

Lemma cfmt_loop1 l self allow pieces :
  tr_changelog_format_loop1 l self allow pieces
  = tr_changelog_format_loop1 [] self allow (pieces ++ map nl l).
Proof.
  revert pieces. induction l as [|x l IH]; intros pieces.
  - cbn [map]. now rewrite app_nil_r.
  - cbn [map]. transitivity (tr_changelog_format_loop1 l self allow (pieces ++ [nl x])); [reflexivity|].
    rewrite IH. now rewrite <- app_assoc.
Qed.

Theorem tr_changelog_format_eq c allow : tr_changelog_format c allow = format_changelog allow c.
Proof.
  unfold tr_changelog_format, format_changelog. rewrite cfmt_loop1. cbn [tr_changelog_format_loop1 app].
  rewrite cfmt_loop2. now rewrite join_nil_lines.
Qed.

Lemma cfmt0_loop2 l self allow pieces :
  tr_changelog_format_default_loop2 l self pieces allow
  = do y <- format_blocks allow l; Ok (trp_join [] pieces ++ y).
Proof.
  revert pieces. induction l as [|b l IH]; intros pieces;
    cbn [tr_changelog_format_default_loop2 format_blocks bind].
  - now rewrite app_nil_r.
  - rewrite tr_block_format_eq. destruct (format_block allow b) as [x|e]; cbn [bind]; [|reflexivity].
    rewrite IH. destruct (format_blocks allow l) as [y|e]; cbn [bind]; [|reflexivity].
    rewrite join_nil_app. cbn [trp_join join intersperse_concat]. now rewrite <- app_assoc.
Qed.

Lemma cfmt0_loop1 l self allow pieces :
  tr_changelog_format_default_loop1 l self pieces allow
  = tr_changelog_format_default_loop1 [] self (pieces ++ map nl l) allow.
Proof.
  revert pieces. induction l as [|x l IH]; intros pieces.
  - cbn [map]. now rewrite app_nil_r.
  - cbn [map]. transitivity (tr_changelog_format_default_loop1 l self (pieces ++ [nl x]) allow); [reflexivity|].
    rewrite IH. now rewrite <- app_assoc.
Qed.

Theorem tr_changelog_format_default_eq c : tr_changelog_format_default c = format_changelog false c.
Proof.
  unfold tr_changelog_format_default, format_changelog. rewrite cfmt0_loop1.
  cbn [tr_changelog_format_default_loop1 app]. rewrite cfmt0_loop2. now rewrite join_nil_lines.
Qed.

Theorem tr_changelog_str_eq c : tr_changelog_str c = format_changelog false c.
Proof.
  unfold tr_changelog_str. rewrite tr_changelog_format_default_eq. now destruct (format_changelog false c).
Qed.

(** * add_trailing_line / add_change (METHOD MODE: the state is the attribute the method touches) *)

(** the object after the call: the state that the translated method returns, written back into the record *)
Definition mres_map {A S T} (f : S -> T) (r : mres A S) : mres A T :=
  match r with MOk a s => MOk a (f s) | MErr e s => MErr e (f s) end.

Definition with_trailing (b : block) (t : list str) : block :=
  mkBlock (b_package b) (b_version b) (b_dists b) (b_urgency b) (b_comment b) (b_changes b)
          (b_author b) (b_date b) t (b_pairs b) (b_no_trailer b) (b_sep b).

Theorem tr_add_trailing_line_eq b line :
  mres_map (with_trailing b) (tr_add_trailing_line (b_trailing b) line) = MOk tt (add_trailing line b).
Proof. reflexivity. Qed.

Lemma insert_at_end_of_prefix (pre l : list str) (c : str) :
  trp_list_insert (pre ++ l) (Z.of_nat (length pre)) c = (tt, pre ++ c :: l).
Proof.
  unfold trp_list_insert.
  assert (E : (Z.of_nat (length pre) <? 0) = false) by (apply Z.ltb_ge; apply Nat2Z.is_nonneg).
  rewrite E. rewrite app_length, Nat2Z.inj_add, Z.min_l by (pose proof (Nat2Z.is_nonneg (length l)); lia).
  rewrite Nat2Z.id.
  rewrite firstn_app, Nat.sub_diag, firstn_all. cbn [firstn]. rewrite app_nil_r.
  rewrite skipn_app, Nat.sub_diag, skipn_all. reflexivity.
Qed.

Lemma add_change_loop l : forall pre kx c added,
  tr_add_change_loop1 (tr_enumerate_from (Z.of_nat (length pre)) l) kx c (pre ++ l) added
  = match insert_before_nonblank c l with
    | Some r => kx c (pre ++ r) true
    | None => kx c (pre ++ l) added
    end.
Proof.
  induction l as [|x l IH]; intros pre kx c added.
  - reflexivity.
  - cbn [tr_enumerate_from tr_add_change_loop1 insert_before_nonblank]. unfold trp_blank_match.
    destruct (match_blank x) eqn:Hb.
    + replace (Z.of_nat (length pre) + 1) with (Z.of_nat (length (pre ++ [x])))
        by (rewrite app_length; cbn [length]; lia).
      replace (pre ++ x :: l) with ((pre ++ [x]) ++ l) by (now rewrite <- app_assoc).
      rewrite IH. destruct (insert_before_nonblank c l) as [r|]; now rewrite <- ?app_assoc.
    + now rewrite insert_at_end_of_prefix.
Qed.

Theorem tr_add_change_eq changes c : tr_add_change changes c = MOk tt (add_change_list c changes).
Proof.
  unfold tr_add_change, add_change_list. destruct changes as [|x l]; [reflexivity|].
  cbn [tr_is_nil negb]. unfold trp_list_reverse. unfold tr_enumerate.
  pose proof (add_change_loop (rev (x :: l)) []) as H. cbn [length app] in H.
  change (Z.of_nat 0) with 0 in H. rewrite H. clear H.
  destruct (insert_before_nonblank c (rev (x :: l))) as [r|]; cbn [negb]; unfold trp_list_append; reflexivity.
Qed.

Theorem tr_add_change_block b c :
  mres_map (set_changes b) (tr_add_change (b_changes b) c)
  = MOk tt (set_changes b (add_change_list c (b_changes b))).
Proof. now rewrite tr_add_change_eq. Qed.
