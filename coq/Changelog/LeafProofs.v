(** Lemmas about the regex leaves of Changelog/Model.v on the lines that the grammar of
    Changelog/Spec.v renders: header (topline, keyvalue, value_re), trailer (endline and
    its date sub-pattern), change and blank lines. *)
From Coq Require Import Lia ZifyBool.
From Verif Require Import Lib.Base Lib.PyStr Gen.PyChars Gen.ClChars
  Changelog.Model Changelog.Spec Changelog.CharFacts.

(** * Lists *)

Lemma last_opt_snoc {A} (s : list A) c : last_opt (s ++ [c]) = Some c.
Proof.
  induction s as [|x s IH]; [reflexivity|].
  cbn [app last_opt]. destruct (s ++ [c]) eqn:E; [destruct s; discriminate|exact IH].
Qed.

Lemma last_opt_some {A} (s : list A) c : last_opt s = Some c -> exists a, s = a ++ [c].
Proof.
  induction s as [|x s IH]; [discriminate|]. cbn [last_opt].
  destruct s as [|y s]; [intros [= <-]; now exists []|].
  intros H. destruct (IH H) as (a & Ha). exists (x :: a). now rewrite Ha.
Qed.

Lemma last_opt_app_r {A} (a b : list A) : b <> [] -> last_opt (a ++ b) = last_opt b.
Proof.
  intros Hb. induction a as [|x a IH]; [reflexivity|].
  cbn [app last_opt]. destruct (a ++ b) eqn:E; [destruct a, b; try discriminate; congruence|exact IH].
Qed.

Lemma last_opt_cons {A} (x : A) s : s <> [] -> last_opt (x :: s) = last_opt s.
Proof. intros H. destruct s; [congruence|reflexivity]. Qed.

Lemma forallb_app' {A} (p : A -> bool) a b : forallb p (a ++ b) = forallb p a && forallb p b.
Proof. apply forallb_app. Qed.

Lemma mem_char_app c a b : mem_char c (a ++ b) = mem_char c a || mem_char c b.
Proof. unfold mem_char. apply existsb_app. Qed.

Lemma mem_char_forall c s (p : N -> bool) :
  forallb p s = true -> p c = false -> mem_char c s = false.
Proof.
  intros H Hc. unfold mem_char. induction s as [|x s IH]; [reflexivity|].
  cbn [existsb forallb] in *. apply andb_true_iff in H. destruct H as [Hx Hs].
  rewrite (IH Hs), orb_false_r. apply N.eqb_neq. intros ->. congruence.
Qed.

Lemma strip_prefix_app pre s : strip_prefix pre (pre ++ s) = Some s.
Proof. induction pre as [|a pre IH]; [reflexivity|]. simpl. now rewrite N.eqb_refl. Qed.

Lemma dropwhile_none {A} (p : A -> bool) s : match s with x :: _ => p x = false | [] => True end -> dropwhile p s = s.
Proof. destruct s; [reflexivity|]. simpl. now intros ->. Qed.

Lemma mem_char_dropwhile c p s : mem_char c s = false -> mem_char c (dropwhile p s) = false.
Proof.
  unfold mem_char. induction s as [|x s IH]; [reflexivity|]. cbn [existsb dropwhile]. intros H.
  apply orb_false_iff in H. destruct H as [H1 H2]. destruct (p x); [now apply IH|].
  cbn [existsb]. now rewrite H1, H2.
Qed.

(** * Lines without line breaks *)

Lemma one_line_lf s : one_line s = true -> mem_char 10 s = false.
Proof.
  unfold one_line, mem_char. intros H. apply negb_true_iff in H.
  induction s as [|x s IH]; [reflexivity|]. cbn [existsb] in *. apply orb_false_iff in H. destruct H as [H1 H2].
  rewrite (IH H2), orb_false_r. unfold is_crlf in H1.
  apply orb_false_iff in H1. destruct H1 as [H1 _]. now rewrite N.eqb_sym.
Qed.

Lemma one_line_app a b : one_line (a ++ b) = one_line a && one_line b.
Proof. unfold one_line. rewrite existsb_app. now rewrite negb_orb. Qed.

Lemma one_line_forall (p : N -> bool) s :
  forallb p s = true -> (forall c, p c = true -> is_crlf c = false) -> one_line s = true.
Proof.
  intros H Hp. unfold one_line. apply negb_true_iff.
  induction s as [|x s IH]; [reflexivity|]. simpl in *. apply andb_true_iff in H. destruct H as [Hx Hs].
  now rewrite (Hp x Hx), (IH Hs).
Qed.

Lemma rstrip_lf_id s : mem_char 10 s = false -> rstrip_lf s = s.
Proof.
  intros H. unfold rstrip_lf, rstrip_by, rdropwhile.
  assert (G : mem_char 10 (rev s) = false).
  { unfold mem_char in *. destruct (existsb (N.eqb 10) (rev s)) eqn:E; [|reflexivity].
    apply existsb_exists in E. destruct E as (x & Hin & Hx). apply in_rev in Hin.
    assert (existsb (N.eqb 10) s = true) by (apply existsb_exists; eauto). congruence. }
  rewrite dropwhile_none; [apply rev_involutive|].
  destruct (rev s) as [|x r]; [exact I|]. unfold mem_char in G. cbn [existsb] in G.
  apply orb_false_iff in G. destruct G as [G _]. rewrite N.eqb_sym. exact G.
Qed.

Lemma chop_final_lf_id v c : last_opt v = Some c -> (c =? 10)%N = false -> chop_final_lf v = v.
Proof.
  intros H Hc. destruct (last_opt_some _ _ H) as (a & ->).
  unfold chop_final_lf. rewrite rev_app_distr. simpl. now rewrite Hc.
Qed.

Lemma dotstar_eol_no_lf s : mem_char 10 s = false -> dotstar_eol s = true.
Proof.
  unfold mem_char. induction s as [|x s IH]; [reflexivity|]. cbn [existsb dotstar_eol]. intros H.
  apply orb_false_iff in H. destruct H as [H1 H2]. rewrite N.eqb_sym in H1. rewrite H1. now apply IH.
Qed.

(** [strip] of a text with non-blank ends framed by one leading space *)
Lemma strip_sp_body body c0 r cl :
  body = c0 :: r -> ws c0 = false -> last_opt body = Some cl -> ws cl = false ->
  strip_by ws (32%N :: body) = body.
Proof.
  intros -> H0 Hl Hcl. unfold strip_by, lstrip_by, rstrip_by.
  change (dropwhile ws (32%N :: c0 :: r)) with (dropwhile ws (c0 :: r)).
  rewrite dropwhile_head_false by exact H0.
  destruct (last_opt_some _ _ Hl) as (a & Ha). rewrite Ha. now apply rdropwhile_app_keep.
Qed.

(** * split(',') of the key=value part *)

Lemma split_on_nosep c s : mem_char c s = false -> split_on c s = [s].
Proof.
  unfold mem_char. induction s as [|x s IH]; [reflexivity|]. cbn [existsb split_on]. intros H.
  apply orb_false_iff in H. destruct H as [H1 H2]. rewrite N.eqb_sym in H1. rewrite H1.
  now rewrite (IH H2).
Qed.

Lemma split_on_app_sep c a b : mem_char c a = false -> split_on c (a ++ c :: b) = a :: split_on c b.
Proof.
  unfold mem_char. induction a as [|x a IH]; cbn [existsb split_on app]; intros H.
  - now rewrite N.eqb_refl.
  - apply orb_false_iff in H. destruct H as [H1 H2]. rewrite N.eqb_sym in H1. rewrite H1.
    now rewrite (IH H2).
Qed.

Definition kv_piece (kv : str * str) : str := 32%N :: fst kv ++ 61%N :: snd kv.

Lemma render_pair_piece kv : render_pair kv = 44%N :: kv_piece kv.
Proof. reflexivity. Qed.

Lemma split_on_pairs head ps :
  mem_char 44 head = false ->
  forallb (fun kv => negb (mem_char 44 (fst kv)) && negb (mem_char 44 (snd kv))) ps = true ->
  split_on 44 (head ++ flat_map render_pair ps) = head :: map kv_piece ps.
Proof.
  revert head. induction ps as [|kv ps IH]; intros head Hh Hps.
  - simpl. rewrite app_nil_r. now apply split_on_nosep.
  - cbn [flat_map map]. rewrite render_pair_piece. cbn [app].
    rewrite split_on_app_sep by exact Hh. f_equal.
    cbn [forallb] in Hps. apply andb_true_iff in Hps. destruct Hps as [Hkv Hps].
    apply andb_true_iff in Hkv. destruct Hkv as [Hk Hv].
    apply negb_true_iff in Hk. apply negb_true_iff in Hv.
    apply IH; [|exact Hps].
    unfold kv_piece. change (32%N :: fst kv ++ 61%N :: snd kv) with ([32%N] ++ fst kv ++ [61%N] ++ snd kv).
    rewrite !mem_char_app, Hk, Hv. reflexivity.
Qed.

(** * keyvalue and value_re *)

Lemma match_keyvalue_kv k v c0 r cl :
  k <> [] -> forallb key_char k = true ->
  v = c0 :: r -> ws c0 = false -> last_opt v = Some cl -> ws cl = false -> mem_char 10 v = false ->
  match_keyvalue (k ++ 61%N :: v) = Some (k, v).
Proof.
  intros Hk Hkc Hv H0 Hl Hcl Hlf. unfold match_keyvalue.
  rewrite (span_forall_app key_char k 61%N v Hkc) by (apply punct_facts).
  destruct k as [|k0 k']; [congruence|].
  change (strip_prefix [61%N] (61%N :: v)) with (Some v).
  cbv iota beta. rewrite dropwhile_none by (subst v; exact H0).
  assert (Hcl10 : (cl =? 10)%N = false).
  { destruct (cl =? 10)%N eqn:E; [|reflexivity]. apply N.eqb_eq in E. subst cl. discriminate. }
  rewrite (chop_final_lf_id v cl Hl Hcl10). rewrite Hl, Hcl, Hlf. reflexivity.
Qed.

Lemma match_value_uc u com :
  u <> [] -> forallb key_char u = true ->
  (com = [] \/ exists c0 r cl, com = c0 :: r /\ ws c0 = true /\ last_opt com = Some cl /\ ws cl = false
                               /\ mem_char 10 com = false) ->
  match_value (u ++ com) = Some (u, com).
Proof.
  intros Hu Huc [->|(c0 & r & cl & Hc & H0 & Hl & Hcl & Hlf)]; unfold match_value.
  - rewrite app_nil_r, (span_forall_nil key_char u Huc). destruct u; [congruence|reflexivity].
  - subst com. rewrite (span_forall_app key_char u c0 r Huc) by (now apply ws_not_key_char).
    destruct u as [|u0 u']; [congruence|]. cbv iota beta. rewrite H0.
    assert (Hcl10 : (cl =? 10)%N = false).
    { destruct (cl =? 10)%N eqn:E; [|reflexivity]. apply N.eqb_eq in E. subst cl. discriminate. }
    rewrite dotstar_eol_no_lf by (now apply mem_char_dropwhile).
    rewrite (chop_final_lf_id _ cl Hl Hcl10).
    destruct (dropwhile ws (c0 :: r)) eqn:E; [|reflexivity].
    (* the body cannot be empty: the last character is not white space *)
    exfalso. destruct (last_opt_some _ _ Hl) as (a & Ha). rewrite Ha in E.
    assert (G : forall l, dropwhile ws (l ++ [cl]) <> []).
    { induction l as [|x l IHl]; simpl; [now rewrite Hcl|]. destruct (ws x); [exact IHl|discriminate]. }
    now apply (G a).
Qed.

(** * topline *)

Lemma match_topline_eq c n v g rest :
  wchar c = true -> forallb name_char n = true ->
  v <> [] -> forallb ver_char v = true ->
  forallb (fun x => ws x || name_char x) g = true ->
  (exists g0 g', g = g0 :: g' /\ ws g0 = true) ->
  (exists gl, last_opt g = Some gl /\ name_char gl = true) ->
  match_topline (c :: n ++ 32%N :: 40%N :: v ++ 41%N :: g ++ 59%N :: rest) = Some (c :: n, v, g, rest).
Proof.
  intros Hc Hn Hv Hvc Hg (g0 & g' & Hg0 & Hws) (gl & Hgl & Hname).
  unfold match_topline. rewrite Hc.
  rewrite (span_forall_app name_char n 32%N _ Hn) by (apply punct_facts).
  change (strip_prefix [32%N; 40%N] (32%N :: 40%N :: ?x)) with (Some x).
  cbv iota beta.
  rewrite (span_forall_app ver_char v 41%N _ Hvc) by (apply punct_facts).
  destruct v as [|v0 v']; [congruence|].
  change (strip_prefix [41%N] (41%N :: ?x)) with (Some x). cbv iota beta.
  rewrite (span_forall_app (fun x => ws x || name_char x) g 59%N rest Hg) by (vm_compute; reflexivity).
  subst g. rewrite Hgl. change (strip_prefix [59%N] (59%N :: rest)) with (Some rest).
  cbv iota beta. now rewrite Hws, Hname.
Qed.

(** * The date sub-pattern *)

Definition hd_not (P : N -> bool) (r : str) : Prop :=
  match r with x :: _ => P x = false | [] => True end.

Lemma forallb_impl {A} (p q : A -> bool) l :
  (forall x, p x = true -> q x = true) -> forallb p l = true -> forallb q l = true.
Proof.
  intros Hpq. induction l as [|x l IH]; [reflexivity|]. cbn [forallb]. intros H.
  apply andb_true_iff in H. destruct H as [Hx Hl]. now rewrite (Hpq x Hx), (IH Hl).
Qed.

Lemma hd_not_app (P Q : N -> bool) a b :
  forallb Q a = true -> (forall x, Q x = true -> P x = false) -> a <> [] -> hd_not P (a ++ b).
Proof.
  intros Ha HQ Hne. destruct a as [|x a]; [congruence|]. cbn [forallb] in Ha.
  apply andb_true_iff in Ha. destruct Ha as [Hx _]. cbn. now apply HQ.
Qed.

Lemma span_app_hd {A} (p : A -> bool) a r :
  forallb p a = true -> match r with x :: _ => p x = false | [] => True end -> span p (a ++ r) = (a, r).
Proof.
  intros Ha Hr. destruct r as [|x r].
  - rewrite app_nil_r. now apply span_forall_nil.
  - now apply span_forall_app.
Qed.

Lemma eat_d_ok lo hi ds r :
  forallb is_digit ds = true -> (lo <= length ds)%nat -> (length ds <= hi)%nat -> hd_not dchar r ->
  eat_d lo hi (ds ++ r) = Some r.
Proof.
  intros Hd Hlo Hhi Hr. unfold eat_d.
  rewrite (span_app_hd dchar ds r (forallb_impl _ _ _ digit_dchar Hd) Hr).
  apply Nat.leb_le in Hlo. apply Nat.leb_le in Hhi. now rewrite Hlo, Hhi.
Qed.

Lemma eat_d_end lo hi ds :
  forallb is_digit ds = true -> (lo <= length ds)%nat -> (length ds <= hi)%nat ->
  eat_d lo hi ds = Some [].
Proof.
  intros Hd Hlo Hhi. rewrite <- (app_nil_r ds) at 1. now apply eat_d_ok.
Qed.

Lemma eat_ws1_ok r : hd_not ws r -> eat_ws1 (32%N :: r) = Some r.
Proof. intros H. unfold eat_ws1. rewrite ws_sp. now rewrite dropwhile_none. Qed.

Lemma eat_w1_ok w r :
  w <> [] -> forallb wchar w = true -> hd_not wchar r -> eat_w1 (w ++ r) = Some r.
Proof.
  intros Hne Hw Hr. destruct w as [|w0 w']; [congruence|]. cbn [forallb] in Hw.
  apply andb_true_iff in Hw. destruct Hw as [H0 Hw']. cbn [app eat_w1]. rewrite H0.
  rewrite dropwhile_app_all by exact Hw'. now rewrite dropwhile_none.
Qed.

Lemma digits_spec lo hi s :
  digits lo hi s = true -> forallb is_digit s = true /\ (lo <= length s)%nat /\ (length s <= hi)%nat.
Proof.
  unfold digits. intros H. apply andb_true_iff in H. destruct H as [H H3].
  apply andb_true_iff in H. destruct H as [H1 H2].
  apply Nat.leb_le in H2. apply Nat.leb_le in H3. auto.
Qed.

Lemma letters_spec s : letters s = true -> s <> [] /\ forallb is_alpha s = true.
Proof.
  unfold letters. intros H. apply andb_true_iff in H. destruct H as [H1 H2].
  split; [destruct s; [discriminate|discriminate]|exact H2].
Qed.

Definition date_core (d : wdate) : str :=
  d_day d ++ 32%N :: d_month d ++ 32%N :: d_year d ++ 32%N :: d_hh d ++ 58%N :: d_mm d ++ 58%N
  :: d_ss d ++ 32%N :: d_sign d :: d_zone d.

Definition date_pre (d : wdate) : str :=
  match d_dow d with
  | Some w => w ++ 44%N :: (if d_pad d then [32%N; 32%N] else [32%N])
  | None => []
  end.

Lemma render_date_core d : render_date d = date_pre d ++ date_core d.
Proof.
  unfold render_date, date_pre, date_core, SPs. destruct (d_dow d) as [w|].
  - destruct (d_pad d); cbn [app]; rewrite <- !app_assoc; reflexivity.
  - reflexivity.
Qed.

Section Date.
Variable d : wdate.
Hypothesis Hwf : wf_date d = true.

Let Hparts :
  (match d_dow d with Some w => letters w = true | None => d_pad d = false end)
  /\ digits 1 2 (d_day d) = true /\ letters (d_month d) = true /\ digits 4 4 (d_year d) = true
  /\ digits 1 2 (d_hh d) = true /\ digits 2 2 (d_mm d) = true /\ digits 2 2 (d_ss d) = true
  /\ (d_sign d = 43%N \/ d_sign d = 45%N) /\ digits 4 4 (d_zone d) = true.
Proof.
  pose proof Hwf as W. unfold wf_date in W.
  apply andb_true_iff in W. destruct W as [W Hzone].
  apply andb_true_iff in W. destruct W as [W Hsign].
  apply andb_true_iff in W. destruct W as [W Hss].
  apply andb_true_iff in W. destruct W as [W Hmm].
  apply andb_true_iff in W. destruct W as [W Hhh].
  apply andb_true_iff in W. destruct W as [W Hyear].
  apply andb_true_iff in W. destruct W as [W Hmon].
  apply andb_true_iff in W. destruct W as [W Hday].
  repeat split; try assumption.
  - destruct (d_dow d); [exact W|now apply negb_true_iff].
  - apply orb_true_iff in Hsign. destruct Hsign as [E|E]; apply N.eqb_eq in E; auto.
Qed.

Lemma nonempty_digits lo hi s : digits (S lo) hi s = true -> s <> [].
Proof. intros H. apply digits_spec in H. destruct H as (_ & H & _). destruct s; [simpl in H; lia|discriminate]. Qed.

Lemma date_core_match :
  Model.obind (eat_d 1 2 (date_core d)) (fun s =>
  Model.obind (eat_ws1 s) (fun s =>
  Model.obind (eat_w1 s) (fun s =>
  Model.obind (eat_ws1 s) (fun s =>
  Model.obind (eat_d 4 4 s) (fun s =>
  Model.obind (eat_ws1 s) (fun s =>
  Model.obind (eat_d 1 2 s) (fun s =>
  Model.obind (eat_c 58 s) (fun s =>
  Model.obind (eat_d 2 2 s) (fun s =>
  Model.obind (eat_c 58 s) (fun s =>
  Model.obind (eat_d 2 2 s) (fun s =>
  Model.obind (eat_ws1 s) (fun s =>
  Model.obind (eat_sign s) (fun s =>
  eat_d 4 4 s))))))))))))) = Some [].
Proof.
  destruct Hparts as (_ & Hday & Hmon & Hyear & Hhh & Hmm & Hss & Hsign & Hzone).
  pose proof (digits_spec _ _ _ Hday) as (Dd & Dlo & Dhi).
  pose proof (digits_spec _ _ _ Hyear) as (Yd & Ylo & Yhi).
  pose proof (digits_spec _ _ _ Hhh) as (Hd & Hlo & Hhi).
  pose proof (digits_spec _ _ _ Hmm) as (Md & Mlo & Mhi).
  pose proof (digits_spec _ _ _ Hss) as (Sd & Slo & Shi).
  pose proof (digits_spec _ _ _ Hzone) as (Zd & Zlo & Zhi).
  pose proof (letters_spec _ Hmon) as (Mne & Ma).
  unfold date_core.
  rewrite eat_d_ok by (auto; apply punct_facts). cbn [Model.obind].
  rewrite eat_ws1_ok by (eapply hd_not_app; [exact Ma|exact alpha_not_ws|exact Mne]). cbn [Model.obind].
  rewrite eat_w1_ok by (first [exact Mne|exact (forallb_impl _ _ _ alpha_wchar Ma)|apply punct_facts]). cbn [Model.obind].
  rewrite eat_ws1_ok by (eapply hd_not_app; [exact Yd|exact digit_not_ws|exact (nonempty_digits _ _ _ Hyear)]).
  cbn [Model.obind].
  rewrite eat_d_ok by (auto; apply punct_facts). cbn [Model.obind].
  rewrite eat_ws1_ok by (eapply hd_not_app; [exact Hd|exact digit_not_ws|exact (nonempty_digits _ _ _ Hhh)]).
  cbn [Model.obind].
  rewrite eat_d_ok by (auto; apply punct_facts). cbn [Model.obind].
  change (eat_c 58 (58%N :: ?x)) with (Some x). cbn [Model.obind].
  rewrite eat_d_ok by (auto; apply punct_facts). cbn [Model.obind].
  change (eat_c 58 (58%N :: ?x)) with (Some x). cbn [Model.obind].
  rewrite eat_d_ok by (auto; apply punct_facts). cbn [Model.obind].
  rewrite eat_ws1_ok by (destruct Hsign as [-> | ->]; apply punct_facts). cbn [Model.obind].
  assert (Hs : eat_sign (d_sign d :: d_zone d) = Some (d_zone d)).
  { destruct Hsign as [-> | ->]; reflexivity. }
  rewrite Hs. cbn [Model.obind]. now apply eat_d_end.
Qed.

Lemma date_prefix_render : date_prefix (render_date d) = date_core d.
Proof.
  destruct Hparts as (Hdow & Hday & _).
  pose proof (digits_spec _ _ _ Hday) as (Dd & Dlo & Dhi).
  assert (Dne : d_day d <> []) by exact (nonempty_digits _ _ _ Hday).
  rewrite render_date_core. unfold date_pre, date_prefix.
  destruct (d_dow d) as [w|].
  - pose proof (letters_spec _ Hdow) as (Wne & Wa).
    rewrite <- app_assoc. cbn [app].
    rewrite (span_forall_app wchar w 44%N _ (forallb_impl _ _ _ alpha_wchar Wa)) by (apply punct_facts).
    destruct w as [|w0 w']; [congruence|].
    change (strip_prefix [44%N] (44%N :: ?x)) with (Some x). cbv iota beta.
    assert (Hhd : hd_not ws (date_core d)).
    { unfold date_core. eapply hd_not_app; [exact Dd|exact digit_not_ws|exact Dne]. }
    destruct (d_pad d); cbn [app dropwhile]; rewrite ?ws_sp; now apply dropwhile_none.
  - cbn [app]. unfold date_core at 1.
    rewrite (span_forall_app wchar (d_day d) 32%N _ (forallb_impl _ _ _ digit_wchar Dd)) by (apply punct_facts).
    destruct (d_day d) as [|d0 d']; [congruence|]. reflexivity.
Qed.

Lemma date_match_render : date_match (render_date d) = true.
Proof. unfold date_match. rewrite date_prefix_render, date_core_match. reflexivity. Qed.

Definition date_char (c : N) : bool :=
  is_digit c || is_alpha c || (c =? 44)%N || (c =? 32)%N || (c =? 58)%N || (c =? 43)%N || (c =? 45)%N.

Lemma date_chars : forallb date_char (render_date d) = true.
Proof.
  destruct Hparts as (Hdow & Hday & Hmon & Hyear & Hhh & Hmm & Hss & Hsign & Hzone).
  assert (Dg : forall s, forallb is_digit s = true -> forallb date_char s = true).
  { intros s. apply forallb_impl. intros x Hx. unfold date_char. now rewrite Hx. }
  assert (Al : forall s, forallb is_alpha s = true -> forallb date_char s = true).
  { intros s. apply forallb_impl. intros x Hx. unfold date_char. rewrite Hx. now rewrite orb_true_r. }
  pose proof (Dg _ (proj1 (digits_spec _ _ _ Hday))) as F1.
  pose proof (Al _ (proj2 (letters_spec _ Hmon))) as F2.
  pose proof (Dg _ (proj1 (digits_spec _ _ _ Hyear))) as F3.
  pose proof (Dg _ (proj1 (digits_spec _ _ _ Hhh))) as F4.
  pose proof (Dg _ (proj1 (digits_spec _ _ _ Hmm))) as F5.
  pose proof (Dg _ (proj1 (digits_spec _ _ _ Hss))) as F6.
  pose proof (Dg _ (proj1 (digits_spec _ _ _ Hzone))) as F7.
  assert (Hs : date_char (d_sign d) = true) by (destruct Hsign as [-> | ->]; reflexivity).
  assert (Hcore : forallb date_char (date_core d) = true).
  { unfold date_core.
    repeat (rewrite forallb_app || (progress cbn [forallb])).
    rewrite F1, F2, F3, F4, F5, F6, F7, Hs. reflexivity. }
  rewrite render_date_core, forallb_app, Hcore, andb_true_r. unfold date_pre.
  destruct (d_dow d) as [w|]; [|reflexivity].
  rewrite forallb_app, (Al _ (proj2 (letters_spec _ Hdow))). destruct (d_pad d); reflexivity.
Qed.

Lemma date_char_plain c : date_char c = true ->
  (c =? 62)%N = false /\ (c =? 10)%N = false /\ (c =? 13)%N = false /\ (c =? 60)%N = false.
Proof. unfold date_char, is_digit, is_alpha, is_upper, is_lower. lia. Qed.

Lemma date_no_gt : mem_char 62 (render_date d) = false.
Proof.
  apply (mem_char_forall 62 _ date_char date_chars). reflexivity.
Qed.

Lemma date_one_line : one_line (render_date d) = true.
Proof.
  apply (one_line_forall date_char _ date_chars). intros c Hc.
  destruct (date_char_plain c Hc) as (_ & H10 & H13 & _). unfold is_crlf. now rewrite H10, H13.
Qed.

End Date.

(** * endline *)

Lemma split_last_none c s : mem_char c s = false -> split_last c s = None.
Proof.
  unfold mem_char. induction s as [|x s IH]; [reflexivity|]. cbn [existsb split_last]. intros H.
  apply orb_false_iff in H. destruct H as [H1 H2]. rewrite (IH H2). rewrite N.eqb_sym in H1. now rewrite H1.
Qed.

Lemma split_last_app c a b : mem_char c b = false -> split_last c (a ++ c :: b) = Some (a, b).
Proof.
  intros Hb. induction a as [|x a IH]; cbn [app split_last].
  - now rewrite (split_last_none c b Hb), N.eqb_refl.
  - now rewrite IH.
Qed.

Lemma split_last2_cons a b x s :
  split_last2 a b (x :: s) =
  match split_last2 a b s with
  | Some (p, q) => Some (x :: p, q)
  | None => match s with
            | y :: s'' => if (x =? a)%N && (y =? b)%N then Some ([], s'') else None
            | [] => None
            end
  end.
Proof. reflexivity. Qed.

Lemma split_last2_ex a b p q : exists g1 g2, split_last2 a b (p ++ a :: b :: q) = Some (g1, g2).
Proof.
  induction p as [|x p (g1 & g2 & IH)]; cbn [app]; rewrite split_last2_cons.
  - destruct (split_last2 a b (b :: q)) as [[p' q']|]; [eauto|].
    rewrite !N.eqb_refl. cbn. eauto.
  - rewrite IH. eauto.
Qed.

Lemma split_last2_spec a b s : forall g1 g2, split_last2 a b s = Some (g1, g2) -> s = g1 ++ a :: b :: g2.
Proof.
  induction s as [|x s IH]; intros g1 g2; cbn [split_last2]; [discriminate|].
  destruct (split_last2 a b s) as [[p q]|].
  - intros [= <- <-]. cbn [app]. f_equal. now apply IH.
  - destruct s as [|y s']; [discriminate|].
    destruct ((x =? a)%N && (y =? b)%N) eqn:E; [|discriminate].
    intros [= <- <-]. apply andb_true_iff in E. destruct E as [E1 E2].
    apply N.eqb_eq in E1. apply N.eqb_eq in E2. now subst.
Qed.

Lemma match_endline_trailer name mail d :
  one_line name = true -> one_line mail = true -> wf_date d = true ->
  exists g1 g2,
    match_endline ([32; 45; 45; 32]%N ++ name ++ [32; 60]%N ++ mail ++ [62]%N ++ [32; 32]%N ++ render_date d)
      = Some (g1, g2, [32; 32]%N, render_date d)
    /\ g1 ++ [32; 60]%N ++ g2 = name ++ [32; 60]%N ++ mail.
Proof.
  intros Hn Hm Hd. unfold match_endline. rewrite strip_prefix_app.
  assert (E : name ++ [32; 60]%N ++ mail ++ [62]%N ++ [32; 32]%N ++ render_date d
              = (name ++ 32%N :: 60%N :: mail) ++ 62%N :: ([32; 32]%N ++ render_date d)).
  { rewrite <- app_assoc. reflexivity. }
  rewrite E. rewrite split_last_app.
  2:{ rewrite mem_char_app, (date_no_gt d Hd). reflexivity. }
  assert (Hlf : mem_char 10 (name ++ 32%N :: 60%N :: mail) = false).
  { change (32%N :: 60%N :: mail) with ([32; 60]%N ++ mail).
    rewrite !mem_char_app, (one_line_lf _ Hn), (one_line_lf _ Hm). reflexivity. }
  rewrite Hlf.
  destruct (split_last2_ex 32 60 name mail) as (g1 & g2 & Hs). rewrite Hs.
  rewrite strip_prefix_app, (date_match_render d Hd).
  exists g1, g2. split; [reflexivity|].
  apply split_last2_spec in Hs. cbn [app]. now rewrite <- Hs.
Qed.

(** * blank and change lines *)

Definition range_all (lo hi : N) (P : N -> bool) : bool :=
  forallb P (map (fun k => (lo + N.of_nat k)%N) (seq 0 (N.to_nat (hi - lo) + 1))).

Lemma range_all_spec lo hi P c :
  range_all lo hi P = true -> (lo <= c)%N -> (c <= hi)%N -> P c = true.
Proof.
  intros H Hlo Hhi. unfold range_all in H. rewrite forallb_forall in H. apply H.
  apply in_map_iff. exists (N.to_nat (c - lo)). split; [lia|]. apply in_seq. lia.
Qed.

Lemma ws_not_wchar c : ws c = true -> wchar c = false.
Proof.
  unfold ws, py_isspace, in_ranges. intros H. apply existsb_exists in H.
  destruct H as ([lo hi] & Hin & Hc). cbn [fst snd] in Hc.
  assert (G : forallb (fun r => range_all (fst r) (snd r) (fun c => negb (wchar c))) py_space_ranges = true)
    by (vm_compute; reflexivity).
  rewrite forallb_forall in G. specialize (G _ Hin). cbn [fst snd] in G.
  apply andb_true_iff in Hc. destruct Hc as [H1 H2].
  apply N.leb_le in H1. apply N.leb_le in H2.
  apply negb_true_iff. exact (range_all_spec lo hi _ c G H1 H2).
Qed.

Lemma match_topline_blank l : forallb ws l = true -> match_topline l = None.
Proof.
  destruct l as [|c r]; [reflexivity|]. cbn [forallb]. intros H.
  apply andb_true_iff in H. destruct H as [Hc _]. unfold match_topline. now rewrite (ws_not_wchar c Hc).
Qed.

Lemma blank_line_spec l : blank_line l = true -> forallb ws l = true /\ mem_char 10 l = false.
Proof.
  unfold blank_line. intros H. apply andb_true_iff in H. destruct H as [H1 H2].
  split; [exact H1|now apply one_line_lf].
Qed.

(** what step_changes sees of a grammar change line: either changere matches, or none of
    changere / endline / endline_nodetails does and the line is blank *)
Lemma change_line_cases l :
  change_line l = true ->
  match_change l = true \/
  (match_change l = false /\ match_endline l = None /\ match_nodetails l = false /\ match_blank l = true).
Proof.
  unfold change_line. intros H. apply andb_true_iff in H. destruct H as [Hol H].
  pose proof (one_line_lf _ Hol) as Hlf.
  apply orb_true_iff in H. destruct H as [Hb|Hs].
  - (* white space only *)
    change (forallb ws l = true) in Hb.
    destruct l as [|a [|b r]].
    + right. repeat split; reflexivity.
    + right. cbn [forallb] in Hb. apply andb_true_iff in Hb. destruct Hb as [Ha _].
      unfold match_blank. cbn [forallb]. rewrite Ha.
      repeat split; try reflexivity.
      * unfold match_endline. cbn [strip_prefix]. destruct (32 =? a)%N; reflexivity.
      * unfold match_nodetails. cbn [strip_prefix]. destruct (32 =? a)%N; reflexivity.
    + left. cbn [forallb] in Hb. apply andb_true_iff in Hb. destruct Hb as [Ha Hb].
      apply andb_true_iff in Hb. destruct Hb as [Hb Hr].
      unfold match_change. rewrite Ha, Hb.
      rewrite dotstar_eol_no_lf; [reflexivity|]. apply mem_char_dropwhile.
      change (a :: b :: r) with ([a; b] ++ r) in Hlf. rewrite mem_char_app in Hlf.
      now apply orb_false_iff in Hlf.
  - left. destruct l as [|a [|b r]]; cbn [startswith] in Hs;
      try (rewrite andb_false_r in Hs); try discriminate.
    apply andb_true_iff in Hs. destruct Hs as [Ha Hs].
    apply andb_true_iff in Hs. destruct Hs as [Hb _].
    apply N.eqb_eq in Ha. apply N.eqb_eq in Hb. subst a b.
    unfold match_change. rewrite ws_sp.
    rewrite dotstar_eol_no_lf; [reflexivity|]. apply mem_char_dropwhile.
    change (32%N :: 32%N :: r) with ([32; 32]%N ++ r) in Hlf. rewrite mem_char_app in Hlf.
    now apply orb_false_iff in Hlf.
Qed.

(** * The distribution list *)

Lemma forallb_last {A} (p : A -> bool) s c : forallb p s = true -> last_opt s = Some c -> p c = true.
Proof.
  intros H Hl. destruct (last_opt_some _ _ Hl) as (a & ->).
  rewrite forallb_app in H. apply andb_true_iff in H. destruct H as [_ H]. cbn in H.
  now rewrite andb_true_r in H.
Qed.

Lemma wf_dist_spec s : wf_dist s = true -> s <> [] /\ forallb pkg_char s = true.
Proof.
  unfold wf_dist. intros H. apply andb_true_iff in H. destruct H as [H1 H2].
  split; [destruct s; discriminate|exact H2].
Qed.

Lemma last_opt_nonempty {A} (s : list A) : s <> [] -> exists c, last_opt s = Some c.
Proof.
  induction s as [|x s IH]; [congruence|]. intros _. destruct s as [|y s]; [now exists x|].
  destruct IH as (c & Hc); [discriminate|]. exists c. exact Hc.
Qed.

Lemma join_dists_props dists :
  dists <> [] -> forallb wf_dist dists = true ->
  forallb (fun x => ws x || name_char x) (join SPs dists) = true
  /\ (exists c r, join SPs dists = c :: r /\ ws c = false)
  /\ (exists gl, last_opt (join SPs dists) = Some gl /\ name_char gl = true).
Proof.
  induction dists as [|d1 ds IH]; [congruence|]. intros _ H.
  cbn [forallb] in H. apply andb_true_iff in H. destruct H as [H1 Hds].
  destruct (wf_dist_spec _ H1) as (Hne & Hp).
  assert (Hd1 : forallb (fun x => ws x || name_char x) d1 = true).
  { eapply forallb_impl; [|exact Hp]. intros x Hx. now rewrite (pkg_name_char x Hx), orb_true_r. }
  assert (Hfirst : exists c r, d1 = c :: r /\ ws c = false).
  { destruct d1 as [|c r]; [congruence|]. exists c, r. split; [reflexivity|].
    cbn [forallb] in Hp. apply andb_true_iff in Hp. now apply pkg_not_ws. }
  destruct ds as [|d2 ds'].
  - cbn [join intersperse_concat]. split; [exact Hd1|]. split; [exact Hfirst|].
    destruct (last_opt_nonempty d1 Hne) as (gl & Hgl). exists gl. split; [exact Hgl|].
    apply pkg_name_char. exact (forallb_last _ _ _ Hp Hgl).
  - destruct (IH ltac:(discriminate) Hds) as (I1 & (c2 & r2 & I2 & I2') & (gl & I3 & I3')).
    rewrite join_cons by discriminate.
    change (SPs ++ join SPs (d2 :: ds')) with (32%N :: join SPs (d2 :: ds')).
    split.
    { rewrite forallb_app. cbn [forallb]. now rewrite Hd1, I1, ws_sp. }
    split.
    { destruct Hfirst as (c & r & -> & Hc). exists c. eexists. split; [reflexivity|exact Hc]. }
    exists gl. split; [|exact I3'].
    rewrite last_opt_app_r by discriminate. rewrite last_opt_cons; [exact I3|]. rewrite I2. discriminate.
Qed.

(** * The key=value loop on a grammar header *)

Lemma distinct_app_mid a x b : distinct (a ++ x :: b) = true -> existsb (str_eqb x) a = false.
Proof.
  induction a as [|y a IH]; [reflexivity|]. cbn [app distinct existsb]. intros H.
  apply andb_true_iff in H. destruct H as [H1 H2]. rewrite (IH H2), orb_false_r.
  apply negb_true_iff in H1. rewrite existsb_app in H1. apply orb_false_iff in H1.
  destruct H1 as [_ H1]. cbn [existsb] in H1. apply orb_false_iff in H1. destruct H1 as [H1 _].
  destruct (str_eqb x y) eqn:E; [|reflexivity]. apply str_eqb_eq in E. subst y.
  now rewrite str_eqb_refl in H1.
Qed.

Lemma dict_set_fresh k v other :
  existsb (fun kv => str_eqb (fst kv) k) other = false -> dict_set k v other = other ++ [(k, v)].
Proof.
  induction other as [|[k' v'] other IH]; [reflexivity|]. cbn [existsb dict_set app fst]. intros H.
  apply orb_false_iff in H. destruct H as [H1 H2]. now rewrite H1, (IH H2).
Qed.

Definition lw (kv : str * str) : str := ascii_lower (fst kv).

Lemma wf_key_spec k : wf_key k = true -> k <> [] /\ forallb hkey_char k = true.
Proof.
  unfold wf_key. intros H. apply andb_true_iff in H. destruct H as [H1 H2].
  split; [destruct k; discriminate|exact H2].
Qed.

Lemma hkey_first k : k <> [] -> forallb hkey_char k = true -> exists c r, k = c :: r /\ ws c = false.
Proof.
  intros Hne H. destruct k as [|c r]; [congruence|]. exists c, r. split; [reflexivity|].
  cbn [forallb] in H. apply andb_true_iff in H. now apply hkey_not_ws.
Qed.

Lemma wf_value_spec v :
  wf_value v = true ->
  (exists c r, v = c :: r /\ ws c = false) /\ (exists cl, last_opt v = Some cl /\ ws cl = false)
  /\ mem_char 10 v = false /\ mem_char 44 v = false.
Proof.
  unfold wf_value, header_text. intros H. apply andb_true_iff in H. destruct H as [H H3].
  apply andb_true_iff in H. destruct H as [H1 H2]. apply andb_true_iff in H3. destruct H3 as [H3 H4].
  repeat split.
  - destruct v as [|c r]; [discriminate|]. exists c, r. split; [reflexivity|].
    cbn in H1. now apply negb_true_iff in H1.
  - unfold last_ok in H2. destruct (last_opt v) as [cl|]; [|discriminate].
    exists cl. split; [reflexivity|now apply negb_true_iff in H2].
  - now apply one_line_lf.
  - now apply negb_true_iff in H4.
Qed.

Lemma hkey_no_char (c : N) k :
  forallb hkey_char k = true -> hkey_char c = false -> mem_char c k = false.
Proof. intros H Hc. exact (mem_char_forall c k hkey_char H Hc). Qed.

Section KvPairs.
Variable strictb : bool.

Lemma kv_loop_pairs ps : forall keys other st,
  wf_pairs (other ++ ps) = true ->
  (forall x, existsb (str_eqb x) keys = true <-> x = s_urgency \/ In x (map lw other)) ->
  kv_loop strictb (map kv_piece ps) keys other st
  = Ok (with_cur st (set_pairs (p_cur st) (other ++ ps))).
Proof.
  induction ps as [|[k v] ps IH]; intros keys other st Hwf Hkeys.
  - cbn [map kv_loop]. now rewrite app_nil_r.
  - cbn [map kv_loop].
    pose proof Hwf as Hwf0.
    unfold wf_pairs in Hwf. apply andb_true_iff in Hwf. destruct Hwf as [Hall Hdist].
    rewrite forallb_app in Hall. apply andb_true_iff in Hall. destruct Hall as [Hoth Hall].
    cbn [forallb fst snd] in Hall. apply andb_true_iff in Hall. destruct Hall as [Hkv _].
    apply andb_true_iff in Hkv. destruct Hkv as [Hkv Hnu].
    apply andb_true_iff in Hkv. destruct Hkv as [Hk Hv].
    destruct (wf_key_spec _ Hk) as (Hkne & Hkc).
    destruct (wf_value_spec _ Hv) as ((c0 & r0 & Hv0 & Hc0) & (cl & Hvl & Hcl) & Hvlf & _).
    destruct (hkey_first k Hkne Hkc) as (kc & kr & Hk0 & Hkc0).
    (* pair.strip() *)
    assert (Hstrip : strip_by ws (kv_piece (k, v)) = k ++ 61%N :: v).
    { unfold kv_piece. cbn [fst snd].
      eapply (strip_sp_body (k ++ 61%N :: v) kc (kr ++ 61%N :: v) cl).
      - now rewrite Hk0.
      - exact Hkc0.
      - rewrite last_opt_app_r by discriminate. rewrite last_opt_cons; [exact Hvl|]. rewrite Hv0. discriminate.
      - exact Hcl. }
    rewrite Hstrip.
    rewrite (match_keyvalue_kv k v c0 r0 cl Hkne (forallb_impl _ _ _ hkey_key_char Hkc) Hv0 Hc0 Hvl Hcl Hvlf).
    rewrite (key_lower_ascii k Hkc).
    (* not a repeated key *)
    assert (Hfresh : existsb (str_eqb (ascii_lower k)) keys = false).
    { destruct (existsb (str_eqb (ascii_lower k)) keys) eqn:E; [|reflexivity].
      apply Hkeys in E. destruct E as [E|E].
      - apply negb_true_iff in Hnu. unfold s_urgency_l in Hnu. unfold s_urgency in E. rewrite E in Hnu.
        now rewrite str_eqb_refl in Hnu.
      - rewrite map_app in Hdist. cbn [map] in Hdist.
        pose proof (distinct_app_mid _ _ _ Hdist) as Hd. cbn [fst] in Hd.
        assert (existsb (str_eqb (ascii_lower k)) (map (fun kv => ascii_lower (fst kv)) other) = true).
        { apply existsb_exists. exists (ascii_lower k). split; [exact E|apply str_eqb_refl]. }
        congruence. }
    rewrite Hfresh. cbn [bind].
    apply negb_true_iff in Hnu. change s_urgency_l with s_urgency in Hnu. rewrite Hnu.
    (* a new dictionary key *)
    assert (Hnew : existsb (fun kv => str_eqb (fst kv) k) other = false).
    { destruct (existsb (fun kv => str_eqb (fst kv) k) other) eqn:E; [|reflexivity].
      apply existsb_exists in E. destruct E as ([k' v'] & Hin & Hk'). cbn [fst] in Hk'.
      apply str_eqb_eq in Hk'. subst k'.
      assert (existsb (str_eqb (ascii_lower k)) keys = true).
      { apply Hkeys. right. apply in_map_iff. exists (k, v'). split; [reflexivity|exact Hin]. }
      congruence. }
    rewrite (dict_set_fresh k v other Hnew).
    rewrite IH.
    + now rewrite <- app_assoc.
    + now rewrite <- app_assoc.
    + intros x. cbn [existsb]. rewrite orb_true_iff, Hkeys, map_app, in_app_iff. cbn [map In lw fst].
      rewrite str_eqb_eq. intuition (subst; auto).
Qed.

End KvPairs.

Lemma wf_comment_spec com :
  wf_comment com = true ->
  (com = [] \/ exists c0 r cl, com = c0 :: r /\ ws c0 = true /\ last_opt com = Some cl /\ ws cl = false
                               /\ mem_char 10 com = false)
  /\ mem_char 44 com = false.
Proof.
  unfold wf_comment. destruct com as [|c0 r]; [intros _; split; [now left|reflexivity]|].
  intros H. apply andb_true_iff in H. destruct H as [H H3].
  apply andb_true_iff in H. destruct H as [H1 H2].
  unfold header_text in H3. apply andb_true_iff in H3. destruct H3 as [H3 H4].
  split; [|now apply negb_true_iff in H4].
  right. unfold last_ok in H2. destruct (last_opt (c0 :: r)) as [cl|] eqn:E; [|discriminate].
  exists c0, r, cl. repeat split; auto.
  - now apply negb_true_iff in H2.
  - now apply one_line_lf.
Qed.

Lemma key_lower_urgency : key_lower s_urgency = s_urgency.
Proof. vm_compute. reflexivity. Qed.

Lemma kv_loop_header strictb u com ps st :
  wf_key u = true -> wf_comment com = true -> wf_pairs ps = true ->
  kv_loop strictb (split_on 44 (32%N :: s_urgency_eq ++ u ++ com ++ flat_map render_pair ps)) [] [] st
  = Ok (with_cur st (set_pairs (set_urgency (p_cur st) u com) ps)).
Proof.
  intros Hu Hcom Hps.
  destruct (wf_key_spec _ Hu) as (Hune & Huc).
  destruct (wf_comment_spec _ Hcom) as (Hcs & Hc44).
  destruct (hkey_first u Hune Huc) as (uc & ur & Hu0 & Huc0).
  (* split(',') *)
  assert (E : 32%N :: s_urgency_eq ++ u ++ com ++ flat_map render_pair ps
              = (32%N :: s_urgency_eq ++ u ++ com) ++ flat_map render_pair ps).
  { cbn [app]. now rewrite <- !app_assoc. }
  rewrite E. rewrite split_on_pairs.
  2:{ change (32%N :: s_urgency_eq ++ u ++ com) with ((32%N :: s_urgency_eq) ++ u ++ com).
      rewrite !mem_char_app, Hc44, (hkey_no_char 44 u Huc eq_refl). reflexivity. }
  2:{ unfold wf_pairs in Hps. apply andb_true_iff in Hps. destruct Hps as [Hall _].
      eapply forallb_impl; [|exact Hall]. intros [k v] H. cbn [fst snd] in *.
      apply andb_true_iff in H. destruct H as [H _]. apply andb_true_iff in H. destruct H as [Hk Hv].
      destruct (wf_key_spec _ Hk) as (_ & Hkc). destruct (wf_value_spec _ Hv) as (_ & _ & _ & Hv44).
      now rewrite (hkey_no_char 44 k Hkc eq_refl), Hv44. }
  cbn [kv_loop].
  (* the value: urgency and comment *)
  assert (Hval : exists c0 r cl, u ++ com = c0 :: r /\ ws c0 = false /\ last_opt (u ++ com) = Some cl
                                 /\ ws cl = false /\ mem_char 10 (u ++ com) = false).
  { exists uc, (ur ++ com). rewrite Hu0. cbn [app].
    destruct Hcs as [->|(c0 & r & cl & Hc & Hws & Hl & Hcl & Hlf)].
    - rewrite app_nil_r. rewrite <- Hu0.
      destruct (last_opt_nonempty u Hune) as (cl & Hcl). exists cl. repeat split; auto.
      + apply hkey_not_ws. exact (forallb_last _ _ _ Huc Hcl).
      + exact (hkey_no_char 10 u Huc eq_refl).
    - exists cl. change (uc :: ur ++ com) with ((uc :: ur) ++ com). rewrite <- Hu0.
      repeat split; auto.
      + rewrite last_opt_app_r; [exact Hl|]. rewrite Hc. discriminate.
      + now rewrite mem_char_app, (hkey_no_char 10 u Huc eq_refl), Hlf. }
  destruct Hval as (c0 & r & cl & Hv0 & Hc0 & Hvl & Hcl & Hvlf).
  assert (Hstrip : strip_by ws (32%N :: s_urgency_eq ++ u ++ com) = s_urgency ++ 61%N :: (u ++ com)).
  { change (s_urgency_eq ++ u ++ com) with (s_urgency ++ 61%N :: (u ++ com)).
    eapply (strip_sp_body _ 117%N _ cl); [reflexivity|reflexivity| |exact Hcl].
    rewrite last_opt_app_r by discriminate. rewrite last_opt_cons; [exact Hvl|]. rewrite Hv0. discriminate. }
  rewrite Hstrip.
  rewrite (match_keyvalue_kv s_urgency (u ++ com) c0 r cl ltac:(discriminate) eq_refl Hv0 Hc0 Hvl Hcl Hvlf).
  rewrite key_lower_urgency. cbn [existsb bind]. rewrite str_eqb_refl.
  rewrite (match_value_uc u com Hune (forallb_impl _ _ _ hkey_key_char Huc) Hcs).
  rewrite (kv_loop_pairs strictb ps [s_urgency] [] _ Hps).
  - reflexivity.
  - intros x. cbn [existsb map In]. rewrite orb_false_r, str_eqb_eq. intuition.
Qed.
