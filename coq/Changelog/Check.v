(** Case format evaluated by the correspondence checks of C04 and C15.
    [agree]: the model (Changelog/Model.v) reproduces what the implementation did.
    [holds]: the property itself, judged on what the implementation did
             (C04 against Changelog/Spec.v; C15 on the observations alone).

    The thirteen junk patterns are instantiated by a per-case table
    line -> bit mask which the harness fills from the LIVE compiled patterns of
    the imported module (bit 0 emacs_variables, 1 vim_variables, 2 cvs_keyword,
    3 comments, 4 more_comments, 5..12 old_format_re1..8); lines that match none
    are absent.  The seven patterns the control flow and the groups depend on
    are model leaves, compared one by one with the live patterns ([CLeaf]). *)
From Coq Require Import String.   (* only for the [CLit] cases *)
From Verif Require Import Lib.Base Lib.Dec Lib.PyStr Gen.PyChars Gen.ClChars
  Changelog.Model Changelog.Spec Changelog.EditSpec Changelog.Lit.

(** * Literals

    Texts are written as [lit] (Changelog/Lit.v: packed UTF-8 in primitive integers) and
    decoded by [declit]; the case files open [uint63_scope]. *)

Inductive linput :=
| LStr (s : lit)
| LBytes (s : lit)             (* the UTF-8 encoding of s was passed; decoding is assumed *)
| LLines (ls : list lit)
| LFile (s : lit).

Record oblock := mkOB {
  ob_package : option lit;
  ob_version : option lit;      (* _raw_version *)
  ob_dists : option lit;
  ob_urgency : option lit;
  ob_comment : lit;
  ob_changes : list lit;
  ob_author : option lit;
  ob_date : option lit;
  ob_trailing : list lit;
  ob_pairs : list (lit * lit);
  ob_no_trailer : bool;
  ob_sep : lit;
  ob_pubversion : option lit;   (* str(block.version) through the public property; None if it raised or is None *)
}.

(** a Changelog object as observed, with the number of warnings its construction emitted *)
Record ostate := mkOS {
  os_initial : list lit;
  os_blocks : list oblock;
  os_warnings : N;
  os_str : result lit;          (* str(changelog) *)
}.

Inductive lop :=
| LNewBlock (package version dists urgency comment : option lit)
            (changes : option (list lit)) (author date : option lit)
            (pairs : option (list (lit * lit)))
| LAddChange (s : lit)
| LSetAttr (a : attr) (v : lit).

(** expected exposed attributes of one generated block *)
Record lxblock := mkLX {
  lx_package : lit; lx_version : lit; lx_dists : lit; lx_urgency : lit;
  lx_comment : lit; lx_pairs : list (lit * lit); lx_changes : list lit;
  lx_author : lit; lx_date : lit;
}.

Inductive case :=
(** the literal decoder of Changelog/Lit.v against Lib/Dec.v on the same text *)
| CLit (s : String.string) (l : lit)
(** leaf [which] on subject [s]: None = no match, Some groups (empty list for the boolean leaves) *)
| CLeaf (which : N) (s : lit) (groups : option (list lit))
(** C04: Changelog(inp, strict=True); [text] is the changelog text the input stands for;
    [gen] the attributes the generator wrote (None for fixture files) *)
| CWf (text : lit) (inp : linput) (gen : option (list lxblock)) (tbl : list (lit * N))
      (o : result ostate)
(** C15: Changelog(inp, allow_empty_author, max_blocks) lenient and strict;
    [re] = Changelog(str(lenient result), allow_empty_author) when str() succeeded *)
| CMut (inp : linput) (allow : bool) (maxb : option N) (tbl : list (lit * N))
       (lenient strict : result ostate) (re : option (result ostate))
(** C15: Changelog() or Changelog(inp), then the editing calls; [o] = final object
    (or the exception of the first call that raised); [re] as above *)
| CEdit (start : option linput) (tbl : list (lit * N)) (ops : list lop)
        (o : result ostate) (re : option (result ostate)).

(** * Decoding *)

Definition dopt (o : option lit) : option str := option_map declit o.
Definition dpairs (l : list (lit * lit)) : list (str * str) :=
  map (fun kv => (declit (fst kv), declit (snd kv))) l.

Definition input_of (i : linput) : input :=
  match i with
  | LStr s | LBytes s => InStr (declit s)
  | LLines ls => InLines (map declit ls)
  | LFile s => InFile (declit s)
  end.

Definition block_of (b : oblock) : block :=
  mkBlock (dopt (ob_package b)) (dopt (ob_version b)) (dopt (ob_dists b)) (dopt (ob_urgency b))
          (declit (ob_comment b)) (map declit (ob_changes b)) (dopt (ob_author b)) (dopt (ob_date b))
          (map declit (ob_trailing b)) (dpairs (ob_pairs b)) (ob_no_trailer b) (declit (ob_sep b)).

Definition op_of (o : lop) : op :=
  match o with
  | LNewBlock p v d u uc ch a dt ps =>
      NewBlock (dopt p) (dopt v) (dopt d) (dopt u) (dopt uc) (option_map (map declit) ch)
               (dopt a) (dopt dt) (option_map dpairs ps)
  | LAddChange s => AddChange (declit s)
  | LSetAttr a v => SetAttr a (declit v)
  end.

Fixpoint lookup (l : str) (tbl : list (str * N)) : N :=
  match tbl with
  | [] => 0%N
  | (k, m) :: t => if str_eqb k l then m else lookup l t
  end.

Definition junk_of (tbl : list (lit * N)) : junk :=
  let t := map (fun km => (declit (fst km), snd km)) tbl in
  let bit (i : N) (l : str) := N.testbit (lookup l t) i in
  mkJunk (bit 0%N) (bit 1%N) (bit 2%N) (bit 3%N) (bit 4%N)
         (bit 5%N) (bit 6%N) (bit 7%N) (bit 8%N) (bit 9%N) (bit 10%N) (bit 11%N) (bit 12%N).

(** * Equality *)

Definition ostr_eqb := option_eqb str_eqb.

Definition block_eqb (a b : block) : bool :=
  ostr_eqb (b_package a) (b_package b) && ostr_eqb (b_version a) (b_version b)
  && ostr_eqb (b_dists a) (b_dists b) && ostr_eqb (b_urgency a) (b_urgency b)
  && str_eqb (b_comment a) (b_comment b) && strs_eqb (b_changes a) (b_changes b)
  && ostr_eqb (b_author a) (b_author b) && ostr_eqb (b_date a) (b_date b)
  && strs_eqb (b_trailing a) (b_trailing b) && pairs_eqb (b_pairs a) (b_pairs b)
  && Bool.eqb (b_no_trailer a) (b_no_trailer b) && str_eqb (b_sep a) (b_sep b).

(** the seven attributes C15 compares *)
Definition block7_eqb (a b : block) : bool :=
  ostr_eqb (b_package a) (b_package b) && ostr_eqb (b_version a) (b_version b)
  && ostr_eqb (b_dists a) (b_dists b) && ostr_eqb (b_urgency a) (b_urgency b)
  && strs_eqb (b_changes a) (b_changes b)
  && ostr_eqb (b_author a) (b_author b) && ostr_eqb (b_date a) (b_date b).

Definition rstr_eqb (a : result str) (b : result lit) : bool :=
  match a, b with
  | Ok x, Ok y => str_eqb x (declit y)
  | Err e, Err f => err_eqb e f
  | _, _ => false
  end.

(** the model's object [c] (built with [nwarn] warnings) is what was observed *)
Definition cl_matches (c : changelog) (nwarn : nat) (os : ostate) : bool :=
  strs_eqb (cl_initial c) (map declit (os_initial os))
  && list_eqb block_eqb (cl_blocks c) (map block_of (os_blocks os))
  && (N.of_nat nwarn =? os_warnings os)%N
  && rstr_eqb (format_changelog false c) (os_str os).

Definition res_matches (r : result (changelog * nat)) (o : result ostate) : bool :=
  match r, o with
  | Ok (c, n), Ok os => cl_matches c n os
  | Err e, Err f => err_eqb e f
  | _, _ => false
  end.

Definition model_parse (tbl : list (lit * N)) (strict allow : bool) (maxb : option N)
    (i : input) : result (changelog * nat) :=
  match parse_changelog (junk_of tbl) strict allow (option_map N.to_nat maxb) i with
  | Ok st => Ok (cl_of st, length (p_warn st))
  | Err e => Err e
  end.

(** re-parse of the model's own str() output *)
Definition model_reparse (tbl : list (lit * N)) (allow : bool) (r : result (changelog * nat))
  : option (result (changelog * nat)) :=
  match r with
  | Ok (c, _) =>
      match format_changelog false c with
      | Ok t => Some (model_parse tbl false allow None (InStr t))
      | Err _ => None
      end
  | Err _ => None
  end.

Definition re_matches (m : option (result (changelog * nat))) (o : option (result ostate)) : bool :=
  match m, o with
  | Some r, Some x => res_matches r x
  | None, None => true
  | _, _ => false
  end.

(** * Leaves *)

Definition leaf (which : N) (s : str) : option (list str) :=
  match which with
  | 0%N => match match_topline s with Some (a, b, c, d) => Some [a; b; c; d] | None => None end
  | 1%N => if match_blank s then Some [] else None
  | 2%N => if match_change s then Some [] else None
  | 3%N => match match_endline s with Some (a, b, c, d) => Some [a; b; c; d] | None => None end
  | 4%N => if match_nodetails s then Some [] else None
  | 5%N => match match_keyvalue s with Some (a, b) => Some [a; b] | None => None end
  | _ => match match_value s with Some (a, b) => Some [a; b] | None => None end
  end.

(** * The expected attributes *)

Definition xblock_of_lit (x : lxblock) : xblock :=
  mkXB (declit (lx_package x)) (declit (lx_version x)) (declit (lx_dists x)) (declit (lx_urgency x))
       (declit (lx_comment x)) (dpairs (lx_pairs x)) (map declit (lx_changes x))
       (declit (lx_author x)) (declit (lx_date x)).

(** what an observed block exposes through the public attributes *)
Definition xblock_of_obs (b : oblock) : option xblock :=
  match ob_package b, ob_pubversion b, ob_dists b, ob_urgency b, ob_author b, ob_date b with
  | Some p, Some v, Some d, Some u, Some a, Some dt =>
      Some (mkXB (declit p) (declit v) (declit d) (declit u) (declit (ob_comment b)) (dpairs (ob_pairs b))
                 (map declit (ob_changes b)) (declit a) (declit dt))
  | _, _, _, _, _, _ => None
  end.

Fixpoint list_eqb2 {A B} (f : A -> B -> bool) (l1 : list A) (l2 : list B) : bool :=
  match l1, l2 with
  | [], [] => true
  | a :: l1, b :: l2 => f a b && list_eqb2 f l1 l2
  | _, _ => false
  end.

Definition oxblock_eqb (a : option xblock) (b : xblock) : bool :=
  match a with Some x => xblock_eqb x b | None => false end.

(** * agree *)

Definition start_model (tbl : list (lit * N)) (start : option linput) : result (changelog * nat) :=
  match start with
  | None => Ok (empty_changelog, 0)
  | Some i => model_parse tbl false false None (input_of i)
  end.

Definition edit_model (tbl : list (lit * N)) (start : option linput) (ops : list lop)
  : result (changelog * nat) :=
  match start_model tbl start with
  | Ok (c, n) =>
      match apply_ops c (map op_of ops) with
      | Ok c' => Ok (c', n)
      | Err e => Err e
      end
  | Err e => Err e
  end.

Definition agree (c : case) : bool :=
  match c with
  | CLit s l => str_eqb (Lib.Dec.dec s) (declit l)
  | CLeaf w s g => option_eqb strs_eqb (leaf w (declit s)) (option_map (map declit) g)
  | CWf text inp gen tbl o =>
      res_matches (model_parse tbl true false None (input_of inp)) o
      && match gen with
         | Some g =>
             (* the generator's text is in the grammar and stands for what it meant to write *)
             match doc_of (declit text) with
             | Some d => list_eqb xblock_eqb (map expose (w_blocks d)) (map xblock_of_lit g)
             | None => false
             end
         | None => true
         end
  | CMut inp allow maxb tbl len str re =>
      let ml := model_parse tbl false allow maxb (input_of inp) in
      res_matches ml len
      && res_matches (model_parse tbl true allow maxb (input_of inp)) str
      && re_matches (model_reparse tbl allow ml) re
  | CEdit start tbl ops o re =>
      let m := edit_model tbl start ops in
      res_matches m o && re_matches (model_reparse tbl false m) re
  end.

(** * holds *)

(** C15, normal form: if str() gave [t], parsing [t] gives the same seven attributes per
    block and formats to [t] again *)
Definition normal_form (os : ostate) (re : option (result ostate)) : bool :=
  match os_str os with
  | Ok t =>
      match re with
      | Some (Ok os2) =>
          list_eqb block7_eqb (map block_of (os_blocks os)) (map block_of (os_blocks os2))
          (* the version as the public property shows it (str(block.version)) *)
          && list_eqb (option_eqb str_eqb) (map (fun b => dopt (ob_pubversion b)) (os_blocks os))
                      (map (fun b => dopt (ob_pubversion b)) (os_blocks os2))
          && rstr_eqb (Ok (declit t)) (os_str os2)
      | _ => false
      end
  | Err _ => true
  end.

Definition op_in_domain (o : lop) : bool := op_dom (op_of o).

Definition holds (c : case) : bool :=
  match c with
  | CLit _ _ => true
  | CLeaf _ _ _ => true
  | CWf text inp gen tbl o =>
      match doc_of (declit text) with
      | Some d =>
          match o with
          | Ok os =>
              (os_warnings os =? 0)%N
              && rstr_eqb (Ok (declit text)) (os_str os)
              && list_eqb2 oxblock_eqb (map xblock_of_obs (os_blocks os)) (map expose (w_blocks d))
          | Err _ => false
          end
      | None => true                       (* not in the grammar: outside C04 *)
      end
  | CMut inp allow maxb tbl len str re =>
      match len with
      | Ok os =>
          (* strict raises the parse error exactly when lenient warned; otherwise same object *)
          (match str with
           | Err ParseError => negb (os_warnings os =? 0)%N
           | Err _ => false
           | Ok os' =>
               (os_warnings os =? 0)%N && (os_warnings os' =? 0)%N
               && list_eqb block_eqb (map block_of (os_blocks os)) (map block_of (os_blocks os'))
               && strs_eqb (map declit (os_initial os)) (map declit (os_initial os'))
           end)
          && normal_form os re
      | Err _ => false                     (* the lenient constructor raised *)
      end
  | CEdit start tbl ops o re =>
      match o with
      | Ok os => if forallb op_in_domain ops then normal_form os re else true
      | Err _ => true                      (* an editing call raised: nothing is claimed *)
      end
  end.

Definition bad_agree (cs : list case) : list N := bad agree cs.
Definition bad_holds (cs : list case) : list N := bad holds cs.
