(** C15, normal form after editing -- documents.

    - [doc_okc c] and [format_changelog false c = Ok t] imply that [t] parses to [c] (up to
      [block_norm]): [parse_replay];
    - the editing calls, with values in their documented domains, preserve [doc_okc]:
      [apply_ops_okc]. *)
From Coq Require Import Lia.
From Verif Require Import Lib.Base Lib.PyStr Gen.PyChars Gen.ClChars
  Changelog.Model Changelog.Spec Changelog.EditSpec Changelog.CharFacts Changelog.LeafProofs
  Changelog.ParseProofs Changelog.WfProofs Changelog.NormalBase Changelog.NormalHeader Changelog.NormalProofs
  Changelog.BuiltProofs Changelog.EditBase Changelog.EditReplay.

Section Docs.
Variable J : junk.
Variable allow : bool.

Notation STEPS := (steps J allow).
Notation RUN := (run J false allow None).

Fixpoint blocks_okc (bs : list block) : Prop :=
  match bs with
  | [] => True
  | b :: bs' => match bs' with
                | [] => blk_okc J true b
                | _ => blk_okc J false b /\ blocks_okc bs'
                end
  end.

Record doc_okc (c : changelog) : Prop := {
  d_init : Forall tline_ok (cl_initial c);
  d_blocks : blocks_okc (cl_blocks c);
  d_empty : cl_blocks c = [] -> cl_initial c = [];
}.

Lemma blk_okc_weaken b : blk_okc J false b -> blk_okc J true b.
Proof.
  intros []. constructor; try assumption.
  - now apply trailing_ok_weaken.
  - intros H. destruct (k_notrailer H) as (Hf & _). discriminate.
Qed.

(** * Running over the lines of the blocks *)

Lemma run_app a : forall st b,
  RUN st (a ++ b) = bind (STEPS st a) (fun st' => RUN st' b).
Proof.
  intros st b. rewrite run_steps, steps_app. destruct (STEPS st a) as [st'|e]; cbn [bind]; [|reflexivity].
  now rewrite run_steps.
Qed.

Lemma run_same ls a b : same a b -> same_res (RUN a ls) (RUN b ls).
Proof.
  intros H. rewrite !run_steps. pose proof (steps_same J allow ls a b H) as Hs.
  destruct (STEPS a ls) as [x|e]; destruct (STEPS b ls) as [y|f]; try contradiction; cbn [bind]; [|exact Hs].
  now apply finish_same.
Qed.

(** from "the steps reach E" and "the run from E ends in F": the run ends in a state like F *)
Lemma run_reaches st0 a b E F :
  reaches J allow st0 a E -> RUN E b = Ok F -> exists F', RUN st0 (a ++ b) = Ok F' /\ cl_of F' = cl_of F.
Proof.
  intros (st1 & H1 & S1) HF. rewrite run_app, H1. cbn [bind].
  pose proof (run_same b st1 E S1) as Hs. rewrite HF in Hs.
  destruct (RUN st1 b) as [x|e]; [|contradiction]. exists x. split; [reflexivity|now apply same_cl].
Qed.

Lemma finish_after o bl ini E : after_block o bl ini E -> finish false E = Ok E /\ cl_of E = mkCl ini bl.
Proof. intros (w' & [-> | ->]); split; reflexivity. Qed.

Lemma run_blocks_okc bs : forall s o bl ini w x,
  blocks_okc bs -> bs <> [] -> format_blocks false bs = Ok x ->
  (s = FirstHeading \/ s = NextHeadingOrEof) ->
  exists F, RUN (HS s o bl ini w) (flat_map block_lines bs) = Ok F
            /\ cl_of F = mkCl ini (bl ++ map block_norm bs).
Proof.
  induction bs as [|b bs IH]; intros s o bl ini w x Hok Hne Hfmt Hs; [congruence|].
  cbn [format_blocks] in Hfmt.
  destruct (format_block false b) as [xb|] eqn:Eb; [|discriminate].
  destruct (format_blocks false bs) as [xs|] eqn:Ebs; [|discriminate]. clear Hfmt.
  destruct (format_block_fields b xb Eb) as (_ & Htr).
  cbn [flat_map map]. destruct bs as [|b2 bs'].
  - (* the last block *)
    cbn [blocks_okc] in Hok. cbn [flat_map map]. rewrite app_nil_r.
    rewrite <- (app_nil_r (block_lines b)).
    destruct Htr as [(a & dt & Ha & Hd)|(Hn & Ha & Hd)].
    + destruct (reach_block_trailer J allow true s o bl ini w b xb a dt Hok Eb Hs Ha Hd) as (E & R & HE & _).
      destruct (finish_after _ _ _ _ HE) as (Hfin & Hcl).
      destruct (run_reaches _ _ [] E E R) as (F' & HF' & Hc); [exact Hfin|].
      exists F'. split; [exact HF'|]. now rewrite Hc, Hcl.
    + destruct (reach_block_pending J allow s o bl ini w b xb Hok Eb Hs Hn Ha Hd) as (s' & w' & Hs' & R).
      destruct (k_notrailer J true b Hok Hn) as (_ & Htl & Hsep).
      assert (Hfin : exists F, finish false (CS s' o bl ini (hdr_fields b) (b_changes b) w') = Ok F
                               /\ cl_of F = mkCl ini (bl ++ [block_norm b])).
      { destruct Hs' as [-> | ->]; (eexists; split; [reflexivity|]);
          unfold cl_of, push_block, CS, block_norm, hdr_fields, has_trailer, set_changes, set_no_trailer; cbn;
          rewrite Hn, Ha, Hd, Htl, Hsep; reflexivity. }
      destruct Hfin as (F & HF & HcF).
      destruct (run_reaches _ _ [] _ F R) as (F' & HF' & Hc); [exact HF|].
      exists F'. split; [exact HF'|]. now rewrite Hc, HcF.
  - (* a block followed by others: it has a trailer and does not slurp *)
    cbn [blocks_okc] in Hok. destruct Hok as (Kb & Hrest).
    destruct Htr as [(a & dt & Ha & Hd)|(Hn & _)].
    2:{ destruct (k_notrailer J false b Kb Hn) as (Hf & _). discriminate. }
    destruct (reach_block_trailer J allow false s o bl ini w b xb a dt Kb Eb Hs Ha Hd) as (E & R & _ & HEl).
    destruct (HEl eq_refl) as (w' & ->).
    destruct (IH NextHeadingOrEof o (bl ++ [block_norm b]) ini w' xs Hrest ltac:(discriminate) eq_refl (or_intror eq_refl))
      as (F & HF & HcF).
    destruct (run_reaches _ _ _ _ F R HF) as (F' & HF' & Hc).
    exists F'. split; [exact HF'|]. rewrite Hc, HcF. now rewrite <- app_assoc.
Qed.

(** * Every line written is free of line breaks *)

Lemma trailing_one_line last ls : trailing_ok J last ls -> forallb one_line ls = true.
Proof.
  intros [Hn|(_ & pre & t & post & -> & Hpre & (Ht & _) & _ & Hpost)].
  - apply forallb_forall. intros l Hin. unfold notrig in Hn. rewrite Forall_forall in Hn.
    now destruct (Hn l Hin) as ((H & _) & _).
  - rewrite forallb_app. cbn [forallb]. rewrite Ht.
    assert (H1 : forallb one_line pre = true).
    { apply forallb_forall. intros l Hin. unfold notrig in Hpre. rewrite Forall_forall in Hpre.
      now destruct (Hpre l Hin) as ((H & _) & _). }
    assert (H2 : forallb one_line post = true).
    { apply forallb_forall. intros l Hin. rewrite Forall_forall in Hpost. now apply Hpost. }
    now rewrite H1, H2.
Qed.

Lemma block_lines_one_line last b x :
  blk_okc J last b -> format_block false b = Ok x -> forallb one_line (block_lines b) = true.
Proof.
  intros K Hf. pose proof (blk_hdr_ok J last b x K Hf) as Hok.
  unfold block_lines. cbn [forallb]. rewrite (header_line_one_line b Hok). cbn [andb].
  rewrite !forallb_app.
  assert (H1 : forallb one_line (b_changes b) = true).
  { apply forallb_forall. intros l Hin. pose proof (k_chg J last b K) as Hc. rewrite Forall_forall in Hc.
    now destruct (Hc l Hin). }
  rewrite H1, (trailing_one_line last _ (k_trailing J last b K)). cbn [andb]. rewrite andb_true_r.
  destruct (has_trailer b) eqn:Eh; [|reflexivity]. cbn [forallb]. rewrite andb_true_r.
  destruct (format_block_fields b x Hf) as (_ & [(a & dt & Ha & Hd)|(Hn & Ha & Hd)]).
  - unfold trailer_line. rewrite Ha, Hd.
    destruct (k_auth J last b K a Ha) as (Hao & _). destruct (k_date J last b K dt Hd) as (_ & _ & Hdo).
    change (32%N :: a) with ([32%N] ++ a). rewrite !one_line_app, Hao, Hdo.
    destruct (k_sep J last b K) as [-> | ->]; reflexivity.
  - unfold has_trailer in Eh. rewrite Hn, Ha, Hd in Eh. discriminate.
Qed.

Lemma blocks_lines_one_line bs : forall x,
  blocks_okc bs -> format_blocks false bs = Ok x -> forallb one_line (flat_map block_lines bs) = true.
Proof.
  induction bs as [|b bs IH]; intros x Hok Hf; [reflexivity|].
  cbn [format_blocks] in Hf.
  destruct (format_block false b) as [xb|] eqn:Eb; [|discriminate].
  destruct (format_blocks false bs) as [xs|] eqn:Ebs; [|discriminate].
  cbn [flat_map]. rewrite forallb_app. cbn [blocks_okc] in Hok. destruct bs as [|b2 bs'].
  - now rewrite (block_lines_one_line true b xb Hok Eb).
  - destruct Hok as (Kb & Hrest). now rewrite (block_lines_one_line false b xb Kb Eb), (IH xs Hrest eq_refl).
Qed.

(** * A structurally good object re-parses to itself *)

Theorem parse_replay c t :
  doc_okc c -> format_changelog false c = Ok t ->
  exists st', parse_changelog J false allow None (InStr t) = Ok st'
              /\ cl_of st' = mkCl (cl_initial c) (map block_norm (cl_blocks c)).
Proof.
  intros [Hini Hbl Hemp] Hfmt.
  pose proof (format_changelog_lines c t Hfmt) as Ht.
  destruct c as [ini bs]. cbn [cl_initial cl_blocks] in *.
  unfold format_changelog in Hfmt. cbn [cl_blocks cl_initial] in Hfmt.
  destruct (format_blocks false bs) as [body|] eqn:Eb; [|discriminate]. clear Hfmt.
  unfold cl_lines in Ht. cbn [cl_initial cl_blocks] in Ht.
  destruct bs as [|b bs'].
  - (* no block: the empty text *)
    rewrite (Hemp eq_refl) in *. cbn in Ht. subst t. unfold parse_changelog. cbn [forallb warn].
    eexists. split; reflexivity.
  - set (bs := b :: bs') in *.
    assert (Hol : forallb one_line (ini ++ flat_map block_lines bs) = true).
    { rewrite forallb_app, (blocks_lines_one_line bs body Hbl Eb), andb_true_r.
      apply forallb_forall. intros l Hin. rewrite Forall_forall in Hini. now destruct (Hini l Hin). }
    assert (Hnb : forallb ws t = false).
    { rewrite Ht, flat_nl_blank_app. rewrite <- (app_nil_r (flat_map block_lines bs)).
      rewrite (blocks_not_blank bs []); [apply andb_false_r|discriminate]. }
    unfold parse_changelog. rewrite Hnb, Ht, (str_lines_render _ Hol).
    destruct (reach_initials J allow ini None [] [] Hini) as (w' & R). cbn [app] in R.
    destruct (run_blocks_okc bs FirstHeading None [] ini w' body Hbl ltac:(discriminate) Eb (or_introl eq_refl))
      as (F & HF & HcF).
    destruct (run_reaches _ _ _ _ F R HF) as (F' & HF' & Hc).
    exists F'. split; [exact HF'|]. now rewrite Hc, HcF.
Qed.

(** * The editing calls preserve the structural conditions *)

Lemma blocks_okc_cons b bs :
  blk_okc J false b -> blocks_okc bs -> blocks_okc (b :: bs).
Proof.
  intros Kb Hbs. cbn [blocks_okc]. destruct bs; [now apply blk_okc_weaken|auto].
Qed.

Lemma blocks_okc_head (f : block -> block) b bs :
  (forall last, blk_okc J last b -> blk_okc J last (f b)) ->
  blocks_okc (b :: bs) -> blocks_okc (f b :: bs).
Proof.
  intros Hf. cbn [blocks_okc]. destruct bs; [apply Hf|]. intros (Kb & Hbs). split; [now apply Hf|exact Hbs].
Qed.

Lemma add_change_list_Forall (P : str -> Prop) c l :
  P c -> Forall P l -> Forall P (add_change_list c l).
Proof.
  intros Hc Hl. unfold add_change_list. destruct l as [|x l']; [now constructor|].
  assert (Hins : forall r l0, Forall P l0 -> insert_before_nonblank c l0 = Some r -> Forall P r).
  { intros r l0. revert r. induction l0 as [|y l0 IH]; intros r H0; cbn [insert_before_nonblank]; [discriminate|].
    inversion H0 as [|? ? Hy H0']; subst. destruct (match_blank y).
    - destruct (insert_before_nonblank c l0) as [r'|]; [|discriminate]. intros [= <-]. constructor; auto.
    - intros [= <-]. constructor; auto. }
  destruct (insert_before_nonblank c (rev (x :: l'))) as [r'|] eqn:E.
  - apply Forall_rev. eapply Hins; [|exact E]. now apply Forall_rev.
  - rewrite rev_involutive. apply Forall_app. split; [exact Hl|now constructor].
Qed.

Lemma set_changes_okc last b ch :
  chg_ok ch -> blk_okc J last b -> blk_okc J last (set_changes b (add_change_list ch (b_changes b))).
Proof.
  intros Hch []. constructor; cbn; try assumption. now apply add_change_list_Forall.
Qed.

Lemma set_attr_okc last a v b :
  match a with
  | APackage => wf_package v | AVersion => wf_version v | ADists => wf_dists_str v
  | AUrgency => wf_key v | AAuthor => wf_author v | ADate => wf_date_str v
  end = true ->
  blk_okc J last b -> blk_okc J last (set_attr a v b).
Proof.
  intros Hv []. destruct a; constructor; cbn; try assumption; intros x [= <-].
  - now apply wf_package_okp.
  - now apply wf_version_okp.
  - now apply wf_dists_str_ok.
  - now apply wf_key_urg_ok.
  - now apply wf_author_ok.
  - now apply wf_date_str_ok.
Qed.

Lemma apply_op_okc c o c' : doc_okc c -> op_dom o = true -> apply_op c o = Ok c' -> doc_okc c'.
Proof.
  intros [Hini Hbl Hemp] Hdom. destruct o as [p v d u uc ch a dt ps|s|a v]; cbn [apply_op op_dom] in *.
  - intros [= <-]. constructor; cbn [cl_initial cl_blocks]; [exact Hini| |discriminate].
    apply blocks_okc_cons; [|exact Hbl]. apply built_blk_okc. now apply new_block_built.
  - destruct (cl_blocks c) as [|b bs] eqn:E; [discriminate|]. intros [= <-].
    constructor; cbn [cl_initial cl_blocks]; [exact Hini| |discriminate].
    apply (blocks_okc_head (fun b => set_changes b (add_change_list s (b_changes b)))); [|exact Hbl].
    intros last K. apply set_changes_okc; [|exact K]. now apply change_line_chg_ok.
  - destruct (cl_blocks c) as [|b bs] eqn:E; [discriminate|]. intros [= <-].
    constructor; cbn [cl_initial cl_blocks]; [exact Hini| |discriminate].
    apply (blocks_okc_head (set_attr a v)); [|exact Hbl].
    intros last K. apply set_attr_okc; [|exact K]. destruct a; exact Hdom.
Qed.

Lemma apply_ops_okc ops : forall c c',
  doc_okc c -> forallb op_dom ops = true -> apply_ops c ops = Ok c' -> doc_okc c'.
Proof.
  induction ops as [|o ops IH]; intros c c' Hc Hdom; cbn [apply_ops].
  - now intros [= <-].
  - cbn [forallb] in Hdom. apply andb_true_iff in Hdom. destruct Hdom as [Ho Hops].
    destruct (apply_op c o) as [c1|e] eqn:E; [|discriminate]. cbn [bind].
    apply IH; [|exact Hops]. exact (apply_op_okc c o c1 Hc Ho E).
Qed.

Lemma doc_okc_empty : doc_okc empty_changelog.
Proof. constructor; cbn; auto. Qed.

End Docs.
