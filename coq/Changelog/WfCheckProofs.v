(** C04: the bridge between the correspondence and the property, constructor [CWf] of
    Changelog/Check.v.

    [agree (CWf ..) = true -> holds (CWf ..) = true] is FALSE as stated, for two reasons
    that have nothing to do with the parser:

    - [holds] judges the observation against [text], [agree] runs the model on [inp]; nothing
      in [agree] says that [inp] is an input form OF [text] (the generator builds it so).
      [CWf t1 (LStr t2) None tbl (what the model gives on t2)] with two different well-formed
      texts agrees and does not hold.
    - [holds] reads the version through the PUBLIC property ([ob_pubversion] =
      str(block.version), a debian_support.Version), [agree] compares only the raw attribute
      [ob_version].  An observation with [ob_pubversion = None] agrees and does not hold.

    [judged_wf] states exactly these two things -- on texts of the grammar only; outside it
    [holds] claims nothing and no condition is needed -- and with it the theorem is proved
    from Changelog/WfProofs.v ([run_doc], [parse_render], [format_doc_state]: the theorems
    [wf_roundtrip] / [wf_blocks_exposed] / [wf_roundtrip_lines] of Props/C04.v in the form
    "the final state IS [doc_state d]"), extended here to the two remaining input forms
    (lines that keep their LF, an open text file). *)
From Coq Require Import Lia ZArith Uint63.
From Verif Require Import Lib.Base Lib.PyStr Gen.PyChars Gen.ClChars
  Changelog.Model Changelog.Spec Changelog.EditSpec Changelog.Lit Changelog.CharFacts Changelog.LeafProofs
  Changelog.WfProofs Changelog.Check.

(** * Boolean equalities are equalities *)

Lemma ostr_eqb_eq a b : ostr_eqb a b = true <-> a = b.
Proof.
  unfold ostr_eqb. destruct a as [x|], b as [y|]; cbn [option_eqb]; split; intros H;
    try discriminate; try reflexivity.
  - apply str_eqb_eq in H. now subst.
  - injection H as ->. apply str_eqb_refl.
Qed.

Lemma pair_str_eqb_eq (a b : str * str) : pair_eqb str_eqb str_eqb a b = true <-> a = b.
Proof.
  unfold pair_eqb. destruct a as [a1 a2], b as [b1 b2]. cbn [fst snd]. split; intros H.
  - apply andb_true_iff in H. destruct H as [H1 H2]. apply str_eqb_eq in H1, H2. now subst.
  - injection H as -> ->. now rewrite !str_eqb_refl.
Qed.

Lemma pairs_eqb_eq a b : pairs_eqb a b = true <-> a = b.
Proof. apply list_eqb_eq. exact pair_str_eqb_eq. Qed.

Lemma bool_eqb_eq a b : Bool.eqb a b = true <-> a = b.
Proof. destruct a, b; cbn; split; intros H; try discriminate; reflexivity. Qed.

Lemma block_eqb_eq a b : block_eqb a b = true <-> a = b.
Proof.
  split.
  - destruct a as [a1 a2 a3 a4 a5 a6 a7 a8 a9 a10 a11 a12], b as [b1 b2 b3 b4 b5 b6 b7 b8 b9 b10 b11 b12].
    unfold block_eqb.
    cbn [b_package b_version b_dists b_urgency b_comment b_changes b_author b_date b_trailing b_pairs
         b_no_trailer b_sep].
    intros H.
    apply andb_true_iff in H. destruct H as [H H12]. apply andb_true_iff in H. destruct H as [H H11].
    apply andb_true_iff in H. destruct H as [H H10]. apply andb_true_iff in H. destruct H as [H H9].
    apply andb_true_iff in H. destruct H as [H H8]. apply andb_true_iff in H. destruct H as [H H7].
    apply andb_true_iff in H. destruct H as [H H6]. apply andb_true_iff in H. destruct H as [H H5].
    apply andb_true_iff in H. destruct H as [H H4]. apply andb_true_iff in H. destruct H as [H H3].
    apply andb_true_iff in H. destruct H as [H1 H2].
    apply ostr_eqb_eq in H1, H2, H3, H4, H7, H8. apply str_eqb_eq in H5, H12.
    apply strs_eqb_eq in H6, H9. apply pairs_eqb_eq in H10. apply Bool.eqb_prop in H11.
    now subst.
  - intros <-. unfold block_eqb.
    repeat (apply andb_true_iff; split);
      first [now apply ostr_eqb_eq | now apply str_eqb_eq | now apply strs_eqb_eq
            | now apply pairs_eqb_eq | now apply bool_eqb_eq].
Qed.

Lemma blocks_eqb_eq a b : list_eqb block_eqb a b = true <-> a = b.
Proof. apply list_eqb_eq. exact block_eqb_eq. Qed.

Lemma xblock_eqb_refl x : xblock_eqb x x = true.
Proof.
  unfold xblock_eqb.
  repeat (apply andb_true_iff; split);
    first [now apply str_eqb_eq | now apply strs_eqb_eq | now apply pairs_eqb_eq].
Qed.

Lemma rstr_eqb_ok (r : result str) (t : str) (o : result lit) :
  r = Ok t -> rstr_eqb r o = true -> exists y, o = Ok y /\ declit y = t.
Proof.
  intros -> H. destruct o as [y|e]; cbn [rstr_eqb] in H; [|discriminate].
  apply str_eqb_eq in H. now exists y.
Qed.

(** * What [res_matches] forces *)

Lemma res_matches_ok c n o :
  res_matches (Ok (c, n)) o = true ->
  exists os, o = Ok os
    /\ cl_initial c = map declit (os_initial os)
    /\ cl_blocks c = map block_of (os_blocks os)
    /\ os_warnings os = N.of_nat n
    /\ rstr_eqb (format_changelog false c) (os_str os) = true.
Proof.
  destruct o as [os|e]; cbn [res_matches]; [|discriminate]. unfold cl_matches. intros H.
  apply andb_true_iff in H. destruct H as [H H4]. apply andb_true_iff in H. destruct H as [H H3].
  apply andb_true_iff in H. destruct H as [H1 H2].
  exists os. split; [reflexivity|]. split; [now apply strs_eqb_eq|]. split; [now apply blocks_eqb_eq|].
  split; [|exact H4]. apply N.eqb_eq in H3. now symmetry.
Qed.

(** * The input forms of one text *)

Lemma rstrip_lf_idem l : rstrip_lf (rstrip_lf l) = rstrip_lf l.
Proof. unfold rstrip_lf, rstrip_by. apply rdropwhile_idem. Qed.

Lemma step_rstrip J strictb allow maxb st l :
  step J strictb allow maxb st (rstrip_lf l) = step J strictb allow maxb st l.
Proof. unfold step. now rewrite rstrip_lf_idem. Qed.

(** the parser sees a line only through [rstrip('\n')] *)
Lemma run_rstrip J strictb allow maxb ls : forall st,
  run J strictb allow maxb st (map rstrip_lf ls) = run J strictb allow maxb st ls.
Proof.
  induction ls as [|l ls IH]; intros st; [reflexivity|]. cbn [map run]. rewrite step_rstrip.
  destruct (step J strictb allow maxb st l) as [[st'|st']|e]; [apply IH|reflexivity|reflexivity].
Qed.

Lemma rstrip_lf_nl l : one_line l = true -> rstrip_lf (nl l) = l.
Proof.
  intros H. unfold nl, rstrip_lf, rstrip_by. rewrite rdropwhile_app_drop by reflexivity.
  exact (rstrip_lf_id l (one_line_lf l H)).
Qed.

Lemma file_lines_line l : forall cur rest,
  mem_char 10 l = false ->
  file_lines_aux (l ++ 10%N :: rest) cur = (rev cur ++ l ++ [10%N]) :: file_lines_aux rest [].
Proof.
  induction l as [|x l IH]; intros cur rest H.
  - cbn. reflexivity.
  - unfold mem_char in H. cbn [existsb] in H. apply orb_false_iff in H. destruct H as [Hx Hl].
    cbn [app file_lines_aux]. rewrite N.eqb_sym in Hx. rewrite Hx.
    rewrite (IH (x :: cur) rest Hl). cbn [rev]. now rewrite <- app_assoc.
Qed.

(** iterating a file whose content is these lines, each ended by LF *)
Lemma file_lines_render lines :
  forallb one_line lines = true -> file_lines (flat_map nl lines) = map nl lines.
Proof.
  unfold file_lines. induction lines as [|l lines IH]; [reflexivity|]. cbn [forallb flat_map map]. intros H.
  apply andb_true_iff in H. destruct H as [Hl Hls]. unfold nl at 1. rewrite <- app_assoc. cbn [app].
  rewrite (file_lines_line l [] _ (one_line_lf l Hl)). cbn [rev app]. now rewrite (IH Hls).
Qed.

Lemma map_rstrip_nl lines : forallb one_line lines = true -> map rstrip_lf (map nl lines) = lines.
Proof.
  induction lines as [|l lines IH]; [reflexivity|]. cbn [forallb map]. intros H.
  apply andb_true_iff in H. destruct H as [Hl Hls]. now rewrite (rstrip_lf_nl l Hl), (IH Hls).
Qed.

(** * The side condition *)

(** [inp] is an input form of the text that [d] renders to: the text itself (str, bytes,
    file content), or a list of its lines, each with or without its LF *)
Definition stands_for (d : wdoc) (i : linput) : bool :=
  match i with
  | LStr s | LBytes s | LFile s => str_eqb (declit s) (render d)
  | LLines ls => strs_eqb (map rstrip_lf (map declit ls)) (doc_lines d)
  end.

(** the public version of an observed block is its raw version string *)
Definition pub_is_raw (b : oblock) : bool := ostr_eqb (dopt (ob_pubversion b)) (dopt (ob_version b)).

Definition judged_wf (text : lit) (inp : linput) (o : result ostate) : bool :=
  match doc_of (declit text) with
  | Some d =>
      stands_for d inp
      && match o with Ok os => forallb pub_is_raw (os_blocks os) | Err _ => true end
  | None => true                       (* outside the grammar [holds] claims nothing *)
  end.

(** * The model on every input form of a well-formed text *)

Lemma doc_of_spec t d : doc_of t = Some d -> wf_doc d = true /\ render d = t.
Proof.
  unfold doc_of. destruct (recognise t) as [d'|]; [|discriminate].
  destruct (wf_doc d' && str_eqb (render d') t) eqn:E; [|discriminate]. intros [= ->].
  apply andb_true_iff in E. destruct E as [Hd Ht]. apply str_eqb_eq in Ht. now split.
Qed.

Lemma parse_file J strictb allow d :
  wf_doc d = true ->
  parse_changelog J strictb allow None (InFile (render d)) = Ok (doc_state d).
Proof.
  intros H. unfold parse_changelog, render.
  change (flat_map (fun l : list N => l ++ [10%N]) (doc_lines d)) with (flat_map nl (doc_lines d)).
  pose proof (doc_lines_one_line d H) as Hol.
  rewrite (file_lines_render _ Hol), <- run_rstrip, (map_rstrip_nl _ Hol). now apply run_doc.
Qed.

Lemma parse_stands J strictb allow d inp :
  wf_doc d = true -> stands_for d inp = true ->
  parse_changelog J strictb allow None (input_of inp) = Ok (doc_state d).
Proof.
  intros H Hs. destruct inp as [s|s|ls|s]; cbn [stands_for input_of] in *.
  - apply str_eqb_eq in Hs. rewrite Hs. now apply parse_render.
  - apply str_eqb_eq in Hs. rewrite Hs. now apply parse_render.
  - apply strs_eqb_eq in Hs. unfold parse_changelog. rewrite <- run_rstrip, Hs. now apply run_doc.
  - apply str_eqb_eq in Hs. rewrite Hs. now apply parse_file.
Qed.

(** * Observed blocks against grammar blocks *)

Lemma block_exposes w b :
  block_of_w w = block_of b -> pub_is_raw b = true -> xblock_of_obs b = Some (expose w).
Proof.
  destruct b as [p v d u c ch a dt tr ps nt sep pv]. unfold block_of_w, block_of, pub_is_raw, xblock_of_obs, expose.
  cbn [ob_package ob_version ob_dists ob_urgency ob_comment ob_changes ob_author ob_date ob_trailing
       ob_pairs ob_no_trailer ob_sep ob_pubversion].
  intros E Hp. injection E as E1 E2 E3 E4 E5 E6 E7 E8 E9 E10 E11 E12.
  destruct p as [p|]; [|discriminate]. destruct v as [v|]; [|discriminate].
  destruct d as [d|]; [|discriminate]. destruct u as [u|]; [|discriminate].
  destruct a as [a|]; [|discriminate]. destruct dt as [dt|]; [|discriminate].
  cbn [dopt option_map] in *.
  destruct pv as [pv|]; [|discriminate]. cbn [ostr_eqb option_eqb] in Hp. apply str_eqb_eq in Hp.
  injection E1 as E1. injection E2 as E2. injection E3 as E3. injection E4 as E4.
  injection E7 as E7. injection E8 as E8.
  rewrite Hp, <- E1, <- E2, <- E3, <- E4, <- E5, <- E6, <- E7, <- E8, <- E10. reflexivity.
Qed.

Lemma blocks_expose ws : forall obs,
  map block_of_w ws = map block_of obs -> forallb pub_is_raw obs = true ->
  list_eqb2 oxblock_eqb (map xblock_of_obs obs) (map expose ws) = true.
Proof.
  induction ws as [|w ws IH]; intros [|b obs] E Hp; try discriminate; [reflexivity|].
  cbn [map] in *.
  assert (Eb : block_of_w w = block_of b) by congruence.
  assert (Er : map block_of_w ws = map block_of obs) by congruence.
  cbn [forallb] in Hp. apply andb_true_iff in Hp. destruct Hp as [Hb Hr].
  cbn [list_eqb2]. rewrite (block_exposes w b Eb Hb). cbn [oxblock_eqb]. rewrite xblock_eqb_refl.
  exact (IH obs Er Hr).
Qed.

(** * The theorem for [CWf] *)

Theorem wf_case_holds text inp gen tbl o :
  judged_wf text inp o = true ->
  agree (CWf text inp gen tbl o) = true -> holds (CWf text inp gen tbl o) = true.
Proof.
  unfold judged_wf. cbn [agree holds]. intros Hj Ha.
  apply andb_true_iff in Ha. destruct Ha as [Ha _].
  destruct (doc_of (declit text)) as [d|] eqn:Ed; [|reflexivity].
  destruct (doc_of_spec _ _ Ed) as [Hd Hr].
  apply andb_true_iff in Hj. destruct Hj as [Hs Hp].
  unfold model_parse in Ha. cbn [option_map] in Ha.
  rewrite (parse_stands (junk_of tbl) true false d inp Hd Hs) in Ha.
  destruct (res_matches_ok _ _ _ Ha) as (os & -> & _ & Hb & Hw & Hstr).
  cbn [doc_state hstate p_warn length] in Hw. rewrite Hw. cbn [N.of_nat N.eqb andb].
  rewrite format_doc_state, Hr in Hstr. rewrite Hstr. cbn [andb].
  apply blocks_expose; [exact Hb|exact Hp].
Qed.

(** the side condition is not vacuous and cannot be dropped: see Props/C04.v *)

(** * Writing case literals inside Coq (for the [Example]s of Props/C04.v and Props/C15.v)

    the encoder of Changelog/Lit.v for texts of code points below 128: chunks of seven bytes,
    least significant first, closed by an end marker *)
Fixpoint pack (bs : list N) : Uint63.int :=
  match bs with
  | [] => 1%uint63
  | b :: r => Uint63.add (Uint63.of_Z (Z.of_N b)) (Uint63.mul 256%uint63 (pack r))
  end.

Fixpoint enclit_aux (s : str) (cur : list N) (k : nat) : lit :=
  match s with
  | [] => match cur with [] => [] | _ => [pack (rev cur)] end
  | c :: s' =>
      match k with
      | O => pack (rev cur) :: enclit_aux s' [c] 6
      | S k' => enclit_aux s' (c :: cur) k'
      end
  end.
Definition enclit (s : str) : lit := enclit_aux s [] 7.
