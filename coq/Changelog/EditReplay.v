(** C15, normal form after editing -- a structurally good object re-parses to itself.

    [doc_okc c] (blocks [blk_okc], initial lines that are not headings) and
    [format_changelog false c = Ok t] imply that parsing [t] gives [c] back, up to the
    private no-trailer flag ([block_norm]). *)
From Coq Require Import Lia.
From Verif Require Import Lib.Base Lib.PyStr Gen.PyChars Gen.ClChars
  Changelog.Model Changelog.Spec Changelog.EditSpec Changelog.CharFacts Changelog.LeafProofs
  Changelog.ParseProofs Changelog.WfProofs Changelog.NormalBase Changelog.NormalHeader Changelog.NormalProofs
  Changelog.BuiltProofs Changelog.EditBase.

(** the block as the parser rebuilds it: the no-trailer flag is set exactly when no trailer
    line is written *)
Definition block_norm (b : block) : block :=
  mkBlock (b_package b) (b_version b) (b_dists b) (b_urgency b) (b_comment b) (b_changes b)
          (b_author b) (b_date b) (b_trailing b) (b_pairs b) (negb (has_trailer b)) (b_sep b).

Lemma format_block_norm b : format_block false (block_norm b) = format_block false b.
Proof.
  unfold format_block, block_norm, has_trailer. cbn.
  destruct (b_no_trailer b), (b_author b), (b_date b); reflexivity.
Qed.

Lemma format_blocks_norm bs : format_blocks false (map block_norm bs) = format_blocks false bs.
Proof. induction bs as [|b bs IH]; [reflexivity|]. cbn [map format_blocks]. now rewrite format_block_norm, IH. Qed.

Section Replay.
Variable J : junk.
Variable allow : bool.

Notation STEP := (step J false allow None).
Notation STEPS := (steps J allow).
Notation RUN := (run J false allow None).

(** heading-state and change-state records *)
Definition HS (s : pstate) (o : option pstate) (bl : list block) (ini : list str) (w : list warning) : pst :=
  mkPst s o bl ini empty_block [] w.
Definition CS (s : pstate) (o : option pstate) (bl : list block) (ini : list str) (cur : block) (chg : list str)
    (w : list warning) : pst := mkPst s o bl ini cur chg w.

Definition reaches (st0 : pst) (ls : list str) (E : pst) : Prop :=
  exists st1, STEPS st0 ls = Ok st1 /\ same st1 E.

Lemma reaches_nil st : reaches st [] st.
Proof. exists st. split; [reflexivity|apply same_refl]. Qed.

Lemma reaches_app st0 a b E1 E2 : reaches st0 a E1 -> reaches E1 b E2 -> reaches st0 (a ++ b) E2.
Proof.
  intros (st1 & H1 & S1) (st2 & H2 & S2). unfold reaches. rewrite steps_app, H1. cbn [bind].
  pose proof (steps_same J allow b st1 E1 S1) as Hs. rewrite H2 in Hs.
  destruct (STEPS st1 b) as [x|e]; [|contradiction]. exists x. split; [reflexivity|].
  eapply same_trans; [exact Hs|exact S2].
Qed.

Lemma reaches_cons st0 l ls E1 E2 : reaches st0 [l] E1 -> reaches E1 ls E2 -> reaches st0 (l :: ls) E2.
Proof. intros H1 H2. exact (reaches_app st0 [l] ls E1 E2 H1 H2). Qed.

Lemma reaches_step st0 l st1 : STEP st0 l = Ok (Next st1) -> reaches st0 [l] st1.
Proof. intros H. exists st1. split; [cbn [steps]; now rewrite H|apply same_refl]. Qed.

Lemma reaches_same st0 ls E E' : reaches st0 ls E -> same E E' -> reaches st0 ls E'.
Proof. intros (st1 & H1 & S1) S. exists st1. split; [exact H1|eapply same_trans; eauto]. Qed.

Lemma same_warn2 s o bl ini cur chg w w' : same (mkPst s o bl ini cur chg w) (mkPst s o bl ini cur chg w').
Proof. repeat split. Qed.

(** ** single lines *)

Lemma reach_initial o ini w l :
  tline_ok l -> exists w', reaches (HS FirstHeading o [] ini w) [l] (HS FirstHeading o [] (ini ++ [l]) w').
Proof.
  intros (Hol & Htop). unfold HS.
  assert (Hs : exists w', STEP (mkPst FirstHeading o [] ini empty_block [] w) l
                          = Ok (Next (mkPst FirstHeading o [] (ini ++ [l]) empty_block [] w'))).
  { unfold step. rewrite (one_line_rstrip l Hol). cbn [p_state]. unfold step_heading. rewrite Htop.
    cbn [p_state pstate_eqb negb]. rewrite !andb_false_r.
    destruct (match_blank l); [eexists; reflexivity|].
    destruct (j_cvs J l || j_comments J l || j_more_comments J l); eexists; reflexivity. }
  destruct Hs as (w' & Hs). exists w'. exact (reaches_step _ _ _ Hs).
Qed.

Lemma reach_initials ls : forall o ini w,
  Forall tline_ok ls -> exists w', reaches (HS FirstHeading o [] ini w) ls (HS FirstHeading o [] (ini ++ ls) w').
Proof.
  induction ls as [|l ls IH]; intros o ini w H.
  - exists w. rewrite app_nil_r. apply reaches_nil.
  - inversion H as [|? ? Hl Hls]; subst. destruct (reach_initial o ini w l Hl) as (w1 & R1).
    destruct (IH o (ini ++ [l]) w1 Hls) as (w2 & R2). exists w2.
    rewrite <- app_assoc in R2. eapply reaches_cons; eauto.
Qed.

Lemma reach_header s o bl ini w b :
  hdr_ok b -> (s = FirstHeading \/ s = NextHeadingOrEof) ->
  reaches (HS s o bl ini w) [header_line b] (CS StartOfChangeData o bl ini (hdr_fields b) [] w).
Proof.
  intros Hok Hs.
  destruct (header_replay J (HS s o bl ini w) b Hok Hs eq_refl) as (st' & Hst' & Hsame).
  assert (Hstep : STEP (HS s o bl ini w) (header_line b) = Ok (Next st')).
  { unfold step. rewrite (one_line_rstrip _ (header_line_one_line _ Hok)). destruct Hs as [-> | ->]; exact Hst'. }
  exists st'. split; [|exact Hsame]. cbn [steps]. now rewrite Hstep.
Qed.

Definition change_st (s : pstate) : Prop := s = StartOfChangeData \/ s = MoreChangesOrTrailer.

Lemma reach_change s o bl ini cur chg w l :
  change_st s -> chg_ok l ->
  exists s' w', change_st s' /\ reaches (CS s o bl ini cur chg w) [l] (CS s' o bl ini cur (chg ++ [l]) w').
Proof.
  intros Hs (Hol & Hc).
  assert (Hsc : exists s' w', change_st s' /\
            step_changes J false allow (CS s o bl ini cur chg w) l = Ok (Next (CS s' o bl ini cur (chg ++ [l]) w'))).
  { unfold step_changes, CS. cbn [p_changes p_cur]. destruct Hc as [Hm|(He & Hn)].
    - rewrite Hm. exists MoreChangesOrTrailer, w. split; [now right|reflexivity].
    - destruct (match_change l); [exists MoreChangesOrTrailer, w; split; [now right|reflexivity]|].
      rewrite He, Hn.
      destruct (match_blank l); [exists s, w; split; [exact Hs|reflexivity]|].
      destruct (j_cvs J l || j_comments J l || j_more_comments J l); eexists s, _; (split; [exact Hs|reflexivity]). }
  destruct Hsc as (s' & w' & Hs' & Hsc). exists s', w'. split; [exact Hs'|].
  apply reaches_step. unfold step. rewrite (one_line_rstrip l Hol). cbn [CS p_state].
  destruct Hs as [-> | ->]; exact Hsc.
Qed.

Lemma reach_changes ls : forall s o bl ini cur chg w,
  change_st s -> Forall chg_ok ls ->
  exists s' w', change_st s' /\ reaches (CS s o bl ini cur chg w) ls (CS s' o bl ini cur (chg ++ ls) w').
Proof.
  induction ls as [|l ls IH]; intros s o bl ini cur chg w Hs H.
  - exists s, w. split; [exact Hs|]. rewrite app_nil_r. apply reaches_nil.
  - inversion H as [|? ? Hl Hls]; subst.
    destruct (reach_change s o bl ini cur chg w l Hs Hl) as (s1 & w1 & Hs1 & R1).
    destruct (IH s1 o bl ini cur (chg ++ [l]) w1 Hs1 Hls) as (s2 & w2 & Hs2 & R2).
    exists s2, w2. split; [exact Hs2|]. rewrite <- app_assoc in R2.
    eapply reaches_cons; eauto.
Qed.

(** the trailer of a block whose heading has been re-read *)
Lemma reach_trailer s o bl ini b chg w a d :
  change_st s -> b_author b = Some a -> b_date b = Some d ->
  author_ok a -> date_ok d -> sep_ok (b_sep b) ->
  exists w', reaches (CS s o bl ini (hdr_fields b) chg w) [trailer_line b]
               (HS NextHeadingOrEof o
                   (bl ++ [mkBlock (b_package b) (b_version b) (b_dists b) (b_urgency b) (b_comment b) chg
                                   (Some a) (Some d) [] (b_pairs b) false (b_sep b)]) ini w').
Proof.
  intros Hs Ha Hd Hao Hdo Hso.
  destruct (match_endline_gen a (b_sep b) d Hao Hso Hdo) as (g1 & g2 & He & Hg).
  assert (Htl : trailer_line b = [32; 45; 45]%N ++ (32%N :: a) ++ b_sep b ++ d).
  { unfold trailer_line. now rewrite Ha, Hd. }
  assert (Hol : one_line (trailer_line b) = true).
  { rewrite Htl. destruct Hao as (Hao & _). destruct Hdo as (_ & _ & Hdo).
    change (32%N :: a) with ([32%N] ++ a). rewrite !one_line_app, Hao, Hdo.
    destruct Hso as [-> | ->]; reflexivity. }
  assert (Hsc : exists w', step_changes J false allow (CS s o bl ini (hdr_fields b) chg w) (trailer_line b)
            = Ok (Next (HS NextHeadingOrEof o
                   (bl ++ [mkBlock (b_package b) (b_version b) (b_dists b) (b_urgency b) (b_comment b) chg
                                   (Some a) (Some d) [] (b_pairs b) false (b_sep b)]) ini w'))).
  { unfold step_changes. rewrite Htl.
    assert (Hmc : match_change ([32; 45; 45]%N ++ (32%N :: a) ++ b_sep b ++ d) = false) by reflexivity.
    rewrite Hmc, He. cbn [CS p_cur p_changes]. rewrite Hg.
    destruct Hso as [E | E]; rewrite E.
    - eexists. cbn. unfold hdr_fields, HS, push_block, with_state, set_trailer, set_changes. cbn. reflexivity.
    - eexists. cbn. unfold hdr_fields, HS, push_block, with_state, with_cur, with_warn, set_trailer, set_changes, set_sep.
      cbn. reflexivity. }
  destruct Hsc as (w' & Hsc). exists w'. apply reaches_step.
  unfold step. rewrite (one_line_rstrip _ Hol). cbn [CS p_state]. destruct Hs as [-> | ->]; exact Hsc.
Qed.

Lemma reach_trailing_plain o bs bk ini w l :
  tline_ok l -> trigger J l = false ->
  exists w', reaches (HS NextHeadingOrEof o (bs ++ [bk]) ini w) [l]
               (HS NextHeadingOrEof o (bs ++ [add_trailing l bk]) ini w').
Proof.
  intros (Hol & Htop) Htr.
  assert (Hs : exists w', step_heading J false None (HS NextHeadingOrEof o (bs ++ [bk]) ini w) l
                          = Ok (Next (HS NextHeadingOrEof o (bs ++ [add_trailing l bk]) ini w'))).
  { unfold step_heading, HS. rewrite Htop. cbn [p_state pstate_eqb negb]. rewrite !andb_true_r.
    unfold keep_line, trail_last, warn, with_warn. cbn [bind p_state p_old p_blocks p_initial p_cur p_changes p_warn].
    rewrite !upd_last_snoc.
    unfold trigger in Htr.
    destruct (match_blank l); [eexists; reflexivity|]. cbn [negb andb] in Htr.
    apply orb_false_iff in Htr. destruct Htr as [T1 T2]. rewrite T1.
    destruct (j_cvs J l || j_comments J l || j_more_comments J l); [eexists; reflexivity|].
    cbn [negb andb] in T2. rewrite T2. eexists. reflexivity. }
  destruct Hs as (w' & Hs). exists w'. apply reaches_step.
  unfold step. rewrite (one_line_rstrip l Hol). exact Hs.
Qed.

Lemma reach_trailing_trigger o bs bk ini w l :
  tline_ok l -> trigger J l = true ->
  exists w', reaches (HS NextHeadingOrEof o (bs ++ [bk]) ini w) [l]
               (HS SlurpToEnd (Some NextHeadingOrEof) (bs ++ [add_trailing l bk]) ini w').
Proof.
  intros (Hol & Htop) Htr.
  assert (Hs : step_heading J false None (HS NextHeadingOrEof o (bs ++ [bk]) ini w) l
               = Ok (Next (HS SlurpToEnd (Some NextHeadingOrEof) (bs ++ [add_trailing l bk]) ini w))).
  { unfold step_heading, HS. rewrite Htop. cbn [p_state pstate_eqb negb]. rewrite !andb_true_r.
    unfold trail_last. cbn [p_blocks]. rewrite upd_last_snoc.
    unfold trigger in Htr. apply andb_true_iff in Htr. destruct Htr as [T0 T]. apply negb_true_iff in T0. rewrite T0.
    apply orb_true_iff in T. destruct T as [T|T].
    - rewrite T. reflexivity.
    - apply andb_true_iff in T. destruct T as [T1 T2]. apply negb_true_iff in T1. rewrite T1, T2.
      destruct (j_emacs J l || j_vim J l); reflexivity. }
  exists w. apply reaches_step. unfold step. rewrite (one_line_rstrip l Hol). exact Hs.
Qed.

Lemma reach_slurp bs bk ini w l :
  one_line l = true ->
  reaches (HS SlurpToEnd (Some NextHeadingOrEof) (bs ++ [bk]) ini w) [l]
          (HS SlurpToEnd (Some NextHeadingOrEof) (bs ++ [add_trailing l bk]) ini w).
Proof.
  intros Hol. apply reaches_step. unfold step. rewrite (one_line_rstrip l Hol). cbn [HS p_state].
  unfold step_slurp, trail_last, HS. cbn [p_old p_blocks]. rewrite upd_last_snoc. reflexivity.
Qed.

Definition add_trailings (bk : block) (ls : list str) : block :=
  mkBlock (b_package bk) (b_version bk) (b_dists bk) (b_urgency bk) (b_comment bk) (b_changes bk)
          (b_author bk) (b_date bk) (b_trailing bk ++ ls) (b_pairs bk) (b_no_trailer bk) (b_sep bk).

Lemma add_trailings_nil bk : add_trailings bk [] = bk.
Proof. unfold add_trailings. rewrite app_nil_r. now destruct bk. Qed.

Lemma add_trailings_cons bk l ls : add_trailings (add_trailing l bk) ls = add_trailings bk (l :: ls).
Proof. unfold add_trailings, add_trailing. cbn. now rewrite <- app_assoc. Qed.

Lemma reach_slurps ls : forall bs bk ini w,
  Forall (fun l => one_line l = true) ls ->
  reaches (HS SlurpToEnd (Some NextHeadingOrEof) (bs ++ [bk]) ini w) ls
          (HS SlurpToEnd (Some NextHeadingOrEof) (bs ++ [add_trailings bk ls]) ini w).
Proof.
  induction ls as [|l ls IH]; intros bs bk ini w H.
  - rewrite add_trailings_nil. apply reaches_nil.
  - inversion H as [|? ? Hl Hls]; subst.
    eapply reaches_cons; [apply (reach_slurp bs bk ini w l Hl)|].
    rewrite <- add_trailings_cons. now apply IH.
Qed.

Lemma reach_notrig ls : forall o bs bk ini w,
  notrig J ls ->
  exists w', reaches (HS NextHeadingOrEof o (bs ++ [bk]) ini w) ls
               (HS NextHeadingOrEof o (bs ++ [add_trailings bk ls]) ini w').
Proof.
  induction ls as [|l ls IH]; intros o bs bk ini w H.
  - exists w. rewrite add_trailings_nil. apply reaches_nil.
  - inversion H as [|? ? (Hl & Ht) Hls]; subst.
    destruct (reach_trailing_plain o bs bk ini w l Hl Ht) as (w1 & R1).
    destruct (IH o bs (add_trailing l bk) ini w1 Hls) as (w2 & R2). exists w2.
    rewrite <- add_trailings_cons. eapply reaches_cons; eauto.
Qed.

(** the state after the trailing lines of a block: waiting for a heading, or slurping *)
Definition after_block (o : option pstate) (bl : list block) (ini : list str) (E : pst) : Prop :=
  exists w', E = HS NextHeadingOrEof o bl ini w' \/ E = HS SlurpToEnd (Some NextHeadingOrEof) bl ini w'.

Lemma reach_trailing last ls o bs bk ini w :
  trailing_ok J last ls ->
  exists E, reaches (HS NextHeadingOrEof o (bs ++ [bk]) ini w) ls E
            /\ after_block o (bs ++ [add_trailings bk ls]) ini E
            /\ (last = false -> exists w', E = HS NextHeadingOrEof o (bs ++ [add_trailings bk ls]) ini w').
Proof.
  intros [Hn|(Hlast & pre & t & post & -> & Hpre & Ht & Htr & Hpost)].
  - destruct (reach_notrig ls o bs bk ini w Hn) as (w' & R). eexists. split; [exact R|].
    split; [exists w'; now left|]. intros _. now exists w'.
  - destruct (reach_notrig pre o bs bk ini w Hpre) as (w1 & R1).
    destruct (reach_trailing_trigger o bs (add_trailings bk pre) ini w1 t Ht Htr) as (w2 & R2).
    pose proof (reach_slurps post bs (add_trailing t (add_trailings bk pre)) ini w2 Hpost) as R3.
    eexists. split.
    + eapply reaches_app; [exact R1|]. eapply reaches_cons; [exact R2|exact R3].
    + assert (E : add_trailings (add_trailing t (add_trailings bk pre)) post = add_trailings bk (pre ++ t :: post)).
      { unfold add_trailings, add_trailing. cbn. now rewrite <- !app_assoc. }
      rewrite E. split; [exists w2; now right|]. intros Hf. congruence.
Qed.

(** ** one block *)

(** a block that can be formatted has all its header fields, and either a full trailer or none *)
Lemma format_block_fields b x :
  format_block false b = Ok x ->
  (exists p v d u, b_package b = Some p /\ b_version b = Some v /\ b_dists b = Some d /\ b_urgency b = Some u)
  /\ ((exists a dt, b_author b = Some a /\ b_date b = Some dt)
      \/ (b_no_trailer b = true /\ b_author b = None /\ b_date b = None)).
Proof.
  unfold format_block.
  destruct (b_package b) as [p|]; [|discriminate]. destruct (b_version b) as [v|]; [|discriminate].
  destruct (b_dists b) as [d|]; [|discriminate]. destruct (b_urgency b) as [u|]; [|discriminate].
  cbn [opt_or_err bind]. intros H. split; [exists p, v, d, u; auto|].
  destruct (b_no_trailer b), (b_author b) as [a|], (b_date b) as [dt|]; cbn in H; try discriminate;
    try (left; exists a, dt; auto); right; auto.
Qed.

Lemma blk_hdr_ok last b x : blk_okc J last b -> format_block false b = Ok x -> hdr_ok b.
Proof.
  intros K Hf. destruct (format_block_fields b x Hf) as ((p & v & d & u & Hp & Hv & Hd & Hu) & _).
  constructor.
  - destruct (k_pkg J last b K p Hp) as (c & n & -> & H1 & H2 & H3). exists c, n. auto.
  - destruct (k_ver J last b K v Hv) as (H1 & H2 & H3). exists v. auto.
  - exists d. split; [exact Hd|exact (k_dist J last b K d Hd)].
  - exists u. split; [exact Hu|exact (k_urg J last b K u Hu)].
  - exact (k_com J last b K).
  - exact (k_pairs J last b K).
Qed.

Lemma block_lines_trailer b a dt :
  b_author b = Some a -> b_date b = Some dt ->
  block_lines b = [header_line b] ++ b_changes b ++ [trailer_line b] ++ b_trailing b.
Proof.
  intros Ha Hd. unfold block_lines, has_trailer. rewrite Ha, Hd. cbn. now rewrite !andb_false_r.
Qed.

Lemma block_lines_pending b :
  b_no_trailer b = true -> b_author b = None -> b_date b = None -> b_trailing b = [] ->
  block_lines b = [header_line b] ++ b_changes b.
Proof.
  intros Hn Ha Hd Ht. unfold block_lines, has_trailer. rewrite Hn, Ha, Hd, Ht. cbn. now rewrite app_nil_r.
Qed.

Lemma block_norm_trailer b a dt :
  b_author b = Some a -> b_date b = Some dt ->
  block_norm b = add_trailings (mkBlock (b_package b) (b_version b) (b_dists b) (b_urgency b) (b_comment b)
                                        (b_changes b) (Some a) (Some dt) [] (b_pairs b) false (b_sep b))
                               (b_trailing b).
Proof.
  intros Ha Hd. unfold block_norm, add_trailings, has_trailer. rewrite Ha, Hd. cbn. now rewrite !andb_false_r.
Qed.

(** a block with a trailer, from a heading state *)
Lemma reach_block_trailer last s o bl ini w b x a dt :
  blk_okc J last b -> format_block false b = Ok x -> (s = FirstHeading \/ s = NextHeadingOrEof) ->
  b_author b = Some a -> b_date b = Some dt ->
  exists E, reaches (HS s o bl ini w) (block_lines b) E
            /\ after_block o (bl ++ [block_norm b]) ini E
            /\ (last = false -> exists w', E = HS NextHeadingOrEof o (bl ++ [block_norm b]) ini w').
Proof.
  intros K Hf Hs Ha Hd.
  pose proof (blk_hdr_ok last b x K Hf) as Hok.
  rewrite (block_lines_trailer b a dt Ha Hd).
  pose proof (reach_header s o bl ini w b Hok Hs) as R1.
  destruct (reach_changes (b_changes b) StartOfChangeData o bl ini (hdr_fields b) [] w (or_introl eq_refl) (k_chg J last b K))
    as (s2 & w2 & Hs2 & R2). cbn [app] in R2.
  destruct (reach_trailer s2 o bl ini b (b_changes b) w2 a dt Hs2 Ha Hd
              (k_auth J last b K a Ha) (k_date J last b K dt Hd) (k_sep J last b K)) as (w3 & R3).
  destruct (reach_trailing last (b_trailing b) o bl
              (mkBlock (b_package b) (b_version b) (b_dists b) (b_urgency b) (b_comment b) (b_changes b)
                       (Some a) (Some dt) [] (b_pairs b) false (b_sep b))
              ini w3 (k_trailing J last b K)) as (E & R4 & HE & HEl).
  exists E. rewrite (block_norm_trailer b a dt Ha Hd). split; [|split; assumption].
  eapply reaches_app; [exact R1|]. eapply reaches_app; [exact R2|]. eapply reaches_app; [exact R3|exact R4].
Qed.

(** the last block, without trailer: the lines end inside the block *)
Lemma reach_block_pending s o bl ini w b x :
  blk_okc J true b -> format_block false b = Ok x -> (s = FirstHeading \/ s = NextHeadingOrEof) ->
  b_no_trailer b = true -> b_author b = None -> b_date b = None ->
  exists s' w', change_st s' /\
    reaches (HS s o bl ini w) (block_lines b) (CS s' o bl ini (hdr_fields b) (b_changes b) w').
Proof.
  intros K Hf Hs Hn Ha Hd.
  pose proof (blk_hdr_ok true b x K Hf) as Hok.
  destruct (k_notrailer J true b K Hn) as (_ & Htr & _).
  rewrite (block_lines_pending b Hn Ha Hd Htr).
  pose proof (reach_header s o bl ini w b Hok Hs) as R1.
  destruct (reach_changes (b_changes b) StartOfChangeData o bl ini (hdr_fields b) [] w (or_introl eq_refl) (k_chg J true b K))
    as (s2 & w2 & Hs2 & R2). cbn [app] in R2.
  exists s2, w2. split; [exact Hs2|]. eapply reaches_app; eauto.
Qed.

End Replay.
