(** Model of debian/changelog.py : Changelog.parse_changelog (the five-state
    machine), the header key/value loop, ChangeBlock._format / Changelog._format,
    new_block / add_change / attribute assignment.

    No proofs here: the model must still run when a proof breaks.

    Conventions
    - text is [str = list N] (code points);
    - a Python exception is [Err kind]: ChangelogParseError = [ParseError],
      ChangelogCreateError = [OtherError], [self._blocks[-1]] / [self._blocks[0]] on an empty list = [IndexError];
    - warnings.warn(...) appends to [p_warn] (lenient) or raises (strict);
    - each regular expression the parser's control flow depends on has a
      hand-written matcher below ("leaf"), written to return what Python's
      backtracking matcher returns (groups of the FIRST successful path);
      the comment above each leaf argues why the deterministic reading is the
      same, and every leaf is compared on its own with the live compiled
      pattern by the harness (Check.v, constructor [CLeaf]);
    - the thirteen "junk" patterns (emacs_variables, vim_variables, cvs_keyword,
      comments, more_comments, old_format_re1..8) are NOT interpreted: the model
      is parametric in them ([junk] record, a Section variable). *)
From Verif Require Import Lib.Base Lib.PyStr Gen.PyChars Gen.ClChars.

(** * Character classes (tables generated from the interpreter / the pattern texts) *)

Definition ws (c : N) : bool := py_isspace c.                        (* \s *)
Definition wchar (c : N) : bool := in_ranges cl_w_ranges c.          (* \w *)
Definition dchar (c : N) : bool := re_d c.                           (* \d *)
Definition name_char (c : N) : bool := existsb (N.eqb c) cl_name_chars.  (* [-+0-9a-z.] re.I *)
Definition key_char (c : N) : bool := existsb (N.eqb c) cl_key_chars.    (* [-0-9a-z] re.I *)
(** [^\(\) \t] *)
Definition ver_char (c : N) : bool :=
  negb ((c =? 40)%N || (c =? 41)%N || (c =? 32)%N || (c =? 9)%N).

(** key.lower() on strings of key characters *)
Fixpoint assoc_N {A} (c : N) (l : list (N * A)) : option A :=
  match l with
  | [] => None
  | (k, v) :: l' => if (c =? k)%N then Some v else assoc_N c l'
  end.
Definition lower_char (c : N) : str :=
  match assoc_N c cl_key_lower with Some l => l | None => [c] end.
Definition key_lower (k : str) : str := flat_map lower_char k.

Definition s_urgency : str := [117; 114; 103; 101; 110; 99; 121]%N.   (* "urgency" *)
Definition s_unknown : str := [117; 110; 107; 110; 111; 119; 110]%N.  (* "unknown" *)

(** * Regex leaves *)

Definition is_some {A} (o : option A) : bool := match o with Some _ => true | None => false end.
Definition obind {A B} (o : option A) (f : A -> option B) : option B :=
  match o with Some a => f a | None => None end.

(** a literal prefix *)
Fixpoint strip_prefix (pre s : str) : option str :=
  match pre, s with
  | [], _ => Some s
  | a :: pre', b :: s' => if (a =? b)%N then strip_prefix pre' s' else None
  | _ :: _, [] => None
  end.

(** [.*$] at the end of a pattern (no MULTILINE/DOTALL): the rest of the subject
    has no LF, or exactly one LF which is its last character. *)
Fixpoint dotstar_eol (s : str) : bool :=
  match s with
  | [] => true
  | c :: r => if (c =? 10)%N then match r with [] => true | _ => false end else dotstar_eol r
  end.

(** blankline = ^\s*$ *)
Definition match_blank (l : str) : bool := forallb ws l.

(** changere = ^\s\s+.*$
    \s\s+ is greedy and \s contains LF, '.' does not: the match exists iff the
    first two characters are white space and what follows the maximal white
    run satisfies [.*$] (a shorter \s+ only makes '.*' start earlier and meet
    the same LFs). *)
Definition match_change (l : str) : bool :=
  match l with
  | a :: b :: r => ws a && ws b && dotstar_eol (dropwhile ws r)
  | _ => false
  end.

(** topline = ^(\w[-+0-9a-z.]* ) \(([^\(\) \t]+)\)((\s+[-+0-9a-z.]+)+)\;   (re.I, prefix match; "* )" stands for "*" ")" in these comments)
    Deterministic: SP is not a name character, ')' is not in the version class,
    and group 3 is the maximal run of (white | name) characters after ')',
    which must start with white space, end with a name character and be
    followed by ';' (white and name are disjoint, ';' is in neither).
    Returns groups 1, 2, 3 and the text after the match (line[top_match.end():]). *)
Definition match_topline (l : str) : option (str * str * str * str) :=
  match l with
  | c :: r =>
    if wchar c then
      let (n, r1) := span name_char r in
      match strip_prefix [32; 40]%N r1 with                  (* " (" *)
      | Some r2 =>
          let (v, r3) := span ver_char r2 in
          match v, strip_prefix [41]%N r3 with               (* ")" *)
          | _ :: _, Some r4 =>
              let (g, r5) := span (fun x => ws x || name_char x) r4 in
              match g, last_opt g, strip_prefix [59]%N r5 with     (* ";" *)
              | g0 :: _, Some gl, Some rest =>
                  if ws g0 && name_char gl then Some (c :: n, v, g, rest) else None
              | _, _, _ => None
              end
          | _, _ => None
          end
      | None => None
      end
    else None
  | [] => None
  end.

(** the date sub-pattern of endline, anchored at the end of the subject:
      (\w+\,\s* )?\d{1,2}\s+\w+\s+\d{4}\s+\d{1,2}:\d\d:\d\d\s+[-+]\d{4}\s*$
    Every factor is followed by a character outside its own class, so each
    greedy run is maximal and nothing can be given back; the optional prefix
    is taken exactly when the leading \w-run is non-empty and followed by ','. *)
Definition eat_ws1 (s : str) : option str :=
  match s with c :: r => if ws c then Some (dropwhile ws r) else None | [] => None end.
Definition eat_w1 (s : str) : option str :=
  match s with c :: r => if wchar c then Some (dropwhile wchar r) else None | [] => None end.
Definition eat_d (lo hi : nat) (s : str) : option str :=
  let (d, r) := span dchar s in
  if (lo <=? length d)%nat && (length d <=? hi)%nat then Some r else None.
Definition eat_c (c : N) (s : str) : option str :=
  match s with x :: r => if (x =? c)%N then Some r else None | [] => None end.
Definition eat_sign (s : str) : option str :=
  match s with x :: r => if (x =? 45)%N || (x =? 43)%N then Some r else None | [] => None end.

Definition date_prefix (s : str) : str :=
  let (w, r) := span wchar s in
  match w, strip_prefix [44]%N r with                        (* "," *)
  | _ :: _, Some r' => dropwhile ws r'
  | _, _ => s
  end.

Definition date_match (s : str) : bool :=
  match
    obind (eat_d 1 2 (date_prefix s)) (fun s =>
    obind (eat_ws1 s) (fun s =>
    obind (eat_w1 s) (fun s =>
    obind (eat_ws1 s) (fun s =>
    obind (eat_d 4 4 s) (fun s =>
    obind (eat_ws1 s) (fun s =>
    obind (eat_d 1 2 s) (fun s =>
    obind (eat_c 58 s) (fun s =>
    obind (eat_d 2 2 s) (fun s =>
    obind (eat_c 58 s) (fun s =>
    obind (eat_d 2 2 s) (fun s =>
    obind (eat_ws1 s) (fun s =>
    obind (eat_sign s) (fun s =>
    eat_d 4 4 s)))))))))))))
  with
  | Some r => forallb ws r
  | None => false
  end.

(** split at the LAST occurrence of a character / of a two-character sequence *)
Fixpoint split_last (c : N) (s : str) : option (str * str) :=
  match s with
  | [] => None
  | x :: s' =>
      match split_last c s' with
      | Some (p, q) => Some (x :: p, q)
      | None => if (x =? c)%N then Some ([], s') else None
      end
  end.

Fixpoint split_last2 (a b : N) (s : str) : option (str * str) :=
  match s with
  | [] => None
  | x :: s' =>
      match split_last2 a b s' with
      | Some (p, q) => Some (x :: p, q)
      | None =>
          match s' with
          | y :: s'' => if (x =? a)%N && (y =? b)%N then Some ([], s'') else None
          | [] => None
          end
      end
  end.

(** endline = ^ -- (.* ) <(.* )>(  ?)(DATE\s* )$
    The date sub-pattern contains neither '>' nor '<' nor a leading space, so on
    any successful path the '>' is the LAST '>' of the line, the separator is
    two spaces whenever two spaces follow it, and group 4 is the whole rest.
    '.' excludes LF: the text between " -- " and that '>' must be LF-free.
    Group 1 is greedy: the " <" is the last one before the '>'.
    Returns groups 1, 2, 3, 4. *)
Definition match_endline (l : str) : option (str * str * str * str) :=
  match strip_prefix [32; 45; 45; 32]%N l with               (* " -- " *)
  | Some x =>
      match split_last 62 x with                             (* last ">" *)
      | Some (pre, post) =>
          if mem_char 10 pre then None else
          match split_last2 32 60 pre with                   (* last " <" *)
          | Some (g1, g2) =>
              match strip_prefix [32; 32]%N post with
              | Some d => if date_match d then Some (g1, g2, [32; 32]%N, d) else None
              | None =>
                  match strip_prefix [32]%N post with
                  | Some d => if date_match d then Some (g1, g2, [32]%N, d) else None
                  | None => None
                  end
              end
          | None => None
          end
      | None => None
      end
  | None => None
  end.

(** endline_nodetails = ^ --(?: (.* ) <(.* )>(  ?)(DATE))?\s*$   (only match / no match is used)
    With the optional part it is endline's language; without it, white space only. *)
Definition match_nodetails (l : str) : bool :=
  match strip_prefix [32; 45; 45]%N l with                   (* " --" *)
  | Some r => forallb ws r || is_some (match_endline l)
  | None => false
  end.

(** '$' may sit before one final LF *)
Definition chop_final_lf (s : str) : str :=
  match rev s with
  | c :: r => if (c =? 10)%N then rev r else s
  | [] => s
  end.

(** keyvalue = ^([-0-9a-z]+)=\s*(.*\S)$   (re.I)
    '=' is not a key character; \s* is maximal (a shorter one leaves white
    space in front of the value and cannot repair a failure); group 2 is the
    rest (without one final LF), which must be non-empty, LF-free and end in a
    non-space character. *)
Definition match_keyvalue (s : str) : option (str * str) :=
  let (k, r) := span key_char s in
  match k, strip_prefix [61]%N r with                        (* "=" *)
  | _ :: _, Some r1 =>
      let v := chop_final_lf (dropwhile ws r1) in
      match last_opt v with
      | Some c => if negb (ws c) && negb (mem_char 10 v) then Some (k, v) else None
      | None => None
      end
  | _, _ => None
  end.

(** value_re = ^([-0-9a-z]+)((\s+.* )?)$   (re.I)
    Group 1 is the maximal key run; group 2 is empty at the end of the subject,
    otherwise it must start with white space and run to the end (or to the
    final LF that '$' tolerates). *)
Definition match_value (s : str) : option (str * str) :=
  let (u, r) := span key_char s in
  match u, r with
  | _ :: _, [] => Some (u, [])
  | _ :: _, c :: _ =>
      if ws c then
        let body := dropwhile ws r in
        if dotstar_eol body then
          match body with
          | [] => Some (u, r)
          | _ => Some (u, chop_final_lf r)
          end
        else None
      else None
  | _, _ => None
  end.

(** * Data *)

Record block := mkBlock {
  b_package : option str;
  b_version : option str;             (* _raw_version *)
  b_dists : option str;
  b_urgency : option str;
  b_comment : str;                    (* urgency_comment *)
  b_changes : list str;
  b_author : option str;
  b_date : option str;
  b_trailing : list str;
  b_pairs : list (str * str);         (* other_pairs: dict in insertion order *)
  b_no_trailer : bool;
  b_sep : str;                        (* _trailer_separator *)
}.

(** ChangeBlock() with no arguments *)
Definition empty_block : block :=
  mkBlock None None None (Some s_unknown) [] [] None None [] [] false [32; 32]%N.

Definition set_changes (b : block) (c : list str) : block :=
  mkBlock (b_package b) (b_version b) (b_dists b) (b_urgency b) (b_comment b) c
          (b_author b) (b_date b) (b_trailing b) (b_pairs b) (b_no_trailer b) (b_sep b).
Definition add_trailing (l : str) (b : block) : block :=
  mkBlock (b_package b) (b_version b) (b_dists b) (b_urgency b) (b_comment b) (b_changes b)
          (b_author b) (b_date b) (b_trailing b ++ [l]) (b_pairs b) (b_no_trailer b) (b_sep b).
Definition set_header (b : block) (p v d : str) : block :=
  mkBlock (Some p) (Some v) (Some d) (b_urgency b) (b_comment b) (b_changes b)
          (b_author b) (b_date b) (b_trailing b) (b_pairs b) (b_no_trailer b) (b_sep b).
Definition set_urgency (b : block) (u c : str) : block :=
  mkBlock (b_package b) (b_version b) (b_dists b) (Some u) c (b_changes b)
          (b_author b) (b_date b) (b_trailing b) (b_pairs b) (b_no_trailer b) (b_sep b).
Definition set_pairs (b : block) (ps : list (str * str)) : block :=
  mkBlock (b_package b) (b_version b) (b_dists b) (b_urgency b) (b_comment b) (b_changes b)
          (b_author b) (b_date b) (b_trailing b) ps (b_no_trailer b) (b_sep b).
Definition set_trailer (b : block) (a d : str) : block :=
  mkBlock (b_package b) (b_version b) (b_dists b) (b_urgency b) (b_comment b) (b_changes b)
          (Some a) (Some d) (b_trailing b) (b_pairs b) (b_no_trailer b) (b_sep b).
Definition set_sep (b : block) (s : str) : block :=
  mkBlock (b_package b) (b_version b) (b_dists b) (b_urgency b) (b_comment b) (b_changes b)
          (b_author b) (b_date b) (b_trailing b) (b_pairs b) (b_no_trailer b) s.
Definition set_no_trailer (b : block) : block :=
  mkBlock (b_package b) (b_version b) (b_dists b) (b_urgency b) (b_comment b) (b_changes b)
          (b_author b) (b_date b) (b_trailing b) (b_pairs b) true (b_sep b).

(** the Changelog object: initial_blank_lines and _blocks *)
Record changelog := mkCl { cl_initial : list str; cl_blocks : list block }.
Definition empty_changelog : changelog := mkCl [] [].

Inductive warning :=
| WEmpty            (* Empty changelog file. *)
| WInvalidKV        (* Invalid key-value pair after ';' *)
| WRepeatedKey      (* Repeated key-value *)
| WBadUrgency       (* Badly formatted urgency value *)
| WUnexpected       (* Unexpected line while looking for ... *)
| WBadTrailer       (* Badly formatted trailer line *)
| WEof.             (* Found eof where expected ... *)

Inductive pstate :=
| FirstHeading | NextHeadingOrEof | StartOfChangeData | MoreChangesOrTrailer | SlurpToEnd.

Definition pstate_eqb (a b : pstate) : bool :=
  match a, b with
  | FirstHeading, FirstHeading | NextHeadingOrEof, NextHeadingOrEof
  | StartOfChangeData, StartOfChangeData | MoreChangesOrTrailer, MoreChangesOrTrailer
  | SlurpToEnd, SlurpToEnd => true
  | _, _ => false
  end.

(** the local variables of parse_changelog + the two attributes it fills *)
Record pst := mkPst {
  p_state : pstate;
  p_old : option pstate;          (* old_state *)
  p_blocks : list block;          (* self._blocks, in file order *)
  p_initial : list str;           (* self.initial_blank_lines *)
  p_cur : block;                  (* current_block *)
  p_changes : list str;           (* changes *)
  p_warn : list warning;          (* warnings emitted so far, newest first *)
}.

Definition init_pst : pst := mkPst FirstHeading None [] [] empty_block [] [].

Definition with_state (st : pst) (s : pstate) : pst :=
  mkPst s (p_old st) (p_blocks st) (p_initial st) (p_cur st) (p_changes st) (p_warn st).
Definition with_slurp (st : pst) : pst :=
  mkPst SlurpToEnd (Some (p_state st)) (p_blocks st) (p_initial st) (p_cur st) (p_changes st) (p_warn st).
Definition with_blocks (st : pst) (bs : list block) : pst :=
  mkPst (p_state st) (p_old st) bs (p_initial st) (p_cur st) (p_changes st) (p_warn st).
Definition with_initial (st : pst) (i : list str) : pst :=
  mkPst (p_state st) (p_old st) (p_blocks st) i (p_cur st) (p_changes st) (p_warn st).
Definition with_cur (st : pst) (b : block) : pst :=
  mkPst (p_state st) (p_old st) (p_blocks st) (p_initial st) b (p_changes st) (p_warn st).
Definition with_changes (st : pst) (c : list str) : pst :=
  mkPst (p_state st) (p_old st) (p_blocks st) (p_initial st) (p_cur st) c (p_warn st).
Definition with_warn (st : pst) (w : list warning) : pst :=
  mkPst (p_state st) (p_old st) (p_blocks st) (p_initial st) (p_cur st) (p_changes st) w.

(** _parse_error(message, strict) *)
Definition warn (strict : bool) (w : warning) (st : pst) : result pst :=
  if strict then Err ParseError else Ok (with_warn st (w :: p_warn st)).

(** self._blocks[-1].add_trailing_line(line) *)
Fixpoint upd_last {A} (f : A -> A) (l : list A) : option (list A) :=
  match l with
  | [] => None
  | [a] => Some [f a]
  | a :: l' => match upd_last f l' with Some r => Some (a :: r) | None => None end
  end.

Definition trail_last (st : pst) (line : str) : result pst :=
  match upd_last (add_trailing line) (p_blocks st) with
  | Some bs => Ok (with_blocks st bs)
  | None => Err IndexError
  end.

(** initial_blank_lines.append(line) in the first-heading state, else _blocks[-1].add_trailing_line(line) *)
Definition keep_line (st : pst) (line : str) : result pst :=
  match p_state st with
  | FirstHeading => Ok (with_initial st (p_initial st ++ [line]))
  | _ => trail_last st line
  end.

(** d[k] = v on an insertion-ordered dict *)
Fixpoint dict_set (k v : str) (d : list (str * str)) : list (str * str) :=
  match d with
  | [] => [(k, v)]
  | (k', v') :: d' => if str_eqb k' k then (k', v) :: d' else (k', v') :: dict_set k v d'
  end.

(** The thirteen junk patterns, abstract. *)
Record junk := mkJunk {
  j_emacs : str -> bool;        (* emacs_variables *)
  j_vim : str -> bool;          (* vim_variables *)
  j_cvs : str -> bool;          (* cvs_keyword *)
  j_comments : str -> bool;     (* comments *)
  j_more_comments : str -> bool;(* more_comments *)
  j_old1 : str -> bool; j_old2 : str -> bool; j_old3 : str -> bool; j_old4 : str -> bool;
  j_old5 : str -> bool; j_old6 : str -> bool; j_old7 : str -> bool; j_old8 : str -> bool;
}.

Section Parser.
Variable J : junk.
Variable strict : bool.
Variable allow_empty_author : bool.
Variable max_blocks : option nat.

Definition old_format (l : str) : bool :=
  j_old1 J l || j_old2 J l || j_old3 J l || j_old4 J l
  || j_old5 J l || j_old6 J l || j_old7 J l || j_old8 J l.

(** the loop over pairs.split(',') ; [keys] = all_keys (as a set), [other] = other_pairs *)
Fixpoint kv_loop (pieces : list str) (keys : list str) (other : list (str * str)) (st : pst)
  : result pst :=
  match pieces with
  | [] => Ok (with_cur st (set_pairs (p_cur st) other))
  | piece :: rest =>
      let pair := strip_by ws piece in
      match match_keyvalue pair with
      | None => do st1 <- warn strict WInvalidKV st; kv_loop rest keys other st1
      | Some (key, value) =>
          let lk := key_lower key in
          do st1 <- (if existsb (str_eqb lk) keys then warn strict WRepeatedKey st else Ok st);
          if str_eqb lk s_urgency then
            match match_value value with
            | None => do st2 <- warn strict WBadUrgency st1; kv_loop rest (lk :: keys) other st2
            | Some (u, com) =>
                kv_loop rest (lk :: keys) other (with_cur st1 (set_urgency (p_cur st1) u com))
            end
          else kv_loop rest (lk :: keys) (dict_set key value other) st1
      end
  end.

(** the body of [if top_match is not None] after the max_blocks test;
    [pairs] = line[top_match.end():] *)
Definition do_header (st : pst) (g1 g2 g3 pairs : str) : result pst :=
  let st1 := with_cur st (set_header (p_cur st) g1 g2 (lstrip_by ws g3)) in
  do st2 <- kv_loop (split_on 44 pairs) [] [] st1;
  Ok (with_state st2 StartOfChangeData).

(** self._blocks.append(current_block) with _changes = changes; fresh block and list *)
Definition push_block (st : pst) (b : block) : pst :=
  mkPst (p_state st) (p_old st) (p_blocks st ++ [set_changes b (p_changes st)]) (p_initial st)
        empty_block [] (p_warn st).

Inductive ctl := Next (st : pst) | Stop (st : pst).

(** state in (first_heading, next_heading_or_eof) *)
Definition step_heading (st : pst) (line : str) : result ctl :=
  match match_topline line with
  | Some (g1, g2, g3, pairs) =>
      if match max_blocks with Some m => (m <=? length (p_blocks st))%nat | None => false end
      then Ok (Stop st)
      else do st1 <- do_header st g1 g2 g3 pairs; Ok (Next st1)
  | None =>
      if match_blank line then do st1 <- keep_line st line; Ok (Next st1)
      else
        let first := pstate_eqb (p_state st) FirstHeading in
        if (j_emacs J line || j_vim J line) && negb first then
          do st1 <- trail_last st line; Ok (Next (with_slurp st1))
        else if j_cvs J line || j_comments J line || j_more_comments J line then
          do st1 <- keep_line st line; Ok (Next st1)
        else if old_format line && negb first then
          do st1 <- trail_last st line; Ok (Next (with_slurp st1))
        else
          do st1 <- warn strict WUnexpected st;
          do st2 <- keep_line st1 line; Ok (Next st2)
  end.

(** state in (start_of_change_data, more_changes_or_trailer) *)
Definition step_changes (st : pst) (line : str) : result ctl :=
  if match_change line then
    Ok (Next (with_state (with_changes st (p_changes st ++ [line])) MoreChangesOrTrailer))
  else match match_endline line with
  | Some (g1, g2, g3, g4) =>
      do st1 <- (if str_eqb g3 [32; 32]%N then Ok st
                 else do st' <- warn strict WBadTrailer st;
                      Ok (with_cur st' (set_sep (p_cur st') g3)));
      let b := set_trailer (p_cur st1) (g1 ++ [32; 60]%N ++ g2 ++ [62]%N) g4 in
      Ok (Next (with_state (push_block st1 b) NextHeadingOrEof))
  | None =>
      if match_nodetails line then
        if allow_empty_author then
          Ok (Next (with_state (push_block st (p_cur st)) NextHeadingOrEof))
        else do st1 <- warn strict WBadTrailer st; Ok (Next st1)       (* continue: line dropped *)
      else if match_blank line then
        Ok (Next (with_changes st (p_changes st ++ [line])))
      else if j_cvs J line || j_comments J line || j_more_comments J line then
        Ok (Next (with_changes st (p_changes st ++ [line])))
      else
        do st1 <- warn strict WUnexpected st;
        Ok (Next (with_changes st1 (p_changes st1 ++ [line])))
  end.

(** state == slurp_to_end *)
Definition step_slurp (st : pst) (line : str) : result ctl :=
  match p_old st with
  | Some NextHeadingOrEof => do st1 <- trail_last st line; Ok (Next st1)
  | _ => Ok (Next (with_changes st (p_changes st ++ [line])))
  end.

(** line.rstrip('\n') *)
Definition rstrip_lf (l : str) : str := rstrip_by (fun c => (c =? 10)%N) l.

Definition step (st : pst) (raw : str) : result ctl :=
  let line := rstrip_lf raw in
  match p_state st with
  | FirstHeading | NextHeadingOrEof => step_heading st line
  | StartOfChangeData | MoreChangesOrTrailer => step_changes st line
  | SlurpToEnd => step_slurp st line
  end.

(** after the loop *)
Definition finish (st : pst) : result pst :=
  let eof_bad :=
    match p_state st with
    | NextHeadingOrEof => false
    | SlurpToEnd => match p_old st with Some NextHeadingOrEof => false | _ => true end
    | _ => true
    end in
  if eof_bad then
    do st1 <- warn strict WEof st;
    Ok (push_block st1 (set_no_trailer (p_cur st1)))
  else Ok st.

Fixpoint run (st : pst) (lines : list str) : result pst :=
  match lines with
  | [] => finish st
  | l :: ls =>
      match step st l with
      | Err e => Err e
      | Ok (Stop st') => Ok st'
      | Ok (Next st') => run st' ls
      end
  end.

End Parser.

(** * Input forms *)

(** re.split(r'\r\n|\r|\n', s) *)
Fixpoint split_crlf_aux (s : str) (cur : str) : list str :=
  match s with
  | [] => [rev cur]
  | c :: s' =>
      if (c =? 13)%N then
        match s' with
        | d :: s'' =>
            if (d =? 10)%N then rev cur :: split_crlf_aux s'' []
            else rev cur :: split_crlf_aux s' []
        | [] => rev cur :: split_crlf_aux s' []
        end
      else if (c =? 10)%N then rev cur :: split_crlf_aux s' []
      else split_crlf_aux s' (c :: cur)
  end.
Definition split_crlf (s : str) : list str := split_crlf_aux s [].

(** lines = re.split(...); if lines and lines[-1] == '': lines.pop() *)
Definition str_lines (s : str) : list str :=
  let ls := split_crlf s in
  match rev ls with
  | [] :: r => rev r
  | _ => ls
  end.

(** iterating a text file whose content has no CR: LF-terminated lines, LF kept *)
Fixpoint file_lines_aux (s : str) (cur : str) : list str :=
  match s with
  | [] => match cur with [] => [] | _ => [rev cur] end
  | c :: s' =>
      if (c =? 10)%N then rev (c :: cur) :: file_lines_aux s' []
      else file_lines_aux s' (c :: cur)
  end.
Definition file_lines (s : str) : list str := file_lines_aux s [].

Inductive input :=
| InStr (s : str)                 (* a str *)
| InLines (ls : list str)         (* an iterable of str *)
| InFile (s : str).               (* an open text file with this (CR-free) content *)

(** Changelog(file, max_blocks, allow_empty_author, strict) for file not None:
    the final values of the local variables; [cl_of] projects the object. *)
Definition parse_changelog (J : junk) (strict allow : bool) (maxb : option nat) (inp : input)
  : result pst :=
  match inp with
  | InStr s =>
      (* if not file.strip(): ...; return      -- file.strip() is empty iff every
         character is white space (written with forallb: List.rev is quadratic) *)
      if forallb ws s then warn strict WEmpty init_pst
      else run J strict allow maxb init_pst (str_lines s)
  | InLines ls => run J strict allow maxb init_pst ls
  | InFile s => run J strict allow maxb init_pst (file_lines s)
  end.

Definition cl_of (st : pst) : changelog := mkCl (p_initial st) (p_blocks st).

(** * Formatting *)

Definition opt_or_err {A} (o : option A) : result A :=
  match o with Some a => Ok a | None => Err OtherError end.   (* ChangelogCreateError *)

Definition nl (l : str) : str := l ++ [10%N].

(** ChangeBlock._format(allow_missing_author) *)
Definition format_block (allow_missing : bool) (b : block) : result str :=
  do p <- opt_or_err (b_package b);
  do v <- opt_or_err (b_version b);
  do d <- opt_or_err (b_dists b);
  do u <- opt_or_err (b_urgency b);
  let head := p ++ [32%N] ++ [40%N] ++ v ++ [41; 32]%N ++ d ++ [59; 32]%N
              ++ s_urgency ++ [61%N] ++ u ++ b_comment b
              ++ flat_map (fun kv => [44; 32]%N ++ fst kv ++ [61%N] ++ snd kv) (b_pairs b)
              ++ [10%N] in
  let chg := flat_map nl (b_changes b) in
  do tr <-
    (* if not self._no_trailer or self.author is not None or self.date is not None *)
    (if b_no_trailer b && negb (is_some (b_author b)) && negb (is_some (b_date b)) then Ok []
     else
       do a <- match b_author b with
               | Some a => Ok (32%N :: a)
               | None => if allow_missing then Ok [] else Err OtherError
               end;
       do dt <- match b_date b with
                | Some dt => Ok (b_sep b ++ dt)
                | None => if allow_missing then Ok [] else Err OtherError
                end;
       Ok ([32; 45; 45]%N ++ a ++ dt ++ [10%N]));
  Ok (head ++ chg ++ tr ++ flat_map nl (b_trailing b)).

Fixpoint format_blocks (allow_missing : bool) (bs : list block) : result str :=
  match bs with
  | [] => Ok []
  | b :: bs' =>
      do x <- format_block allow_missing b;
      do y <- format_blocks allow_missing bs';
      Ok (x ++ y)
  end.

(** Changelog._format ; str(changelog) = format_changelog false *)
Definition format_changelog (allow_missing : bool) (c : changelog) : result str :=
  do body <- format_blocks allow_missing (cl_blocks c);
  Ok (flat_map nl (cl_initial c) ++ body).

(** * Editing *)

Inductive attr := APackage | AVersion | ADists | AUrgency | AAuthor | ADate.

Inductive op :=
| NewBlock (package version dists urgency comment : option str) (changes : option (list str))
           (author date : option str) (pairs : option (list (str * str)))
| AddChange (change : str)
| SetAttr (a : attr) (v : str).      (* the Changelog-level setters / properties *)

Definition or_default {A} (o : option (list A)) (d : list A) : list A :=
  match o with Some (x :: l) => x :: l | _ => d end.       (* x or default, for str / list / dict *)

(** ChangeBlock(package, version, ...) followed by add_trailing_line('') *)
Definition new_block (package version dists urgency comment : option str)
    (changes : option (list str)) (author date : option str) (pairs : option (list (str * str)))
  : block :=
  mkBlock package version dists (Some (or_default urgency s_unknown)) (or_default comment [])
          (or_default changes []) author date [[]] (or_default pairs []) false [32; 32]%N.

(** ChangeBlock.add_change *)
Fixpoint insert_before_nonblank (c : str) (l : list str) : option (list str) :=
  match l with
  | [] => None
  | x :: l' =>
      if match_blank x then
        match insert_before_nonblank c l' with Some r => Some (x :: r) | None => None end
      else Some (c :: x :: l')
  end.

Definition add_change_list (c : str) (changes : list str) : list str :=
  match changes with
  | [] => [c]
  | _ =>
      let r := rev changes in
      match insert_before_nonblank c r with
      | Some r' => rev r'
      | None => rev r ++ [c]
      end
  end.

Definition set_attr (a : attr) (v : str) (b : block) : block :=
  match a with
  | APackage => mkBlock (Some v) (b_version b) (b_dists b) (b_urgency b) (b_comment b) (b_changes b)
                        (b_author b) (b_date b) (b_trailing b) (b_pairs b) (b_no_trailer b) (b_sep b)
  | AVersion => mkBlock (b_package b) (Some v) (b_dists b) (b_urgency b) (b_comment b) (b_changes b)
                        (b_author b) (b_date b) (b_trailing b) (b_pairs b) (b_no_trailer b) (b_sep b)
  | ADists => mkBlock (b_package b) (b_version b) (Some v) (b_urgency b) (b_comment b) (b_changes b)
                        (b_author b) (b_date b) (b_trailing b) (b_pairs b) (b_no_trailer b) (b_sep b)
  | AUrgency => mkBlock (b_package b) (b_version b) (b_dists b) (Some v) (b_comment b) (b_changes b)
                        (b_author b) (b_date b) (b_trailing b) (b_pairs b) (b_no_trailer b) (b_sep b)
  | AAuthor => mkBlock (b_package b) (b_version b) (b_dists b) (b_urgency b) (b_comment b) (b_changes b)
                        (Some v) (b_date b) (b_trailing b) (b_pairs b) (b_no_trailer b) (b_sep b)
  | ADate => mkBlock (b_package b) (b_version b) (b_dists b) (b_urgency b) (b_comment b) (b_changes b)
                        (b_author b) (Some v) (b_trailing b) (b_pairs b) (b_no_trailer b) (b_sep b)
  end.

(** one editing call; self._blocks[0] on an empty list is IndexError.
    [SetAttr AVersion v] is [set_version]: the code goes through
    debian_support.Version(v) and str(); the model stores v and is claimed only
    for strings that Version accepts (C14's subject). *)
Definition apply_op (c : changelog) (o : op) : result changelog :=
  match o with
  | NewBlock p v d u uc ch a dt ps =>
      Ok (mkCl (cl_initial c) (new_block p v d u uc ch a dt ps :: cl_blocks c))
  | AddChange ch =>
      match cl_blocks c with
      | b :: bs => Ok (mkCl (cl_initial c) (set_changes b (add_change_list ch (b_changes b)) :: bs))
      | [] => Err IndexError
      end
  | SetAttr a v =>
      match cl_blocks c with
      | b :: bs => Ok (mkCl (cl_initial c) (set_attr a v b :: bs))
      | [] => Err IndexError
      end
  end.

(** a script stops at the first call that raises *)
Fixpoint apply_ops (c : changelog) (ops : list op) : result changelog :=
  match ops with
  | [] => Ok c
  | o :: ops' => do c' <- apply_op c o; apply_ops c' ops'
  end.
