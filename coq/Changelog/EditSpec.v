(** C15: the documented domains of the values given to the editing calls, as a predicate
    on the model's editing operations ([op], Changelog/Model.v).  The per-value domains
    ([new_block_ok], [wf_author], [wf_date_str], [change_line], ...) are in Changelog/Spec.v. *)
From Verif Require Import Lib.Base Lib.PyStr Changelog.Model Changelog.Spec.

Definition op_dom (o : op) : bool :=
  match o with
  | NewBlock p v d u uc ch a dt ps => new_block_ok p v d u uc ch a dt ps
  | AddChange s => change_line s
  | SetAttr APackage v => wf_package v
  | SetAttr AVersion v => wf_version v
  | SetAttr ADists v => wf_dists_str v
  | SetAttr AUrgency v => wf_key v
  | SetAttr AAuthor v => wf_author v
  | SetAttr ADate v => wf_date_str v
  end.
