(** How the ASCII character classes of the grammar (Changelog/Spec.v) sit inside the
    character classes of the regular expressions (Changelog/Model.v, tables of
    Gen/ClChars.v and Gen/PyChars.v).  Each fact is a complete sweep of the 128 ASCII
    code points by [vm_compute], lifted by [forallb_forall]. *)
From Coq Require Import Lia ZifyBool.
From Verif Require Import Lib.Base Lib.PyStr Gen.PyChars Gen.ClChars Changelog.Model Changelog.Spec.

Definition ascii_all (P : N -> bool) : bool := forallb P (map N.of_nat (seq 0 128)).

Lemma ascii_all_spec P : ascii_all P = true -> forall c, (c < 128)%N -> P c = true.
Proof.
  intros H c Hc. unfold ascii_all in H. rewrite forallb_forall in H. apply H.
  apply in_map_iff. exists (N.to_nat c). split; [apply N2Nat.id|apply in_seq; lia].
Qed.

Lemma sweep (A B : N -> bool) :
  (forall c, A c = true -> (c < 128)%N) ->
  ascii_all (fun c => implb (A c) (B c)) = true ->
  forall c, A c = true -> B c = true.
Proof.
  intros Hlt Hall c HA. pose proof (ascii_all_spec _ Hall c (Hlt c HA)) as H.
  cbv beta in H. now rewrite HA in H.
Qed.

Lemma is_alnum_lt c : is_alnum c = true -> (c < 128)%N.
Proof. unfold is_alnum, is_alpha, is_upper, is_lower, is_digit. lia. Qed.
Lemma is_digit_lt c : is_digit c = true -> (c < 128)%N.
Proof. unfold is_digit. lia. Qed.
Lemma is_alpha_lt c : is_alpha c = true -> (c < 128)%N.
Proof. unfold is_alpha, is_upper, is_lower. lia. Qed.
Lemma pkg_char_lt c : pkg_char c = true -> (c < 128)%N.
Proof. unfold pkg_char, is_alnum, is_alpha, is_upper, is_lower, is_digit. lia. Qed.
Lemma version_char_lt c : version_char c = true -> (c < 128)%N.
Proof. unfold version_char, is_alnum, is_alpha, is_upper, is_lower, is_digit. lia. Qed.
Lemma hkey_char_lt c : hkey_char c = true -> (c < 128)%N.
Proof. unfold hkey_char, is_alnum, is_alpha, is_upper, is_lower, is_digit. lia. Qed.

(** first character of a package name: \w, and what follows: the name class *)
Lemma alnum_wchar c : is_alnum c = true -> wchar c = true.
Proof. apply sweep; [exact is_alnum_lt|vm_compute; reflexivity]. Qed.
Lemma alnum_not_ws c : is_alnum c = true -> ws c = false.
Proof. intros H. apply negb_true_iff. revert c H. apply sweep; [exact is_alnum_lt|vm_compute; reflexivity]. Qed.
Lemma pkg_name_char c : pkg_char c = true -> name_char c = true.
Proof. apply sweep; [exact pkg_char_lt|vm_compute; reflexivity]. Qed.
Lemma pkg_not_ws c : pkg_char c = true -> ws c = false.
Proof. intros H. apply negb_true_iff. revert c H. apply sweep; [exact pkg_char_lt|vm_compute; reflexivity]. Qed.
Lemma version_ver_char c : version_char c = true -> ver_char c = true.
Proof. apply sweep; [exact version_char_lt|vm_compute; reflexivity]. Qed.
Lemma hkey_key_char c : hkey_char c = true -> key_char c = true.
Proof. apply sweep; [exact hkey_char_lt|vm_compute; reflexivity]. Qed.
Lemma hkey_not_ws c : hkey_char c = true -> ws c = false.
Proof. intros H. apply negb_true_iff. revert c H. apply sweep; [exact hkey_char_lt|vm_compute; reflexivity]. Qed.
Lemma hkey_not_lf c : hkey_char c = true -> (c =? 10)%N = false.
Proof. unfold hkey_char, is_alnum, is_alpha, is_upper, is_lower, is_digit. lia. Qed.

(** key.lower() on grammar keys is ASCII lower-casing *)
Lemma hkey_lower_char c : hkey_char c = true -> lower_char c = [ascii_lower_char c].
Proof.
  intros H. apply str_eqb_eq. revert c H.
  apply (sweep hkey_char (fun c => str_eqb (lower_char c) [ascii_lower_char c]));
    [exact hkey_char_lt|vm_compute; reflexivity].
Qed.

Lemma key_lower_ascii k : forallb hkey_char k = true -> key_lower k = ascii_lower k.
Proof.
  induction k as [|c k IH]; simpl; [reflexivity|]. intros H.
  apply andb_true_iff in H. destruct H as [Hc Hk].
  unfold key_lower in *. simpl. rewrite (hkey_lower_char c Hc). simpl. now rewrite IH.
Qed.

(** the date *)
Lemma digit_dchar c : is_digit c = true -> dchar c = true.
Proof. apply sweep; [exact is_digit_lt|vm_compute; reflexivity]. Qed.
Lemma digit_wchar c : is_digit c = true -> wchar c = true.
Proof. apply sweep; [exact is_digit_lt|vm_compute; reflexivity]. Qed.
Lemma digit_not_ws c : is_digit c = true -> ws c = false.
Proof. intros H. apply negb_true_iff. revert c H. apply sweep; [exact is_digit_lt|vm_compute; reflexivity]. Qed.
Lemma alpha_wchar c : is_alpha c = true -> wchar c = true.
Proof. apply sweep; [exact is_alpha_lt|vm_compute; reflexivity]. Qed.
Lemma alpha_not_dchar c : is_alpha c = true -> dchar c = false.
Proof. intros H. apply negb_true_iff. revert c H. apply sweep; [exact is_alpha_lt|vm_compute; reflexivity]. Qed.
Lemma alpha_not_ws c : is_alpha c = true -> ws c = false.
Proof. intros H. apply negb_true_iff. revert c H. apply sweep; [exact is_alpha_lt|vm_compute; reflexivity]. Qed.

(** no '>' , '<' , LF inside a date's characters *)
Lemma digit_plain c : is_digit c = true -> (c =? 62)%N = false /\ (c =? 10)%N = false /\ (c =? 13)%N = false.
Proof. unfold is_digit. lia. Qed.
Lemma alpha_plain c : is_alpha c = true -> (c =? 62)%N = false /\ (c =? 10)%N = false /\ (c =? 13)%N = false.
Proof. unfold is_alpha, is_upper, is_lower. lia. Qed.

(** the fixed punctuation, by computation *)
Lemma ws_sp : ws 32 = true. Proof. reflexivity. Qed.
Lemma ws_lf : ws 10 = true. Proof. reflexivity. Qed.
Lemma punct_facts :
  wchar 32 = false /\ wchar 44 = false /\ wchar 58 = false /\ wchar 43 = false /\ wchar 45 = false
  /\ dchar 32 = false /\ dchar 58 = false /\ dchar 43 = false /\ dchar 45 = false /\ dchar 44 = false
  /\ ws 44 = false /\ ws 58 = false /\ ws 43 = false /\ ws 45 = false /\ ws 59 = false /\ ws 61 = false
  /\ name_char 32 = false /\ name_char 59 = false /\ ver_char 41 = false
  /\ key_char 61 = false /\ key_char 32 = false /\ ws 40 = false /\ ws 60 = false /\ ws 62 = false.
Proof. vm_compute. repeat split. Qed.

Lemma space_is_ws c : space c = ws c.
Proof. reflexivity. Qed.

(** white space is never a key / name / word character (all code points: the key and
    name classes are finite lists, checked member by member) *)
Lemma key_char_not_ws c : key_char c = true -> ws c = false.
Proof.
  unfold key_char. intros H. apply existsb_exists in H. destruct H as (x & Hin & Hx).
  apply N.eqb_eq in Hx. subst x.
  assert (G : forallb (fun x => negb (ws x)) cl_key_chars = true) by (vm_compute; reflexivity).
  rewrite forallb_forall in G. apply negb_true_iff. now apply G.
Qed.

Lemma name_char_not_ws c : name_char c = true -> ws c = false.
Proof.
  unfold name_char. intros H. apply existsb_exists in H. destruct H as (x & Hin & Hx).
  apply N.eqb_eq in Hx. subst x.
  assert (G : forallb (fun x => negb (ws x)) cl_name_chars = true) by (vm_compute; reflexivity).
  rewrite forallb_forall in G. apply negb_true_iff. now apply G.
Qed.

Lemma ws_not_key_char c : ws c = true -> key_char c = false.
Proof.
  intros H. destruct (key_char c) eqn:E; [|reflexivity].
  apply key_char_not_ws in E. congruence.
Qed.
