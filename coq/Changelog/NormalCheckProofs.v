(** C15 (and, through [CWf], C04): the bridge between the correspondence and the property for
    Changelog/Check.v -- [judged c = true -> agree c = true -> holds c = true] for EVERY case.

    The statement without [judged] is FALSE.  [agree] does determine the strictness part of
    [holds] (no side condition: [lenient_total], [strict_iff_warning] for every input form,
    allow_empty_author and max_blocks), but not the normal-form part and not [CWf]:

    1. public version.  [holds] compares str(block.version) ([ob_pubversion]) of the object
       and of its re-parse; [agree] compares only the raw attribute [ob_version].
       An observation whose two [ob_pubversion] lists differ agrees and does not hold.
       [pub_consistent]: blocks with the same raw version show the same public version.
    2. input forms that are not texts.  The normal-form theorems are about texts; a list of
       lines, or a file, whose lines contain CR or an inner LF is no text's line list:
       [InLines ["p (1) u; urgency=low"; "  * a" ++ [13] ++ "b"]] is parsed as ONE change
       line, written with the CR, and read back as two lines (the second one unexpected):
       the model -- and the code -- give different blocks, so [agree] holds and [holds]
       does not.  [plain_input]: every line, after rstrip('\n'), is free of CR and LF.
    3. max_blocks = 0.  The constructor then returns at the first heading, before any
       block; with blank lines in front, str() is a blank text, whose parse is the empty
       changelog and formats to "".  [maxb <> Some 0] (any other value is covered: the
       parse then is the parse of a prefix of the lines).
    4. [CWf]: see Changelog/WfCheckProofs.v.

    Route.  [agree] makes the observed objects the model's ([res_matches_ok]).  The lenient
    model parse of a plain input yields a structurally good object ([lenient_doc_okc]:
    [steps_sinv] + [finish_doc_okc] of EditParsed.v, here for every input form and
    max_blocks); editing calls in their domains keep it good ([apply_ops_okc] inside
    [format_normal_form_edit]); a good object that formats to [t] is what parsing [t] gives
    back, up to the private no-trailer flag, and formats to [t] again
    ([format_normal_form_edit] = Props/C15.v theorems 3-5).  The strictness part is
    [strict_iff_warning] (theorem 2) and totality [lenient_total] (theorem 1). *)
From Coq Require Import Lia.
From Verif Require Import Lib.Base Lib.PyStr Gen.PyChars Gen.ClChars
  Changelog.Model Changelog.Spec Changelog.EditSpec Changelog.Lit Changelog.CharFacts Changelog.LeafProofs
  Changelog.ParseProofs Changelog.WfProofs Changelog.NormalBase Changelog.NormalHeader Changelog.NormalProofs
  Changelog.BuiltProofs Changelog.EditBase Changelog.EditForm Changelog.EditReplay Changelog.EditParsed
  Changelog.Check Changelog.WfCheckProofs.

(** * max_blocks: the parse of a prefix *)

Section MaxBlocks.
Variable J : junk.
Variable allow : bool.
Variable m : nat.

Definition stops (st : pst) (l : str) : bool :=
  match p_state st with
  | FirstHeading | NextHeadingOrEof =>
      is_some (match_topline (rstrip_lf l)) && (m <=? length (p_blocks st))%nat
  | _ => false
  end.

Lemma step_maxb st l :
  step J false allow (Some m) st l
  = if stops st l then Ok (Stop st) else step J false allow None st l.
Proof.
  unfold step, stops.
  destruct (p_state st); try reflexivity; unfold step_heading;
    (destruct (match_topline (rstrip_lf l)) as [[[[g1 g2] g3] pairs]|]; [|reflexivity]);
    cbn [is_some andb]; destruct (m <=? length (p_blocks st))%nat; reflexivity.
Qed.

(** a run with max_blocks = m is a run of the plain loop over a prefix, followed by the
    end-of-file treatment or by the early return *)
Lemma run_maxb ls : forall st st',
  run J false allow (Some m) st ls = Ok st' ->
  exists ls1 ls2 stN, ls = ls1 ++ ls2 /\ steps J allow st ls1 = Ok stN
    /\ (finish false stN = Ok st'
        \/ (st' = stN /\ (p_state stN = FirstHeading \/ p_state stN = NextHeadingOrEof)
            /\ (m <= length (p_blocks stN))%nat)).
Proof.
  induction ls as [|l ls IH]; intros st st' H; cbn [run] in H.
  - exists [], [], st. split; [reflexivity|]. split; [reflexivity|]. now left.
  - rewrite step_maxb in H. destruct (stops st l) eqn:Es.
    + injection H as <-. exists [], (l :: ls), st. split; [reflexivity|]. split; [reflexivity|]. right.
      split; [reflexivity|]. unfold stops in Es.
      destruct (p_state st); try discriminate; apply andb_true_iff in Es; destruct Es as [_ Es];
        apply Nat.leb_le in Es; auto.
    + destruct (step J false allow None st l) as [[st1|st1]|e] eqn:E.
      * destruct (IH st1 st' H) as (ls1 & ls2 & stN & -> & Hs & Hf).
        exists (l :: ls1), ls2, stN. split; [reflexivity|]. split; [|exact Hf]. cbn [steps]. now rewrite E.
      * exfalso. exact (step_never_stops _ _ _ _ _ E).
      * discriminate.
Qed.

End MaxBlocks.

(** * The lenient parse of a plain input is a structurally good object *)

(** every line the parser is given is, after rstrip('\n'), free of CR and LF: it is a line of
    a text.  A str always is (it is split at CR, LF and CR LF). *)
Definition plain_line (l : str) : bool := one_line (rstrip_lf l).
Definition plain_input (i : input) : bool :=
  match i with
  | InStr _ => true
  | InLines ls => forallb plain_line ls
  | InFile s => forallb plain_line (file_lines s)
  end.

Definition maxb_ok (maxb : option nat) : bool :=
  match maxb with Some O => false | _ => true end.

Lemma forallb_map {A B} (f : B -> bool) (g : A -> B) l : forallb f (map g l) = forallb (fun x => f (g x)) l.
Proof. induction l as [|a l IH]; [reflexivity|]. cbn [map forallb]. now rewrite IH. Qed.

Lemma forallb_app_inv {A} (f : A -> bool) a b : forallb f (a ++ b) = true -> forallb f a = true.
Proof. rewrite forallb_app. intros H. apply andb_true_iff in H. now destruct H. Qed.

Section Good.
Variable J : junk.
Variable allow : bool.

Lemma run_doc_okc maxb ls st :
  maxb_ok maxb = true -> forallb one_line ls = true ->
  run J false allow maxb init_pst ls = Ok st -> doc_okc J (cl_of st).
Proof.
  intros Hm Hls Hrun. destruct maxb as [m|].
  - destruct (run_maxb J allow m ls init_pst st Hrun) as (ls1 & ls2 & stN & -> & Hs & Hf).
    destruct (steps_sinv J allow ls1 init_pst stN invs_init (sinv_init J) (forallb_app_inv _ _ _ Hls) Hs)
      as (Hi & Hsi).
    apply (finish_doc_okc J stN st Hi Hsi).
    destruct Hf as [Hf|(-> & Hst & Hlen)]; [exact Hf|].
    destruct Hst as [Hst|Hst].
    + rewrite (i_first _ Hi Hst) in Hlen. cbn [length] in Hlen. destruct m; [discriminate|lia].
    + unfold finish. now rewrite Hst.
  - rewrite run_steps in Hrun. destruct (steps J allow init_pst ls) as [stN|e] eqn:Hs; [|discriminate].
    cbn [bind] in Hrun.
    destruct (steps_sinv J allow ls init_pst stN invs_init (sinv_init J) Hls Hs) as (Hi & Hsi).
    exact (finish_doc_okc J stN st Hi Hsi Hrun).
Qed.

Lemma lenient_doc_okc maxb inp st :
  maxb_ok maxb = true -> plain_input inp = true ->
  parse_changelog J false allow maxb inp = Ok st -> doc_okc J (cl_of st).
Proof.
  intros Hm Hp. destruct inp as [s|ls|s]; cbn [parse_changelog plain_input] in *.
  - destruct (forallb ws s).
    + cbn. intros [= <-]. apply doc_okc_empty.
    + apply (run_doc_okc maxb _ st Hm). apply str_lines_one_line.
  - rewrite <- run_rstrip. apply (run_doc_okc maxb _ st Hm). now rewrite forallb_map.
  - rewrite <- run_rstrip. apply (run_doc_okc maxb _ st Hm). now rewrite forallb_map.
Qed.

End Good.

(** * The normal-form part of [holds] *)

(** blocks with the same raw version show the same public version *)
Fixpoint pub_consistent (l1 l2 : list oblock) : bool :=
  match l1, l2 with
  | a :: l1', b :: l2' =>
      implb (ostr_eqb (dopt (ob_version a)) (dopt (ob_version b)))
            (ostr_eqb (dopt (ob_pubversion a)) (dopt (ob_pubversion b)))
      && pub_consistent l1' l2'
  | _, _ => true
  end.

(** ... wherever [normal_form] looks at them *)
Definition pub_judged (os : ostate) (re : option (result ostate)) : bool :=
  match os_str os, re with
  | Ok _, Some (Ok os2) => pub_consistent (os_blocks os) (os_blocks os2)
  | _, _ => true
  end.

Lemma pub_lists l1 : forall l2,
  map (fun b => dopt (ob_version b)) l1 = map (fun b => dopt (ob_version b)) l2 ->
  pub_consistent l1 l2 = true ->
  list_eqb (option_eqb str_eqb) (map (fun b => dopt (ob_pubversion b)) l1)
           (map (fun b => dopt (ob_pubversion b)) l2) = true.
Proof.
  induction l1 as [|a l1 IH]; intros [|b l2] E Hp; try discriminate; [reflexivity|].
  cbn [map] in E.
  assert (Ea : dopt (ob_version a) = dopt (ob_version b)) by congruence.
  assert (Er : map (fun b => dopt (ob_version b)) l1 = map (fun b => dopt (ob_version b)) l2) by congruence.
  cbn [pub_consistent] in Hp. apply andb_true_iff in Hp. destruct Hp as [Hab Hr].
  rewrite Ea in Hab. assert (Hrefl : ostr_eqb (dopt (ob_version b)) (dopt (ob_version b)) = true) by now apply ostr_eqb_eq.
  rewrite Hrefl in Hab. cbn [implb] in Hab.
  cbn [map list_eqb]. unfold ostr_eqb in Hab. rewrite Hab. exact (IH l2 Er Hr).
Qed.

Lemma block7_norm b : block7_eqb b (block_norm b) = true.
Proof.
  unfold block7_eqb, block_norm.
  cbn [b_package b_version b_dists b_urgency b_changes b_author b_date].
  repeat (apply andb_true_iff; split); first [now apply ostr_eqb_eq | now apply strs_eqb_eq].
Qed.

Lemma blocks7_norm bs : list_eqb block7_eqb bs (map block_norm bs) = true.
Proof. induction bs as [|b bs IH]; [reflexivity|]. cbn [map list_eqb]. now rewrite block7_norm, IH. Qed.

Lemma versions_norm bs : map b_version (map block_norm bs) = map b_version bs.
Proof. rewrite map_map. reflexivity. Qed.

(** [c] is the model's object, [os] what was observed for it, [re] the observed re-parse *)
Lemma normal_form_holds tbl allow c n os re :
  (forall t, format_changelog false c = Ok t ->
     exists st', parse_changelog (junk_of tbl) false allow None (InStr t) = Ok st'
                 /\ cl_of st' = mkCl (cl_initial c) (map block_norm (cl_blocks c))
                 /\ format_changelog false (cl_of st') = Ok t) ->
  cl_blocks c = map block_of (os_blocks os) ->
  rstr_eqb (format_changelog false c) (os_str os) = true ->
  re_matches (model_reparse tbl allow (Ok (c, n))) re = true ->
  pub_judged os re = true ->
  normal_form os re = true.
Proof.
  intros Hnf Hb Hstr Hre Hpub. unfold normal_form, pub_judged in *.
  destruct (os_str os) as [t|e]; [|reflexivity].
  destruct (format_changelog false c) as [x|e] eqn:Ef; cbn [rstr_eqb] in Hstr; [|discriminate].
  apply str_eqb_eq in Hstr. subst x.
  destruct (Hnf _ eq_refl) as (st' & Hp & Hcl & Hf').
  cbn [model_reparse] in Hre. rewrite Ef in Hre. unfold model_parse in Hre. cbn [option_map] in Hre.
  rewrite Hp in Hre.
  destruct re as [x|]; cbn [re_matches] in Hre; [|discriminate].
  destruct (res_matches_ok _ _ _ Hre) as (os2 & -> & _ & Hb2 & _ & Hstr2).
  rewrite Hcl in Hb2. cbn [cl_blocks] in Hb2.
  rewrite Hf' in Hstr2. rewrite Hstr2, andb_true_r.
  rewrite <- Hb, <- Hb2, blocks7_norm. cbn [andb].
  apply pub_lists; [|exact Hpub].
  change (fun b => dopt (ob_version b)) with (fun b => b_version (block_of b)).
  rewrite <- !(map_map block_of b_version), <- Hb, <- Hb2. symmetry. apply versions_norm.
Qed.

(** * [CMut] *)

Definition judged_mut (inp : linput) (maxb : option N) (len : result ostate) (re : option (result ostate)) : bool :=
  plain_input (input_of inp) && maxb_ok (option_map N.to_nat maxb)
  && match len with Ok os => pub_judged os re | Err _ => true end.

(** the strictness part needs no side condition *)
Lemma mut_strictness inp allow maxb tbl len str :
  res_matches (model_parse tbl false allow maxb (input_of inp)) len = true ->
  res_matches (model_parse tbl true allow maxb (input_of inp)) str = true ->
  exists os, len = Ok os /\
    match str with
    | Err ParseError => negb (os_warnings os =? 0)%N
    | Err _ => false
    | Ok os' =>
        (os_warnings os =? 0)%N && (os_warnings os' =? 0)%N
        && list_eqb block_eqb (map block_of (os_blocks os)) (map block_of (os_blocks os'))
        && strs_eqb (map declit (os_initial os)) (map declit (os_initial os'))
    end = true.
Proof.
  unfold model_parse. intros Hl Hs.
  destruct (strict_iff_warning (junk_of tbl) allow (option_map N.to_nat maxb) (input_of inp)) as (st & Hpl & Hps).
  rewrite Hpl in Hl. destruct (res_matches_ok _ _ _ Hl) as (os & -> & Hi & Hb & Hw & _).
  exists os. split; [reflexivity|].
  destruct (parse_changelog (junk_of tbl) true allow (option_map N.to_nat maxb) (input_of inp)) as [st'|e].
  - destruct Hps as (-> & Hnil). destruct (res_matches_ok _ _ _ Hs) as (os' & -> & Hi' & Hb' & Hw' & _).
    rewrite Hw, Hw', Hnil. cbn [length N.of_nat N.eqb andb].
    rewrite <- Hb, <- Hb', <- Hi, <- Hi'.
    apply andb_true_iff. split; [now apply blocks_eqb_eq|now apply strs_eqb_eq].
  - destruct Hps as (-> & Hne). destruct str as [os'|f]; cbn [res_matches] in Hs; [discriminate|].
    apply err_eqb_eq in Hs. subst f. rewrite Hw.
    destruct (p_warn st); [congruence|]. reflexivity.
Qed.

Theorem mut_case_holds inp allow maxb tbl len str re :
  judged_mut inp maxb len re = true ->
  agree (CMut inp allow maxb tbl len str re) = true -> holds (CMut inp allow maxb tbl len str re) = true.
Proof.
  unfold judged_mut. cbn [agree holds]. intros Hj Ha.
  apply andb_true_iff in Ha. destruct Ha as [Ha Hre]. apply andb_true_iff in Ha. destruct Ha as [Hl Hs].
  destruct (mut_strictness inp allow maxb tbl len str Hl Hs) as (os & -> & Hstrict).
  rewrite Hstrict. cbn [andb].
  apply andb_true_iff in Hj. destruct Hj as [Hj Hpub]. apply andb_true_iff in Hj. destruct Hj as [Hplain Hm].
  unfold model_parse in Hl, Hre.
  destruct (parse_changelog (junk_of tbl) false allow (option_map N.to_nat maxb) (input_of inp)) as [st|e] eqn:Hp;
    [|discriminate].
  pose proof (lenient_doc_okc (junk_of tbl) allow _ _ st Hm Hplain Hp) as Hok.
  destruct (res_matches_ok _ _ _ Hl) as (os0 & [= <-] & _ & Hb & _ & Hstr).
  apply (normal_form_holds tbl allow (cl_of st) (length (p_warn st)) os re); try assumption.
  intros t Hf. exact (format_normal_form_edit (junk_of tbl) allow (cl_of st) [] (cl_of st) t Hok eq_refl eq_refl Hf).
Qed.

(** * [CEdit] *)

Definition judged_edit (start : option linput) (ops : list lop) (o : result ostate)
    (re : option (result ostate)) : bool :=
  match o with
  | Ok os =>
      if forallb op_in_domain ops then
        match start with Some i => plain_input (input_of i) | None => true end && pub_judged os re
      else true
  | Err _ => true
  end.

Theorem edit_case_holds start tbl ops o re :
  judged_edit start ops o re = true ->
  agree (CEdit start tbl ops o re) = true -> holds (CEdit start tbl ops o re) = true.
Proof.
  unfold judged_edit. cbn [agree holds]. intros Hj Ha.
  destruct o as [os|e]; [|reflexivity].
  destruct (forallb op_in_domain ops) eqn:Hdom; [|reflexivity].
  apply andb_true_iff in Hj. destruct Hj as [Hplain Hpub].
  apply andb_true_iff in Ha. destruct Ha as [Hm Hre].
  unfold edit_model in Hm, Hre.
  assert (Hstart : match start_model tbl start with
                   | Ok (c0, _) => doc_okc (junk_of tbl) c0
                   | Err _ => True
                   end).
  { destruct start as [i|]; cbn [start_model].
    - unfold model_parse. cbn [option_map].
      destruct (parse_changelog (junk_of tbl) false false None (input_of i)) as [st|e] eqn:Hp; [|exact I].
      exact (lenient_doc_okc (junk_of tbl) false None _ st eq_refl Hplain Hp).
    - apply doc_okc_empty. }
  destruct (start_model tbl start) as [[c0 n]|e]; [|discriminate].
  destruct (apply_ops c0 (map op_of ops)) as [c|e] eqn:Hops; [|discriminate].
  destruct (res_matches_ok _ _ _ Hm) as (os0 & [= <-] & _ & Hb & _ & Hstr).
  apply (normal_form_holds tbl false c n os re); try assumption.
  intros t Hf. apply (format_normal_form_edit (junk_of tbl) false c0 (map op_of ops) c t Hstart); try assumption.
  rewrite forallb_map. exact Hdom.
Qed.

(** * Every case *)

Definition judged (c : case) : bool :=
  match c with
  | CLit _ _ => true
  | CLeaf _ _ _ => true
  | CWf text inp _ _ o => judged_wf text inp o
  | CMut inp _ maxb _ len _ re => judged_mut inp maxb len re
  | CEdit start _ ops o re => judged_edit start ops o re
  end.

Theorem agree_implies_holds c : judged c = true -> agree c = true -> holds c = true.
Proof.
  destruct c as [s l|w s g|text inp gen tbl o|inp allow maxb tbl len str re|start tbl ops o re]; cbn [judged].
  - reflexivity.
  - reflexivity.
  - apply wf_case_holds.
  - apply mut_case_holds.
  - apply edit_case_holds.
Qed.

(** without the side condition: the part of [holds] that [agree] alone determines.  For [CMut]
    that is the whole strictness claim -- the lenient constructor returned, the strict one raised
    ChangelogParseError (and nothing else) exactly when the lenient one warned, and otherwise
    built the same blocks and initial lines -- for every input form, lines with CR included,
    and every max_blocks. *)
Theorem agree_implies_strictness inp allow maxb tbl len str re :
  agree (CMut inp allow maxb tbl len str re) = true ->
  exists os, len = Ok os /\
    match str with
    | Err ParseError => negb (os_warnings os =? 0)%N
    | Err _ => false
    | Ok os' =>
        (os_warnings os =? 0)%N && (os_warnings os' =? 0)%N
        && list_eqb block_eqb (map block_of (os_blocks os)) (map block_of (os_blocks os'))
        && strs_eqb (map declit (os_initial os)) (map declit (os_initial os'))
    end = true.
Proof.
  cbn [agree]. intros Ha.
  apply andb_true_iff in Ha. destruct Ha as [Ha _]. apply andb_true_iff in Ha. destruct Ha as [Hl Hs].
  exact (mut_strictness inp allow maxb tbl len str Hl Hs).
Qed.
