(** C15, normal form: the text that str() gives for a parsed changelog parses to the
    same object again.

    [out_lines st] is the list of lines that formatting would write for what the parser has
    read so far (initial lines, finished blocks, and the heading and change lines of the
    block being read).  One parser step appends at most one line to it, and that line --
    the input line itself, the re-formatted heading, or " --" -- read from the SAME state,
    leads to the same state (up to warnings): [step_replay].  By induction the parser, run
    on [out_lines] of its own final state, reproduces that state: [steps_replay]. *)
From Coq Require Import Lia.
From Verif Require Import Lib.Base Lib.PyStr Gen.PyChars Gen.ClChars
  Changelog.Model Changelog.Spec Changelog.CharFacts Changelog.LeafProofs Changelog.ParseProofs
  Changelog.WfProofs Changelog.NormalBase Changelog.NormalHeader.

(** * The lines of a block *)

Definition has_trailer (b : block) : bool :=
  negb (b_no_trailer b && negb (is_some (b_author b)) && negb (is_some (b_date b))).

Definition trailer_line (b : block) : str :=
  [32; 45; 45]%N ++ match b_author b with Some a => 32%N :: a | None => [] end
                 ++ match b_date b with Some dt => b_sep b ++ dt | None => [] end.

Definition block_lines (b : block) : list str :=
  header_line b :: b_changes b ++ (if has_trailer b then [trailer_line b] else []) ++ b_trailing b.

Lemma format_block_lines b x : format_block false b = Ok x -> x = flat_map nl (block_lines b).
Proof.
  unfold format_block, block_lines, header_line, has_trailer, trailer_line.
  destruct (b_package b) as [p|]; [|discriminate]. destruct (b_version b) as [v|]; [|discriminate].
  destruct (b_dists b) as [d|]; [|discriminate]. destruct (b_urgency b) as [u|]; [|discriminate].
  cbn [opt_or_err bind ostr].
  destruct (b_no_trailer b && negb (is_some (b_author b)) && negb (is_some (b_date b))).
  - cbn [bind negb]. intros [= <-]. cbn [flat_map]. rewrite !flat_map_app. cbn [flat_map].
    unfold nl, s_urgency_eq, s_urgency, render_pair.
    repeat (first [rewrite <- app_assoc | progress (cbn [app])]). reflexivity.
  - destruct (b_author b) as [a|]; [|discriminate]. destruct (b_date b) as [dt|]; [|discriminate].
    cbn [bind negb]. intros [= <-]. cbn [flat_map]. rewrite !flat_map_app. cbn [flat_map].
    unfold nl, s_urgency_eq, s_urgency, render_pair.
    repeat (first [rewrite <- app_assoc | progress (cbn [app])]). reflexivity.
Qed.

Lemma format_blocks_lines bs : forall x,
  format_blocks false bs = Ok x -> x = flat_map nl (flat_map block_lines bs).
Proof.
  induction bs as [|b bs IH]; intros x; cbn [format_blocks flat_map].
  - now intros [= <-].
  - destruct (format_block false b) as [y|] eqn:Eb; [|discriminate].
    destruct (format_blocks false bs) as [z|]; [|discriminate]. cbn [bind]. intros [= <-].
    rewrite flat_map_app, (format_block_lines b y Eb), (IH z eq_refl). reflexivity.
Qed.

Definition cl_lines (c : changelog) : list str := cl_initial c ++ flat_map block_lines (cl_blocks c).

Lemma format_changelog_lines c t : format_changelog false c = Ok t -> t = flat_map nl (cl_lines c).
Proof.
  unfold format_changelog, cl_lines. destruct (format_blocks false (cl_blocks c)) as [y|] eqn:E; [|discriminate].
  cbn [bind]. intros [= <-]. rewrite flat_map_app, (format_blocks_lines _ y E). reflexivity.
Qed.

Lemma block_lines_add_trailing l b : block_lines (add_trailing l b) = block_lines b ++ [l].
Proof.
  unfold block_lines.
  change (header_line (add_trailing l b)) with (header_line b).
  change (b_changes (add_trailing l b)) with (b_changes b).
  change (has_trailer (add_trailing l b)) with (has_trailer b).
  change (trailer_line (add_trailing l b)) with (trailer_line b).
  change (b_trailing (add_trailing l b)) with (b_trailing b ++ [l]).
  cbn [app]. f_equal. repeat rewrite <- app_assoc. reflexivity.
Qed.

Lemma upd_last_lines l bs : forall bs',
  upd_last (add_trailing l) bs = Some bs' -> flat_map block_lines bs' = flat_map block_lines bs ++ [l].
Proof.
  induction bs as [|a bs IH]; intros bs'; cbn [upd_last]; [discriminate|].
  destruct bs as [|b bs0].
  - intros [= <-]. cbn [flat_map]. rewrite !app_nil_r. apply block_lines_add_trailing.
  - destruct (upd_last (add_trailing l) (b :: bs0)) as [r|]; [|discriminate]. intros [= <-].
    cbn [flat_map]. rewrite (IH r eq_refl). cbn [flat_map]. repeat rewrite <- app_assoc. reflexivity.
Qed.

(** * The lines read so far *)

Definition pending (st : pst) : list str :=
  match p_state st with
  | StartOfChangeData | MoreChangesOrTrailer => header_line (p_cur st) :: p_changes st
  | _ => []
  end.

Definition out_lines (st : pst) : list str :=
  p_initial st ++ flat_map block_lines (p_blocks st) ++ pending st.

Definition cur_ok (b : block) : Prop := hdr_ok b /\ fresh_rest b.

Record invs (st : pst) : Prop := {
  i_head : (p_state st = FirstHeading \/ p_state st = NextHeadingOrEof \/ p_state st = SlurpToEnd) ->
           p_cur st = empty_block /\ p_changes st = [];
  i_first : p_state st = FirstHeading -> p_blocks st = [];
  i_nhe : (p_state st = NextHeadingOrEof \/ p_state st = SlurpToEnd) -> p_blocks st <> [];
  i_slurp : p_state st = SlurpToEnd -> p_old st = Some NextHeadingOrEof;
  i_chg : (p_state st = StartOfChangeData \/ p_state st = MoreChangesOrTrailer) -> cur_ok (p_cur st);
}.

Lemma fresh_hdr_fields b : fresh_rest b -> hdr_fields b = b.
Proof.
  destruct b. unfold fresh_rest, hdr_fields. cbn. intros (-> & -> & -> & -> & -> & ->). reflexivity.
Qed.

Lemma one_line_rstrip l : one_line l = true -> rstrip_lf l = l.
Proof. intros H. apply rstrip_lf_id. now apply one_line_lf. Qed.

Section Replay.
Variable J : junk.
Variable allow : bool.

Notation STEP := (step J false allow None).
Notation STEPS := (steps J allow).

(** what one step must deliver *)
Definition replayed (st st1 : pst) : Prop :=
  invs st1 /\
  exists ol, out_lines st1 = out_lines st ++ ol /\ forallb one_line ol = true
             /\ exists st2, STEPS st ol = Ok st2 /\ same st2 st1.

Lemma replayed_same_line st l st1 :
  STEP st l = Ok (Next st1) -> one_line l = true ->
  invs st1 -> out_lines st1 = out_lines st ++ [l] -> replayed st st1.
Proof.
  intros Hstep Hl Hi Ho. split; [exact Hi|]. exists [l]. split; [exact Ho|]. split; [cbn; now rewrite Hl|].
  exists st1. split; [|apply same_refl]. cbn [steps]. now rewrite Hstep.
Qed.

(** ** heading states *)

Lemma out_lines_heading s o bl ini cur chg w :
  (s = FirstHeading \/ s = NextHeadingOrEof \/ s = SlurpToEnd) ->
  out_lines (mkPst s o bl ini cur chg w) = ini ++ flat_map block_lines bl.
Proof. intros [-> |[-> | ->]]; unfold out_lines, pending; cbn; now rewrite app_nil_r. Qed.

Lemma out_lines_change s o bl ini cur chg w :
  (s = StartOfChangeData \/ s = MoreChangesOrTrailer) ->
  out_lines (mkPst s o bl ini cur chg w) = ini ++ flat_map block_lines bl ++ header_line cur :: chg.
Proof. intros [-> | ->]; reflexivity. Qed.

Lemma step_heading_replay st l st1 :
  invs st -> (p_state st = FirstHeading \/ p_state st = NextHeadingOrEof) -> one_line l = true ->
  STEP st l = Ok (Next st1) -> replayed st st1.
Proof.
  intros Hi Hs Hl Hstep.
  pose proof Hstep as Hstep0.
  unfold step in Hstep. rewrite (one_line_rstrip l Hl) in Hstep.
  assert (Hsh : step_heading J false None st l = Ok (Next st1)) by (destruct Hs as [E|E]; rewrite E in Hstep; exact Hstep).
  clear Hstep.
  destruct (i_head st Hi) as (Hcur & Hchg); [destruct Hs; auto|].
  destruct st as [s o bl ini cur chg w]. cbn [p_state p_cur p_changes] in *. subst cur chg.
  assert (Hheading : s = FirstHeading \/ s = NextHeadingOrEof \/ s = SlurpToEnd) by (destruct Hs; auto).
  unfold step_heading in Hsh. cbn [p_state p_blocks] in Hsh.
  destruct (match_topline l) as [[[[g1 g2] g3] pairs]|] eqn:Etop.
  { (* a heading line *)
    destruct (do_header false (mkPst s o bl ini empty_block [] w) g1 g2 g3 pairs) as [st'|e] eqn:Edh; [|discriminate].
    cbn [bind] in Hsh. injection Hsh as <-.
    rewrite one_line_notcrlf in Hl.
    destruct (do_header_ok (mkPst s o bl ini empty_block [] w) g1 g2 g3 pairs l st' eq_refl Etop Hl Edh) as (Hok & Hfresh & Hst & Hold & Hbl & Hini & Hch).
    cbn [p_old p_blocks p_initial p_changes] in Hold, Hbl, Hini, Hch.
    destruct st' as [s' o' bl' ini' cur' chg' w']. cbn [p_state p_old p_blocks p_initial p_cur p_changes] in *. subst.
    split.
    { constructor; cbn [p_state p_cur]; try (intros [E|[E|E]]; discriminate); try (intros E; discriminate);
        try (intros [E|E]; discriminate). intros _. split; assumption. }
    exists [header_line cur']. split.
    { rewrite (out_lines_heading _ _ _ _ _ _ _ Hheading), (out_lines_change _ _ _ _ _ _ _ (or_introl eq_refl)).
      now rewrite <- app_assoc. }
    split; [cbn; now rewrite (header_line_one_line _ Hok)|].
    destruct (header_replay J (mkPst s o bl ini empty_block [] w) cur' Hok Hs eq_refl) as (st2 & Hst2 & Hsame).
    exists st2. split.
    - cbn [steps]. unfold step. rewrite (one_line_rstrip _ (header_line_one_line _ Hok)). cbn [p_state].
      destruct Hs as [-> | ->]; now rewrite Hst2.
    - eapply same_trans; [exact Hsame|]. rewrite (fresh_hdr_fields _ Hfresh). unfold same. cbn. repeat split. }
  (* any other line *)
  assert (Hkeep : forall w',
            match s with
            | FirstHeading => exists st', keep_line (mkPst s o bl ini empty_block [] w') l = Ok st'
                                          /\ st' = mkPst s o bl (ini ++ [l]) empty_block [] w'
            | _ => exists bs', keep_line (mkPst s o bl ini empty_block [] w') l = Ok (mkPst s o bs' ini empty_block [] w')
                               /\ upd_last (add_trailing l) bl = Some bs' /\ bs' <> []
            end).
  { intros w'. destruct Hs as [-> | ->].
    - eexists. split; reflexivity.
    - destruct (upd_last_some (add_trailing l) bl) as (r & Hr & Hrne); [apply (i_nhe _ Hi); cbn; auto|].
      exists r. unfold keep_line, trail_last. cbn. rewrite Hr. auto. }
  (* the state reached when the line is kept, and that it is as required *)
  assert (Hkept : forall w' st',
            keep_line (mkPst s o bl ini empty_block [] w') l = Ok st' ->
            invs st' /\ out_lines st' = out_lines (mkPst s o bl ini empty_block [] w) ++ [l]).
  { intros w' st' Hk. specialize (Hkeep w'). destruct Hs as [-> | ->].
    - destruct Hkeep as (st'' & Hk' & ->). rewrite Hk in Hk'. injection Hk' as ->.
      split.
      + constructor; cbn [p_state p_cur p_changes p_blocks p_old]; try (intros; discriminate); auto.
        * intros _. exact (i_first _ Hi eq_refl).
        * intros [E|E]; discriminate.
        * intros [E|E]; discriminate.
      + pose proof (i_first _ Hi eq_refl) as Hb. cbn [p_blocks] in Hb. subst bl.
        rewrite !out_lines_heading by auto. cbn. now rewrite !app_nil_r.
    - destruct Hkeep as (bs' & Hk' & Hu & Hne). rewrite Hk in Hk'. injection Hk' as ->.
      split.
      + constructor; cbn [p_state p_cur p_changes p_blocks p_old]; try (intros; discriminate); auto.
        * intros [E|E]; discriminate.
      + rewrite !out_lines_heading by auto. rewrite (upd_last_lines l bl bs' Hu). now rewrite app_assoc. }
  (* entering slurp mode *)
  assert (Hslurp : negb (pstate_eqb s FirstHeading) = true ->
            (do st1 <- trail_last (mkPst s o bl ini empty_block [] w) l; Ok (Next (with_slurp st1))) = Ok (Next st1) ->
            invs st1 /\ out_lines st1 = out_lines (mkPst s o bl ini empty_block [] w) ++ [l]).
  { intros Hnf Ht. destruct Hs as [-> | ->]; [discriminate|].
    destruct (upd_last_some (add_trailing l) bl) as (r & Hr & Hrne); [apply (i_nhe _ Hi); cbn; auto|].
    unfold trail_last in Ht. cbn [p_blocks] in Ht. rewrite Hr in Ht. cbn in Ht. injection Ht as <-.
    split.
    - constructor; cbn [p_state p_cur p_changes p_blocks p_old]; try (intros; discriminate); auto.
      intros [E|E]; discriminate.
    - unfold out_lines, pending. cbn. rewrite (upd_last_lines l bl r Hr). now rewrite !app_nil_r, app_assoc. }
  destruct (match_blank l).
  { destruct (keep_line (mkPst s o bl ini empty_block [] w) l) as [st'|e] eqn:Ek; [|discriminate].
    cbn [bind] in Hsh. injection Hsh as <-. destruct (Hkept w st' Ek) as (Hi' & Ho').
    now apply (replayed_same_line _ l). }
  destruct ((j_emacs J l || j_vim J l) && negb (pstate_eqb s FirstHeading)) eqn:E1.
  { apply andb_true_iff in E1. destruct (Hslurp (proj2 E1) Hsh) as (Hi' & Ho'). now apply (replayed_same_line _ l). }
  destruct (j_cvs J l || j_comments J l || j_more_comments J l).
  { destruct (keep_line (mkPst s o bl ini empty_block [] w) l) as [st'|e] eqn:Ek; [|discriminate].
    cbn [bind] in Hsh. injection Hsh as <-. destruct (Hkept w st' Ek) as (Hi' & Ho').
    now apply (replayed_same_line _ l). }
  destruct (old_format J l && negb (pstate_eqb s FirstHeading)) eqn:E2.
  { apply andb_true_iff in E2. destruct (Hslurp (proj2 E2) Hsh) as (Hi' & Ho'). now apply (replayed_same_line _ l). }
  cbn [warn bind] in Hsh. unfold with_warn in Hsh.
  cbn [p_state p_old p_blocks p_initial p_cur p_changes p_warn] in Hsh.
  destruct (keep_line (mkPst s o bl ini empty_block [] (WUnexpected :: w)) l) as [st'|e] eqn:Ek; [|discriminate].
  cbn [bind] in Hsh. injection Hsh as <-. destruct (Hkept _ st' Ek) as (Hi' & Ho').
  now apply (replayed_same_line _ l).
Qed.

(** ** inside a block *)

Lemma header_line_set b chg a dt sep :
  header_line (set_changes (set_trailer (set_sep b sep) a dt) chg) = header_line b.
Proof. reflexivity. Qed.

Lemma step_changes_replay st l st1 :
  invs st -> (p_state st = StartOfChangeData \/ p_state st = MoreChangesOrTrailer) -> one_line l = true ->
  STEP st l = Ok (Next st1) -> replayed st st1.
Proof.
  intros Hi Hs Hl Hstep.
  pose proof Hstep as Hstep0.
  unfold step in Hstep. rewrite (one_line_rstrip l Hl) in Hstep.
  assert (Hsc : step_changes J false allow st l = Ok (Next st1)) by (destruct Hs as [E|E]; rewrite E in Hstep; exact Hstep).
  clear Hstep.
  destruct (i_chg st Hi Hs) as (Hok & Hfresh).
  destruct st as [s o bl ini cur chg w]. cbn [p_state p_cur p_changes] in *.
  unfold step_changes in Hsc. cbn [p_changes p_cur] in Hsc.
  (* a line appended to the changes *)
  assert (Happ : forall s' w',
            (s' = StartOfChangeData \/ s' = MoreChangesOrTrailer) ->
            invs (mkPst s' o bl ini cur (chg ++ [l]) w')
            /\ out_lines (mkPst s' o bl ini cur (chg ++ [l]) w') = out_lines (mkPst s o bl ini cur chg w) ++ [l]).
  { intros s' w' Hs'. split.
    - constructor; cbn [p_state p_cur p_changes p_blocks p_old].
      + intros [E|[E|E]]; destruct Hs'; congruence.
      + intros E; destruct Hs'; congruence.
      + intros [E|E]; destruct Hs'; congruence.
      + intros E; destruct Hs'; congruence.
      + intros _. split; assumption.
    - rewrite !out_lines_change by assumption. rewrite <- !app_assoc. now rewrite <- app_comm_cons. }
  destruct (match_change l).
  { injection Hsc as <-. destruct (Happ MoreChangesOrTrailer w (or_intror eq_refl)) as (Hi' & Ho').
    now apply (replayed_same_line _ l). }
  destruct (match_endline l) as [[[[g1 g2] g3] g4]|] eqn:Eend.
  { (* the trailer *)
    destruct (match_endline_inv _ _ _ _ _ Eend) as (Hleq & Hg3).
    destruct Hfresh as (F1 & F2 & F3 & F4 & F5 & F6).
    assert (Hres : exists w', st1 = mkPst NextHeadingOrEof o
                     (bl ++ [set_changes (set_trailer (set_sep cur g3) (g1 ++ [32; 60]%N ++ g2 ++ [62%N]) g4) chg])
                     ini empty_block [] w').
    { destruct Hg3 as [-> | ->]; cbn in Hsc; injection Hsc as <-.
      - exists w. unfold push_block, with_state, set_sep. cbn. rewrite <- F6. destruct cur; reflexivity.
      - eexists. reflexivity. }
    destruct Hres as (w' & ->).
    apply (replayed_same_line _ l _ Hstep0 Hl).
    - constructor; cbn [p_state p_cur p_changes p_blocks p_old]; try (intros; discriminate); auto.
      + intros _. destruct bl; discriminate.
      + intros [E|E]; discriminate.
    - rewrite out_lines_heading by auto. rewrite out_lines_change by assumption.
      rewrite flat_map_app. cbn [flat_map]. rewrite app_nil_r.
      unfold block_lines at 2. rewrite header_line_set.
      unfold has_trailer, trailer_line. cbn. rewrite F4, F5. cbn.
      rewrite <- !app_assoc. cbn [app]. do 3 f_equal.
      rewrite Hleq. repeat (first [rewrite <- app_assoc | progress (cbn [app])]). reflexivity. }
  destruct (match_nodetails l) eqn:End.
  { destruct allow eqn:Eallow.
    - (* a trailer without details, accepted: it is written as " --" *)
      injection Hsc as <-.
      destruct Hfresh as (F1 & F2 & F3 & F4 & F5 & F6).
      split.
      { constructor; cbn [p_state p_cur p_changes p_blocks p_old with_state push_block]; try (intros; discriminate); auto.
        + intros _. destruct bl; discriminate.
        + intros [E|E]; discriminate. }
      exists [[32; 45; 45]%N]. split.
      { unfold with_state, push_block. cbn [p_state p_old p_blocks p_initial p_cur p_changes p_warn].
        rewrite out_lines_heading by auto. rewrite out_lines_change by assumption.
        rewrite flat_map_app. cbn [flat_map]. rewrite app_nil_r.
        unfold block_lines at 2, has_trailer, trailer_line. cbn. rewrite F2, F3, F4, F5. cbn.
        rewrite <- !app_assoc. reflexivity. }
      split; [reflexivity|].
      eexists. split; [|apply same_refl].
      cbn [steps]. unfold step. cbn [p_state].
      assert (Hr : rstrip_lf [32; 45; 45]%N = [32; 45; 45]%N) by reflexivity. rewrite Hr.
      assert (Hsc' : step_changes J false allow (mkPst s o bl ini cur chg w) [32; 45; 45]%N
                     = Ok (Next (with_state (push_block (mkPst s o bl ini cur chg w) cur) NextHeadingOrEof))).
      { unfold step_changes.
        change (match_change [32; 45; 45]%N) with false. change (match_endline [32; 45; 45]%N) with (@None (str * str * str * str)).
        change (match_nodetails [32; 45; 45]%N) with true. cbv iota. rewrite Eallow. reflexivity. }
      destruct Hs as [-> | ->]; now rewrite Hsc'.
    - (* rejected: the line is dropped *)
      cbn [warn bind] in Hsc. injection Hsc as <-. split.
      { constructor; cbn [p_state p_cur p_changes p_blocks p_old with_warn].
        + intros [E|[E|E]]; destruct Hs; congruence.
        + intros E; destruct Hs; congruence.
        + intros [E|E]; destruct Hs; congruence.
        + intros E; destruct Hs; congruence.
        + intros _. split; assumption. }
      exists []. split; [now rewrite app_nil_r|]. split; [reflexivity|].
      eexists. split; [reflexivity|]. apply same_sym, same_warn. }
  destruct (match_blank l).
  { injection Hsc as <-. destruct (Happ s w Hs) as (Hi' & Ho'). now apply (replayed_same_line _ l). }
  destruct (j_cvs J l || j_comments J l || j_more_comments J l).
  { injection Hsc as <-. destruct (Happ s w Hs) as (Hi' & Ho'). now apply (replayed_same_line _ l). }
  cbn [warn bind] in Hsc. injection Hsc as <-.
  destruct (Happ s (WUnexpected :: w) Hs) as (Hi' & Ho'). now apply (replayed_same_line _ l).
Qed.

(** ** slurping *)

Lemma step_slurp_replay st l st1 :
  invs st -> p_state st = SlurpToEnd -> one_line l = true ->
  STEP st l = Ok (Next st1) -> replayed st st1.
Proof.
  intros Hi Hs Hl Hstep. pose proof Hstep as Hstep0.
  unfold step in Hstep. rewrite (one_line_rstrip l Hl), Hs in Hstep.
  destruct (i_head st Hi) as (Hcur & Hchg); [auto|].
  pose proof (i_slurp st Hi Hs) as Hold. pose proof (i_nhe st Hi (or_intror Hs)) as Hne.
  destruct st as [s o bl ini cur chg w]. cbn [p_state p_cur p_changes p_old p_blocks] in *. subst.
  unfold step_slurp, trail_last in Hstep. cbn [p_old p_blocks] in Hstep.
  destruct (upd_last_some (add_trailing l) bl Hne) as (r & Hr & Hrne). rewrite Hr in Hstep.
  cbn [bind] in Hstep. unfold with_blocks in Hstep.
  cbn [p_state p_old p_blocks p_initial p_cur p_changes p_warn] in Hstep. injection Hstep as <-.
  apply (replayed_same_line _ l _ Hstep0 Hl).
  - constructor; cbn [p_state p_cur p_changes p_blocks p_old]; try (intros; discriminate); auto.
    intros [E|E]; discriminate.
  - rewrite !out_lines_heading by auto. rewrite (upd_last_lines l bl r Hr). now rewrite app_assoc.
Qed.

Lemma step_replay st l st1 :
  invs st -> one_line l = true -> STEP st l = Ok (Next st1) -> replayed st st1.
Proof.
  intros Hi Hl Hstep. destruct (p_state st) eqn:E.
  - apply (step_heading_replay st l); auto.
  - apply (step_heading_replay st l); auto.
  - apply (step_changes_replay st l); auto.
  - apply (step_changes_replay st l); auto.
  - apply (step_slurp_replay st l); auto.
Qed.

(** * The whole run *)

Lemma invs_init : invs init_pst.
Proof.
  constructor; cbn; auto; try discriminate.
  - intros [E|E]; discriminate.
  - intros [E|E]; discriminate.
Qed.

(** the parser, run on the lines written for its own state, reproduces that state *)
Lemma steps_replay ls : forall st stN,
  invs st -> forallb one_line ls = true -> forallb one_line (out_lines st) = true ->
  (exists stR, STEPS init_pst (out_lines st) = Ok stR /\ same stR st) ->
  STEPS st ls = Ok stN ->
  invs stN /\ forallb one_line (out_lines stN) = true
  /\ exists stR, STEPS init_pst (out_lines stN) = Ok stR /\ same stR stN.
Proof.
  induction ls as [|l ls IH]; intros st stN Hi Hls Hout Hrep Hsteps; cbn [steps] in Hsteps.
  - injection Hsteps as <-. auto.
  - cbn [forallb] in Hls. apply andb_true_iff in Hls. destruct Hls as [Hl Hls].
    destruct (STEP st l) as [[st1|st1]|e] eqn:Estep; [|exfalso; exact (step_never_stops _ _ _ _ _ Estep)|discriminate].
    destruct (step_replay st l st1 Hi Hl Estep) as (Hi1 & ol & Ho & Hol & st2 & Hst2 & Hsame2).
    apply (IH st1 stN Hi1 Hls).
    + rewrite Ho, forallb_app, Hout, Hol. reflexivity.
    + destruct Hrep as (stR & HstR & HsameR).
      rewrite Ho, steps_app, HstR. cbn [bind].
      pose proof (steps_same J allow ol stR st HsameR) as Hss. rewrite Hst2 in Hss.
      destruct (STEPS stR ol) as [stR'|e]; [|contradiction].
      exists stR'. split; [reflexivity|]. cbn in Hss. eapply same_trans; [exact Hss|exact Hsame2].
    + exact Hsteps.
Qed.

End Replay.

(** * From lines to text and back *)

Lemma split_crlf_one_line : forall n s cur,
  (length s <= n)%nat -> forallb notcrlf cur = true -> forallb one_line (split_crlf_aux s cur) = true.
Proof.
  induction n as [|n IH]; intros s cur Hlen Hcur.
  - destruct s; [|simpl in Hlen; lia]. cbn. rewrite one_line_notcrlf, forallb_rev, Hcur. reflexivity.
  - destruct s as [|c s']; [cbn; rewrite one_line_notcrlf, forallb_rev, Hcur; reflexivity|].
    simpl in Hlen. cbn [split_crlf_aux].
    assert (Hrev : one_line (rev cur) = true) by (rewrite one_line_notcrlf, forallb_rev; exact Hcur).
    destruct (c =? 13)%N eqn:E13.
    + destruct s' as [|d s''].
      * cbn [forallb]. rewrite Hrev. apply (IH [] []); [simpl; lia|reflexivity].
      * destruct (d =? 10)%N; cbn [forallb]; rewrite Hrev; apply IH; simpl in *; try lia; reflexivity.
    + destruct (c =? 10)%N eqn:E10.
      * cbn [forallb]. rewrite Hrev. apply IH; [lia|reflexivity].
      * apply IH; [lia|]. cbn [forallb]. rewrite Hcur, andb_true_r. unfold notcrlf, is_crlf. now rewrite E10, E13.
Qed.

Lemma str_lines_one_line s : forallb one_line (str_lines s) = true.
Proof.
  pose proof (split_crlf_one_line (length s) s [] (le_n _) eq_refl) as H. fold (split_crlf s) in H.
  unfold str_lines. destruct (rev (split_crlf s)) as [|x r] eqn:E; [exact H|].
  destruct x; [|exact H].
  rewrite forallb_rev. rewrite <- (forallb_rev one_line (split_crlf s)), E in H. cbn [forallb] in H.
  apply andb_true_iff in H. now destruct H.
Qed.

Lemma header_line_not_blank b rest : forallb ws (flat_map nl (header_line b :: rest)) = false.
Proof.
  cbn [flat_map]. unfold nl at 1, header_line. repeat rewrite <- app_assoc. rewrite forallb_app.
  cbn [app forallb].
  assert (H : ws 40 = false) by reflexivity. rewrite H. now rewrite !andb_false_r.
Qed.

Lemma flat_nl_blank_app a b : forallb ws (flat_map nl (a ++ b)) = forallb ws (flat_map nl a) && forallb ws (flat_map nl b).
Proof. now rewrite flat_map_app, forallb_app. Qed.

Lemma block_lines_not_blank b rest : forallb ws (flat_map nl (block_lines b ++ rest)) = false.
Proof. unfold block_lines. rewrite <- app_comm_cons. apply header_line_not_blank. Qed.

Lemma blocks_not_blank bs rest : bs <> [] -> forallb ws (flat_map nl (flat_map block_lines bs ++ rest)) = false.
Proof.
  destruct bs as [|b bs]; [congruence|]. intros _. cbn [flat_map]. rewrite <- app_assoc. apply block_lines_not_blank.
Qed.

(** * The theorem for parsed changelogs *)

Section NormalForm.
Variable J : junk.
Variable allow : bool.

(** the lines of the finished object are the lines read *)
Lemma finish_lines stN st t :
  invs stN -> finish false stN = Ok st -> format_changelog false (cl_of st) = Ok t ->
  cl_lines (cl_of st) = out_lines stN /\ forallb ws t = false.
Proof.
  intros Hi Hfin Hfmt.
  pose proof (format_changelog_lines _ _ Hfmt) as Ht.
  unfold finish in Hfin.
  destruct stN as [s o bl ini cur chg w]. cbn [p_state p_old] in Hfin.
  assert (Hgood : (s = NextHeadingOrEof \/ s = SlurpToEnd) ->
            st = mkPst s o bl ini cur chg w ->
            cl_lines (cl_of st) = out_lines (mkPst s o bl ini cur chg w) /\ forallb ws t = false).
  { intros Hs ->. pose proof (i_nhe _ Hi Hs) as Hne. cbn [p_blocks] in Hne.
    assert (Hs3 : s = FirstHeading \/ s = NextHeadingOrEof \/ s = SlurpToEnd) by (destruct Hs; auto).
    rewrite (out_lines_heading _ _ _ _ _ _ _ Hs3). split; [reflexivity|].
    rewrite Ht. unfold cl_lines, cl_of. cbn [cl_initial cl_blocks p_initial p_blocks].
    rewrite flat_nl_blank_app. rewrite <- (app_nil_r (flat_map block_lines bl)).
    rewrite (blocks_not_blank bl [] Hne). apply andb_false_r. }
  assert (Hbad : (s = FirstHeading \/ s = StartOfChangeData \/ s = MoreChangesOrTrailer) ->
            st = push_block (with_warn (mkPst s o bl ini cur chg w) (WEof :: w)) (set_no_trailer cur) ->
            cl_lines (cl_of st) = out_lines (mkPst s o bl ini cur chg w) /\ forallb ws t = false).
  { intros Hs ->. unfold push_block, with_warn, cl_of, cl_lines in *.
    cbn [p_state p_old p_blocks p_initial p_cur p_changes p_warn cl_initial cl_blocks] in *.
    destruct Hs as [-> | Hs].
    - (* nothing but initial lines: the empty block cannot be formatted *)
      exfalso. destruct (i_head _ Hi) as (Hc & _); [cbn; auto|]. cbn [p_cur] in Hc. subst cur.
      unfold format_changelog in Hfmt. cbn [cl_blocks cl_initial] in Hfmt.
      pose proof (i_first _ Hi eq_refl) as Hb. cbn [p_blocks] in Hb. subst bl. cbn in Hfmt. discriminate.
    - destruct (i_chg _ Hi) as (_ & F1 & F2 & F3 & F4 & F5 & F6); [cbn; exact Hs|]. cbn [p_cur] in *.
      rewrite (out_lines_change _ _ _ _ _ _ _ Hs).
      assert (Hbl : block_lines (set_changes (set_no_trailer cur) chg) = header_line cur :: chg).
      { unfold block_lines, has_trailer. cbn. rewrite F2, F3, F4. cbn. now rewrite app_nil_r. }
      split.
      + rewrite flat_map_app. cbn [flat_map]. now rewrite Hbl, app_nil_r.
      + rewrite Ht. rewrite flat_nl_blank_app, flat_map_app, flat_nl_blank_app. cbn [flat_map].
        rewrite app_nil_r, Hbl. rewrite (header_line_not_blank cur chg). now rewrite !andb_false_r. }
  destruct s.
  - cbn [warn bind] in Hfin. injection Hfin as <-. apply Hbad; auto.
  - injection Hfin as <-. apply Hgood; auto.
  - cbn [warn bind] in Hfin. injection Hfin as <-. apply Hbad; auto.
  - cbn [warn bind] in Hfin. injection Hfin as <-. apply Hbad; auto.
  - pose proof (i_slurp _ Hi eq_refl) as Ho. cbn [p_old] in Ho. subst o.
    injection Hfin as <-. apply Hgood; auto.
Qed.

Theorem normal_form_parsed s st t :
  parse_changelog J false allow None (InStr s) = Ok st ->
  format_changelog false (cl_of st) = Ok t ->
  exists st', parse_changelog J false allow None (InStr t) = Ok st' /\ cl_of st' = cl_of st.
Proof.
  unfold parse_changelog at 1. intros Hparse Hfmt.
  destruct (forallb ws s) eqn:Eblank.
  - (* the empty changelog *)
    cbn in Hparse. injection Hparse as <-. cbn in Hfmt. injection Hfmt as <-.
    unfold parse_changelog. cbn. eexists. split; reflexivity.
  - rewrite run_steps in Hparse.
    destruct (steps J allow init_pst (str_lines s)) as [stN|e] eqn:Esteps; [|discriminate].
    cbn [bind] in Hparse.
    destruct (steps_replay J allow (str_lines s) init_pst stN invs_init (str_lines_one_line s) eq_refl) as (HiN & HoN & stR & HstR & HsameR).
    { exists init_pst. split; [reflexivity|apply same_refl]. }
    { exact Esteps. }
    destruct (finish_lines stN st t HiN Hparse Hfmt) as (Hlines & Hnb).
    pose proof (format_changelog_lines _ _ Hfmt) as Ht. rewrite Hlines in Ht.
    unfold parse_changelog. rewrite Hnb. rewrite Ht, (str_lines_render _ HoN).
    rewrite run_steps, HstR. cbn [bind].
    pose proof (finish_same stR stN HsameR) as Hfs. rewrite Hparse in Hfs.
    destruct (finish false stR) as [st'|e]; [|contradiction].
    exists st'. split; [reflexivity|]. now apply same_cl.
Qed.

(** [format_normal_form], parsed part: what str() gives for a parsed changelog parses to
    the same blocks and initial lines, and formats to the identical text. *)
Corollary format_normal_form_parsed s st t :
  parse_changelog J false allow None (InStr s) = Ok st ->
  format_changelog false (cl_of st) = Ok t ->
  exists st', parse_changelog J false allow None (InStr t) = Ok st'
              /\ cl_of st' = cl_of st
              /\ format_changelog false (cl_of st') = Ok t.
Proof.
  intros Hp Hf. destruct (normal_form_parsed s st t Hp Hf) as (st' & Hp' & Hc).
  exists st'. split; [exact Hp'|]. split; [exact Hc|]. now rewrite Hc.
Qed.

End NormalForm.
