(** Model of debian.debfile: DebFile.__init__ (part discovery and validation),
    DebPart.tgz (extension gate) / __normalize_member / has_file / get_file /
    get_content, DebControl.scripts / md5sums and the bytes handed to debcontrol().
    No proofs here: the model must still run when a proof breaks.

    What is NOT modelled (CPython's, not this library's): the tar container and the
    gz/bz2/xz/lzma codecs.  tarfile.open(fileobj=member, mode='r:*') is the Section
    variable [p_open]: from the payload of an ar member to the listing of the tar
    archive it holds ([None] = tarfile.ReadError / CompressionError).  The ar layer
    (C06, Ar/Model.v) is entered after indexing: an archive is its member list, in
    archive order, [name] as ArMember.name and the payload as what [read()] returns.

    Bytes and str are both [list N]; member names are compared as bytes (see the
    ASSUMPTIONS of harness/props/c07.py).  Constants come from Gen/DebConsts.v,
    regenerated from debfile.py on every run. *)
From Verif Require Import Lib.Base Lib.PyStr Gen.DebConsts.

Definition DOT : N := 46.
Definition SLASH : N := 47.

(** [x in l] for a list (or set) of strings *)
Definition mem (n : str) (l : list str) : bool := existsb (str_eqb n) l.

(** [set(l)] as far as emptiness, size and membership go: one copy of each element. *)
Fixpoint dedup (l : list str) : list str :=
  match l with
  | [] => []
  | x :: r => if mem x r then dedup r else x :: dedup r
  end.

(** A dict with str keys in insertion order; [d[k] = v] keeps the position of an
    existing key. *)
Definition dict := list (str * str).
Fixpoint dict_set (d : dict) (k v : str) : dict :=
  match d with
  | [] => [(k, v)]
  | (k', v') :: r => if str_eqb k' k then (k', v) :: r else (k', v') :: dict_set r k v
  end.

(** * DebFile.__init__ : part discovery *)

(** candidates = ['%s.%s' % (basename, ext) for ext in PART_EXTS]
    (+ [basename] if basename in (DATA_PART, CTRL_PART)) *)
Definition candidates (base : str) : list str :=
  map (fun ext => base ++ DOT :: ext) PART_EXTS
  ++ (if mem base [DATA_PART; CTRL_PART] then [base] else []).

(** compressed_part_name: parts = actual_names ∩ set(candidates); empty -> DebError,
    more than one -> DebError, else the single element. *)
Definition compressed_part_name (names : list str) (base : str) : result str :=
  match dedup (filter (fun c => mem c names) (candidates base)) with
  | [] => Err DebError                      (* missing required part *)
  | [p] => Ok p                             (* list(parts)[0] *)
  | _ :: _ :: _ => Err DebError             (* too many parts *)
  end.

(** The decision of __init__ on the names alone (the getmember calls that follow
    cannot fail: Proofs.deb_init_ok_iff). *)
Definition deb_open (names : list str) : result (str * str) :=
  if negb (mem INFO_PART names) then Err DebError else
  do c <- compressed_part_name names CTRL_PART;
  do d <- compressed_part_name names DATA_PART;
  Ok (c, d).

(** ArFile.getmember: __members_dict[name], i.e. the LAST member of that name;
    KeyError when there is none. *)
Fixpoint ar_getmember {P} (ms : list (str * P)) (n : str) : result P :=
  match ms with
  | [] => Err KeyError
  | (k, p) :: r =>
      match ar_getmember r n with
      | Ok q => Ok q
      | Err _ => if str_eqb k n then Ok p else Err KeyError
      end
  end.

(** * The listing of an opened tar archive

    One entry per TarInfo, in archive order: [name] as TarFile.getnames() reports
    it, and the content for a regular file ([None]: a directory — extractfile()
    returns None).  Links, devices and fifos are outside the model. *)
Definition tarview := list (str * option str).

(** TarFile.getmember(name): _getmember(name.rstrip('/')) searches the members in
    reverse, so the last entry of that name is found. *)
Fixpoint tar_find (v : tarview) (key : str) : option (option str) :=
  match v with
  | [] => None
  | (k, e) :: r =>
      match tar_find r key with
      | Some x => Some x
      | None => if str_eqb k key then Some e else None
      end
  end.

Definition is_slash (c : N) : bool := (c =? SLASH)%N.
Definition tar_getmember (v : tarview) (name : str) : option (option str) :=
  tar_find v (rstrip_by is_slash name).

(** DebPart.__normalize_member *)
Definition normalize_member (f : str) : str :=
  if startswith [DOT; SLASH] f then skipn 2 f
  else if startswith [SLASH] f then skipn 1 f
  else f.

Definition dot_slash (f : str) : str := DOT :: SLASH :: f.

(** DebPart.has_file on an opened part: './' + fname in names *)
Definition has_file (v : tarview) (f : str) : bool :=
  mem (dot_slash (normalize_member f)) (map fst v).

(** DebPart.get_file / get_content (encoding=None) on an opened part:
    extractfile('./' + fname): KeyError when there is no such member, DebError
    when extractfile returns None, else the bytes ([read()] of the file object). *)
Definition get_file (v : tarview) (f : str) : result str :=
  match tar_getmember v (dot_slash (normalize_member f)) with
  | None => Err KeyError
  | Some None => Err DebError
  | Some (Some b) => Ok b
  end.

(** * os.path.splitext(name)[1][1:]  (posixpath) *)
Fixpoint rindex (c : N) (s : str) : option nat :=
  match s with
  | [] => None
  | x :: r =>
      match rindex c r with
      | Some i => Some (S i)
      | None => if (x =? c)%N then Some O else None
      end
  end.

Definition splitext (p : str) : str * str :=
  match rindex DOT p with
  | None => (p, [])
  | Some d =>
      let fstart := match rindex SLASH p with None => O | Some s => S s end in
      (* dotIndex > sepIndex, and a character other than '.' between them *)
      if (fstart <=? d)%nat
         && existsb (fun ch => negb (ch =? DOT)%N) (firstn (d - fstart) (skipn fstart p))
      then (firstn d p, skipn d p)
      else (p, [])
  end.

Definition extension (name : str) : str := tl (snd (splitext name)).

(** the test in DebPart.tgz() *)
Definition ext_gate (name : str) : bool :=
  mem (extension name) PART_EXTS || str_eqb name DATA_PART || str_eqb name CTRL_PART.

(** * bytes.split(None, 1), file.readlines(), bytes.decode() *)
Definition not_space (c : N) : bool := negb (bytes_isspace c).

Definition split_none_1 (s : str) : list str :=
  match dropwhile bytes_isspace s with
  | [] => []
  | s1 =>
      let (tok, rest) := span not_space s1 in
      match dropwhile bytes_isspace rest with
      | [] => [tok]
      | rest' => [tok; rest']
      end
  end.

(** lines of a binary file object: cut after every LF *)
Fixpoint readlines (s : str) : list str :=
  match s with
  | [] => []
  | c :: r =>
      if (c =? LF)%N then [c] :: readlines r
      else match readlines r with
           | l :: ls => (c :: l) :: ls
           | [] => [[c]]
           end
  end.

Definition is_crlf (c : N) : bool := (c =? CR)%N || (c =? LF)%N.

(** bytes.decode() (UTF-8, strict): [None] = UnicodeDecodeError *)
Definition is_cont (b : N) : bool := (128 <=? b)%N && (b <=? 191)%N.
Definition in_rng (lo hi b : N) : bool := (lo <=? b)%N && (b <=? hi)%N.

Fixpoint utf8_decode (s : str) : option str :=
  match s with
  | [] => Some []
  | b0 :: r0 =>
      if (b0 <? 128)%N then option_map (cons b0) (utf8_decode r0)
      else if in_rng 194 223 b0 then
        match r0 with
        | b1 :: r1 =>
            if is_cont b1
            then option_map (cons ((b0 - 192) * 64 + (b1 - 128))%N) (utf8_decode r1)
            else None
        | _ => None
        end
      else if in_rng 224 239 b0 then
        match r0 with
        | b1 :: b2 :: r2 =>
            if in_rng (if (b0 =? 224)%N then 160 else 128) (if (b0 =? 237)%N then 159 else 191) b1
               && is_cont b2
            then option_map (cons ((b0 - 224) * 4096 + (b1 - 128) * 64 + (b2 - 128))%N)
                            (utf8_decode r2)
            else None
        | _ => None
        end
      else if in_rng 240 244 b0 then
        match r0 with
        | b1 :: b2 :: b3 :: r3 =>
            if in_rng (if (b0 =? 240)%N then 144 else 128) (if (b0 =? 244)%N then 143 else 191) b1
               && is_cont b2 && is_cont b3
            then option_map (cons ((b0 - 240) * 262144 + (b1 - 128) * 4096
                                   + (b2 - 128) * 64 + (b3 - 128))%N)
                            (utf8_decode r3)
            else None
        | _ => None
        end
      else None
  end.

(** the loop of DebControl.md5sums over the lines of the md5sums member:
      md5, fname = line.rstrip(b'\r\n').split(None, 1)      -> ValueError unless 2 pieces
      sums[fname] = md5.decode()                              -> UnicodeDecodeError (a ValueError) *)
Fixpoint md5_lines (ls : list str) (acc : dict) : result dict :=
  match ls with
  | [] => Ok acc
  | l :: r =>
      match split_none_1 (rstrip_by is_crlf l) with
      | [md5; fname] =>
          match utf8_decode md5 with
          | Some m => md5_lines r (dict_set acc fname m)
          | None => Err ValueError
          end
      | _ => Err ValueError
      end
  end.

(** * DebPart / DebControl / DebFile over an abstract member payload *)
Section Deb.
Variable P : Type.                          (* what an ar member holds *)
Variable p_bytes : P -> str.                (* ArMember.read() *)
Variable p_open : P -> option tarview.      (* tarfile.open(fileobj=member, mode='r:*') *)

Definition part := (str * P)%type.          (* ArMember: name and payload *)

(** DebPart.tgz() *)
Definition tgz (pt : part) : result tarview :=
  if ext_gate (fst pt) then
    match p_open (snd pt) with
    | Some v => Ok v
    | None => Err DebError                  (* tarfile.ReadError / CompressionError *)
    end
  else Err DebError.                        (* unexpected extension *)

Definition part_has_file (pt : part) (f : str) : result bool :=
  do v <- tgz pt; Ok (has_file v f).

Definition part_get_content (pt : part) (f : str) : result str :=
  do v <- tgz pt; get_file v f.

(** DebControl.scripts() *)
Fixpoint scripts_loop (pt : part) (names : list str) (acc : dict) : result dict :=
  match names with
  | [] => Ok acc
  | s :: r =>
      do h <- part_has_file pt s;
      if h : bool then
        do b <- part_get_content pt s;
        scripts_loop pt r (dict_set acc s b)
      else scripts_loop pt r acc
  end.

Definition scripts (pt : part) : result dict := scripts_loop pt MAINT_SCRIPTS [].

(** the argument of Deb822(...) in DebControl.debcontrol() *)
Definition control_bytes (pt : part) : result str := part_get_content pt CONTROL_FILE.

(** DebControl.md5sums(encoding=None): a dict fname(bytes) -> md5(str) *)
Definition md5sums (pt : part) : result dict :=
  do h <- part_has_file pt MD5_FILE;
  if negb h then Err DebError
  else do content <- part_get_content pt MD5_FILE;
       md5_lines (readlines content) [].

(** DebFile *)
Record debfile := mkDeb {
  d_control : part;
  d_data : part;
  d_version : str;
}.

Definition deb_init (ms : list part) : result debfile :=
  let names := map fst ms in
  if negb (mem INFO_PART names) then Err DebError else
  do cn <- compressed_part_name names CTRL_PART;
  do cp <- ar_getmember ms cn;
  do dn <- compressed_part_name names DATA_PART;
  do dp <- ar_getmember ms dn;
  do ip <- ar_getmember ms INFO_PART;
  Ok (mkDeb (cn, cp) (dn, dp) (strip_by bytes_isspace (p_bytes ip))).

End Deb.

Arguments mkDeb {P}.
Arguments d_control {P}.
Arguments d_data {P}.
Arguments d_version {P}.
