(** C07 — further lemmas: an md5sums file whose last line lacks its LF; the results as the
    reference of [holds] ([Spec.same_map]) compares them. *)
From Coq Require Import String.
From Verif Require Import Lib.Base Lib.Dec Lib.PyStr Gen.DebConsts Deb.Model Deb.Spec Deb.Proofs Deb.ProofsView Deb.ProofsPacked.

(** ** the last line of md5sums may lack its LF *)
Lemma readlines_noeol l :
  l <> [] -> forallb (fun c => negb (c =? LF)%N) l = true -> readlines l = [l].
Proof.
  induction l as [|c l IH]; intros Hne H; [congruence|].
  cbn [forallb] in H. apply andb_true_iff in H. destruct H as [Hc Hl].
  cbn [readlines]. apply negb_true_iff in Hc. rewrite Hc.
  destruct l as [|c' l']; [reflexivity|]. rewrite IH; [reflexivity|discriminate|assumption].
Qed.

Lemma md5_lines_app l1 l2 acc :
  md5_lines (l1 ++ l2) acc = match md5_lines l1 acc with Ok d => md5_lines l2 d | Err e => Err e end.
Proof.
  revert acc. induction l1 as [|l l1 IH]; intros acc; [reflexivity|].
  cbn [app md5_lines].
  destruct (split_none_1 (rstrip_by is_crlf l)) as [|a [|b [|c r]]]; try reflexivity.
  destruct (utf8_decode a); [apply IH|reflexivity].
Qed.

Definition render_open (e : md5_entry) : str := body e ++ repeat CR (m_crs e).

Lemma rstrip_open e : entry_ok e = true -> rstrip_by is_crlf (render_open e) = body e.
Proof.
  unfold entry_ok, name_ok. rewrite !andb_true_iff. intros [_ [_ Hlast]].
  unfold render_open, rstrip_by. rewrite rdropwhile_app_drop by (apply repeat_forallb; reflexivity).
  unfold body.
  destruct (rev (m_name e)) as [|c r] eqn:Er; [discriminate|].
  assert (m_name e = rev r ++ [c]) as ->.
  { rewrite <- (rev_involutive (m_name e)), Er. reflexivity. }
  rewrite !app_assoc. apply rdropwhile_app_keep. now apply negb_true_iff.
Qed.

Lemma body_nonempty e : entry_ok e = true -> render_open e <> [].
Proof.
  unfold entry_ok, md5_ok. rewrite !andb_true_iff. intros [[[Hm _] _] _].
  unfold render_open, body. destruct (m_md5 e); [discriminate|discriminate].
Qed.

Theorem md5_lines_render_open es e acc :
  forallb entry_ok es = true -> entry_ok e = true ->
  md5_lines (readlines (render_md5 es ++ render_open e)) acc
  = Ok (md5_dict_from acc (es ++ [e])).
Proof.
  intros Hes He. rewrite (readlines_render es _ Hes).
  rewrite readlines_noeol; [|now apply body_nonempty|now apply entry_no_lf].
  rewrite md5_lines_app, (md5_lines_render es acc Hes).
  cbn [md5_lines]. rewrite (rstrip_open e He), (split_body e He).
  rewrite utf8_decode_ascii.
  2:{ unfold entry_ok, md5_ok in He. rewrite !andb_true_iff in He.
      destruct He as [[[_ Hm] _] _]. eapply forallb_impl; [|exact Hm].
      intros x. rewrite andb_true_iff. tauto. }
  unfold md5_dict_from. rewrite fold_left_app. reflexivity.
Qed.

Section PartOpen.
Variable P : Type.
Variable p_open : P -> option tarview.

Theorem md5sums_roundtrip_open pt v es e :
  tgz P p_open pt = Ok v ->
  tar_find v (dot_slash MD5_FILE) = Some (Some (render_md5 es ++ render_open e)) ->
  forallb entry_ok es = true -> entry_ok e = true ->
  md5sums P p_open pt = Ok (md5_dict (es ++ [e])).
Proof.
  intros Hv Hf Hes He. unfold md5sums.
  rewrite (part_has_file_ok _ _ _ _ _ Hv). cbn [bind].
  rewrite (has_file_key _ _ md5_key_ok), Hf. cbn [is_some negb].
  rewrite (part_get_content_ok _ _ _ _ _ Hv), (get_file_key _ _ md5_key_ok), Hf. cbn [bind].
  now apply md5_lines_render_open.
Qed.
End PartOpen.

(** ** the results, as the reference of [holds] compares them *)
Lemma lookup_app_fresh (a : pairs) k v b :
  lookup (a ++ (k, v) :: b) k = match lookup a k with Some x => Some x | None => Some v end.
Proof.
  induction a as [|[k' v'] a IH]; simpl.
  - now rewrite str_eqb_refl.
  - destruct (str_eqb k' k); [reflexivity|exact IH].
Qed.

(** the generated script names are the five the property text lists *)
Lemma script_names_match_spec : same_set MAINT_SCRIPTS SPEC_SCRIPTS = true.
Proof. vm_compute. reflexivity. Qed.

Lemma lookup_In (m : pairs) k v : lookup m k = Some v -> In (k, v) m.
Proof.
  induction m as [|[k' v'] r IH]; simpl; [discriminate|].
  destruct (str_eqb k' k) eqn:E.
  - intros [= <-]. apply str_eqb_eq in E. subst. now left.
  - intros H. right. now apply IH.
Qed.

Lemma lookup_None (m : pairs) k : lookup m k = None <-> ~ In k (map fst m).
Proof.
  induction m as [|[k' v'] r IH]; simpl; [tauto|].
  destruct (str_eqb k' k) eqn:E.
  - apply str_eqb_eq in E. subst. split; [discriminate|]. intros H. exfalso. apply H. now left.
  - rewrite IH. apply str_eqb_neq in E. tauto.
Qed.

Lemma nodup_keys_NoDup (m : pairs) : nodup_keys m = true <-> NoDup (map fst m).
Proof.
  induction m as [|[k v] r IH]; simpl.
  - split; [constructor|reflexivity].
  - rewrite andb_true_iff, negb_true_iff, IH, smem_mem, mem_false. split.
    + intros [H1 H2]. now constructor.
    + intros H. inversion H. tauto.
Qed.

Lemma lookup_nodup (m : pairs) k v : NoDup (map fst m) -> In (k, v) m -> lookup m k = Some v.
Proof.
  induction m as [|[k' v'] r IH]; simpl; intros Hnd Hin; [contradiction|].
  inversion Hnd as [|? ? Hn Hnd']; subst.
  destruct Hin as [[= -> ->]|Hin].
  - now rewrite str_eqb_refl.
  - destruct (str_eqb k' k) eqn:E.
    + apply str_eqb_eq in E. subst. exfalso. apply Hn. apply in_map_iff. now exists (k, v).
    + now apply IH.
Qed.

Lemma same_map_refl (m : pairs) : nodup_keys m = true -> same_map m m = true.
Proof.
  intros H. unfold same_map. rewrite H, Nat.eqb_refl. cbn [andb].
  apply forallb_forall. intros [k v] Hin. cbn [fst snd].
  rewrite (lookup_nodup m k v); [cbn; apply str_eqb_refl| now apply nodup_keys_NoDup|assumption].
Qed.

Lemma restrict_keys names (m : pairs) :
  map fst (restrict names m) = filter (fun s => mem s (map fst m)) names.
Proof.
  induction names as [|s r IH]; [reflexivity|].
  unfold restrict in *. cbn [flat_map filter]. rewrite map_app, IH.
  destruct (lookup m s) as [b|] eqn:E.
  - apply lookup_In in E. assert (mem s (map fst m) = true) as ->.
    { apply mem_In. apply in_map_iff. now exists (s, b). }
    reflexivity.
  - apply lookup_None in E. apply mem_false in E. now rewrite E.
Qed.

Lemma NoDup_filter {A} (p : A -> bool) l : NoDup l -> NoDup (filter p l).
Proof.
  induction l as [|x r IH]; simpl; intros H; [constructor|].
  inversion H; subst. destruct (p x); [constructor|]; auto.
  rewrite filter_In. tauto.
Qed.

Lemma lookup_restrict names (m : pairs) k :
  In k names -> lookup (restrict names m) k = lookup m k.
Proof.
  intros Hin. induction names as [|s r IH]; [contradiction|].
  unfold restrict in *. cbn [flat_map].
  destruct (str_eq_dec s k) as [->|Hne].
  - destruct (lookup m k) as [b|] eqn:E.
    + cbn. now rewrite str_eqb_refl.
    + cbn [app]. destruct (in_dec str_eq_dec k r) as [Hr|Hr]; [now apply IH|].
      fold (restrict r m). apply lookup_None. rewrite restrict_keys, filter_In. tauto.
  - destruct Hin as [->|Hin]; [congruence|].
    destruct (lookup m s) as [b|]; [|now apply IH].
    cbn. apply str_eqb_neq in Hne. rewrite Hne. now apply IH.
Qed.

(** scripts(): what the model returns for a package is, as a map, what was packed
    (when the packed scripts are distinct maintainer-script names) *)
Theorem restrict_same_map names (m : pairs) :
  NoDup names -> nodup_keys m = true -> forallb (fun kv => mem (fst kv) names) m = true ->
  same_map (restrict names m) m = true.
Proof.
  intros Hn Hm Hsub. pose proof (proj1 (nodup_keys_NoDup m) Hm) as Hm'.
  rewrite forallb_forall in Hsub.
  assert (Hk : NoDup (map fst (restrict names m))).
  { rewrite restrict_keys. now apply NoDup_filter. }
  unfold same_map. rewrite (proj2 (nodup_keys_NoDup _) Hk), Hm. cbn [andb].
  apply andb_true_iff. split.
  - apply Nat.eqb_eq. rewrite <- (map_length fst (restrict names m)), <- (map_length fst m).
    apply NoDup_same_length; try assumption.
    intros x. rewrite restrict_keys, filter_In, mem_In. split; [tauto|].
    intros Hx. split; [|assumption]. apply in_map_iff in Hx. destruct Hx as [[k v] [<- Hin]].
    apply mem_In. exact (Hsub _ Hin).
  - apply forallb_forall. intros [k v] Hin. cbn [fst snd].
    rewrite lookup_restrict by (apply mem_In; exact (Hsub _ Hin)).
    rewrite (lookup_nodup m k v Hm' Hin). cbn. apply str_eqb_refl.
Qed.
