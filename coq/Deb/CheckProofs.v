(** C07 — the bridge between the theorems of Deb/Proofs*.v (about the model) and the
    two predicates the correspondence check evaluates (Deb/Check.v): when the
    implementation's observation agrees with the model ([agree]) the property's
    judgement of that observation ([holds]) is true.

    The model's Section variables are instantiated as Check.v instantiates them:
    [P := payload], [p_bytes := pl_bytes], [p_open := pl_open] (Deb/Payload.v); the
    tar/codec oracle hypothesis of Deb/ProofsPacked.v ([arch_opens]) is met by
    [arch _ v := PTar v] by computation, so nothing is assumed here.

    The unconditional statement is FALSE for one branch: [CDeb ms (Some e) _ dqs (Ok o)]
    with an accepted member list.  There [holds] demands [returned_packed e dqs o] —
    the observed fields / scripts / md5 map / data files are the EXPECTATION [e] — and
      (i)  [e] is a field of the case that [agree] never reads ([agree_k] binds it
           to [_]): nothing ties it to the members;
      (ii) [o_fields o] (what Deb822 made of the control bytes) is compared by
           [agree] only when the control bytes could not be read ("Deb822 itself is
           C02's"), never when they could.
    Everything else of [holds] — acceptance / the DebError rejection, the spelling
    clause on both parts, the gate — is forced by [agree] for every case.

    [judged] is that one conjunct (so it is the weakest side condition:
    [judged_is_needed]).  [agree_implies_holds_packed] then replaces it by what
    [agree] really leaves open: a witness [pk] that the members pack
    ([packs]: the selected control and data members are tar archives whose listings
    carry [pk], Deb/ProofsPacked.v), that the expectation describes [pk]
    ([expect_of]), and that the observed FIELDS are the expected ones
    ([fields_judged]: the Deb822 part, outside this model).  Scripts, md5 map and
    data files under all three spellings then follow from [agree] by
    [deb_returns_packed]. *)
From Coq Require Import String.
From Verif Require Import Lib.Base Lib.Dec Lib.PyStr Gen.DebConsts Deb.Model Deb.Spec Deb.Payload
  Deb.Proofs Deb.ProofsView Deb.ProofsPacked Deb.ProofsMore Deb.Check.

(** * Reflection of the equalities of Check.v *)
Lemma pair_eqb_iff {A B} (f : A -> A -> bool) (g : B -> B -> bool) :
  (forall a b, f a b = true <-> a = b) -> (forall a b, g a b = true <-> a = b) ->
  forall x y, pair_eqb f g x y = true <-> x = y.
Proof.
  intros Hf Hg [a1 b1] [a2 b2]. unfold pair_eqb. cbn [fst snd].
  rewrite andb_true_iff, Hf, Hg.
  split; [intros [-> ->]; reflexivity|intros H; inversion H; auto].
Qed.

Lemma result_eqb_iff {A} (f : A -> A -> bool) :
  (forall a b, f a b = true <-> a = b) -> forall x y : result A, result_eqb f x y = true <-> x = y.
Proof.
  intros Hf [a|e] [a'|e']; cbn [result_eqb]; try (split; intros H; discriminate H).
  - rewrite Hf. split; [now intros ->|intros H; now inversion H].
  - rewrite err_eqb_eq. split; [now intros ->|intros H; now inversion H].
Qed.

Lemma pairs_eqb_iff a b : pairs_eqb a b = true <-> a = b.
Proof. unfold pairs_eqb. apply list_eqb_eq. apply pair_eqb_iff; apply str_eqb_eq. Qed.

Lemma q_eqb_iff a b : q_eqb a b = true <-> a = b.
Proof.
  destruct a as [h g], b as [h' g']. unfold q_eqb. cbn [fst snd].
  rewrite andb_true_iff, (result_eqb_iff _ Bool.eqb_true_iff), (result_eqb_iff _ str_eqb_eq).
  split; [intros [-> ->]; reflexivity|intros H; inversion H; auto].
Qed.

Lemma q_eqb_refl a : q_eqb a a = true.
Proof. now apply q_eqb_iff. Qed.

Lemma qs_eqb_iff a b : list_eqb (list_eqb q_eqb) a b = true <-> a = b.
Proof. apply list_eqb_eq. apply list_eqb_eq. exact q_eqb_iff. Qed.

Lemma forallb_combine_map {A B} (Q : A * B -> bool) (f : A -> B) : forall l,
  forallb Q (combine l (map f l)) = forallb (fun a => Q (a, f a)) l.
Proof. induction l as [|a l IH]; [reflexivity|]. cbn [map combine forallb]. now rewrite IH. Qed.

(** * The side condition *)
Definition judged_k (c : kase) : bool :=
  match c with
  | CDeb ms (Some e) _ dqs (Ok o) => negb (spec_accept (map fst ms)) || returned_packed e dqs o
  | _ => true
  end.
Definition judged (c : case) : bool :=
  match c with Some k => judged_k k | None => true end.

(** * What [agree] forces *)

(** the spelling clause holds of whatever the model answers, on any part *)
Lemma spellings_agree_model (pt : part payload) qs :
  spellings_agree qs (run_queries pt qs) = true.
Proof.
  unfold spellings_agree, run_queries. rewrite map_length, Nat.eqb_refl. cbn [andb].
  rewrite forallb_combine_map. apply forallb_forall. intros n _. cbn [fst snd].
  destruct (plain_name n) eqn:Hp; [|reflexivity]. cbn [negb orb].
  rewrite spellings_spec. cbn [map length Nat.eqb andb all_same forallb].
  destruct (spelling_invariant_part payload pl_open pt n (DOT :: SLASH :: n) Hp) as [-> ->].
  { rewrite spellings_spec. right. now left. }
  destruct (spelling_invariant_part payload pl_open pt n (SLASH :: n) Hp) as [-> ->].
  { rewrite spellings_spec. right. right. now left. }
  now rewrite q_eqb_refl.
Qed.

(** every part name the property allows passes the extension gate *)
Lemma spec_names_pass_gate name :
  smem name (SPEC_CTRL ++ SPEC_DATA) = true -> ext_gate name = true.
Proof.
  intros H. rewrite smem_mem in H. apply mem_In in H.
  pose proof consts_match_spec_ok as HC. unfold consts_match_spec in HC.
  apply andb_true_iff in HC. destruct HC as [HC _]. apply andb_true_iff in HC. destruct HC as [Hc Hd].
  pose proof gate_candidates as G. rewrite forallb_forall in G. apply G.
  apply in_app_or in H. apply in_or_app. destruct H as [H|H].
  - left. now apply (same_set_In _ _ Hc).
  - right. now apply (same_set_In _ _ Hd).
Qed.

(** the conjuncts of [agree_deb] on an accepted member list *)
Lemma agree_deb_ok ms cqs dqs d o :
  deb_init payload pl_bytes ms = Ok d ->
  agree_deb ms cqs dqs (Ok o) = true ->
  o_scripts o = scripts payload pl_open (d_control d)
  /\ o_md5 o = md5sums payload pl_open (d_control d)
  /\ o_cq o = run_queries (d_control d) cqs
  /\ o_dq o = run_queries (d_data d) dqs.
Proof.
  intros Hi H. unfold agree_deb in H. rewrite Hi in H. cbv zeta in H.
  rewrite !andb_true_iff in H. destruct H as [[[[[[_ _] _] Hs] Hm] Hc] Hd].
  apply (result_eqb_iff _ pairs_eqb_iff) in Hs. apply (result_eqb_iff _ pairs_eqb_iff) in Hm.
  apply qs_eqb_iff in Hc. apply qs_eqb_iff in Hd. auto.
Qed.

(** * The theorem *)
Theorem agree_implies_holds (c : case) : judged c = true -> agree c = true -> holds c = true.
Proof.
  destruct c as [[ms exp cqs dqs obs|name obs]|]; [| |discriminate 2]; cbn [judged agree holds agree_k holds_k].
  - (* a package *)
    intros Hj Hag.
    destruct (deb_init payload pl_bytes ms) as [d|e] eqn:Hi.
    + (* accepted *)
      assert (Hacc : spec_accept (map fst ms) = true).
      { rewrite <- (deb_init_accept payload pl_bytes ms), Hi. reflexivity. }
      rewrite Hacc.
      destruct obs as [o|e']; [|unfold agree_deb in Hag; rewrite Hi in Hag; discriminate Hag].
      destruct (agree_deb_ok _ _ _ _ _ Hi Hag) as [_ [_ [Hc Hd]]].
      rewrite Hc at 1. rewrite Hd at 1. rewrite !spellings_agree_model. cbn [andb].
      destruct exp as [e|]; [|reflexivity].
      cbn [judged_k] in Hj. rewrite Hacc in Hj. exact Hj.
    + (* rejected: the package-format error and nothing else *)
      assert (Hacc : spec_accept (map fst ms) = false).
      { rewrite <- (deb_init_accept payload pl_bytes ms), Hi. reflexivity. }
      rewrite Hacc.
      pose proof (deb_init_only_deberror _ _ _ _ Hi) as ->.
      unfold agree_deb in Hag. rewrite Hi in Hag.
      destruct obs as [o|e']; [discriminate Hag|]. apply err_eqb_eq in Hag. now subst e'.
  - (* the extension gate *)
    intros _ Hag.
    destruct (smem name (SPEC_CTRL ++ SPEC_DATA)) eqn:Hn; [|reflexivity].
    rewrite (spec_names_pass_gate _ Hn) in Hag.
    apply (result_eqb_iff _ Bool.eqb_true_iff) in Hag. subst obs. reflexivity.
Qed.

(** [judged] is the weakest side condition: an agreeing case outside it fails [holds]. *)
Theorem judged_is_needed (c : case) : agree c = true -> judged c = false -> holds c = false.
Proof.
  destruct c as [[ms [e|] cqs dqs [o|e']|name obs]|]; try discriminate 2.
  cbn [judged judged_k holds holds_k]. intros _ Hj. apply orb_false_iff in Hj. destruct Hj as [Ha Hr].
  apply negb_false_iff in Ha. rewrite Ha, Hr. apply andb_false_r.
Qed.

(** * The content clause, from a witness that the members pack a package *)

(** the members the reader selects are tar archives carrying [pk] *)
Definition packs (pk : package) (ms : list (str * payload)) : bool :=
  match deb_open (map fst ms) with
  | Ok (cn, dn) =>
      match ar_getmember ms cn, ar_getmember ms dn with
      | Ok (PTar cv), Ok (PTar dv) => control_view_ok pk cv && data_view_ok pk dv
      | _, _ => false
      end
  | Err _ => false
  end.

(** the expectation of the case describes [pk]: its scripts (distinct maintainer-script
    names), the map its md5sums list denotes, its data files (distinct names, each of
    them queried) *)
Definition expect_of (pk : package) (e : expect) (dqs : list str) : bool :=
  pairs_eqb (pk_scripts pk) (e_scripts e)
  && nodup_keys (e_scripts e)
  && forallb (fun kv => mem (fst kv) MAINT_SCRIPTS) (e_scripts e)
  && same_map (md5_dict (pk_md5 pk)) (e_md5 e)
  && pairs_eqb (pk_files pk) (e_files e)
  && nodup_keys (e_files e)
  && forallb (fun f => smem (fst f) dqs) (e_files e).

(** the one observation left open: Deb822's reading of the control file *)
Definition fields_judged (e : expect) (obs : result obsrec) : bool :=
  match obs with
  | Ok o => match o_fields o with Ok f => same_map f (e_fields e) | Err _ => false end
  | Err _ => true
  end.

Lemma files_returned_model (deb : debfile payload) files dqs :
  nodup_keys files = true ->
  forallb (fun f => smem (fst f) dqs) files = true ->
  (forall f b s, In (f, b) files -> In s (spellings f) ->
     part_has_file payload pl_open (d_data deb) s = Ok true
     /\ part_get_content payload pl_open (d_data deb) s = Ok b) ->
  files_returned files dqs (run_queries (d_data deb) dqs) = true.
Proof.
  intros Hnd Hq Hf. unfold files_returned, run_queries.
  rewrite Hnd, Hq, map_length, Nat.eqb_refl. cbn [andb].
  rewrite forallb_combine_map. apply forallb_forall. intros n _. cbn [fst snd].
  destruct (lookup files n) as [b|] eqn:Hl; [|reflexivity].
  apply lookup_In in Hl.
  rewrite spellings_spec. cbn [map length Nat.eqb andb forallb].
  destruct (Hf n b n Hl) as [-> ->]; [rewrite spellings_spec; now left|].
  destruct (Hf n b (DOT :: SLASH :: n) Hl) as [-> ->]; [rewrite spellings_spec; right; now left|].
  destruct (Hf n b (SLASH :: n) Hl) as [-> ->]; [rewrite spellings_spec; right; right; now left|].
  now rewrite q_eqb_refl.
Qed.

Theorem packed_case_judged pk ms e cqs dqs obs :
  packs pk ms = true -> expect_of pk e dqs = true -> fields_judged e obs = true ->
  agree (Some (CDeb ms (Some e) cqs dqs obs)) = true ->
  judged (Some (CDeb ms (Some e) cqs dqs obs)) = true.
Proof.
  intros Hp He Hfj Hag. cbn [judged judged_k agree agree_k] in *.
  destruct obs as [o|e']; [|reflexivity].
  apply orb_true_iff. right.
  unfold packs in Hp.
  destruct (deb_open (map fst ms)) as [[cn dn]|] eqn:Hopen; [|discriminate Hp].
  destruct (ar_getmember ms cn) as [[|cv]|] eqn:Hc; try discriminate Hp.
  destruct (ar_getmember ms dn) as [[|dv]|] eqn:Hd; try discriminate Hp.
  apply andb_true_iff in Hp. destruct Hp as [Hcv Hdv].
  destruct (deb_init_ok payload pl_bytes ms cn dn Hopen) as [_ [_ [ip [_ [_ [Hip _]]]]]].
  destruct (deb_returns_packed payload pl_bytes pl_open (fun _ v => PTar v) (fun _ _ _ => eq_refl)
              ms cn dn 0 0 cv dv ip pk) as [deb [Hi [_ [_ [Hs [Hm Hf]]]]]]; try assumption; try lia.
  destruct (agree_deb_ok _ _ _ _ _ Hi Hag) as [Hos [Hom [_ Hdq]]].
  unfold expect_of in He. rewrite !andb_true_iff in He.
  destruct He as [[[[[[Hes Hsn] Hsm] Hmd] Hef] Hfn] Hfq].
  apply pairs_eqb_iff in Hes. apply pairs_eqb_iff in Hef.
  unfold returned_packed. cbn [fields_judged] in Hfj.
  destruct (o_fields o) as [f|]; [|discriminate Hfj].
  rewrite Hos, Hs, Hom, Hm, Hfj, Hmd, Hdq, Hes. cbn [andb].
  rewrite (restrict_same_map MAINT_SCRIPTS (e_scripts e) scripts_nodup Hsn Hsm). cbn [andb].
  apply files_returned_model; try assumption.
  rewrite <- Hef. exact Hf.
Qed.

Theorem agree_implies_holds_packed pk ms e cqs dqs obs :
  packs pk ms = true -> expect_of pk e dqs = true -> fields_judged e obs = true ->
  agree (Some (CDeb ms (Some e) cqs dqs obs)) = true ->
  holds (Some (CDeb ms (Some e) cqs dqs obs)) = true.
Proof.
  intros Hp He Hfj Hag. apply agree_implies_holds; [|exact Hag].
  now apply (packed_case_judged pk).
Qed.

(** Cases without an expectation, rejected packages and gate cases need no side
    condition at all. *)
Theorem agree_implies_holds_unpacked ms cqs dqs obs :
  agree (Some (CDeb ms None cqs dqs obs)) = true -> holds (Some (CDeb ms None cqs dqs obs)) = true.
Proof. apply agree_implies_holds. reflexivity. Qed.

Theorem agree_implies_holds_gate name obs :
  agree (Some (CGate name obs)) = true -> holds (Some (CGate name obs)) = true.
Proof. apply agree_implies_holds. reflexivity. Qed.
