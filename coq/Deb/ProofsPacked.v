(** C07 — deb_returns_packed: the reader returns what was packed, for every
    codec pair and every member order, under ONE hypothesis about CPython's
    tarfile: opening any of the five encodings of a tar archive yields its listing.
    (PARTIAL BY CONSTRUCTION: tarfile and the codecs are not modelled.) *)
From Coq Require Import String Permutation.
From Verif Require Import Lib.Base Lib.Dec Lib.PyStr Gen.DebConsts Deb.Model Deb.Spec Deb.Proofs Deb.ProofsView.

(** every candidate name passes the extension gate of tgz(): the ten names swept *)
Lemma gate_candidates :
  forallb ext_gate (candidates CTRL_PART ++ candidates DATA_PART) = true.
Proof. vm_compute. reflexivity. Qed.

Lemma gate_ctrl c : In c (candidates CTRL_PART) -> ext_gate c = true.
Proof.
  intros H. pose proof gate_candidates as G. rewrite forallb_forall in G. apply G.
  apply in_or_app. now left.
Qed.
Lemma gate_data c : In c (candidates DATA_PART) -> ext_gate c = true.
Proof.
  intros H. pose proof gate_candidates as G. rewrite forallb_forall in G. apply G.
  apply in_or_app. now right.
Qed.

Definition consts_disjoint : bool :=
  negb (mem INFO_PART (candidates CTRL_PART ++ candidates DATA_PART))
  && forallb (fun c => negb (mem c (candidates DATA_PART))) (candidates CTRL_PART).
Lemma consts_disjoint_true : consts_disjoint = true.
Proof. vm_compute. reflexivity. Qed.

Lemma info_not_candidate : ~ In INFO_PART (candidates CTRL_PART ++ candidates DATA_PART).
Proof.
  pose proof consts_disjoint_true as H. unfold consts_disjoint in H.
  apply andb_true_iff in H. destruct H as [H _]. apply negb_true_iff in H. now apply mem_false.
Qed.
Lemma ctrl_data_disjoint c : In c (candidates CTRL_PART) -> ~ In c (candidates DATA_PART).
Proof.
  pose proof consts_disjoint_true as H. unfold consts_disjoint in H.
  apply andb_true_iff in H. destruct H as [_ H]. rewrite forallb_forall in H.
  intros Hc. specialize (H c Hc). apply negb_true_iff in H. now apply mem_false.
Qed.

(** * What was packed *)
Record package := mkPackage {
  pk_control : str;                  (* the control file, as bytes *)
  pk_scripts : list (str * str);     (* maintainer scripts: name -> text *)
  pk_md5 : list md5_entry;           (* the md5sums list *)
  pk_files : list (str * str);       (* data files: relative name -> content *)
}.

Definition view_has (v : tarview) (name content : str) : bool :=
  match tar_find v (dot_slash name) with
  | Some (Some b) => str_eqb b content
  | _ => false
  end.

Lemma view_has_find v n b : view_has v n b = true -> tar_find v (dot_slash n) = Some (Some b).
Proof.
  unfold view_has. destruct (tar_find v (dot_slash n)) as [[b'|]|]; try discriminate.
  intros H. apply str_eqb_eq in H. now subst.
Qed.

(** the control listing carries the package: './control', './md5sums' (well-formed
    lines) and, of the maintainer script names, exactly the packed ones *)
Definition control_view_ok (pk : package) (cv : tarview) : bool :=
  view_has cv CONTROL_FILE (pk_control pk)
  && view_has cv MD5_FILE (render_md5 (pk_md5 pk))
  && forallb entry_ok (pk_md5 pk)
  && forallb (fun s => match lookup (pk_scripts pk) s with
                       | Some b => view_has cv s b
                       | None => negb (is_some (tar_find cv (dot_slash s)))
                       end) MAINT_SCRIPTS.

(** the data listing carries every file under './name', names plain and without
    a trailing '/' *)
Definition data_view_ok (pk : package) (dv : tarview) : bool :=
  forallb (fun fb => plain_name (fst fb) && key_ok (fst fb) && view_has dv (fst fb) (snd fb))
          (pk_files pk).

(** the packed scripts, in the order scripts() visits them *)
Definition restrict (names : list str) (m : list (str * str)) : dict :=
  flat_map (fun s => match lookup m s with Some b => [(s, b)] | None => [] end) names.

Lemma script_entries_restrict pk cv names :
  forallb (fun s => match lookup (pk_scripts pk) s with
                    | Some b => view_has cv s b
                    | None => negb (is_some (tar_find cv (dot_slash s)))
                    end) names = true ->
  existsb (script_is_dir cv) names = false
  /\ script_entries cv names = restrict names (pk_scripts pk).
Proof.
  induction names as [|s r IH]; intros H; [split; reflexivity|].
  cbn [forallb] in H. apply andb_true_iff in H. destruct H as [Hs Hr].
  destruct (IH Hr) as [IH1 IH2].
  unfold script_entries, restrict in *. cbn [existsb flat_map]. rewrite IH1, IH2.
  unfold script_is_dir at 1.
  destruct (lookup (pk_scripts pk) s) as [b|].
  - rewrite (view_has_find _ _ _ Hs). split; reflexivity.
  - destruct (tar_find cv (dot_slash s)); [discriminate|]. split; reflexivity.
Qed.

Section Packed.
Variable P : Type.
Variable p_bytes : P -> str.
Variable p_open : P -> option tarview.
(** [arch k v]: the bytes of a tar archive with listing [v], stored (k = 0) or
    compressed with gz/bz2/xz/lzma (k = 1..4); [raw b]: a member holding [b]. *)
Variable arch : nat -> tarview -> P.
Variable raw : str -> P.
Hypothesis arch_opens : forall k v, k < 5 -> p_open (arch k v) = Some v.
Hypothesis raw_bytes : forall b, p_bytes (raw b) = b.

Definition returns_packed (deb : debfile P) (pk : package) : Prop :=
  control_bytes P p_open (d_control deb) = Ok (pk_control pk)
  /\ scripts P p_open (d_control deb) = Ok (restrict MAINT_SCRIPTS (pk_scripts pk))
  /\ md5sums P p_open (d_control deb) = Ok (md5_dict (pk_md5 pk))
  /\ forall f b s, In (f, b) (pk_files pk) -> In s (spellings f) ->
       part_has_file P p_open (d_data deb) s = Ok true
       /\ part_get_content P p_open (d_data deb) s = Ok b.

Theorem deb_returns_packed ms cn dn kc kd cv dv ip pk :
  kc < 5 -> kd < 5 ->
  deb_open (map fst ms) = Ok (cn, dn) ->
  ar_getmember ms cn = Ok (arch kc cv) ->
  ar_getmember ms dn = Ok (arch kd dv) ->
  ar_getmember ms INFO_PART = Ok ip ->
  control_view_ok pk cv = true ->
  data_view_ok pk dv = true ->
  exists deb, deb_init P p_bytes ms = Ok deb
    /\ d_version deb = strip_by bytes_isspace (p_bytes ip)
    /\ returns_packed deb pk.
Proof.
  intros Hkc Hkd Hopen Hc Hd Hi Hcv Hdv.
  destruct (deb_init_ok P p_bytes ms cn dn Hopen) as [cp [dp [ip' [Ec [Ed [Ei Einit]]]]]].
  rewrite Hc in Ec. rewrite Hd in Ed. rewrite Hi in Ei.
  inversion Ec; inversion Ed; inversion Ei; subst cp dp ip'. clear Ec Ed Ei.
  eexists. split; [exact Einit|]. split; [reflexivity|].
  apply deb_open_ok_iff in Hopen. destruct Hopen as [_ [[Hcc _] [Hdc _]]].
  assert (Tc : tgz P p_open (cn, arch kc cv) = Ok cv).
  { unfold tgz. cbn [fst snd]. now rewrite (gate_ctrl _ Hcc), (arch_opens _ _ Hkc). }
  assert (Td : tgz P p_open (dn, arch kd dv) = Ok dv).
  { unfold tgz. cbn [fst snd]. now rewrite (gate_data _ Hdc), (arch_opens _ _ Hkd). }
  unfold control_view_ok in Hcv. rewrite !andb_true_iff in Hcv.
  destruct Hcv as [[[Hctl Hmd5] Hes] Hscr].
  unfold returns_packed. cbn [d_control d_data].
  split; [|split; [|split]].
  - eapply control_bytes_ok; [exact Tc|]. now apply view_has_find.
  - rewrite (scripts_exact P p_open _ _ Tc).
    destruct (script_entries_restrict pk cv MAINT_SCRIPTS Hscr) as [-> ->]. reflexivity.
  - eapply md5sums_roundtrip; [exact Tc| |exact Hes]. now apply view_has_find.
  - intros f b s Hin Hs. unfold data_view_ok in Hdv. rewrite forallb_forall in Hdv.
    specialize (Hdv (f, b) Hin). cbn [fst snd] in Hdv. rewrite !andb_true_iff in Hdv.
    destruct Hdv as [[Hp Hk] Hv].
    eapply file_by_any_spelling; try eassumption. now apply view_has_find.
Qed.

(** ** The same for a package as it is assembled: debian-binary, one control
    member, one data member, in ANY order, with unrelated members anywhere *)
Lemma ar_getmember_unique (ms : list (str * P)) n p :
  In (n, p) ms -> (forall q, In (n, q) ms -> q = p) -> ar_getmember ms n = Ok p.
Proof.
  intros Hin Hu.
  destruct (ar_getmember_In ms n) as [q Eq].
  { apply in_map_iff. now exists (n, p). }
  rewrite Eq. f_equal. apply Hu.
  apply ar_getmember_last in Eq. destruct Eq as [pre [post [-> _]]].
  apply in_or_app. right. now left.
Qed.

Definition unrelated (extras : list (str * P)) : bool :=
  forallb (fun x => negb (mem (fst x) (INFO_PART :: candidates CTRL_PART ++ candidates DATA_PART)))
          extras.

Theorem deb_returns_packed_assembled ms extras cn dn kc kd cv dv info pk :
  kc < 5 -> kd < 5 ->
  In cn (candidates CTRL_PART) -> In dn (candidates DATA_PART) ->
  unrelated extras = true ->
  Permutation ms ((INFO_PART, raw info) :: (cn, arch kc cv) :: (dn, arch kd dv) :: extras) ->
  control_view_ok pk cv = true ->
  data_view_ok pk dv = true ->
  exists deb, deb_init P p_bytes ms = Ok deb
    /\ d_version deb = strip_by bytes_isspace info
    /\ returns_packed deb pk.
Proof.
  intros Hkc Hkd Hcn Hdn Hex Hperm Hcv Hdv.
  set (base := (INFO_PART, raw info) :: (cn, arch kc cv) :: (dn, arch kd dv) :: extras) in *.
  assert (Hin : forall x, In x ms <-> In x base).
  { intros x. split; apply Permutation_in; [assumption|now apply Permutation_sym]. }
  assert (Hex' : forall n q, In (n, q) extras ->
             n <> INFO_PART /\ ~ In n (candidates CTRL_PART) /\ ~ In n (candidates DATA_PART)).
  { intros n q Hq. unfold unrelated in Hex. rewrite forallb_forall in Hex.
    specialize (Hex _ Hq). cbn [fst] in Hex. apply negb_true_iff, mem_false in Hex.
    repeat split; intros H; apply Hex.
    - left. now subst.
    - right. apply in_or_app. now left.
    - right. apply in_or_app. now right. }
  assert (Hcn_ne : cn <> INFO_PART).
  { intros ->. apply info_not_candidate. apply in_or_app. now left. }
  assert (Hdn_ne : dn <> INFO_PART).
  { intros ->. apply info_not_candidate. apply in_or_app. now right. }
  assert (Hcd : cn <> dn).
  { intros ->. now apply (ctrl_data_disjoint dn). }
  assert (Hnames : forall n, In n (map fst ms) <->
             n = INFO_PART \/ n = cn \/ n = dn \/ In n (map fst extras)).
  { intros n. rewrite in_map_iff. split.
    - intros [[n' q] [<- Hq]]. apply Hin in Hq. cbn [fst]. unfold base in Hq. cbn [In] in Hq.
      destruct Hq as [Hq|[Hq|[Hq|Hq]]]; try (inversion Hq; subst; tauto).
      right. right. right. apply in_map_iff. now exists (n', q).
    - intros [->|[->|[->|H]]].
      + exists (INFO_PART, raw info). split; [reflexivity|]. apply Hin. now left.
      + exists (cn, arch kc cv). split; [reflexivity|]. apply Hin. right. now left.
      + exists (dn, arch kd dv). split; [reflexivity|]. apply Hin. right. right. now left.
      + apply in_map_iff in H. destruct H as [[n' q] [<- Hq]]. exists (n', q).
        split; [reflexivity|]. apply Hin. right. right. right. assumption. }
  assert (Hopen : deb_open (map fst ms) = Ok (cn, dn)).
  { apply deb_open_ok_iff. split; [apply Hnames; now left|]. split.
    - split; [assumption|]. split; [apply Hnames; tauto|].
      intros c' Hc' Hn'. apply Hnames in Hn'. destruct Hn' as [->|[->|[->|H]]].
      + exfalso. apply info_not_candidate. apply in_or_app. now left.
      + reflexivity.
      + exfalso. now apply (ctrl_data_disjoint dn).
      + exfalso. apply in_map_iff in H. destruct H as [[n' q] [<- Hq]].
        destruct (Hex' _ _ Hq) as [_ [H _]]. now apply H.
    - split; [assumption|]. split; [apply Hnames; tauto|].
      intros c' Hc' Hn'. apply Hnames in Hn'. destruct Hn' as [->|[->|[->|H]]].
      + exfalso. apply info_not_candidate. apply in_or_app. now right.
      + exfalso. now apply (ctrl_data_disjoint cn).
      + reflexivity.
      + exfalso. apply in_map_iff in H. destruct H as [[n' q] [<- Hq]].
        destruct (Hex' _ _ Hq) as [_ [_ H]]. now apply H. }
  destruct (deb_returns_packed ms cn dn kc kd cv dv (raw info) pk Hkc Hkd Hopen) as [deb [E1 [E2 E3]]];
    try assumption.
  - apply ar_getmember_unique; [apply Hin; right; now left|].
    intros q Hq. apply Hin in Hq. unfold base in Hq. cbn [In] in Hq.
    destruct Hq as [Hq|[Hq|[Hq|Hq]]].
    + inversion Hq. congruence.
    + now inversion Hq.
    + inversion Hq. congruence.
    + destruct (Hex' _ _ Hq) as [_ [H _]]. contradiction.
  - apply ar_getmember_unique; [apply Hin; right; right; now left|].
    intros q Hq. apply Hin in Hq. unfold base in Hq. cbn [In] in Hq.
    destruct Hq as [Hq|[Hq|[Hq|Hq]]].
    + inversion Hq. congruence.
    + inversion Hq. congruence.
    + now inversion Hq.
    + destruct (Hex' _ _ Hq) as [_ [_ H]]. contradiction.
  - apply ar_getmember_unique; [apply Hin; now left|].
    intros q Hq. apply Hin in Hq. unfold base in Hq. cbn [In] in Hq.
    destruct Hq as [Hq|[Hq|[Hq|Hq]]].
    + now inversion Hq.
    + inversion Hq. congruence.
    + inversion Hq. congruence.
    + destruct (Hex' _ _ Hq) as [H _]. congruence.
  - exists deb. split; [assumption|]. split; [|assumption]. now rewrite E2, raw_bytes.
Qed.

End Packed.
