(** C07 — the reference the property is stated against.  Independent of Deb/Model.v
    and of the constants of debfile.py: the part names are the ones the property
    text gives ("control and data tarballs stored uncompressed or
    gz/bz2/xz/lzma-compressed", "debian-binary").

    A package is what was put into it; a reader is judged on
      - acceptance: debian-binary present, exactly one control candidate, exactly
        one data candidate, counting DISTINCT member names (two members with the
        very same name are one candidate: DESIGN §4 C07, stated not hidden);
      - content: fields, scripts, md5 map, files equal to what was packed;
      - spellings: 'name', './name', '/name' answer alike. *)
From Coq Require Import String.
From Verif Require Import Lib.Base Lib.Dec Lib.PyStr.
Local Open Scope string_scope.

Definition smem (n : str) (l : list str) : bool := existsb (str_eqb n) l.

Fixpoint sdedup (l : list str) : list str :=
  match l with
  | [] => []
  | x :: r => if smem x r then sdedup r else x :: sdedup r
  end.

Definition SPEC_INFO : str := dec "debian-binary".
Definition SPEC_CTRL : list str :=
  map dec ["control.tar"; "control.tar.gz"; "control.tar.bz2"; "control.tar.xz"; "control.tar.lzma"].
Definition SPEC_DATA : list str :=
  map dec ["data.tar"; "data.tar.gz"; "data.tar.bz2"; "data.tar.xz"; "data.tar.lzma"].
Definition SPEC_SCRIPTS : list str :=
  map dec ["preinst"; "postinst"; "prerm"; "postrm"; "config"].

(** how many different member names are candidates of the given set *)
Definition distinct_in (set names : list str) : nat :=
  length (sdedup (filter (fun n => smem n set) names)).

Definition spec_accept (names : list str) : bool :=
  smem SPEC_INFO names
  && (distinct_in SPEC_CTRL names =? 1)%nat
  && (distinct_in SPEC_DATA names =? 1)%nat.

(** what was packed *)
Record pkg := mkPkg {
  k_fields : list (str * str);      (* control fields, in order *)
  k_scripts : list (str * str);     (* maintainer scripts present: name -> text *)
  k_md5 : list (str * str);         (* file name (bytes) -> md5 (text) *)
  k_files : list (str * str);       (* data files: relative name -> content *)
}.

Definition pairs := list (str * str).

Fixpoint lookup (m : pairs) (k : str) : option str :=
  match m with
  | [] => None
  | (k', v) :: r => if str_eqb k' k then Some v else lookup r k
  end.

Fixpoint nodup_keys (m : pairs) : bool :=
  match m with
  | [] => true
  | (k, _) :: r => negb (smem k (map fst r)) && nodup_keys r
  end.

(** two finite maps with the same bindings (order is not part of a map) *)
Definition same_map (got want : pairs) : bool :=
  nodup_keys got && nodup_keys want
  && (length got =? length want)%nat
  && forallb (fun kv => option_eqb str_eqb (lookup got (fst kv)) (Some (snd kv))) want.

(** the three spellings of a member file name *)
Definition spellings (n : str) : list str := [n; (dec "./" ++ n)%list; (dec "/" ++ n)%list].

(** names the spelling clause speaks about: relative, not already prefixed *)
Definition plain_name (n : str) : bool :=
  negb (startswith (dec "/") n) && negb (startswith (dec "./") n).
