(** C07 — tie by regeneration: the functions of Gen/TrDebFile.v (regenerated from lib/debian/debfile.py on every
    run by harness/py2coq.py) equal the model functions of Deb/Model.v that [Deb.Check.agree] runs and that the
    theorems of Props/C07.v are about — for ALL payload types, member lists, listings and names.  Statements are
    repeated in Props/C07Tie.v. *)
From Coq Require Import Lia.
From Verif Require Import Lib.Base Lib.PyStr Lib.PySlice Lib.Tr Gen.DebConsts Deb.Model Deb.Proofs Deb.TrPrims
  Gen.TrDebFile.

Local Open Scope Z_scope.

(** * small facts about the runtime *)
Lemma tr_dict_set_model (d : dict) k v : tr_dict_set d k v = dict_set d k v.
Proof.
  induction d as [|[k' v'] r IH]; cbn [tr_dict_set dict_set]; [reflexivity|].
  destruct (str_eqb k' k); [reflexivity|]. now rewrite IH.
Qed.

Lemma tr_slice_skipn {A} (l : list A) (n : nat) : tr_slice l (Some (Z.of_nat n)) None = skipn n l.
Proof.
  unfold tr_slice, slice. rewrite (clamp_index_in_range (length l) (Z.of_nat (length l))) by lia.
  rewrite Nat2Z.id. unfold clamp_index.
  replace (Z.of_nat n <? 0) with false by (symmetry; apply Z.ltb_ge; lia).
  destruct (Nat.le_gt_cases n (length l)) as [Hle|Hgt].
  - rewrite Z.min_l by lia. rewrite Nat2Z.id.
    apply firstn_all2. rewrite skipn_length. lia.
  - rewrite Z.min_r by lia. rewrite Nat2Z.id, Nat.sub_diag. cbn [firstn].
    symmetry. apply skipn_all2. lia.
Qed.

Lemma dropwhile_ext {A} (p q : A -> bool) s : (forall c, p c = q c) -> dropwhile p s = dropwhile q s.
Proof.
  intros H. induction s as [|c s IH]; cbn [dropwhile]; [reflexivity|]. rewrite <- H. now rewrite IH.
Qed.

Lemma rstrip_crlf l : trp_rstrip_chars l [13; 10]%N = rstrip_by is_crlf l.
Proof.
  unfold trp_rstrip_chars, rstrip_by, rdropwhile. f_equal. apply dropwhile_ext.
  intros c. unfold in_chars, is_crlf, CR, LF. cbn [existsb]. now rewrite Bool.orb_false_r.
Qed.

(** * sets of names *)
Lemma mem_dedup x l : mem x (dedup l) = mem x l.
Proof. apply Bool.eq_iff_eq_true. rewrite !mem_In. apply dedup_In. Qed.

Lemma mem_filter_mem s x r : mem x (filter (fun c => mem c s) r) = mem x s && mem x r.
Proof.
  apply Bool.eq_iff_eq_true. rewrite Bool.andb_true_iff, !mem_In, filter_In, mem_In. tauto.
Qed.

Lemma filter_dedup s l :
  filter (fun c => mem c s) (dedup l) = dedup (filter (fun c => mem c s) l).
Proof.
  induction l as [|x r IH]; [reflexivity|]. cbn [dedup filter].
  destruct (mem x r) eqn:Er; destruct (mem x s) eqn:Es; cbn [dedup filter].
  - rewrite mem_filter_mem, Es, Er. exact IH.
  - exact IH.
  - rewrite Es, mem_filter_mem, Es, Er. cbn [andb]. now rewrite IH.
  - rewrite Es. exact IH.
Qed.

(** * group 1: DebFile.__init__ *)

(** the candidates list as the code builds it *)
Lemma candidates_eq base :
  (if tr_str_in base [DATA_PART; CTRL_PART]
   then map (fun ext => ([]%N ++ base ++ [46]%N ++ ext ++ []%N)) PART_EXTS ++ [base]
   else map (fun ext => ([]%N ++ base ++ [46]%N ++ ext ++ []%N)) PART_EXTS)
  = candidates base.
Proof.
  unfold candidates. change (tr_str_in base [DATA_PART; CTRL_PART]) with (mem base [DATA_PART; CTRL_PART]).
  assert (E : map (fun ext => ([]%N ++ base ++ [46]%N ++ ext ++ []%N)) PART_EXTS
              = map (fun ext => base ++ DOT :: ext) PART_EXTS).
  { apply map_ext. intros ext. cbn [app]. now rewrite app_nil_r. }
  rewrite E. destruct (mem base [DATA_PART; CTRL_PART]); [reflexivity|now rewrite app_nil_r].
Qed.

(** the three-way decision on a (duplicate-free) list of found parts *)
Lemma pick_single (l : list str) :
  (if negb (trp_set_bool l) then Err DebError
   else if (trp_set_len l >? 1) then Err DebError
   else do t <- tr_index (trp_set_list l) 0; Ok t)
  = match l with
    | [] => Err DebError
    | [p] => Ok p
    | _ :: _ :: _ => Err DebError
    end.
Proof.
  destruct l as [|a [|b r]]; [reflexivity|reflexivity|].
  unfold trp_set_bool, trp_set_len, tr_len. cbn [tr_is_nil negb length].
  replace (Z.of_nat (S (S (length r))) >? 1) with true; [reflexivity|].
  symmetry. apply Z.gtb_lt. lia.
Qed.

(** compressed_part_name, for ANY representation [s] of the set of member names (duplicates or not) *)
Theorem tr_compressed_part_name_eq (s : list str) (base : str) :
  tr_compressed_part_name s base = compressed_part_name s base.
Proof.
  unfold tr_compressed_part_name, compressed_part_name.
  cbv zeta.
  transitivity
    ((fun cands : list str =>
        let parts := trp_set_inter s (trp_set cands) in
        if negb (trp_set_bool parts) then Err DebError
        else if (trp_set_len parts >? 1) then Err DebError
        else do t <- tr_index (trp_set_list parts) 0; Ok t)
       (if tr_str_in base [DATA_PART; CTRL_PART]
        then map (fun ext => ([]%N ++ base ++ [46]%N ++ ext ++ []%N)) PART_EXTS ++ [base]
        else map (fun ext => ([]%N ++ base ++ [46]%N ++ ext ++ []%N)) PART_EXTS)).
  { destruct (tr_str_in base [DATA_PART; CTRL_PART]); reflexivity. }
  rewrite candidates_eq. cbv beta zeta.
  rewrite pick_single. unfold trp_set_inter, trp_set. now rewrite filter_dedup.
Qed.

Corollary tr_compressed_part_name_set (names : list str) (base : str) :
  tr_compressed_part_name (trp_set names) base = compressed_part_name names base.
Proof.
  rewrite tr_compressed_part_name_eq. unfold compressed_part_name, trp_set.
  rewrite (filter_ext (fun c => mem c (dedup names)) (fun c => mem c names)) by (intros c; apply mem_dedup).
  reflexivity.
Qed.

(** the state of a DebFile object: (members of the ArFile base class, __parts, __pkgname, __version) *)
Definition stT (P : Type) : Type := (option (list (str * P)) * trp_parts P * option str * str)%type.

(** [__parts] as __init__ leaves it *)
Definition deb_parts {P} (d : debfile P) : trp_parts P := [(CTRL_PART, d_control d); (DATA_PART, d_data d)].

(** what a caller sees of the outcome of __init__: the exception kind, or the object read through its properties *)
Definition init_view {P} (r : mres unit (stT P)) : result (debfile P) :=
  match r with
  | MOk _ (_, parts, _, v) =>
      do c <- trp_parts_get P parts CTRL_PART;
      do d <- trp_parts_get P parts DATA_PART;
      Ok (mkDeb c d v)
  | MErr e _ => Err e
  end.

Lemma ctrl_data_distinct : str_eqb CTRL_PART DATA_PART = false.
Proof. reflexivity. Qed.

Lemma deb_parts_get_ctrl {P} (d : debfile P) : trp_parts_get P (deb_parts d) CTRL_PART = Ok (d_control d).
Proof. unfold trp_parts_get, deb_parts. cbn [tr_dict_get]. now rewrite str_eqb_refl. Qed.

Lemma deb_parts_get_data {P} (d : debfile P) : trp_parts_get P (deb_parts d) DATA_PART = Ok (d_data d).
Proof.
  unfold trp_parts_get, deb_parts. cbn [tr_dict_get]. now rewrite ctrl_data_distinct, str_eqb_refl.
Qed.

Theorem tr_debfile_init_full P (p_bytes : P -> str) (ms : list (str * P)) s0 pa0 pk0 v0 filename mode fileobj :
  match deb_init P p_bytes ms with
  | Ok d => tr_debfile_init P p_bytes ms s0 pa0 pk0 v0 filename mode fileobj
            = MOk tt (Some ms, deb_parts d, None, d_version d)
  | Err e => exists st, tr_debfile_init P p_bytes ms s0 pa0 pk0 v0 filename mode fileobj = MErr e st
  end.
Proof.
  unfold tr_debfile_init, trp_arfile_init, deb_init, trp_getmember. cbn [trp_getnames].
  unfold trp_set_contains. rewrite mem_dedup.
  destruct (mem INFO_PART (map fst ms)); cbn [negb]; [|eexists; reflexivity].
  rewrite !tr_compressed_part_name_set.
  destruct (compressed_part_name (map fst ms) CTRL_PART) as [cn|e]; cbn [bind]; [|eexists; reflexivity].
  destruct (ar_getmember ms cn) as [cp|e]; cbn [bind]; [|eexists; reflexivity].
  destruct (compressed_part_name (map fst ms) DATA_PART) as [dn|e]; cbn [bind]; [|eexists; reflexivity].
  destruct (ar_getmember ms dn) as [dp|e]; cbn [bind]; [|eexists; reflexivity].
  destruct (ar_getmember ms INFO_PART) as [ip|e]; cbn [bind]; [|eexists; reflexivity].
  unfold trp_parts_set, trp_parts_empty, trp_DebControl, trp_DebData, trp_member_close, trp_member_read,
    trp_bytes_strip, deb_parts.
  cbn [tr_dict_set d_control d_data d_version snd]. now rewrite ctrl_data_distinct.
Qed.

Theorem tr_debfile_init_eq P (p_bytes : P -> str) (ms : list (str * P)) s0 pa0 pk0 v0 filename mode fileobj :
  init_view (tr_debfile_init P p_bytes ms s0 pa0 pk0 v0 filename mode fileobj) = deb_init P p_bytes ms.
Proof.
  pose proof (tr_debfile_init_full P p_bytes ms s0 pa0 pk0 v0 filename mode fileobj) as H.
  destruct (deb_init P p_bytes ms) as [d|e].
  - rewrite H. unfold init_view. rewrite deb_parts_get_ctrl, deb_parts_get_data. cbn [bind]. now destruct d.
  - destruct H as [st ->]. reflexivity.
Qed.

(** * group 2: DebPart *)
Theorem tr_normalize_member_eq f : tr_normalize_member f = Ok (normalize_member f).
Proof.
  unfold tr_normalize_member, normalize_member, trp_startswith.
  change [46; 47]%N with [DOT; SLASH]. change [47]%N with [SLASH].
  change 2 with (Z.of_nat 2). change 1 with (Z.of_nat 1). rewrite !tr_slice_skipn.
  destruct (startswith [DOT; SLASH] f); [reflexivity|].
  destruct (startswith [SLASH] f); reflexivity.
Qed.

Theorem tr_has_file_eq P (p_open : P -> option tarview) (pt : part P) f :
  tr_has_file P p_open pt f = part_has_file P p_open pt f.
Proof.
  unfold tr_has_file, part_has_file, trp_tgz. rewrite tr_normalize_member_eq. cbn [bind].
  destruct (tgz P p_open pt); reflexivity.
Qed.

(** get_file: the file object is the bytes of the member ([FBytes]); with an encoding, the same bytes wrapped *)
Theorem tr_get_file_eq P (p_open : P -> option tarview) (pt : part P) f encoding errors :
  tr_get_file P p_open pt f encoding errors
  = do b <- part_get_content P p_open pt f;
    Ok (match encoding with None => FBytes b | Some enc => FText b enc errors end).
Proof.
  unfold tr_get_file, part_get_content, trp_tgz, get_file, trp_extractfile. rewrite tr_normalize_member_eq.
  cbn [bind]. destruct (tgz P p_open pt) as [v|e]; cbn [bind]; [|reflexivity].
  change ([46; 47]%N ++ normalize_member f) with (dot_slash (normalize_member f)).
  destruct (tar_getmember v (dot_slash (normalize_member f))) as [[b|]|]; cbn [bind]; try reflexivity.
  destruct encoding; reflexivity.
Qed.

Theorem tr_get_content_eq P (p_open : P -> option tarview) (pt : part P) f errors :
  tr_get_content P p_open pt f None errors = do b <- part_get_content P p_open pt f; Ok (Some b).
Proof.
  unfold tr_get_content. rewrite tr_get_file_eq.
  destruct (part_get_content P p_open pt f); reflexivity.
Qed.

Theorem tr_get_content1_eq P (p_open : P -> option tarview) (pt : part P) f :
  tr_get_content1 P p_open pt f = do b <- part_get_content P p_open pt f; Ok (Some b).
Proof.
  unfold tr_get_content1. cbv zeta. rewrite tr_get_file_eq.
  destruct (part_get_content P p_open pt f); reflexivity.
Qed.

Theorem tr_contains_eq P (p_open : P -> option tarview) (pt : part P) f :
  tr_contains P p_open pt f = part_has_file P p_open pt f.
Proof. unfold tr_contains. rewrite tr_has_file_eq. destruct (part_has_file P p_open pt f); reflexivity. Qed.

Theorem tr_getitem_eq P (p_open : P -> option tarview) (pt : part P) f :
  tr_getitem P p_open pt f = do b <- part_get_content P p_open pt f; Ok (Some b).
Proof.
  unfold tr_getitem. rewrite tr_get_content1_eq. destruct (part_get_content P p_open pt f); reflexivity.
Qed.

(** * group 3: DebControl *)
Lemma tr_scripts_loop_eq P (p_open : P -> option tarview) (pt : part P) : forall names acc,
  tr_scripts_loop1 names P p_open pt acc = scripts_loop P p_open pt names acc.
Proof.
  induction names as [|s r IH]; intros acc; [reflexivity|].
  cbn [tr_scripts_loop1 scripts_loop]. rewrite tr_has_file_eq.
  destruct (part_has_file P p_open pt s) as [[|]|e]; cbn [bind]; [|apply IH|reflexivity].
  rewrite tr_get_content1_eq. destruct (part_get_content P p_open pt s) as [b|e]; cbn [bind]; [|reflexivity].
  rewrite tr_dict_set_model. apply IH.
Qed.

Theorem tr_scripts_eq P (p_open : P -> option tarview) (pt : part P) :
  tr_scripts P p_open pt = scripts P p_open pt.
Proof. unfold tr_scripts, scripts. apply tr_scripts_loop_eq. Qed.

Theorem tr_debcontrol_eq P (p_open : P -> option tarview) (pt : part P) :
  tr_debcontrol P p_open pt = do b <- control_bytes P p_open pt; Ok (Deb822_of (Some b)).
Proof.
  unfold tr_debcontrol, control_bytes. rewrite tr_get_content1_eq.
  destruct (part_get_content P p_open pt CONTROL_FILE); reflexivity.
Qed.

Lemma tr_md5sums_loop_eq P (p_open : P -> option tarview) (pt : part P) encoding errors fo : forall ls acc,
  tr_md5sums_loop1 ls P p_open true pt encoding errors fo acc [13; 10]%N = md5_lines ls acc.
Proof.
  induction ls as [|l r IH]; intros acc; [reflexivity|].
  cbn [tr_md5sums_loop1 md5_lines]. unfold trp_split_none_1, trp_isinstance_bytes, trp_decode.
  rewrite rstrip_crlf.
  destruct (split_none_1 (rstrip_by is_crlf l)) as [|md5 [|fname [|x y]]]; try reflexivity.
  destruct (utf8_decode md5) as [m|]; cbn [bind]; [|reflexivity].
  rewrite tr_dict_set_model. apply IH.
Qed.

(** md5sums() / md5sums(encoding=None): the binary file object, whose lines are bytes ([is_bytes = true]) *)
Theorem tr_md5sums_eq P (p_open : P -> option tarview) (pt : part P) errors :
  tr_md5sums P p_open true pt None errors = md5sums P p_open pt.
Proof.
  unfold tr_md5sums, md5sums. rewrite tr_has_file_eq.
  destruct (part_has_file P p_open pt MD5_FILE) as [[|]|e]; cbn [bind negb]; try reflexivity.
  rewrite tr_get_file_eq. destruct (part_get_content P p_open pt MD5_FILE) as [b|e]; cbn [bind]; [|reflexivity].
  apply tr_md5sums_loop_eq.
Qed.

(** * the properties and delegating methods of DebFile, on the object that __init__ leaves *)
Theorem tr_debfile_version_eq v : tr_debfile_version v = Ok v.
Proof. reflexivity. Qed.

Theorem tr_debfile_control_eq {P} (d : debfile P) : tr_debfile_control P (deb_parts d) = Ok (d_control d).
Proof. unfold tr_debfile_control. now rewrite deb_parts_get_ctrl. Qed.

Theorem tr_debfile_data_eq {P} (d : debfile P) : tr_debfile_data P (deb_parts d) = Ok (d_data d).
Proof. unfold tr_debfile_data. now rewrite deb_parts_get_data. Qed.

Theorem tr_debfile_debcontrol_eq P (p_open : P -> option tarview) (d : debfile P) :
  tr_debfile_debcontrol P p_open (deb_parts d)
  = do b <- control_bytes P p_open (d_control d); Ok (Deb822_of (Some b)).
Proof.
  unfold tr_debfile_debcontrol. rewrite tr_debfile_control_eq. cbn [bind]. rewrite tr_debcontrol_eq.
  destruct (control_bytes P p_open (d_control d)); reflexivity.
Qed.

Theorem tr_debfile_scripts_eq P (p_open : P -> option tarview) (d : debfile P) :
  tr_debfile_scripts P p_open (deb_parts d) = scripts P p_open (d_control d).
Proof.
  unfold tr_debfile_scripts. rewrite tr_debfile_control_eq. cbn [bind]. rewrite tr_scripts_eq.
  destruct (scripts P p_open (d_control d)); reflexivity.
Qed.

Theorem tr_debfile_md5sums_eq P (p_open : P -> option tarview) (d : debfile P) errors :
  tr_debfile_md5sums P p_open true (deb_parts d) None errors = md5sums P p_open (d_control d).
Proof.
  unfold tr_debfile_md5sums. rewrite tr_debfile_control_eq. cbn [bind]. rewrite tr_md5sums_eq.
  destruct (md5sums P p_open (d_control d)); reflexivity.
Qed.
