(** Case format evaluated by the correspondence check of C07.
    [agree]: the model (Deb/Model.v), run on the member list the harness packed,
             reproduces what debian.debfile.DebFile did;
    [holds]: the property itself, judged on what the implementation did, against
             Deb/Spec.v (never against the model).

    Cases arrive in the compact literal form of Deb822/Packed.v (a tree of strings
    packed into primitive integers; a literal that does not decode fails [agree]). *)
From Coq Require Import Uint63 String.
From Verif Require Import Lib.Base Lib.Dec Lib.PyStr Gen.DebConsts Deb822.Packed Deb.Model Deb.Spec Deb.Payload.

Record expect := mkExp {
  e_fields : pairs;
  e_scripts : pairs;
  e_md5 : pairs;
  e_files : pairs;
}.

(** per queried name: (has_file, get_content) for each of the three spellings *)
Definition qobs := (result bool * result str)%type.

Record obsrec := mkObs {
  o_version : str;                          (* DebFile.version *)
  o_control : result str;                   (* control.get_content('control') *)
  o_fields : result pairs;                  (* list(debcontrol().items()) *)
  o_scripts : result pairs;                 (* scripts(), dict order *)
  o_md5 : result pairs;                     (* md5sums(), dict order *)
  o_cq : list (list qobs);                  (* control.has_file / get_content *)
  o_dq : list (list qobs);                  (* data.has_file / get_content *)
}.

Inductive kase :=
| CDeb (members : list (str * payload))     (* archive order *)
       (exp : option expect)                (* what was packed, for assembled packages *)
       (cqs dqs : list str)                 (* names queried on the control / data part *)
       (obs : result obsrec)                (* Err: DebFile(fileobj=...) raised *)
| CGate (name : str) (obs : result bool).   (* DebPart(member named [name] holding a tar).tgz() *)

(** * reading a case from its tree *)
Definition t_pairs : tree -> option pairs := t_list (t_pair t_str t_str).

Definition t_payload (t : tree) : option payload :=
  match t with
  | Node [Atom [82%N]; b] => option_map PRaw (t_str b)                               (* "R" *)
  | Node [Atom [84%N]; es] => option_map PTar (t_list (t_pair t_str (t_opt t_str)) es) (* "T" *)
  | _ => None
  end.

Definition t_expect (t : tree) : option expect :=
  match t with
  | Node [f; s; m; d] =>
      match t_pairs f, t_pairs s, t_pairs m, t_pairs d with
      | Some f, Some s, Some m, Some d => Some (mkExp f s m d)
      | _, _, _, _ => None
      end
  | _ => None
  end.

Definition t_qs : tree -> option (list (list qobs)) :=
  t_list (t_list (t_pair (t_result t_bool) (t_result t_str))).

Definition t_obsrec (t : tree) : option obsrec :=
  match t with
  | Node [v; c; f; s; m; cq; dq] =>
      match t_str v, t_result t_str c, t_result t_pairs f, t_result t_pairs s, t_result t_pairs m,
            t_qs cq, t_qs dq with
      | Some v, Some c, Some f, Some s, Some m, Some cq, Some dq => Some (mkObs v c f s m cq dq)
      | _, _, _, _, _, _, _ => None
      end
  | _ => None
  end.

Definition t_kase (t : tree) : option kase :=
  match t with
  | Node [Atom [68%N]; ms; e; cqs; dqs; o] =>                                        (* "D" *)
      match t_list (t_pair t_str t_payload) ms, t_opt t_expect e, t_list t_str cqs, t_list t_str dqs,
            t_result t_obsrec o with
      | Some ms, Some e, Some cqs, Some dqs, Some o => Some (CDeb ms e cqs dqs o)
      | _, _, _, _, _ => None
      end
  | Node [Atom [71%N]; n; o] =>                                                      (* "G" *)
      match t_str n, t_result t_bool o with
      | Some n, Some o => Some (CGate n o)
      | _, _ => None
      end
  | _ => None
  end.

(** [Packed.parse_syms] with linear-time reversals ([List.rev] is quadratic, and a
    case may carry a 14 kB file as one atom) *)
Fixpoint parse_syms_fast (l : list N) (cur : list N) (stack : list (list tree)) : option tree :=
  match l with
  | [] => match stack, cur with [[t]], [] => Some t | _, _ => None end
  | c :: l' =>
      if (c =? 1)%N then parse_syms_fast l' [] ([] :: stack)
      else if (c =? 2)%N then
        match stack with
        | top :: next :: rest => parse_syms_fast l' [] ((Node (rev_append top []) :: next) :: rest)
        | _ => None
        end
      else if (c =? 3)%N then
        match stack with
        | top :: rest => parse_syms_fast l' [] ((Atom (unesc (rev_append cur [])) :: top) :: rest)
        | [] => None
        end
      else parse_syms_fast l' (c :: cur) stack
  end.

Definition case := option kase.
Definition pc (xs : list int) : case :=
  match parse_syms_fast (unpack xs) [] [[]] with Some t => t_kase t | None => None end.

Definition pairs_eqb : pairs -> pairs -> bool := list_eqb (pair_eqb str_eqb str_eqb).

Definition q_eqb (a b : qobs) : bool :=
  result_eqb Bool.eqb (fst a) (fst b) && result_eqb str_eqb (snd a) (snd b).

(** * agree *)
Definition run_queries (pt : part payload) (qs : list str) : list (list qobs) :=
  map (fun n => map (fun s => (part_has_file _ pl_open pt s, part_get_content _ pl_open pt s))
                    (spellings n)) qs.

Definition agree_deb (ms : list (str * payload)) (cqs dqs : list str) (obs : result obsrec) : bool :=
  match deb_init _ pl_bytes ms, obs with
  | Err e, Err e' => err_eqb e e'
  | Ok d, Ok o =>
      let ctl := control_bytes _ pl_open (d_control d) in
      str_eqb (d_version d) (o_version o)
      && result_eqb str_eqb ctl (o_control o)
      && match ctl, o_fields o with          (* Deb822 itself is C02's; only the failure is shared *)
         | Err e, Err e' => err_eqb e e'
         | Err _, Ok _ => false
         | Ok _, _ => true
         end
      && result_eqb pairs_eqb (scripts _ pl_open (d_control d)) (o_scripts o)
      && result_eqb pairs_eqb (md5sums _ pl_open (d_control d)) (o_md5 o)
      && list_eqb (list_eqb q_eqb) (run_queries (d_control d) cqs) (o_cq o)
      && list_eqb (list_eqb q_eqb) (run_queries (d_data d) dqs) (o_dq o)
  | _, _ => false
  end.

Definition agree_k (c : kase) : bool :=
  match c with
  | CDeb members _ cqs dqs obs => agree_deb members cqs dqs obs
  | CGate name obs =>
      result_eqb Bool.eqb (if ext_gate name then Ok true else Err DebError) obs
  end.

Definition agree (c : case) : bool :=
  match c with Some k => agree_k k | None => false end.

(** * holds *)
Definition all_same (l : list qobs) : bool :=
  match l with
  | [] => true
  | x :: r => forallb (q_eqb x) r
  end.

(** the three spellings answer alike, for every queried plain name *)
Definition spellings_agree (qs : list str) (os : list (list qobs)) : bool :=
  (length qs =? length os)%nat
  && forallb (fun qo => negb (plain_name (fst qo))
                        || ((length (snd qo) =? 3)%nat && all_same (snd qo)))
             (combine qs os).

(** every packed file was queried, and each spelling found it with its content *)
Definition files_returned (files : pairs) (qs : list str) (os : list (list qobs)) : bool :=
  nodup_keys files
  && (length qs =? length os)%nat
  && forallb (fun f => smem (fst f) qs) files
  && forallb (fun qo =>
                match lookup files (fst qo) with
                | Some b => (length (snd qo) =? 3)%nat
                            && forallb (fun o => q_eqb o (Ok true, Ok b)) (snd qo)
                | None => true
                end)
             (combine qs os).

Definition returned_packed (e : expect) (dqs : list str) (o : obsrec) : bool :=
  match o_fields o, o_scripts o, o_md5 o with
  | Ok f, Ok s, Ok m =>
      same_map f (e_fields e)
      && same_map s (e_scripts e)
      && same_map m (e_md5 e)
      && files_returned (e_files e) dqs (o_dq o)
  | _, _, _ => false
  end.

Definition holds_k (c : kase) : bool :=
  match c with
  | CDeb members exp cqs dqs obs =>
      if spec_accept (map fst members) then
        match obs with
        | Err _ => false
        | Ok o =>
            spellings_agree cqs (o_cq o)
            && spellings_agree dqs (o_dq o)
            && match exp with
               | Some e => returned_packed e dqs o
               | None => true
               end
        end
      else
        match obs with
        | Err DebError => true                (* the package-format error, nothing else *)
        | _ => false
        end
  | CGate name obs =>
      (* every part name the property allows passes the gate *)
      if smem name (SPEC_CTRL ++ SPEC_DATA) then result_eqb Bool.eqb obs (Ok true) else true
  end.

Definition holds (c : case) : bool :=
  match c with Some k => holds_k k | None => true end.

Definition bad_agree (cs : list case) : list N := bad agree cs.
Definition bad_holds (cs : list case) : list N := bad holds cs.
