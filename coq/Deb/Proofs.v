(** C07 — proofs about Deb/Model.v (the same functions Deb/Check.v runs) and
    Deb/Spec.v (the reference [holds] uses). *)
From Coq Require Import String Permutation.
From Verif Require Import Lib.Base Lib.Dec Lib.PyStr Gen.DebConsts Deb.Model Deb.Spec.

(** * Membership, dedup *)
Lemma mem_In n l : mem n l = true <-> In n l.
Proof.
  unfold mem. rewrite existsb_exists. split.
  - intros [x [Hx E]]. apply str_eqb_eq in E. now subst.
  - intros H. exists n. split; [assumption|apply str_eqb_refl].
Qed.

Lemma mem_false n l : mem n l = false <-> ~ In n l.
Proof.
  split.
  - intros E H. apply mem_In in H. congruence.
  - intros H. destruct (mem n l) eqn:E; [|reflexivity]. apply mem_In in E. contradiction.
Qed.

Lemma smem_mem n l : smem n l = mem n l.
Proof. reflexivity. Qed.

Lemma sdedup_dedup l : sdedup l = dedup l.
Proof. induction l as [|x r IH]; simpl; [reflexivity|]. rewrite smem_mem, IH. reflexivity. Qed.

Lemma dedup_In x l : In x (dedup l) <-> In x l.
Proof.
  induction l as [|y r IH]; simpl; [tauto|].
  destruct (mem y r) eqn:E.
  - rewrite IH. split; [tauto|]. intros [->|H]; [now apply mem_In|assumption].
  - simpl. rewrite IH. tauto.
Qed.

Lemma dedup_NoDup l : NoDup (dedup l).
Proof.
  induction l as [|y r IH]; simpl; [constructor|].
  destruct (mem y r) eqn:E; [assumption|].
  constructor; [|assumption]. rewrite dedup_In. now apply mem_false.
Qed.

Lemma str_eq_dec (a b : str) : {a = b} + {a <> b}.
Proof. destruct (str_eqb a b) eqn:E; [left; now apply str_eqb_eq|right; intros H; apply str_eqb_eq in H; congruence]. Qed.

Lemma str_eqb_neq a b : str_eqb a b = false <-> a <> b.
Proof.
  split.
  - intros E H. apply str_eqb_eq in H. congruence.
  - intros H. destruct (str_eqb a b) eqn:E; [|reflexivity]. apply str_eqb_eq in E. contradiction.
Qed.

(** two duplicate-free lists with the same elements have the same length *)
Lemma NoDup_same_length (l1 l2 : list str) :
  NoDup l1 -> NoDup l2 -> (forall x, In x l1 <-> In x l2) -> length l1 = length l2.
Proof.
  intros H1 H2 H.
  apply Nat.le_antisymm; apply NoDup_incl_length; try assumption; intros x Hx; now apply H.
Qed.

(** * Part discovery *)

(** [c] is the one candidate of [base] among [names] *)
Definition unique_candidate (names : list str) (base c : str) : Prop :=
  In c (candidates base) /\ In c names
  /\ forall c', In c' (candidates base) -> In c' names -> c' = c.

Definition found (names : list str) (base : str) : list str :=
  dedup (filter (fun c => mem c names) (candidates base)).

Lemma found_In names base x :
  In x (found names base) <-> In x (candidates base) /\ In x names.
Proof. unfold found. rewrite dedup_In, filter_In, mem_In. tauto. Qed.

Theorem cpn_ok_iff names base c :
  compressed_part_name names base = Ok c <-> unique_candidate names base c.
Proof.
  unfold compressed_part_name, unique_candidate. fold (found names base).
  pose proof (found_In names base) as HI. pose proof (dedup_NoDup (filter (fun c => mem c names) (candidates base))) as ND.
  fold (found names base) in ND.
  destruct (found names base) as [|p [|q r]].
  - split; [discriminate|]. intros [H1 [H2 _]]. exfalso. apply (proj2 (HI c)). tauto.
  - split.
    + intros [= <-]. destruct (proj1 (HI p)) as [A B]; [now left|]. repeat split; try assumption.
      intros c' Hc Hn. destruct (proj2 (HI c') (conj Hc Hn)) as [E|[]]. congruence.
    + intros [H1 [H2 _]]. destruct (proj2 (HI c) (conj H1 H2)) as [E|[]]. now subst.
  - split; [discriminate|]. intros [H1 [H2 H3]]. exfalso.
    destruct (proj1 (HI p)) as [A B]; [now left|].
    destruct (proj1 (HI q)) as [A' B']; [right; now left|].
    assert (p = q) by (rewrite (H3 p A B), (H3 q A' B'); reflexivity).
    subst. inversion ND as [|? ? Hn _]. apply Hn. now left.
Qed.

Theorem cpn_err names base e :
  compressed_part_name names base = Err e -> e = DebError.
Proof.
  unfold compressed_part_name.
  destruct (dedup _) as [|p [|q r]]; intros H; try discriminate; now inversion H.
Qed.

Lemma cpn_ok_length names base :
  is_ok (compressed_part_name names base) = (length (found names base) =? 1)%nat.
Proof.
  unfold compressed_part_name. fold (found names base).
  destruct (found names base) as [|p [|q r]]; reflexivity.
Qed.

(** the decision on the names, completely *)
Theorem deb_open_ok_iff names c d :
  deb_open names = Ok (c, d) <->
  In INFO_PART names /\ unique_candidate names CTRL_PART c /\ unique_candidate names DATA_PART d.
Proof.
  unfold deb_open. destruct (mem INFO_PART names) eqn:Ei; simpl.
  - rewrite <- !cpn_ok_iff. apply mem_In in Ei.
    destruct (compressed_part_name names CTRL_PART) as [c0|e0]; simpl.
    + destruct (compressed_part_name names DATA_PART) as [d0|e1]; simpl.
      * split; [intros [= <- <-]; auto|]. intros [_ [[= <-] [= <-]]]. reflexivity.
      * split; [discriminate|]. intros [_ [_ H]]. discriminate.
    + split; [discriminate|]. intros [_ [H _]]. discriminate.
  - split; [discriminate|]. intros [H _]. apply mem_In in H. congruence.
Qed.

Theorem deb_open_err names e : deb_open names = Err e -> e = DebError.
Proof.
  unfold deb_open. destruct (mem INFO_PART names); simpl; [|now intros [= <-]].
  destruct (compressed_part_name names CTRL_PART) as [c0|e0] eqn:E0; simpl.
  - destruct (compressed_part_name names DATA_PART) as [d0|e1] eqn:E1; simpl; [discriminate|].
    intros [= <-]. eapply cpn_err; eassumption.
  - intros [= <-]. eapply cpn_err; eassumption.
Qed.

(** ** Against the reference: the generated constants name the parts the property names *)
Definition same_set (a b : list str) : bool :=
  forallb (fun x => mem x b) a && forallb (fun x => mem x a) b.

Lemma same_set_In a b : same_set a b = true -> forall x, In x a <-> In x b.
Proof.
  unfold same_set. rewrite andb_true_iff, !forallb_forall. intros [H1 H2] x.
  split; intros H; apply mem_In; auto.
Qed.

Definition consts_match_spec : bool :=
  same_set (candidates CTRL_PART) SPEC_CTRL
  && same_set (candidates DATA_PART) SPEC_DATA
  && str_eqb INFO_PART SPEC_INFO.

(** re-checked whenever Gen/DebConsts.v is regenerated *)
Lemma consts_match_spec_ok : consts_match_spec = true.
Proof. vm_compute. reflexivity. Qed.

Lemma found_length_spec names base set :
  same_set (candidates base) set = true ->
  length (found names base) = distinct_in set names.
Proof.
  intros HS. unfold distinct_in. rewrite sdedup_dedup.
  apply NoDup_same_length; try apply dedup_NoDup.
  intros x. rewrite found_In, dedup_In, filter_In, smem_mem, mem_In.
  rewrite (same_set_In _ _ HS x). tauto.
Qed.

Theorem deb_accept_bool names : is_ok (deb_open names) = spec_accept names.
Proof.
  pose proof consts_match_spec_ok as HC. unfold consts_match_spec in HC.
  apply andb_true_iff in HC. destruct HC as [HC Hi]. apply andb_true_iff in HC. destruct HC as [Hc Hd].
  apply str_eqb_eq in Hi.
  unfold spec_accept, deb_open.
  replace (smem SPEC_INFO names) with (mem INFO_PART names) by (rewrite Hi; reflexivity).
  rewrite <- (found_length_spec names CTRL_PART SPEC_CTRL Hc).
  rewrite <- (found_length_spec names DATA_PART SPEC_DATA Hd).
  rewrite <- !cpn_ok_length.
  destruct (mem INFO_PART names); simpl; [|reflexivity].
  destruct (compressed_part_name names CTRL_PART); simpl; [|reflexivity].
  destruct (compressed_part_name names DATA_PART); reflexivity.
Qed.

(** * ar_getmember *)
Section Members.
Context {P : Type}.

Lemma ar_getmember_In (ms : list (str * P)) n :
  In n (map fst ms) -> exists p, ar_getmember ms n = Ok p.
Proof.
  induction ms as [|[k p] r IH]; simpl; [tauto|].
  intros [E|H].
  - destruct (ar_getmember r n) as [q|e]; [now exists q|].
    subst. rewrite str_eqb_refl. now exists p.
  - destruct (IH H) as [q ->]. now exists q.
Qed.

Lemma ar_getmember_err (ms : list (str * P)) n e :
  ar_getmember ms n = Err e -> e = KeyError /\ ~ In n (map fst ms).
Proof.
  revert e. induction ms as [|[k p] r IH]; intros e; simpl.
  - intros [= <-]. tauto.
  - destruct (ar_getmember r n) as [q|e'] eqn:E; [discriminate|].
    destruct (str_eqb k n) eqn:Ek; [discriminate|]. intros [= <-].
    destruct (IH e' eq_refl) as [_ Hn]. split; [reflexivity|].
    intros [H|H]; [|contradiction]. apply str_eqb_neq in Ek. contradiction.
Qed.

(** the LAST member of that name *)
Lemma ar_getmember_last (ms : list (str * P)) n p :
  ar_getmember ms n = Ok p <->
  exists pre post, ms = pre ++ (n, p) :: post /\ ~ In n (map fst post).
Proof.
  revert p. induction ms as [|[k q] r IH]; intros p; simpl.
  - split; [discriminate|]. intros [pre [post [H _]]]. destruct pre; discriminate.
  - destruct (ar_getmember r n) as [q'|e] eqn:E.
    + split.
      * intros [= <-]. destruct (proj1 (IH q') eq_refl) as [pre [post [-> Hn]]].
        exists ((k, q) :: pre), post. split; [reflexivity|assumption].
      * intros [pre [post [H Hn]]]. destruct pre as [|x pre]; simpl in H.
        -- inversion H; subst. exfalso.
           assert (In n (map fst post)) as Hin.
           { destruct (str_eq_dec n n) as [_|]; [|congruence].
             clear -E. revert q' E. induction post as [|[k' p'] post IH]; simpl; intros q' E; [discriminate|].
             destruct (ar_getmember post n) as [q''|e'] eqn:E'.
             - right. eapply IH. reflexivity.
             - destruct (str_eqb k' n) eqn:Ek; [|discriminate]. left. now apply str_eqb_eq in Ek. }
           contradiction.
        -- inversion H; subst. apply (proj2 (IH p)). now exists pre, post.
    + destruct (ar_getmember_err _ _ _ E) as [_ Hnot].
      destruct (str_eqb k n) eqn:Ek.
      * apply str_eqb_eq in Ek. subst k. split.
        -- intros [= <-]. exists [], r. split; [reflexivity|assumption].
        -- intros [pre [post [H Hn]]]. destruct pre as [|x pre]; simpl in H.
           ++ inversion H. reflexivity.
           ++ inversion H; subst. exfalso. apply Hnot. rewrite map_app. apply in_or_app. right. now left.
      * split; [discriminate|]. intros [pre [post [H Hn]]]. destruct pre as [|x pre]; simpl in H.
        -- inversion H; subst. rewrite str_eqb_refl in Ek. discriminate.
        -- inversion H; subst. exfalso. apply Hnot. rewrite map_app. apply in_or_app. right. now left.
Qed.

End Members.

(** * deb_init: the member look-ups cannot fail *)
Section Init.
Variable P : Type.
Variable p_bytes : P -> str.

Lemma unique_candidate_In names base c : unique_candidate names base c -> In c names.
Proof. intros [_ [H _]]. exact H. Qed.

Theorem deb_init_ok (ms : list (str * P)) c d :
  deb_open (map fst ms) = Ok (c, d) ->
  exists cp dp ip,
    ar_getmember ms c = Ok cp /\ ar_getmember ms d = Ok dp /\ ar_getmember ms INFO_PART = Ok ip
    /\ deb_init P p_bytes ms = Ok (mkDeb (c, cp) (d, dp) (strip_by bytes_isspace (p_bytes ip))).
Proof.
  intros H. pose proof H as H0. apply deb_open_ok_iff in H. destruct H as [Hi [Hc Hd]].
  destruct (ar_getmember_In ms c (unique_candidate_In _ _ _ Hc)) as [cp Ecp].
  destruct (ar_getmember_In ms d (unique_candidate_In _ _ _ Hd)) as [dp Edp].
  destruct (ar_getmember_In ms INFO_PART Hi) as [ip Eip].
  exists cp, dp, ip. repeat split; try assumption.
  unfold deb_init. unfold deb_open in H0.
  destruct (mem INFO_PART (map fst ms)); simpl in *; [|discriminate].
  destruct (compressed_part_name (map fst ms) CTRL_PART) as [c0|]; simpl in *; [|discriminate].
  destruct (compressed_part_name (map fst ms) DATA_PART) as [d0|]; simpl in *; [|discriminate].
  inversion H0; subst. rewrite Ecp. simpl. rewrite Edp. simpl. rewrite Eip. reflexivity.
Qed.

Theorem deb_init_err (ms : list (str * P)) e :
  deb_open (map fst ms) = Err e -> deb_init P p_bytes ms = Err DebError.
Proof.
  intros H. pose proof (deb_open_err _ _ H) as ->.
  unfold deb_init. unfold deb_open in H.
  destruct (mem INFO_PART (map fst ms)); simpl in *; [|reflexivity].
  destruct (compressed_part_name (map fst ms) CTRL_PART) as [c0|e0] eqn:E0; simpl in *.
  - assert (In c0 (map fst ms)) as Hin by (apply cpn_ok_iff in E0; now apply unique_candidate_In in E0).
    destruct (ar_getmember_In ms c0 Hin) as [cp ->]. simpl.
    destruct (compressed_part_name (map fst ms) DATA_PART) as [d0|e1]; simpl in *; [discriminate|].
    now inversion H.
  - now inversion H.
Qed.

(** DebFile(...) succeeds exactly on the member sets the reference accepts, and
    fails with DebError — never KeyError or anything else — on all others *)
Theorem deb_init_accept (ms : list (str * P)) :
  is_ok (deb_init P p_bytes ms) = spec_accept (map fst ms).
Proof.
  rewrite <- deb_accept_bool.
  destruct (deb_open (map fst ms)) as [[c d]|e] eqn:E.
  - destruct (deb_init_ok ms c d E) as [cp [dp [ip [_ [_ [_ ->]]]]]]. reflexivity.
  - now rewrite (deb_init_err ms e E).
Qed.

Theorem deb_init_only_deberror (ms : list (str * P)) e :
  deb_init P p_bytes ms = Err e -> e = DebError.
Proof.
  destruct (deb_open (map fst ms)) as [[c d]|e'] eqn:E.
  - destruct (deb_init_ok ms c d E) as [cp [dp [ip [_ [_ [_ ->]]]]]]. discriminate.
  - rewrite (deb_init_err ms e' E). now intros [= <-].
Qed.
End Init.

(** * Spellings *)
Lemma normalize_dot_slash f : normalize_member (DOT :: SLASH :: f) = f.
Proof. reflexivity. Qed.

Lemma normalize_slash f : normalize_member (SLASH :: f) = f.
Proof. reflexivity. Qed.

Lemma plain_name_spec n :
  plain_name n = negb (startswith [SLASH] n) && negb (startswith [DOT; SLASH] n).
Proof. reflexivity. Qed.

Lemma normalize_plain f : plain_name f = true -> normalize_member f = f.
Proof.
  rewrite plain_name_spec, andb_true_iff, !negb_true_iff. intros [H1 H2].
  unfold normalize_member. now rewrite H2, H1.
Qed.

Lemma spellings_spec n : spellings n = [n; DOT :: SLASH :: n; SLASH :: n].
Proof. reflexivity. Qed.

Theorem normalize_spellings n s :
  plain_name n = true -> In s (spellings n) -> normalize_member s = n.
Proof.
  intros Hp. rewrite spellings_spec. intros [<-|[<-|[<-|[]]]].
  - now apply normalize_plain.
  - apply normalize_dot_slash.
  - apply normalize_slash.
Qed.

Theorem spelling_invariant_view v n s :
  plain_name n = true -> In s (spellings n) ->
  has_file v s = has_file v n /\ get_file v s = get_file v n.
Proof.
  intros Hp Hs. unfold has_file, get_file.
  rewrite (normalize_spellings n s Hp Hs), (normalize_plain n Hp). split; reflexivity.
Qed.

(** deb_accept_iff, in words: DebFile(...) succeeds iff debian-binary is a member
    name, exactly one member name is a control candidate and exactly one is a data
    candidate (two members with the very same name are one name) *)
Theorem deb_init_ok_iff (P : Type) (p_bytes : P -> str) (ms : list (str * P)) :
  is_ok (deb_init P p_bytes ms) = true <->
  exists c d, In INFO_PART (map fst ms)
              /\ unique_candidate (map fst ms) CTRL_PART c
              /\ unique_candidate (map fst ms) DATA_PART d.
Proof.
  split.
  - intros H. destruct (deb_open (map fst ms)) as [[c d]|e] eqn:E.
    + exists c, d. now apply deb_open_ok_iff.
    + rewrite (deb_init_err P p_bytes ms e E) in H. discriminate.
  - intros [c [d H]]. apply deb_open_ok_iff in H.
    destruct (deb_init_ok P p_bytes ms c d H) as [cp [dp [ip [_ [_ [_ ->]]]]]]. reflexivity.
Qed.
