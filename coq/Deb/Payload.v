(** The member payloads of the correspondence cases, and the instance of the model's
    Section variables that Deb/Check.v runs (kept apart from Check.v so that
    Props/C07.v can use the very same instance without loading the primitive-integer
    case decoder). *)
From Verif Require Import Lib.Base Deb.Model.

(** What the harness put into an ar member: raw bytes (debian-binary, junk), or a
    tar archive given by its listing (name as stored, content of a regular file or
    [None] for a directory), written with Python's tarfile and then compressed.
    The compression leaves no trace here: tarfile's 'r:*' does not look at names. *)
Inductive payload :=
| PRaw (b : str)
| PTar (v : tarview).

(** * the model's instance: payloads as the harness describes them *)
(** [read()] of a member; a tar member's bytes are not written into the case (the
    harness never makes debian-binary a tar archive) *)
Definition pl_bytes (p : payload) : str := match p with PRaw b => b | PTar _ => [] end.
(** tarfile.open on raw junk fails (the harness's raw payloads are never tar archives) *)
Definition pl_open (p : payload) : option tarview := match p with PRaw _ => None | PTar v => Some v end.

