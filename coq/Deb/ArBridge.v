(** C07/C06 bridge (not imported by Props/C07.v, so that C07 does not depend on
    C06's files): the member look-up of Deb/Model.v is ArFile.getmember as C06
    models it (Ar/Model.v: a dict from name to the index of the member, filled in
    archive order). *)
From Verif Require Import Lib.Base Lib.PyStr Ar.Model Deb.Model Deb.Proofs.

Definition as_parts (ms : list member) : list (str * member) := map (fun m => (m_name m, m)) ms.

Fixpoint last_idx (n : str) (ms : list member) : option nat :=
  match ms with
  | [] => None
  | m :: r =>
      match last_idx n r with
      | Some j => Some (S j)
      | None => if str_eqb (m_name m) n then Some O else None
      end
  end.

Lemma dict_get_set_same {V} (dct : list (str * V)) k v :
  dict_get (Ar.Model.dict_set dct k v) k = Ok v.
Proof.
  induction dct as [|[k' v'] r IH]; simpl.
  - now rewrite str_eqb_refl.
  - destruct (str_eqb k' k) eqn:E; simpl; rewrite E; [reflexivity|exact IH].
Qed.

Lemma dict_get_set_other {V} (dct : list (str * V)) k v n :
  k <> n -> dict_get (Ar.Model.dict_set dct k v) n = dict_get dct n.
Proof.
  intros Hne. induction dct as [|[k' v'] r IH]; simpl.
  - apply str_eqb_neq in Hne. now rewrite Hne.
  - destruct (str_eqb k' k) eqn:E; simpl.
    + apply str_eqb_eq in E. subst k'. apply str_eqb_neq in Hne. now rewrite Hne.
    + destruct (str_eqb k' n); [reflexivity|exact IH].
Qed.

Lemma dict_fold_get : forall ms dct i0 n,
  dict_get (fst (fold_left (fun '(dct, i) m => (Ar.Model.dict_set dct (m_name m) i, S i)) ms (dct, i0))) n
  = match last_idx n ms with Some j => Ok (i0 + j) | None => dict_get dct n end.
Proof.
  induction ms as [|m ms IH]; intros dct i0 n; [reflexivity|].
  cbn [fold_left last_idx]. rewrite IH.
  destruct (last_idx n ms) as [j|].
  - f_equal. lia.
  - destruct (str_eqb (m_name m) n) eqn:E.
    + apply str_eqb_eq in E. subst n. rewrite dict_get_set_same. f_equal. lia.
    + apply str_eqb_neq in E. now rewrite dict_get_set_other.
Qed.

Lemma last_idx_nth n ms j :
  last_idx n ms = Some j -> exists m, nth_error ms j = Some m /\ m_name m = n.
Proof.
  revert j. induction ms as [|m ms IH]; intros j; [discriminate|].
  cbn [last_idx]. destruct (last_idx n ms) as [j'|].
  - intros [= <-]. cbn [nth_error]. now apply IH.
  - destruct (str_eqb (m_name m) n) eqn:E; [|discriminate].
    intros [= <-]. exists m. split; [reflexivity|now apply str_eqb_eq].
Qed.

Lemma ar_getmember_last_idx ms n :
  ar_getmember (as_parts ms) n
  = match last_idx n ms with
    | Some j => match nth_error ms j with Some m => Ok m | None => Err KeyError end
    | None => Err KeyError
    end.
Proof.
  induction ms as [|m ms IH]; [reflexivity|].
  cbn [as_parts map ar_getmember last_idx]. fold (as_parts ms). rewrite IH.
  destruct (last_idx n ms) as [j|] eqn:El.
  - cbn [nth_error]. destruct (last_idx_nth _ _ _ El) as [m' [-> _]]. reflexivity.
  - destruct (str_eqb (m_name m) n); reflexivity.
Qed.

(** ArFile.getmember (C06's model: an index) and the look-up of Deb/Model.v (the
    member itself) find the same member, and fail together with KeyError *)
Theorem getmember_bridge ms n :
  match Ar.Model.getmember ms n with
  | Ok i => exists m, nth_error ms i = Some m /\ m_name m = n
                      /\ ar_getmember (as_parts ms) n = Ok m
  | Err e => e = KeyError /\ ar_getmember (as_parts ms) n = Err KeyError
  end.
Proof.
  unfold Ar.Model.getmember, members_dict. rewrite dict_fold_get, ar_getmember_last_idx.
  destruct (last_idx n ms) as [j|] eqn:El.
  - destruct (last_idx_nth _ _ _ El) as [m [Hm Hn]]. cbn [Nat.add]. exists m. now rewrite Hm.
  - cbn [dict_get]. split; reflexivity.
Qed.

Print Assumptions getmember_bridge.
