(** Primitives that the regenerated code of debian.debfile (Gen/TrDebFile.v) calls.  Each is DEFINED as the leaf of
    Deb/Model.v that stands for the same Python operation, so that the tie (Deb/Tie.v) is by unfolding.  What they
    claim about Python (set / dict / bytes methods, the ArFile base class, tarfile) is covered by the correspondence
    run, not here.

    Payloads are abstract, exactly as in the Section of Deb/Model.v: [P] is what an ar member holds, [p_bytes] what
    ArMember.read() returns for it, [p_open] what tarfile.open(fileobj=member, mode='r:*') makes of it.  These are
    leading (ghost) parameters of the translated functions; the tie theorems quantify over them. *)
From Verif Require Import Lib.Base Lib.PyStr Lib.Tr Gen.DebConsts Deb.Model.

Local Open Scope Z_scope.

(** * A set of str (DebFile.__init__: [set(self.getnames())], [set(candidates)], [.intersection], [in], [not],
      [len], [list]).  Represented by a duplicate-free list; the order of the representation is NOT Python's (a set
      has none that the language promises): [list(parts)] is only ever reached for a one-element set (the two raises
      before it), where every order is the same. *)
Definition trp_strset : Type := list str.
Definition trp_set (l : list str) : trp_strset := dedup l.
(** [a.intersection(b)] *)
Definition trp_set_inter (a b : trp_strset) : trp_strset := filter (fun c => mem c a) b.
Definition trp_set_contains (s : trp_strset) (x : str) : bool := mem x s.
Definition trp_set_bool (s : trp_strset) : bool := negb (tr_is_nil s).
Definition trp_set_len (s : trp_strset) : Z := tr_len s.
Definition trp_set_list (s : trp_strset) : list str := s.

(** * The ArFile base class, over the model's member list.
    The state of the base class is the list of members that ArFile.__init__ collected, in archive order ([None]: it
    has not run — the private attributes do not exist, a use is an AttributeError, rendered OtherError).  What
    ArFile.__init__ makes of (filename, mode, fileobj) is C06's (Ar/Model.v); here it is the ghost [ms] ("the archive
    given holds the members ms"), as in Deb/Model.v, which is entered after indexing.  An ArMember is its name and
    its payload. *)
Definition trp_fileobj : Type := unit.
Definition trp_member (P : Type) : Type := (str * P)%type.
Definition trp_parts (P : Type) : Type := list (str * part P).

Definition trp_arfile_init (P : Type) (p_bytes : P -> str) (ms : list (str * P))
    (s_ms : option (list (str * P))) (s_parts : trp_parts P) (s_pkgname : option str) (s_version : str)
    (self : unit) (filename : option str) (mode : str) (fileobj : option trp_fileobj)
  : mres unit (option (list (str * P)) * trp_parts P * option str * str) :=
  MOk tt (Some ms, s_parts, s_pkgname, s_version).

(** ArFile.getnames(): [[f.name for f in self.__members]] *)
Definition trp_getnames (P : Type) (s : option (list (str * P))) : result (list str) :=
  match s with
  | Some ms => Ok (map fst ms)
  | None => Err OtherError
  end.

(** ArFile.getmember(name): [self.__members_dict[name]] — the model's [ar_getmember] (last member of that name,
    KeyError); the member found under [name] has that name (Deb/ArBridge.v ties this to C06's model) *)
Definition trp_getmember (P : Type) (s : option (list (str * P))) (n : str) : result (trp_member P) :=
  match s with
  | Some ms => do p <- ar_getmember ms n; Ok (n, p)
  | None => Err OtherError
  end.

(** ArMember.read() of a member that has not been read yet (debian-binary is read once, here; the read cursor of a
    member is C06's and is not part of this model), ArMember.close(), bytes.strip() *)
Definition trp_member_read (P : Type) (p_bytes : P -> str) (m : trp_member P) : str := p_bytes (snd m).
Definition trp_member_close (P : Type) (m : trp_member P) : unit * trp_member P := (tt, m).
Definition trp_bytes_strip (s : str) : str := strip_by bytes_isspace s.

(** DebControl(member) / DebData(member): the model's part (name and payload of the member it wraps) *)
Definition trp_DebControl (P : Type) (m : trp_member P) : part P := m.
Definition trp_DebData (P : Type) (m : trp_member P) : part P := m.

(** [self.__parts]: a dict with str keys (insertion order; an existing key keeps its place) *)
Definition trp_parts_empty (P : Type) : trp_parts P := [].
Definition trp_parts_set (P : Type) (d : trp_parts P) (k : str) (v : part P) : unit * trp_parts P :=
  (tt, tr_dict_set d k v).
Definition trp_parts_get (P : Type) (d : trp_parts P) (k : str) : result (part P) :=
  match tr_dict_get d k with
  | Some v => Ok v
  | None => Err KeyError
  end.

(** * DebPart.tgz() and the TarFile object: the assumed tar / codec oracle.
    [trp_tgz] IS the model's [tgz] (extension gate + [p_open]); a TarFile is the listing it opens to. *)
Definition trp_tgz (P : Type) (p_open : P -> option tarview) (pt : part P) : result tarview := tgz P p_open pt.
Definition trp_tar_getnames (v : tarview) : list str := map fst v.

(** the file object that TarFile.extractfile returns: the bytes of the member; wrapped by io.TextIOWrapper it is a
    text file, whose decoding is OUTSIDE the model (the codecs are CPython's): reading one ends the translated
    function with OutOfFuel ("outside what is rendered faithfully"), which no tie theorem admits *)
Inductive trp_fobj :=
| FBytes (b : str)
| FText (b : str) (encoding : str) (errors : option str).

(** TarFile.extractfile(name): KeyError when there is no such member, None for a directory *)
Definition trp_extractfile (v : tarview) (name : str) : result (option trp_fobj) :=
  match tar_getmember v name with
  | None => Err KeyError
  | Some None => Ok None
  | Some (Some b) => Ok (Some (FBytes b))
  end.

Definition trp_text_wrapper (f : trp_fobj) (encoding : str) (errors : option str) : trp_fobj :=
  match f with
  | FBytes b => FText b encoding errors
  | FText b _ _ => FText b encoding errors
  end.

(** a file object is truthy; read() / readlines() of a fresh binary file object; close() *)
Definition trp_fobj_bool (f : trp_fobj) : bool := true.
Definition trp_fobj_read (f : trp_fobj) : result str :=
  match f with
  | FBytes b => Ok b
  | FText _ _ _ => Err OutOfFuel
  end.
Definition trp_fobj_readlines (f : trp_fobj) : result (list str) :=
  match f with
  | FBytes b => Ok (readlines b)
  | FText _ _ _ => Err OutOfFuel
  end.
Definition trp_fobj_close (f : trp_fobj) : unit * trp_fobj := (tt, f).

(** * str / bytes methods *)
Definition trp_startswith (s pre : str) : bool := startswith pre s.
(** [s.rstrip(chars)] *)
Definition trp_rstrip_chars (s chars : str) : str := rstrip_by (in_chars chars) s.
(** [s.split(None, 1)] *)
Definition trp_split_none_1 (s : str) (sep maxsplit : unit) : list str := split_none_1 s.
(** [isinstance(x, bytes)] for a piece of a line that md5_file.readlines() yielded: the ghost [is_bytes] = "the file
    object is binary" (encoding is None) *)
Definition trp_isinstance_bytes (is_bytes : bool) (x : str) (cls : unit) : bool := is_bytes.
(** [b.decode()] (UTF-8, strict): UnicodeDecodeError is a ValueError *)
Definition trp_decode (s : str) : result str :=
  match utf8_decode s with
  | Some m => Ok m
  | None => Err ValueError
  end.

(** * Deb822(<bytes or None>): the object is C02's; here it is the argument it was made from (what
      [Model.control_bytes] names and [agree] compares) *)
Inductive trp_deb822 := Deb822_of (arg : option str).
