(** C07 — proofs about an opened part: spellings, control bytes, scripts(), md5sums(). *)
From Coq Require Import String.
From Verif Require Import Lib.Base Lib.Dec Lib.PyStr Gen.DebConsts Deb.Model Deb.Spec Deb.Proofs.

Lemma str_eqb_sym a b : str_eqb a b = str_eqb b a.
Proof.
  destruct (str_eqb a b) eqn:E1, (str_eqb b a) eqn:E2; try reflexivity.
  - apply str_eqb_eq in E1. subst. rewrite str_eqb_refl in E2. discriminate.
  - apply str_eqb_eq in E2. subst. rewrite str_eqb_refl in E1. discriminate.
Qed.

(** * Looking a name up in a listing *)
Definition is_some {A} (o : option A) : bool := match o with Some _ => true | None => false end.

Lemma tar_find_mem v k : mem k (map fst v) = is_some (tar_find v k).
Proof.
  induction v as [|[k' e] r IH]; simpl; [reflexivity|].
  unfold mem in *. simpl. rewrite IH.
  destruct (tar_find r k); simpl.
  - now rewrite orb_true_r.
  - rewrite orb_false_r. rewrite str_eqb_sym. destruct (str_eqb k' k); reflexivity.
Qed.

(** a name that is already in normal form and does not end in '/' *)
Definition key_ok (f : str) : bool :=
  str_eqb (normalize_member f) f && str_eqb (rstrip_by is_slash (dot_slash f)) (dot_slash f).

Lemma has_file_key v f :
  key_ok f = true -> has_file v f = is_some (tar_find v (dot_slash f)).
Proof.
  unfold key_ok. rewrite andb_true_iff, !str_eqb_eq. intros [H1 _].
  unfold has_file. now rewrite H1, tar_find_mem.
Qed.

Lemma get_file_key v f :
  key_ok f = true ->
  get_file v f = match tar_find v (dot_slash f) with
                 | None => Err KeyError
                 | Some None => Err DebError
                 | Some (Some b) => Ok b
                 end.
Proof.
  unfold key_ok. rewrite andb_true_iff, !str_eqb_eq. intros [H1 H2].
  unfold get_file, tar_getmember. now rewrite H1, H2.
Qed.

(** plain, non-empty, not ending in '/' is enough *)
Lemma rdropwhile_last_keep {A} (p : A -> bool) (l : list A) c :
  p c = false -> rdropwhile p (l ++ [c]) = l ++ [c].
Proof. apply rdropwhile_app_keep. Qed.

Lemma key_ok_plain f c :
  plain_name (f ++ [c]) = true -> is_slash c = false -> key_ok (f ++ [c]) = true.
Proof.
  intros Hp Hc. unfold key_ok. rewrite (normalize_plain _ Hp), str_eqb_refl. simpl.
  apply str_eqb_eq. unfold rstrip_by, dot_slash.
  change (DOT :: SLASH :: f ++ [c]) with ((DOT :: SLASH :: f) ++ [c]).
  now apply rdropwhile_app_keep.
Qed.

(** the three spellings of a plain name ask for the same entry *)
Theorem spellings_lookup v n s :
  plain_name n = true -> key_ok n = true -> In s (spellings n) ->
  has_file v s = is_some (tar_find v (dot_slash n))
  /\ get_file v s = match tar_find v (dot_slash n) with
                    | None => Err KeyError
                    | Some None => Err DebError
                    | Some (Some b) => Ok b
                    end.
Proof.
  intros Hp Hk Hs. destruct (spelling_invariant_view v n s Hp Hs) as [-> ->].
  split; [now apply has_file_key|now apply get_file_key].
Qed.

(** * md5sums lines *)
Lemma readlines_line l rest :
  forallb (fun c => negb (c =? LF)%N) l = true ->
  readlines (l ++ LF :: rest) = (l ++ [LF]) :: readlines rest.
Proof.
  induction l as [|c l IH]; intros H.
  - simpl. reflexivity.
  - cbn [forallb] in H. apply andb_true_iff in H. destruct H as [Hc Hl].
    cbn [app readlines]. apply negb_true_iff in Hc. rewrite Hc. now rewrite (IH Hl).
Qed.

Lemma utf8_decode_ascii s :
  forallb (fun c => (c <? 128)%N) s = true -> utf8_decode s = Some s.
Proof.
  induction s as [|c s IH]; intros H; [reflexivity|].
  cbn [forallb] in H. apply andb_true_iff in H. destruct H as [Hc Hs].
  cbn [utf8_decode]. rewrite Hc. now rewrite (IH Hs).
Qed.

Record md5_entry := mkE {
  m_md5 : str;      (* the digest column *)
  m_sep : str;      (* blanks between the columns *)
  m_name : str;     (* the file name, inner and trailing blanks allowed *)
  m_crs : nat;      (* CR characters before the final LF *)
}.

Definition nonempty {A} (l : list A) : bool := match l with [] => false | _ => true end.

Definition md5_ok (m : str) : bool :=
  nonempty m && forallb (fun c => not_space c && (c <? 128)%N) m.
Definition sep_ok (s : str) : bool :=
  nonempty s && forallb (fun c => bytes_isspace c && negb (c =? LF)%N) s.
Definition name_ok (n : str) : bool :=
  match n with [] => false | c :: _ => not_space c end
  && forallb (fun c => negb (c =? LF)%N) n
  && match rev n with [] => false | c :: _ => negb (is_crlf c) end.
Definition entry_ok (e : md5_entry) : bool :=
  md5_ok (m_md5 e) && sep_ok (m_sep e) && name_ok (m_name e).

Definition body (e : md5_entry) : str := m_md5 e ++ m_sep e ++ m_name e.
Definition render_line (e : md5_entry) : str := body e ++ repeat CR (m_crs e) ++ [LF].
Definition render_md5 (es : list md5_entry) : str := concat (map render_line es).

Definition md5_dict_from (acc : dict) (es : list md5_entry) : dict :=
  fold_left (fun d e => dict_set d (m_name e) (m_md5 e)) es acc.
Definition md5_dict (es : list md5_entry) : dict := md5_dict_from [] es.

Lemma forallb_app_true {A} (p : A -> bool) a b :
  forallb p a = true -> forallb p b = true -> forallb p (a ++ b) = true.
Proof. intros Ha Hb. rewrite forallb_app. now rewrite Ha, Hb. Qed.

Lemma forallb_impl {A} (p q : A -> bool) l :
  (forall x, p x = true -> q x = true) -> forallb p l = true -> forallb q l = true.
Proof. intros H. rewrite !forallb_forall. auto. Qed.

Lemma repeat_forallb {A} (p : A -> bool) x n : p x = true -> forallb p (repeat x n) = true.
Proof. intros H. induction n; simpl; [reflexivity|]. now rewrite H. Qed.

Lemma entry_no_lf e : entry_ok e = true ->
  forallb (fun c => negb (c =? LF)%N) (body e ++ repeat CR (m_crs e)) = true.
Proof.
  unfold entry_ok, md5_ok, sep_ok, name_ok. rewrite !andb_true_iff.
  intros [[[_ Hm] [_ Hs]] [[_ Hn] _]].
  unfold body. repeat apply forallb_app_true.
  - eapply forallb_impl; [|exact Hm]. intros x. rewrite andb_true_iff. intros [Hx _].
    unfold not_space in Hx. apply negb_true_iff in Hx. apply negb_true_iff.
    destruct (N.eqb_spec x LF) as [->|]; [discriminate|reflexivity].
  - eapply forallb_impl; [|exact Hs]. intros x. rewrite andb_true_iff. tauto.
  - exact Hn.
  - apply repeat_forallb. reflexivity.
Qed.

Lemma readlines_render es rest :
  forallb entry_ok es = true ->
  readlines (render_md5 es ++ rest) = map render_line es ++ readlines rest.
Proof.
  induction es as [|e es IH]; intros H; [reflexivity|].
  cbn [forallb] in H. apply andb_true_iff in H. destruct H as [He Hes].
  unfold render_md5. cbn [map concat]. fold (render_md5 es).
  unfold render_line at 1. rewrite !app_assoc_reverse.
  change ((body e ++ repeat CR (m_crs e) ++ [LF] ++ render_md5 es ++ rest))
    with (body e ++ repeat CR (m_crs e) ++ LF :: (render_md5 es ++ rest)).
  rewrite app_assoc. rewrite readlines_line by now apply entry_no_lf.
  rewrite (IH Hes). cbn [app]. unfold render_line. now rewrite !app_assoc_reverse.
Qed.

Lemma rstrip_line e : entry_ok e = true ->
  rstrip_by is_crlf (render_line e) = body e.
Proof.
  unfold entry_ok, name_ok. rewrite !andb_true_iff. intros [_ [_ Hlast]].
  unfold render_line, rstrip_by. rewrite rdropwhile_app_drop.
  2:{ apply forallb_app_true; [apply repeat_forallb; reflexivity|reflexivity]. }
  unfold body.
  destruct (rev (m_name e)) as [|c r] eqn:Er; [discriminate|].
  assert (m_name e = rev r ++ [c]) as ->.
  { rewrite <- (rev_involutive (m_name e)), Er. reflexivity. }
  rewrite !app_assoc. apply rdropwhile_app_keep. now apply negb_true_iff.
Qed.

Lemma split_body e : entry_ok e = true ->
  split_none_1 (body e) = [m_md5 e; m_name e].
Proof.
  unfold entry_ok, md5_ok, sep_ok, name_ok. rewrite !andb_true_iff.
  intros [[[Hmn Hm] [Hsn Hs]] [[Hnh _] _]].
  assert (Hm' : forallb not_space (m_md5 e) = true).
  { eapply forallb_impl; [|exact Hm]. intros x. rewrite andb_true_iff. tauto. }
  assert (Hs' : forallb bytes_isspace (m_sep e) = true).
  { eapply forallb_impl; [|exact Hs]. intros x. rewrite andb_true_iff. tauto. }
  unfold split_none_1, body.
  destruct (m_md5 e) as [|m0 mr] eqn:Em; [discriminate|].
  destruct (m_sep e) as [|s0 sr] eqn:Es; [discriminate|].
  destruct (m_name e) as [|n0 nr] eqn:En; [discriminate|].
  cbn [forallb] in Hm', Hs'. apply andb_true_iff in Hm', Hs'.
  destruct Hm' as [Hm0 Hmr], Hs' as [Hs0 Hsr].
  assert (Hd : dropwhile bytes_isspace ((m0 :: mr) ++ (s0 :: sr) ++ n0 :: nr)
               = (m0 :: mr) ++ (s0 :: sr) ++ n0 :: nr).
  { cbn [app]. apply dropwhile_head_false. unfold not_space in Hm0. now apply negb_true_iff in Hm0. }
  rewrite Hd. cbn [app].
  change (m0 :: mr ++ s0 :: sr ++ n0 :: nr) with ((m0 :: mr) ++ s0 :: (sr ++ n0 :: nr)).
  rewrite span_forall_app.
  2:{ cbn [forallb]. now rewrite Hm0, Hmr. }
  2:{ unfold not_space. now rewrite Hs0. }
  change (s0 :: sr ++ n0 :: nr) with ((s0 :: sr) ++ n0 :: nr).
  rewrite dropwhile_app_all by (cbn [forallb]; now rewrite Hs0, Hsr).
  rewrite dropwhile_head_false.
  2:{ unfold not_space in Hnh. now apply negb_true_iff in Hnh. }
  reflexivity.
Qed.

Theorem md5_lines_render es acc :
  forallb entry_ok es = true ->
  md5_lines (map render_line es) acc = Ok (md5_dict_from acc es).
Proof.
  revert acc. induction es as [|e es IH]; intros acc H; [reflexivity|].
  cbn [forallb] in H. apply andb_true_iff in H. destruct H as [He Hes].
  cbn [map md5_lines]. rewrite (rstrip_line e He), (split_body e He).
  rewrite utf8_decode_ascii.
  2:{ unfold entry_ok, md5_ok in He. rewrite !andb_true_iff in He.
      destruct He as [[[_ Hm] _] _]. eapply forallb_impl; [|exact Hm].
      intros x. rewrite andb_true_iff. tauto. }
  rewrite (IH _ Hes). reflexivity.
Qed.

(** when no file name repeats, the dict is the list itself *)
Lemma dict_set_fresh (d : dict) k v :
  ~ In k (map fst d) -> dict_set d k v = d ++ [(k, v)].
Proof.
  induction d as [|[k' v'] r IH]; simpl; intros H; [reflexivity|].
  destruct (str_eqb k' k) eqn:E.
  - apply str_eqb_eq in E. exfalso. apply H. now left.
  - rewrite IH; [reflexivity|]. intros Hin. apply H. now right.
Qed.

Lemma md5_dict_from_nodup acc es :
  NoDup (map fst acc ++ map m_name es) ->
  md5_dict_from acc es = acc ++ map (fun e => (m_name e, m_md5 e)) es.
Proof.
  revert acc. induction es as [|e es IH]; intros acc H; simpl.
  - now rewrite app_nil_r.
  - unfold md5_dict_from in *. cbn [fold_left].
    rewrite dict_set_fresh.
    2:{ apply NoDup_remove_2 in H. intros Hin. apply H. apply in_or_app. now left. }
    rewrite IH.
    + now rewrite <- app_assoc.
    + rewrite map_app. cbn [map fst]. rewrite <- app_assoc. cbn [app].
      eapply Permutation.Permutation_NoDup; [|exact H].
      apply Permutation.Permutation_app_head. reflexivity.
Qed.

Theorem md5_dict_nodup es :
  NoDup (map m_name es) -> md5_dict es = map (fun e => (m_name e, m_md5 e)) es.
Proof. intros H. unfold md5_dict. now rewrite md5_dict_from_nodup. Qed.

(** * DebPart / DebControl on a part that opens *)
Fixpoint nodupb (l : list str) : bool :=
  match l with [] => true | x :: r => negb (mem x r) && nodupb r end.

Lemma nodupb_NoDup l : nodupb l = true -> NoDup l.
Proof.
  induction l as [|x r IH]; simpl; [constructor|].
  rewrite andb_true_iff, negb_true_iff. intros [H1 H2].
  constructor; [now apply mem_false|auto].
Qed.

(** what the proofs need of the generated constants; re-checked on regeneration *)
Definition consts_keys_ok : bool :=
  key_ok CONTROL_FILE && key_ok MD5_FILE && forallb key_ok MAINT_SCRIPTS && nodupb MAINT_SCRIPTS.

Lemma consts_keys_ok_true : consts_keys_ok = true.
Proof. vm_compute. reflexivity. Qed.

Lemma control_key_ok : key_ok CONTROL_FILE = true.
Proof. pose proof consts_keys_ok_true as H. unfold consts_keys_ok in H. rewrite !andb_true_iff in H. tauto. Qed.
Lemma md5_key_ok : key_ok MD5_FILE = true.
Proof. pose proof consts_keys_ok_true as H. unfold consts_keys_ok in H. rewrite !andb_true_iff in H. tauto. Qed.
Lemma scripts_keys_ok : forallb key_ok MAINT_SCRIPTS = true.
Proof. pose proof consts_keys_ok_true as H. unfold consts_keys_ok in H. rewrite !andb_true_iff in H. tauto. Qed.
Lemma scripts_nodup : NoDup MAINT_SCRIPTS.
Proof. apply nodupb_NoDup. pose proof consts_keys_ok_true as H. unfold consts_keys_ok in H. rewrite !andb_true_iff in H. tauto. Qed.

Definition script_entries (v : tarview) (names : list str) : dict :=
  flat_map (fun s => match tar_find v (dot_slash s) with Some (Some b) => [(s, b)] | _ => [] end) names.
Definition script_is_dir (v : tarview) (s : str) : bool :=
  match tar_find v (dot_slash s) with Some None => true | _ => false end.

Section Part.
Variable P : Type.
Variable p_open : P -> option tarview.

Lemma part_has_file_ok pt v f :
  tgz P p_open pt = Ok v -> part_has_file P p_open pt f = Ok (has_file v f).
Proof. intros H. unfold part_has_file. now rewrite H. Qed.

Lemma part_get_content_ok pt v f :
  tgz P p_open pt = Ok v -> part_get_content P p_open pt f = get_file v f.
Proof. intros H. unfold part_get_content. now rewrite H. Qed.

(** spelling_invariant, on the part *)
Theorem spelling_invariant_part pt n s :
  plain_name n = true -> In s (spellings n) ->
  part_has_file P p_open pt s = part_has_file P p_open pt n
  /\ part_get_content P p_open pt s = part_get_content P p_open pt n.
Proof.
  intros Hp Hs. unfold part_has_file, part_get_content.
  destruct (tgz P p_open pt) as [v|e]; simpl; [|split; reflexivity].
  destruct (spelling_invariant_view v n s Hp Hs) as [-> ->]. split; reflexivity.
Qed.

Theorem control_bytes_ok pt v b :
  tgz P p_open pt = Ok v -> tar_find v (dot_slash CONTROL_FILE) = Some (Some b) ->
  control_bytes P p_open pt = Ok b.
Proof.
  intros Hv Hf. unfold control_bytes. rewrite (part_get_content_ok _ _ _ Hv).
  rewrite (get_file_key _ _ control_key_ok), Hf. reflexivity.
Qed.

(** ** scripts() *)
Lemma scripts_loop_spec pt v names : 
  tgz P p_open pt = Ok v -> forallb key_ok names = true -> NoDup names ->
  forall acc, (forall s, In s names -> ~ In s (map fst acc)) ->
  scripts_loop P p_open pt names acc =
    if existsb (script_is_dir v) names then Err DebError
    else Ok (acc ++ script_entries v names).
Proof.
  intros Hv. induction names as [|s r IH]; intros Hk Hnd acc Hfresh.
  - simpl. now rewrite app_nil_r.
  - cbn [forallb] in Hk. apply andb_true_iff in Hk. destruct Hk as [Hs Hr].
    inversion Hnd as [|? ? Hsr Hnd']; subst.
    cbn [scripts_loop existsb]. rewrite (part_has_file_ok _ _ _ Hv). cbn [bind].
    rewrite (has_file_key _ _ Hs). unfold script_is_dir at 1.
    unfold script_entries. cbn [flat_map]. fold (script_entries v r).
    destruct (tar_find v (dot_slash s)) as [[b|]|] eqn:Ef; cbn [is_some orb].
    + rewrite (part_get_content_ok _ _ _ Hv), (get_file_key _ _ Hs), Ef. cbn [bind].
      rewrite dict_set_fresh by (apply Hfresh; now left).
      rewrite IH; try assumption.
      * destruct (existsb (script_is_dir v) r); [reflexivity|]. now rewrite <- app_assoc.
      * intros s' Hs'. rewrite map_app, in_app_iff. cbn. intros [H|[H|[]]].
        -- revert H. apply Hfresh. now right.
        -- subst. contradiction.
    + rewrite (part_get_content_ok _ _ _ Hv), (get_file_key _ _ Hs), Ef. reflexivity.
    + rewrite IH; try assumption; [reflexivity|]. intros s' Hs'. apply Hfresh. now right.
Qed.

(** scripts_exact: exactly the maintainer scripts present, in MAINT_SCRIPTS order,
    each with its content; DebError iff one of the names is a directory *)
Theorem scripts_exact pt v :
  tgz P p_open pt = Ok v ->
  scripts P p_open pt =
    if existsb (script_is_dir v) MAINT_SCRIPTS then Err DebError
    else Ok (script_entries v MAINT_SCRIPTS).
Proof.
  intros Hv. unfold scripts.
  rewrite (scripts_loop_spec pt v MAINT_SCRIPTS Hv scripts_keys_ok scripts_nodup [])
    by (intros s _ []).
  reflexivity.
Qed.

(** ** md5sums() *)
Theorem md5sums_roundtrip pt v es :
  tgz P p_open pt = Ok v ->
  tar_find v (dot_slash MD5_FILE) = Some (Some (render_md5 es)) ->
  forallb entry_ok es = true ->
  md5sums P p_open pt = Ok (md5_dict es).
Proof.
  intros Hv Hf Hes. unfold md5sums.
  rewrite (part_has_file_ok _ _ _ Hv). cbn [bind].
  rewrite (has_file_key _ _ md5_key_ok), Hf. cbn [is_some negb].
  rewrite (part_get_content_ok _ _ _ Hv), (get_file_key _ _ md5_key_ok), Hf. cbn [bind].
  rewrite <- (app_nil_r (render_md5 es)). rewrite (readlines_render es [] Hes).
  cbn [readlines]. rewrite app_nil_r. now apply md5_lines_render.
Qed.

Theorem md5sums_missing pt v :
  tgz P p_open pt = Ok v -> tar_find v (dot_slash MD5_FILE) = None ->
  md5sums P p_open pt = Err DebError.
Proof.
  intros Hv Hf. unfold md5sums. rewrite (part_has_file_ok _ _ _ Hv). cbn [bind].
  rewrite (has_file_key _ _ md5_key_ok), Hf. reflexivity.
Qed.

(** ** a file of the listing, by any spelling *)
Theorem file_by_any_spelling pt v n b s :
  tgz P p_open pt = Ok v ->
  plain_name n = true -> key_ok n = true ->
  tar_find v (dot_slash n) = Some (Some b) ->
  In s (spellings n) ->
  part_has_file P p_open pt s = Ok true /\ part_get_content P p_open pt s = Ok b.
Proof.
  intros Hv Hp Hk Hf Hs.
  rewrite (part_has_file_ok _ _ _ Hv), (part_get_content_ok _ _ _ Hv).
  destruct (spellings_lookup v n s Hp Hk Hs) as [-> ->]. now rewrite Hf.
Qed.

End Part.
