(** C05 — tie by regeneration for the SETTERS of the format-preserving paragraph.  Only statements; every proof is
    [exact <lemma>] (lemmas in Repro/DocTie.v).

    Gen/TrDocSet.v is REGENERATED from lib/debian/_deb822_repro/parsing.py by harness/py2coq.py on every run (METHOD + HEAP
    MODE): the bodies, as the working tree has them now, of
      _format_comment,
      Deb822ParagraphToStrWrapperMixin.__setitem__,
      Deb822ParagraphElement.set_field_to_simple_value, Deb822ParagraphElement.set_field_from_raw_string,
      Deb822NoDuplicateFieldsParagraphElement.get_kvpair_element / set_kvpair_element
    on C10's state of a Deb822NoDuplicateFieldsParagraphElement (the heap of C09's list nodes, the store of key-value pair
    elements, the dict, the OrderedSet object — Repro/StructTrPrims.v), calling C10's regenerated _ensure_final_newline
    (Gen/TrStruct.v) and C09's regenerated OrderedSet.add (OrderedSet.append is the same function; asserted).

    What is PROVED here (this file lists nothing else):
    1. [_format_comment] computes the model's [format_comment] — the function that [agree] runs for every comment
       argument ([raw_args]) — on ALL strings: same text or the same exception kind.
    2. (partial) [set_field_to_simple_value] on EVERY state: the newline rejection (ValueError, state untouched) and
       otherwise exactly the regenerated [set_field_from_raw_string] on the text [" " + strip(v) + "\n"] — the text the
       model's [set_simple] hands to [set_raw], with the same two comment arguments.
    3. (partial) [__setitem__] on EVERY state: the lookup of the original field under [(item, 0)] for a str key (its error,
       state untouched), the original's comment element handed on as [field_comment] with
       [preserve_original_field_comment=None], and then either the regenerated [set_field_to_simple_value] on
       [strip(value)] (no newline in the value) or the regenerated [set_field_from_raw_string] on
       [" " + strip(first line) + "\n" + rest], with a final newline supplied — the very expressions of the model's
       [setitem]; [idx == len(value)] never holds; the [split] always yields two pieces there.
    2 and 3 are ties of the text-building layer only: what they delegate to is the regenerated code, not yet the model.
    4. [get_kvpair_element] of the no-duplicates class REFINES the model's [nd_get] on every state that represents a
       list of fields (C10's [nd_rep]).
    5. [set_kvpair_element] of the no-duplicates class REFINES the model's [nd_set_kvpair] under [nd_rep], for a new
       element that is fresh and spells an existing name as the existing field does; 6. the parser primitive's
       allocation is fresh.

    NOT proved (regenerated and type-checked on every run, but without a theorem): that the regenerated
    [set_field_from_raw_string] refines the model's [set_raw] on states that represent a list of fields (C10's [nd_rep]); the duplicates class; __delitem__.

    Still hand-modelled inside (Repro/DocTrPrims.v, each DEFINED from the model's functions): str.strip/lstrip/rstrip
    ([py_strip] …), endswith("\n") = [ends_nl], startswith("#") = [starts_hash], index("\n") / split("\n", 1) through
    [split_on_first], splitlines(keepends=True) = [splitlines py_islinebreak true]; the four flag properties of the mixins
    (= True; source text asserted, overriding in Deb822ParagraphElement excluded); a comment element as its text; the parser
    call on the assembled lines as the model's one-field recogniser [scan_head] (C01/C02's parser is not called again here);
    _unpack_key (C10's primitive: the model's [unpack_key]; name tokens as keys do not exist in the model). *)
From Verif Require Import Lib.Base Lib.PyStr Lib.Tr Gen.PyChars Dict.Common Dict.Heap Dict.TrPrims.
From Verif Require Import Repro.Doc Repro.StructTrPrims Repro.StructTie Repro.DocTrPrims Gen.TrDocSet Repro.DocTie.

Local Open Scope Z_scope.

(** 1. _format_comment *)
Theorem C05_tie_format_comment :
  forall c : str, tr_format_comment c = format_comment c.
Proof. exact tr_format_comment_eq. Qed.
Print Assumptions C05_tie_format_comment.

(** 2. set_field_to_simple_value — text layer.
    FULL statement (not proved): for every state with [nd_rep hp kvs kvd os fs], the call refines
    [set_simple (PN fs) k v pres (fc_of_cm fc)].  Missing: the refinement theorem for set_field_from_raw_string. *)
Theorem C05_tie_set_field_to_simple_value_text_partial :
  forall lw hp kvs kvd os k v pres fc,
    tr_nd_set_field_to_simple_value lw hp kvs kvd os k v pres fc
    = if mem_char LF v then MErr ValueError (hp, kvs, kvd, os)
      else tr_nd_set_field_from_raw_string lw hp kvs kvd os k ([SP] ++ py_strip v ++ [LF]) pres fc.
Proof. exact tr_nd_set_simple_eq. Qed.
Print Assumptions C05_tie_set_field_to_simple_value_text_partial.

(** 3. __setitem__ — text layer.
    FULL statement (not proved): for every state with [nd_rep hp kvs kvd os fs], the call refines [setitem (PN fs) k value].
    Missing: the refinement theorems for get_kvpair_element and set_field_from_raw_string. *)
Theorem C05_tie_setitem_text_partial :
  forall lw hp kvs kvd os k value,
    tr_nd_setitem lw hp kvs kvd os k value
    = match tr_nd_get_kvpair_element lw hp kvs kvd os (setitem_lookup_key k) true with
      | Err e => MErr e (hp, kvs, kvd, os)
      | Ok orig =>
          match (match orig with None => Ok None | Some kv => trp_kv_comment kvs kv end) with
          | Err e => MErr e (hp, kvs, kvd, os)
          | Ok comment =>
              let fc := option_map CElem comment in
              match split_on_first LF value with
              | (_, None) => tr_nd_set_field_to_simple_value lw hp kvs kvd os k (py_strip value) None fc
              | (first_line, Some rest) =>
                  let value' := [SP] ++ py_strip first_line ++ [LF] ++ rest in
                  let value'' := if ends_nl value' then value' else value' ++ [LF] in
                  tr_nd_set_field_from_raw_string lw hp kvs kvd os k value'' None fc
              end
          end
      end.
Proof. exact tr_nd_setitem_eq. Qed.
Print Assumptions C05_tie_setitem_text_partial.

(** 4. get_kvpair_element of Deb822NoDuplicateFieldsParagraphElement on a state that represents the list [fs] (C10's
    [nd_rep]): the model's [nd_get] — the same exception kind (KeyError for an index other than 0, or for an absent
    field without use_get), None exactly when the model says None, and otherwise an element of the store whose field is
    the field the model returns. *)
Theorem C05_tie_nd_get_kvpair_element :
  forall hp kvs kvd os fs k use_get,
    nd_rep hp kvs kvd os fs ->
    match nd_get fs k use_get with
    | Err e => tr_nd_get_kvpair_element lower hp kvs kvd os k use_get = Err e
    | Ok None => tr_nd_get_kvpair_element lower hp kvs kvd os k use_get = Ok None
    | Ok (Some f) =>
        exists kv, tr_nd_get_kvpair_element lower hp kvs kvd os k use_get = Ok (Some kv) /\ t_get kv kvs = Some f
    end.
Proof. exact tr_nd_get_rep. Qed.
Print Assumptions C05_tie_nd_get_kvpair_element.

(** 5. set_kvpair_element of Deb822NoDuplicateFieldsParagraphElement REFINES the model's [nd_set_kvpair]: for every state
    that represents the list [fs] (C10's [nd_rep]) and every element [v] of the store holding the field [vf] that
      - is not yet an element of the paragraph ([kv_unused]: no entry of the dict holds it — a boolean on the state), and
      - spells the name as the existing field of that name does, if there is one ([spell_ok]: the order set keeps the
        spelling of the existing key while the model reads the names off the fields; set_field_from_raw_string
        establishes it by re-using the original field's name),
    the regenerated method ends in a state representing the model's result — the field replaced in place, or appended
    after the final newline was supplied to the last field (C10's regenerated _ensure_final_newline, C09's regenerated
    OrderedSet.add) — and raises exactly when the model does (KeyError for an index other than 0, ValueError for a key
    that is not the field's name), then with the state still representing [fs]. *)
Theorem C05_tie_nd_set_kvpair_element :
  forall hp kvs kvd os fs k v vf,
    nd_rep hp kvs kvd os fs ->
    t_get v kvs = Some vf -> kv_unused kvd v = true -> spell_ok fs vf = true ->
    nd_refines (tr_nd_set_kvpair_element lower hp kvs kvd os k v) (res_sres fs (nd_set_kvpair fs k vf)).
Proof. exact tr_nd_set_kvpair_refines. Qed.
Print Assumptions C05_tie_nd_set_kvpair_element.

(** 6. The freshness hypothesis of 5 is what the parser primitive's allocation establishes: on every state whose dict
    and store are consistent with some list of elements ([kv_inv], the second half of [nd_rep]), the reference that
    [paragraph.get_kvpair_element(field_name)] of the freshly parsed one-field paragraph allocates ([kv_fresh], the
    allocation of [trp_pp_get]) is not in the store and not held by any entry of the dict. *)
Theorem C05_tie_parsed_element_is_fresh :
  forall kvs kvd P,
    kv_inv kvs kvd P -> t_get (kv_fresh kvs) kvs = None /\ kv_unused kvd (kv_fresh kvs) = true.
Proof. intros kvs kvd P H. split; [apply kv_fresh_get|exact (kv_fresh_unused _ _ _ H)]. Qed.
Print Assumptions C05_tie_parsed_element_is_fresh.

(** The regenerated function computes on a non-trivial value: a comment without "#" and newline is normalised. *)
Example C05_tie_example :
  tr_format_comment [32; 104; 105; 32]%N = Ok [35; 32; 104; 105; 10]%N
  /\ tr_format_comment [97; 10; 98]%N = Err ValueError.
Proof. split; vm_compute; reflexivity. Qed.
