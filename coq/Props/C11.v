(** C11 — list views of a field read the exact values and write back only what changed.
    (statements are being added; see Repro/ListProofs.v) *)
From Verif Require Import Lib.Base Lib.PyStr Gen.PyChars Repro.ListView Repro.ListSpec.
