(** C11 — list views of a field read the exact values and write back only what changed.
    Only statements; every proof is [exact <lemma>] or a short composition.

    Model: Repro/ListView.v (the functions [interpret], [run_session], [update_field],
    [reparse] that ListCheck.agree runs); spec: Repro/ListSpec.v ([split_spec], [value_ok],
    [closed_value], [good_value], [list_remove], [list_replace] that ListCheck.holds uses);
    proofs: Repro/ListLemmas.v, ListProofs.v, ListEditProofs.v, ListRefProofs.v (whitespace lists),
    ListCommaBase.v, ListCommaProofs.v (comma lists). *)
From Coq Require Import String.
From Verif Require Import Lib.Base Lib.Dec Lib.PyStr Gen.PyChars
  Repro.ListView Repro.ListSpec Repro.ListLemmas Repro.ListProofs Repro.ListEditProofs Repro.ListRefProofs
  Repro.ListCommaBase Repro.ListCommaProofs.
From Verif Require Repro.ListCheck Repro.ListCheckProofs.

Definition is_comma (k : lkind) : bool := match k with Comma => true | Space => false end.

(** 1. view_reads_split.  For every value text of the property's domain ([value_ok]: only LF
       line boundaries, some content, every line after the first starts with SP / TAB / '#'
       and is not blank) and for both interpretations, opening the view succeeds and
       list(view) is exactly the reference split of the text: comment lines dropped, the
       WHOLE remaining text split on the separator, pieces trimmed, empty pieces dropped.
       No bound on the number of lines, values, separators or comments. *)
Theorem C11_view_reads_split :
  forall k v, value_ok v = true ->
  exists vw, interpret k v = Ok vw /\ view_values vw = split_spec (is_comma k) v.
Proof.
  intros [|] v H; [exact (view_reads_split_space v H)|exact (view_reads_split_comma v H)].
Qed.

(** 2. view_noop_identity.  Opening a view, reading through it (iteration, snapshots of
       value references, reference reads) and closing it writes nothing: no exception at
       close, the field's value text - hence the document - is byte-identical.  Holds for
       EVERY value text (also outside the domain, also when opening fails). *)
Theorem C11_view_noop_identity :
  forall k name value os pre post,
    forallb read_only os = true ->
    let r := run_session k name value os in
    sr_close r = None
    /\ doc_of pre name (sr_value r) post = doc_of pre name value post.
Proof.
  intros k name value os pre post H r. subst r.
  destruct (view_noop_identity k name value os H) as [H1 H2]. now rewrite H2.
Qed.

(** 3. view_edit_readback, whitespace-separated lists.  For every value text of the domain
       that does not end inside a comment ([closed_value]), every field name accepted by the
       field-line pattern ([name_ok]) and EVERY sequence of append / remove / replace
       operations whose new values are good values (non-empty, no whitespace):
       - list(view) after opening is the reference split l0;
       - every operation does what the Python list operation does on the values (the list
         after it is the observed list), and is refused exactly when the list operation is
         not applicable (value absent), leaving everything as it was;
       - if closing the view succeeds, the text written back is again in the domain, (when
         something was written) re-parses without error to itself, and a fresh list view
         of it reads exactly the edited list;
       - if closing fails, the field keeps its text. *)
Theorem C11_view_edit_readback_space :
  forall name v os,
    value_ok v = true -> closed_value v = true -> name_ok name = true ->
    forallb edit_op os = true ->
    let r := run_session Space name v os in
    let l0 := split_spec false v in
    sr_read r = Ok l0
    /\ map outcome_list (sr_ops r) = fst (l_run os l0)
    /\ (sr_close r = None ->
        value_ok (sr_value r) = true
        /\ (sr_value r = v \/ reparse name (sr_value r) = Ok (sr_value r))
        /\ exists vw', interpret Space (sr_value r) = Ok vw' /\ view_values vw' = snd (l_run os l0))
    /\ (forall e, sr_close r = Some e -> sr_value r = v).
Proof. exact view_edit_readback_space. Qed.

(** the single step behind it: what _update_field writes for a view in the invariant reads
    back as the values of the view, is in the domain and re-parses to itself *)
Theorem C11_view_edit_valid_space :
  forall name vw v',
    inv vw -> name_ok name = true -> update_field name vw = Ok v' ->
    value_ok v' = true
    /\ reparse name v' = Ok v'
    /\ exists vw', interpret Space v' = Ok vw' /\ view_values vw' = view_values vw.
Proof. exact update_field_readback. Qed.

(** 4. view_edit_local.  Whatever the session does (any interpretation, any operations, any
       value text), the document afterwards is the document before with only the value text
       of that field exchanged; a close that raises leaves the document byte-identical.
       (In this model the list view only ever produces a new value text - _update_field
       replaces kvpair.value_element and nothing else; that the implementation's dump equals
       doc_of pre name (sr_value r) post is what the correspondence check compares.) *)
Theorem C11_view_edit_local :
  forall k name value os pre post,
    let r := run_session k name value os in
    (exists v', doc_of pre name (sr_value r) post = pre ++ name ++ [COLON] ++ v' ++ post)
    /\ (forall e, sr_close r = Some e -> doc_of pre name (sr_value r) post = doc_of pre name value post).
Proof.
  intros k name value os pre post r. split; [now exists (sr_value r)|].
  intros e He. f_equal. subst r. unfold run_session in *.
  destruct (interpret k value) as [vw|e0]; [|reflexivity].
  destruct (run_ops k os vw) as [outs vf]. unfold close in *.
  destruct (v_changed vf); [|discriminate]. destruct (update_field name vf); [discriminate|reflexivity].
Qed.

(** 5. view_edit_readback, whitespace-separated lists, directly AND through value references.
       The same for every sequence over append / remove / replace / snapshot of the value
       references / ref.value / ref.value = x / ref.remove(), against the abstract
       list-with-identities machine of ListSpec ([a_step], the one ListCheck.holds walks):
       - every operation of the model is refused exactly when the abstract operation is not
         applicable (value absent, reference index out of range, reference to a removed
         value), and then changes nothing;
       - otherwise list(view) afterwards is the abstract list and a reference read returns
         the abstract value (references survive edits of other values, a replaced value keeps
         its identity, a removed one invalidates exactly its references);
       - if closing succeeds, the written text is in the domain and a fresh view of it reads
         exactly the final abstract list; if closing fails the field keeps its text. *)
Theorem C11_view_session_refines_space :
  forall name v os,
    value_ok v = true -> closed_value v = true -> name_ok name = true ->
    forallb value_op os = true ->
    let r := run_session Space name v os in
    let st0 := a_init (split_spec false v) in
    sr_read r = Ok (split_spec false v)
    /\ map outcome_abs (sr_ops r) = fst (a_run os st0)
    /\ (sr_close r = None ->
        value_ok (sr_value r) = true
        /\ exists vw', interpret Space (sr_value r) = Ok vw'
                       /\ view_values vw' = a_values (snd (a_run os st0)))
    /\ (forall e, sr_close r = Some e -> sr_value r = v).
Proof. exact view_session_refines_space. Qed.

(** 6. view_edit_readback, comma-separated lists.  The analogue of theorem 3: for every value
       text of the domain that does not end inside a comment, every accepted field name and
       EVERY sequence of append / remove / replace operations whose new values are good values
       of a comma list (non-empty, no line boundary, no comma, no whitespace at either end -
       inner whitespace as in "libc6 (>= 2.3)" is fine):
       - list(view) after opening is the reference split l0 (comment lines dropped, the whole
         text split on ',', pieces trimmed, empty pieces dropped; a value may span lines);
       - every operation does what the Python list operation does on the values, and is
         refused exactly when the list operation is not applicable, leaving everything as it
         was.  remove covers EVERY layout: one-line and multi-line lists, leading or trailing
         commas, doubled commas, values spanning lines, comment lines between (and inside)
         values - i.e. both outcomes of _remove_node's left/right choice and clear();
       - if closing the view succeeds, the text written back is again in the domain, (when
         something was written) re-parses without error to itself, and a fresh comma view of
         it reads exactly the edited list;
       - if closing fails, the field keeps its text. *)
Theorem C11_view_edit_readback_comma :
  forall name v os,
    value_ok v = true -> closed_value v = true -> name_ok name = true ->
    forallb edit_op_c os = true ->
    let r := run_session Comma name v os in
    let l0 := split_spec true v in
    sr_read r = Ok l0
    /\ map outcome_list (sr_ops r) = fst (l_run os l0)
    /\ (sr_close r = None ->
        value_ok (sr_value r) = true
        /\ (sr_value r = v \/ reparse name (sr_value r) = Ok (sr_value r))
        /\ exists vw', interpret Comma (sr_value r) = Ok vw' /\ view_values vw' = snd (l_run os l0))
    /\ (forall e, sr_close r = Some e -> sr_value r = v).
Proof. exact view_edit_readback_comma. Qed.

(** the single step behind it: what _update_field writes for a comma view in the invariant
    [inv_c] (item shapes, token texts, complete comment lines, the line automaton accepts
    the tokens, at least one comma between two values) reads back as the values of the view,
    is in the domain and re-parses to itself *)
Theorem C11_view_edit_valid_comma :
  forall name vw v',
    inv_c vw -> name_ok name = true -> update_field name vw = Ok v' ->
    value_ok v' = true
    /\ reparse name v' = Ok v'
    /\ exists vw', interpret Comma v' = Ok vw' /\ view_values vw' = view_values vw.
Proof. exact update_field_readback_c. Qed.

(** 7. view_edit_readback, comma-separated lists, directly AND through value references.  The
       analogue of theorem 5 against the abstract list-with-identities machine [a_step]:
       every operation (append / remove / replace / snapshot of the value references /
       ref.value / ref.value = x / ref.remove()) is refused exactly when the abstract
       operation is not applicable and then changes nothing; otherwise list(view) is the
       abstract list and a reference read returns the abstract value; if closing succeeds the
       written text is in the domain, (when something was written) re-parses to itself, and a
       fresh view reads exactly the final abstract list; if closing fails the field keeps
       its text. *)
Theorem C11_view_session_refines_comma :
  forall name v os,
    value_ok v = true -> closed_value v = true -> name_ok name = true ->
    forallb value_op_c os = true ->
    let r := run_session Comma name v os in
    let st0 := a_init (split_spec true v) in
    sr_read r = Ok (split_spec true v)
    /\ map outcome_abs (sr_ops r) = fst (a_run os st0)
    /\ (sr_close r = None ->
        value_ok (sr_value r) = true
        /\ (sr_value r = v \/ reparse name (sr_value r) = Ok (sr_value r))
        /\ exists vw', interpret Comma (sr_value r) = Ok vw'
                       /\ view_values vw' = a_values (snd (a_run os st0)))
    /\ (forall e, sr_close r = Some e -> sr_value r = v).
Proof. exact view_session_refines_comma. Qed.

(** 8. the write-back of a comma list succeeds whenever there is something to write.  For a
       value text whose last line is not a comment line ([ends_on_comment v = false], which
       implies [closed_value]; a parsed document guarantees it - such a line belongs to what
       follows the field) and every sequence of the operations of theorem 6 resp. 7: if the
       edited list is not empty, closing the view raises nothing.  (So the conclusions of 6 / 7
       about the written text apply; the only refused write-back is that of an emptied list.) *)
Theorem C11_view_close_succeeds_comma :
  forall name v os,
    value_ok v = true -> ends_on_comment v = false -> name_ok name = true ->
    forallb edit_op_c os = true ->
    snd (l_run os (split_spec true v)) <> [] ->
    sr_close (run_session Comma name v os) = None.
Proof. exact view_close_succeeds_comma. Qed.

Theorem C11_session_close_succeeds_comma :
  forall name v os,
    value_ok v = true -> ends_on_comment v = false -> name_ok name = true ->
    forallb value_op_c os = true ->
    a_values (snd (a_run os (a_init (split_spec true v)))) <> [] ->
    sr_close (run_session Comma name v os) = None.
Proof. exact session_close_succeeds_comma. Qed.

(** Not covered by theorems 3, 5, 6, 7, 8 (modelled and compared on every run, not named by the
    property): the operations append_separator / append_newline / append_comment, and new
    values outside [good_value] (a comma-list value with a line break or a comment line
    inside, which the value factory accepts). *)

Local Open Scope string_scope.
Example C11_nonvacuous_read :
  let v := dec " a,\00000a b c\00000a# note, x\00000a\000009d ,, e,\00000a" in
  value_ok v = true
  /\ split_spec true v = [dec "a"; (dec "b c" ++ [LF; TAB] ++ dec "d")%list; dec "e"]
  /\ split_spec false v = [dec "a,"; dec "b"; dec "c"; dec "d"; dec ",,"; dec "e,"]
  /\ (exists vw, interpret Comma v = Ok vw /\ view_values vw = split_spec true v)
  /\ forallb read_only [OSnap; ORefGet 1; ORefGet 7] = true.
Proof. vm_compute. repeat split. eexists. split; reflexivity. Qed.

(** a session that meets every hypothesis of theorem 3: comment between the values, tab
    continuation, removal of the first, a middle and an absent value, a replace, appends;
    the close succeeds and the written text is as expected *)
Example C11_nonvacuous_edit :
  let v := dec " a b\00000a# keep me\00000a\000009c  d\00000a" in
  let os := [ORemove (dec "a"); OAppend (dec "#e"); ORemove (dec "zz"); OReplace (dec "c") (dec "x=1");
             ORemove (dec "d"); OAppend (dec "f")] in
  let r := run_session Space (dec "X-List") v os in
  value_ok v = true /\ closed_value v = true /\ name_ok (dec "X-List") = true
  /\ forallb edit_op os = true
  /\ split_spec false v = [dec "a"; dec "b"; dec "c"; dec "d"]
  /\ snd (l_run os (split_spec false v)) = [dec "b"; dec "x=1"; dec "#e"; dec "f"]
  /\ sr_close r = None
  /\ sr_value r = dec " b\00000a# keep me\00000a\000009x=1 #e f\00000a".
Proof. vm_compute. repeat split. Qed.

(** references: snapshot, write through the second, remove through the first, a stale read is
    refused, append, read the appended value through a fresh snapshot *)
Example C11_nonvacuous_refs :
  let v := dec " a b\00000a c\00000a" in
  let os := [OSnap; ORefSet 1 (dec "z"); ORefRemove 0; ORefGet 0; ORefSet 0 (dec "q");
             OAppend (dec "w"); ORefGet 2; OSnap; ORefGet 2] in
  let r := run_session Space (dec "F") v os in
  value_ok v = true /\ closed_value v = true /\ name_ok (dec "F") = true
  /\ forallb value_op os = true
  /\ map outcome_abs (sr_ops r) =
     [Some ([dec "a"; dec "b"; dec "c"], None); Some ([dec "a"; dec "z"; dec "c"], None);
      Some ([dec "z"; dec "c"], None); None; None;
      Some ([dec "z"; dec "c"; dec "w"], None); Some ([dec "z"; dec "c"; dec "w"], Some (dec "c"));
      Some ([dec "z"; dec "c"; dec "w"], None); Some ([dec "z"; dec "c"; dec "w"], Some (dec "w"))]
  /\ sr_close r = None
  /\ sr_value r = dec " z\00000a c w\00000a".
Proof. vm_compute. repeat split. Qed.


(** a session that meets every hypothesis of theorems 6 and 8: values with inner whitespace, a
    tab continuation, comment lines between values.  "c" and later "e" have a comment line
    before them and none after (unlinked together with what follows, up to the next value;
    the comment line stays), "a" is the first value (likewise), "d" finally has comment lines
    on both sides (unlinked together with what precedes it, back to the previous value); an
    absent value, a replace, appends.  The close succeeds and the written text is as expected
    (the implementation writes the same text) *)
Example C11_nonvacuous_edit_comma :
  let v := dec " a, b (>= 1),\00000a# about c\00000a\000009c, d ,\00000a# last\00000a e\00000a" in
  let os := [ORemove (dec "c"); OAppend (dec "f g"); ORemove (dec "zz");
             OReplace (dec "b (>= 1)") (dec "x | y"); ORemove (dec "a"); ORemove (dec "e");
             OAppend (dec "#h"); ORemove (dec "d")] in
  let r := run_session Comma (dec "X-List") v os in
  value_ok v = true /\ closed_value v = true /\ ends_on_comment v = false /\ name_ok (dec "X-List") = true
  /\ forallb edit_op_c os = true
  /\ split_spec true v = [dec "a"; dec "b (>= 1)"; dec "c"; dec "d"; dec "e"]
  /\ snd (l_run os (split_spec true v)) = [dec "x | y"; dec "f g"; dec "#h"]
  /\ sr_close r = None
  /\ sr_value r = dec " x | y ,\00000a# last\00000a f g, #h\00000a".
Proof. vm_compute. repeat split. Qed.

(** references on a comma list: snapshot, write through the second, remove through the first,
    stale accesses are refused, append, read through the old and through a fresh snapshot *)
Example C11_nonvacuous_refs_comma :
  let v := dec " a, b,\00000a c\00000a" in
  let os := [OSnap; ORefSet 1 (dec "z z"); ORefRemove 0; ORefGet 0; ORefSet 0 (dec "q");
             OAppend (dec "w"); ORefGet 2; OSnap; ORefGet 2] in
  let r := run_session Comma (dec "F") v os in
  value_ok v = true /\ closed_value v = true /\ ends_on_comment v = false /\ name_ok (dec "F") = true
  /\ forallb value_op_c os = true
  /\ a_values (snd (a_run os (a_init (split_spec true v)))) = [dec "z z"; dec "c"; dec "w"]
  /\ map outcome_abs (sr_ops r) =
     [Some ([dec "a"; dec "b"; dec "c"], None); Some ([dec "a"; dec "z z"; dec "c"], None);
      Some ([dec "z z"; dec "c"], None); None; None;
      Some ([dec "z z"; dec "c"; dec "w"], None); Some ([dec "z z"; dec "c"; dec "w"], Some (dec "c"));
      Some ([dec "z z"; dec "c"; dec "w"], None); Some ([dec "z z"; dec "c"; dec "w"], Some (dec "w"))]
  /\ sr_close r = None
  /\ sr_value r = dec " z z,\00000a c, w\00000a".
Proof. vm_compute. repeat split. Qed.

(** a view in the invariant of the single-step theorem (it is the one [interpret] builds) *)
Example C11_nonvacuous_valid_comma :
  exists vw, interpret Comma (dec " a,\00000a# c\00000a b") = Ok vw /\ inv_c vw
             /\ exists v', update_field (dec "F") vw = Ok v'.
Proof.
  destruct (interpret_inv_c (dec " a,\00000a# c\00000a b") eq_refl eq_refl) as [vw [H1 [H2 _]]].
  exists vw. split; [exact H1|]. split; [exact H2|].
  vm_compute in H1. injection H1 as <-. vm_compute. eexists. reflexivity.
Qed.

(** 9. agree_implies_holds: the bridge between the correspondence and the theorems above.

       For every case of the check (Repro/ListCheck.v): whenever the implementation behaved like
       the model ([agree]: same read-out, same outcome of every operation, same exception at
       close, same dump, same fresh and repeated interpretation), the property held on what the
       implementation did ([holds]).  Only [CView] cases inside [value_ok] are judged by [holds];
       all other constructors hold trivially.

       Without a side condition the statement is FALSE: [holds] uses [o_valid] (a fresh parse of
       the dump has no error element), an observation [agree] never looks at.
       [ListCheckProofs.judged c] (boolean, computed from the case), for a [CView] case inside
       [value_ok]: [o_valid]; the session makes no reformat request (PReformat =
       view.reformat_when_finished(): the text written back is then the formatter's, which the
       model does not contain - for such a session [agree] compares everything but the layout of
       the edited field, and [holds] judges it exactly as any other session, but the model does
       not determine the implementation's close outcome and re-read list, so the bridge is not
       claimed there); the hypotheses of theorems 5 / 7 ([closed_value], [name_ok], every
       operation one of append / remove / replace / snapshot / ref.value / ref.value = x /
       ref.remove() with good values - not append_separator / append_newline / append_comment);
       and [close_ok]: a refused write-back of the model happens only for an emptied list.
       [close_ok] follows, for both list kinds, from [ends_on_comment v = false] (theorem 8 for
       comma lists, theorem 10 below for whitespace lists): [C11_agree_implies_holds_text]
       restates the bridge with that condition on the value text in place of [closed_value] and
       [close_ok], so that - apart from the observation [o_valid] - the side condition speaks
       about the INPUT of the case only. *)
Theorem C11_agree_implies_holds :
  forall c, ListCheckProofs.judged c = true -> ListCheck.agree c = true -> ListCheck.holds c = true.
Proof. exact ListCheckProofs.agree_implies_holds. Qed.

Theorem C11_agree_implies_holds_text :
  forall c, ListCheckProofs.judged_text c = true -> ListCheck.agree c = true -> ListCheck.holds c = true.
Proof. exact ListCheckProofs.agree_implies_holds_text. Qed.

(** 10. the write-back of a whitespace-separated list succeeds whenever there is something to
        write: the analogue of theorem 8 ([C11_session_close_succeeds_comma]) that was missing.  For
        a value text whose last line is not a comment line and every sequence of the operations of
        theorem 5: if the edited list is not empty, closing the view raises nothing. *)
Theorem C11_session_close_succeeds_space :
  forall name v os,
    value_ok v = true -> ends_on_comment v = false -> name_ok name = true ->
    forallb value_op os = true ->
    a_values (snd (a_run os (a_init (split_spec false v)))) <> [] ->
    sr_close (run_session Space name v os) = None.
Proof. exact ListCheckProofs.session_close_succeeds_space. Qed.

(** every value of a reference split is free of comment lines (so the fresh reading that [holds]
    expects, [map drop_comment_lines final], is [final] itself); from ListSpec alone *)
Theorem C11_split_values_plain :
  forall comma v x, In x (split_spec comma v) -> drop_comment_lines x = x.
Proof. exact ListCheckProofs.split_spec_plain. Qed.

(** [judged] and [agree] hold together on non-trivial cases: a removal from a comma list, an
    append and a removal on a whitespace list *)
Example C11_agree_implies_holds_nonvacuous :
  let cs :=
    [ListCheck.CView true "" "F" " a, #b\00000a" "Z: 9\00000a" [ListCheck.PRemove "a"] (Ok ["a"; "#b"])
       [ListCheck.ODone ["#b"] None] None "F: #b\00000aZ: 9\00000a" true (Ok ["#b"]) (Ok ["#b"]);
     ListCheck.CView false "" "f" " foo\00000a" "\00000a\00000a" [ListCheck.PAppend "foo"; ListCheck.PRemove "foo"]
       (Ok ["foo"]) [ListCheck.ODone ["foo"; "foo"] None; ListCheck.ODone ["foo"] None] None
       "f: foo\00000a\00000a\00000a" true (Ok ["foo"]) (Ok ["foo"])] in
  forallb ListCheckProofs.judged cs = true /\ forallb ListCheckProofs.judged_text cs = true
  /\ forallb ListCheck.agree cs = true
  /\ forallb ListCheck.holds cs = true
  /\ forallb (fun c => match c with
                       | ListCheck.CView _ _ _ v _ _ _ _ _ _ _ _ _ => value_ok (dec v)
                       | _ => false
                       end) cs = true.
Proof. vm_compute. repeat split. Qed.

Print Assumptions C11_view_reads_split.
Print Assumptions C11_view_noop_identity.
Print Assumptions C11_view_edit_readback_space.
Print Assumptions C11_view_edit_valid_space.
Print Assumptions C11_view_edit_local.
Print Assumptions C11_view_session_refines_space.
Print Assumptions C11_view_edit_readback_comma.
Print Assumptions C11_view_edit_valid_comma.
Print Assumptions C11_view_session_refines_comma.
Print Assumptions C11_view_close_succeeds_comma.
Print Assumptions C11_session_close_succeeds_comma.
Print Assumptions C11_agree_implies_holds.
Print Assumptions C11_split_values_plain.
Print Assumptions C11_agree_implies_holds_text.
Print Assumptions C11_session_close_succeeds_space.
