(** C11 — list views of a field read the exact values and write back only what changed.
    Only statements; every proof is [exact <lemma>] or a short composition.

    Model: Repro/ListView.v; spec: Repro/ListSpec.v; proofs: Repro/ListProofs.v (+ ListLemmas.v). *)
From Coq Require Import String.
From Verif Require Import Lib.Base Lib.Dec Lib.PyStr Gen.PyChars
  Repro.ListView Repro.ListSpec Repro.ListLemmas Repro.ListProofs.

Definition is_comma (k : lkind) : bool := match k with Comma => true | Space => false end.

(** 1. view_reads_split.  For every value text of the property's domain ([value_ok]: only LF
       line boundaries, some content, every line after the first starts with SP / TAB / '#'
       and is not blank) and for both interpretations, opening the view succeeds and
       list(view) is exactly the reference split of the text: comment lines dropped, the
       WHOLE remaining text split on the separator, pieces trimmed, empty pieces dropped.
       No bound on the number of lines, values, separators or comments. *)
Theorem C11_view_reads_split :
  forall k v, value_ok v = true ->
  exists vw, interpret k v = Ok vw /\ view_values vw = split_spec (is_comma k) v.
Proof.
  intros [|] v H; [exact (view_reads_split_space v H)|exact (view_reads_split_comma v H)].
Qed.

(** 2. view_noop_identity.  Opening a view, reading through it (iteration, snapshots of
       value references, reference reads) and closing it writes nothing: no exception at
       close, the field's value text - hence the document - is byte-identical.  Holds for
       EVERY value text (also outside the domain, also when opening fails). *)
Theorem C11_view_noop_identity :
  forall k name value os pre post,
    forallb read_only os = true ->
    let r := run_session k name value os in
    sr_close r = None
    /\ doc_of pre name (sr_value r) post = doc_of pre name value post.
Proof.
  intros k name value os pre post H r. subst r.
  destruct (view_noop_identity k name value os H) as [H1 H2]. now rewrite H2.
Qed.

Local Open Scope string_scope.
Example C11_nonvacuous_read :
  let v := dec " a,\00000a b c\00000a# note, x\00000a\000009d ,, e,\00000a" in
  value_ok v = true
  /\ split_spec true v = [dec "a"; (dec "b c" ++ [LF; TAB] ++ dec "d")%list; dec "e"]
  /\ split_spec false v = [dec "a,"; dec "b"; dec "c"; dec "d"; dec ",,"; dec "e,"]
  /\ (exists vw, interpret Comma v = Ok vw /\ view_values vw = split_spec true v)
  /\ forallb read_only [OSnap; ORefGet 1; ORefGet 7] = true.
Proof. vm_compute. repeat split. eexists. split; reflexivity. Qed.

Print Assumptions C11_view_reads_split.
Print Assumptions C11_view_noop_identity.
