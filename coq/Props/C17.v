(** C17 — statements (being written). *)
From Verif Require Import Lib.Base Lib.PyStr Copyright.Fields Copyright.Doc Copyright.DocSpec.
